From Coq Require Import ZArith List PrimFloat Uint63 FloatOps SpecFloat.
From Coq Require Import Extraction ExtrOcamlBasic ExtrOCamlFloats ExtrOCamlInt63.
Import ListNotations.
Inductive tree := Leaf (z : Z) | Node (l : list tree).
Definition sumf (l : list float) : float := fold_left PrimFloat.add l 0%float.
Definition bits (f : float) : Z :=
  match Prim2SF f with
  | S754_zero s => 0 | S754_finite s m e => Z.pos m | _ => (-1) end%Z.
Definition of_Z (z : Z) : float := PrimFloat.of_uint63 (Uint63.of_Z z).
Definition run (t : tree) : tree :=
  match t with
  | Node l => Leaf (bits (PrimFloat.sqrt (sumf (map (fun x => match x with Leaf z => of_Z z | _ => 0%float end) l))))
  | _ => t end.
Extraction Language OCaml.
Set Extraction Output Directory ".".
Extraction "model.ml" run.
