import ast, sys
R="/repo/src/python/pose_format/"
def fail(msg): raise SystemExit("TRANSLATOR-FAIL: "+msg)
# 1. ConstStructs
t=ast.parse(open(R+"utils/reader.py").read())
cs=[n for n in t.body if isinstance(n,ast.ClassDef) and n.name=="ConstStructs"][0]
table={}
for n in cs.body:
    if isinstance(n,ast.AnnAssign):
        v=n.value
        if not (isinstance(v,ast.Call) and ast.unparse(v.func)=="struct.Struct" and len(v.args)==1 and isinstance(v.args[0],ast.Constant)): fail("ConstStructs."+n.target.id)
        table[n.target.id]=v.args[0].value
print(table)
# 2. header component write order
t=ast.parse(open(R+"pose_header.py").read())
def cls(name): return [n for n in t.body if isinstance(n,ast.ClassDef) and n.name==name][0]
def fn(c,name): return [n for n in c.body if isinstance(n,ast.FunctionDef) and n.name==name][0]
def write_seq(f):
    out=[]
    for st in f.body:
        if isinstance(st,ast.Expr) and isinstance(st.value,ast.Constant): continue
        if isinstance(st,ast.If):
            out.append(("guard",ast.unparse(st.test))); continue
        if isinstance(st,ast.Expr) and isinstance(st.value,ast.Call):
            c=st.value; fu=ast.unparse(c.func)
            if fu=="self._write_str": out.append(("str",ast.unparse(c.args[1])))
            elif fu=="buffer.write":
                a=c.args[0]
                if isinstance(a,ast.Call) and ast.unparse(a.func).startswith("ConstStructs.") and ast.unparse(a.func).endswith(".pack"):
                    out.append((ast.unparse(a.func).split(".")[1],[ast.unparse(x) for x in a.args]))
                else: fail("buffer.write arg "+ast.unparse(a))
            elif fu.endswith(".write") and len(c.args)==1: out.append(("sub",fu))
            else: fail("call "+fu)
        elif isinstance(st,ast.For):
            out.append(("for",ast.unparse(st.target),ast.unparse(st.iter),write_seq(st)))
        else: fail("stmt "+ast.dump(st)[:80])
    return out
print(write_seq(fn(cls("PoseHeaderComponent"),"write")))
print(write_seq(fn(cls("PoseHeaderDimensions"),"write")))
print(write_seq(fn(cls("PoseHeader"),"write")))
print(ast.unparse(fn(cls("PoseHeaderComponent"),"_write_str").body[0]))
# read order
def read_seq(f):
    out=[]
    for st in f.body:
        if isinstance(st,ast.Expr) and isinstance(st.value,ast.Constant): continue
        out.append(ast.unparse(st))
    return out
for l in read_seq(fn(cls("PoseHeaderComponent"),"read")): print("  ",l)
