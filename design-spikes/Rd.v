From Coq Require Import ZArith NArith List Lia ZifyBool ZifyN ZifyNat Bool.
Require Import ListN.
Import ListNotations.
Open Scope N_scope.
Definition bytes := list N.
Inductive result (A : Type) := Ok (a : A) | Err.
Arguments Ok {A}. Arguments Err {A}.

(* decoder programs over the reader interface (utils/reader.py): block read, skip *)
Inductive prog (A : Type) :=
| Ret (a : A)
| Block (n : N) (k : bytes -> prog A)     (* unpack / unpack_numpy of n bytes *)
| Skip (n : N) (k : prog A)
| Fail.
Arguments Ret {A}. Arguments Block {A}. Arguments Skip {A}. Arguments Fail {A}.

(* BufferReader *)
Record preader := { pbuf : bytes; poff : N }.
Fixpoint run_plain {A} (p : prog A) (r : preader) : result (A * preader) :=
  match p with
  | Ret a => Ok (a, r)
  | Fail => Err
  | Block n k => if poff r + n <=? lenN (pbuf r)
                 then run_plain (k (takeN n (dropN (poff r) (pbuf r)))) {| pbuf := pbuf r; poff := poff r + n |}
                 else Err
  | Skip n k => run_plain k {| pbuf := pbuf r; poff := poff r + n |}
  end.

(* BytesIOReader (repaired skip / read_chunk) over a stream holding [file] *)
Record sreader := { buf : bytes; off : N; skipped : N; pos : N; pulled : N }.
Definition bytes_left (r : sreader) : Z := Z.of_N (lenN (buf r)) - Z.of_N (off r) + Z.of_N (skipped r).
Definition read_chunk (file : bytes) (k : N) (r : sreader) : sreader :=
  let p := skipped r + lenN (buf r) in                       (* seek(read_skipped + len(buffer)) *)
  let d := takeN k (dropN p file) in
  {| buf := buf r ++ d; off := off r; skipped := skipped r; pos := p + lenN d; pulled := pulled r + lenN d |}.
Definition expect (file : bytes) (n : N) (r : sreader) : sreader :=
  if (bytes_left r <? Z.of_N n)%Z then read_chunk file (Z.to_N (Z.of_N n - bytes_left r)) r else r.
Definition sskip (n : N) (r : sreader) : sreader :=
  {| buf := takeN (off r - skipped r) (buf r); off := off r + n; skipped := skipped r + n; pos := pos r; pulled := pulled r |}.
Fixpoint run_stream {A} (file : bytes) (p : prog A) (r : sreader) : result (A * sreader) :=
  match p with
  | Ret a => Ok (a, r)
  | Fail => Err
  | Block n k => let r1 := expect file n r in
                 let i := off r1 - skipped r1 in
                 if i + n <=? lenN (buf r1)
                 then run_stream file (k (takeN n (dropN i (buf r1)))) {| buf := buf r1; off := off r1 + n; skipped := skipped r1; pos := pos r1; pulled := pulled r1 |}
                 else Err
  | Skip n k => run_stream file k (sskip n r)
  end.

(* invariant: the buffer is file[0..j) followed by file[j+skipped .. ), and the read position is past j *)
Definition Inv (file : bytes) (r : sreader) : Prop :=
  skipped r <= off r /\
  exists j, j <= off r - skipped r /\ off r - skipped r <= lenN (buf r) /\
    dropN j (buf r) = takeN (lenN (buf r) - j) (dropN (j + skipped r) file).
Lemma inv_len file r j : j <= lenN (buf r) ->
  dropN j (buf r) = takeN (lenN (buf r) - j) (dropN (j + skipped r) file) ->
  lenN (buf r) = j \/ skipped r + lenN (buf r) <= lenN file.
Proof. intros Hj H. apply (f_equal lenN) in H. rewrite lenN_dropN, lenN_takeN, lenN_dropN in H. lia. Qed.


Ltac open_inv H j := let Hso := fresh "Hso" in let Hj := fresh "Hj" in let Hi := fresh "Hi" in let Heq := fresh "Heq" in let Hl := fresh "Hl" in
  destruct H as [Hso [j [Hj [Hi Heq]]]];
  match type of Heq with dropN _ (buf ?r) = takeN _ (dropN _ ?file) =>
    assert (Hl : lenN (buf r) = j \/ skipped r + lenN (buf r) <= lenN file) by (apply (inv_len file r j); [lia|exact Heq]) end.

Lemma inv_read_chunk file k r : Inv file r -> Inv file (read_chunk file k r).
Proof.
  intros H. open_inv H j. unfold read_chunk, Inv; cbn [buf off skipped].
  split; [assumption|]. exists j.
  remember (buf r) as B. remember (skipped r) as s.
  assert (Hdrop : dropN (s + lenN B) file = dropN (lenN B - j) (dropN (j + s) file))
    by (rewrite dropN_dropN; f_equal; lia).
  assert (Hd : lenN (takeN k (dropN (s + lenN B) file)) = N.min k (lenN file - (s + lenN B)))
    by (now rewrite lenN_takeN, lenN_dropN).
  rewrite lenN_app. split; [lia|]. split; [lia|].
  rewrite dropN_app_le by lia. rewrite Heq, Hd, Hdrop, takeN_app_takeN.
  rewrite (takeN_clip (lenN B - j + k)), (takeN_clip (lenN B + _ - j)). f_equal. rewrite lenN_dropN. lia.
Qed.

Lemma inv_data file r n : Inv file r -> 0 < n -> off r - skipped r + n <= lenN (buf r) ->
  takeN n (dropN (off r - skipped r) (buf r)) = takeN n (dropN (off r) file) /\ off r + n <= lenN file.
Proof.
  intros H Hn Hfit. open_inv H j. split; [|lia].
  replace (dropN (off r - skipped r) (buf r)) with (dropN (off r - skipped r - j) (dropN j (buf r)))
    by (rewrite dropN_dropN; f_equal; lia).
  rewrite Heq, dropN_takeN, dropN_dropN.
  replace (off r - skipped r - j + (j + skipped r)) with (off r) by lia.
  apply takeN_takeN_le. lia.
Qed.

Lemma len_read_chunk file k r :
  lenN (buf (read_chunk file k r)) = lenN (buf r) + N.min k (lenN file - (skipped r + lenN (buf r))).
Proof. unfold read_chunk; cbn [buf]. now rewrite lenN_app, lenN_takeN, lenN_dropN. Qed.

Lemma inv_block file r n : Inv file r -> 0 < n ->
  let r1 := expect file n r in let i := off r1 - skipped r1 in
  Inv file r1 /\ off r1 = off r /\ skipped r1 = skipped r /\
  ((i + n <=? lenN (buf r1)) = (off r + n <=? lenN file)) /\
  (off r + n <= lenN file -> takeN n (dropN i (buf r1)) = takeN n (dropN (off r) file)).
Proof.
  intros HI Hn. cbv zeta.
  assert (Hos : off (expect file n r) = off r /\ skipped (expect file n r) = skipped r)
    by (unfold expect; destruct (_ <? _)%Z; split; reflexivity).
  destruct Hos as [Ho Hs].
  assert (HI1 : Inv file (expect file n r))
    by (unfold expect; destruct (_ <? _)%Z; [apply inv_read_chunk|]; exact HI).
  assert (Hlen : (off r - skipped r + n <=? lenN (buf (expect file n r))) = (off r + n <=? lenN file)).
  { pose proof HI as H. open_inv H j.
    unfold expect, bytes_left. destruct (Z.ltb_spec (Z.of_N (lenN (buf r)) - Z.of_N (off r) + Z.of_N (skipped r)) (Z.of_N n)) as [Hlt|Hge].
    - rewrite len_read_chunk. apply eq_true_iff_eq. rewrite !N.leb_le. lia.
    - apply eq_true_iff_eq. rewrite !N.leb_le. lia. }
  rewrite Ho, Hs. split; [exact HI1|]. split; [reflexivity|]. split; [reflexivity|]. split; [exact Hlen|].
  intros Hfit. pose proof (inv_data file (expect file n r) n HI1 Hn) as Hd. rewrite Ho, Hs in Hd.
  apply Hd. apply N.leb_le. rewrite Hlen. apply N.leb_le. exact Hfit.
Qed.

Lemma inv_skip file r n : Inv file r -> Inv file (sskip n r).
Proof.
  intros H. open_inv H j. unfold sskip, Inv; cbn [buf off skipped]. split; [lia|].
  exists (off r - skipped r). rewrite lenN_takeN.
  split; [lia|]. split; [lia|].
  rewrite dropN_all by (rewrite lenN_takeN; lia).
  replace (N.min (off r - skipped r) (lenN (buf r)) - (off r - skipped r)) with 0 by lia.
  now rewrite takeN_0.
Qed.

(* simulation: on the same file the stream reader computes what the plain reader computes
   (programs whose block reads are non-empty; the zero-size corner is discussed in DESIGN) *)
Fixpoint pos_blocks {A} (p : prog A) : Prop :=
  match p with Block n k => 0 < n /\ (forall b, pos_blocks (k b)) | Skip _ k => pos_blocks k | _ => True end.
Definition Sim (file : bytes) (p : preader) (s : sreader) := pbuf p = file /\ poff p = off s /\ Inv file s.
Theorem simulation {A} file (p : prog A) : pos_blocks p -> forall pr sr, Sim file pr sr ->
  match run_plain p pr, run_stream file p sr with
  | Ok (a, pr'), Ok (b, sr') => a = b /\ Sim file pr' sr'
  | Err, Err => True
  | _, _ => False
  end.
Proof.
  induction p as [a|n k IH|n k IH|]; intros Hp pr sr [Hb [Ho HI]]; cbn [run_plain run_stream].
  - split; [reflexivity|]. exact (conj Hb (conj Ho HI)).
  - destruct Hp as [Hn Hk].
    destruct (inv_block file sr n HI Hn) as [HI1 [Ho1 [Hs1 [Hlen Hdat]]]]. cbv zeta in *.
    rewrite Hlen, Hb, Ho. destruct (N.leb_spec (off sr + n) (lenN file)) as [Hfit|Hno]; [|exact I].
    rewrite (Hdat Hfit). apply IH; [apply Hk|].
    unfold Sim; cbn [pbuf poff off]. split; [reflexivity|]. split; [lia|].
    (* advancing the offset inside the buffer keeps the invariant *)
    destruct HI1 as [Hso [j [Hj [Hi Heq]]]]. unfold Inv; cbn [buf off skipped]. split; [lia|]. exists j.
    split; [lia|]. split; [|exact Heq].
    assert (Hle : off (expect file n sr) - skipped (expect file n sr) + n <= lenN (buf (expect file n sr)))
      by (apply N.leb_le; exact Hlen).
    lia.
  - apply IH; [exact Hp|]. unfold Sim; cbn [pbuf poff]. split; [assumption|]. split; [cbn; lia|]. apply inv_skip; exact HI.
  - exact I.
Qed.
Print Assumptions simulation.
