import io, struct, numpy as np, numpy.ma as ma, copy, warnings
warnings.filterwarnings("ignore")
from pose_format import Pose
from pose_format.pose_header import *
from pose_format.numpy import NumPyPoseBody
def t(label,f):
    try: print(label,"->",f())
    except Exception as e: print(label,"-> EXC",type(e).__name__,str(e)[:160])
rng=np.random.default_rng(0)
def body(conf, D=2, fps=10.0, affine=True):
    F,P,T=conf.shape
    tt=np.arange(F,dtype=np.float64)[:,None,None,None]
    a=rng.normal(size=(1,P,T,D)); b=rng.normal(size=(1,P,T,D))
    data=(a*tt+b)
    return NumPyPoseBody(fps, data.astype(np.float64), conf.astype(np.float64)), a, b
# patterns for one point one person
pats={"all":[1]*8,"never":[0]*8,"once":[0,0,1,0,0,0,0,0],"prefix":[1,1,1,0,0,0,0,0],"suffix":[0,0,0,0,1,1,1,1],"gaps":[1,0,1,0,0,1,0,1],"two":[0,1,0,0,0,1,0,0],"three":[1,0,0,1,0,0,0,1], "endsonly":[1,0,0,0,0,0,0,1], "last_only":[0]*7+[1], "first_only":[1]+[0]*7}
for kind in ("linear","quadratic","cubic"):
  for new_fps in (10.0, 20.0, 5.0, 15.0, 7.0):
    bad=[]
    for name,pat in pats.items():
        conf=np.array(pat,dtype=float).reshape(8,1,1)
        b,a,c=body(conf)
        try:
            r=b.interpolate(new_fps,kind)
        except Exception as e:
            bad.append((name,"EXC",type(e).__name__,str(e)[:50])); continue
        nF=r.data.shape[0]
        exp=round(8*new_fps/10.0)
        if nF!=exp: bad.append((name,"frames",nF,exp)); continue
        obs=[i for i,v in enumerate(pat) if v]
        newt=np.linspace(0,1,nF)*(8-1)
        for j,tj in enumerate(newt):
            inside = len(obs)>0 and obs[0]-1e-9<=tj<=obs[-1]+1e-9
            cj=r.confidence[j,0,0]; mj=r.data.mask[j,0,0,0]
            if inside and len(obs)>1:
                val=a[0,0,0]*tj+c[0,0,0]
                if mj or abs(cj-1)>1e-6 or np.abs(r.data.data[j,0,0]-val).max()>1e-6: bad.append((name,j,"inside wrong",float(cj),bool(mj),float(np.abs(r.data.data[j,0,0]-val).max())))
            elif not inside:
                if (not mj) or cj!=0: bad.append((name,j,"outside not missing",float(cj),bool(mj)))
            elif inside and len(obs)==1:
                bad.append((name,j,"single-obs: ",float(cj),bool(mj), r.data.data[j,0,0].tolist(), (a[0,0,0]*obs[0]+c[0,0,0]).tolist()))
    print(kind,new_fps,"BAD:",bad[:8],len(bad))
