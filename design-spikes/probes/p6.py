import io, struct, numpy as np, numpy.ma as ma, copy
from pose_format import Pose
from pose_format.pose_header import *
from pose_format.numpy import NumPyPoseBody
from pose_format.utils.generic import normalize_pose_size
def mk(T=3,F=4,names=None,dims=(10,20,0),seed=0):
    rng=np.random.default_rng(seed)
    comps=[PoseHeaderComponent("c", names or ["p%d"%i for i in range(T)], [(0,1)], [(255,0,0)], "XYC")]
    h=PoseHeader(0.2, PoseHeaderDimensions(*dims), comps)
    p=Pose(h, NumPyPoseBody(10.0, rng.normal(size=(F,1,T,2)).astype(np.float32)+5, (rng.random((F,1,T))>0.3).astype(np.float32)))
    b=io.BytesIO(); p.write(b); return b.getvalue()
def snap(p):
    h=p.header
    return (h.version,(h.dimensions.width,h.dimensions.height,h.dimensions.depth),[(c.name,c.format,list(c.points),[tuple(l) for l in c.limbs],np.asarray(c.colors).tolist()) for c in h.components], p.body.fps, p.body.data.data.tobytes(), p.body.data.mask.tobytes(), p.body.confidence.tobytes())
A=mk(); 
PoseHeaderCache.clear_cache(); ref=snap(Pose.read(A))
# history: read, focus, read again
PoseHeaderCache.clear_cache(); p1=Pose.read(A); p1.focus(); p2=Pose.read(A); print("after focus:", snap(p2)==ref, (p2.header.dimensions.width,p2.header.dimensions.height))
PoseHeaderCache.clear_cache(); p1=Pose.read(A); normalize_pose_size(p1); p2=Pose.read(A); print("after normalize_pose_size:", snap(p2)==ref, p2.header.dimensions.width)
PoseHeaderCache.clear_cache(); p1=Pose.read(A); p1.header.components[0].points[0]="ZZZ"; p2=Pose.read(A); print("after rename point:", snap(p2)==ref)
PoseHeaderCache.clear_cache(); p1=Pose.read(A); p1.body.data[0,0,0,0]=99; p2=Pose.read(A); print("after body write:", snap(p2)==ref)
PoseHeaderCache.clear_cache(); p1=Pose.read(A); c=p1.copy(); c.focus(); print("copy focus affects orig:", snap(p1)!=ref); 
PoseHeaderCache.clear_cache(); p1=Pose.read(A); p2=Pose.read(A); print("same header object across reads:", p1.header is p2.header)
# different file same header length but different content
B=mk(names=["q0","q1","q2"],seed=1)
PoseHeaderCache.clear_cache(); refB=snap(Pose.read(B))
PoseHeaderCache.clear_cache(); Pose.read(A); print("B after A:", snap(Pose.read(B))==refB); print("A after B:", snap(Pose.read(A))==ref)
# streams after
PoseHeaderCache.clear_cache(); Pose.read(B); print("A stream after B:", snap(Pose.read(io.BytesIO(A)))==ref)
# C07: truncation
PoseHeaderCache.clear_cache(); 
res={}
for cache in ("empty","same"):
  for n in range(len(A)):
    if cache=="empty": PoseHeaderCache.clear_cache()
    else: PoseHeaderCache.clear_cache(); Pose.read(A)
    try:
        p=Pose.read(A[:n]); res.setdefault((cache,"ACCEPT"),[]).append((n,p.body.data.shape))
    except Exception as e:
        res.setdefault((cache,type(e).__name__),[]).append(n)
for k,v in res.items(): print(k, len(v), v[:5], v[-3:])
print(len(A))
PoseHeaderCache.clear_cache(); print("appended:", snap(Pose.read(A+b"xyz123"))==ref)
