import io, struct, numpy as np, numpy.ma as ma, copy, warnings
warnings.filterwarnings("ignore")
import torch, tensorflow as tf
from pose_format import Pose
from pose_format.pose_header import *
from pose_format.numpy import NumPyPoseBody
from pose_format.torch.pose_body import TorchPoseBody
from pose_format.tensorflow.pose_body import TensorflowPoseBody
def t(label,f):
    try: print(label,"->",f())
    except Exception as e: print(label,"-> EXC",type(e).__name__,str(e)[:120])
def mk(D=2,T=3,F=4,P=2,conf=None):
    rng=np.random.default_rng(0)
    fmt={1:"XC",2:"XYC",3:"XYZC",4:"XYZWC"}[D]
    comps=[PoseHeaderComponent("c", ["p%d"%i for i in range(T)], [(0,1)], [(255,0,0)], fmt)]
    h=PoseHeader(0.2, PoseHeaderDimensions(10,10,10), comps)
    if conf is None: conf=(rng.random((F,P,T))>0.3).astype(np.float32)
    p=Pose(h, NumPyPoseBody(10.0, rng.normal(size=(F,P,T,D)).astype(np.float32), conf))
    b=io.BytesIO(); p.write(b); return b.getvalue(), p
for D in (1,2,3,4):
    b,p=mk(D)
    def f(cls):
        PoseHeaderCache.clear_cache(); q=Pose.read(b,cls); 
        m=q.body.data.mask.numpy(); v=q.body.data.tensor.numpy()
        return v.shape, m.shape, bool(np.array_equal(~m, p.body.data.mask)), bool(np.array_equal(v,p.body.data.data))
    t("D=%d torch read"%D, lambda: f(TorchPoseBody))
    t("D=%d tf read"%D, lambda: f(TensorflowPoseBody))
    t("D=%d tf convert"%D, lambda: p.body.tensorflow().data.mask.shape)
    t("D=%d torch convert"%D, lambda: p.body.torch().data.mask.shape)
# negative / nan conf
conf=np.array([[[1,0,-1]],[[np.nan,0.5,-0.0]]],dtype=np.float32)
b,p=mk(2,3,2,1,conf)
PoseHeaderCache.clear_cache(); print("numpy mask", Pose.read(b).body.data.mask[...,0].tolist())
PoseHeaderCache.clear_cache(); print("torch valid", Pose.read(b,TorchPoseBody).body.data.mask[...,0].tolist())
# zero_filled with NaN under mask
b,p=mk(2)
tb=p.body.torch(); tb.data.tensor[~tb.data.mask]=float('nan'); t("torch zero_filled nan", lambda: bool(torch.isnan(tb.zero_filled().data).any()) if not hasattr(tb.zero_filled().data,'tensor') else "masked")
t("torch body zero_filled type", lambda: type(tb.zero_filled().data))
fb=p.body.tensorflow(); t("tf body zero_filled", lambda: type(fb.zero_filled().data))
# shared ops
t("torch select_frames", lambda: tb.select_frames([0,2]).data.shape)
t("tf select_frames", lambda: fb.select_frames([0,2]).data.shape)
t("torch slice_step", lambda: tb.slice_step(2).data.shape)
t("tf slice_step", lambda: fb.slice_step(2).data.tensor.shape)
t("torch matmul", lambda: tb.matmul(np.eye(2,dtype=np.float32)).data.shape)
t("tf matmul", lambda: fb.matmul(np.eye(2,dtype=np.float32)).data.tensor.shape)
t("torch get_points", lambda: tb.get_points([2,0]).data.shape)
t("tf get_points", lambda: fb.get_points([2,0]).data.tensor.shape)
t("torch flatten", lambda: tb.flatten().shape)
t("np flatten", lambda: p.body.flatten().shape)
t("tf flatten", lambda: fb.flatten().shape)
t("torch copy", lambda: type(tb.copy()))
t("tf copy", lambda: type(fb.copy()))
t("torch getitem", lambda: tb[1:3].data.shape)
t("tf getitem", lambda: fb[1:3].data.tensor.shape)
# dropout
import random
for n in (1,2,3,10,100):
    b,p=mk(2,3,n,1)
    for name,body in (("np",p.body),("torch",p.body.torch()),("tf",p.body.tensorflow())):
        for pct in (0.0,0.5,1.0):
            def f():
                r,idx=body.frame_dropout_given_percent(pct)
                idx=[int(i) for i in idx]
                return len(idx), idx[:5]
            t("dropout %s n=%d pct=%.1f"%(name,n,pct), f)
