import io, struct, numpy as np, numpy.ma as ma
from pose_format import Pose
from pose_format.pose_header import *
from pose_format.numpy import NumPyPoseBody

def hdr(version, comps, dims=(10,20,0)):
    b=struct.pack("<f",version)+struct.pack("<HHH",*dims)+struct.pack("<H",len(comps))
    for (name,fmt,pts,limbs,colors) in comps:
        for s in (name,fmt):
            e=s.encode(); b+=struct.pack("<H",len(e))+e
        b+=struct.pack("<HHH",len(pts),len(limbs),len(colors))
        for p in pts:
            e=p.encode(); b+=struct.pack("<H",len(e))+e
        for l in limbs: b+=struct.pack("<HH",*l)
        for c in colors: b+=struct.pack("<HHH",*c)
    return b
comps=[("body","XYC",["a","b","c"],[(0,1)],[(1,2,3)]),("hand","XYC",["d","e"],[(0,1)],[(4,5,6)])]
T=5
def v00(frames, fps=30):
    b=hdr(0.0,comps)+struct.pack("<HH",fps,len(frames))
    for people in frames:
        b+=struct.pack("<H",len(people))
        for pid,vals in people:
            b+=struct.pack("<h",pid)+np.asarray(vals,np.float32).tobytes()
    return b
def v01(data,conf,fps=30,frames_field=None):
    F,P=data.shape[:2]
    return hdr(0.1,comps)+struct.pack("<HHH",fps,(F if frames_field is None else frames_field)&0xffff,P)+data.astype(np.float32).tobytes()+conf.astype(np.float32).tobytes()
rng=np.random.default_rng(1)
def person(): 
    v=rng.normal(size=(T,3)).astype(np.float32); v[rng.random(T)<0.3,2]=0; return v
frames=[[(0,person()),(1,person())],[],[(5,person())],[(0,person()),(1,person()),(2,person())]]
b=v00(frames)
def t(label,f):
    try: print(label,"->",f())
    except Exception as e: print(label,"-> EXC",type(e).__name__,str(e)[:100])
PoseHeaderCache.clear_cache()
def chk00(src,**kw):
    PoseHeaderCache.clear_cache()
    p=Pose.read(src,**kw)
    out=[]
    for f,people in enumerate(frames):
        if people:
            v=people[0][1]
            out.append(bool(np.array_equal(p.body.data.data[f,0],v[:,:2]) and np.array_equal(p.body.confidence[f,0],v[:,2]) and np.array_equal(p.body.data.mask[f,0,:,0], v[:,2]==0)))
        else:
            out.append(bool(p.body.data.mask[f].all() and (p.body.confidence[f]==0).all()))
    return p.body.data.shape,out,p.body.fps, p.body.data.dtype
t("v0.0 bytes",lambda:chk00(b))
t("v0.0 stream",lambda:chk00(io.BytesIO(b)))
t("v0.0 stream window",lambda:chk00(io.BytesIO(b),start_frame=1,end_frame=3))
t("v0.0 bytes window",lambda:chk00(b,start_frame=1,end_frame=3))
def rw():
    PoseHeaderCache.clear_cache(); p=Pose.read(b); o=io.BytesIO(); p.write(o); PoseHeaderCache.clear_cache(); q=Pose.read(o.getvalue())
    return np.array_equal(q.body.data.filled(0),p.body.data.filled(0)), np.array_equal(q.body.data.mask,p.body.data.mask), np.array_equal(q.body.confidence,p.body.confidence), q.body.fps
t("v0.0 rewrite",rw)
# v0.1
F,P=7,2
data=rng.normal(size=(F,P,T,2)).astype(np.float32); conf=(rng.random((F,P,T))>0.3).astype(np.float32)
b1=v01(data,conf)
def chk01(src,s=None,e=None,**kw):
    PoseHeaderCache.clear_cache()
    if s is not None: kw["start_frame"]=s
    if e is not None: kw["end_frame"]=e
    p=Pose.read(src,**kw); ss=s or 0; ee=F if e is None else min(e,F)
    return p.body.data.shape, bool(np.array_equal(p.body.data.data,data[ss:ee])), bool(np.array_equal(p.body.confidence,conf[ss:ee])), p.body.fps
t("v0.1 bytes",lambda:chk01(b1))
t("v0.1 stream",lambda:chk01(io.BytesIO(b1)))
t("v0.1 bytes win",lambda:chk01(b1,2,5))
t("v0.1 stream win",lambda:chk01(io.BytesIO(b1),2,5))
t("v0.1 wrong frames field",lambda:chk01(v01(data,conf,frames_field=3)))
# big v0.1 > 65535 frames
F=70000;P=1
data=rng.normal(size=(F,P,T,2)).astype(np.float32); conf=(rng.random((F,P,T))>0.3).astype(np.float32)
b2=v01(data,conf)
t("v0.1 big bytes",lambda:chk01(b2))
t("v0.1 big stream win",lambda:chk01(io.BytesIO(b2),66000,69000))
t("v0.1 big bytes win",lambda:chk01(b2,66000,69000))
# other versions
for v in (0.3,1.0,0.15,-0.1,float('nan'),0.1004,0.2004, 0.0004):
    bb=hdr(v,comps)+struct.pack("<fIH",1.0,0,1)
    def f():
        PoseHeaderCache.clear_cache(); p=Pose.read(bb); return "ACCEPTED", p.header.version, p.body.data.shape
    t("version %r"%v, f)
# v0.1 with zero people / zero points
print("----")
PoseHeaderCache.clear_cache(); p=Pose.read(b)
for f in (2,3):
    v=frames[f][0][1]
    print(f, p.body.data.data[f,0].tolist(), v[:,:2].tolist()); print(p.body.confidence[f,0], v[:,2]); print(p.body.data.mask[f,0,:,0])
