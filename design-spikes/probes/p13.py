import io, struct, numpy as np, numpy.ma as ma, copy, warnings
warnings.filterwarnings("ignore")
from pose_format import Pose
from pose_format.pose_header import *
from pose_format.numpy import NumPyPoseBody
from pose_format.utils.normalization_3d import PoseNormalizer
from scipy.spatial.transform import Rotation
def t(label,f):
    try: print(label,"->",f())
    except Exception as e: print(label,"-> EXC",type(e).__name__,str(e)[:160])
rng=np.random.default_rng(0)
def mk(F=5,P=2,T=6,D=2,conf=None,dtype=np.float32):
    comps=[PoseHeaderComponent("A", ["a%d"%i for i in range(T)], [(0,1)], [(1,1,1)], "XYZC"[:D]+"C" if D==3 else "XYC")]
    h=PoseHeader(0.2, PoseHeaderDimensions(10,10,10), comps)
    if conf is None: conf=(rng.random((F,P,T))>0.2).astype(np.float32)
    return Pose(h, NumPyPoseBody(10.0, rng.normal(size=(F,P,T,D)).astype(dtype), conf))
# normalize: 2 ref points
p=mk(); p.body.confidence[:,:,0]=1; p.body.confidence[:,:,1]=1; p=Pose(p.header, NumPyPoseBody(10.0,p.body.data.data,p.body.confidence))
info=p.header.normalization_info(("A","a0"),("A","a1"))
q=p.copy(); q.normalize(info, scale_factor=3)
d=np.sqrt(((q.body.data[:,:,0]-q.body.data[:,:,1])**2).sum(-1)).mean(); mid=((q.body.data[:,:,0]+q.body.data[:,:,1])/2).mean(axis=(0,1))
print("normalize post:", d, mid, "mask same:", np.array_equal(q.body.data.mask,p.body.data.mask))
r=p.copy(); r.body.data=r.body.data*2.5+np.array([3,-7],np.float32); r.normalize(info,scale_factor=3)
print("invariance:", np.abs(r.body.data-q.body.data).max())
# reference points partly missing
p2=mk(); t("normalize w/ missing refs", lambda: (p2.copy().normalize(info).body.data.mask.sum(), p2.body.data.mask.sum()))
# normalize_distribution
p=mk(); q=p.copy(); mu,std=q.normalize_distribution(axis=(0,1)); print("dist:", np.abs(q.body.data.mean(axis=(0,1))).max(), np.abs(q.body.data.std(axis=(0,1))-1).max()); q.unnormalize_distribution(mu,std); print("unnorm:", np.abs(q.body.data-p.body.data).max(), np.array_equal(q.body.data.mask,p.body.data.mask))
# 3D normalizer
T=5
pts=rng.normal(size=(4,2,T,3))
m=ma.masked_array(pts, mask=np.zeros_like(pts,bool))
from pose_format.pose_header import PoseNormalizationInfo as I
N=PoseNormalizer(plane=I(0,1,2), line=I(0,3), size=2.0)
out=N(m.copy())
print("3d: line p1 at origin:", np.abs(out[:,:,0]).max(), " plane z:", np.abs(out[:,:,[0,1,2],2]).max(), " line p2:", out[0,0,3], np.linalg.norm(out[0,0,3][:2]))
R=Rotation.random(random_state=1).as_matrix()
out2=N(ma.masked_array(pts@R.T*1.7+np.array([1,2,3]), mask=np.zeros_like(pts,bool)))
print("3d rot invariance:", np.abs(out2-out).max())
out3=N(ma.masked_array(pts*1.7+np.array([1,2,3]), mask=np.zeros_like(pts,bool)))
print("3d transl/scale invariance:", np.abs(out3-out).max())
# pairwise distances preserved up to scale?
def pd(x): return np.linalg.norm(x[:,None]-x[None],axis=-1)
print("3d shape preserved (ratio spread):", np.nanstd((pd(out[0,0])/pd(pts[0,0]))[np.triu_indices(T,1)]))
