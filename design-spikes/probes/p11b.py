import io, copy, numpy as np, numpy.ma as ma, warnings
warnings.filterwarnings("ignore")
from pose_format import Pose
from pose_format.pose_header import *
from pose_format.numpy import NumPyPoseBody
from pose_format.utils.generic import pose_hide_legs, correct_wrists, correct_wrist, reduce_holistic, fake_pose, detect_known_pose_format
from pose_format.utils.openpose import OpenPose_Components
def t(label,f):
    try: print(label,"->",f())
    except Exception as e: print(label,"-> EXC",type(e).__name__,str(e)[:140])
def snapshot(p):
    d={}; i=0
    for c in p.header.components:
        for n in c.points:
            d[(c.name,n)]=(np.asarray(p.body.data.data[:,:,i]).copy(), np.asarray(ma.getmaskarray(p.body.data)[:,:,i]).copy(), np.asarray(p.body.confidence[:,:,i]).copy()); i+=1
    return d
def changed(a,b):
    return sorted(k for k in a if k in b and not (np.array_equal(a[k][0],b[k][0],equal_nan=True) and np.array_equal(a[k][1],b[k][1]) and np.array_equal(a[k][2],b[k][2])))
# openpose
np.random.seed(0)
p=fake_pose(5, components=copy.deepcopy(OpenPose_Components)); 
conf=(np.random.rand(*p.body.confidence.shape)>0.3).astype(np.float32); p=Pose(p.header, NumPyPoseBody(25, p.body.data.data.astype(np.float32), conf))
s0=snapshot(p); q=pose_hide_legs(copy.deepcopy(p)); ch=changed(s0,snapshot(q)); print("openpose hide legs changed:", [k[1] for k in ch]); print(" returned is same object?", pose_hide_legs(p) is p)
p=Pose(p.header, NumPyPoseBody(25, s0[("pose_keypoints_2d","Nose")][0].repeat(1,0)[...,None,:].repeat(137,2).astype(np.float32), conf)) if False else p
p2=fake_pose(5, components=copy.deepcopy(OpenPose_Components)); p2=Pose(p2.header, NumPyPoseBody(25, p2.body.data.data.astype(np.float32), conf))
s0=snapshot(p2); r=pose_hide_legs(copy.deepcopy(p2), remove=True); s1=snapshot(r); print("remove legs: removed:", sorted(set(k[1] for k in s0)-set(k[1] for k in s1 if k[0]=="pose_keypoints_2d") - set(k[1] for k in s0 if k[0]!="pose_keypoints_2d")), "others changed:", changed(s0,s1))
s0=snapshot(p2); w=correct_wrists(p2); print("correct_wrists changed:", changed(s0,snapshot(w)), "source untouched:", changed(s0,snapshot(p2))==[])
# where hand wrist conf==0 -> body wrist kept?; where hand wrist conf!=0 -> body wrist := hand wrist
hi=p2.header.get_point_index("hand_left_keypoints_2d","BASE"); bi=p2.header.get_point_index("pose_keypoints_2d","LWrist")
hc=p2.body.confidence[:,:,hi]; 
ok=np.array_equal(np.where(hc[...,None]==0, p2.body.data.data[:,:,bi], p2.body.data.data[:,:,hi]), w.body.data.data[:,:,bi]); print(" wrist rule data ok:", ok, " mask after:", ma.getmaskarray(w.body.data)[:,:,bi,0].tolist()[:3], "conf:", w.body.confidence[:,:,bi].tolist()[:3])
# holistic from fixture
b=open("/repo/src/python/tests/data/mediapipe.pose","rb").read(); PoseHeaderCache.clear_cache(); h=Pose.read(b)
print([ (c.name,len(c.points)) for c in h.header.components], detect_known_pose_format(h))
t("reduce_holistic on fixture", lambda: [(c.name,len(c.points)) for c in reduce_holistic(h).header.components])
t("hide legs holistic fixture", lambda: pose_hide_legs(copy.deepcopy(h)).body.data.shape)
