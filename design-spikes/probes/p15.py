import io, struct, numpy as np, numpy.ma as ma, copy, warnings
warnings.filterwarnings("ignore")
from pose_format import Pose
from pose_format.pose_header import *
from pose_format.numpy import NumPyPoseBody
def t(label,f):
    try: print(label,"->",f())
    except Exception as e: print(label,"-> EXC",type(e).__name__,str(e)[:160])
rng=np.random.default_rng(0)
def mk(F=3,P=2,D=2,conf=None):
    comps=[PoseHeaderComponent("A", ["a0","a1","a2"], [(0,1)], [(1,1,1)], "XYZC" if D==3 else "XYC"),PoseHeaderComponent("B", ["b0","b1"], [(0,1)], [(1,1,1)], "XYZC" if D==3 else "XYC")]
    h=PoseHeader(0.2, PoseHeaderDimensions(10,10,10), comps)
    if conf is None: conf=(rng.random((F,P,5))>0.3).astype(np.float32)
    return Pose(h, NumPyPoseBody(10.0, rng.normal(size=(F,P,5,D)).astype(np.float32)*10, conf))
for D in (2,3):
    p=mk(D=D)
    # garbage under mask
    p.body.data.data[p.body.data.mask]=np.nan
    f=p.flip(0); print(D,"flip: conf same",np.array_equal(f.body.confidence,p.body.confidence),"mask same",np.array_equal(f.body.data.mask,p.body.data.mask), "vals", np.array_equal(f.body.data.filled(0)[...,0],-p.body.data.filled(0)[...,0]) and np.array_equal(f.body.data.filled(0)[...,1:],p.body.data.filled(0)[...,1:]), f.body.data.dtype)
    ff=f.flip(0); print("  involution:", np.array_equal(ff.body.data.filled(0),p.body.data.filled(0)))
    t("  matmul identity", lambda: (np.array_equal(p.body.matmul(np.eye(D,dtype=np.float32)).data.filled(0), p.body.data.filled(0)), np.array_equal(p.body.matmul(np.eye(D,dtype=np.float32)).data.mask, p.body.data.mask)))
    t("  augment zero std", lambda: np.array_equal(p.augment2d(0,0,0).body.data.filled(0), p.body.data.filled(0)))
    np.random.seed(1); a=p.augment2d(); 
    t("  augment mask same", lambda: (np.array_equal(a.body.data.mask,p.body.data.mask), np.array_equal(a.body.confidence,p.body.confidence), bool(np.isnan(a.body.data.filled(0)).any())))
    # focus
    q=p.copy(); q.header=copy.deepcopy(p.header)
    mins=p.body.data.min(axis=(0,1,2)); maxs=p.body.data.max(axis=(0,1,2))
    q.focus(); print("  focus: min after", q.body.data.min(axis=(0,1,2)), "dims", (q.header.dimensions.width,q.header.dimensions.height,q.header.dimensions.depth), np.ceil(maxs-mins))
    # bbox
    t("  bbox", lambda: (p.bbox().body.data.shape, p.bbox().body.confidence.shape, [c.points for c in p.bbox().header.components]))
    bb=p.bbox()
    ok=True
    for ci,(lo,hi) in enumerate([(0,3),(3,5)]):
        sub=p.body.data[:,:,lo:hi]
        mn=sub.min(axis=2); mx=sub.max(axis=2)
        ok&=np.array_equal(ma.filled(mn,0), bb.body.data[:,:,2*ci].filled(0)) and np.array_equal(ma.filled(mx,0), bb.body.data[:,:,2*ci+1].filled(0)) and np.array_equal(ma.getmaskarray(mn), bb.body.data.mask[:,:,2*ci])
    print("  bbox tight:", ok, "conf/mask consistent:", np.array_equal(bb.body.confidence==0, bb.body.data.mask[...,0]))
# focus with all-zero min
p=mk(); p.body.data[...]=ma.abs(p.body.data); 
# whole pose masked
p=mk(conf=np.zeros((3,2,5),np.float32)); t("focus all missing", lambda: (p.focus(), p.header.dimensions.width))
t("bbox all missing", lambda: p.bbox().body.confidence.sum())
# focus with exact zero min on one axis and nonzero other
p=mk(); d=p.body.data.data; d[...,0]=np.abs(d[...,0]); d[0,0,0,0]=0; p.body.confidence[0,0,0]=1; p=Pose(p.header,NumPyPoseBody(10.0,d,p.body.confidence)); p.focus(); print("focus zero-min axis:", p.body.data.min(axis=(0,1,2)))
