import io, struct, numpy as np, numpy.ma as ma, copy, warnings
warnings.filterwarnings("ignore")
from pose_format import Pose
from pose_format.pose_header import *
from pose_format.numpy import NumPyPoseBody
def t(label,f):
    try: print(label,"->",f())
    except Exception as e: print(label,"-> EXC",type(e).__name__,str(e)[:120])
rng=np.random.default_rng(0)
def mk(F=3,P=2):
    comps=[PoseHeaderComponent("A", ["a0","a1","a2","a3"], [(0,1),(1,2),(2,3),(3,0)], [(1,1,1),(2,2,2)], "XYC"),
           PoseHeaderComponent("B", ["b0","b1"], [(0,1)], [(3,3,3)], "XYC"),
           PoseHeaderComponent("C", ["c0","c1","c2"], [(0,2)], [(4,4,4)], "XYC")]
    h=PoseHeader(0.2, PoseHeaderDimensions(10,10,10), comps)
    T=9
    conf=(rng.random((F,P,T))>0.3).astype(np.float32)
    return Pose(h, NumPyPoseBody(10.0, rng.normal(size=(F,P,T,2)).astype(np.float32), conf))
p=mk()
def byname(p):
    d={}
    i=0
    for c in p.header.components:
        for n in c.points:
            d[(c.name,n)]=(p.body.data.data[:,:,i].tobytes(), p.body.data.mask[:,:,i].tobytes(), p.body.confidence[:,:,i].tobytes()); i+=1
    return d
def limbs(p):
    return {c.name: sorted((c.points[a],c.points[b]) for a,b in c.limbs) for c in p.header.components}
src=byname(p)
q=p.get_components(["C","A"],{"A":["a3","a1","a0"]})
print([ (c.name,c.points,c.limbs) for c in q.header.components])
print(all(byname(q)[k]==src[k] for k in byname(q)), limbs(q))
# duplicates in selection
t("dup points", lambda: p.get_components(["A"],{"A":["a1","a1"]}).body.data.shape)
t("dup comps", lambda: [c.name for c in p.get_components(["A","A"]).header.components])
t("absent comp", lambda: [c.name for c in p.get_components(["Z"]).header.components])
t("absent point", lambda: p.get_components(["A"],{"A":["zz"]}).body.data.shape)
t("remove absent", lambda: [ (c.name,c.points) for c in p.remove_components(["Z"],{"A":["zz","a1"]}).header.components])
t("remove all", lambda: p.remove_components(["A","B","C"]).body.data.shape)
# does get_components share limbs/colors list objects with source?
q=p.get_components(["A"]); print("colors shared:", q.header.components[0].colors is p.header.components[0].colors, "points shared:", q.header.components[0].points is p.header.components[0].points, "limbs shared", q.header.components[0].limbs is p.header.components[0].limbs)
print("dims shared:", q.header.dimensions is p.header.dimensions)
# body sharing
q.body.data[0,0,0,0]=1234; print("body shared:", p.body.data[0,0,0,0]==1234)
# relative_limbs stale?
q=p.get_components(["A"],{"A":["a3","a1","a0"]}); print(q.header.components[0].limbs, q.header.components[0].relative_limbs)
# duplicate point names within a component / duplicate component names
comps=[PoseHeaderComponent("A", ["x","x","y"], [(0,1),(1,2)], [(1,1,1)], "XYC"),PoseHeaderComponent("A", ["z"], [], [(1,1,1)], "XYC")]
h=PoseHeader(0.2, PoseHeaderDimensions(10,10,10), comps)
pp=Pose(h, NumPyPoseBody(10.0, rng.normal(size=(1,1,4,2)).astype(np.float32), np.ones((1,1,4),np.float32)))
t("dup names select", lambda: [(c.name,c.points,c.limbs) for c in pp.get_components(["A"]).header.components])
