import numpy as np, numpy.ma as ma, warnings
warnings.filterwarnings("ignore")
import torch, tensorflow as tf
from pose_format.pose_header import *
from pose_format.torch.masked import MaskedTensor as TM
from pose_format.torch.representation.angle import AngleRepresentation as TA
from pose_format.torch.representation.distance import DistanceRepresentation as TD
from pose_format.torch.representation.inner_angle import InnerAngleRepresentation as TI
from pose_format.torch.representation.point_line_distance import PointLineDistanceRepresentation as TP
from pose_format.torch.representation.points import PointsRepresentation as TPt
from pose_format.tensorflow.representation.angle import AngleRepresentation as FA
from pose_format.tensorflow.representation.distance import DistanceRepresentation as FD
from pose_format.tensorflow.representation.inner_angle import InnerAngleRepresentation as FI
from pose_format.tensorflow.representation.point_line_distance import PointLineDistanceRepresentation as FP
from pose_format.numpy.representation.distance import DistanceRepresentation as ND
from pose_format.torch.pose_representation import TorchPoseRepresentation
from pose_format.tensorflow.pose_representation import TensorflowPoseRepresentation
def t(label,f):
    try: print(label,"->",f())
    except Exception as e: print(label,"-> EXC",type(e).__name__,str(e)[:140])
rng=np.random.default_rng(0)
for D in (2,3):
    S=(4,2,3,D)
    a,b,c=[rng.normal(size=S).astype(np.float32) for _ in range(3)]
    ones=np.ones(S,bool)
    ta,tb,tc=[TM(torch.tensor(x),torch.tensor(ones)) for x in (a,b,c)]
    # references in float64
    A,B,C=[x.astype(np.float64) for x in (a,b,c)]
    dist=np.sqrt(((A-B)**2).sum(-1)); ang=np.arctan((B-A)[...,1]/(B-A)[...,0])
    v1=A-B; v2=C-B; inner=np.arccos((v1*v2).sum(-1)/np.linalg.norm(v1,axis=-1)/np.linalg.norm(v2,axis=-1))
    if D==3: pld=np.linalg.norm(np.cross(A-B,C-B),axis=-1)/np.linalg.norm(C-B,axis=-1)
    else: pld=np.abs((A-B)[...,0]*(C-B)[...,1]-(A-B)[...,1]*(C-B)[...,0])/np.linalg.norm(C-B,axis=-1)
    e=lambda x,y: float(np.abs(np.asarray(x)-y).max())
    t("D=%d torch dist"%D, lambda: e(TD()(ta,tb).numpy(),dist)); t("  tf dist", lambda: e(FD()(tf.constant(a),tf.constant(b)).numpy(),dist)); t("  np dist", lambda: e(ND()(ma.array(a),ma.array(b)),dist))
    t("  torch angle", lambda: e(TA()(ta,tb).numpy(),ang)); t("  tf angle", lambda: e(FA()(tf.constant(a),tf.constant(b)).numpy(),ang))
    t("  torch inner", lambda: e(TI()(ta,tb,tc).numpy(),inner)); t("  tf inner", lambda: e(FI()(tf.constant(a),tf.constant(b),tf.constant(c)).numpy(),inner))
    t("  torch pld", lambda: e(TP()(ta,tb,tc).numpy(),pld)); t("  tf pld", lambda: e(FP()(tf.constant(a),tf.constant(b),tf.constant(c)).numpy(),pld))
    # masked
    m=rng.random(S[:3])>0.5; mm=np.repeat(m[...,None],D,axis=3)
    for fill in (5.0,np.nan,np.inf):
        a2=a.copy(); a2[~mm]=fill
        tam=TM(torch.tensor(a2),torch.tensor(mm))
        for nm,f in (("dist",lambda: TD()(tam,tb)),("angle",lambda: TA()(tam,tb)),("inner",lambda: TI()(tam,tb,tc)),("pld",lambda: TP()(tam,tb,tc))):
            try:
                r=f().numpy(); print("   masked fill=%s %s: zero at masked: %s finite: %s"%(fill,nm,bool((r[~m]==0).all()), bool(np.isfinite(r).all())))
            except Exception as ex: print("   masked",nm,"EXC",ex)
# assembled
comps=[PoseHeaderComponent("A", ["a0","a1","a2"], [(0,1),(1,2)], [(1,1,1)], "XYC"),PoseHeaderComponent("B", ["b0","b1","b2"], [(0,1),(1,2),(2,0)], [(1,1,1)], "XYC")]
h=PoseHeader(0.2, PoseHeaderDimensions(10,10,10), comps)
rep=TorchPoseRepresentation(h,[TPt()],[TA(),TD()],[TI()])
print("sizes", rep.input_size, rep.rep_modules1_size, rep.rep_modules2_size, rep.rep_modules3_size, rep.output_size, rep.limb_pt1s.tolist(), rep.limb_pt2s.tolist(), rep.triangle_pt1s.tolist(), rep.triangle_pt2s.tolist(), rep.triangle_pt3s.tolist())
src=TM(torch.tensor(rng.normal(size=(2,5,6,3)).astype(np.float32)))
t("torch assembled shape", lambda: tuple(rep(src).shape))
rep2=TensorflowPoseRepresentation(h,[],[FA(),FD()],[FI()])
t("tf assembled shape", lambda: (tuple(rep2(tf.constant(rng.normal(size=(2,5,6,2)).astype(np.float32))).shape), rep2.output_size))
