import io, json, subprocess, struct, numpy as np, sys
from pose_format import Pose
from pose_format.pose_header import *
from pose_format.numpy import NumPyPoseBody
def pydump(b, nframes=3):
    PoseHeaderCache.clear_cache(); p=Pose.read(b); h=p.header
    PoseHeaderCache.clear_cache()
    out={"version":float(np.float32(h.version)) if False else h.version,"w":h.dimensions.width,"h":h.dimensions.height,"d":h.dimensions.depth,"headerLength":PoseHeaderCache.end_offset,
      "comps":[{"name":c.name,"format":c.format,"points":c.points,"limbs":[{"from":int(a),"to":int(bb)} for a,bb in c.limbs],"colors":[{"R":int(r),"G":int(g),"B":int(bl)} for r,g,bl in np.asarray(c.colors).reshape(-1,3)]} for c in h.components],
      "fps":p.body.fps,"frames":int(p.body.data.shape[0]),"people":int(p.body.data.shape[1])}
    PoseHeaderCache.clear_cache(); Pose.read(b); out["headerLength"]=PoseHeaderCache.end_offset
    fr=[]
    d=np.asarray(p.body.data.data,dtype=np.float32).view(np.uint32); c=np.asarray(p.body.confidence,dtype=np.float32).view(np.uint32)
    for i in range(min(nframes,d.shape[0])):
        people=[]
        for j in range(d.shape[1]):
            person={}; k=0
            for comp in h.components:
                pts=[]
                for l in range(len(comp.points)):
                    pt={}
                    di=0
                    for ch in comp.format:
                        if ch=="C": pt["C"]=int(c[i,j,k+l])
                        else: pt[ch]=int(d[i,j,k+l,di]); di+=1
                    pts.append(pt)
                person[comp.name]=pts; k+=len(comp.points)
            people.append(person)
        fr.append(people)
    out["first"]=fr
    return out
def jsdump(path):
    r=subprocess.run(["node","run_full.js",path],capture_output=True,text=True)
    if r.returncode!=0: return ("EXC", r.stderr[-300:])
    return json.loads(r.stdout)
open("run_full.js","w").write(open("run.js").read().replace("console.log(JSON.stringify(out).slice(0, 1500));","console.log(JSON.stringify(out));"))
def cmp(name,b):
    open("/tmp/spike/js/f.pose","wb").write(b)
    P=pydump(b); J=jsdump("/tmp/spike/js/f.pose")
    if isinstance(J,tuple): print(name,"JS EXC",J[1]); return
    diffs=[k for k in P if k!="first" and P[k]!=J.get(k)]
    # JS v0.0 has no 'people' field at body level
    fd=None
    for i,(a,b2) in enumerate(zip(P["first"],J["first"])):
        if P.get("version")==0: b2=b2[:1] if b2 else b2   # python keeps first person
        if a!=b2: fd=i; break
    print(name,"meta diffs:",[(k,P[k],J.get(k)) for k in diffs][:4],"first frame diff:",fd)
for fn in ("mediapipe.pose","openpose.pose"):
    cmp(fn, open("/repo/src/python/tests/data/"+fn,"rb").read())
rng=np.random.default_rng(0)
def mk(fmts, F=3,P=2):
    comps=[PoseHeaderComponent("c%d"%i, ["p%d_%d"%(i,k) for k in range(2+i)], [(0,1)], [(1,2,3)], f) for i,f in enumerate(fmts)]
    h=PoseHeader(0.2, PoseHeaderDimensions(10,20,30), comps); T=sum(len(c.points) for c in comps); D=max(len(f) for f in fmts)-1
    p=Pose(h, NumPyPoseBody(12.5, rng.normal(size=(F,P,T,D)).astype(np.float32), (rng.random((F,P,T))>0.3).astype(np.float32)))
    b=io.BytesIO(); p.write(b); return b.getvalue()
cmp("v0.2 XYC x2 comps, 2 people", mk(["XYC","XYC"]))
cmp("v0.2 XYZC", mk(["XYZC","XYZC","XYZC"]))
cmp("v0.2 mixed XYC/XYZC", mk(["XYC","XYZC"]))
cmp("v0.2 CXY", mk(["CXY"]))
cmp("v0.2 zero frames", mk(["XYC"],F=0))
