import io, numpy as np, numpy.ma as ma, warnings, copy, random, collections
warnings.filterwarnings("ignore")
from pose_format import Pose
from pose_format.pose_header import *
from pose_format.numpy import NumPyPoseBody
def mk(D, seed, F=6,P=2):
    rng=np.random.default_rng(seed)
    fmt="XYZC" if D==3 else "XYC"
    comps=[PoseHeaderComponent("A", ["a0","a1","a2"], [(0,1),(1,2)], [(1,1,1)], fmt),PoseHeaderComponent("B", ["b0","b1"], [(0,1)], [(1,1,1)], fmt)]
    h=PoseHeader(0.2, PoseHeaderDimensions(10,10,10), comps)
    conf=(rng.random((F,P,5))>0.3).astype(np.float32); conf[:,:,0]=1; conf[:,:,1]=1
    data=rng.normal(size=(F,P,5,D)).astype(np.float32)*10
    return Pose(h, NumPyPoseBody(10.0, data, conf))
def inv(p):
    h,b=p.header,p.body
    T=h.total_points(); 
    try: D=h.num_dims()
    except Exception as e: return "num_dims raises "+type(e).__name__
    if not isinstance(b.data, ma.MaskedArray): return "data not masked: %s"%type(b.data)
    if b.data.ndim!=4: return "rank %d"%b.data.ndim
    F,P,T2,D2=b.data.shape
    if T2!=T: return "points %d vs header %d"%(T2,T)
    if D2!=D: return "dims %d vs header %d"%(D2,D)
    c=np.asarray(b.confidence)
    if c.shape!=(F,P,T): return "conf shape %s vs %s"%(c.shape,(F,P,T))
    m=ma.getmaskarray(b.data)
    if not np.array_equal(m, np.repeat((c==0)[...,None],D,axis=3)): return "mask != (conf==0)"
    return None
def rt(p):
    bb=io.BytesIO(); p.write(bb); PoseHeaderCache.clear_cache(); q=Pose.read(bb.getvalue())
    if q.body.data.shape!=p.body.data.shape: return "rt shape"
    if not np.array_equal(q.body.data.filled(0), np.asarray(p.body.data.filled(0),dtype=np.float32)): return "rt values"
    if not np.array_equal(q.body.data.mask, ma.getmaskarray(p.body.data)): return "rt mask"
    if not np.array_equal(q.body.confidence, np.asarray(p.body.confidence,dtype=np.float32)): return "rt conf"
    if [ (c.name,c.points,[tuple(l) for l in c.limbs]) for c in q.header.components]!=[ (c.name,c.points,[tuple(l) for l in c.limbs]) for c in p.header.components]: return "rt header"
    return None
def names(p): return [c.name for c in p.header.components]
OPS={
 "select": lambda p,r: p.get_components(r.sample(names(p), r.randint(1,len(names(p))))) ,
 "select_pts": lambda p,r: (lambda c: p.get_components([c.name],{c.name:r.sample(c.points,r.randint(1,len(c.points)))}))(r.choice(p.header.components)),
 "bbox": lambda p,r: p.bbox(),
 "interpolate": lambda p,r: p.interpolate(r.choice([5,10,15,25]), r.choice(["linear","quadratic","cubic"])) if len(p.body.data)>=2 else p,
 "step": lambda p,r: p.slice_step(r.choice([1,2,3])),
 "select_frames": lambda p,r: Pose(p.header,p.body.select_frames(sorted(r.sample(range(len(p.body.data)), r.randint(1,len(p.body.data)))))) if len(p.body.data)>0 else p,
 "dropout_u": lambda p,r: p.frame_dropout_uniform()[0],
 "dropout_n": lambda p,r: p.frame_dropout_normal()[0],
 "flip": lambda p,r: p.flip(r.randrange(p.body.data.shape[-1])),
 "augment": lambda p,r: p.augment2d(),
 "focus": lambda p,r: (p.focus(),p)[1] if (~ma.getmaskarray(p.body.data)).any() else p,
 "copy": lambda p,r: p.copy(),
 "normalize_dist": lambda p,r: (p.normalize_distribution(axis=(0,1,2)),p)[1],
}
bad=collections.Counter(); ex={}
for seed in range(400):
    r=random.Random(seed); np.random.seed(seed)
    p=mk(r.choice([2,3]),seed); p.header=copy.deepcopy(p.header)
    seq=[]
    for step in range(r.randint(1,6)):
        name=r.choice(list(OPS)); seq.append(name)
        try: p=OPS[name](p,r)
        except Exception as e:
            k=("EXC",name,type(e).__name__,str(e)[:70]); bad[k]+=1; ex.setdefault(k,(seed,list(seq))); break
        i=inv(p)
        if i: 
            k=("INV",name,i); bad[k]+=1; ex.setdefault(k,(seed,list(seq))); break
    else:
        try: w=rt(p)
        except Exception as e: w="rt EXC %s %s"%(type(e).__name__,str(e)[:60])
        if w: k=("RT",w); bad[k]+=1; ex.setdefault(k,(seed,list(seq)))
for k,v in bad.most_common(): print(v,k,ex[k])
