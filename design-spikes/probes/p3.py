import io, struct, numpy as np, numpy.ma as ma, itertools
from pose_format import Pose
from pose_format.pose_header import *
from pose_format.numpy import NumPyPoseBody

def mk(T=2, F=10, P=1, D=2, fps=10.0, longname=0):
    pts=[("p%d"%i)+("x"*longname) for i in range(T)]
    comps=[PoseHeaderComponent("c", pts, [(0,1)] if T>1 else [], [(255,0,0)], "XYZC"[:D]+"C" if D!=2 else "XYC")]
    h=PoseHeader(0.2, PoseHeaderDimensions(10,10,10), comps)
    data=np.arange(F*P*T*D,dtype=np.float32).reshape(F,P,T,D)
    conf=(np.arange(F*P*T)%3!=0).astype(np.float32).reshape(F,P,T)+np.arange(F*P*T).reshape(F,P,T)*np.float32(0.001)*(np.arange(F*P*T)%3!=0).reshape(F,P,T)
    p=Pose(h, NumPyPoseBody(fps, data, conf.astype(np.float32)))
    b=io.BytesIO(); p.write(b); return b.getvalue()

class CS(io.BytesIO):
    def __init__(s,b): super().__init__(b); s.n=0
    def read(s,n=-1):
        r=super().read(n); s.n+=len(r); return r

def same(a,b):
    return a.body.fps==b.body.fps and a.body.data.shape==b.body.data.shape and np.array_equal(a.body.data.data.view(np.uint32),b.body.data.data.view(np.uint32)) and np.array_equal(a.body.data.mask,b.body.data.mask) and np.array_equal(a.body.confidence,b.body.confidence)

def run(b, kind, cache, **kw):
    if cache=="empty": PoseHeaderCache.clear_cache()
    elif cache=="same": PoseHeaderCache.clear_cache(); Pose.read(b)
    elif cache=="other": PoseHeaderCache.clear_cache(); Pose.read(OTHER)
    src = b if kind=="bytes" else CS(b)
    try:
        r=Pose.read(src, **kw)
    except Exception as e:
        return ("EXC", type(e).__name__, str(e)[:60]), src
    return r, src

OTHER=mk(T=5,F=2,longname=3)
for (T,F,ln) in [(2,10,0),(2,10,3000),(30,100,0),(137,100,0),(3,2000,0)]:
    b=mk(T=T,F=F,longname=ln)
    PoseHeaderCache.clear_cache(); full=Pose.read(b); hdr_end=PoseHeaderCache.end_offset
    print("FILE T=%d F=%d len=%d hdr_end=%d"%(T,F,len(b),hdr_end))
    bad={}
    for kind in ("bytes","stream"):
      for cache in ("empty","same","other"):
        for (s,e) in [(None,None),(0,5),(1,5),(3,None),(None,4),(5,5),(2,F),(2,F+10),(F-1,F),(F,F+1),(0,0),(F//2, F//2+1)]:
            kw={}
            if s is not None: kw["start_frame"]=s
            if e is not None: kw["end_frame"]=e
            r,src=run(b,kind,cache,**kw)
            ss=s or 0; ee=min(e,F) if e is not None else F
            if isinstance(r,tuple):
                exp_err = ss>=F and ss>0
                if not exp_err: bad.setdefault((kind,cache),[]).append((s,e,r))
                continue
            exp=full.body[ss:ee]
            ok = r.body.fps==exp.fps and r.body.data.shape==exp.data.shape and np.array_equal(r.body.data.data.view(np.uint32),exp.data.data.view(np.uint32)) and np.array_equal(r.body.data.mask, exp.data.mask) and np.array_equal(r.body.confidence,exp.confidence)
            hd = (r.header.components[0].points==full.header.components[0].points)
            if not ok or not hd: bad.setdefault((kind,cache),[]).append((s,e,"MISMATCH" if not ok else "HDR", r.body.data.shape))
            if kind=="stream" and ok:
                pass
    for k,v in bad.items(): print("  BAD",k,v[:6], len(v))
