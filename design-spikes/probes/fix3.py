import struct
from pose_format.utils import reader as R
def skip(self, s, times=1):
    self.buffer = self.buffer[:self.read_offset - self.read_skipped]
    self.read_skipped += s.size * times
    R.BufferReader.skip(self, s, times)
def read_chunk(self, chunk_size):
    self.reader.seek(self.read_skipped + len(self.buffer), 0)
    self.buffer.extend(self.reader.read(chunk_size))
    self.total_bytes_read += chunk_size
    if not self.buffer:
        raise EOFError("End of file reached")
R.BytesIOReader.skip=skip; R.BytesIOReader.read_chunk=read_chunk
exec(open("p3.py").read())
