import numpy as np, warnings
warnings.filterwarnings("ignore")
import torch
from pose_format.utils.openpose import load_openpose, get_frame_id, OPENPOSE_FRAME_PATTERN, OpenPose_Components
from pose_format.torch.masked import MaskedTensor, MaskedTorch
from pose_format.torch.masked.collator import zero_pad_collator
def t(label,f):
    try: print(label,"->",f())
    except Exception as e: print(label,"-> EXC",type(e).__name__,str(e)[:160])
rng=np.random.default_rng(0)
def person():
    return {c.name: rng.random(len(c.points)*3).round(3).tolist() for c in OpenPose_Components}
frames={0:{"people":[person(),person()]}, 3:{"people":[person()]}, 4:{"people":[]}}
p=load_openpose(frames,fps=29.97,width=640,height=480,num_frames=7)
print(p.body.data.shape, p.body.fps, (p.header.dimensions.width,p.header.dimensions.height))
k=0; ok=True
for c in OpenPose_Components:
    nums=frames[0]["people"][1][c.name]
    for i in range(len(c.points)):
        ok&= np.float32(nums[3*i])==p.body.data.data[0,1,k,0] and np.float32(nums[3*i+1])==p.body.data.data[0,1,k,1] and np.float32(nums[3*i+2])==p.body.confidence[0,1,k]; k+=1
print("values ok",ok, "missing frames masked", p.body.data.mask[[1,2,4,5,6]].all(), p.body.data.mask[3,1].all())
t("num_frames None", lambda: load_openpose(frames).body.data.shape)
t("all empty people", lambda: load_openpose({0:{"people":[]}}).body.data.shape)
for fn in ["CAM2_000000000017_keypoints.json","a12b_3_keypoints.json","video_7_000000000005_keypoints.json","x5_keypoints.json","12_keypoints.json", "abc_keypoints.json", "v1_2_keypointsXjson"]:
    t(fn, lambda: get_frame_id(fn, OPENPOSE_FRAME_PATTERN))
# collator
def mt(n,trail=(2,)):
    return MaskedTensor(torch.randn(n,*trail), torch.rand(n,*trail)>0.3)
t("collate dict", lambda: {k:(v.shape if hasattr(v,'shape') else v) for k,v in zero_pad_collator([{"a":mt(3),"id":1,"s":"x","t":torch.ones(2)},{"a":mt(5),"id":2,"s":"y","t":torch.ones(4)}]).items()})
r=zero_pad_collator([{"a":mt(3)},{"a":mt(5)}])["a"]; print(type(r), r.mask[0,3:].any().item(), r.tensor[0,3:].abs().sum().item())
t("len 0 and 1", lambda: zero_pad_collator([{"a":mt(0)},{"a":mt(1)}])["a"].shape)
t("len 0 and 0", lambda: zero_pad_collator([{"a":mt(0)},{"a":mt(0)}])["a"].shape)
t("len 1 and 1", lambda: zero_pad_collator([{"a":mt(1)},{"a":mt(1)}])["a"].shape)
t("tuple", lambda: [type(x) for x in zero_pad_collator([(mt(2),3,"s"),(mt(4),4,"t")])])
t("nested dict", lambda: zero_pad_collator([{"d":{"a":mt(2)}},{"d":{"a":mt(3)}}])["d"]["a"].shape)
t("plain tensor top-level", lambda: zero_pad_collator([torch.ones(2),torch.ones(3)]))
t("masked top-level", lambda: zero_pad_collator([mt(2),mt(3)]).shape)
t("plain tensor pad", lambda: zero_pad_collator([{"t":torch.ones(2,2)},{"t":torch.ones(4,2)}])["t"])
t("np.int64 ids", lambda: zero_pad_collator([{"i":np.int64(2)},{"i":np.int64(3)}])["i"])
t("scalar tensor (0-d)", lambda: zero_pad_collator([{"t":torch.tensor(1.)},{"t":torch.tensor(2.)}])["t"])
t("float", lambda: zero_pad_collator([{"f":1.5},{"f":2.5}])["f"])
