import io, struct, numpy as np, numpy.ma as ma
from pose_format import Pose
from pose_format.pose_header import *
from pose_format.numpy import NumPyPoseBody

def mk(names=("c",), pts=(("a","b"),), fmt="XYC", F=3, P=1, limbs=None, colors=None, fps=25.0, dims=(10,20,0), data=None, conf=None, dtype=np.float32):
    comps=[]
    for n,p in zip(names,pts):
        comps.append(PoseHeaderComponent(n, list(p), limbs or [(0,1)] if len(p)>1 else [], colors or [(255,0,0)], fmt))
    h=PoseHeader(0.2, PoseHeaderDimensions(*dims), comps)
    T=sum(len(p) for p in pts); D=len(fmt)-1
    rng=np.random.default_rng(0)
    if data is None: data=rng.normal(size=(F,P,T,D)).astype(dtype)
    if conf is None: conf=(rng.random((F,P,T))>0.3).astype(dtype)
    return Pose(h, NumPyPoseBody(fps, data, conf))

def rt(p):
    b=io.BytesIO(); p.write(b); return b.getvalue()

def try_(label, f):
    try:
        r=f(); print(label,"->",r)
    except Exception as e:
        print(label,"-> EXC",type(e).__name__,e)

PoseHeaderCache.clear_cache()
# unicode names
p=mk(names=("é",), pts=(("a","ü"),))
try_("unicode write", lambda: rt(p)[:40])
def f():
    PoseHeaderCache.clear_cache()
    q=Pose.read(rt(p)); return q.header.components[0].name, q.header.components[0].points
try_("unicode read", f)
# long name
p=mk(names=("x"*70000,))
try_("long name", lambda: len(rt(p)))
# limbs out of range
p=mk(limbs=[(0,70000)])
try_("limb overflow", lambda: len(rt(p)))
p=mk(colors=[(1,2,-3)])
try_("neg color", lambda: len(rt(p)))
# dims
p=mk(dims=(70000,1,1)); try_("dims overflow", lambda: len(rt(p)))
p=mk(dims=(1.5,1,1)); try_("dims float", lambda: (p.header.dimensions.width))
# NaN etc roundtrip
d=np.array([[[[np.nan, -0.0],[np.inf, 1e-45]]]],dtype=np.float32); c=np.array([[[1,0]]],dtype=np.float32)
p=mk(F=1,data=d,conf=c)
PoseHeaderCache.clear_cache()
q=Pose.read(rt(p)); print(q.body.data.data.view(np.uint32), q.body.data.mask, q.body.confidence, q.body.fps, type(q.body.fps))
# zero frames
p=mk(F=0); PoseHeaderCache.clear_cache(); try_("zero frames", lambda: Pose.read(rt(p)).body.data.shape)
p=mk(F=2,P=0); PoseHeaderCache.clear_cache(); try_("zero people", lambda: Pose.read(rt(p)).body.data.shape)
# zero points component
p=mk(names=("a","b"), pts=((),("x","y"))); PoseHeaderCache.clear_cache(); try_("zero pts comp", lambda: Pose.read(rt(p)).body.data.shape)
# mixed formats
h=PoseHeader(0.2, PoseHeaderDimensions(1,1,1),[PoseHeaderComponent("a",["p"],[],[], "XYC"),PoseHeaderComponent("b",["q"],[],[], "XYZC")])
p=Pose(h, NumPyPoseBody(10, np.zeros((1,1,2,3),np.float32), np.ones((1,1,2),np.float32)))
PoseHeaderCache.clear_cache(); try_("mixed fmt", lambda: Pose.read(rt(p)).body.data.shape)
# fps float64 not representable
p=mk(fps=29.97); PoseHeaderCache.clear_cache(); try_("fps", lambda: Pose.read(rt(p)).body.fps)
p=mk(fps=1e40); try_("fps overflow", lambda: len(rt(p)))
# data float64 overflow
p=mk(F=1,data=np.full((1,1,2,2),1e300),conf=np.ones((1,1,2))); PoseHeaderCache.clear_cache(); try_("f64 ovf", lambda: Pose.read(rt(p)).body.data.data)
# header/body mismatch: body points != header points
h=PoseHeader(0.2, PoseHeaderDimensions(1,1,1),[PoseHeaderComponent("a",["p","q","r"],[],[], "XYC")])
p=Pose(h, NumPyPoseBody(10, np.zeros((2,1,2,2),np.float32), np.ones((2,1,2),np.float32)))
def f():
    PoseHeaderCache.clear_cache(); b=rt(p); return Pose.read(b).body.data.shape
try_("points mismatch", f)
# people > 65535
# confidence shape mismatch
p=Pose(h, NumPyPoseBody(10, np.zeros((2,1,3,2),np.float32), np.ones((2,1,3),np.float32)))
p.body.confidence=np.ones((1,1,3),np.float32)
try_("conf shape mismatch", f)
# zero components
h0=PoseHeader(0.2, PoseHeaderDimensions(1,1,1),[])
p=Pose(h0, NumPyPoseBody(10, np.zeros((2,1,0,2),np.float32), np.ones((2,1,0),np.float32)))
try_("zero comps", f)
# empty format
