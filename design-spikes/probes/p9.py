import io, numpy as np, numpy.ma as ma, warnings, copy
warnings.filterwarnings("ignore")
from pose_format import Pose
from pose_format.pose_header import *
from pose_format.numpy import NumPyPoseBody
from pose_format.utils.generic import normalize_pose_size, pose_hide_legs, correct_wrists
from pose_format.numpy.representation.distance import DistanceRepresentation
def t(label,f):
    try: print(label,"->",f())
    except Exception as e: print(label,"-> EXC",type(e).__name__,str(e)[:140])
def mk(fill, D=2, seed=0, F=6,P=2):
    rng=np.random.default_rng(seed)
    comps=[PoseHeaderComponent("A", ["a0","a1","a2"], [(0,1),(1,2)], [(1,1,1)], "XYZC" if D==3 else "XYC"),PoseHeaderComponent("B", ["b0","b1"], [(0,1)], [(1,1,1)], "XYZC" if D==3 else "XYC")]
    h=PoseHeader(0.2, PoseHeaderDimensions(10,10,10), comps)
    conf=(rng.random((F,P,5))>0.35).astype(np.float32); conf[:,:,0]=1; conf[:,:,1]=1
    data=rng.normal(size=(F,P,5,D)).astype(np.float32)*10
    data[conf==0]=fill
    return Pose(h, NumPyPoseBody(10.0, data, conf))
def vis(p):
    b=p.body if isinstance(p,Pose) else p
    return (np.asarray(b.confidence).tobytes(), ma.getmaskarray(b.data).tobytes(), b.data.filled(0).tobytes(), b.data.shape)
ops={
 "write-read": lambda p: (lambda bb:(p.write(bb), PoseHeaderCache.clear_cache(), Pose.read(bb.getvalue()))[-1])(io.BytesIO()),
 "focus": lambda p: (p.focus(), p)[1],
 "normalize": lambda p: p.normalize(p.header.normalization_info(("A","a0"),("A","a1"))),
 "normalize_distribution": lambda p: (p.normalize_distribution(axis=(0,1)), p)[1],
 "flip": lambda p: p.flip(1),
 "matmul": lambda p: Pose(p.header,p.body.matmul(np.array([[1,2],[3,4]],dtype=np.float32) if p.body.data.shape[-1]==2 else np.arange(9,dtype=np.float32).reshape(3,3))),
 "bbox": lambda p: p.bbox(),
 "interpolate": lambda p: p.interpolate(15,"linear"),
 "interpolate cubic": lambda p: p.interpolate(25,"cubic"),
 "get_components": lambda p: p.get_components(["B","A"],{"A":["a2","a0"]}),
 "zero_filled": lambda p: Pose(p.header,p.body.zero_filled()),
 "slice_step": lambda p: p.slice_step(2),
 "select_frames": lambda p: Pose(p.header,p.body.select_frames([3,1])),
 "normalize_pose_size": lambda p: (normalize_pose_size(p), p)[1],
 "flatten": lambda p: p.body.flatten(),
 "np distance repr": lambda p: DistanceRepresentation()(p.body.points_perspective()[[0,1]], p.body.points_perspective()[[2,3]]),
 "torch": lambda p: p.torch(),
}
for D in (2,3):
  for name,op in ops.items():
    outs=[]
    for fill in (7.0, 1e30, np.nan, np.inf):
        p=mk(fill,D); p.header=copy.deepcopy(p.header)
        try:
            r=op(p)
            if isinstance(r,np.ndarray): outs.append(r.tobytes())
            elif name=="torch": outs.append((r.body.data.zero_filled().numpy().tobytes() if False else r.body.data.mask.numpy().tobytes()))
            else: outs.append(vis(r))
        except Exception as e:
            outs.append(("EXC",type(e).__name__,str(e)[:60]))
    same=all(o==outs[0] for o in outs)
    print("D=%d %-22s %s %s"%(D,name,"OK" if same else "DIFF", "" if same else [ (o if isinstance(o,tuple) and o and o[0]=="EXC" else "val") for o in outs]))
