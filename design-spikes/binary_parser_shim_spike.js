// Minimal re-implementation of the subset of binary-parser 2.2.1 used by parser.ts
class Parser {
  constructor() { this.steps = []; this.little = false; }
  endianess(e) { this.little = (e === "little"); return this; }
  _add(s) { this.steps.push(s); return this; }
  uint16(n) { return this._add({k:"u16", n}); }
  int16(n) { return this._add({k:"i16", n}); }
  uint32(n) { return this._add({k:"u32", n}); }
  floatle(n) { return this._add({k:"f32le", n}); }
  string(n, o) { return this._add({k:"str", n, o}); }
  array(n, o) { return this._add({k:"arr", n, o}); }
  seek(rel) { return this._add({k:"seek", rel}); }
  saveOffset(n) { return this._add({k:"save", n}); }
  parse(buf) { const dv = new DataView(buf.buffer, buf.byteOffset, buf.length); const st = {off:0}; return this._run(buf, dv, st, undefined); }
  _len(l, vars) { return typeof l === "number" ? l : (typeof l === "function" ? l.call(vars) : vars[l]); }
  _run(buf, dv, st, parent) {
    const vars = {};
    for (const s of this.steps) {
      switch (s.k) {
        case "u16": vars[s.n] = dv.getUint16(st.off, this.little); st.off += 2; break;
        case "i16": vars[s.n] = dv.getInt16(st.off, this.little); st.off += 2; break;
        case "u32": vars[s.n] = dv.getUint32(st.off, this.little); st.off += 4; break;
        case "f32le": vars[s.n] = dv.getFloat32(st.off, true); st.off += 4; break;
        case "str": { const len = this._len(s.o.length, vars); if (st.off + len > buf.length) throw new RangeError("string out of range");
          vars[s.n] = buf.toString(s.o.encoding || "utf8", st.off, st.off + len); st.off += len; break; }
        case "arr": { const len = this._len(s.o.length, vars); let a = [];
          for (let i = 0; i < len; i++) a.push(s.o.type._run(buf, dv, st, vars));
          if (s.o.formatter) a = s.o.formatter.call(vars, a); vars[s.n] = a; break; }
        case "seek": st.off += s.rel; break;
        case "save": vars[s.n] = st.off; break;
      }
    }
    return vars;
  }
}
module.exports = { Parser };
