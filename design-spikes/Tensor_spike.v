From Coq Require Import List Arith Lia Bool.
Import ListNotations.
Section T.
Context {A B : Type}.
Record tensor (X : Type) := mk { shape : list nat; data : list X }.
Arguments mk {X}. Arguments shape {X}. Arguments data {X}.
Definition prod (s : list nat) := fold_right Nat.mul 1 s.
(* row-major: unravel flat index into multi-index *)
Fixpoint unravel (s : list nat) (i : nat) : list nat :=
  match s with [] => [] | d :: s' => (i / prod s') :: unravel s' (i mod prod s') end.
Fixpoint ravel (s : list nat) (ix : list nat) : nat :=
  match s, ix with d :: s', i :: ix' => i * prod s' + ravel s' ix' | _, _ => 0 end.
(* generic re-indexing: new tensor of shape ns whose cell at multi-index j is the old cell at (f j) *)
Definition reindex {X} (dflt : X) (ns : list nat) (f : list nat -> list nat) (t : tensor X) : tensor X :=
  mk ns (map (fun k => nth (ravel (shape t) (f (unravel ns k))) (data t) dflt) (seq 0 (prod ns))).
Definition tzip (a : tensor A) (b : tensor B) : tensor (A * B) := mk (shape a) (combine (data a) (data b)).
Definition tmap {X Y} (g : X -> Y) (t : tensor X) : tensor Y := mk (shape t) (map g (data t)).
Lemma reindex_map {X Y} (g : X -> Y) d ns f (t : tensor X) :
  tmap g (reindex d ns f t) = reindex (g d) ns f (tmap g t).
Proof. unfold tmap, reindex; cbn. f_equal. rewrite map_map. apply map_ext. intros k. now rewrite map_nth. Qed.
Lemma reindex_zip da db ns f (a : tensor A) (b : tensor B) :
  shape a = shape b -> length (data a) = length (data b) ->
  reindex (da, db) ns f (tzip a b) = tzip (reindex da ns f a) (reindex db ns f b).
Proof. intros Hs Hl. unfold reindex, tzip; cbn. f_equal. rewrite Hs.
  induction (seq 0 (prod ns)) as [|k l IH]; cbn; [reflexivity|]. rewrite IH. f_equal.
  apply combine_nth. exact Hl. Qed.
End T.
Arguments mk {X}. Arguments shape {X}. Arguments data {X}.
Definition permute {X} (d : X) (p : list nat) (t : tensor X) : tensor X :=
  let ns := map (fun a => nth a (shape t) 0) p in
  (* old index along axis a = new index at position of a in p *)
  reindex d ns (fun j => map (fun a => nth (fst (fold_left (fun '(r,i) q => if Nat.eqb q a then (i, S i) else (r, S i)) p (0,0))) j 0) (seq 0 (length p))) t.
Definition t0 := mk [2;3;2] (seq 0 12).
Eval vm_compute in permute 0 [2;0;1] t0.
