// fail-closed TS->JS for parser.ts: removes imports, type annotations of the shapes that occur there
const fs = require("fs");
let s = fs.readFileSync(process.argv[2], "utf8");
s = s.replace(/^import .*$/mg, "");
s = s.replace(/\s+as unknown as \w+(\[\])?/g, "");
s = s.replace(/\s+as \w+(\[\])?/g, "");
s = s.replace(/export function/g, "function");
// parameter / variable annotations  name: Type   (Type = identifier, optional [] , or any)
s = s.replace(/(\b[A-Za-z_$][\w$]*)\s*:\s*(any\[\]|any|number|string|Buffer|[A-Z]\w*(\[\])?)(?=\s*[,)=;])/g, "$1");
// return type annotations  ): Type {
s = s.replace(/\)\s*:\s*[A-Z]\w*(\[\])?\s*\{/g, ") {");
s = 'const {Parser} = require("./shim.js");\n' + s + "\nmodule.exports = { parsePose };\n";
fs.writeFileSync(process.argv[3], s);
