From Coq Require Import Reals List Lra Lia PrimFloat Uint63 ZArith.
Import ListNotations.
Record ops := { T : Type; zero : T; add : T -> T -> T; sub : T -> T -> T; mul : T -> T -> T; div : T -> T -> T; sqrt : T -> T; ofnat : nat -> T }.
Section Gen.
Variable O : ops.
Notation "x + y" := (add O x y). Notation "x - y" := (sub O x y). Notation "x * y" := (mul O x y). Notation "x / y" := (div O x y).
Definition sum (l : list (T O)) := fold_right (add O) (zero O) l.
Definition mean (l : list (T O)) := sum l / ofnat O (length l).
Definition dist (p q : T O * T O) := sqrt O ((fst p - fst q) * (fst p - fst q) + (snd p - snd q) * (snd p - snd q)).
(* one reference pair per (frame,person); normalize every point by centre & scale *)
Definition centre (refs : list ((T O * T O) * (T O * T O))) : T O * T O :=
  (mean (map (fun r => (fst (fst r) + fst (snd r)) / ofnat O 2) refs), mean (map (fun r => (snd (fst r) + snd (snd r)) / ofnat O 2) refs)).
Definition scale (s : T O) refs := s / mean (map (fun r => dist (fst r) (snd r)) refs).
Definition norm_pt s refs (p : T O * T O) := let c := centre refs in let k := scale s refs in ((fst p - fst c) * k, (snd p - snd c) * k).
End Gen.
Definition R_ops : ops := {| T := R; zero := 0%R; add := Rplus; sub := Rminus; mul := Rmult; div := Rdiv; sqrt := R_sqrt.sqrt; ofnat := INR |}.
Definition F_ops : ops := {| T := float; zero := 0%float; add := PrimFloat.add; sub := PrimFloat.sub; mul := PrimFloat.mul; div := PrimFloat.div; sqrt := PrimFloat.sqrt; ofnat := fun n => PrimFloat.of_uint63 (Uint63.of_Z (Z.of_nat n)) |}.
Eval vm_compute in norm_pt F_ops 3%float [((0,0),(3,4));((1,1),(1,11))]%float (2,2)%float.
Open Scope R_scope.
Ltac simp := cbn [T zero add sub mul div sqrt ofnat R_ops fst snd] in *.
Lemma sum_scal k l : sum R_ops (map (fun x => x * k) l) = sum R_ops l * k.
Proof. unfold sum; simp. induction l as [|x l IH]; cbn [map fold_right]; [lra|]. rewrite IH. lra. Qed.
Lemma dist_scal (p q c : R * R) k : 0 < k ->
  dist R_ops ((fst p - fst c) * k, (snd p - snd c) * k) ((fst q - fst c) * k, (snd q - snd c) * k) = dist R_ops p q * k.
Proof. intros Hk. unfold dist; simp.
  replace (((fst p - fst c) * k - (fst q - fst c) * k) * ((fst p - fst c) * k - (fst q - fst c) * k) + ((snd p - snd c) * k - (snd q - snd c) * k) * ((snd p - snd c) * k - (snd q - snd c) * k))
    with (((fst p - fst q) * (fst p - fst q) + (snd p - snd q) * (snd p - snd q)) * (k * k)) by ring.
  rewrite sqrt_mult_alt by (apply Rplus_le_le_0_compat; apply Rle_0_sqr). rewrite sqrt_square by lra. reflexivity. Qed.
Print Assumptions dist_scal.
