import io, sys, threading, numpy as np
from pose_format import Pose
from pose_format.pose_header import *
from pose_format.numpy import NumPyPoseBody
import pose_format.pose_header as PH, pose_format.pose as PP

def mk(names, seed=0, F=3):
    rng=np.random.default_rng(seed)
    comps=[PoseHeaderComponent("c", names, [(0,1)], [(255,0,0)], "XYC")]
    h=PoseHeader(0.2, PoseHeaderDimensions(10,20,0), comps)
    T=len(names)
    p=Pose(h, NumPyPoseBody(10.0, rng.normal(size=(F,1,T,2)).astype(np.float32), np.ones((F,1,T),np.float32)))
    b=io.BytesIO(); p.write(b); return b.getvalue()
A=mk(["a0","a1"]); B=mk(["bbbbbbb0","bbbbbbb1","bbbbbbb2"],1)
def dump(p): return ([c.points for c in p.header.components], p.body.data.data.tobytes())
PoseHeaderCache.clear_cache(); soloA=dump(Pose.read(A)); PoseHeaderCache.clear_cache(); soloB=dump(Pose.read(B))

FILES={PH.__file__, PP.__file__}
class Sched:
    """Deterministic scheduler: one thread runs at a time; at each 'line' event in the watched files the running
    thread asks the schedule who goes next."""
    def __init__(self, schedule):
        self.schedule=list(schedule); self.pos=0; self.cv=threading.Condition(); self.current=None; self.alive=set(); self.trace=[]
    def pick(self):
        while self.pos < len(self.schedule):
            t=self.schedule[self.pos]; self.pos+=1
            if t in self.alive: return t
        return min(self.alive) if self.alive else None
    def yield_point(self, tid, where):
        with self.cv:
            self.trace.append((tid,where))
            self.current=self.pick()
            self.cv.notify_all()
            while self.current!=tid: self.cv.wait()
    def tracer(self, tid):
        def local(frame, event, arg):
            if event=="line" and (frame.f_code.co_name!="read" or frame.f_lineno in (60,61,320,321,322,323,334)): self.yield_point(tid, (frame.f_code.co_name, frame.f_lineno))
            return local
        def glob(frame, event, arg):
            if frame.f_code.co_filename in FILES and frame.f_code.co_name in ("check_cache","calc_hash","set_cache","read"):
                return local
            return None
        return glob
    def run(self, jobs):
        res={}
        def worker(tid, fn):
            with self.cv:
                while self.current!=tid: self.cv.wait()
            sys.settrace(self.tracer(tid))
            try: res[tid]=("ok", fn())
            except Exception as e: res[tid]=("exc", type(e).__name__, str(e)[:80])
            finally:
                sys.settrace(None)
                with self.cv:
                    self.alive.discard(tid); self.current=self.pick(); self.cv.notify_all()
        ths=[threading.Thread(target=worker,args=(i,f)) for i,f in enumerate(jobs)]
        self.alive=set(range(len(jobs)))
        for t in ths: t.start()
        with self.cv: self.current=self.pick(); self.cv.notify_all()
        for t in ths: t.join()
        return res


def segments_to_schedule(segs):
    out=[]
    for t,k in segs: out+= [t]*k
    return out
bad=[];tot=0
# schedules: B runs b1 steps, A runs a1 steps, B runs b2 steps, A rest, B rest  (<=3 preemptions)
for b1 in range(0,22):
  for a1 in range(0,12):
    for b2 in range(0,8):
        PoseHeaderCache.clear_cache(); Pose.read(A)
        S=Sched(segments_to_schedule([(1,b1),(0,a1),(1,b2),(0,40),(1,60)]))
        r=S.run([lambda: dump(Pose.read(A)), lambda: dump(Pose.read(B))])
        tot+=1
        okA = r[0]==("ok",soloA); okB = r[1]==("ok",soloB)
        if not (okA and okB):
            bad.append(((b1,a1,b2), r[0][0], (r[0][1][0] if r[0][0]=="ok" else r[0][1:]), r[1][0], (r[1][1][0] if r[1][0]=="ok" else r[1][1:])))
print("schedules",tot,"bad",len(bad))
for b in bad[:5]: print(b)
if bad:
    b1,a1,b2=bad[0][0]
    PoseHeaderCache.clear_cache(); Pose.read(A)
    S=Sched(segments_to_schedule([(1,b1),(0,a1),(1,b2),(0,40),(1,60)])); S.run([lambda: dump(Pose.read(A)), lambda: dump(Pose.read(B))]); print(S.trace)
