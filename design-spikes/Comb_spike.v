From Coq Require Import ZArith NArith List Bool Lia ZifyBool ZifyN.
Import ListNotations.
Ltac Zify.zify_post_hook ::= Z.div_mod_to_equations.
Open Scope N_scope.
Definition bytes := list N.
Definition parser (A : Type) := bytes -> option (A * bytes).
Definition enc_u16 (n : N) : bytes := [n mod 256; (n / 256) mod 256].
Definition dec_u16 : parser N := fun b => match b with b0 :: b1 :: r => Some (b0 + 256 * b1, r) | _ => None end.
Lemma u16_rt n r : n < 65536 -> dec_u16 (enc_u16 n ++ r) = Some (n, r).
Proof. intros H. unfold enc_u16, dec_u16. cbn [app]. f_equal. f_equal. lia. Qed.

(* generic notions *)
Definition RT {A} (wf : A -> Prop) (enc : A -> bytes) (dec : parser A) :=
  forall a r, wf a -> dec (enc a ++ r) = Some (a, r).
Definition proper_prefix (q b : bytes) := exists s, s <> [] /\ b = q ++ s.
Definition TR {A} (wf : A -> Prop) (enc : A -> bytes) (dec : parser A) :=
  forall a q, wf a -> proper_prefix q (enc a) -> dec q = None.

Lemma u16_tr : TR (fun n => n < 65536) enc_u16 dec_u16.
Proof. intros n q _ [s [Hs E]]. unfold enc_u16 in E.
  destruct q as [|q0 [|q1 q]]; try reflexivity.
  apply (f_equal (@length _)) in E. rewrite app_length in E. cbn [length] in E.
  destruct s; [congruence|cbn [length] in E; lia]. Qed.

(* sequencing *)
Definition bind {A B} (p : parser A) (f : A -> parser B) : parser B :=
  fun b => match p b with Some (a, r) => f a r | None => None end.
Definition ret {A} (a : A) : parser A := fun b => Some (a, b).

Lemma pp_app q e1 e2 : proper_prefix q (e1 ++ e2) ->
  proper_prefix q e1 \/ exists q', q = e1 ++ q' /\ proper_prefix q' e2.
Proof.
  revert q. induction e1 as [|x e1 IH]; intros q [s [Hs E]]; cbn in *.
  - right. exists q. split; [reflexivity|]. exists s. auto.
  - destruct q as [|y q]; cbn in E.
    + left. exists (x :: e1). split; [discriminate|reflexivity].
    + inversion E; subst. destruct (IH q) as [[s' [Hs' E']]|[q' [Eq Hq']]].
      * exists s; auto.
      * left. exists s'. split; auto. cbn. congruence.
      * right. exists q'. split; [cbn; congruence|auto].
Qed.

(* repeat n *)
Fixpoint rep {A} (n : nat) (p : parser A) : parser (list A) :=
  match n with O => ret [] | S k => bind p (fun a => bind (rep k p) (fun l => ret (a :: l))) end.
Lemma rep_rt {A} wf enc (dec : parser A) : RT wf enc dec ->
  forall l r, Forall wf l -> rep (length l) dec (flat_map enc l ++ r) = Some (l, r).
Proof. intros H l. induction l as [|a l IH]; intros r Hl; cbn; [reflexivity|].
  inversion Hl; subst. unfold bind. rewrite <- app_assoc, H by assumption. rewrite IH by assumption. reflexivity. Qed.
Lemma rep_tr {A} wf enc (dec : parser A) : RT wf enc dec -> TR wf enc dec ->
  forall l q, Forall wf l -> proper_prefix q (flat_map enc l) -> rep (length l) dec q = None.
Proof. intros Hrt Htr l. induction l as [|a l IH]; intros q Hl Hq; cbn in *.
  - destruct Hq as [s [Hs E]]. destruct q; destruct s; cbn in E; congruence.
  - inversion Hl; subst. apply pp_app in Hq. destruct Hq as [Hq|[q' [-> Hq']]]; unfold bind.
    + rewrite (Htr a q); auto.
    + rewrite Hrt by assumption. rewrite IH; auto. Qed.
