From Coq Require Import NArith List Bool Lia.
Import ListNotations.
Open Scope N_scope.
Definition enc (c : N) : list N :=
  if c <? 0x80 then [c]
  else if c <? 0x800 then [0xC0 + c / 64; 0x80 + c mod 64]
  else if c <? 0x10000 then [0xE0 + c / 4096; 0x80 + (c / 64) mod 64; 0x80 + c mod 64]
  else [0xF0 + c / 262144; 0x80 + (c / 4096) mod 64; 0x80 + (c / 64) mod 64; 0x80 + c mod 64].
Definition cont (b : N) := (0x80 <=? b) && (b <? 0xC0).
Definition valid_scalar (c : N) := (c <? 0x110000) && negb ((0xD800 <=? c) && (c <? 0xE000)).
Definition dec1 (l : list N) : option (N * list N) :=
  match l with
  | [] => None
  | b0 :: r =>
    if b0 <? 0x80 then Some (b0, r)
    else if b0 <? 0xC2 then None
    else if b0 <? 0xE0 then
      match r with b1 :: r' => if cont b1 then Some ((b0 - 0xC0) * 64 + (b1 - 0x80), r') else None | _ => None end
    else if b0 <? 0xF0 then
      match r with b1 :: b2 :: r' =>
        let c := (b0 - 0xE0) * 4096 + (b1 - 0x80) * 64 + (b2 - 0x80) in
        if cont b1 && cont b2 && (0x800 <=? c) && valid_scalar c then Some (c, r') else None | _ => None end
    else if b0 <? 0xF5 then
      match r with b1 :: b2 :: b3 :: r' =>
        let c := (b0 - 0xF0) * 262144 + (b1 - 0x80) * 4096 + (b2 - 0x80) * 64 + (b3 - 0x80) in
        if cont b1 && cont b2 && cont b3 && (0x10000 <=? c) && valid_scalar c then Some (c, r') else None | _ => None end
    else None
  end.
Fixpoint upto (n : nat) (base : N) : list N := match n with O => [] | S k => base :: upto k (base + 1) end.
Definition ok (c : N) : bool :=
  negb (valid_scalar c) || match dec1 (enc c ++ [7]) with Some (c', [7]) => c' =? c | _ => false end.
Definition sweep := forallb ok (upto (N.to_nat 0x110000) 0).
Time Lemma sweep_ok : sweep = true. Proof. vm_compute. reflexivity. Qed.
