const fs = require("fs");
const { parsePose } = require("./parser.js");
const buf = fs.readFileSync(process.argv[2]);
const p = parsePose(buf);
const b = p.body;
const out = {version: p.header.version, w: p.header.width, h: p.header.height, d: p.header.depth, headerLength: p.header.headerLength,
  comps: p.header.components.map(c => ({name: c.name, format: c.format, points: c.points, limbs: c.limbs, colors: c.colors})),
  fps: b.fps, frames: b.frames.length, people: b._people};
const f32 = x => { const a = new Float32Array([x]); return new Uint32Array(a.buffer)[0]; };
const fr = [];
for (let i = 0; i < Math.min(b.frames.length, 3); i++) {
  const f = b.frames[i];
  fr.push(f.people.map(person => Object.fromEntries(Object.entries(person).filter(([k]) => k !== "id").map(([k, pts]) => [k, pts.map(pt => Object.fromEntries(Object.entries(pt).map(([d, v]) => [d, f32(v)])))]))));
}
out.first = fr;
console.log(JSON.stringify(out).slice(0, 1500));
