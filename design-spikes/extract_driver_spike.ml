let () =
  let open Model in
  let rec z_of_int n = if n = 0 then Z0 else if n > 0 then Zpos (pos n) else Zneg (pos (-n))
  and pos n = if n = 1 then XH else if n land 1 = 0 then XO (pos (n/2)) else XI (pos (n/2)) in
  let rec int_of_pos = function XH -> 1 | XO p -> 2 * int_of_pos p | XI p -> 2 * int_of_pos p + 1 in
  let int_of_z = function Z0 -> 0 | Zpos p -> int_of_pos p | Zneg p -> - int_of_pos p in
  match run (Node [Leaf (z_of_int 3); Leaf (z_of_int 6)]) with
  | Leaf z -> Printf.printf "%d\n" (int_of_z z)
  | _ -> print_endline "node"
