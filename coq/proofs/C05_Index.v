(* C05: frameRepresentation - the index arithmetic is the row-major position of the Python tensors, and looking a
   cell up by component name and dimension letter finds it. *)
From Coq Require Import ZArith NArith List Lia ZifyBool ZifyN ZifyNat Bool Arith.
Require Import ListN Result Bytes Tensor Codec C05_JsParser C05_View.
Import ListNotations.
Open Scope nat_scope.

(* ---------- arithmetic: parser.ts:151-156 against row-major ravel ---------- *)
Lemma js_data_index_ravel (F P T D i j k l d : nat) :
  js_data_index (js_place (js_offset (Z.of_nat i) (Z.of_nat P) (Z.of_nat T) (Z.of_nat j)) (Z.of_nat k) (Z.of_nat l)) (Z.of_nat D) (Z.of_nat d)
  = Z.of_nat (ravel [F; P; T; D] [i; j; k + l; d]).
Proof.
  unfold js_data_index, js_place, js_offset. cbn [ravel prod fold_right].
  rewrite !Nat2Z.inj_add, !Nat2Z.inj_mul, !Nat2Z.inj_add. cbn [Z.of_nat]. ring.
Qed.
Lemma js_place_ravel (F P T i j k l : nat) :
  js_place (js_offset (Z.of_nat i) (Z.of_nat P) (Z.of_nat T) (Z.of_nat j)) (Z.of_nat k) (Z.of_nat l)
  = Z.of_nat (ravel [F; P; T] [i; j; k + l]).
Proof.
  unfold js_place, js_offset. cbn [ravel prod fold_right].
  rewrite !Nat2Z.inj_add, !Nat2Z.inj_mul, !Nat2Z.inj_add. cbn [Z.of_nat]. ring.
Qed.
Lemma f32_at_nth (a : list N) (n : nat) : n < length a -> f32_at a (Z.of_nat n) = VF32 (nth n a 0%N).
Proof.
  intros H. unfold f32_at. destruct (Z.ltb_spec (Z.of_nat n) 0); [lia|]. rewrite Nat2Z.id.
  destruct (nth_error a n) as [w|] eqn:E; [now rewrite (nth_error_nth _ _ _ E)|].
  apply nth_error_None in E. lia.
Qed.

(* ---------- objects ---------- *)
Lemma keq_refl k : keq k k = true.
Proof. induction k as [|x k IH]; [reflexivity|]. cbn [keq]. now rewrite N.eqb_refl, IH. Qed.
Lemma keq_eq a : forall b, keq a b = true -> a = b.
Proof. induction a as [|x a IH]; intros [|y b] H; cbn [keq] in H; try discriminate; [reflexivity|].
  apply andb_true_iff in H. destruct H as [H1 H2]. apply N.eqb_eq in H1. subst. f_equal. now apply IH. Qed.
Lemma keq_sym a b : keq a b = keq b a.
Proof. destruct (keq a b) eqn:E.
  - apply keq_eq in E. subst. now rewrite keq_refl.
  - destruct (keq b a) eqn:E'; [|reflexivity]. apply keq_eq in E'. subst. now rewrite keq_refl in E. Qed.
Lemma keq_neq a b : a <> b -> keq a b = false.
Proof. intros H. destruct (keq a b) eqn:E; [|reflexivity]. apply keq_eq in E. contradiction. Qed.
Lemma obj_get_set_same o k v : obj_get (obj_set o k v) k = Some v.
Proof. induction o as [|[k' v'] r IH]; cbn [obj_set obj_get]; [now rewrite keq_refl|].
  destruct (keq k' k) eqn:E; cbn [obj_get]; rewrite E; [reflexivity|exact IH]. Qed.
Lemma obj_get_set_other o k v k' : k <> k' -> obj_get (obj_set o k v) k' = obj_get o k'.
Proof. intros Hne. induction o as [|[k0 v0] r IH]; cbn [obj_set obj_get].
  - now rewrite (keq_neq _ _ Hne).
  - destruct (keq k0 k) eqn:E; cbn [obj_get].
    + apply keq_eq in E. subst k0. now rewrite (keq_neq _ _ Hne).
    + destruct (keq k0 k'); [reflexivity|exact IH]. Qed.

(* number of coordinate letters (not "C") before position d of a format *)
Definition coord_index (fmt : list N) (d : nat) : nat := length (filter (fun y => negb (y =? 67)%N) (firstn d fmt)).
(* formats whose "C" is the last letter (every format the library's own estimators write): position = coordinate index *)
Lemma coord_index_no_C fmt d : ~ In 67%N (firstn d fmt) -> d <= length fmt -> coord_index fmt d = d.
Proof.
  revert d. induction fmt as [|y fmt IH]; intros [|d] Hn Hd; cbn [firstn length] in *; try reflexivity; try lia.
  unfold coord_index in *. cbn [firstn filter]. destruct (N.eqb_spec y 67) as [->|]; [exfalso; apply Hn; now left|].
  cbn [negb length]. f_equal. apply IH; [intros H; apply Hn; now right|lia].
Qed.

(* ---------- one point: parser.ts:153-160 ---------- *)
Section Point.
Variables (b : jbody) (place : Z).
Definition pstep (pt : obj) (dd : N * Z) : obj :=
  let '(dim, dim_index) := dd in
  if (dim =? 67)%N then pt else obj_set pt [dim] (f32_at (jb_data b) (js_data_index place (jb_dims b) dim_index)).
(* a letter that does not occur in the rest of the format keeps its value *)
Lemma pstep_fold_other fmt : forall n pt x, ~ In x fmt ->
  obj_get (fold_left pstep (enum_coords n fmt) pt) [x] = obj_get pt [x].
Proof.
  induction fmt as [|y fmt IH]; intros n pt x Hx; cbn [enum_coords fold_left]; [reflexivity|].
  rewrite IH by (intros H; apply Hx; now right). unfold pstep.
  destruct (N.eqb_spec y 67); [reflexivity|]. apply obj_get_set_other. intros [= E]. apply Hx. now left.
Qed.
(* the letter at position d (not "C", not repeated later) holds data[place * _dims + k], k = number of coordinate
   letters before position d *)
Lemma pstep_fold_at fmt : forall n pt d x, nth_error fmt d = Some x -> x <> 67%N -> ~ In x (skipn (S d) fmt) ->
  obj_get (fold_left pstep (enum_coords n fmt) pt) [x]
  = Some (f32_at (jb_data b) (js_data_index place (jb_dims b) (n + Z.of_nat (coord_index fmt d)))).
Proof.
  induction fmt as [|y fmt IH]; intros n pt d x Hd Hx Hlater; [destruct d; discriminate|].
  destruct d as [|d]; cbn [nth_error enum_coords fold_left skipn] in *.
  - injection Hd as ->. rewrite pstep_fold_other by exact Hlater. unfold pstep.
    destruct (N.eqb_spec x 67); [contradiction|]. rewrite obj_get_set_same. unfold coord_index. cbn [firstn filter length].
    now rewrite Z.add_0_r.
  - rewrite (IH _ _ d x Hd Hx Hlater). do 3 f_equal. unfold coord_index. cbn [firstn filter].
    destruct (N.eqb_spec y 67); cbn [negb length]; lia.
Qed.
Lemma pstep_fold_C fmt : forall n pt, obj_get (fold_left pstep (enum_coords n fmt) pt) k_C = obj_get pt k_C.
Proof.
  induction fmt as [|y fmt IH]; intros n pt; cbn [enum_coords fold_left]; [reflexivity|].
  rewrite IH. unfold pstep. destruct (N.eqb_spec y 67); [reflexivity|].
  apply obj_get_set_other. intros [= E]. contradiction.
Qed.
End Point.

Lemma js_point_fields b fmt i j k l :
  js_point b fmt i j k l =
  VObj (fold_left (pstep b (js_place (js_offset i (jb_people b) (jb_points b) j) k l)) (enum_coords 0 fmt)
                  [(k_C, f32_at (jb_conf b) (js_place (js_offset i (jb_people b) (jb_points b) j) k l))]).
Proof. reflexivity. Qed.

(* ---------- one person: parser.ts:143-162 ---------- *)
Section Person.
Variables (b : jbody) (i j : Z).
Definition comp_points (c : jcomp) (k : Z) : value :=
  VArr (map (fun l => js_point b (jc_format c) i j k l) (zrange 0 (Z.to_nat (jc_plen c)))).
Definition cstep (acc : obj * Z) (c : jcomp) : obj * Z :=
  let '(person, k) := acc in (obj_set person (jc_name c) (comp_points c k), (k + jc_plen c)%Z).
Lemma cstep_fold_other comps : forall person k name, ~ In name (map jc_name comps) ->
  obj_get (fst (fold_left cstep comps (person, k))) name = obj_get person name.
Proof.
  induction comps as [|c comps IH]; intros person k name Hn; cbn [fold_left cstep]; [reflexivity|].
  rewrite IH by (intros H; apply Hn; now right). apply obj_get_set_other. intros E. apply Hn. now left.
Qed.
Definition koff (comps : list jcomp) : Z := fold_right Z.add 0%Z (map jc_plen comps).
Lemma cstep_fold_at comps : forall person k n c, nth_error comps n = Some c ->
  ~ In (jc_name c) (map jc_name (skipn (S n) comps)) ->
  obj_get (fst (fold_left cstep comps (person, k))) (jc_name c) = Some (comp_points c (k + koff (firstn n comps))).
Proof.
  induction comps as [|c0 comps IH]; intros person k n c Hn Hlater; [destruct n; discriminate|].
  destruct n as [|n]; cbn [nth_error fold_left cstep skipn firstn] in *.
  - injection Hn as ->. rewrite cstep_fold_other by exact Hlater. rewrite obj_get_set_same.
    unfold koff. cbn [map fold_right]. now rewrite Z.add_0_r.
  - rewrite (IH _ _ n c Hn Hlater). unfold koff. cbn [map fold_right]. do 2 f_equal. lia.
Qed.
End Person.
Lemma js_person_fields comps b i j : js_person comps b i j = VObj (fst (fold_left (cstep b i j) comps (@pair obj Z [] 0%Z))).
Proof. reflexivity. Qed.

Lemma nth_error_zrange n : forall s k, k < n -> nth_error (zrange s n) k = Some (s + Z.of_nat k)%Z.
Proof. induction n as [|n IH]; intros s k Hk; [lia|]. destruct k as [|k]; cbn [zrange nth_error]; [f_equal; lia|].
  rewrite IH by lia. f_equal. lia. Qed.
Lemma nth_error_map_zrange {A} (f : Z -> A) n k : k < n -> nth_error (map f (zrange 0 n)) k = Some (f (Z.of_nat k)).
Proof. intros Hk. rewrite nth_error_map, nth_error_zrange by exact Hk. reflexivity. Qed.

(* ---------- a cell, looked up by names ---------- *)
Theorem js_cell_lookup (comps : list jcomp) (b : jbody) (i j n l d : nat) (c : jcomp) (x : N) :
  j < Z.to_nat (jb_people b) -> nth_error comps n = Some c -> l < Z.to_nat (jc_plen c) ->
  ~ In (jc_name c) (map jc_name (skipn (S n) comps)) ->
  let place := js_place (js_offset (Z.of_nat i) (jb_people b) (jb_points b) (Z.of_nat j)) (koff (firstn n comps)) (Z.of_nat l) in
  js_cell (js_frame_rep comps b (Z.of_nat i)) j (jc_name c) l 67 = Some (f32_at (jb_conf b) place) /\
  (nth_error (jc_format c) d = Some x -> x <> 67%N -> ~ In x (skipn (S d) (jc_format c)) ->
   js_cell (js_frame_rep comps b (Z.of_nat i)) j (jc_name c) l x
   = Some (f32_at (jb_data b) (js_data_index place (jb_dims b) (Z.of_nat (coord_index (jc_format c) d))))).
Proof.
  intros Hj Hn Hl Hlater place.
  assert (Hcell : forall letter, js_cell (js_frame_rep comps b (Z.of_nat i)) j (jc_name c) l letter =
            match js_point b (jc_format c) (Z.of_nat i) (Z.of_nat j) (koff (firstn n comps)) (Z.of_nat l) with
            | VObj pt => obj_get pt [letter] | _ => None end).
  { intros letter. unfold js_cell, js_frame_rep.
    change (obj_get [(k_people, ?v)] k_people) with (Some v). cbv iota beta.
    rewrite nth_error_map_zrange by exact Hj. rewrite js_person_fields. cbv beta iota.
    rewrite (cstep_fold_at b (Z.of_nat i) (Z.of_nat j) comps [] 0%Z n c Hn Hlater). rewrite Z.add_0_l.
    unfold comp_points. cbv beta iota. rewrite nth_error_map_zrange by exact Hl. reflexivity. }
  split.
  - rewrite Hcell, js_point_fields. change [67%N] with k_C. rewrite pstep_fold_C. reflexivity.
  - intros Hd Hx Hxl. rewrite Hcell, js_point_fields.
    rewrite (pstep_fold_at b _ (jc_format c) 0%Z _ d x Hd Hx Hxl). rewrite Z.add_0_l. reflexivity.
Qed.
