(* C20 - vocabulary of the theorems: well-formed homogeneous batches, and what the property statement
   says the collated batch is ([spec_out]), written independently of the code path of the model. *)
From Coq Require Import List ZArith Arith Bool Lia.
Require Import Result Tensor C20_Collate.
Import ListNotations.

Definition len_of (x : tl) : nat := hd 0 (shape (tl_t x)).
(* one example's tensor for a field: kind [masked], trailing shape [tail], values (and validity) well-formed *)
Definition good (masked : bool) (tail : list nat) (x : tl) : Prop :=
  is_masked x = masked /\ shape (tl_t x) = len_of x :: tail /\ wf (tl_t x) /\
  (masked = true -> shape (tl_m x) = shape (tl_t x) /\ wf (tl_m x)).
Definition good_batch (masked : bool) (tail : list nat) (pv : Z) (batch : list tl) : Prop :=
  batch <> [] /\ Forall (good masked tail) batch /\ Forall (fun x => pad_fits (tl_dt x) pv = true) batch.
Definition Lmax (batch : list tl) : nat := list_max (map len_of batch).

Definition out_masked (o : out) : bool := match o with OMasked _ _ _ => true | _ => false end.
Definition out_dt (o : out) : dtype := match o with OMasked dt _ _ => dt | OPlain dt _ => dt | _ => DBool end.
Definition out_t (o : out) : tensor Z := match o with OMasked _ t _ => t | OPlain _ t => t | _ => mkT [] [] end.
Definition out_m (o : out) : tensor bool := match o with OMasked _ _ m => m | _ => mkT [] [] end.

(* row of example x in the collated batch: its cells, then padding cells up to L * prod tail *)
Definition row_of {X} (L P : nat) (n : nat) (cells : list X) (fill : X) : list X := cells ++ repeat fill ((L - n) * P).
Definition padded (masked : bool) (L : nat) (tail : list nat) (pv : Z) (x : tl) : tl :=
  let t := mkT (L :: tail) (row_of L (prod tail) (len_of x) (data (tl_t x)) (pad_val (tl_dt x) pv)) in
  if masked then TM (tl_dt x) t (mkT (L :: tail) (row_of L (prod tail) (len_of x) (data (tl_m x)) false))
  else TP (tl_dt x) t.
Definition spec_out (masked : bool) (tail : list nat) (pv : Z) (batch : list tl) : out :=
  let L := Lmax batch in
  let sh := length batch :: L :: tail in
  let dt := dts (map tl_dt batch) in
  let vals := concat (map (fun x => row_of L (prod tail) (len_of x) (data (tl_t x)) (pad_val (tl_dt x) pv)) batch) in
  if masked
  then OMasked dt (mkT sh vals)
         (mkT sh (concat (map (fun x => row_of L (prod tail) (len_of x) (data (tl_m x)) false) batch)))
  else OPlain dt (mkT sh vals).

(* a shortcut is sound when it is only taken if there is nothing to pad *)
Definition sc_sound (sc : list nat -> nat -> bool) : Prop :=
  forall lens mx, sc lens mx = true -> Forall (fun n => n = mx) lens.

(* fields reached through dictionaries nested in dictionaries *)
Fixpoint get_path (p : list key) (v : value) : option value :=
  match p with
  | [] => Some v
  | k :: p' => match v with
               | VDict kvs => match assoc k kvs with Some x => get_path p' x | None => None end
               | _ => None
               end
  end.
Fixpoint out_path (p : list key) (o : out) : option out :=
  match p with
  | [] => Some o
  | k :: p' => match o with
               | ODict kvs => match assoc k kvs with Some x => out_path p' x | None => None end
               | _ => None
               end
  end.
