(* C11 - the body gather: transpose / index / transpose equals "column i := column idx[i]". *)
From Coq Require Import List Arith Bool NArith ZArith Lia.
Require Import Result Tensor C11_Str C11_Select C11_Helpers.
Import ListNotations.

Lemma tget_reindex {X} (d : X) ns f t ix : in_range ns ix -> tget d (reindex d ns f t) ix = tget d t (f ix).
Proof. intros H. unfold tget. rewrite reindex_shape.
  rewrite reindex_nth by (apply ravel_lt; exact H). rewrite unravel_ravel by exact H. reflexivity. Qed.
Lemma tget_tbuild {X} (d : X) ns f ix : in_range ns ix -> tget d (tbuild ns f) ix = f ix.
Proof. intros H. unfold tget, tbuild; cbn [shape data]. pose proof (ravel_lt ns ix H) as Hlt.
  rewrite (nth_indep _ d (f (unravel ns 0))) by (rewrite map_length, seq_length; exact Hlt).
  rewrite (map_nth (fun k => f (unravel ns k)) (seq 0 (prod ns)) 0 (ravel ns ix)).
  rewrite seq_nth by exact Hlt. cbn [Nat.add]. now rewrite unravel_ravel. Qed.
Lemma tbuild_wf {X} ns (f : list nat -> X) : wf (tbuild ns f).
Proof. unfold wf, tbuild; cbn [shape data]. now rewrite map_length, seq_length. Qed.

Lemma permute_r_inv {X} (d : X) axes t t1 : permute_r d axes t = Ok t1 ->
  valid_perm axes (length (shape t)) = true /\ t1 = permute d axes t.
Proof. unfold permute_r. destruct (valid_perm axes (length (shape t))); [intros [= <-]; auto|discriminate]. Qed.
Lemma take0_r_inv {X} (d : X) idx t t2 : take0_r d idx t = Ok t2 ->
  exists n s, shape t = n :: s /\ Forall (fun k => k < n) idx /\ t2 = take0 d idx t.
Proof. unfold take0_r. destruct (shape t) as [|n s]; [discriminate|].
  destruct (forallb (fun k => k <? n) idx) eqn:E; [|discriminate]. intros [= <-]. exists n, s. split; [reflexivity|]. split; [|reflexivity].
  rewrite forallb_forall in E. apply Forall_forall. intros k Hk. apply Nat.ltb_lt. now apply E. Qed.
Lemma forallb_ltb idx n : Forall (fun k => k < n) idx -> forallb (fun k => k <? n) idx = true.
Proof. intros H. apply forallb_forall. intros k Hk. apply Nat.ltb_lt. rewrite Forall_forall in H. now apply H. Qed.

Ltac in_range_tac := unfold in_range; repeat constructor; try assumption; try lia.

(* rank 4, POINTS_DIMS = (2,1,0,3) *)
Lemma gather_points_spec4 {X} (d : X) idx t F P N D t' :
  shape t = [F; P; N; D] -> gather_points d points_dims idx t = Ok t' ->
  shape t' = [F; P; length idx; D] /\ wf t' /\ Forall (fun k => k < N) idx /\
  forall f p i e, f < F -> p < P -> i < length idx -> e < D ->
    tget d t' [f; p; i; e] = tget d t [f; p; nth i idx 0; e].
Proof. intros Hs H. unfold gather_points in H.
  destruct (permute_r d points_dims t) as [t1|] eqn:E1; cbn [rbind] in H; [|discriminate].
  destruct (take0_r d idx t1) as [t2|] eqn:E2; cbn [rbind] in H; [|discriminate].
  apply permute_r_inv in E1. destruct E1 as [_ ->]. apply permute_r_inv in H. destruct H as [_ ->].
  apply take0_r_inv in E2. destruct E2 as [n [s [Hs1 [Hidx ->]]]].
  assert (S1 : shape (permute d points_dims t) = [N; P; F; D]) by (unfold permute; rewrite reindex_shape, Hs; reflexivity).
  rewrite S1 in Hs1. injection Hs1 as <- <-.
  assert (S2 : shape (take0 d idx (permute d points_dims t)) = [length idx; P; F; D]) by (unfold take0; rewrite reindex_shape, S1; reflexivity).
  split; [unfold permute at 1; rewrite reindex_shape, S2; reflexivity|].
  split; [unfold permute at 1; apply reindex_wf|]. split; [exact Hidx|].
  intros f p i e Hf Hp Hi He.
  unfold permute at 1. rewrite tget_reindex by (rewrite S2; in_range_tac).
  change (map (fun k => nth (pos_in k points_dims) [f; p; i; e] 0) (seq 0 (length points_dims))) with [i; p; f; e].
  unfold take0. rewrite tget_reindex by (rewrite S1; cbn [tl]; in_range_tac). cbn [hd tl].
  assert (Hk : nth i idx 0 < N) by (rewrite Forall_forall in Hidx; apply Hidx, nth_In; exact Hi).
  unfold permute. rewrite tget_reindex by (rewrite Hs; in_range_tac). reflexivity. Qed.

(* rank 3, confidence_reshape = (2,1,0) *)
Lemma gather_points_spec3 {X} (d : X) idx t F P N t' :
  shape t = [F; P; N] -> gather_points d conf_perm idx t = Ok t' ->
  shape t' = [F; P; length idx] /\ wf t' /\ Forall (fun k => k < N) idx /\
  forall f p i, f < F -> p < P -> i < length idx -> tget d t' [f; p; i] = tget d t [f; p; nth i idx 0].
Proof. intros Hs H. unfold gather_points in H.
  destruct (permute_r d conf_perm t) as [t1|] eqn:E1; cbn [rbind] in H; [|discriminate].
  destruct (take0_r d idx t1) as [t2|] eqn:E2; cbn [rbind] in H; [|discriminate].
  apply permute_r_inv in E1. destruct E1 as [_ ->]. apply permute_r_inv in H. destruct H as [_ ->].
  apply take0_r_inv in E2. destruct E2 as [n [s [Hs1 [Hidx ->]]]].
  assert (S1 : shape (permute d conf_perm t) = [N; P; F]) by (unfold permute; rewrite reindex_shape, Hs; reflexivity).
  rewrite S1 in Hs1. injection Hs1 as <- <-.
  assert (S2 : shape (take0 d idx (permute d conf_perm t)) = [length idx; P; F]) by (unfold take0; rewrite reindex_shape, S1; reflexivity).
  split; [unfold permute at 1; rewrite reindex_shape, S2; reflexivity|].
  split; [unfold permute at 1; apply reindex_wf|]. split; [exact Hidx|].
  intros f p i Hf Hp Hi.
  unfold permute at 1. rewrite tget_reindex by (rewrite S2; in_range_tac).
  change (map (fun k => nth (pos_in k conf_perm) [f; p; i] 0) (seq 0 (length conf_perm))) with [i; p; f].
  unfold take0. rewrite tget_reindex by (rewrite S1; cbn [tl]; in_range_tac). cbn [hd tl].
  assert (Hk : nth i idx 0 < N) by (rewrite Forall_forall in Hidx; apply Hidx, nth_In; exact Hi).
  unfold permute. rewrite tget_reindex by (rewrite Hs; in_range_tac). reflexivity. Qed.

(* the gather is defined whenever the indexes are in range *)
Lemma gather_points_ok4 {X} (d : X) idx t F P N D :
  shape t = [F; P; N; D] -> Forall (fun k => k < N) idx -> exists t', gather_points d points_dims idx t = Ok t'.
Proof. intros Hs Hidx. unfold gather_points, permute_r at 1. rewrite Hs. change (valid_perm points_dims (length [F; P; N; D])) with true.
  cbn [rbind]. unfold take0_r.
  assert (S1 : shape (permute d points_dims t) = [N; P; F; D]) by (unfold permute; rewrite reindex_shape, Hs; reflexivity).
  rewrite S1, (forallb_ltb _ _ Hidx). cbn [rbind]. unfold permute_r.
  assert (S2 : shape (take0 d idx (permute d points_dims t)) = [length idx; P; F; D]) by (unfold take0; rewrite reindex_shape, S1; reflexivity).
  rewrite S2. change (valid_perm points_dims (length [length idx; P; F; D])) with true. eexists; reflexivity. Qed.
Lemma gather_points_ok3 {X} (d : X) idx t F P N :
  shape t = [F; P; N] -> Forall (fun k => k < N) idx -> exists t', gather_points d conf_perm idx t = Ok t'.
Proof. intros Hs Hidx. unfold gather_points, permute_r at 1. rewrite Hs. change (valid_perm conf_perm (length [F; P; N])) with true.
  cbn [rbind]. unfold take0_r.
  assert (S1 : shape (permute d conf_perm t) = [N; P; F]) by (unfold permute; rewrite reindex_shape, Hs; reflexivity).
  rewrite S1, (forallb_ltb _ _ Hidx). cbn [rbind]. unfold permute_r.
  assert (S2 : shape (take0 d idx (permute d conf_perm t)) = [length idx; P; F]) by (unfold take0; rewrite reindex_shape, S1; reflexivity).
  rewrite S2. change (valid_perm conf_perm (length [length idx; P; F])) with true. eexists; reflexivity. Qed.

(* all three backends: the same specification *)
Definition columns_from (idx : list nat) (b b' : body) (F P D : nat) : Prop :=
  body_shape b' F P (length idx) D /\ wf (b_data b') /\ wf (b_conf b') /\ wf (b_mask b') /\
  b_fps b' = b_fps b /\ b_backend b' = b_backend b /\
  forall f p i, f < F -> p < P -> i < length idx ->
    tget 0%Z (b_conf b') [f; p; i] = tget 0%Z (b_conf b) [f; p; nth i idx 0] /\
    forall e, e < D -> tget 0%Z (b_data b') [f; p; i; e] = tget 0%Z (b_data b) [f; p; nth i idx 0; e] /\
                       tget false (b_mask b') [f; p; i; e] = tget false (b_mask b) [f; p; nth i idx 0; e].

Lemma gather3_spec be idx b F P N D nd nm nc :
  body_shape b F P N D -> b_backend b = be ->
  gather_points 0%Z points_dims idx (b_data b) = Ok nd -> gather_points false points_dims idx (b_mask b) = Ok nm ->
  gather_points 0%Z conf_perm idx (b_conf b) = Ok nc ->
  columns_from idx b (mkB be (b_fps b) nd nc nm) F P D /\ Forall (fun k => k < N) idx.
Proof. intros [Sd [Sm Sc]] Hbe Hd Hm Hc.
  destruct (gather_points_spec4 _ _ _ _ _ _ _ _ Sd Hd) as [Sd' [Wd [Hidx Gd]]].
  destruct (gather_points_spec4 _ _ _ _ _ _ _ _ Sm Hm) as [Sm' [Wm [_ Gm]]].
  destruct (gather_points_spec3 _ _ _ _ _ _ _ Sc Hc) as [Sc' [Wc [_ Gc]]].
  split; [|exact Hidx]. unfold columns_from, body_shape; cbn [b_data b_conf b_mask b_fps b_backend].
  repeat split; try assumption; try (symmetry; assumption).
  - now apply Gc.
  - now apply Gd.
  - now apply Gm. Qed.

Lemma get_points_spec tfe idx b b' F P N D :
  body_shape b F P N D -> get_points tfe idx b = Ok b' -> columns_from idx b b' F P D /\ Forall (fun k => k < N) idx.
Proof. intros Hb H. unfold get_points in H. destruct (b_backend b) eqn:Ebe.
  - unfold np_get_points in H.
    destruct (gather_points 0%Z points_dims idx (b_data b)) as [nd|] eqn:E1; cbn [rbind] in H; [|discriminate].
    destruct (gather_points false points_dims idx (b_mask b)) as [nm|] eqn:E2; cbn [rbind] in H; [|discriminate].
    destruct (gather_points 0%Z conf_perm idx (b_conf b)) as [nc|] eqn:E3; cbn [rbind] in H; [|discriminate].
    injection H as <-. eapply gather3_spec; eassumption.
  - unfold torch_get_points in H.
    destruct (gather_points 0%Z points_dims idx (b_data b)) as [nd|] eqn:E1; cbn [rbind] in H; [|discriminate].
    destruct (gather_points false points_dims idx (b_mask b)) as [nm|] eqn:E2; cbn [rbind] in H; [|discriminate].
    destruct (gather_points 0%Z conf_perm idx (b_conf b)) as [nc|] eqn:E3; cbn [rbind] in H; [|discriminate].
    injection H as <-. eapply gather3_spec; eassumption.
  - unfold tf_get_points in H.
    destruct (tfe && match idx with [] => true | _ :: _ => false end); [discriminate|].
    destruct (gather_points 0%Z points_dims idx (b_data b)) as [nd|] eqn:E1; cbn [rbind] in H; [|discriminate].
    destruct (gather_points false points_dims idx (b_mask b)) as [nm|] eqn:E2; cbn [rbind] in H; [|discriminate].
    destruct (gather_points 0%Z conf_perm idx (b_conf b)) as [nc|] eqn:E3; cbn [rbind] in H; [|discriminate].
    injection H as <-. eapply gather3_spec; eassumption. Qed.

Lemma get_points_ok tfe idx b F P N D :
  body_shape b F P N D -> Forall (fun k => k < N) idx ->
  (tfe = false \/ b_backend b <> TF \/ idx <> []) -> exists b', get_points tfe idx b = Ok b'.
Proof. intros [Sd [Sm Sc]] Hidx Htf.
  destruct (gather_points_ok4 0%Z idx _ _ _ _ _ Sd Hidx) as [nd Ed].
  destruct (gather_points_ok4 false idx _ _ _ _ _ Sm Hidx) as [nm Em].
  destruct (gather_points_ok3 0%Z idx _ _ _ _ Sc Hidx) as [nc Ec].
  unfold get_points. destruct (b_backend b) eqn:Ebe.
  - unfold np_get_points. rewrite Ed, Em, Ec. cbn [rbind]. eexists; reflexivity.
  - unfold torch_get_points. rewrite Ed, Em, Ec. cbn [rbind]. eexists; reflexivity.
  - unfold tf_get_points.
    assert (Hc : tfe && match idx with [] => true | _ :: _ => false end = false).
    { destruct Htf as [->|[Hn|Hn]]; [reflexivity|congruence|]. destruct idx; [congruence|apply andb_false_r]. }
    rewrite Hc, Ed, Em, Ec. cbn [rbind]. eexists; reflexivity. Qed.
