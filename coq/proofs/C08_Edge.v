(* C08 - matmul and flatten statements, out-of-range arguments, the refuted variants (witnesses by
   vm_compute) and the non-vacuity examples. *)
From Coq Require Import ZArith NArith List Bool Lia.
Require Import Result F32 Codec C08_Body C08_Read C08_Spec C08_Lemmas C08_Ctor C08_Ops C08_Main C08_Run.
Import ListNotations.
Local Open Scope nat_scope.

(* ---- matmul: for every dot-product kernel shared by the backends ---- *)
Lemma matmul_agree_partial (dot : list N -> list N -> N) mm eo b k m :
  kD k <> 0 -> ok_for b (k_pts k) -> rows_ok k -> m_rows m = kD k -> m_cols m = kD k ->
  rmap (fun y => visible (observe b y)) (matmul dot (cfgR mm eo) b m (rep b k)) = Ok (visible (obs_core (ref_matmul dot m k))).
Proof. intros HD Hok Hrows Hr Hc. unfold cfgR. destruct (bk_eq_dec_np b) as [->|Hb].
  - apply matmul_np_visible; try assumption. lia.
  - now apply matmul_mt_visible. Qed.
(* once MaskedTensor.matmul rebuilds the mask from the rows (proposed fix F16a): every non-empty width *)
Lemma matmul_agree_after_F16a (dot : list N -> list N -> N) eo b k m :
  kD k <> 0 -> ok_for b (k_pts k) -> rows_ok k -> m_rows m = kD k -> m_cols m <> 0 ->
  rmap (fun y => visible (observe b y)) (matmul dot (cfgR MmAllExpand eo) b m (rep b k)) = Ok (visible (obs_core (ref_matmul dot m k))).
Proof. intros HD Hok Hrows Hr Hc. unfold cfgR. destruct (bk_eq_dec_np b) as [->|Hb].
  - now apply matmul_np_visible.
  - now apply matmul_mt_expand_visible. Qed.
Lemma matmul_numpy_any_width (dot : list N -> list N -> N) mm eo k m :
  kD k <> 0 -> rows_ok k -> m_rows m = kD k -> m_cols m <> 0 ->
  rmap (fun y => visible (observe Np y)) (matmul dot (cfgR mm eo) Np m (rep Np k)) = Ok (visible (obs_core (ref_matmul dot m k))).
Proof. intros. now apply matmul_np_visible. Qed.
Lemma matmul_bad_rows (dot : list N -> list N -> N) mm eo b k m : m_rows m <> kD k -> matmul dot (cfgR mm eo) b m (rep b k) = Err Value.
Proof. intros H. unfold matmul. cbn [rep g_data dshape kshape last_dim last]. apply Nat.eqb_neq in H. rewrite Nat.eqb_sym in H.
  now rewrite H. Qed.

(* ---- flatten ---- *)
Lemma flatten_agree k :
  flatten Np (rep Np k) = flatten Torch (rep Torch k) /\
  flatten Np (rep Np k) =
    (if fps_zero (k_fps k) then Err ZeroDiv else if Nat.eqb (kF k * (kP k * (kT k * 1))) 0 then Err Value else Ok (ref_flatten k)) /\
  flatten Tf (rep Tf k) = Err NotImplemented.
Proof. rewrite !flatten_rep by discriminate. repeat split. Qed.

(* ---- an out-of-range position makes every backend raise, unless the body has no elements ---- *)
Lemma rmapM_err {A B} (f : A -> result B) (l : list A) :
  (forall a e, f a = Err e -> e = Index) -> Exists (fun a => exists e, f a = Err e) l -> rmapM f l = Err Index.
Proof. intros Hk H. induction H as [a l [e He]|a l _ IH]; cbn [rmapM].
  - rewrite He. cbn [rbind]. now rewrite (Hk _ _ He).
  - destruct (f a) as [y|e] eqn:E; cbn [rbind]; [|now rewrite (Hk _ _ E)]. now rewrite IH. Qed.
Definition out_of (n : nat) (i : Z) : Prop := (i < - Z.of_nat n \/ Z.of_nat n <= i)%Z.
Lemma norm_gather_err n i e : norm_gather n i = Err e -> e = Index.
Proof. unfold norm_gather. destruct (_ && _); [discriminate|]. now intros [= <-]. Qed.
Lemma norm_wrap_err n i e : norm_wrap n i = Err e -> e = Index.
Proof. unfold norm_wrap. destruct (_ && _); [discriminate|]. destruct (_ && _); [discriminate|]. now intros [= <-]. Qed.
Lemma norm_gather_out n i : out_of n i -> norm_gather n i = Err Index.
Proof. intros H. unfold norm_gather, out_of in *. destruct (Z.leb_spec 0 i), (Z.ltb_spec i (Z.of_nat n)); cbn [andb]; try reflexivity; lia. Qed.
Lemma ix_list_out b eo n inner idx : inner <> 0 -> Exists (out_of n) idx -> ix_list b eo n inner idx = Err Index.
Proof. intros Hi H. apply Nat.eqb_neq in Hi.
  assert (Hw : rmapM (norm_wrap n) idx = Err Index).
  { apply rmapM_err; [apply norm_wrap_err|]. eapply Exists_impl; [|exact H]. intros i Ho. exists Index. now apply norm_wrap_out. }
  assert (Hg : rmapM (norm_gather n) idx = Err Index).
  { apply rmapM_err; [apply norm_gather_err|]. eapply Exists_impl; [|exact H]. intros i Ho. exists Index. now apply norm_gather_out. }
  destruct b; cbn [ix_list]; rewrite ?Hi; cbn [andb]; try assumption.
  destruct idx; [inversion H|assumption]. Qed.
Lemma select_frames_out_of_range mm eo b k idx : kP k * (kT k * (kD k * 1)) <> 0 -> Exists (out_of (kF k)) idx ->
  select_frames (cfgR mm eo) b idx (rep b k) = Err Index.
Proof. intros Hi H. unfold select_frames, extent, inner0. cbn [rep g_data dshape kshape nth tl fold_right].
  now rewrite ix_list_out. Qed.
Lemma get_points_out_of_range mm eo b k idx : kF k * (kP k * (kD k * 1)) <> 0 -> Exists (out_of (kT k)) idx ->
  get_points (cfgR mm eo) b idx (rep b k) = Err Index.
Proof. intros Hi H. unfold get_points, extent, inner2. cbn [rep g_data dshape kshape nth fold_right].
  now rewrite ix_list_out. Qed.

(* ---- example content: 2 frames, 1 person, 2 points, 3 dims; confidences 1, 0, -1, NaN ---- *)
Definition w1 : N := 1065353216%N.   Definition wm1 : N := 3212836864%N.   Definition wnan : N := 2143289344%N.
Definition k_ex : core :=
  {| k_fps := 4629137466983448576%N; kF := 2; kP := 1; kT := 2; kD := 3;
     k_pts := [ [ [ (w1, [w1; 1073741824; 1077936128]%N); (0%N, [1082130432; 1084227584; 1086324736]%N) ] ];
                [ [ (wm1, [1088421888; 1090519040; 1091567616]%N); (wnan, [1092616192; 1093664768; 1094713344]%N) ] ] ] |}.
Definition file_ex : list N :=
  [205; 204; 76; 62; 128; 2; 224; 1; 0; 0; 1; 0; 1; 0; 99; 4; 0; 88; 89; 90; 67; 2; 0; 0; 0; 0; 0; 1; 0; 97; 1; 0; 98; 0; 0; 240; 65; 2; 0; 0; 0; 1; 0;
   0; 0; 128; 63; 0; 0; 0; 64; 0; 0; 64; 64; 0; 0; 128; 64; 0; 0; 160; 64; 0; 0; 192; 64; 0; 0; 224; 64; 0; 0; 0; 65; 0; 0; 16; 65; 0; 0; 32; 65;
   0; 0; 48; 65; 0; 0; 64; 65; 0; 0; 128; 63; 0; 0; 0; 0; 0; 0; 128; 191; 0; 0; 192; 127]%N.
Lemma read_example : read_core file_ex no_args = Ok k_ex.
Proof. vm_compute. reflexivity. Qed.
Lemma hyps_example : kD k_ex <> 0 /\ (forall b, ok_for b (k_pts k_ex)) /\ rows_ok k_ex /\
  in_range (kF k_ex) [1; 0; 1]%Z /\ in_range (kT k_ex) [1; 1]%Z /\ pos_step (every 2) /\
  out_of (kF k_ex) (-3)%Z /\ kP k_ex * (kT k_ex * (kD k_ex * 1)) <> 0.
Proof. split; [discriminate|]. split; [intros b; destruct b; cbn [ok_for]; trivial; vm_compute; reflexivity|].
  split; [repeat constructor|]. split; [repeat constructor; cbn; lia|]. split; [repeat constructor; cbn; lia|].
  split; [cbn; lia|]. split; [unfold out_of; cbn; lia|discriminate]. Qed.
(* the validity pattern of the example: valid, missing, valid (negative confidence), valid (NaN confidence) *)
Lemma valid_example :
  o_valid (obs_core k_ex) = Some ([2; 1; 2; 3], [ [ [ [true; true; true]; [false; false; false] ] ]; [ [ [true; true; true]; [true; true; true] ] ] ]).
Proof. vm_compute. reflexivity. Qed.
Definition m_ex : matrix := {| m_rows := 3; m_cols := 3; m_el := [[w1; 0; 0]; [0; w1; 0]; [0; 0; w1]]%N |}.
Lemma matmul_example : m_rows m_ex = kD k_ex /\ m_cols m_ex = kD k_ex.
Proof. split; reflexivity. Qed.

(* ---- refuted: the constructors as pinned before the repairs ---- *)
Definition raw_ex : raw :=
  {| r_fps := 1106247680%N; r_F := 1; r_P := 1; r_T := 2; r_D := 3;
     r_data := [w1; w1; w1; w1; w1; w1]%N; r_conf := [wm1; wnan]%N |}.
Definition res_shape (r : result body) : option (list nat * option (list nat)) :=
  match r with Ok x => Some (o_shape (observe Np x), option_map fst (o_valid (observe Np x))) | Err _ => None end.
(* F7: TensorFlow stacks the mask twice whatever the number of dimensions *)
Lemma pinned_tf_mask_shape_refuted :
  exists r, res_shape (body_of_raw cfg_pinned Tf r) = Some ([1; 1; 2; 3], Some [1; 1; 2; 2])
         /\ res_shape (body_of_raw cfg_pinned Np r) = Some ([1; 1; 2; 3], Some [1; 1; 2; 3]).
Proof. exists raw_ex. split; vm_compute; reflexivity. Qed.
(* F8: conf > 0 marks negative and NaN confidences missing, conf == 0 does not *)
Lemma pinned_validity_rule_refuted :
  exists r, rmap (fun x => o_valid (observe Torch x)) (body_of_raw cfg_pinned Torch r)
            = Ok (Some ([1; 1; 2; 3], [[[[false; false; false]; [false; false; false]]]]))
         /\ rmap (fun x => o_valid (observe Np x)) (body_of_raw cfg_pinned Np r)
            = Ok (Some ([1; 1; 2; 3], [[[[true; true; true]; [true; true; true]]]])).
Proof. exists raw_ex. split; vm_compute; reflexivity. Qed.
(* np.stack(..., axis=3): body[int] raises on NumPy only *)
Lemma pinned_numpy_int_index_refuted :
  exists r x y, body_of_raw cfg_pinned Np r = Ok x /\ body_of_raw cfg_pinned Torch r = Ok y /\
    getitem_int cfg_pinned Np 0 x = Err Index /\ is_ok (getitem_int cfg_pinned Torch 0 y) = true.
Proof. exists raw_ex. eexists. eexists. repeat split; vm_compute; reflexivity. Qed.
(* F9: multiplying by the mask keeps NaN / infinity of a missing point *)
Lemma pinned_zero_filled_refuted :
  exists k, rmap (fun y => o_val (observe Torch y)) (zero_filled cfg_pinned Torch (rep Torch k)) = Ok [[[[wnan]]]]
         /\ rmap (fun y => o_val (observe Np y)) (zero_filled cfg_pinned Np (rep Np k)) = Ok [[[[0%N]]]].
Proof. exists {| k_fps := 0%N; kF := 1; kP := 1; kT := 1; kD := 1; k_pts := [[[(0%N, [wnan])]]] |}. split; vm_compute; reflexivity. Qed.

(* ---- refuted on the repaired constructors: what is outside the partial theorems ---- *)
(* F16: a non-square matrix leaves the Torch / TF mask at the old width *)
Definition m_32 : matrix := {| m_rows := 3; m_cols := 2; m_el := [[w1; 0]; [0; w1]; [0; 0]]%N |}.
Lemma matmul_nonsquare_refuted :
  exists k m, kD k <> 0 /\ m_rows m = kD k /\
    rmap (fun y => (o_shape (observe Torch y), option_map fst (o_valid (observe Torch y)))) (matmul dot32 (cfgR MmKeep false) Torch m (rep Torch k))
      = Ok ([2; 1; 2; 2], Some [2; 1; 2; 3]) /\
    rmap (fun y => (o_shape (observe Np y), option_map fst (o_valid (observe Np y)))) (matmul dot32 (cfgR MmKeep false) Np m (rep Np k))
      = Ok ([2; 1; 2; 2], Some [2; 1; 2; 2]).
Proof. exists k_ex, m_32. repeat split; try discriminate; vm_compute; reflexivity. Qed.
(* framework indexing conventions outside the common domain *)
Lemma tf_negative_index_refuted :
  is_ok (select_frames (cfgR MmKeep false) Np [-1]%Z (rep Np k_ex)) = true /\ is_ok (select_frames (cfgR MmKeep false) Torch [-1]%Z (rep Torch k_ex)) = true /\
  select_frames (cfgR MmKeep false) Tf [-1]%Z (rep Tf k_ex) = Err Index.
Proof. repeat split; vm_compute; reflexivity. Qed.
Lemma tf_empty_index_list_refuted :
  is_ok (get_points (cfgR MmKeep false) Np [] (rep Np k_ex)) = true /\ is_ok (get_points (cfgR MmKeep false) Torch [] (rep Torch k_ex)) = true /\
  get_points (cfgR MmKeep false) Tf [] (rep Tf k_ex) = Err Type_.
Proof. repeat split; vm_compute; reflexivity. Qed.
Lemma torch_negative_step_refuted :
  is_ok (slice_step (cfgR MmKeep false) Np (-1) (rep Np k_ex)) = true /\ is_ok (slice_step (cfgR MmKeep false) Tf (-1) (rep Tf k_ex)) = true /\
  slice_step (cfgR MmKeep false) Torch (-1) (rep Torch k_ex) = Err Value.
Proof. repeat split; vm_compute; reflexivity. Qed.
(* TensorFlow reads a subnormal confidence as 0 *)
Lemma tf_subnormal_confidence_refuted :
  exists k, kD k <> 0 /\ o_valid (observe Tf (rep Tf k)) = Some ([1; 1; 1; 1], [[[[false]]]])
                      /\ o_valid (observe Np (rep Np k)) = Some ([1; 1; 1; 1], [[[[true]]]]).
Proof. exists {| k_fps := 0%N; kF := 1; kP := 1; kT := 1; kD := 1; k_pts := [[[(1%N, [w1])]]] |}. repeat split; try discriminate; vm_compute; reflexivity. Qed.
(* Torch / TF do not check positions on a body without elements *)
Lemma unchecked_index_on_empty_body_refuted :
  exists k, kD k <> 0 /\ select_frames (cfgR MmKeep false) Np [5]%Z (rep Np k) = Err Index /\ is_ok (select_frames (cfgR MmKeep false) Torch [5]%Z (rep Torch k)) = true
                      /\ is_ok (select_frames (cfgR MmKeep false) Tf [5]%Z (rep Tf k)) = true.
Proof. exists {| k_fps := 0%N; kF := 2; kP := 0; kT := 3; kD := 2; k_pts := [[]; []] |}. repeat split; try discriminate; vm_compute; reflexivity. Qed.
