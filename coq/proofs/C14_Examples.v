(* C14 - non-vacuity: one concrete body on which the hypotheses of every theorem hold.
   8 frames at 10 fps, one person, two points, one coordinate x = 2 * frame + 1 (affine in time);
   point 0 is observed at frames 0 1 3 4 6, point 1 at frames 2 and 7.  Target rates: 15 fps (12 frames) and 10 fps. *)
From Coq Require Import Reals List Arith Bool Lia Lra Sorted PrimFloat ZArith.
Require Import Num Result C14_Count C14_Interp C14_Index C14_Grid C14_Lerp C14_Eval C14_Obs C14_Track C14_Body C14_CountP
               C14_Main C14_Witness.
Import ListNotations.
Local Open Scope R_scope.
Set Warnings "-inexact-float".

Definition ex_conf0 : list R := [1; 1; 0; 1; 1; 0; 1; 0].
Definition ex_conf1 : list R := [0; 0; 1; 0; 0; 0; 0; 1].
Definition ex_body : bodyR :=
  mkBody R_ops 10%float 1 2 1
    (map (fun i => [[[2 * INR i + 1]; [2 * INR i + 1]]]) (seq 0 8))
    (map (fun cc => [[fst cc; snd cc]]) (combine ex_conf0 ex_conf1)).

Lemma wit_ok : spline_ok wit.
Proof. split; [exact wit_shape|]. split; [exact wit_nodes|exact wit_poly]. Qed.
Lemma ex_wf : wf_body ex_body.
Proof. unfold wf_body, ex_body, frames_of; cbn. repeat (split || constructor). Qed.
Lemma ex_count15 : new_frame_count 8 15%float 10%float = Ok 12%nat.
Proof. vm_compute. reflexivity. Qed.
Lemma ex_count10 : new_frame_count 8 10%float 10%float = Ok 8%nat.
Proof. vm_compute. reflexivity. Qed.
Lemma ex_interpolated k : exists o, interpolated wit ex_body (Some 15%float) k o 12.
Proof. destruct (interpolate_defined wit ex_body (Some 15%float) k ex_wf 12) as [o Ho];
    [cbn; lia|cbn; lia|cbn; lia|exact ex_count15|].
  exists o. split; [exact ex_wf|]. split; [exact Ho|exact ex_count15]. Qed.
Lemma ex_interpolated_same k : exists o, interpolated wit ex_body None k o 8 /\ 8%nat = frames_of ex_body.
Proof. destruct (interpolate_defined wit ex_body None k ex_wf 8) as [o Ho];
    [cbn; lia|cbn; lia|cbn; lia|exact ex_count10|].
  exists o. split; [|reflexivity]. split; [exact ex_wf|]. split; [exact Ho|exact ex_count10]. Qed.

Lemma ex_row0 i : (i < 8)%nat -> in_row ex_body i 0 0 = [2 * INR i + 1; nth i ex_conf0 0].
Proof. intros H. do 8 (destruct i as [|i]; [reflexivity|]). lia. Qed.
Lemma ex_row1 i : (i < 8)%nat -> in_row ex_body i 0 1 = [2 * INR i + 1; nth i ex_conf1 0].
Proof. intros H. do 8 (destruct i as [|i]; [reflexivity|]). lia. Qed.
Lemma obs_row x c : observedR [x; c] = true <-> c <> 0.
Proof. apply observedR_iff. Qed.
Lemma ex_seen0 i : seen ex_body i 0 0 <-> (i = 0 \/ i = 1 \/ i = 3 \/ i = 4 \/ i = 6)%nat.
Proof. unfold seen. change (frames_of ex_body) with 8%nat. split.
  - intros [Hi Ho]. rewrite ex_row0 in Ho by exact Hi. apply obs_row in Ho.
    do 8 (destruct i as [|i]; [cbn in Ho; try lia; exfalso; apply Ho; reflexivity|]). lia.
  - intros H. assert (Hi : (i < 8)%nat) by lia. split; [exact Hi|]. rewrite ex_row0 by exact Hi. apply obs_row.
    destruct H as [->|[->|[->|[->| ->]]]]; cbn; lra. Qed.
Lemma ex_seen1 i : seen ex_body i 0 1 <-> (i = 2 \/ i = 7)%nat.
Proof. unfold seen. change (frames_of ex_body) with 8%nat. split.
  - intros [Hi Ho]. rewrite ex_row1 in Ho by exact Hi. apply obs_row in Ho.
    do 8 (destruct i as [|i]; [cbn in Ho; try lia; exfalso; apply Ho; reflexivity|]). lia.
  - intros H. assert (Hi : (i < 8)%nat) by lia. split; [exact Hi|]. rewrite ex_row1 by exact Hi. apply obs_row.
    destruct H as [->| ->]; cbn; lra. Qed.
Lemma t_old8 i : (i < 8)%nat -> t_old 8 i = INR i / 7.
Proof. intros H. unfold t_old. rewrite grid_nth by lia. replace (INR (8 - 1)) with 7 by (cbn; lra). reflexivity. Qed.
Lemma t_new12 j : (j < 12)%nat -> t_new 12 j = INR j / 11.
Proof. intros H. unfold t_new. rewrite grid_nth by lia. replace (INR (12 - 1)) with 11 by (cbn; lra). reflexivity. Qed.

(* frame count: 8 frames at 10 fps -> 15 fps gives round(12.0) = 12 frames; exact .5 quotients go to the even side *)
Lemma ex_frame_count : exists o, interpolate R_ops wit ex_body (Some 15%float) Cubic = Ok o /\ length (o_data R_ops o) = 12%nat.
Proof. destruct (ex_interpolated Cubic) as [o [_ [Ho _]]]. exists o. split; [exact Ho|].
  destruct (frame_count_body wit ex_body _ _ o Ho) as [n [Hn [_ [Hl _]]]].
  change (new_frame_count 8 15%float 10%float = Ok n) in Hn. rewrite ex_count15 in Hn. injection Hn as <-. exact Hl. Qed.
Lemma ex_half_even : new_frame_count 5 15%float 10%float = Ok 8%nat /\ new_frame_count 3 15%float 10%float = Ok 4%nat /\
                     new_frame_count 7 24%float 29.97%float = Ok 6%nat.
Proof. vm_compute. repeat split. Qed.
(* support: point 0 is last seen at frame 6 (t = 6/7) - the last new frame (t = 1) lies after it;
   point 1 is first seen at frame 2 (t = 2/7) - the first new frame (t = 0) lies before it *)
Lemma ex_support : (forall i, seen ex_body i 0 0 -> t_old 8 i < t_new 12 11) /\ seen ex_body 6 0 0 /\
                   (forall i, seen ex_body i 0 1 -> t_new 12 0 < t_old 8 i) /\ seen ex_body 2 0 1.
Proof. split; [|split; [apply ex_seen0; lia|split; [|apply ex_seen1; lia]]].
  - intros i Hs. apply ex_seen0 in Hs. rewrite t_old8, t_new12 by lia.
    destruct Hs as [->|[->|[->|[->| ->]]]]; cbn; lra.
  - intros i Hs. apply ex_seen1 in Hs. rewrite t_old8, t_new12 by lia.
    destruct Hs as [->| ->]; cbn; lra. Qed.
(* identity: same rate gives the same count; ends: point 0 is observed at frame 0, point 1 at frame 7 *)
Lemma ex_identity : exists o, interpolated wit ex_body None Quadratic o 8 /\ 8%nat = frames_of ex_body /\ seen ex_body 3 0 0.
Proof. destruct (ex_interpolated_same Quadratic) as [o [H1 H2]]. exists o. split; [exact H1|]. split; [exact H2|]. apply ex_seen0; lia. Qed.
Lemma ex_ends : seen ex_body 0 0 0 /\ seen ex_body (frames_of ex_body - 1) 0 1.
Proof. split; [apply ex_seen0; lia|apply ex_seen1; cbn; lia]. Qed.
(* affine: x = 2 * frame + 1 = 14 * t + 1 on the observed frames; new frame 3 (t = 3/11) lies between frames 1 and 3 *)
Lemma ex_affine : (forall i, seen ex_body i 0 0 -> col 0 (in_row ex_body i 0 0) = 14 * t_old 8 i + 1) /\
  seen ex_body 1 0 0 /\ t_old 8 1 <= t_new 12 3 /\ seen ex_body 3 0 0 /\ t_new 12 3 <= t_old 8 3.
Proof. split; [|split; [apply ex_seen0; lia|split; [|split; [apply ex_seen0; lia|]]]].
  - intros i Hs. apply ex_seen0 in Hs. rewrite ex_row0, t_old8 by lia. unfold col. cbn [nth]. field.
  - rewrite t_old8, t_new12 by lia. cbn; lra.
  - rewrite t_old8, t_new12 by lia. cbn; lra. Qed.
