(* C16: select_frames returns exactly the requested frames; slice_step returns frames 0, k, 2k, ... and divides fps. *)
From Coq Require Import ZArith List Bool Arith Lia SpecFloat.
Require Import Result F32 C16_Frames C16_Lists.
Import ListNotations.
Local Open Scope nat_scope.

Definition frames_at {A} (d : A) (l : list A) (idx : list nat) : list A := map (fun i => nth i l d) idx.
Definition body_at {A} (d : A) (b : body A) (idx : list nat) : body A :=
  mkB (fps b) (frames_at d (dat b) idx) (frames_at d (msk b) idx) (frames_at d (cnf b) idx).

Lemma select_exact {A} (d : A) be (b : body A) idx :
  wf_body b -> Forall (fun i => i < frames b) idx -> (be = TF -> idx <> []) ->
  select_frames be b (map Z.of_nat idx) = Ok (body_at d b idx).
Proof. intros [Hm Hc] Hr Hne. unfold select_frames, frames in *.
  assert (Ht : is_tf be && match map Z.of_nat idx with [] => true | _ :: _ => false end = false).
  { destruct be; try reflexivity. destruct idx; [exfalso; now apply Hne|reflexivity]. }
  rewrite Ht. rewrite (gather_nat d) by exact Hr. cbn [rbind].
  rewrite (gather_nat d) by (rewrite Hm; exact Hr). cbn [rbind].
  rewrite (gather_nat d) by (rewrite Hc; exact Hr). reflexivity. Qed.
(* whatever select_frames returns for a list of non-negative indexes is those frames, channel by channel *)
Lemma select_ok_inv {A} (d : A) be (b : body A) idx r :
  select_frames be b (map Z.of_nat idx) = Ok r -> r = body_at d b idx /\ Forall (fun i => i < frames b) idx.
Proof. unfold select_frames. destruct (is_tf be && _); [discriminate|].
  destruct (gather _ (dat b) _) as [x|e] eqn:H1; cbn [rbind]; [|discriminate].
  destruct (gather _ (msk b) _) as [y|e] eqn:H2; cbn [rbind]; [|discriminate].
  destruct (gather _ (cnf b) _) as [z|e] eqn:H3; cbn [rbind]; [|discriminate].
  intros [= <-]. apply (gather_nat_inv d) in H1, H2, H3. destruct H1 as [-> Hr], H2 as [-> _], H3 as [-> _].
  split; [reflexivity|exact Hr]. Qed.
(* out-of-range requests are refused on every backend *)
Lemma select_out_of_range {A} be (b : body A) idx i :
  wf_body b -> In i idx -> frames b <= i -> exists e, select_frames be b (map Z.of_nat idx) = Err e.
Proof. intros _ Hi Hge. destruct (select_frames be b (map Z.of_nat idx)) as [r|e] eqn:H; [|now exists e].
  destruct (dat b) as [|x0 l0] eqn:Hd.
  - unfold select_frames in H. destruct (is_tf be && _); [discriminate|]. rewrite Hd in H.
    destruct idx as [|j r']; [destruct Hi|]. cbn [map gather rmapM] in H. unfold norm_index in H. cbn [length Z.of_nat] in H.
    destruct (Z.leb_spec 0 (Z.of_nat j)); [|lia].
    destruct (Z.ltb_spec (Z.of_nat j) 0); [lia|]. cbn [andb] in H.
    destruct (Z.ltb_spec (Z.of_nat j) 0); [lia|]. rewrite andb_false_r in H. discriminate.
  - apply (select_ok_inv x0) in H. destruct H as [_ Hr]. rewrite Forall_forall in Hr. specialize (Hr i Hi). lia. Qed.

Definition step_indexes (n by' : nat) : list nat := map (fun j => j * by') (seq 0 ((n + by' - 1) / by')).
Lemma step_frames_and_fps {A} (d : A) be (b : body A) (k : positive) r :
  wf_body b -> slice_step be b (Zpos k) = Ok r ->
  r = body_at d (mkB (sf64_div (fps b) (sf64_of_Z (Zpos k))) (dat b) (msk b) (cnf b)) (step_indexes (frames b) (Pos.to_nat k)).
Proof. intros [Hm Hc]. unfold slice_step. destruct (is_inf_sf _); [discriminate|]. intros [= <-].
  pose proof (Pos2Nat.is_pos k) as Hk.
  unfold body_at, frames_at, step_indexes, frames. cbn [fps dat msk cnf]. rewrite !map_map.
  rewrite !strideN_stride. change (N.to_nat 0) with 0. change (N.to_nat (N.pos k)) with (Pos.to_nat k).
  rewrite (stride_spec d) by lia. rewrite (stride_spec d _ (msk b)) by lia. rewrite (stride_spec d _ (cnf b)) by lia.
  rewrite Hm, Hc. reflexivity. Qed.
Lemma step_ok {A} be (b : body A) (k : positive) :
  is_inf_sf (sf64_of_Z (Zpos k)) = false -> exists r, slice_step be b (Zpos k) = Ok r.
Proof. intros H. unfold slice_step. rewrite H. eexists. reflexivity. Qed.
Lemma step_zero {A} be (b : body A) : slice_step be b 0 = Err Value.
Proof. reflexivity. Qed.
Lemma step_indexes_spec n by' : 1 <= by' ->
  forall i, In i (step_indexes n by') <-> (exists j, i = j * by' /\ i < n).
Proof. intros Hb i. unfold step_indexes. rewrite in_map_iff. split.
  - intros [j [<- Hj]]. apply in_seq in Hj. exists j. split; [reflexivity|].
    destruct Hj as [_ Hj]. cbn [Nat.add] in Hj.
    set (q := (n + by' - 1) / by') in *.
    assert (H2 : by' * q <= n + by' - 1) by (apply Nat.mul_div_le; lia). rewrite Nat.mul_comm in H2.
    assert (H3 : S j * by' <= q * by') by (apply Nat.mul_le_mono_r; lia). cbn [Nat.mul] in H3. lia.
  - intros [j [-> Hj]]. exists j. split; [reflexivity|]. apply in_seq. split; [lia|]. cbn [Nat.add].
    apply (Nat.div_le_lower_bound (n + by' - 1) by' (S j)); [lia|]. rewrite Nat.mul_comm. cbn [Nat.mul]. lia. Qed.

(* non-vacuity *)
Example select_example :
  select_frames Torch (mkB (sf64_of_Z 30) [10;11;12;13] [20;21;22;23] [30;31;32;33]) [3;1;1]%Z
  = Ok (mkB (sf64_of_Z 30) [13;11;11] [23;21;21] [33;31;31]).
Proof. reflexivity. Qed.
Example step_example :
  slice_step TF (mkB (sf64_of_Z 30) [10;11;12;13;14] [20;21;22;23;24] [30;31;32;33;34]) 2
  = Ok (mkB (sf64_of_Z 15) [10;12;14] [20;22;24] [30;32;34]).
Proof. vm_compute. reflexivity. Qed.
