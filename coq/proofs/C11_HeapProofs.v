(* C11 - object level: get_components on the heap refines the value-level function, only allocates,
   and therefore leaves every existing object (in particular the source pose) untouched. *)
From Coq Require Import List Arith Bool NArith ZArith Lia.
Require Import Result Tensor C11_Str C11_Select C11_Helpers C11_Heap C11_ListLemmas.
Import ListNotations.
Open Scope list_scope.

Lemma read_comp_ext h ext a c : read_comp h a = Ok c -> read_comp (h ++ ext) a = Ok c.
Proof. unfold read_comp. destruct (nth_error h a) as [o|] eqn:E; [|discriminate].
  rewrite nth_error_app1 by (apply nth_error_Some; congruence). now rewrite E. Qed.
Lemma read_body_ext h ext a b : read_body h a = Ok b -> read_body (h ++ ext) a = Ok b.
Proof. unfold read_body. destruct (nth_error h a) as [o|] eqn:E; [|discriminate].
  rewrite nth_error_app1 by (apply nth_error_Some; congruence). now rewrite E. Qed.
Lemma read_comps_ext h ext : forall addrs cs, read_comps h addrs = Ok cs -> read_comps (h ++ ext) addrs = Ok cs.
Proof. unfold read_comps. induction addrs as [|a r IH]; intros cs; cbn [rmapM]; [auto|].
  destruct (read_comp h a) as [c|] eqn:E; cbn [rbind]; [|discriminate]. rewrite (read_comp_ext _ ext _ _ E). cbn [rbind].
  destruct (rmapM (read_comp h) r) as [l|]; cbn [rbind]; [|discriminate]. rewrite (IH l eq_refl). cbn [rbind]. auto. Qed.
Lemma deref_ext h ext p v : deref h p = Ok v -> deref (h ++ ext) p = Ok v.
Proof. unfold deref. destruct (read_comps h (p_comps p)) as [cs|] eqn:E1; cbn [rbind]; [|discriminate].
  destruct (read_body h (p_body p)) as [b|] eqn:E2; cbn [rbind]; [|discriminate].
  rewrite (read_comps_ext _ ext _ _ E1), (read_body_ext _ ext _ _ E2). cbn [rbind]. auto. Qed.
Lemma nth_error_fresh (h : heap) o ext : nth_error (h ++ o :: ext) (length h) = Some o.
Proof. rewrite nth_error_app2 by lia. now rewrite Nat.sub_diag. Qed.
Lemma write_fresh (h : heap) o o' : write (h ++ [o]) (length h) o' = h ++ [o'].
Proof. unfold write. rewrite firstn_app, Nat.sub_diag, firstn_all, firstn_O, app_nil_r.
  rewrite skipn_all2 by (rewrite app_length; cbn [length]; lia). reflexivity. Qed.
Lemma update_comp_fresh h c f : update_comp (h ++ [OComp c]) (length h) f = h ++ [OComp (f c)].
Proof. unfold update_comp. rewrite nth_error_fresh. apply write_fresh. Qed.
Lemma component_eta c : mkC (c_name c) (c_points c) (c_limbs c) (c_colors c) (c_format c) = c.
Proof. destruct c; reflexivity. Qed.

Definition OC (e : str * (component * list nat)) : obj := OComp (fst (snd e)).
Fixpoint number (base : nat) (table : list (str * (component * list nat))) : list (str * (nat * list nat)) :=
  match table with
  | [] => []
  | e :: r => (fst e, (base, snd (snd e))) :: number (S base) r
  end.
(* the loop: same table, the new components appended to the heap in header order *)
Lemma walk_h_refines : forall addrs h cs idx sel pts, read_comps h addrs = Ok cs ->
  walk_h h addrs idx sel pts =
  match walk cs idx sel pts with
  | Ok table => Ok (h ++ map OC table, number (length h) table)
  | Err e => Err e
  end.
Proof. induction addrs as [|a r IH]; intros h cs idx sel pts Hr.
  - cbn in Hr. injection Hr as <-. cbn [walk_h walk map number]. now rewrite app_nil_r.
  - unfold read_comps in Hr. cbn [rmapM] in Hr. destruct (read_comp h a) as [c|] eqn:Ea; cbn [rbind] in Hr; [|discriminate].
    destruct (rmapM (read_comp h) r) as [cs'|] eqn:Er; cbn [rbind] in Hr; [|discriminate]. injection Hr as <-.
    cbn [walk_h walk]. rewrite Ea. cbn [rbind]. destruct (mem (c_name c) sel) eqn:Em.
    + unfold alloc. rewrite component_eta. unfold sel_component. destruct (pts_lookup pts (c_name c)) as [np|].
      * rewrite update_comp_fresh. destruct (index_mapping (c_points c) np 0) as [m|]; cbn [rbind]; [|reflexivity].
        rewrite update_comp_fresh. destruct (flat_indexes (c_points c) np idx) as [ixs|]; cbn [rbind]; [|reflexivity].
        rewrite (IH _ cs') by (apply read_comps_ext; exact Er).
        destruct (walk cs' (idx + length (c_points c)) sel pts) as [rest|]; cbn [rbind]; [|reflexivity].
        cbn [app map number OC fst snd set_points set_limbs c_name c_points c_limbs c_colors c_format].
        rewrite <- app_assoc. cbn [app]. do 3 f_equal. rewrite app_length. cbn [length]. f_equal. lia.
      * cbn [rbind]. rewrite (IH _ cs') by (apply read_comps_ext; exact Er).
        destruct (walk cs' (idx + length (c_points c)) sel pts) as [rest|]; cbn [rbind]; [|reflexivity].
        cbn [app map number OC fst snd]. rewrite <- app_assoc. cbn [app]. do 3 f_equal. rewrite app_length. cbn [length]. f_equal. lia.
    + cbn [rbind]. rewrite (IH _ cs' _ _ _ Er).
      destruct (walk cs' (idx + length (c_points c)) sel pts) as [rest|]; cbn [rbind]; reflexivity. Qed.

Lemma assoc_last_number name : forall table base,
  match assoc_last name table, assoc_last name (number base table) with
  | Some x, Some y => snd y = snd x /\ base <= fst y /\ nth_error (map OC table) (fst y - base) = Some (OComp (fst x))
  | None, None => True
  | _, _ => False
  end.
Proof. induction table as [|[n [c ixs]] r IH]; intros base; cbn [assoc_last number fst snd]; [exact I|].
  specialize (IH (S base)). destruct (assoc_last name r) as [x|], (assoc_last name (number (S base) r)) as [y|]; try contradiction.
  - destruct IH as [H1 [H2 H3]]. split; [exact H1|]. split; [lia|]. cbn [map]. replace (fst y - base) with (S (fst y - S base)) by lia. exact H3.
  - destruct (str_eqb n name); [|exact I]. cbn [fst snd]. split; [reflexivity|]. split; [lia|]. rewrite Nat.sub_diag. reflexivity. Qed.

Lemma pick_number (h : heap) table : forall sel,
  match pick table sel, pick (number (length h) table) sel with
  | Ok pv, Ok ph => map snd ph = map snd pv /\ read_comps (h ++ map OC table) (map fst ph) = Ok (map fst pv)
  | Err e, Err e' => e = e'
  | _, _ => False
  end.
Proof. unfold pick, read_comps. induction sel as [|s r IH]; cbn [rmapM map]; [auto|].
  pose proof (assoc_last_number s table (length h)) as Ha.
  destruct (assoc_last s table) as [x|], (assoc_last s (number (length h) table)) as [y|]; try contradiction; cbn [rbind]; [|reflexivity].
  destruct Ha as [H1 [H2 H3]].
  destruct (rmapM (fun c => match assoc_last c table with Some x => Ok x | None => Err Key end) r) as [pv|],
           (rmapM (fun c => match assoc_last c (number (length h) table) with Some x => Ok x | None => Err Key end) r) as [ph|];
    try contradiction; cbn [rbind]; [|exact IH].
  destruct IH as [I1 I2]. cbn [map rmapM]. split; [now rewrite H1, I1|].
  rewrite I2. unfold read_comp. rewrite nth_error_app2 by lia. rewrite H3. reflexivity. Qed.

(* ---------------------------------------------------------------- get_components on the heap *)
Theorem get_components_h_refines tfe h p v sel pts : deref h p = Ok v ->
  match get_components_v tfe (v_comps v) (v_body v) sel pts, get_components_h tfe h p sel pts with
  | Ok (cs', b'), Ok (h', p') =>
      (exists ext, h' = h ++ ext) /\ deref h' p' = Ok (mkV (v_version v) (v_dims v) false cs' b')
  | Err e, Err e' => e = e'
  | _, _ => False
  end.
Proof. unfold deref. destruct (read_comps h (p_comps p)) as [cs|] eqn:Ec; cbn [rbind]; [|discriminate].
  destruct (read_body h (p_body p)) as [b|] eqn:Eb; cbn [rbind]; [|discriminate]. intros [= <-]. cbn [v_comps v_body v_version v_dims].
  unfold get_components_v, get_components_h. rewrite (walk_h_refines _ _ _ _ _ _ Ec).
  destruct (walk cs 0 sel pts) as [table|]; cbn [rbind]; [|reflexivity].
  pose proof (pick_number h table sel) as Hp.
  destruct (pick table sel) as [pv|], (pick (number (length h) table) sel) as [ph|]; try contradiction; cbn [rbind]; [|exact Hp].
  destruct Hp as [P1 P2]. rewrite (read_body_ext _ _ _ _ Eb). cbn [rbind]. rewrite P1.
  destruct (get_points tfe (concat (map snd pv)) b) as [nb|]; cbn [rbind]; [|reflexivity].
  unfold alloc. split.
  - exists (map OC table ++ [OBody nb]). now rewrite app_assoc.
  - cbn [p_comps p_body p_version p_dims p_bbox]. rewrite (read_comps_ext _ _ _ _ P2). cbn [rbind].
    unfold read_body. rewrite nth_error_fresh. reflexivity. Qed.

(* selecting only allocates: every object that existed before the call is unchanged *)
Theorem select_pure_h tfe h p sel pts h' p' v :
  get_components_h tfe h p sel pts = Ok (h', p') -> deref h p = Ok v ->
  (exists ext, h' = h ++ ext) /\ deref h' p = Ok v /\ (forall a, a < length h -> nth_error h' a = nth_error h a).
Proof. intros H Hd. pose proof (get_components_h_refines tfe h p v sel pts Hd) as R. rewrite H in R.
  destruct (get_components_v tfe (v_comps v) (v_body v) sel pts) as [[cs' b']|]; [|contradiction].
  destruct R as [[ext ->] _]. split; [eauto|]. split; [now apply deref_ext|]. intros a Ha. now apply nth_error_app1. Qed.
