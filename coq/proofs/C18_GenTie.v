(* C18 tie (a): the shared-variable access programme regenerated from pose_header.py / pose.py on every run
   (coq/gen/Gen_C18.v) is the one the thread model coq/model/C18_Threads.v (locked = true) was written from.
   Program counters of the model, in the order of these statements:
     Pose.read            "load end_offset"                          P_pf
     PoseHeader.read      "with[load lock]{"                         P_acq1 ; its exit P_rel_hit / P_rel_miss
                          "call check_cache"
       check_cache        "if[load hash]{" "return" "}"              P_h1
                          "if[load hash; call calc_hash]{"           P_h2
         calc_hash        "return[load start_offset; load end_offset]"   P_cs, P_ce
                          "return[load header]" "}"                  P_hd
                          "if[]{" "load end_offset" "return" "}" "}"  P_he
                          "call set_cache"
       set_cache          "with[load lock]{"                         P_acq2 ; its exit P_rel_set
                          "store start_offset" "store end_offset" "store header"      P_ws P_we P_wh
                          "call calc_hash; store hash" "}"           P_tau, (calc_hash) P_scs P_sce, P_swk *)
From Coq Require Import String List.
Require Import Gen_C18.
Import ListNotations.
Open Scope string_scope.

Lemma memo_fields_tie : Gen_C18.memo_fields = ["start_offset"; "end_offset"; "hash"; "header"].
Proof. reflexivity. Qed.
Lemma lock_attribute_tie : Gen_C18.lock_attribute = ["lock"].
Proof. reflexivity. Qed.
Lemma calc_hash_tie : Gen_C18.calc_hash = ["return[load start_offset; load end_offset]"].
Proof. reflexivity. Qed.
Lemma check_cache_tie : Gen_C18.check_cache =
  ["if[load hash]{"; "return"; "}"; "if[load hash; call calc_hash]{"; "return[load header]"; "}"].
Proof. reflexivity. Qed.
Lemma set_cache_tie : Gen_C18.set_cache =
  ["with[load lock]{"; "store start_offset"; "store end_offset"; "store header"; "call calc_hash; store hash"; "}"].
Proof. reflexivity. Qed.
Lemma header_read_tie : Gen_C18.header_read =
  ["with[load lock]{"; "call check_cache"; "if[]{"; "load end_offset"; "return"; "}"; "}"; "call set_cache"].
Proof. reflexivity. Qed.
Lemma pose_read_tie : Gen_C18.pose_read = ["load end_offset"].
Proof. reflexivity. Qed.

(* second tie: the inventory of module/class-level state of the files a read executes, and every access to such
   state (all writes anywhere; reads in the functions a read runs).  Besides PoseHeaderCache the only state written
   at run time is the per-format attribute memo of BufferReader.unpack_f (hasattr / setattr / getattr on
   ConstStructs), modelled in model/C18_StructMemo.v; everything else is loaded only. *)
Lemma state_inventory_tie : Gen_C18.state_inventory =
  [ "utils/reader.py:ConstStructs.float";
    "utils/reader.py:ConstStructs.short";
    "utils/reader.py:ConstStructs.ushort";
    "utils/reader.py:ConstStructs.double_ushort";
    "utils/reader.py:ConstStructs.triple_ushort";
    "utils/reader.py:ConstStructs.uint";
    "pose_header.py:VERSION";
    "pose_header.py:PoseHeaderCache.start_offset";
    "pose_header.py:PoseHeaderCache.end_offset";
    "pose_header.py:PoseHeaderCache.hash";
    "pose_header.py:PoseHeaderCache.header";
    "pose_header.py:PoseHeaderCache.lock";
    "pose.py:Pose.pass_through_methods";
    "pose_body.py:POINTS_DIMS";
    "pose_body.py:PoseBody.tensor_reader";
    "numpy/pose_body.py:NumPyPoseBody.tensor_reader" ].
Proof. reflexivity. Qed.
Lemma shared_state_accesses_tie : Gen_C18.shared_state_accesses =
  [ "utils/reader.py:BufferReader.unpack_f: hasattr ConstStructs; setattr ConstStructs; getattr ConstStructs";
    "utils/reader.py:BufferReader.unpack_str: load ConstStructs.ushort";
    "pose_header.py:PoseHeaderComponent.read: load ConstStructs.triple_ushort; load ConstStructs.double_ushort; load ConstStructs.ushort";
    "pose_header.py:PoseHeaderDimensions.read: load ConstStructs.triple_ushort";
    "pose_header.py:PoseHeaderCache.calc_hash: load PoseHeaderCache.start_offset; load PoseHeaderCache.end_offset";
    "pose_header.py:PoseHeaderCache.check_cache: load PoseHeaderCache.hash; load PoseHeaderCache.hash; load PoseHeaderCache.calc_hash; load PoseHeaderCache.header";
    "pose_header.py:PoseHeaderCache.clear_cache: load PoseHeaderCache.lock; store PoseHeaderCache.start_offset; store PoseHeaderCache.end_offset; store PoseHeaderCache.hash; store PoseHeaderCache.header";
    "pose_header.py:PoseHeaderCache.set_cache: load PoseHeaderCache.lock; store PoseHeaderCache.start_offset; store PoseHeaderCache.end_offset; store PoseHeaderCache.header; store PoseHeaderCache.hash; load PoseHeaderCache.calc_hash";
    "pose_header.py:PoseHeader.read: load PoseHeaderCache.lock; load PoseHeaderCache.check_cache; load PoseHeaderCache.end_offset; load ConstStructs.float; load PoseHeaderDimensions.read; load ConstStructs.ushort; load PoseHeaderComponent.read; load PoseHeaderCache.set_cache";
    "pose.py:Pose.read: load PoseHeaderCache.end_offset; load PoseHeader.read";
    "pose_body.py:PoseBody.read_v0_1_frames: load ConstStructs.float; load ConstStructs.float";
    "pose_body.py:PoseBody.read_v0_1: load ConstStructs.double_ushort; load ConstStructs.ushort";
    "pose_body.py:PoseBody.read_v0_2: load ConstStructs.float; load ConstStructs.uint; load ConstStructs.ushort";
    "numpy/pose_body.py:NumPyPoseBody.read_v0_0: load ConstStructs.double_ushort; load ConstStructs.ushort; load ConstStructs.short; load ConstStructs.float" ].
Proof. reflexivity. Qed.

Definition modelled_programme : Prop :=
  Gen_C18.memo_fields = ["start_offset"; "end_offset"; "hash"; "header"] /\
  Gen_C18.lock_attribute = ["lock"] /\
  Gen_C18.calc_hash = ["return[load start_offset; load end_offset]"] /\
  Gen_C18.check_cache = ["if[load hash]{"; "return"; "}"; "if[load hash; call calc_hash]{"; "return[load header]"; "}"] /\
  Gen_C18.set_cache = ["with[load lock]{"; "store start_offset"; "store end_offset"; "store header"; "call calc_hash; store hash"; "}"] /\
  Gen_C18.header_read = ["with[load lock]{"; "call check_cache"; "if[]{"; "load end_offset"; "return"; "}"; "}"; "call set_cache"] /\
  Gen_C18.pose_read = ["load end_offset"].
Definition modelled_state : Prop :=
  Gen_C18.state_inventory = [ "utils/reader.py:ConstStructs.float";
    "utils/reader.py:ConstStructs.short";
    "utils/reader.py:ConstStructs.ushort";
    "utils/reader.py:ConstStructs.double_ushort";
    "utils/reader.py:ConstStructs.triple_ushort";
    "utils/reader.py:ConstStructs.uint";
    "pose_header.py:VERSION";
    "pose_header.py:PoseHeaderCache.start_offset";
    "pose_header.py:PoseHeaderCache.end_offset";
    "pose_header.py:PoseHeaderCache.hash";
    "pose_header.py:PoseHeaderCache.header";
    "pose_header.py:PoseHeaderCache.lock";
    "pose.py:Pose.pass_through_methods";
    "pose_body.py:POINTS_DIMS";
    "pose_body.py:PoseBody.tensor_reader";
    "numpy/pose_body.py:NumPyPoseBody.tensor_reader" ] /\
  Gen_C18.shared_state_accesses = [ "utils/reader.py:BufferReader.unpack_f: hasattr ConstStructs; setattr ConstStructs; getattr ConstStructs";
    "utils/reader.py:BufferReader.unpack_str: load ConstStructs.ushort";
    "pose_header.py:PoseHeaderComponent.read: load ConstStructs.triple_ushort; load ConstStructs.double_ushort; load ConstStructs.ushort";
    "pose_header.py:PoseHeaderDimensions.read: load ConstStructs.triple_ushort";
    "pose_header.py:PoseHeaderCache.calc_hash: load PoseHeaderCache.start_offset; load PoseHeaderCache.end_offset";
    "pose_header.py:PoseHeaderCache.check_cache: load PoseHeaderCache.hash; load PoseHeaderCache.hash; load PoseHeaderCache.calc_hash; load PoseHeaderCache.header";
    "pose_header.py:PoseHeaderCache.clear_cache: load PoseHeaderCache.lock; store PoseHeaderCache.start_offset; store PoseHeaderCache.end_offset; store PoseHeaderCache.hash; store PoseHeaderCache.header";
    "pose_header.py:PoseHeaderCache.set_cache: load PoseHeaderCache.lock; store PoseHeaderCache.start_offset; store PoseHeaderCache.end_offset; store PoseHeaderCache.header; store PoseHeaderCache.hash; load PoseHeaderCache.calc_hash";
    "pose_header.py:PoseHeader.read: load PoseHeaderCache.lock; load PoseHeaderCache.check_cache; load PoseHeaderCache.end_offset; load ConstStructs.float; load PoseHeaderDimensions.read; load ConstStructs.ushort; load PoseHeaderComponent.read; load PoseHeaderCache.set_cache";
    "pose.py:Pose.read: load PoseHeaderCache.end_offset; load PoseHeader.read";
    "pose_body.py:PoseBody.read_v0_1_frames: load ConstStructs.float; load ConstStructs.float";
    "pose_body.py:PoseBody.read_v0_1: load ConstStructs.double_ushort; load ConstStructs.ushort";
    "pose_body.py:PoseBody.read_v0_2: load ConstStructs.float; load ConstStructs.uint; load ConstStructs.ushort";
    "numpy/pose_body.py:NumPyPoseBody.read_v0_0: load ConstStructs.double_ushort; load ConstStructs.ushort; load ConstStructs.short; load ConstStructs.float" ].
Lemma shared_state_tie : modelled_state.
Proof. exact (conj state_inventory_tie shared_state_accesses_tie). Qed.
Lemma access_programme_tie : modelled_programme.
Proof.
  exact (conj memo_fields_tie (conj lock_attribute_tie (conj calc_hash_tie (conj check_cache_tie
          (conj set_cache_tie (conj header_read_tie pose_read_tie)))))).
Qed.
