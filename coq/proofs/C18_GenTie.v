(* C18 tie (a): the shared-variable access programme regenerated from pose_header.py / pose.py on every run
   (coq/gen/Gen_C18.v) is the one the thread model coq/model/C18_Threads.v (locked = true) was written from.
   Program counters of the model, in the order of these statements:
     Pose.read            "load end_offset"                          P_pf
     PoseHeader.read      "with[load lock]{"                         P_acq1 ; its exit P_rel_hit / P_rel_miss
                          "call check_cache"
       check_cache        "if[load hash]{" "return" "}"              P_h1
                          "if[load hash; call calc_hash]{"           P_h2
         calc_hash        "return[load start_offset; load end_offset]"   P_cs, P_ce
                          "return[load header]" "}"                  P_hd
                          "if[]{" "load end_offset" "return" "}" "}"  P_he
                          "call set_cache"
       set_cache          "with[load lock]{"                         P_acq2 ; its exit P_rel_set
                          "store start_offset" "store end_offset" "store header"      P_ws P_we P_wh
                          "call calc_hash; store hash" "}"           P_tau, (calc_hash) P_scs P_sce, P_swk *)
From Coq Require Import String List.
Require Import Gen_C18.
Import ListNotations.
Open Scope string_scope.

Lemma memo_fields_tie : Gen_C18.memo_fields = ["start_offset"; "end_offset"; "hash"; "header"].
Proof. reflexivity. Qed.
Lemma lock_attribute_tie : Gen_C18.lock_attribute = ["lock"].
Proof. reflexivity. Qed.
Lemma calc_hash_tie : Gen_C18.calc_hash = ["return[load start_offset; load end_offset]"].
Proof. reflexivity. Qed.
Lemma check_cache_tie : Gen_C18.check_cache =
  ["if[load hash]{"; "return"; "}"; "if[load hash; call calc_hash]{"; "return[load header]"; "}"].
Proof. reflexivity. Qed.
Lemma set_cache_tie : Gen_C18.set_cache =
  ["with[load lock]{"; "store start_offset"; "store end_offset"; "store header"; "call calc_hash; store hash"; "}"].
Proof. reflexivity. Qed.
Lemma header_read_tie : Gen_C18.header_read =
  ["with[load lock]{"; "call check_cache"; "if[]{"; "load end_offset"; "return"; "}"; "}"; "call set_cache"].
Proof. reflexivity. Qed.
Lemma pose_read_tie : Gen_C18.pose_read = ["load end_offset"].
Proof. reflexivity. Qed.

Definition modelled_programme : Prop :=
  Gen_C18.memo_fields = ["start_offset"; "end_offset"; "hash"; "header"] /\
  Gen_C18.lock_attribute = ["lock"] /\
  Gen_C18.calc_hash = ["return[load start_offset; load end_offset]"] /\
  Gen_C18.check_cache = ["if[load hash]{"; "return"; "}"; "if[load hash; call calc_hash]{"; "return[load header]"; "}"] /\
  Gen_C18.set_cache = ["with[load lock]{"; "store start_offset"; "store end_offset"; "store header"; "call calc_hash; store hash"; "}"] /\
  Gen_C18.header_read = ["with[load lock]{"; "call check_cache"; "if[]{"; "load end_offset"; "return"; "}"; "}"; "call set_cache"] /\
  Gen_C18.pose_read = ["load end_offset"].
Lemma access_programme_tie : modelled_programme.
Proof.
  exact (conj memo_fields_tie (conj lock_attribute_tie (conj calc_hash_tie (conj check_cache_tie
          (conj set_cache_tie (conj header_read_tie pose_read_tie)))))).
Qed.
