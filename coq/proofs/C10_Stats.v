(* C10 - refinement, part 2: mean / variance (TensorFlow) against the per-slice reference.
   Needs a numeric type with x + 0 = x; variance additionally needs a faithful count (1 + ... + 1 <> 0). *)
From Coq Require Import List Arith ZArith Bool Lia.
Require Import Result Tensor Num C10_Tensor C10_Masked C10_TensorLemmas C10_IndexLemmas C10_Aligned C10_RefBase.
Import ListNotations.

(* ---- broadcasting against kept axes *)
Definition le1 (x y : nat) : Prop := y = x \/ y = 1.
Lemma bshape_rev_le1 a b : Forall2 le1 a b -> bshape_rev a b = Ok a.
Proof. induction 1 as [|x y a b Hxy _ IH]; cbn; [reflexivity|]. rewrite IH; cbn [rbind].
  destruct Hxy as [-> | ->]; [now rewrite Nat.eqb_refl|].
  destruct (Nat.eqb_spec x 1) as [->|N]; [reflexivity|]. reflexivity. Qed.
Lemma Forall2_rev' {A B} (R : A -> B -> Prop) l1 l2 : Forall2 R l1 l2 -> Forall2 R (rev l1) (rev l2).
Proof. induction 1; cbn; [constructor|]. apply Forall2_app; [assumption|]. constructor; [assumption|constructor]. Qed.
Lemma broadcast_le1 s ks : Forall2 le1 s ks -> broadcast_shapes s ks = Ok s.
Proof. intros H. unfold broadcast_shapes. rewrite bshape_rev_le1 by now apply Forall2_rev'. cbn. now rewrite rev_involutive. Qed.
Lemma le1_refl s : Forall2 le1 s s.
Proof. induction s; constructor; [now left | assumption]. Qed.
Lemma le1_replace d : forall s, d < length s -> Forall2 le1 s (replace_at d 1 s).
Proof. induction d as [|d IH]; intros [|e s] H; cbn [length] in H; try lia.
  - unfold replace_at; cbn. constructor; [now right | apply le1_refl].
  - rewrite replace_at_S. constructor; [now left | apply IH; lia]. Qed.
Lemma le1_ones (s : list nat) : Forall2 le1 s (map (fun _ => 1) s).
Proof. induction s; cbn; constructor; [now right | assumption]. Qed.
Lemma prod_keep d s : d < length s -> prod (replace_at d 1 s) = prod (remove_at d s).
Proof. revert s. induction d as [|d IH]; intros [|e s] H; cbn [length] in H; try lia.
  - unfold replace_at, remove_at; cbn. lia.
  - rewrite replace_at_S, remove_at_S. cbn [prod fold_right]. fold (prod (replace_at d 1 s)) (prod (remove_at d s)). rewrite IH by lia. reflexivity. Qed.
Lemma prod_ones (s : list nat) : prod (map (fun _ => 1) s) = 1.
Proof. induction s as [|e s IH]; cbn; [reflexivity|]. fold (prod (map (fun _ : nat => 1) s)). rewrite IH. reflexivity. Qed.
Lemma norm_dim_lt z n d : norm_dim z n = Ok d -> d < n.
Proof. unfold norm_dim. destruct ((- Z.of_nat n <=? z)%Z && (z <? Z.of_nat n)%Z) eqn:E; [|discriminate].
  intros [= <-]. apply andb_prop in E. destruct E as [E1 E2]. apply Z.leb_le in E1. apply Z.ltb_lt in E2.
  destruct (z <? 0)%Z eqn:E3; [apply Z.ltb_lt in E3 | apply Z.ltb_ge in E3]; lia. Qed.
Definition dim_ok (d : option nat) (s : list nat) : Prop := match d with Some d' => d' < length s | None => True end.
Lemma le1_keep d s : dim_ok d s -> Forall2 le1 s (keep_shape d s).
Proof. destruct d; cbn; intros H; [now apply le1_replace | apply le1_ones]. Qed.
Lemma norm_opt_ok d n dd : norm_opt d n = Ok dd -> forall s, length s = n -> dim_ok dd s.
Proof. unfold norm_opt. destruct d as [z|]; [|intros [= <-]; cbn; trivial].
  destruct (norm_dim z n) as [x|] eqn:E; cbn; [|discriminate]. intros [= <-] s Hs. cbn. rewrite Hs. eapply norm_dim_lt; eauto. Qed.
Lemma nth_map_in {X Y} (g : X -> Y) l k dx dy : k < length l -> nth k (map g l) dy = g (nth k l dx).
Proof. intros H. rewrite (nth_indep _ dy (g dx)) by now rewrite map_length. apply map_nth. Qed.

(* ---- slices of a pointwise image *)
Definition red_shape (d : option nat) (s : list nat) : list nat := match d with Some d' => remove_at d' s | None => [] end.
Lemma slices_opt_shape {X} (dx : X) d t : shape (slices_opt dx d t) = red_shape d (shape t).
Proof. destruct d; reflexivity. Qed.
Lemma slices_opt_wf {X} (dx : X) d t : wf (slices_opt dx d t).
Proof. destruct d; [apply tabulate_wf | reflexivity]. Qed.
Lemma slices_opt_image {X Y} (dx : X) (dy : Y) (h : X -> Y) d (P : tensor X) : wf P -> dim_ok d (shape P) ->
  slices_opt dy d (tabulate (shape P) (fun p => h (nth p (data P) dx))) = tmap (map h) (slices_opt dx d P).
Proof. intros Hw Hd. destruct d as [d|]; cbn [slices_opt dim_ok] in *.
  - unfold slices at 1. cbn [shape tabulate]. unfold slices. rewrite tmap_tabulate. apply tabulate_ext. intros k Hk.
    rewrite map_map. apply map_seq_ext. intros i Hi. cbn [data].
    assert (Hix : in_range (shape P) (insert_at d i (unravel (remove_at d (shape P)) k))).
    { apply in_range_insert; [exact Hd | now apply unravel_in_range | lia]. }
    unfold tabulate; cbn [data]. now rewrite nth_map_seq by (now apply ravel_lt).
  - unfold tmap, tabulate; cbn [shape data map]. f_equal. f_equal. rewrite <- Hw.
    rewrite (list_as_map_nth dx (data P)) at 2. now rewrite map_map. Qed.
Lemma pair_data_image {X Y} (dv : X) (dm : Y) (v : tensor X) (m : tensor Y) : wf v -> wf m -> shape v = shape m ->
  forall Z (h : X * Y -> Z), tabulate (shape v) (fun p => h (nth p (data v) dv, nth p (data m) dm))
                           = tabulate (shape v) (fun p => h (nth p (data (tzip v m)) (dv, dm))).
Proof. intros Hv Hm Hs Z h. apply tabulate_ext. intros p _. f_equal. symmetry. apply nth_tzip. unfold wf in *. congruence. Qed.

Lemma map_as_seq {X Y} (h : X -> Y) (d : X) (l : list X) : map h l = map (fun p => h (nth p l d)) (seq 0 (length l)).
Proof. rewrite (list_as_map_nth d l) at 1. now rewrite map_map. Qed.
Lemma tmap_as_tabulate {X Y} (g : X -> Y) (d : X) (t : tensor X) : wf t ->
  tmap g t = tabulate (shape t) (fun k => g (nth k (data t) d)).
Proof. intros H. destruct t as [s l]. unfold wf, tmap, tabulate in *; cbn [shape data] in *. f_equal. rewrite <- H.
  rewrite (list_as_map_nth d l) at 1. now rewrite map_map. Qed.

Section Stats.
Variable O : ops.
Variable trig : uname -> T O -> T O.
Hypothesis add_0_r : forall x : T O, add O x (zero O) = x.
Notation A := (T O).
Notation mt := (mt O).
Notation pair_of := (pair_of O).
Notation dp := (dp O).
Notation z0 := (z0 O).
Notation ok := (ok O).
Notation fsum := (fsum O).
Notation mean_ref := (mean_ref O).

(* ---- per-slice facts *)
Definition hz (a : A * bool) : A := if snd a then fst a else zero O.
Definition hi (a : A * bool) : A := ind O (snd a).
Lemma fold_zero_fill (l : list (A * bool)) acc :
  fold_left (add O) (map hz l) acc = fold_left (add O) (valid_values O l) acc.
Proof. revert acc. induction l as [|[v b] l IH]; intros acc; cbn; [reflexivity|]. unfold hz at 1; cbn [fst snd].
  destruct b; cbn [filter snd map fst fold_left]; [apply IH|]. rewrite add_0_r. apply IH. Qed.
Lemma fsum_zero_fill l : fsum (map hz l) = fsum (valid_values O l).
Proof. apply fold_zero_fill. Qed.
Lemma fold_ind (l : list (A * bool)) acc :
  fold_left (add O) (map hi l) acc = fold_left (add O) (map (fun _ => one O) (valid_values O l)) acc.
Proof. revert acc. induction l as [|[v b] l IH]; intros acc; cbn; [reflexivity|]. unfold hi at 1, ind; cbn [fst snd].
  destruct b; cbn [filter snd map fst fold_left]; [apply IH|]. rewrite add_0_r. apply IH. Qed.
Lemma fsum_ind l : fsum (map hi l) = count O (valid_values O l).
Proof. apply fold_ind. Qed.

(* ---- the mean, in normal form *)
Definition ws {X} (keep : bool) (d : option nat) (s : list nat) (t : tensor X) : tensor X :=
  if keep then with_shape (keep_shape d s) t else t.
Lemma ws_shape {X} keep d s (t : tensor X) : shape t = red_shape d s -> dim_ok d s -> prod (shape (ws keep d s t)) = prod (shape t).
Proof. intros Ht Hd. unfold ws. destruct keep; [|reflexivity]. cbn [with_shape shape]. rewrite Ht.
  destruct d as [d|]; cbn [keep_shape red_shape dim_ok] in *; [now apply prod_keep | apply prod_ones]. Qed.
Lemma ws_tmap {X Y} (g : X -> Y) keep d s (t : tensor X) : ws keep d s (tmap g t) = tmap g (ws keep d s t).
Proof. unfold ws. now destruct keep. Qed.
Lemma reduce_ws {X} (dx : X) keep d (t : tensor X) : reduce dx keep d t = ws keep d (shape t) (slices_opt dx d t).
Proof. reflexivity. Qed.
Lemma ws_wf {X} keep d s (t : tensor X) : wf t -> shape t = red_shape d s -> dim_ok d s -> wf (ws keep d s t).
Proof. intros Hw Ht Hd. unfold wf. rewrite ws_shape by assumption. unfold ws. destruct keep; exact Hw. Qed.
Lemma ws_data {X} keep d s (t : tensor X) : data (ws keep d s t) = data t.
Proof. unfold ws. now destruct keep. Qed.

Lemma zero_filled_nf m zf : ok m -> zero_filled O repaired m = Ok zf ->
  zf = tabulate (shape (fst m)) (fun p => hz (nth p (data (pair_of m)) dp)).
Proof. intros [Hv [Hm Hs]]. unfold zero_filled; cbn [zf_where repaired]. rewrite bzip_same by (symmetry; exact Hs).
  intros [= <-]. rewrite <- Hs. apply tabulate_ext. intros p _. unfold hz.
  unfold C10_Masked.pair_of, dp, C10_Masked.dp, z0, C10_Masked.z0. rewrite nth_tzip by (unfold wf in *; congruence). reflexivity. Qed.
Lemma ind_nf m : ok m -> tmap (ind O) (snd m) = tabulate (shape (fst m)) (fun p => hi (nth p (data (pair_of m)) dp)).
Proof. intros [Hv [Hm Hs]]. rewrite (tensor_as_tabulate false (snd m) Hm) at 1. rewrite tmap_tabulate, <- Hs. apply tabulate_ext. intros p _.
  unfold hi, C10_Masked.pair_of, dp, C10_Masked.dp. rewrite nth_tzip by (unfold wf in *; congruence). reflexivity. Qed.

Lemma mean_nf keep d m x : ok m -> mean_mt O repaired keep d m = Ok x ->
  exists dd, norm_opt d (length (shape (fst m))) = Ok dd /\ dim_ok dd (shape (fst m)) /\
    pair_of x = ws keep dd (shape (fst m)) (tmap mean_ref (slices_opt dp dd (pair_of m))) /\ ok x.
Proof. intros Hok H. unfold mean_mt in H. binv H. pose proof (zero_filled_nf _ _ Hok E) as Hzf.
  assert (Hsz : shape x0 = shape (fst m)) by (rewrite Hzf; reflexivity).
  destruct Hok as [Hv [Hm Hs]]. rewrite Hsz, <- Hs in H. binv H. rename x1 into dd. rename E0 into Hdd.
  pose proof (norm_opt_ok _ _ _ Hdd _ eq_refl) as Hdim.
  exists dd. split; [reflexivity|]. split; [exact Hdim|].
  assert (Hok : ok m) by (repeat split; assumption).
  assert (HP : wf (pair_of m)) by (apply tzip_wf; [exact Hv | unfold wf in *; congruence]).
  set (SL := slices_opt dp dd (pair_of m)) in *.
  pose proof (slices_opt_shape dp dd (pair_of m) : shape SL = red_shape dd (shape (fst m))) as HSLs.
  pose proof (slices_opt_wf dp dd (pair_of m) : wf SL) as HSLw.
  (* the two reductions *)
  assert (F1 : reduce z0 keep dd x0 = ws keep dd (shape (fst m)) (tmap (map hz) SL)).
  { rewrite reduce_ws, Hsz. f_equal. rewrite Hzf. exact (slices_opt_image dp z0 hz dd (pair_of m) HP Hdim). }
  assert (F2 : reduce z0 keep dd (tmap (ind O) (snd m)) = ws keep dd (shape (fst m)) (tmap (map hi) SL)).
  { rewrite reduce_ws. cbn [tmap shape]. rewrite <- Hs. f_equal. change (mkT (shape (snd m)) (map (ind O) (data (snd m)))) with (tmap (ind O) (snd m)).
    rewrite (ind_nf _ Hok). exact (slices_opt_image dp z0 hi dd (pair_of m) HP Hdim). }
  rewrite F1, F2 in H. clear F1 F2. rewrite <- !(ws_tmap fsum) in H.
  assert (G1 : tmap fsum (tmap (map hz) SL) = tmap (fun l => fsum (valid_values O l)) SL).
  { unfold tmap; cbn [shape data]. f_equal. rewrite map_map. apply map_ext. intros l. apply fsum_zero_fill. }
  assert (G2 : tmap fsum (tmap (map hi) SL) = tmap (fun l => count O (valid_values O l)) SL).
  { unfold tmap; cbn [shape data]. f_equal. rewrite map_map. apply map_ext. intros l. apply fsum_ind. }
  rewrite G1, G2 in H. clear G1 G2.
  set (S1 := ws keep dd (shape (fst m)) (tmap (fun l => fsum (valid_values O l)) SL)) in *.
  set (S2 := ws keep dd (shape (fst m)) (tmap (fun l => count O (valid_values O l)) SL)) in *.
  assert (Hsh : shape S1 = shape S2) by (unfold S1, S2, ws; destruct keep; reflexivity).
  rewrite (bzip_same _ _ _ S1 S2 Hsh) in H. cbn [rbind] in H. injection H as <-.
  assert (Hpr : prod (shape S1) = length (data SL)).
  { unfold S1. rewrite ws_shape by (cbn [shape]; assumption). cbn [shape]. symmetry. exact HSLw. }
  split.
  - unfold C10_Masked.pair_of; cbn [fst snd]. rewrite !tmap_tabulate.
    rewrite (tmap_as_tabulate (nonzero O) (zero O) S2) by (unfold S2; apply ws_wf; [now apply tmap_wf | exact HSLs | exact Hdim]).
    rewrite <- Hsh, tzip_tabulate.
    rewrite (tensor_as_tabulate (mean_ref []) (ws keep dd (shape (fst m)) (tmap mean_ref SL)))
      by (apply ws_wf; [now apply tmap_wf | exact HSLs | exact Hdim]).
    assert (Hsh2 : shape (ws keep dd (shape (fst m)) (tmap mean_ref SL)) = shape S1) by (unfold S1, ws; destruct keep; reflexivity).
    rewrite Hsh2. apply tabulate_ext. intros k Hk. rewrite Hpr in Hk.
    unfold S1, S2. rewrite !ws_data. cbn [data tmap].
    rewrite !(nth_map_in _ _ k [] _ Hk). reflexivity.
  - repeat split; cbn [fst snd]; [apply tmap_wf, tabulate_wf | | ].
    + apply tmap_wf. unfold S2. apply ws_wf; [now apply tmap_wf | exact HSLs | exact Hdim].
    + cbn [tmap shape tabulate]. exact Hsh.
Qed.

(* ---- the variance *)
Hypothesis count_faithful : forall l : list A, nonzero O (count O l) = false -> l = [].
Definition dev (a mu : A * bool) : A * bool :=
  (mul O (sub O (fst a) (fst mu)) (sub O (fst a) (fst mu)), snd a && snd mu).
Lemma valid_dev l mu b :
  valid_values O (map (fun x => dev x (mu, b)) l)
  = if b then map (fun v => mul O (sub O v mu) (sub O v mu)) (valid_values O l) else [].
Proof. unfold valid_values. induction l as [|[v k] l IH]; cbn [map filter]; [now destruct b|].
  unfold dev at 1; cbn [fst snd]. destruct k, b; cbn [andb filter map fst snd]; rewrite ?IH; reflexivity. Qed.
Lemma var_slice l : mean_ref (map (fun x => dev x (mean_ref l)) l) = var_ref O l.
Proof. unfold C10_Masked.mean_ref, var_ref. set (vs := valid_values O l).
  destruct (mean_of O vs) as [mu b] eqn:E. rewrite valid_dev. cbn [fst].
  destruct b; [reflexivity|].
  assert (Hb : nonzero O (count O vs) = false) by (unfold mean_of in E; now injection E).
  rewrite (count_faithful _ Hb). reflexivity. Qed.

Lemma var_nf d m x : ok m -> var_mt O repaired d m = Ok x ->
  exists dd, norm_opt d (length (shape (fst m))) = Ok dd /\
    pair_of x = tmap (var_ref O) (slices_opt dp dd (pair_of m)) /\ ok x.
Proof. intros Hok H. unfold var_mt in H. cbn [var_keepdims repaired] in H. binv H. rename x0 into means.
  destruct (mean_nf _ _ _ _ Hok E) as [dd [Hdd [Hdim [Hpm Hokm]]]].
  exists dd. split; [exact Hdd|].
  set (s := shape (fst m)) in *. set (P := pair_of m) in *. set (SL := slices_opt dp dd P) in *.
  assert (HPw : wf P) by (destruct Hok as [Hv [Hm Hs]]; apply tzip_wf; [exact Hv | unfold wf in *; congruence]).
  assert (HSLw : wf SL) by apply slices_opt_wf.
  assert (HSLs : shape SL = red_shape dd s) by apply slices_opt_shape.
  assert (Hks : shape (fst means) = keep_shape dd s).
  { change (shape (fst means)) with (shape (pair_of means)). rewrite Hpm. reflexivity. }
  assert (Hb : broadcast_shapes s (shape (fst means)) = Ok s) by (rewrite Hks; apply broadcast_le1, le1_keep; exact Hdim).
  binv H. rename x0 into dv. binv H. rename x0 into dk.
  apply bzip_ok in E0. destruct E0 as [n1 [B1 ->]]. fold s in B1. rewrite Hb in B1. injection B1 as <-.
  apply bzip_ok in E1. destruct E1 as [n2 [B2 ->]].
  assert (Hs2 : shape (snd m) = s) by (symmetry; apply Hok).
  assert (Hs3 : shape (snd means) = shape (fst means)) by (symmetry; apply Hokm).
  rewrite Hs2, Hs3, Hb in B2. injection B2 as <-.
  rewrite tmap_tabulate in H.
  match type of H with mean_mt _ _ _ _ ?mm = _ => set (m2 := mm) in * end.
  assert (Hok2 : ok m2) by apply ok_tabulate.
  destruct (mean_nf _ _ _ _ Hok2 H) as [dd2 [Hdd2 [_ [Hpx Hokx]]]].
  change (shape (fst m2)) with s in Hdd2, Hpx. rewrite Hdd in Hdd2. injection Hdd2 as <-.
  split; [|exact Hokx]. rewrite Hpx. unfold ws.
  (* the pair tensor of the squared deviations *)
  assert (Hp2 : pair_of m2 = tabulate s (fun k => dev (bget dp s P k) (bget dp s (pair_of means) k))).
  { unfold m2. rewrite pair_tabulate. apply tabulate_ext. intros k _. unfold P. rewrite (bget_pair O _ _ _ Hok), (bget_pair O _ _ _ Hokm). reflexivity. }
  rewrite Hp2. set (KT := pair_of means) in *.
  assert (HKd : data KT = map mean_ref (data SL)) by (rewrite Hpm; reflexivity).
  assert (HKs : shape KT = keep_shape dd s) by (rewrite Hpm; reflexivity).
  assert (Key : slices_opt dp dd (tabulate s (fun k => dev (bget dp s P k) (bget dp s KT k)))
                = tmap (fun l => map (fun x => dev x (mean_ref l)) l) SL).
  { rewrite (tmap_as_tabulate _ [] SL HSLw). rewrite HSLs.
    destruct dd as [d'|]; cbn [slices_opt red_shape keep_shape dim_ok] in *.
    - change s with (shape P). rewrite (slices_bzip_keep dp dp dp dev d' P KT Hdim HKs).
      apply tabulate_ext. intros k' Hk'. fold SL.
      assert (Hk2 : k' < length (data SL)) by (rewrite HSLw, HSLs; exact Hk').
      rewrite HKd, (nth_map_in _ _ k' [] _ Hk2). reflexivity.
    - unfold tabulate; cbn [prod fold_right seq map data]. f_equal. f_equal. unfold SL; cbn [slices_opt data nth].
      rewrite (map_as_seq _ dp (data P)). rewrite HPw. change (shape P) with s. apply map_seq_ext. intros p Hp.
      assert (Hp' : p < prod (shape P)) by (change (shape P) with s; lia).
      change s with (shape P). rewrite (bget_same dp P p Hp'). rewrite (bget_ones dp (shape P) KT p HKs Hp').
      rewrite HKd. unfold SL; cbn [slices_opt data map nth]. reflexivity. }
  rewrite Key. unfold tmap; cbn [shape data]. f_equal. rewrite map_map. apply map_ext. intros l. apply var_slice.
Qed.
End Stats.
