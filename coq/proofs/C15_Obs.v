(* C15 - observed values per axis of a list of well-formed points: all axes are alike. *)
From Coq Require Import Reals ZArith List Bool Lia Lra.
Require Import Result Num C15_Spatial C15_Real C15_Lemmas C15_Flip.
Import ListNotations.
Local Open Scope R_scope.

(* ---------- observed values of a component ---------- *)
Lemma wf_nth_error D (p : rpoint) d : wf_point D p -> (d < D)%nat -> exists x, nth_error (pcs p) d = Some (x, missing p).
Proof. intros Hwf Hd. destruct (nth_error (pcs p) d) as [[x m]|] eqn:E.
  - exists x. f_equal. f_equal. apply nth_error_In in E. exact (masks_uniform_mask D p (x, m) Hwf E).
  - apply nth_error_None in E. pose proof (proj1 Hwf) as Hl. rops. lia. Qed.
Lemma obs_axis_nil_iff D (cpts : list rpoint) d : Forall (wf_point D) cpts -> (d < D)%nat ->
  (obs_axis R_ops d cpts = [] <-> all_missing cpts = true).
Proof. intros Hwf Hd. unfold obs_axis, all_missing. induction Hwf as [|p cpts Hp Hc IH]; cbn [flat_map forallb]; [tauto|].
  destruct (wf_nth_error D p d Hp Hd) as [x Hx]. rops. rewrite Hx. destruct (missing p); cbn [app andb].
  - exact IH.
  - split; discriminate. Qed.
Lemma is_none_lmin D (cpts : list rpoint) d : Forall (wf_point D) cpts -> (d < D)%nat ->
  is_none (lmin R_ops (obs_axis R_ops d cpts)) = all_missing cpts.
Proof. intros Hwf Hd. pose proof (obs_axis_nil_iff D cpts d Hwf Hd) as H.
  destruct (lmin R_ops (obs_axis R_ops d cpts)) as [m|] eqn:E; cbn [is_none].
  - destruct (all_missing cpts); [|reflexivity]. rewrite (proj2 H eq_refl) in E. discriminate.
  - symmetry. apply H. now apply lmin_none. Qed.
Lemma is_none_lmax D (cpts : list rpoint) d : Forall (wf_point D) cpts -> (d < D)%nat ->
  is_none (lmax R_ops (obs_axis R_ops d cpts)) = all_missing cpts.
Proof. intros Hwf Hd. pose proof (obs_axis_nil_iff D cpts d Hwf Hd) as H.
  destruct (lmax R_ops (obs_axis R_ops d cpts)) as [m|] eqn:E; cbn [is_none].
  - destruct (all_missing cpts); [|reflexivity]. rewrite (proj2 H eq_refl) in E. discriminate.
  - symmetry. apply H. now apply lmax_none. Qed.

Lemma lmin_some D (cpts : list rpoint) d : Forall (wf_point D) cpts -> (d < D)%nat -> all_missing cpts = false ->
  exists m, lmin R_ops (obs_axis R_ops d cpts) = Some m.
Proof. intros Hwf Hd Hm. pose proof (is_none_lmin D cpts d Hwf Hd) as H. rewrite Hm in H.
  destruct (lmin R_ops (obs_axis R_ops d cpts)) as [m|]; [eauto | discriminate]. Qed.
Lemma lmax_some D (cpts : list rpoint) d : Forall (wf_point D) cpts -> (d < D)%nat -> all_missing cpts = false ->
  exists m, lmax R_ops (obs_axis R_ops d cpts) = Some m.
Proof. intros Hwf Hd Hm. pose proof (is_none_lmax D cpts d Hwf Hd) as H. rewrite Hm in H.
  destruct (lmax R_ops (obs_axis R_ops d cpts)) as [m|]; [eauto | discriminate]. Qed.
Lemma lmin_some_not_all_missing D (cpts : list rpoint) d m : Forall (wf_point D) cpts -> (d < D)%nat ->
  lmin R_ops (obs_axis R_ops d cpts) = Some m -> all_missing cpts = false.
Proof. intros Hwf Hd Hm. pose proof (is_none_lmin D cpts d Hwf Hd) as H. rewrite Hm in H. cbn [is_none] in H. now symmetry. Qed.
