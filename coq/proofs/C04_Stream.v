(* The repaired stream reader (C04_Legacy.run_stream4: bytes_remaining() answers with the bytes up to the end of
   the stream) simulates the plain reader on the same bytes for every program without advance() - in particular
   for the v0.1 decoder, which asks bytes_remaining() - and, before any skip, for programs that only read and
   advance (the v0.0 decoder).  Then: Pose.read on a stream and on the bytes run the body decoder from
   corresponding states. *)
From Coq Require Import ZArith NArith List Lia ZifyBool ZifyN ZifyNat Bool.
Require Import ListN Result Bytes Prog Codec ProgLemmas PoseRead PoseReadLemmas StreamLemmas StreamRead C04_Legacy.
Import ListNotations.
Open Scope N_scope.

Lemma run_stream4_bind {A B} file (p : prog A) (f : A -> prog B) : forall r,
  run_stream4 file (pbind p f) r =
  match run_stream4 file p r with Ok (a, r') => run_stream4 file (f a) r' | Err e => Err e end.
Proof.
  induction p as [a|n k IH|n k IH|n k IH|k IH|e]; intros r; cbn [pbind run_stream4]; try reflexivity.
  - destruct (expect file n r) as [r1|e]; [|reflexivity].
    destruct (off r1 - skipped r1 + n <=? lenN (buf r1)); [apply IH|reflexivity].
  - apply IH.
  - apply IH.
  - apply IH.
Qed.

(* without bytes_left()/bytes_remaining() the two stream interpreters are the same function *)
Lemma run_stream4_noBL {A} file (p : prog A) : noBL p -> forall r, run_stream4 file p r = run_stream file p r.
Proof.
  induction p as [a|n k IH|n k IH|n k IH|k IH|e]; intros Hn r; cbn [run_stream4 run_stream noBL] in *; try reflexivity.
  - destruct (expect file n r) as [r1|e]; [|reflexivity].
    destruct (off r1 - skipped r1 + n <=? lenN (buf r1)); [apply IH, Hn|reflexivity].
  - apply IH, Hn.
  - apply IH, Hn.
  - contradiction.
Qed.

(* ---------- programs without advance(): Block / Skip / BytesLeft ---------- *)
Fixpoint noAdv {A} (p : prog A) : Prop :=
  match p with
  | Block _ k => forall b, noAdv (k b)
  | Skip _ k => noAdv k
  | BytesLeft k => forall z, noAdv (k z)
  | Adv _ _ => False
  | _ => True
  end.
Lemma noAdv_bind {A B} (p : prog A) (f : A -> prog B) : noAdv p -> (forall a, noAdv (f a)) -> noAdv (pbind p f).
Proof. induction p as [a|n k IH|n k IH|n k IH|k IH|e]; cbn [pbind noAdv]; intros Hp Hf; auto; contradiction. Qed.
Lemma v2prog_noAdv {A} (p : prog A) : v2prog p -> noAdv p.
Proof. induction p as [a|n k IH|n k IH|n k IH|k IH|e]; cbn [v2prog noAdv]; intros H; auto; contradiction. Qed.

(* same bytes on both sides *)
Theorem sim4_fwd {A} q (p : prog A) : noAdv p -> forall pr sr a pr',
  Sim q [] pr sr -> run_plain p pr = Ok (a, pr') ->
  exists sr', run_stream4 q p sr = Ok (a, sr') /\ Sim q [] pr' sr'.
Proof.
  induction p as [a|n k IH|n k IH|n k IH|k IH|e]; intros Hv pr sr a' pr' HS Hrun; cbn [noAdv] in Hv; try contradiction.
  - cbn [run_plain] in Hrun. injection Hrun as <- <-. exists sr. split; [reflexivity|exact HS].
  - (* Block n k = Block n Ret >>= k : one step by the simulation theorem of the v0.2 reader *)
    change (Block n k) with (pbind (Block n (fun b => Ret b)) k) in Hrun |- *.
    rewrite run_plain_bind in Hrun. rewrite run_stream4_bind.
    destruct (run_plain (Block n (fun b => Ret b)) pr) as [[b pr1]|e] eqn:H1; [|discriminate].
    assert (Hv1 : v2prog (Block n (fun b : bytes => Ret b))) by (cbn; auto).
    pose proof (sim_fwd q [] _ Hv1 _ _ _ _ HS H1) as Hs1.
    rewrite run_stream4_noBL by (cbn; auto).
    destruct (run_stream q (Block n (fun b => Ret b)) sr) as [[b' sr1]|e]; [|now contradiction Hs1].
    destruct Hs1 as [<- [HS1 _]]. apply (IH b (Hv b) pr1 sr1 a' pr' HS1 Hrun).
  - change (Skip n k) with (pbind (Skip n (Ret tt)) (fun _ => k)) in Hrun |- *.
    rewrite run_plain_bind in Hrun. rewrite run_stream4_bind.
    destruct (run_plain (Skip n (Ret tt)) pr) as [[b pr1]|e] eqn:H1; [|discriminate].
    assert (Hv1 : v2prog (Skip n (Ret tt))) by exact I.
    pose proof (sim_fwd q [] _ Hv1 _ _ _ _ HS H1) as Hs1.
    rewrite run_stream4_noBL by exact I.
    destruct (run_stream q (Skip n (Ret tt)) sr) as [[b' sr1]|e]; [|now contradiction Hs1].
    destruct Hs1 as [_ [HS1 _]]. apply (IH Hv pr1 sr1 a' pr' HS1 Hrun).
  - (* bytes_remaining(): len(file) - read_offset on both sides *)
    cbn [run_plain run_stream4] in *. destruct HS as [Hb [Ho HI]].
    rewrite Hb, app_nil_r, Ho in Hrun.
    apply (IH _ (Hv _) pr sr a' pr'); [|exact Hrun].
    split; [exact Hb|]. split; assumption.
  - discriminate.
Qed.

(* ---------- before any skip: programs that only read and advance (v0.0) ---------- *)
Fixpoint v0prog {A} (p : prog A) : Prop :=
  match p with
  | Block _ k => forall b, v0prog (k b)
  | Adv _ k => v0prog k
  | Skip _ _ | BytesLeft _ => False
  | _ => True
  end.
Lemma v0prog_bind {A B} (p : prog A) (f : A -> prog B) : v0prog p -> (forall a, v0prog (f a)) -> v0prog (pbind p f).
Proof. induction p as [a|n k IH|n k IH|n k IH|k IH|e]; cbn [pbind v0prog]; intros Hp Hf; auto; contradiction. Qed.
Lemma v0prog_prep {A} n (p : prog A) : v0prog p -> v0prog (prep n p).
Proof. intros Hp. induction n as [|n IH]; cbn [prep]; [exact I|].
  apply v0prog_bind; [exact Hp|]. intros a. apply v0prog_bind; [exact IH|]. intros l. exact I. Qed.
Lemma v0prog_plift {A} (r : result A) : v0prog (plift r).
Proof. destruct r; exact I. Qed.
Lemma v0prog_noBL {A} (p : prog A) : v0prog p -> noBL p.
Proof. induction p as [a|n k IH|n k IH|n k IH|k IH|e]; cbn [v0prog noBL]; intros H; auto; contradiction. Qed.

(* the stream buffer is a prefix of the file and nothing has been skipped; the read offset is arbitrary
   (advance() may have moved it past the fetched bytes) *)
Definition Sim0 (q : bytes) (pr : preader) (sr : sreader) : Prop :=
  pbuf pr = q /\ poff pr = off sr /\ skipped sr = 0 /\ buf sr = takeN (lenN (buf sr)) q.

Lemma takeN_prefix_len (q : bytes) n : lenN (takeN n q) <= lenN q.
Proof. rewrite lenN_takeN. lia. Qed.

Theorem sim0_fwd {A} q (p : prog A) : v0prog p -> forall pr sr a pr',
  Sim0 q pr sr -> run_plain p pr = Ok (a, pr') ->
  exists sr', run_stream q p sr = Ok (a, sr') /\ Sim0 q pr' sr'.
Proof.
  induction p as [a|n k IH|n k IH|n k IH|k IH|e]; intros Hv pr sr a' pr' HS Hrun;
    cbn [run_plain run_stream v0prog] in *; try contradiction; try discriminate.
  - injection Hrun as <- <-. exists sr. split; [reflexivity|exact HS].
  - destruct HS as [Hb [Ho [Hsk Hpre]]].
    destruct (N.leb_spec (poff pr + n) (lenN (pbuf pr))) as [Hfit|]; [|discriminate].
    rewrite Hb, Ho in Hfit.
    assert (Hlb : lenN (buf sr) <= lenN q) by (rewrite Hpre; apply takeN_prefix_len).
    (* what expect_to_read(n) leaves *)
    assert (Hex : exists r1, expect q n sr = Ok r1 /\ off r1 = off sr /\ skipped r1 = 0 /\
                             buf r1 = takeN (lenN (buf r1)) q /\ off sr + n <= lenN (buf r1)).
    { unfold expect, bytes_left. rewrite Hsk.
      destruct (Z.ltb_spec (Z.of_N (lenN (buf sr)) - Z.of_N (off sr) + Z.of_N 0) (Z.of_N n)) as [Hlt|Hge].
      - remember (Z.to_N (Z.of_N n - (Z.of_N (lenN (buf sr)) - Z.of_N (off sr) + Z.of_N 0))) as c eqn:Hc.
        assert (Hcv : lenN (buf sr) + c = off sr + n) by lia.
        unfold read_chunk. rewrite Hsk. replace (0 + lenN (buf sr)) with (lenN (buf sr)) by lia.
        assert (E : buf sr ++ takeN c (dropN (lenN (buf sr)) q) = takeN (off sr + n) q).
        { rewrite Hpre at 1. rewrite takeN_app_takeN. now rewrite Hcv. }
        rewrite E.
        assert (Hlen : lenN (takeN (off sr + n) q) = off sr + n) by (rewrite lenN_takeN; lia).
        assert (HB : takeN (off sr + n) q = takeN (lenN (takeN (off sr + n) q)) q) by (now rewrite Hlen).
        destruct (takeN (off sr + n) q) as [|x l].
        + (* an empty result means off + n = 0 = len(buffer): impossible, the chunk size is positive *)
          exfalso. unfold lenN in Hlen at 1. cbn [length] in Hlen. lia.
        + eexists. split; [reflexivity|]. cbn [off skipped buf]. split; [reflexivity|]. split; [reflexivity|].
          split; [exact HB|lia].
      - exists sr. split; [reflexivity|]. split; [reflexivity|]. split; [exact Hsk|]. split; [exact Hpre|lia]. }
    destruct Hex as [r1 [He [Ho1 [Hs1 [Hp1 Hfit1]]]]]. rewrite He, Hs1, Ho1, N.sub_0_r.
    destruct (N.leb_spec (off sr + n) (lenN (buf r1))) as [_|Hbad]; [|lia].
    assert (Hdat : takeN n (dropN (off sr) (buf r1)) = takeN n (dropN (poff pr) (pbuf pr))).
    { rewrite Hb, Ho, Hp1. rewrite dropN_takeN. apply takeN_takeN_le. lia. }
    rewrite Hdat.
    apply (IH _ (Hv _) {| pbuf := pbuf pr; poff := poff pr + n |}
              {| buf := buf r1; off := off sr + n; skipped := 0; pulled := pulled r1 |} a' pr'); [|exact Hrun].
    unfold Sim0; cbn [pbuf poff buf off skipped]. split; [exact Hb|]. split; [lia|]. split; [reflexivity|exact Hp1].
  - destruct HS as [Hb [Ho [Hsk Hpre]]].
    apply (IH Hv {| pbuf := pbuf pr; poff := poff pr + n |}
              {| buf := buf sr; off := off sr + n; skipped := skipped sr; pulled := pulled sr |} a' pr'); [|exact Hrun].
    unfold Sim0; cbn [pbuf poff buf off skipped]. split; [exact Hb|]. split; [lia|]. split; assumption.
Qed.

(* ---------- a decoder that raises by itself (argument checks, a start beyond the last frame) ----------
   [fails_at p pr e]: the plain run of p from pr reaches a [Fail e] node, every read on the way fitting the buffer.
   Such a run is reproduced by the stream reader on the same bytes, for both classes of programs. *)
Fixpoint fails_at {A} (p : prog A) (pr : preader) (e : err) : Prop :=
  match p with
  | Ret _ => False
  | Fail e' => e' = e
  | Block n k => poff pr + n <= lenN (pbuf pr) /\
                 fails_at (k (takeN n (dropN (poff pr) (pbuf pr)))) {| pbuf := pbuf pr; poff := poff pr + n |} e
  | Skip n k => fails_at k {| pbuf := pbuf pr; poff := poff pr + n |} e
  | Adv n k => fails_at k {| pbuf := pbuf pr; poff := poff pr + n |} e
  | BytesLeft k => fails_at (k (Z.of_N (lenN (pbuf pr)) - Z.of_N (poff pr))%Z) pr e
  end.
Lemma fails_at_run {A} (p : prog A) : forall pr e, fails_at p pr e -> run_plain p pr = Err e.
Proof.
  induction p as [a|n k IH|n k IH|n k IH|k IH|e']; intros pr e H; cbn [fails_at run_plain] in *.
  - contradiction.
  - destruct H as [Hfit H]. destruct (N.leb_spec (poff pr + n) (lenN (pbuf pr))) as [_|Hbad]; [|lia]. now apply IH.
  - now apply IH.
  - now apply IH.
  - now apply IH.
  - now subst.
Qed.
Lemma fails_at_bind {A B} (p : prog A) (f : A -> prog B) : forall pr a pr' e,
  run_plain p pr = Ok (a, pr') -> fails_at (f a) pr' e -> fails_at (pbind p f) pr e.
Proof.
  induction p as [a0|n k IH|n k IH|n k IH|k IH|e']; intros pr a pr' e Hrun Hf; cbn [pbind fails_at run_plain] in *.
  - injection Hrun as <- <-. exact Hf.
  - destruct (N.leb_spec (poff pr + n) (lenN (pbuf pr))) as [Hfit|]; [|discriminate]. split; [exact Hfit|].
    eapply IH; eassumption.
  - eapply IH; eassumption.
  - eapply IH; eassumption.
  - eapply IH; eassumption.
  - discriminate.
Qed.

Theorem sim4_fail {A} q (p : prog A) : noAdv p -> forall pr sr e,
  Sim q [] pr sr -> fails_at p pr e -> run_stream4 q p sr = Err e.
Proof.
  induction p as [a|n k IH|n k IH|n k IH|k IH|e']; intros Hv pr sr e HS Hf; cbn [noAdv fails_at] in *; try contradiction.
  - destruct Hf as [Hfit Hf].
    assert (H1 : run_plain (Block n (fun b => Ret b)) pr =
                 Ok (takeN n (dropN (poff pr) (pbuf pr)), {| pbuf := pbuf pr; poff := poff pr + n |})).
    { cbn [run_plain]. destruct (N.leb_spec (poff pr + n) (lenN (pbuf pr))) as [_|Hbad]; [reflexivity|lia]. }
    assert (Hv1 : noAdv (Block n (fun b : bytes => Ret b))) by (cbn; auto).
    destruct (sim4_fwd q _ Hv1 _ _ _ _ HS H1) as [sr1 [Hr1 HS1]].
    change (Block n k) with (pbind (Block n (fun b => Ret b)) k). rewrite run_stream4_bind, Hr1.
    exact (IH _ (Hv _) _ sr1 e HS1 Hf).
  - assert (H1 : run_plain (Skip n (Ret tt)) pr = Ok (tt, {| pbuf := pbuf pr; poff := poff pr + n |})) by reflexivity.
    assert (Hv1 : noAdv (Skip n (Ret tt))) by exact I.
    destruct (sim4_fwd q _ Hv1 _ _ _ _ HS H1) as [sr1 [Hr1 HS1]].
    change (Skip n k) with (pbind (Skip n (Ret tt)) (fun _ => k)). rewrite run_stream4_bind, Hr1.
    exact (IH Hv _ sr1 e HS1 Hf).
  - cbn [run_stream4]. pose proof HS as [Hb [Ho HI]]. rewrite Hb, app_nil_r, Ho in Hf.
    exact (IH _ (Hv _) pr sr e HS Hf).
  - cbn [run_stream4]. now subst.
Qed.

Theorem sim0_fail {A} q (p : prog A) : v0prog p -> forall pr sr e,
  Sim0 q pr sr -> fails_at p pr e -> run_stream q p sr = Err e.
Proof.
  induction p as [a|n k IH|n k IH|n k IH|k IH|e']; intros Hv pr sr e HS Hf; cbn [v0prog fails_at] in *; try contradiction.
  - destruct Hf as [Hfit Hf].
    assert (H1 : run_plain (Block n (fun b => Ret b)) pr =
                 Ok (takeN n (dropN (poff pr) (pbuf pr)), {| pbuf := pbuf pr; poff := poff pr + n |})).
    { cbn [run_plain]. destruct (N.leb_spec (poff pr + n) (lenN (pbuf pr))) as [_|Hbad]; [reflexivity|lia]. }
    assert (Hv1 : v0prog (Block n (fun b : bytes => Ret b))) by (cbn; auto).
    destruct (sim0_fwd q _ Hv1 _ _ _ _ HS H1) as [sr1 [Hr1 HS1]].
    change (Block n k) with (pbind (Block n (fun b => Ret b)) k). rewrite run_stream_bind, Hr1.
    exact (IH _ (Hv _) _ sr1 e HS1 Hf).
  - assert (H1 : run_plain (Adv n (Ret tt)) pr = Ok (tt, {| pbuf := pbuf pr; poff := poff pr + n |})) by reflexivity.
    assert (Hv1 : v0prog (Adv n (Ret tt))) by exact I.
    destruct (sim0_fwd q _ Hv1 _ _ _ _ HS H1) as [sr1 [Hr1 HS1]].
    change (Adv n k) with (pbind (Adv n (Ret tt)) (fun _ => k)). rewrite run_stream_bind, Hr1.
    exact (IH Hv _ sr1 e HS1 Hf).
  - cbn [run_stream]. now subst.
Qed.
