(* C17 - concrete, non-trivial values satisfying the hypotheses of the theorems in props/C17.v. *)
From Coq Require Import Reals List Lra Bool Arith.
Require Import Num C17_Repr C17_Spec C17_XReal C17_Layout C17_Vec C17_Real C17_Total C17_LayoutProofs.
Import ListNotations.
Local Open Scope R_scope.

(* the triangle of the pinned unit tests: p1 = (2,3,4), p2 = (1,1,1), p3 = (3,4,2) *)
Definition ex_p1 : vec := [2; 3; 4].
Definition ex_p2 : vec := [1; 1; 1].
Definition ex_p3 : vec := [3; 4; 2].
Lemma ex_dot12 : dot (vsub ex_p1 ex_p2) (vsub ex_p1 ex_p2) = 14.
Proof. unfold ex_p1, ex_p2, vsub, dot, map2. cbn [combine map fold_right fst snd]. ring. Qed.
Lemma ex_dot32 : dot (vsub ex_p3 ex_p2) (vsub ex_p3 ex_p2) = 14.
Proof. unfold ex_p3, ex_p2, vsub, dot, map2. cbn [combine map fold_right fst snd]. ring. Qed.
Lemma ex_nondegenerate :
  length ex_p1 = length ex_p2 /\ length ex_p2 = length ex_p3 /\ length ex_p3 = length ex_p2 /\
  ex_p1 <> [] /\ ex_p2 <> [] /\ (1 : R) <> 2 /\
  norm (vsub ex_p1 ex_p2) <> 0 /\ norm (vsub ex_p3 ex_p2) <> 0 /\ ex_p2 <> ex_p3 /\ euclid ex_p2 ex_p3 <> 0 /\
  euclid ex_p1 ex_p2 = R_sqrt.sqrt 14.
Proof.
  assert (H14 : R_sqrt.sqrt 14 <> 0) by (apply Rgt_not_eq, sqrt_lt_R0; lra).
  assert (Hne : ex_p2 <> ex_p3) by (unfold ex_p2, ex_p3; intros [= H _ _]; lra).
  repeat split; try reflexivity; try discriminate; try lra.
  - unfold norm. rewrite ex_dot12. exact H14.
  - unfold norm. rewrite ex_dot32. exact H14.
  - exact Hne.
  - intros E. apply Hne. apply euclid_zero_iff; [reflexivity|exact E].
  - unfold euclid, norm. rewrite ex_dot12. reflexivity.
Qed.

(* a missing first point carrying NaN and +inf under the mask; a vertical limb outside the mask *)
Definition ex_m1 : list (mv X_ops) := [(NaN, false); (PInf, false)].
Definition ex_m2 : list (mv X_ops) := [(Fin 1, true); (Fin 3, true)].
Definition ex_m3 : list (mv X_ops) := [(Fin 1, true); (Fin 5, true)].
Lemma ex_masked :
  length ex_m1 = length ex_m2 /\ length ex_m2 = length ex_m3 /\ length ex_m3 = length ex_m2 /\
  valid_fin ex_m1 /\ valid_fin ex_m2 /\ valid_fin ex_m3 /\
  all_valid ex_m1 && all_valid ex_m2 = false /\ all_valid ex_m1 && all_valid ex_m2 && all_valid ex_m3 = false /\
  forallb (fun c : mv X_ops => negb (snd c)) ex_m1 = true /\ (3 : R) <> 5.
Proof.
  repeat split; try reflexivity; try lra;
    repeat constructor; cbn [fst snd]; intros; try discriminate; apply is_fin_Fin.
Qed.

Local Close Scope R_scope.
(* two components (3 and 2 points, formats of 2 letters), limbs 0-1, 1-2 | 0-1: chains (0,1,2) only *)
Definition ex_header : header := [mkComp 3 2 [(0, 1); (1, 2)]; mkComp 2 2 [(0, 1)]].
Definition ex_header_two_chains : header := [mkComp 2 2 [(0, 1)]; mkComp 3 2 [(0, 1); (1, 2); (1, 0)]].
Lemma ex_header_ok :
  wf_header ex_header /\ header_dims ex_header = Some 2 /\
  (exists r, mk_repr ex_header 1 2 2 = Some r /\ output_size r = 18) /\
  limb_points ex_header = [(0, 1); (1, 2); (3, 4)] /\ chains (limb_points ex_header) = [(0, 1, 2)] /\
  limb_points ex_header_two_chains = [(0, 1); (2, 3); (3, 4); (3, 2)] /\
  chains (limb_points ex_header_two_chains) = [(2, 3, 4); (2, 3, 2); (3, 2, 3)].
Proof.
  repeat split; try reflexivity.
  - repeat constructor.
  - eexists. split; reflexivity.
Qed.
