(* C12 - progress: on a NumPy body satisfying the invariant, an operation whose (full) preconditions hold does not fail. *)
From Coq Require Import List Arith Bool ZArith Lia.
Require Import Result Tensor C12_Model C12_Tab C12_Inv C12_Reach.
Import ListNotations.

Lemma np_fin_total m c F P T D : dims4 m c = Ok (F, P, T, D) -> D <> 0 -> exists m', np_fin (m, c) = Ok (m', c).
Proof.
  intros Hd HD. unfold np_fin, np_ctor; cbn [fst snd]. rewrite Hd. cbn [rbind].
  destruct (D =? 0) eqn:E; [apply Nat.eqb_eq in E; contradiction|]. cbn [rbind]. eexists. reflexivity.
Qed.
Lemma dims4_tabs F P T D g h : dims4 (tab4 F P T D g) (tab3 F P T h) = Ok (F, P, T, D).
Proof. unfold dims4. cbn [shape tab4 tab3 tab]. now rewrite !Nat.eqb_refl. Qed.
Lemma regather_dims F' P T' D gf gt m c :
  dims4 (fst (regather F' P T' D gf gt m c)) (snd (regather F' P T' D gf gt m c)) = Ok (F', P, T', D).
Proof. apply dims4_tabs. Qed.
Lemma regather_fin F' P T' D gf gt m c : D <> 0 -> exists mc, np_fin (regather F' P T' D gf gt m c) = Ok mc.
Proof.
  intros HD. pose proof (regather_dims F' P T' D gf gt m c) as Hd. destruct (regather F' P T' D gf gt m c) as [m1 c1]. cbn [fst snd] in Hd.
  destruct (np_fin_total _ _ _ _ _ _ Hd HD) as [m' H]. eexists. exact H.
Qed.

(* counting lemmas for interpolate's compress/reshape step *)
Lemma count_lt_const n b : count_lt n (fun _ => b) = if b then n else 0.
Proof.
  unfold count_lt. destruct b.
  - replace (filter (fun _ : nat => true) (seq 0 n)) with (seq 0 n); [apply seq_length|].
    induction (seq 0 n) as [|x l IH]; cbn [filter]; [reflexivity|now rewrite <- IH].
  - induction (seq 0 n) as [|x l IH]; cbn [filter]; [reflexivity|exact IH].
Qed.
Lemma count_lt_ext n g h : (forall i, i < n -> g i = h i) -> count_lt n g = count_lt n h.
Proof.
  intros H. unfold count_lt. f_equal. apply filter_ext_in. intros i Hi. apply in_seq in Hi. apply H. destruct Hi as [_ Hi]. exact Hi.
Qed.
Lemma sum_indicator (g : nat -> bool) D l : list_sum (map (fun f => if g f then D else 0) l) = length (filter g l) * D.
Proof.
  induction l as [|x l IH]; [reflexivity|]. cbn [map filter].
  change (list_sum ((if g x then D else 0) :: map (fun f => if g f then D else 0) l))
    with ((if g x then D else 0) + list_sum (map (fun f => if g f then D else 0) l)).
  rewrite IH. destruct (g x); cbn [length]; lia.
Qed.
Lemma compress_ok_cons m c F P T D : Cons m c F P T D -> compress_ok F P T D m c = true.
Proof.
  intros [_ [_ [_ [_ Hcell]]]]. unfold compress_ok.
  apply all_lt_spec; intros p Hp. apply all_lt_spec; intros t Ht. apply orb_true_iff. right. apply Nat.eqb_eq.
  rewrite (map_ext_in _ (fun f => if negb (get3 c f p t) then D else 0)).
  - apply sum_indicator.
  - intros f Hf. apply in_seq in Hf.
    rewrite (count_lt_ext D _ (fun _ => negb (get3 c f p t))) by (intros d Hd; rewrite Hcell by (assumption || lia); reflexivity).
    apply count_lt_const.
Qed.

Theorem progress_np st o : Inv st -> s_be st = Np -> expects_ok_np st o = true -> exists st', step st o = Ok st'.
Proof.
  intros [F [P [T [D [Hne [Hfmt [HT HC]]]]]]] Hbe Hex.
  pose proof (cons_dims4 _ _ _ _ _ _ HC) as Hd.
  unfold expects_ok_np in Hex. rewrite Hd in Hex. apply andb_prop in Hex. destruct Hex as [HD Hex].
  apply negb_true_iff in HD. apply Nat.eqb_neq in HD.
  unfold step. rewrite Hd, Hbe. cbn [rbind only_np].
  assert (Hsame : exists mc, np_fin (s_mask st, s_cz st) = Ok mc) by (destruct (np_fin_total _ _ _ _ _ _ Hd HD) as [m' H]; eexists; exact H).
  destruct o as [cs pts|cs pts| |newF cz'|by_|ix|sel|sel|axis|ok|i1 i2|pp zs| | |lay| ]; try discriminate.
  - (* bbox *)
    unfold bbox_np. destruct (comp_ranges (s_hdr st) 0) as [|r0 rs'] eqn:Ers.
    { destruct (s_hdr st); [congruence|discriminate]. }
    rewrite <- Ers.
    rewrite HT, Nat.ltb_irrefl. destruct (D =? 0) eqn:E0; [apply Nat.eqb_eq in E0; contradiction|].
    match goal with |- context [np_fin (?a, ?b)] => destruct (np_fin_total a b F P (bbox_rows * length (comp_ranges (s_hdr st) 0)) D (dims4_tabs _ _ _ _ _ _) HD) as [m' Hm'] end.
    rewrite Hm'. cbn [rbind]. eexists. reflexivity.
  - (* interpolate *)
    apply andb_prop in Hex. destruct Hex as [Hex HL]. apply andb_prop in Hex. destruct Hex as [Hex HT0].
    apply andb_prop in Hex. destruct Hex as [Hex HP0]. apply andb_prop in Hex. destruct Hex as [HF1 HN].
    unfold pass_through, interpolate_np. cbn [mem meth_name pass_through_methods header_attrs existsb name_eqb N.eqb Pos.eqb andb orb negb].
    apply negb_true_iff in HF1, HP0, HT0. rewrite HF1, HP0, HT0. cbn [orb].
    destruct (newF <? 0)%Z eqn:EN; [apply Z.ltb_lt in EN; apply Z.leb_le in HN; lia|].
    rewrite (compress_ok_cons _ _ _ _ _ _ HC), HL. cbn [negb].
    match goal with |- context [np_fin (?a, ?b)] => assert (Hdd : dims4 a b = Ok (Z.to_nat newF, P, T, D)) by (unfold dims4; cbn [shape tab4 tab]; now rewrite !Nat.eqb_refl);
      destruct (np_fin_total a b _ _ _ _ Hdd HD) as [m' Hm'] end.
    rewrite Hm'. cbn [rbind]. eexists. reflexivity.
  - (* slice_step *)
    unfold pass_through, slice_step. cbn [mem meth_name pass_through_methods header_attrs existsb name_eqb N.eqb Pos.eqb andb orb negb].
    apply negb_true_iff in Hex. rewrite Hex.
    destruct (0 <? by_)%Z; match goal with |- context [np_fin (regather ?a ?b ?c0 ?d ?e ?f ?g ?h)] => destruct (regather_fin a b c0 d e f g h HD) as [mc Hmc]; rewrite Hmc end;
      cbn [rbind]; eexists; reflexivity.
  - (* select_frames *)
    unfold select_frames.
    assert (Hix : exists ixn, rmapM (norm_index true F) ix = Ok ixn).
    { clear -Hex. induction ix as [|i r IH]; [eexists; reflexivity|]. cbn [forallb] in Hex. apply andb_prop in Hex. destruct Hex as [Hi Hr].
      destruct (IH Hr) as [ixn Hn]. cbn [rmapM]. unfold norm_index at 1.
      apply andb_prop in Hi. destruct Hi as [A B]. rewrite B.
      destruct (0 <=? i)%Z eqn:E0; cbn [andb rbind].
      - rewrite Hn. cbn [rbind]. eexists. reflexivity.
      - rewrite A. assert (Hneg : (i <? 0)%Z = true) by (apply Z.ltb_lt; apply Z.leb_gt in E0; lia). rewrite Hneg. cbn [andb rbind].
        rewrite Hn. cbn [rbind]. eexists. reflexivity. }
    destruct Hix as [ixn Hn]. rewrite Hn. cbn [rbind]. unfold gather_frames.
    match goal with |- context [np_fin (regather ?a ?b ?c0 ?d ?e ?f ?g ?h)] => destruct (regather_fin a b c0 d e f g h HD) as [mc Hmc]; rewrite Hmc end.
    cbn [rbind]. eexists. reflexivity.
  - (* dropout uniform *)
    unfold dropout, gather_frames. rewrite Hex. cbn [negb].
    match goal with |- context [np_fin (regather ?a ?b ?c0 ?d ?e ?f ?g ?h)] => destruct (regather_fin a b c0 d e f g h HD) as [mc Hmc]; rewrite Hmc end.
    cbn [rbind]. eexists. reflexivity.
  - (* dropout normal *)
    unfold dropout, gather_frames. rewrite Hex. cbn [negb].
    match goal with |- context [np_fin (regather ?a ?b ?c0 ?d ?e ?f ?g ?h)] => destruct (regather_fin a b c0 d e f g h HD) as [mc Hmc]; rewrite Hmc end.
    cbn [rbind]. eexists. reflexivity.
  - (* flip *)
    unfold pass_through, flip_np. cbn [mem meth_name pass_through_methods header_attrs existsb name_eqb N.eqb Pos.eqb andb orb negb].
    rewrite Hex. destruct Hsame as [mc Hmc]. rewrite Hmc. cbn [rbind]. eexists. reflexivity.
  - (* augment2d *)
    unfold pass_through, augment2d. cbn [mem meth_name pass_through_methods header_attrs existsb name_eqb N.eqb Pos.eqb andb orb negb].
    apply Nat.leb_le in Hex. destruct (D <? 2) eqn:E2; [apply Nat.ltb_lt in E2; lia|].
    match goal with |- context [np_fin (?a, ?b)] => assert (Hdd : dims4 a b = Ok (F, P, T, D)) by
        (destruct HC as [_ [Hc _]]; unfold dims4; cbn [shape tab4 tab]; rewrite Hc; now rewrite !Nat.eqb_refl);
      destruct (np_fin_total a b _ _ _ _ Hdd HD) as [m' Hm'] end.
    rewrite Hm'. cbn [rbind]. eexists. reflexivity.
  - (* normalize *)
    unfold normalize. rewrite Hex. cbn [negb rbind]. eexists. reflexivity.
  - (* normalize_distribution *)
    unfold normalize_distribution. rewrite Hex. cbn [negb rbind]. eexists. reflexivity.
  - (* focus *)
    apply andb_prop in Hex. destruct Hex as [Hex Hobs]. apply andb_prop in Hex. destruct Hex as [H0 H2].
    unfold focus_np. apply negb_true_iff in H0. rewrite H0. apply Nat.leb_le in H2. destruct (D <? 2) eqn:E2; [apply Nat.ltb_lt in E2; lia|].
    apply ex_lt_spec in Hobs. destruct Hobs as [f [Hf Hobs]]. apply ex_lt_spec in Hobs. destruct Hobs as [p [Hp Hobs]].
    apply ex_lt_spec in Hobs. destruct Hobs as [t [Ht Hobs]]. apply negb_true_iff in Hobs.
    rewrite ex_lt_none.
    + cbn [rbind]. eexists. reflexivity.
    + intros d Hd0. apply (all_lt_false F _ f Hf). apply (all_lt_false P _ p Hp). apply (all_lt_false T _ t Ht).
      destruct HC as [_ [_ [_ [_ Hcell]]]]. rewrite Hcell by (assumption || lia). exact Hobs.
  - (* copy *)
    destruct Hsame as [mc Hmc]. rewrite Hmc. cbn [rbind]. eexists. reflexivity.
  - (* torch *)
    unfold pass_through. cbn [mem meth_name pass_through_methods header_attrs existsb name_eqb N.eqb Pos.eqb andb orb negb].
    destruct (D =? 0) eqn:E0; [apply Nat.eqb_eq in E0; contradiction|]. rewrite Hex. cbn [rbind]. eexists. reflexivity.
  - (* tensorflow *)
    unfold pass_through. cbn [mem meth_name pass_through_methods header_attrs existsb name_eqb N.eqb Pos.eqb andb orb negb].
    destruct (D =? 0) eqn:E0; [apply Nat.eqb_eq in E0; contradiction|]. cbn [rbind]. eexists. reflexivity.
Qed.
