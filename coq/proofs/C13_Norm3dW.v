(* C13 - the 3-D normaliser over the reals, part 4: whole bodies (every frame and person), and the two
   refutations with concrete witnesses: rotation invariance (DESIGN section 7, F12) and the orientation in
   which the coded basis vanishes (plane normal along the x axis). *)
From Coq Require Import Reals List Lra Lia Arith Bool.
Require Import Num C13_Normalize C13_Norm3d C13_RBase C13_Norm3dP C13_Norm3dAlg C13_Norm3dT.
Import ListNotations.
Open Scope R_scope.

Notation rnormalize3d := (normalize3d R_ops).
Notation rnormalize_row := (normalize_row R_ops).

(* the hypotheses on one (frame, person): the five reference points are observed, the plane normal is not
   along the x axis (which includes: plane points not collinear), the line is not perpendicular to the
   plane (which includes: line points distinct) *)
Definition row_ok (pl1 pl2 pl3 l1 l2 : nat) (r : list rp3) : Prop :=
  refs_observed pl1 pl2 pl3 l1 l2 r /\
  normal_not_x (c3 (rget3 r pl1)) (c3 (rget3 r pl2)) (c3 (rget3 r pl3)) /\
  line_not_perp (c3 (rget3 r pl1)) (c3 (rget3 r pl2)) (c3 (rget3 r pl3)) (c3 (rget3 r l1)) (c3 (rget3 r l2)).
(* the property's own non-degeneracy: observed, plane points not collinear, line not perpendicular / distinct *)
Definition row_nondegenerate (pl1 pl2 pl3 l1 l2 : nat) (r : list rp3) : Prop :=
  refs_observed pl1 pl2 pl3 l1 l2 r /\
  noncollinear (c3 (rget3 r pl1)) (c3 (rget3 r pl2)) (c3 (rget3 r pl3)) /\
  line_not_perp (c3 (rget3 r pl1)) (c3 (rget3 r pl2)) (c3 (rget3 r pl3)) (c3 (rget3 r l1)) (c3 (rget3 r l2)).
Lemma row_ok_nondegenerate pl1 pl2 pl3 l1 l2 r : row_ok pl1 pl2 pl3 l1 l2 r -> row_nondegenerate pl1 pl2 pl3 l1 l2 r.
Proof. intros (H1 & H2 & H3). split; [exact H1|]. split; [apply normal_not_x_noncollinear; exact H2|exact H3]. Qed.

Section Body.
Variable zrot : R -> R -> R * R.
Hypothesis Hz : zrot_spec zrot.
Variables (pl1 pl2 pl3 l1 l2 : nat) (size : R).

(* independently for every frame and person: row k of the result is a function of row k of the input alone *)
Theorem norm3d_rowwise (b : list (list rp3)) k :
  nth k (rnormalize3d zrot pl1 pl2 pl3 l1 l2 size b) [] = rnormalize_row zrot pl1 pl2 pl3 l1 l2 size (nth k b []).
Proof. unfold normalize3d. exact (map_nth (rnormalize_row zrot pl1 pl2 pl3 l1 l2 size) b [] k). Qed.

Theorem norm3d_post_partial (b : list (list rp3)) k : 0 < size ->
  let r := nth k b [] in
  let o := nth k (rnormalize3d zrot pl1 pl2 pl3 l1 l2 size b) [] in
  row_ok pl1 pl2 pl3 l1 l2 r ->
  map m3 o = map m3 r /\
  c3 (rget3 o l1) = v0 /\
  vx (c3 (rget3 o l2)) = 0 /\ vy (c3 (rget3 o l2)) < 0 /\ rnorm (c3 (rget3 o l2)) = size /\
  (coplanar (c3 (rget3 r pl1)) (c3 (rget3 r pl2)) (c3 (rget3 r pl3)) (c3 (rget3 r l1)) ->
   vz (c3 (rget3 o pl1)) = 0 /\ vz (c3 (rget3 o pl2)) = 0 /\ vz (c3 (rget3 o pl3)) = 0).
Proof. intros Hs r o (Ho & Hnx & Hl). unfold o. rewrite norm3d_rowwise. fold r. split.
  - apply (row_mask_unchanged zrot Hz); assumption.
  - apply (row_post zrot Hz); assumption. Qed.

Theorem norm3d_translation_scale_invariant a t (b : list (list rp3)) : 0 < a ->
  (forall r, In r b -> row_ok pl1 pl2 pl3 l1 l2 r) ->
  rnormalize3d zrot pl1 pl2 pl3 l1 l2 size (map (sim3 a t) b) = rnormalize3d zrot pl1 pl2 pl3 l1 l2 size b.
Proof. intros Ha H. unfold normalize3d. rewrite map_map. apply map_ext_in. intros r Hr.
  destruct (H r Hr) as (Ho & Hnx & Hl). apply (row_translation_scale_invariant zrot Hz); assumption. Qed.
End Body.

(* ---------- rotations ---------- *)
Definition mulv (M : rv * rv * rv) (v : rv) : rv := rV3 (rdot (fst (fst M)) v) (rdot (snd (fst M)) v) (rdot (snd M) v).
Definition is_rotation (M : rv * rv * rv) : Prop :=
  let '(r1, r2, r3) := M in
  rdot r1 r1 = 1 /\ rdot r2 r2 = 1 /\ rdot r3 r3 = 1 /\ rdot r1 r2 = 0 /\ rdot r1 r3 = 0 /\ rdot r2 r3 = 0 /\
  rdot r1 (rcross r2 r3) = 1.
Definition rot3 (M : rv * rv * rv) (r : list rp3) : list rp3 := map (fun p => rmk (m3 p) (mulv M (c3 p))) r.

(* witness: a flat "hand" in the x-y plane with one point off the plane, and its copy rotated about the y axis
   by the angle with cosine 3/5 *)
Definition W : list rp3 := [rmk false (rV3 0 0 0); rmk false (rV3 1 0 0); rmk false (rV3 0 1 0); rmk false (rV3 0 0 1)].
Definition MW : rv * rv * rv := (rV3 (3/5) 0 (4/5), rV3 0 1 0, rV3 (-4/5) 0 (3/5)).
Definition W' : list rp3 := [rmk false (rV3 0 0 0); rmk false (rV3 (3/5) 0 (-4/5)); rmk false (rV3 0 1 0); rmk false (rV3 (4/5) 0 (3/5))].
Lemma MW_rotation : is_rotation MW.
Proof. unfold is_rotation, MW. vsimp. repeat split; field. Qed.
Lemma W'_eq : rot3 MW W = W'.
Proof. unfold rot3, W, W', MW, mulv. cbn [map m3 c3 fst snd]. vsimp. repeat (f_equal; try field). Qed.

Ltac eval_get := unfold get3, W, W'; cbn [nth m3 c3].
Lemma sqrt_one_of x : x = 1 -> rsqrt x = 1.
Proof. intros ->. apply sqrt_1. Qed.
Lemma normal_W : normal3 (rV3 0 0 0) (rV3 1 0 0) (rV3 0 1 0) = rV3 0 0 1.
Proof. unfold normal3. cbv zeta. replace (rcross (rvsub (rV3 1 0 0) (rV3 0 0 0)) (rvsub (rV3 0 1 0) (rV3 0 0 0))) with (rV3 0 0 1) by (vsimp; f_equal; ring).
  unfold norm, vdiv. cbn [vx vy vz]. rsimp. rewrite (sqrt_one_of (rdot (rV3 0 0 1) (rV3 0 0 1))) by (vsimp; ring). f_equal; field. Qed.
Lemma normal_W' : normal3 (rV3 0 0 0) (rV3 (3/5) 0 (-4/5)) (rV3 0 1 0) = rV3 (4/5) 0 (3/5).
Proof. unfold normal3. cbv zeta.
  replace (rcross (rvsub (rV3 (3/5) 0 (-4/5)) (rV3 0 0 0)) (rvsub (rV3 0 1 0) (rV3 0 0 0))) with (rV3 (4/5) 0 (3/5)) by (vsimp; f_equal; field).
  unfold norm, vdiv. cbn [vx vy vz]. rsimp. rewrite (sqrt_one_of (rdot (rV3 (4/5) 0 (3/5)) (rV3 (4/5) 0 (3/5)))) by (vsimp; field). f_equal; field. Qed.
Lemma W_ok : row_ok 0 1 2 0 2 W.
Proof. unfold row_ok, refs_observed. eval_get. split; [repeat split; reflexivity|]. split.
  - unfold normal_not_x, plane_normal. vsimp. req. lra.
  - unfold line_not_perp, plane_normal, sqn. vsimp. req. lra. Qed.
Lemma W'_ok : row_ok 0 1 2 0 2 W'.
Proof. unfold row_ok, refs_observed. eval_get. split; [repeat split; reflexivity|]. split.
  - unfold normal_not_x, plane_normal. vsimp. req. lra.
  - unfold line_not_perp, plane_normal, sqn. vsimp. req. lra. Qed.

Section Refute.
Variable zrot : R -> R -> R * R.
Hypothesis Hz : zrot_spec zrot.
Lemma z_W : vz (c3 (rget3 (rnormalize_row zrot 0 1 2 0 2 1 W) 3)) = 1.
Proof. destruct W_ok as (Ho & Hnx & Hl).
  destruct (row_z zrot Hz 0%nat 1%nat 2%nat 0%nat 2%nat 1 W Ho Hnx Hl 3%nat eq_refl) as (cur & Hp & Hc & Hzv).
  rewrite Hzv. clear Hzv. revert Hc. eval_get. rewrite normal_W. unfold sqn. vsimp. req. intros Hc.
  assert (Hc' : cur * cur = 1) by (rewrite Hc; ring).
  assert (E : cur = 1).
  { assert (H : (cur - 1) * (cur + 1) = 0) by (replace ((cur - 1) * (cur + 1)) with (cur * cur - 1) by ring; rewrite Hc'; ring).
    apply Rmult_integral in H. destruct H; lra. }
  rewrite E. field. Qed.
Lemma z_W' : vz (c3 (rget3 (rnormalize_row zrot 0 1 2 0 2 1 W') 3)) = 5 / 3.
Proof. destruct W'_ok as (Ho & Hnx & Hl).
  destruct (row_z zrot Hz 0%nat 1%nat 2%nat 0%nat 2%nat 1 W' Ho Hnx Hl 3%nat eq_refl) as (cur & Hp & Hc & Hzv).
  rewrite Hzv. clear Hzv. revert Hc. eval_get. rewrite normal_W'. unfold sqn. vsimp. req. intros Hc.
  assert (Hc' : cur * cur = 9 / 25) by (rewrite Hc; field).
  assert (E : cur = 3 / 5).
  { assert (H : (cur - 3 / 5) * (cur + 3 / 5) = 0) by (replace ((cur - 3 / 5) * (cur + 3 / 5)) with (cur * cur - 9 / 25) by field; rewrite Hc'; field).
    apply Rmult_integral in H. destruct H; lra. }
  rewrite E. field. Qed.

Theorem norm3d_rotation_invariant_refuted :
  exists (M : rv * rv * rv) (r : list rp3),
    is_rotation M /\ row_ok 0 1 2 0 2 r /\ row_ok 0 1 2 0 2 (rot3 M r) /\
    rnormalize_row zrot 0 1 2 0 2 1 (rot3 M r) <> rnormalize_row zrot 0 1 2 0 2 1 r.
Proof. exists MW, W. split; [exact MW_rotation|]. split; [exact W_ok|]. rewrite W'_eq. split; [exact W'_ok|].
  intros E. pose proof z_W as H1. pose proof z_W' as H2. rewrite E in H2. lra. Qed.
End Refute.

(* witness for the orientation outside norm3d_post_partial: the plane is the y-z plane (normal along x);
   non-degenerate in the property's sense, yet every point of the row comes back missing and zero *)
Definition X : list rp3 := [rmk false (rV3 0 0 0); rmk false (rV3 0 1 0); rmk false (rV3 0 0 1); rmk false (rV3 1 2 3)].
Lemma normal_X : normal3 (rV3 0 0 0) (rV3 0 1 0) (rV3 0 0 1) = rV3 1 0 0.
Proof. unfold normal3. cbv zeta. replace (rcross (rvsub (rV3 0 1 0) (rV3 0 0 0)) (rvsub (rV3 0 0 1) (rV3 0 0 0))) with (rV3 1 0 0) by (vsimp; f_equal; ring).
  unfold norm, vdiv. cbn [vx vy vz]. rsimp. rewrite (sqrt_one_of (rdot (rV3 1 0 0) (rV3 1 0 0))) by (vsimp; ring). f_equal; field. Qed.
Lemma X_nondegenerate : row_nondegenerate 0 1 2 0 1 X.
Proof. unfold row_nondegenerate, refs_observed, get3, X. cbn [nth m3 c3]. split; [repeat split; reflexivity|]. split.
  - unfold noncollinear, plane_normal, sqn. vsimp. req. lra.
  - unfold line_not_perp, plane_normal, sqn. vsimp. req. lra. Qed.
Theorem norm3d_post_normal_along_x_refuted : forall (zrot : R -> R -> R * R) (size : R),
  exists r, row_nondegenerate 0 1 2 0 1 r /\ length r = 4%nat /\
    rnormalize_row zrot 0 1 2 0 1 size r = map (fun _ => rmk true v0) r.
Proof. intros zrot size. exists X. split; [exact X_nondegenerate|]. split; [reflexivity|].
  apply normalize_row_zero.
  - unfold refs_observed, get3, X. cbn [nth m3 c3]. repeat split; reflexivity.
  - unfold get3, X. cbn [nth m3 c3]. unfold line_image. cbv zeta. rewrite normal_X.
    set (cs := zrot _ _). clearbody cs. destruct cs as [c s].
    match goal with |- rsqrt ?e = 0 => replace e with 0; [apply sqrt_0|] end.
    unfold rotp, frame. cbn [fst snd]. vsimp. ring. Qed.
