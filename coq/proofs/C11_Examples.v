(* C11 - non-vacuity: concrete poses that satisfy the hypotheses of the theorems, with the calls evaluated. *)
From Coq Require Import List Arith Bool NArith ZArith Lia.
Require Import Result Tensor C11_Str C11_Select C11_Helpers C11_Heap C11_Tables C11_ListLemmas C11_SelectProofs C11_RemoveProofs
  C11_HelperProofs C11_Main.
Import ListNotations.
Open Scope str_scope.
Open Scope list_scope.

Definition ids (n : nat) : list Z := map Z.of_nat (seq 1 n).
Definition mk_body (F P N D : nat) (conf : list Z) : body :=
  mkB Numpy 30 (mkT [F; P; N; D] (ids (F * P * N * D))) (mkT [F; P; N] conf)
      (mkT [F; P; N; D] (map (fun k => Nat.eqb (k mod 3) 0) (seq 0 (F * P * N * D)))).

(* ---- a generic two-component pose: 1 frame, 2 people, 5 points, 2 dimensions; names unique *)
Definition ex_A := mkC "A" ["a0"; "a1"; "a2"] [(0, 1); (1, 2); (2, 0)] [[255; 0; 0]%Z] "XYC".
Definition ex_B := mkC "B" ["b0"; "b1"] [(0, 1)] [] "XYC".
Definition ex_body := mk_body 1 2 5 2 [0; 11; 12; 13; 14; 15; 0; 17; 18; 19]%Z.
Definition ex_v := mkV 2 [640; 480; 0]%Z true [ex_A; ex_B] ex_body.
Definition ex_h : heap := [OComp ex_A; OComp ex_B; OBody ex_body].
Definition ex_p := mkP 2 [640; 480; 0]%Z true [0; 1] 2.
Definition ex_sel := ["B"; "A"].
Definition ex_pts : points_dict := Some [("A", ["a2"; "a0"])].

Lemma ex_source : deref ex_h ex_p = Ok ex_v /\ source_ok ex_v 1 2 2 /\ header_wf (v_comps ex_v) = true /\
  request_ok (v_comps ex_v) ex_sel ex_pts.
Proof. split; [reflexivity|]. split; [split; [reflexivity|repeat split]|]. split; [reflexivity|]. split.
  - intros s [<-|[<-|[]]]; cbn; auto.
  - intros c np [<-|[<-|[]]] _ Hl p Hp; cbn in Hl; try discriminate. injection Hl as <-. destruct Hp as [<-|[<-|[]]]; cbn; auto. Qed.
(* a reordered selection with a permuted sub-list of points: defined, 4 points, limbs re-named *)
Lemma ex_select : exists h' p' v', get_components_h false ex_h ex_p ex_sel ex_pts = Ok (h', p') /\ deref h' p' = Ok v' /\
  flat_names (v_comps v') = [("B", "b0"); ("B", "b1"); ("A", "a2"); ("A", "a0")] /\
  map limb_names (v_comps v') = [[("b0", "b1")]; [("a2", "a0")]] /\
  data (b_data (v_body v')) = [7; 8; 9; 10; 5; 6; 1; 2; 17; 18; 19; 20; 15; 16; 11; 12]%Z /\ deref h' ex_p = Ok ex_v.
Proof. eexists _, _, _. split; [vm_compute; reflexivity|]. split; [vm_compute; reflexivity|]. repeat split; vm_compute; reflexivity. Qed.
(* removal with absent names *)
Lemma ex_remove : exists h' p' v', remove_components_h false ex_h ex_p ["B"; "nope"] (Some [("A", ["a1"; "zz"]); ("nope", ["x"])]) = Ok (h', p') /\
  deref h' p' = Ok v' /\ flat_names (v_comps v') = [("A", "a0"); ("A", "a2")] /\ map limb_names (v_comps v') = [[("a2", "a0")]].
Proof. eexists _, _, _. split; [vm_compute; reflexivity|]. split; [vm_compute; reflexivity|]. split; vm_compute; reflexivity. Qed.
Lemma ex_point_index : point_index (v_comps ex_v) "B" "b1" = Ok 4 /\ nth_error (flat_names (v_comps ex_v)) 4 = Some ("B", "b1").
Proof. split; reflexivity. Qed.
(* duplicate names make "the point with that name" ambiguous: the hypothesis is needed *)
Lemma ex_duplicate_names_ambiguous :
  let cs := [mkC "A" ["x"; "x"] [] [] "XYC"] in
  names_unique cs = false /\ nth_error (flat_names cs) 1 = Some ("A", "x") /\ point_index cs "A" "x" = Ok 0.
Proof. repeat split; reflexivity. Qed.

(* ---- an OpenPose-shaped pose (reduced): hide / remove legs, wrist correction *)
Definition op_body_c := mkC "pose_keypoints_2d" ["Nose"; "LHip"; "RKnee"; "LWrist"; "RWrist"] [(0, 1); (1, 2); (0, 3)] [[255; 0; 0]%Z] "XYC".
Definition op_hand_l := mkC "hand_left_keypoints_2d" ["BASE"; "T_STT"] [(0, 1)] [] "XYC".
Definition op_hand_r := mkC "hand_right_keypoints_2d" ["BASE"] [] [] "XYC".
(* 1 frame, 2 people, 8 points; the left hand base is seen for person 0 only *)
Definition op_bodyv := mk_body 1 2 8 2 [1; 2; 3; 4; 5; 6; 7; 8; 9; 10; 11; 12; 13; 0; 15; 16]%Z.
Definition op_v := mkV 2 [1; 1; 0]%Z false [op_body_c; op_hand_l; op_hand_r] op_bodyv.
Definition op_h : heap := [OComp op_body_c; OComp op_hand_l; OComp op_hand_r; OBody op_bodyv].
Definition op_p := mkP 2 [1; 1; 0]%Z false [0; 1; 2] 3.
Lemma op_source : deref op_h op_p = Ok op_v /\ source_ok op_v 1 2 2.
Proof. split; [reflexivity|]. split; [reflexivity|repeat split]. Qed.
Lemma op_hide : exists h' b', hide_legs_h pinned_tables false op_h op_p false = Ok (h', op_p) /\
  deref h' op_p = Ok (mkV 2 [1; 1; 0]%Z false (v_comps op_v) b') /\
  hide_indices (v_comps op_v) (t_hide_openpose pinned_tables) = [2; 1] /\
  data (b_conf b') = [1; 0; 0; 4; 5; 6; 7; 8; 9; 0; 0; 12; 13; 0; 15; 16]%Z.
Proof. eexists _, _. split; [vm_compute; reflexivity|]. split; [vm_compute; reflexivity|]. split; vm_compute; reflexivity. Qed.
Lemma op_hide_remove : exists h' p' v', hide_legs_h pinned_tables false op_h op_p true = Ok (h', p') /\ deref h' p' = Ok v' /\
  map c_points (v_comps v') = [["Nose"; "LWrist"; "RWrist"]; ["BASE"; "T_STT"]; ["BASE"]] /\
  map limb_names (v_comps v') = [[("Nose", "LWrist")]; [("BASE", "T_STT")]; []].
Proof. eexists _, _, _. split; [vm_compute; reflexivity|]. split; [vm_compute; reflexivity|]. split; vm_compute; reflexivity. Qed.
(* left wrist (column 3) takes the hand base (column 5) for person 0, keeps its value for person 1 (base confidence 0) *)
Lemma op_wrist : exists h' p' b', correct_wrist_h pinned_tables op_h op_p "LEFT" = Ok (h', p') /\
  deref h' p' = Ok (mkV 2 [1; 1; 0]%Z false (v_comps op_v) b') /\ deref h' op_p = Ok op_v /\
  data (b_conf b') = [1; 2; 3; 6; 5; 6; 7; 8; 9; 10; 11; 12; 13; 0; 15; 16]%Z /\
  data (b_data b') = [1; 2; 3; 4; 5; 6; 11; 12; 9; 10; 11; 12; 13; 14; 15; 16; 17; 18; 19; 20; 21; 22; 23; 24; 25; 26; 27; 28; 29; 30; 31; 32]%Z.
Proof. eexists _, _, _. split; [vm_compute; reflexivity|]. split; [vm_compute; reflexivity|]. repeat split; vm_compute; reflexivity. Qed.
Lemma op_wrists : exists r, correct_wrists_h pinned_tables op_h op_p "LEFT" "RIGHT" = Ok r.
Proof. eexists. vm_compute. reflexivity. Qed.

(* ---- a Holistic-shaped pose (reduced): reduction keeps the named body points and drops the world landmarks *)
Definition ho_pose_c := mkC "POSE_LANDMARKS" ["NOSE"; "LEFT_SHOULDER"; "LEFT_KNEE"; "LEFT_WRIST"] [(1, 3); (1, 2)] [] "XYZC".
Definition ho_world := mkC "POSE_WORLD_LANDMARKS" ["NOSE"] [] [] "XYZC".
Definition ho_bodyv := mk_body 1 1 5 3 [1; 2; 3; 4; 5]%Z.
Definition ho_v := mkV 2 [1; 1; 1]%Z false [ho_pose_c; ho_world] ho_bodyv.
Definition ho_h : heap := [OComp ho_pose_c; OComp ho_world; OBody ho_bodyv].
Definition ho_p := mkP 2 [1; 1; 1]%Z false [0; 1] 2.
Lemma ho_source : deref ho_h ho_p = Ok ho_v /\ source_ok ho_v 1 1 3.
Proof. split; [reflexivity|]. split; [reflexivity|repeat split]. Qed.
Lemma ho_reduce : exists h' p' v', reduce_holistic_h pinned_tables false ho_h ho_p = Ok (h', p') /\ deref h' p' = Ok v' /\
  flat_names (v_comps v') = [("POSE_LANDMARKS", "LEFT_SHOULDER"); ("POSE_LANDMARKS", "LEFT_WRIST")] /\
  map limb_names (v_comps v') = [[("LEFT_SHOULDER", "LEFT_WRIST")]] /\ deref h' ho_p = Ok ho_v.
Proof. eexists _, _, _. split; [vm_compute; reflexivity|]. split; [vm_compute; reflexivity|]. repeat split; vm_compute; reflexivity. Qed.
Lemma op_reduce_identity : reduce_holistic_h pinned_tables false op_h op_p = Ok (op_h, op_p).
Proof. reflexivity. Qed.
(* the 13 OpenPose leg points (incl. MidHip) and the 10 Holistic ones *)
Lemma pinned_leg_points :
  map snd (t_hide_openpose pinned_tables) =
    [["MidHip"; "RHip"; "RKnee"; "RAnkle"; "LHip"; "LKnee"; "LAnkle"; "LBigToe"; "LSmallToe"; "LHeel"; "RBigToe"; "RSmallToe"; "RHeel"]] /\
  map (fun e => length (snd e)) (t_hide_holistic pinned_tables) = [10; 10].
Proof. split; reflexivity. Qed.
