(* C13 - the 3-D normaliser over the reals, part 1: every step of normalize_pose acts point by point on the
   observed points; closed form [out_pt] of the output in terms of the five reference points. *)
From Coq Require Import Reals List Lra Lia Arith Bool.
Require Import Num C13_Normalize C13_Norm3d C13_RBase.
Import ListNotations.
Open Scope R_scope.

Notation rv := (vec3 R_ops).
Notation rp3 := (p3 R_ops).
Notation rV3 := (@V3 R_ops).
Notation rmk := (@mkp3 R_ops).
Notation rget3 := (get3 R_ops).
Notation rcross := (cross R_ops).
Notation rdot := (dot R_ops).
Notation rvsub := (vsub R_ops).
Notation rvscale := (vscale R_ops).
Notation rvdiv := (vdiv R_ops).
Notation rnorm := (norm R_ops).
Definition v0 : rv := rV3 0 0 0.
Ltac vsimp := unfold cross, dot, vsub, vscale, vdiv, norm, z0 in *; cbn [vx vy vz] in *; rsimp.

Lemma v3_eta (v : rv) : v = rV3 (vx v) (vy v) (vz v).
Proof. destruct v; reflexivity. Qed.
Lemma p3_eta (p : rp3) : p = rmk (m3 p) (c3 p).
Proof. destruct p; reflexivity. Qed.
Lemma Reqb_false x y : x <> y -> Reqb x y = false.
Proof. intros H. unfold Reqb. destruct (Req_EM_T x y); [contradiction|reflexivity]. Qed.
Lemma Reqb_true x : Reqb x x = true.
Proof. unfold Reqb. destruct (Req_EM_T x x); [reflexivity|congruence]. Qed.

(* ---------- a row seen as "observed points carry g (original coordinates), the others carry junk" ---------- *)
Definition carry (g junk : rp3 -> rv) (p : rp3) : rp3 := if m3 p then rmk true (junk p) else rmk false (g p).
Definition rep (r : list rp3) (g : rv -> rv) (r' : list rp3) : Prop :=
  exists junk, r' = map (carry (fun p => g (c3 p)) junk) r.
Lemma rep_id r : rep r (fun v => v) r.
Proof. exists (fun p => c3 p). rewrite <- (map_id r) at 1. apply map_ext. intros p. unfold carry.
  destruct p as [m c]; destruct m; reflexivity. Qed.
Lemma get3_map (F : rp3 -> rp3) r k : m3 (rget3 r k) = false -> rget3 (map F r) k = F (rget3 r k).
Proof. unfold get3. revert k. induction r as [|p r IH]; intros [|k] H; cbn [nth map] in *; try discriminate; [reflexivity|].
  apply IH. exact H. Qed.
Lemma rep_get3 r g r' k : rep r g r' -> m3 (rget3 r k) = false -> rget3 r' k = rmk false (g (c3 (rget3 r k))).
Proof. intros [junk ->] H. rewrite get3_map by exact H. unfold carry. rewrite H. reflexivity. Qed.
Lemma rep_masks r g r' : rep r g r' -> map m3 r' = map m3 r.
Proof. intros [junk ->]. rewrite map_map. apply map_ext. intros p. unfold carry. destruct (m3 p); reflexivity. Qed.

Section Steps.
Variable zrot : R -> R -> R * R.

(* the steps of normalize_pose on one observed point *)
Definition normal3 (A B C : rv) : rv := let n0 := rcross (rvsub B A) (rvsub C A) in rvdiv n0 (rnorm n0).
Definition frame (A n q : rv) : rv :=
  let y_axis := rcross (rV3 1 0 0) n in
  let x_axis := rcross n y_axis in
  rV3 (rdot (rvsub q A) x_axis) (rdot (rvsub q A) y_axis) (rdot (rvsub q A) n).
Definition rotp (cs : R * R) (q : rv) : rv :=
  rV3 ((fst cs * vx q + (- snd cs) * vy q) + 0 * vz q)
      ((snd cs * vx q + fst cs * vy q) + 0 * vz q)
      ((0 * vx q + 0 * vy q) + 1 * vz q).
Definition rescale (sc : R) (o q : rv) : rv := rvsub (rvscale q sc) (rvscale o sc).

Lemma step_get_normal pl1 pl2 pl3 r :
  m3 (rget3 r pl1) = false -> m3 (rget3 r pl2) = false -> m3 (rget3 r pl3) = false ->
  get_normal R_ops pl1 pl2 pl3 r = (normal3 (c3 (rget3 r pl1)) (c3 (rget3 r pl2)) (c3 (rget3 r pl3)), rget3 r pl1).
Proof. intros H1 H2 H3. unfold get_normal, msub, normal3. rewrite H1, H2, H3. reflexivity. Qed.

Lemma step_rotate_to_normal r g r' n base : rep r g r' -> m3 base = false ->
  rep r (fun v => frame (c3 base) n (g v)) (rotate_to_normal R_ops r' n base).
Proof. intros [junk ->] Hb. unfold rotate_to_normal. rewrite !map_map.
  exists (fun p => let y_axis := rcross (rV3 1 0 0) n in let x_axis := rcross n y_axis in
                   rV3 (rdot (junk p) x_axis) (rdot (junk p) y_axis) (rdot (junk p) n)).
  apply map_ext. intros p. unfold carry, msub, frame. destruct (m3 p); cbn [m3 c3]; rewrite Hb; reflexivity. Qed.

Lemma step_rotate_in_plane r g r' l1 l2 : rep r g r' -> m3 (rget3 r l1) = false -> m3 (rget3 r l2) = false ->
  let vec := rvsub (g (c3 (rget3 r l2))) (g (c3 (rget3 r l1))) in
  rep r (fun v => rotp (zrot (vx vec) (vy vec)) (g v)) (rotate_in_plane R_ops zrot l1 l2 r').
Proof. intros Hr H1 H2 vec. unfold rotate_in_plane. rewrite (rep_get3 _ _ _ _ Hr H1), (rep_get3 _ _ _ _ Hr H2).
  unfold msub. cbn [m3 c3 orb]. fold vec. destruct Hr as [junk ->]. rewrite map_map.
  exists (fun p => rotp (zrot (vx vec) (vy vec)) (junk p)).
  apply map_ext. intros p. unfold carry, rotp. destruct (m3 p); reflexivity. Qed.

Lemma step_scale r g r' l1 l2 size : rep r g r' -> m3 (rget3 r l1) = false -> m3 (rget3 r l2) = false ->
  let d := rvsub (g (c3 (rget3 r l2))) (g (c3 (rget3 r l1))) in
  let cur := R_sqrt.sqrt (rdot d d) in
  cur <> 0 ->
  rep r (fun v => rescale (size / cur) (g (c3 (rget3 r l1))) (g v)) (scale3 R_ops l1 l2 size r').
Proof. intros Hr H1 H2 d cur Hc. unfold scale3. rewrite (rep_get3 _ _ _ _ Hr H1), (rep_get3 _ _ _ _ Hr H2).
  unfold msub. cbn [m3 c3 orb]. fold d. change (Num.sqrt R_ops (rdot d d)) with cur.
  change (eqb R_ops cur (z0 R_ops)) with (Reqb cur 0). rewrite (Reqb_false _ _ Hc).
  destruct Hr as [junk ->]. rewrite !map_map.
  rewrite get3_map by exact H1. unfold carry. rewrite H1. cbn [m3 c3 orb].
  exists junk. apply map_ext. intros p. unfold rescale, carry. destruct (m3 p); cbn [m3 c3 orb]; reflexivity. Qed.

(* degenerate scale: current_size = 0 masks the whole row *)
Lemma step_scale_zero r g r' l1 l2 size : rep r g r' -> m3 (rget3 r l1) = false -> m3 (rget3 r l2) = false ->
  let d := rvsub (g (c3 (rget3 r l2))) (g (c3 (rget3 r l1))) in
  R_sqrt.sqrt (rdot d d) = 0 ->
  fill3 R_ops (scale3 R_ops l1 l2 size r') = map (fun _ => rmk true v0) r.
Proof. intros Hr H1 H2 d Hc. unfold scale3. rewrite (rep_get3 _ _ _ _ Hr H1), (rep_get3 _ _ _ _ Hr H2).
  unfold msub. cbn [m3 c3 orb]. fold d. change (Num.sqrt R_ops (rdot d d)) with (R_sqrt.sqrt (rdot d d)). rewrite Hc.
  change (eqb R_ops 0 (z0 R_ops)) with (Reqb 0 0). rewrite Reqb_true.
  destruct Hr as [junk ->]. unfold fill3. rewrite !map_map. apply map_ext. intros p.
  rewrite orb_true_r. cbn [m3 c3 orb]. reflexivity. Qed.

Lemma step_fill r g r' : rep r g r' ->
  fill3 R_ops r' = map (fun p => if m3 p then rmk true v0 else rmk false (g (c3 p))) r.
Proof. intros [junk ->]. unfold fill3. rewrite map_map. apply map_ext. intros p. unfold carry.
  destruct (m3 p); reflexivity. Qed.

(* ---------- closed form of one row ---------- *)
Section Row.
Variables (pl1 pl2 pl3 l1 l2 : nat) (size : R).
Definition out_pt (A B C L1 L2 p : rv) : rv :=
  let n := normal3 A B C in
  let q1 := frame A n L1 in
  let q2 := frame A n L2 in
  let vec := rvsub q2 q1 in
  let cs := zrot (vx vec) (vy vec) in
  let d := rvsub (rotp cs q2) (rotp cs q1) in
  rescale (size / R_sqrt.sqrt (rdot d d)) (rotp cs q1) (rotp cs (frame A n p)).
Definition line_image (A B C L1 L2 : rv) : rv :=
  let n := normal3 A B C in
  let q1 := frame A n L1 in
  let q2 := frame A n L2 in
  let vec := rvsub q2 q1 in
  let cs := zrot (vx vec) (vy vec) in
  rvsub (rotp cs q2) (rotp cs q1).
Definition refs_observed (r : list rp3) : Prop :=
  m3 (rget3 r pl1) = false /\ m3 (rget3 r pl2) = false /\ m3 (rget3 r pl3) = false /\
  m3 (rget3 r l1) = false /\ m3 (rget3 r l2) = false.

Lemma normalize_row_closed r : refs_observed r ->
  let A := c3 (rget3 r pl1) in let B := c3 (rget3 r pl2) in let C := c3 (rget3 r pl3) in
  let L1 := c3 (rget3 r l1) in let L2 := c3 (rget3 r l2) in
  R_sqrt.sqrt (rdot (line_image A B C L1 L2) (line_image A B C L1 L2)) <> 0 ->
  normalize_row R_ops zrot pl1 pl2 pl3 l1 l2 size r =
  map (fun p => if m3 p then rmk true v0 else rmk false (out_pt A B C L1 L2 (c3 p))) r.
Proof. intros (H1 & H2 & H3 & H4 & H5) A B C L1 L2 Hc. unfold normalize_row.
  rewrite step_get_normal by assumption. cbn [fst snd]. fold A B C.
  pose proof (step_rotate_to_normal r _ r (normal3 A B C) (rget3 r pl1) (rep_id r) H1) as S1. fold A in S1.
  pose proof (step_rotate_in_plane r _ _ l1 l2 S1 H4 H5) as S2. cbv zeta in S2. fold L1 L2 in S2.
  pose proof (step_scale r _ _ l1 l2 size S2 H4 H5) as S3. cbv zeta in S3. fold L1 L2 in S3.
  specialize (S3 Hc). rewrite (step_fill _ _ _ S3). reflexivity. Qed.

Lemma normalize_row_zero r : refs_observed r ->
  let A := c3 (rget3 r pl1) in let B := c3 (rget3 r pl2) in let C := c3 (rget3 r pl3) in
  let L1 := c3 (rget3 r l1) in let L2 := c3 (rget3 r l2) in
  R_sqrt.sqrt (rdot (line_image A B C L1 L2) (line_image A B C L1 L2)) = 0 ->
  normalize_row R_ops zrot pl1 pl2 pl3 l1 l2 size r = map (fun _ => rmk true v0) r.
Proof. intros (H1 & H2 & H3 & H4 & H5) A B C L1 L2 Hc. unfold normalize_row.
  rewrite step_get_normal by assumption. cbn [fst snd]. fold A B C.
  pose proof (step_rotate_to_normal r _ r (normal3 A B C) (rget3 r pl1) (rep_id r) H1) as S1. fold A in S1.
  pose proof (step_rotate_in_plane r _ _ l1 l2 S1 H4 H5) as S2. cbv zeta in S2. fold L1 L2 in S2.
  exact (step_scale_zero r _ _ l1 l2 size S2 H4 H5 Hc). Qed.
End Row.
End Steps.
