(* Round trip of the v0.2 codec: what write_pose emits, the plain reader decodes to [canon]. *)
From Coq Require Import ZArith NArith List Lia ZifyBool ZifyN ZifyNat Bool.
Require Import ListN Result Bytes Utf8 Utf8S F32 Prog Codec ProgLemmas.
Import ListNotations.
Open Scope N_scope.

(* ---------- canonical image of a written pose ---------- *)
Definition canon_comp (c : wcomponent) : component :=
  {| c_name := wc_name c; c_format := wc_format c; c_points := wc_points c;
     c_limbs := map (fun l => (Z.to_N (fst l), Z.to_N (snd l))) (wc_limbs c);
     c_colors := map (fun k => (Z.to_N (fst (fst k)), Z.to_N (snd (fst k)), Z.to_N (snd k))) (wc_colors c) |}.
Definition canon_header (p : wpose) : header :=
  let '(w, h, d) := w_dims p in
  {| h_version := version_word; h_dims := (Z.to_N w, Z.to_N h, Z.to_N d); h_comps := map canon_comp (w_comps p) |}.
Definition canon_body (p : wpose) : body :=
  {| b_fps := match pack_f32 (w_fps p) with Some v => v | None => 0 end;
     b_shape := w_shape p;
     b_data := map f64_to_f32 (w_data p);
     b_conf := map f64_to_f32 (w_conf p);
     b_mask := map is_zero32 (map f64_to_f32 (w_conf p)) |}.
Definition canon (p : wpose) : pose := {| p_header := canon_header p; p_body := canon_body p |}.

(* ---------- result plumbing ---------- *)
Lemma rbind_ok {A B} (r : result A) (f : A -> result B) b :
  rbind r f = Ok b -> exists a, r = Ok a /\ f a = Ok b.
Proof. destruct r as [a|e]; cbn; [eauto|discriminate]. Qed.
Lemma concat_r_cons r rest e : concat_r (r :: rest) = Ok e ->
  exists a b, r = Ok a /\ concat_r rest = Ok b /\ e = a ++ b.
Proof. cbn [concat_r]. intros H. apply rbind_ok in H. destruct H as [a [Ha H]].
  apply rbind_ok in H. destruct H as [b [Hb H]]. injection H as <-. eauto. Qed.
Lemma concat_r_app l1 : forall l2 e, concat_r (l1 ++ l2) = Ok e ->
  exists a b, concat_r l1 = Ok a /\ concat_r l2 = Ok b /\ e = a ++ b.
Proof.
  induction l1 as [|r l1 IH]; intros l2 e H; cbn [app] in H.
  - exists [], e. auto.
  - apply concat_r_cons in H. destruct H as [a [b [Ha [Hb ->]]]].
    apply IH in Hb. destruct Hb as [a' [b' [Ha' [Hb' ->]]]].
    exists (a ++ a'), b'. cbn [concat_r]. rewrite Ha, Ha'. cbn [rbind]. split; [reflexivity|].
    split; [assumption|apply app_assoc].
Qed.
Lemma concat_r_map {X} (f : X -> result bytes) xs : forall e, concat_r (map f xs) = Ok e ->
  exists es, Forall2 (fun x e' => f x = Ok e') xs es /\ e = concat es.
Proof.
  induction xs as [|x xs IH]; intros e H; cbn [map] in H.
  - cbn in H. injection H as <-. exists []. split; [constructor|reflexivity].
  - apply concat_r_cons in H. destruct H as [a [b [Ha [Hb ->]]]].
    destruct (IH _ Hb) as [es [HF ->]]. exists (a :: es). split; [constructor; assumption|reflexivity].
Qed.

Lemma Ok_inj {A} (a b : A) : @Ok A a = Ok b -> a = b.
Proof. now intros [= ->]. Qed.

(* ---------- fields ---------- *)
Lemma rd_u16_rt n : n < 65536 -> RTp rd_u16 (enc_u16 n) n.
Proof. intros Hn. unfold rd_u16.
  replace n with (dec_u16 (enc_u16 n)) at 2 by (rewrite <- (app_nil_r (enc_u16 n)); now apply u16_rt).
  apply RTp_block_ret. reflexivity. Qed.
Lemma rd_u32_rt n : n < 4294967296 -> RTp rd_u32 (enc_u32 n) n.
Proof. intros Hn. unfold rd_u32.
  replace n with (dec_u32 (enc_u32 n)) at 2 by (rewrite <- (app_nil_r (enc_u32 n)); now apply u32_rt).
  apply RTp_block_ret. reflexivity. Qed.

Lemma write_str_ok s e : write_str s = Ok e ->
  exists b, enc_utf8 s = Some b /\ lenN b < 65536 /\ e = enc_u16 (lenN b) ++ b.
Proof. unfold write_str. destruct (enc_utf8 s) as [b|]; [|discriminate].
  destruct (N.ltb_spec (lenN b) 65536); [|discriminate]. intros [= <-]. eauto. Qed.
Lemma rd_str_rt s e : write_str s = Ok e -> RTp rd_str e s.
Proof.
  intros H. apply write_str_ok in H. destruct H as [b [Hb [Hl ->]]]. unfold rd_str.
  apply RTp_bind with (a := lenN b); [now apply rd_u16_rt|].
  rewrite <- (app_nil_r b) at 2. apply RTp_block; [reflexivity|].
  rewrite (dec_enc_utf8 _ _ Hb). apply RTp_ret.
Qed.

Lemma u16_ok_lt z : u16_ok z = true -> Z.to_N z < 65536.
Proof. unfold u16_ok. lia. Qed.
Lemma pack_u16s_ok l e : pack_u16s l = Ok e ->
  Forall (fun z => Z.to_N z < 65536) l /\ e = flat_map (fun z => enc_u16 (Z.to_N z)) l.
Proof. unfold pack_u16s. destruct (forallb u16_ok l) eqn:H; [|discriminate]. intros [= <-]. split; [|reflexivity].
  apply Forall_forall. intros z Hz. apply u16_ok_lt. rewrite forallb_forall in H. now apply H. Qed.

Lemma dec_u16_app a b r : a < 256 -> b < 256 -> dec_u16 (a :: b :: r) = a + 256 * b.
Proof. reflexivity. Qed.
Lemma dec_u16_enc_app n r : n < 65536 -> dec_u16 (enc_u16 n ++ r) = n.
Proof. apply u16_rt. Qed.
Lemma drop2_enc_u16 n r : dropN 2 (enc_u16 n ++ r) = r.
Proof. destruct r; reflexivity. Qed.
Lemma drop4_enc_u32 n r : dropN 4 (enc_u32 n ++ r) = r.
Proof. destruct r; reflexivity. Qed.

Lemma rd_u16x3_rt a b c e : pack_u16s [a; b; c] = Ok e -> RTp rd_u16x3 e (Z.to_N a, Z.to_N b, Z.to_N c).
Proof.
  intros H. apply pack_u16s_ok in H. destruct H as [HF ->].
  inversion HF as [|? ? Ha HF1]; subst. inversion HF1 as [|? ? Hb HF2]; subst. inversion HF2 as [|? ? Hc _]; subst.
  unfold rd_u16x3. cbn [flat_map]. rewrite app_nil_r.
  set (e := enc_u16 (Z.to_N a) ++ enc_u16 (Z.to_N b) ++ enc_u16 (Z.to_N c)).
  replace (Z.to_N a, Z.to_N b, Z.to_N c) with (dec_u16 e, dec_u16 (dropN 2 e), dec_u16 (dropN 4 e)).
  - apply (RTp_block_ret 6 (fun b0 => (dec_u16 b0, dec_u16 (dropN 2 b0), dec_u16 (dropN 4 b0)))). reflexivity.
  - unfold e. rewrite dec_u16_enc_app by assumption. rewrite drop2_enc_u16.
    rewrite dec_u16_enc_app by assumption.
    replace (dropN 4 (enc_u16 (Z.to_N a) ++ enc_u16 (Z.to_N b) ++ enc_u16 (Z.to_N c))) with (enc_u16 (Z.to_N c)) by reflexivity.
    rewrite <- (app_nil_r (enc_u16 (Z.to_N c))). now rewrite dec_u16_enc_app.
Qed.
Lemma rd_u16x2_rt a b e : pack_u16s [a; b] = Ok e -> RTp rd_u16x2 e (Z.to_N a, Z.to_N b).
Proof.
  intros H. apply pack_u16s_ok in H. destruct H as [HF ->].
  inversion HF as [|? ? Ha HF1]; subst. inversion HF1 as [|? ? Hb _]; subst.
  unfold rd_u16x2. cbn [flat_map]. rewrite app_nil_r.
  set (e := enc_u16 (Z.to_N a) ++ enc_u16 (Z.to_N b)).
  replace (Z.to_N a, Z.to_N b) with (dec_u16 e, dec_u16 (dropN 2 e)).
  - apply (RTp_block_ret 4 (fun b0 => (dec_u16 b0, dec_u16 (dropN 2 b0)))). reflexivity.
  - unfold e. rewrite dec_u16_enc_app by assumption. rewrite drop2_enc_u16.
    rewrite <- (app_nil_r (enc_u16 (Z.to_N b))). now rewrite dec_u16_enc_app.
Qed.

(* word lists *)
Lemma words16_enc l : forall r, Forall (fun n => n < 65536) l ->
  words16 (length l) (flat_map enc_u16 l ++ r) = l.
Proof. induction l as [|n l IH]; intros r H; cbn [length words16 flat_map]; [reflexivity|].
  inversion H; subst. rewrite <- app_assoc. rewrite dec_u16_enc_app by assumption. rewrite drop2_enc_u16.
  f_equal. now apply IH. Qed.
Lemma words32_enc l : forall r, Forall (fun n => n < 4294967296) l ->
  words32 (length l) (flat_map enc_u32 l ++ r) = l.
Proof. induction l as [|n l IH]; intros r H; cbn [length words32 flat_map]; [reflexivity|].
  inversion H; subst. rewrite <- app_assoc. rewrite u32_rt by assumption. rewrite drop4_enc_u32.
  f_equal. now apply IH. Qed.
Lemma lenN_flat_enc_u32 l : lenN (flat_map enc_u32 l) = 4 * lenN l.
Proof. induction l as [|n l IH]; [reflexivity|]. cbn [flat_map]. rewrite lenN_app, IH, enc_u32_len. unfold lenN. cbn [length]. lia. Qed.
Lemma lenN_flat_enc_u16 l : lenN (flat_map enc_u16 l) = 2 * lenN l.
Proof. induction l as [|n l IH]; [reflexivity|]. cbn [flat_map]. rewrite lenN_app, IH, enc_u16_len. unfold lenN. cbn [length]. lia. Qed.

(* ---------- component ---------- *)
Lemma to_nat_lenN {X} (l : list X) : N.to_nat (lenN l) = length l.
Proof. unfold lenN. lia. Qed.
Lemma ZN_lenN {X} (l : list X) : Z.to_N (Z.of_N (lenN l)) = lenN l.
Proof. lia. Qed.

Definition flat3 (ks : list (N * N * N)) : list N := flat_map (fun k => [fst (fst k); snd (fst k); snd k]) ks.
Lemma triples_flat3 ks : triples (flat3 ks) = ks.
Proof. induction ks as [|[[a b] c] ks IH]; [reflexivity|]. cbn [flat3 flat_map app fst snd triples]. f_equal. exact IH. Qed.
Lemma length_flat3 ks : length (flat3 ks) = (3 * length ks)%nat.
Proof. induction ks as [|k ks IH]; [reflexivity|]. unfold flat3 in *. cbn [flat_map]. rewrite app_length, IH. cbn [length]. lia. Qed.

Definition colorN (k : Z * Z * Z) : N * N * N := (Z.to_N (fst (fst k)), Z.to_N (snd (fst k)), Z.to_N (snd k)).
Definition limbN (l : Z * Z) : N * N := (Z.to_N (fst l), Z.to_N (snd l)).

Lemma colors_enc (cols : list (Z * Z * Z)) es :
  Forall2 (fun k e' => pack_u16s [fst (fst k); snd (fst k); snd k] = Ok e') cols es ->
  concat es = flat_map enc_u16 (flat3 (map colorN cols)) /\ Forall (fun n => n < 65536) (flat3 (map colorN cols)).
Proof.
  induction 1 as [|k e' cols es Hk _ [IH1 IH2]]; [split; [reflexivity|constructor]|].
  apply pack_u16s_ok in Hk. destruct Hk as [HF ->].
  inversion HF as [|? ? Ha HF1]; subst. inversion HF1 as [|? ? Hb HF2]; subst. inversion HF2 as [|? ? Hc _]; subst.
  cbn [concat map flat3 flat_map colorN fst snd app]. fold (flat3 (map colorN cols)).
  split.
  - rewrite IH1. cbn [flat_map app]. rewrite app_nil_r. rewrite <- !app_assoc. reflexivity.
  - repeat (constructor; [assumption|]). exact IH2.
Qed.

Lemma limbs_rt (limbs : list (Z * Z)) es :
  Forall2 (fun l e' => pack_u16s [fst l; snd l] = Ok e') limbs es ->
  Forall2 (fun e x => RTp rd_u16x2 e x) es (map limbN limbs).
Proof. induction 1 as [|l e' limbs es Hl _ IH]; cbn [map]; constructor; [|exact IH].
  now apply rd_u16x2_rt. Qed.
Lemma strs_rt (ss : list str) es :
  Forall2 (fun s e' => write_str s = Ok e') ss es -> Forall2 (fun e x => RTp rd_str e x) es ss.
Proof. induction 1 as [|s e' ss es Hs _ IH]; constructor; [|exact IH]. now apply rd_str_rt. Qed.

Lemma rd_component_rt c e : write_component c = Ok e -> RTp rd_component e (canon_comp c).
Proof.
  unfold write_component. intros H.
  change ([write_str (wc_name c); write_str (wc_format c);
           pack_u16s [Z.of_N (lenN (wc_points c)); Z.of_N (lenN (wc_limbs c)); Z.of_N (lenN (wc_colors c))]] ++ ?x)
    with (write_str (wc_name c) :: write_str (wc_format c) ::
          pack_u16s [Z.of_N (lenN (wc_points c)); Z.of_N (lenN (wc_limbs c)); Z.of_N (lenN (wc_colors c))] :: x) in H.
  apply concat_r_cons in H. destruct H as [e1 [r1 [H1 [H ->]]]].
  apply concat_r_cons in H. destruct H as [e2 [r2 [H2 [H ->]]]].
  apply concat_r_cons in H. destruct H as [e3 [r3 [H3 [H ->]]]].
  apply concat_r_app in H. destruct H as [e4 [r4 [H4 [H ->]]]].
  apply concat_r_app in H. destruct H as [e5 [e6 [H5 [H6 ->]]]].
  apply concat_r_map in H4. destruct H4 as [es4 [HF4 ->]].
  apply concat_r_map in H5. destruct H5 as [es5 [HF5 ->]].
  apply concat_r_map in H6. destruct H6 as [es6 [HF6 ->]].
  unfold rd_component.
  apply RTp_bind with (a := wc_name c); [now apply rd_str_rt|].
  apply RTp_bind with (a := wc_format c); [now apply rd_str_rt|].
  apply RTp_bind with (a := (Z.to_N (Z.of_N (lenN (wc_points c))), Z.to_N (Z.of_N (lenN (wc_limbs c))),
                             Z.to_N (Z.of_N (lenN (wc_colors c))))); [now apply rd_u16x3_rt|].
  rewrite !ZN_lenN. cbv iota beta.
  apply RTp_bind with (a := wc_points c).
  { rewrite to_nat_lenN. apply RTp_prep. now apply strs_rt. }
  apply RTp_bind with (a := map limbN (wc_limbs c)).
  { rewrite to_nat_lenN. rewrite <- (map_length limbN). apply RTp_prep. now apply limbs_rt. }
  destruct (colors_enc _ _ HF6) as [Hc Hlt].
  rewrite <- (app_nil_r (concat es6)).
  apply RTp_bind with (a := map colorN (wc_colors c)); [|apply RTp_ret].
  rewrite Hc.
  assert (Hg : triples (words16 (N.to_nat (3 * lenN (wc_colors c)))
                         (flat_map enc_u16 (flat3 (map colorN (wc_colors c))))) = map colorN (wc_colors c)).
  { replace (N.to_nat (3 * lenN (wc_colors c))) with (length (flat3 (map colorN (wc_colors c))))
      by (rewrite length_flat3, map_length; unfold lenN; lia).
    rewrite <- (app_nil_r (flat_map enc_u16 _)). rewrite words16_enc by exact Hlt. apply triples_flat3. }
  assert (Hlen : lenN (flat_map enc_u16 (flat3 (map colorN (wc_colors c)))) = 6 * lenN (wc_colors c))
    by (rewrite lenN_flat_enc_u16; unfold lenN; rewrite length_flat3, map_length; lia).
  pose proof (RTp_block_ret (6 * lenN (wc_colors c))
                (fun b => triples (words16 (N.to_nat (3 * lenN (wc_colors c))) b)) _ Hlen) as HB.
  cbv beta in HB. rewrite Hg in HB. exact HB.
Qed.

(* ---------- header ---------- *)
Lemma comps_rt comps es :
  Forall2 (fun c e' => write_component c = Ok e') comps es ->
  Forall2 (fun e x => RTp rd_component e x) es (map canon_comp comps).
Proof. induction 1 as [|c e' comps es Hc _ IH]; cbn [map]; constructor; [|exact IH]. now apply rd_component_rt. Qed.

Lemma version_word_lt : version_word < 4294967296.
Proof. reflexivity. Qed.

Lemma rd_header_rt dims comps e : write_header dims comps = Ok e ->
  RTp rd_header e {| h_version := version_word;
                     h_dims := (Z.to_N (fst (fst dims)), Z.to_N (snd (fst dims)), Z.to_N (snd dims));
                     h_comps := map canon_comp comps |}.
Proof.
  unfold write_header. intros H.
  change ([Ok (enc_u32 version_word); write_dims dims; pack_u16s [Z.of_N (lenN comps)]] ++ ?x)
    with (Ok (enc_u32 version_word) :: write_dims dims :: pack_u16s [Z.of_N (lenN comps)] :: x) in H.
  apply concat_r_cons in H. destruct H as [e1 [r1 [H1 [H ->]]]]. injection H1 as <-.
  apply concat_r_cons in H. destruct H as [e2 [r2 [H2 [H ->]]]].
  apply concat_r_cons in H. destruct H as [e3 [r3 [H3 [H ->]]]].
  apply concat_r_map in H. destruct H as [es [HF ->]].
  destruct dims as [[w h] d]. unfold write_dims in H2.
  destruct (u16_ok w && u16_ok h && u16_ok d); [|discriminate].
  unfold rd_header. cbn [fst snd].
  apply RTp_bind with (a := version_word); [apply rd_u32_rt, version_word_lt|].
  apply RTp_bind with (a := (Z.to_N w, Z.to_N h, Z.to_N d)); [now apply rd_u16x3_rt|].
  apply pack_u16s_ok in H3. destruct H3 as [HF3 ->]. inversion HF3 as [|? ? Hn _]; subst.
  cbn [flat_map]. rewrite app_nil_r. rewrite ZN_lenN in *.
  apply RTp_bind with (a := lenN comps); [now apply rd_u16_rt|].
  rewrite <- (app_nil_r (concat es)).
  apply RTp_bind with (a := map canon_comp comps); [|apply RTp_ret].
  rewrite to_nat_lenN, <- (map_length canon_comp). apply RTp_prep. now apply comps_rt.
Qed.

(* ---------- body ---------- *)
Definition wf_arrays (p : wpose) : Prop :=
  lenN (w_data p) = prodN (w_shape p) /\ lenN (w_conf p) = prodN (w_cshape p).

Lemma flat_map_map {X Y Z} (g : X -> Y) (f : Y -> list Z) l : flat_map f (map g l) = flat_map (fun x => f (g x)) l.
Proof. induction l as [|x l IH]; [reflexivity|]. cbn [map flat_map]. now rewrite IH. Qed.

Lemma frames_block_rt (ws : list N) (frames cells : Z) :
  Forall (fun n => n < 4294967296) ws ->
  (0 <= frames)%Z -> (0 <= cells)%Z -> Z.of_N (lenN ws) = (frames * cells)%Z ->
  RTp (read_frames frames cells None None) (flat_map enc_u32 ws) (frames, ws).
Proof.
  intros Hlt Hf Hc Hlen. unfold read_frames. cbn [andb]. cbv iota beta.
  unfold zblock. destruct (Z.ltb_spec (4 * frames * cells) 0) as [Hneg|_]; [lia|].
  rewrite <- (app_nil_r (flat_map enc_u32 ws)).
  apply RTp_bind with (a := ws); [|apply RTp_ret].
  assert (Hg : words32 (Z.to_nat (frames * cells)) (flat_map enc_u32 ws) = ws).
  { replace (Z.to_nat (frames * cells)) with (length ws) by (unfold lenN in Hlen; lia).
    rewrite <- (app_nil_r (flat_map enc_u32 ws)). now apply words32_enc. }
  pose proof (RTp_block_ret (Z.to_N (4 * frames * cells)) (fun b => words32 (Z.to_nat (frames * cells)) b)
                (flat_map enc_u32 ws)) as HB.
  cbv beta in HB. rewrite Hg in HB. apply HB. rewrite lenN_flat_enc_u32. lia.
Qed.

Lemma num_dims_canon p : num_dims (canon_header p) = num_dims_of (map wc_format (w_comps p)).
Proof. unfold num_dims, canon_header. destruct (w_dims p) as [[w h] d]. cbn [h_comps]. now rewrite map_map. Qed.
Lemma total_points_canon p : total_points (canon_header p) = total_points_w (w_comps p).
Proof. unfold total_points, total_points_w, canon_header. destruct (w_dims p) as [[w h] d]. cbn [h_comps]. now rewrite map_map. Qed.

Lemma eq_shape_ok a b : eq_shape a b = true -> a = b.
Proof.
  unfold eq_shape. rewrite andb_true_iff. intros [Hl Hf]. apply Nat.eqb_eq in Hl.
  revert b Hl Hf. induction a as [|x a IH]; intros [|y b] Hl Hf; try discriminate; [reflexivity|].
  cbn [combine forallb fst snd] in Hf. apply andb_true_iff in Hf. destruct Hf as [Hxy Hf].
  apply N.eqb_eq in Hxy. subst. f_equal. apply IH; [now injection Hl|exact Hf].
Qed.

Lemma words_lt (l : list N) : Forall (fun n => n < 4294967296) (map f64_to_f32 l).
Proof. apply Forall_forall. intros n Hn. apply in_map_iff in Hn. destruct Hn as [w [<- _]]. apply f64_to_f32_lt. Qed.

Theorem read_body_rt p e F P T D :
  w_shape p = [F; P; T; D] -> w_cshape p = [F; P; T] -> wf_arrays p ->
  num_dims_of (map wc_format (w_comps p)) = Ok (Z.of_N D) -> total_points_w (w_comps p) = T -> 1 <= D ->
  write_body p = Ok e ->
  RTp (read_v0_2 (canon_header p) None None None None) e (canon_body p).
Proof.
  intros Hs Hcs [Hld Hlc] Hnd Htp HD H. unfold write_body in H. rewrite Hs in H.
  destruct (N.ltb_spec 4294967295 F) as [|HF]; [discriminate|].
  destruct (pack_f32 (w_fps p)) as [fw|] eqn:Hfps; [|discriminate].
  destruct (N.ltb_spec 65535 P) as [|HP]; [discriminate|]. apply Ok_inj in H. subst e.
  rewrite Hs in Hld. rewrite Hcs in Hlc. cbn [prodN fold_right] in Hld, Hlc.
  unfold read_v0_2.
  apply RTp_bind with (a := fw); [apply rd_u32_rt; now apply pack_f32_lt in Hfps|].
  apply RTp_bind with (a := F); [apply rd_u32_rt; lia|].
  apply RTp_bind with (a := P); [apply rd_u16_rt; lia|].
  rewrite num_dims_canon, Hnd, total_points_canon, Htp. cbn [plift pbind rmap].
  rewrite <- (flat_map_map f64_to_f32 enc_u32 (w_data p)), <- (flat_map_map f64_to_f32 enc_u32 (w_conf p)).
  apply RTp_bind with (a := (Z.of_N F, map f64_to_f32 (w_data p))).
  { apply frames_block_rt; [apply words_lt|lia|lia|]. unfold lenN in *. rewrite map_length. lia. }
  rewrite <- (app_nil_r (flat_map enc_u32 (map f64_to_f32 (w_conf p)))).
  apply RTp_bind with (a := (Z.of_N F, map f64_to_f32 (w_conf p))).
  { apply frames_block_rt; [apply words_lt|lia|lia|]. unfold lenN in *. rewrite map_length. lia. }
  cbn [fst snd]. unfold mk_body. destruct (Z.leb_spec (Z.of_N D) 0) as [|_]; [lia|]. cbn [plift].
  unfold canon_body. rewrite Hfps, Hs.
  replace (Z.to_N (Z.of_N F)) with F by lia. replace (Z.to_N (Z.of_N D)) with D by lia.
  apply RTp_ret.
Qed.

(* ---------- whole file ---------- *)
Definition full_read_prog : prog pose :=
  dop h <- rd_header;
  dop b <- read_v0_2 h None None None None;
  Ret {| p_header := h; p_body := b |}.

Lemma write_pose_ok p bs : write_pose p = Ok bs ->
  exists F P T D h b,
    w_shape p = [F; P; T; D] /\ w_cshape p = [F; P; T] /\
    num_dims_of (map wc_format (w_comps p)) = Ok (Z.of_N D) /\ total_points_w (w_comps p) = T /\
    write_header (w_dims p) (w_comps p) = Ok h /\ write_body p = Ok b /\ bs = h ++ b.
Proof.
  unfold write_pose. destruct (w_shape p) as [|F [|P [|T [|D [|? ?]]]]] eqn:Hs; try discriminate.
  intros H. apply rbind_ok in H. destruct H as [hd [Hnd H]].
  destruct (Z.eqb_spec hd (Z.of_N D)) as [->|]; [|discriminate]. cbn [negb] in H.
  destruct (N.eqb_spec (total_points_w (w_comps p)) T) as [Htp|]; [|discriminate]. cbn [negb] in H.
  destruct (eq_shape (w_cshape p) [F; P; T]) eqn:Hcs; [|discriminate]. cbn [negb] in H.
  apply eq_shape_ok in Hcs.
  apply rbind_ok in H. destruct H as [h [Hh H]]. apply rbind_ok in H. destruct H as [b [Hb H]].
  apply Ok_inj in H. subst bs. exists F, P, T, D, h, b. repeat split; try assumption; reflexivity.
Qed.

Theorem full_read_rt p bs : write_pose p = Ok bs -> wf_arrays p -> 1 <= nth 3 (w_shape p) 0 ->
  RTp full_read_prog bs (canon p).
Proof.
  intros H Hwf HD. destruct (write_pose_ok _ _ H) as [F [P [T [D [h [b [Hs [Hcs [Hnd [Htp [Hh [Hb ->]]]]]]]]]]]].
  rewrite Hs in HD. cbn [nth] in HD. unfold full_read_prog.
  apply RTp_bind with (a := canon_header p).
  { unfold canon_header. destruct (w_dims p) as [[w hh] d] eqn:Hd.
    pose proof (rd_header_rt _ _ _ Hh) as HR. cbn [fst snd] in HR. exact HR. }
  rewrite <- (app_nil_r b).
  apply RTp_bind with (a := canon_body p); [now apply (read_body_rt p b F P T D)|].
  apply RTp_ret.
Qed.
