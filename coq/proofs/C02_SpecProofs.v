(* C02: the implementation model's writer produces exactly what the independent spec encoder produces. *)
From Coq Require Import ZArith NArith List Lia ZifyBool ZifyN ZifyNat Bool.
Require Import ListN Result Bytes Utf8 Utf8S F32 Prog Codec ProgLemmas CodecRT C02_SpecV02.
Import ListNotations.
Ltac Zify.zify_post_hook ::= Z.div_mod_to_equations.
Open Scope N_scope.

Lemma le2 n : n < 65536 -> le_bytes 2 n = Some (enc_u16 n).
Proof. intros H. cbn [le_bytes]. destruct (N.eqb_spec (n / 256 / 256) 0) as [_|Hne]; [reflexivity|]. exfalso. apply Hne. lia. Qed.
Lemma le4 n : n < 4294967296 -> le_bytes 4 n = Some (enc_u32 n).
Proof. intros H. cbn [le_bytes]. destruct (N.eqb_spec (n / 256 / 256 / 256 / 256) 0) as [_|Hne].
  - unfold enc_u32. rewrite !N.div_div by lia. reflexivity.
  - exfalso. apply Hne. lia. Qed.
Lemma enc_fields_app l1 : forall l2 a b, enc_fields l1 = Some a -> enc_fields l2 = Some b -> enc_fields (l1 ++ l2) = Some (a ++ b).
Proof. induction l1 as [|f l1 IH]; intros l2 a b H1 H2; cbn [enc_fields app] in *.
  - now injection H1 as <-.
  - destruct (enc_field f) as [x|]; [|discriminate]. destruct (enc_fields l1) as [y|]; [|discriminate]. injection H1 as <-.
    rewrite (IH l2 y b eq_refl H2). now rewrite app_assoc. Qed.
Lemma enc_fields_one f e : enc_field f = Some e -> enc_fields [f] = Some e.
Proof. intros H. cbn. rewrite H. now rewrite app_nil_r. Qed.

Lemma spec_string s e : write_str s = Ok e -> enc_field (FString s) = Some e.
Proof. intros H. apply write_str_ok in H. destruct H as [b [Hb [Hl ->]]]. cbn [enc_field]. rewrite Hb, (le2 _ Hl). reflexivity. Qed.
Lemma spec_strings ss es : Forall2 (fun s e' => write_str s = Ok e') ss es -> enc_fields (map FString ss) = Some (concat es).
Proof. induction 1 as [|s e ss es Hs _ IH]; [reflexivity|]. cbn [map enc_fields concat]. now rewrite (spec_string _ _ Hs), IH. Qed.
Lemma spec_u16s (l : list Z) e : pack_u16s l = Ok e -> enc_fields (map (fun z => FUShort (Z.to_N z)) l) = Some e.
Proof. intros H. apply pack_u16s_ok in H. destruct H as [HF ->].
  induction HF as [|z l Hz _ IH]; [reflexivity|]. cbn [map enc_fields flat_map enc_field]. now rewrite (le2 _ Hz), IH. Qed.
Lemma spec_limbs (limbs : list (Z * Z)) es :
  Forall2 (fun l e' => pack_u16s [fst l; snd l] = Ok e') limbs es ->
  enc_fields (flat_map (fun l => [FUShort (fst l); FUShort (snd l)]) (map limbN limbs)) = Some (concat es).
Proof. induction 1 as [|l e limbs es Hl _ IH]; [reflexivity|]. cbn [map flat_map concat limbN fst snd].
  apply (enc_fields_app [_; _]); [|exact IH]. exact (spec_u16s [fst l; snd l] e Hl). Qed.
Lemma spec_colors (cols : list (Z * Z * Z)) es :
  Forall2 (fun k e' => pack_u16s [fst (fst k); snd (fst k); snd k] = Ok e') cols es ->
  enc_fields (flat_map (fun k => [FUShort (fst (fst k)); FUShort (snd (fst k)); FUShort (snd k)]) (map colorN cols)) = Some (concat es).
Proof. induction 1 as [|k e cols es Hk _ IH]; [reflexivity|]. cbn [map flat_map concat colorN fst snd].
  apply (enc_fields_app [_; _; _]); [|exact IH]. exact (spec_u16s [fst (fst k); snd (fst k); snd k] e Hk). Qed.

Lemma spec_component c e : write_component c = Ok e -> enc_fields (component_fields (canon_comp c)) = Some e.
Proof.
  unfold write_component. intros H.
  change ([write_str (wc_name c); write_str (wc_format c);
           pack_u16s [Z.of_N (lenN (wc_points c)); Z.of_N (lenN (wc_limbs c)); Z.of_N (lenN (wc_colors c))]] ++ ?x)
    with (write_str (wc_name c) :: write_str (wc_format c) ::
          pack_u16s [Z.of_N (lenN (wc_points c)); Z.of_N (lenN (wc_limbs c)); Z.of_N (lenN (wc_colors c))] :: x) in H.
  apply concat_r_cons in H. destruct H as [e1 [r1 [H1 [H ->]]]].
  apply concat_r_cons in H. destruct H as [e2 [r2 [H2 [H ->]]]].
  apply concat_r_cons in H. destruct H as [e3 [r3 [H3 [H ->]]]].
  apply concat_r_app in H. destruct H as [e4 [r4 [H4 [H ->]]]].
  apply concat_r_app in H. destruct H as [e5 [e6 [H5 [H6 ->]]]].
  apply concat_r_map in H4. destruct H4 as [es4 [HF4 ->]].
  apply concat_r_map in H5. destruct H5 as [es5 [HF5 ->]].
  apply concat_r_map in H6. destruct H6 as [es6 [HF6 ->]].
  unfold component_fields, canon_comp. cbn [c_name c_format c_points c_limbs c_colors].
  apply (enc_fields_app [_]); [apply enc_fields_one, spec_string, H1|].
  apply (enc_fields_app [_]); [apply enc_fields_one, spec_string, H2|].
  apply (enc_fields_app [_; _; _]).
  { pose proof (spec_u16s _ _ H3) as H. cbn [map] in H. rewrite !ZN_lenN in H.
    unfold lenN in *. rewrite !map_length. exact H. }
  apply enc_fields_app; [now apply spec_strings|].
  apply enc_fields_app; [now apply spec_limbs|now apply spec_colors].
Qed.
Lemma spec_components comps es : Forall2 (fun c e' => write_component c = Ok e') comps es ->
  enc_fields (flat_map component_fields (map canon_comp comps)) = Some (concat es).
Proof. induction 1 as [|c e comps es Hc _ IH]; [reflexivity|]. cbn [map flat_map concat].
  apply enc_fields_app; [now apply spec_component|exact IH]. Qed.

Lemma spec_header p h : write_header (w_dims p) (w_comps p) = Ok h -> enc_fields (header_fields (canon_header p)) = Some h.
Proof.
  unfold write_header. intros H.
  change ([Ok (enc_u32 version_word); write_dims (w_dims p); pack_u16s [Z.of_N (lenN (w_comps p))]] ++ ?x)
    with (Ok (enc_u32 version_word) :: write_dims (w_dims p) :: pack_u16s [Z.of_N (lenN (w_comps p))] :: x) in H.
  apply concat_r_cons in H. destruct H as [e1 [r1 [H1 [H ->]]]]. injection H1 as <-.
  apply concat_r_cons in H. destruct H as [e2 [r2 [H2 [H ->]]]].
  apply concat_r_cons in H. destruct H as [e3 [r3 [H3 [H ->]]]].
  apply concat_r_map in H. destruct H as [es [HF ->]].
  unfold canon_header. destruct (w_dims p) as [[w hh] d]. unfold write_dims in H2.
  destruct (u16_ok w && u16_ok hh && u16_ok d); [|discriminate].
  unfold header_fields. cbn [h_dims h_version h_comps].
  apply (enc_fields_app [_]); [apply enc_fields_one; cbn [enc_field]; apply le4, version_word_lt|].
  apply (enc_fields_app [_; _; _]); [exact (spec_u16s [w; hh; d] e2 H2)|].
  apply (enc_fields_app [_]).
  { pose proof (spec_u16s _ _ H3) as H. cbn [map] in H. rewrite ZN_lenN in H. unfold lenN in *. rewrite map_length. exact H. }
  now apply spec_components.
Qed.

Lemma spec_floats ws : Forall (fun n => n < 4294967296) ws -> enc_fields (map FFloat ws) = Some (flat_map enc_u32 ws).
Proof. induction 1 as [|w ws Hw _ IH]; [reflexivity|]. cbn [map enc_fields flat_map enc_field]. now rewrite (le4 _ Hw), IH. Qed.

Lemma spec_body p b F P T D : w_shape p = [F; P; T; D] -> write_body p = Ok b -> enc_fields (body_fields (canon_body p)) = Some b.
Proof.
  intros Hs H. unfold write_body in H. rewrite Hs in H.
  destruct (N.ltb_spec 4294967295 F) as [|HF]; [discriminate|].
  destruct (pack_f32 (w_fps p)) as [fw|] eqn:Hfps; [|discriminate].
  destruct (N.ltb_spec 65535 P) as [|HP]; [discriminate|]. apply Ok_inj in H. subst b.
  unfold body_fields, canon_body. cbn [b_fps b_shape b_data b_conf]. rewrite Hfps, Hs. cbn [nth].
  apply (enc_fields_app [_]); [apply enc_fields_one; cbn [enc_field]; apply le4; now apply pack_f32_lt in Hfps|].
  apply (enc_fields_app [_]); [apply enc_fields_one; cbn [enc_field]; apply le4; lia|].
  apply (enc_fields_app [_]); [apply enc_fields_one; cbn [enc_field]; apply le2; lia|].
  rewrite <- (flat_map_map f64_to_f32 enc_u32 (w_data p)), <- (flat_map_map f64_to_f32 enc_u32 (w_conf p)).
  apply enc_fields_app; apply spec_floats, words_lt.
Qed.

Theorem writer_matches_spec p bs : write_pose p = Ok bs -> spec_encode (canon p) = Some bs.
Proof.
  intros H. destruct (write_pose_ok _ _ H) as [F [P [T [D [h [b [Hs [Hcs [Hnd [Htp [Hh [Hb ->]]]]]]]]]]]].
  unfold spec_encode, canon. cbn [p_header p_body].
  apply enc_fields_app; [now apply spec_header|now apply (spec_body p b F P T D)].
Qed.
(* with C01: the reader decodes the spec encoder's output of every written pose's content to that content *)
Require Import PoseRead PoseReadLemmas.
Theorem reader_reads_spec_of_written legacy m p bs :
  MemoOK m -> write_pose p = Ok bs -> wf_arrays p -> 1 <= nth 3 (w_shape p) 0 ->
  exists sb, spec_encode (canon p) = Some sb /\ fst (read_bytes legacy m sb no_args) = Ok (canon p).
Proof. intros Hm H Hwf HD. exists bs. split; [now apply writer_matches_spec|now apply read_bytes_written]. Qed.
