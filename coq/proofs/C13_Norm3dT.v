(* C13 - the 3-D normaliser over the reals, part 3: the theorems about normalize_row / normalize3d. *)
From Coq Require Import Reals List Lra Lia Arith Bool Nsatz.
Require Import Num C13_Normalize C13_Norm3d C13_RBase C13_Norm3dP C13_Norm3dAlg.
Import ListNotations.
Open Scope R_scope.

(* ---------- the unit normal n0 / |n0| ---------- *)
Section Normal.
Variable n0 : rv.
Hypothesis Hn0 : sqn n0 <> 0.
Let N := rnorm n0.
Let n := rvdiv n0 N.
Lemma N_pos : 0 < N.
Proof. unfold N, norm. rsimp. apply sqrt_lt_R0. pose proof (sqn_nonneg n0). unfold sqn in *. lra. Qed.
Lemma N_sq : N * N = sqn n0.
Proof. unfold N, norm. rsimp. apply sqrt_sqrt. apply sqn_nonneg. Qed.
Lemma unit_normal : rdot n n = 1.
Proof. pose proof N_pos as Hp. pose proof N_sq as Hs. unfold n. clearbody N. unfold sqn in *. vsimp.
  replace (vx n0 / N * (vx n0 / N) + vy n0 / N * (vy n0 / N) + vz n0 / N * (vz n0 / N))
    with ((vx n0 * vx n0 + vy n0 * vy n0 + vz n0 * vz n0) / (N * N)) by (field; lra).
  rewrite Hs. field. rewrite <- Hs. nra. Qed.
Lemma normal_yz : vy n * vy n + vz n * vz n = (vy n0 * vy n0 + vz n0 * vz n0) / sqn n0.
Proof. pose proof N_pos as Hp. rewrite <- N_sq. unfold n. clearbody N. vsimp. field. lra. Qed.
Lemma normal_cross l : sqn (rcross l n) = sqn (rcross l n0) / sqn n0.
Proof. pose proof N_pos as Hp. rewrite <- N_sq. unfold n, sqn. clearbody N. vsimp. field. lra. Qed.
Lemma normal_dot w : rdot w n = rdot w n0 / N.
Proof. pose proof N_pos as Hp. unfold n. clearbody N. vsimp. field. lra. Qed.
End Normal.

Lemma normal3_eq A B C : normal3 A B C = rvdiv (plane_normal A B C) (rnorm (plane_normal A B C)).
Proof. reflexivity. Qed.
Lemma plane_normal_sim a t A B C :
  plane_normal (simv a t A) (simv a t B) (simv a t C) = rvscale (plane_normal A B C) (a * a).
Proof. unfold plane_normal, simv. vsimp. f_equal; ring. Qed.
Lemma normal3_sim a t A B C : 0 < a -> noncollinear A B C ->
  normal3 (simv a t A) (simv a t B) (simv a t C) = normal3 A B C.
Proof. intros Ha Hn. rewrite !normal3_eq, plane_normal_sim. set (n0 := plane_normal A B C) in *.
  pose proof (N_pos n0 Hn) as Hp. unfold norm. rewrite dot_scale. rsimp.
  rewrite sqrt_sq_scal_pos by (try apply (sqn_nonneg n0); nra).
  change (rsqrt (rdot n0 n0)) with (rnorm n0). set (N := rnorm n0) in *. clearbody N. vsimp. f_equal; field; split; nra. Qed.

(* ---------- one row ---------- *)
Section RowT.
Variable zrot : R -> R -> R * R.
Hypothesis Hz : zrot_spec zrot.
Variables (pl1 pl2 pl3 l1 l2 : nat) (size : R).
Notation nrow := (normalize_row R_ops zrot pl1 pl2 pl3 l1 l2 size).
Notation observed5 := (refs_observed pl1 pl2 pl3 l1 l2).

Section OneRow.
Variable r : list rp3.
Hypothesis Hobs : observed5 r.
Let A := c3 (rget3 r pl1). Let B := c3 (rget3 r pl2). Let C := c3 (rget3 r pl3).
Let L1 := c3 (rget3 r l1). Let L2 := c3 (rget3 r l2).
Hypothesis Hnx : normal_not_x A B C.
Hypothesis Hline : line_not_perp A B C L1 L2.
Let n := normal3 A B C.

Lemma Hnc : noncollinear A B C.
Proof. apply normal_not_x_noncollinear. exact Hnx. Qed.
Lemma n_unit : rdot n n = 1.
Proof. apply unit_normal. exact Hnc. Qed.
Lemma n_yz : vy n * vy n + vz n * vz n <> 0.
Proof. unfold n. rewrite normal3_eq, normal_yz by exact Hnc. pose proof Hnc as H0. unfold noncollinear in H0.
  intros E. apply Hnx. unfold Rdiv in E. apply Rmult_integral in E. destruct E as [E|E]; [exact E|].
  exfalso. revert E. apply Rinv_neq_0_compat. exact H0. Qed.
Lemma n_line : sqn (rcross (rvsub L2 L1) n) <> 0.
Proof. unfold n. rewrite normal3_eq, normal_cross by exact Hnc. pose proof Hnc as H0. unfold noncollinear in H0.
  intros E. apply Hline. unfold Rdiv in E. apply Rmult_integral in E. destruct E as [E|E]; [exact E|].
  exfalso. revert E. apply Rinv_neq_0_compat. exact H0. Qed.
Lemma cur_nz : rsqrt (rdot (line_image zrot A B C L1 L2) (line_image zrot A B C L1 L2)) <> 0.
Proof. rewrite line_image_d. pose proof (cur_pos zrot Hz A n L1 L2 n_unit n_yz n_line) as H. fold n. lra. Qed.
Lemma row_closed :
  nrow r = map (fun p => if m3 p then rmk true v0 else rmk false (out_pt zrot size A B C L1 L2 (c3 p))) r.
Proof. apply normalize_row_closed; [exact Hobs|exact cur_nz]. Qed.
Lemma row_point k : m3 (rget3 r k) = false ->
  rget3 (nrow r) k = rmk false (out_n zrot size A n L1 L2 (c3 (rget3 r k))).
Proof. intros Hk. rewrite row_closed, get3_map by exact Hk. rewrite Hk, out_pt_n. reflexivity. Qed.

Theorem row_mask_unchanged : map m3 (nrow r) = map m3 r.
Proof. rewrite row_closed, map_map. apply map_ext. intros p. destruct (m3 p); reflexivity. Qed.
Theorem row_post : 0 < size ->
  c3 (rget3 (nrow r) l1) = v0 /\
  vx (c3 (rget3 (nrow r) l2)) = 0 /\ vy (c3 (rget3 (nrow r) l2)) < 0 /\ rnorm (c3 (rget3 (nrow r) l2)) = size /\
  (coplanar A B C L1 -> vz (c3 (rget3 (nrow r) pl1)) = 0 /\ vz (c3 (rget3 (nrow r) pl2)) = 0 /\ vz (c3 (rget3 (nrow r) pl3)) = 0).
Proof. intros Hs. destruct Hobs as (H1 & H2 & H3 & H4 & H5). rewrite !row_point by assumption. cbn [c3].
  fold L1 L2 A B C. split; [apply out_n_L1|].
  destruct (out_n_L2_post zrot Hz size A n L1 L2 n_unit n_yz n_line Hs) as (E1 & E2 & E3).
  split; [exact E1|]. split; [exact E2|]. split; [exact E3|].
  intros Hco. rewrite !(out_n_z zrot size). unfold n. rewrite normal3_eq, !normal_dot by exact Hnc.
  unfold coplanar in Hco. set (n0 := plane_normal A B C) in *.
  assert (EA : rdot (rvsub A L1) n0 = 0) by (revert Hco; clearbody n0; vsimp; intros Hco; lra).
  assert (EB : rdot (rvsub B L1) n0 = 0).
  { assert (E : rdot (rvsub B A) n0 = 0) by (unfold n0, plane_normal; vsimp; ring).
    revert Hco E. clearbody n0. vsimp. intros Hco E. lra. }
  assert (EC : rdot (rvsub C L1) n0 = 0).
  { assert (E : rdot (rvsub C A) n0 = 0) by (unfold n0, plane_normal; vsimp; ring).
    revert Hco E. clearbody n0. vsimp. intros Hco E. lra. }
  rewrite EA, EB, EC. unfold Rdiv. req. split; [|split]; ring. Qed.
(* z of every observed point, for the refutation of rotation invariance *)
Lemma row_z k : m3 (rget3 r k) = false ->
  exists cur, 0 < cur /\
    cur * cur = (vy n * vy n + vz n * vz n) * sqn (rcross (rvsub L2 L1) n) + rdot (rvsub L2 L1) n * rdot (rvsub L2 L1) n /\
    vz (c3 (rget3 (nrow r) k)) = rdot (rvsub (c3 (rget3 r k)) L1) n * (size / cur).
Proof. intros Hk. exists (rsqrt (rdot (d_of zrot A n L1 L2) (d_of zrot A n L1 L2))).
  split; [apply (cur_pos zrot Hz A n L1 L2 n_unit n_yz n_line)|]. split.
  - rewrite (cur_sq zrot Hz A n L1 L2 n_unit n_yz n_line), (r_sq A n L1 L2 n_unit n_yz n_line), (vec_xy A n L1 L2 n_unit n_yz n_line).
    f_equal. unfold vec_of, frame. vsimp. ring.
  - rewrite row_point by exact Hk. cbn [c3]. apply out_n_z. Qed.
End OneRow.

(* ---------- translation and uniform positive scaling of a row ---------- *)
Definition sim3 (a : R) (t : rv) (r : list rp3) : list rp3 := map (fun p => rmk (m3 p) (simv a t (c3 p))) r.
Lemma get3_sim3 a t r k : m3 (rget3 r k) = false -> rget3 (sim3 a t r) k = rmk false (simv a t (c3 (rget3 r k))).
Proof. intros H. unfold sim3. rewrite get3_map by exact H. rewrite H. reflexivity. Qed.
Lemma d_of_sim a t A n L1 L2 : 0 < a ->
  vx (vec_of A n L1 L2) * vx (vec_of A n L1 L2) + vy (vec_of A n L1 L2) * vy (vec_of A n L1 L2) <> 0 ->
  d_of zrot (simv a t A) n (simv a t L1) (simv a t L2) = rvscale (d_of zrot A n L1 L2) a.
Proof. intros Ha Hv. unfold d_of, vec_of in *. cbv zeta. rewrite !frame_sim, vsub_scale. cbn [vx vy vscale]. rsimp.
  rewrite (zrot_scale zrot Hz) by assumption. rewrite !rotp_scale, vsub_scale. reflexivity. Qed.

Theorem row_translation_scale_invariant a t r : 0 < a -> observed5 r ->
  normal_not_x (c3 (rget3 r pl1)) (c3 (rget3 r pl2)) (c3 (rget3 r pl3)) ->
  line_not_perp (c3 (rget3 r pl1)) (c3 (rget3 r pl2)) (c3 (rget3 r pl3)) (c3 (rget3 r l1)) (c3 (rget3 r l2)) ->
  nrow (sim3 a t r) = nrow r.
Proof. intros Ha Hobs Hnx Hline. pose proof Hobs as (H1 & H2 & H3 & H4 & H5).
  set (A := c3 (rget3 r pl1)) in *. set (B := c3 (rget3 r pl2)) in *. set (C := c3 (rget3 r pl3)) in *.
  set (L1 := c3 (rget3 r l1)) in *. set (L2 := c3 (rget3 r l2)) in *.
  pose proof (Hnc r Hnx) as Hn. fold A B C in Hn.
  pose proof (n_unit r Hnx) as Hu. pose proof (n_yz r Hnx) as Hyz. pose proof (n_line r Hnx Hline) as Hl. fold A B C L1 L2 in Hu, Hyz, Hl.
  set (n := normal3 A B C) in *.
  pose proof (vec_xy_nz A n L1 L2 Hu Hyz Hl) as Hv.
  pose proof (cur_pos zrot Hz A n L1 L2 Hu Hyz Hl) as Hc.
  rewrite (row_closed r Hobs Hnx Hline). fold A B C L1 L2.
  assert (Hobs' : observed5 (sim3 a t r)) by (unfold refs_observed; rewrite !get3_sim3 by assumption; repeat split; reflexivity).
  rewrite normalize_row_closed; [|exact Hobs'|].
  - rewrite !get3_sim3 by assumption. cbn [c3]. fold A B C L1 L2. unfold sim3. rewrite map_map. apply map_ext. intros p.
    cbn [m3 c3]. destruct (m3 p); [reflexivity|]. f_equal. rewrite !out_pt_n, normal3_sim by assumption. fold n.
    apply (out_n_sim zrot Hz); [exact Ha|exact Hv|lra].
  - rewrite !get3_sim3 by assumption. cbn [c3]. fold A B C L1 L2. rewrite line_image_d, normal3_sim by assumption. fold n.
    rewrite d_of_sim by assumption. rewrite dot_scale. rewrite sqrt_sq_scal_pos by (try apply (sqn_nonneg (d_of zrot A n L1 L2)); lra).
    nra. Qed.
End RowT.
