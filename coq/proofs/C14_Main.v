(* C14 - the clauses of the property for whole bodies (every person, every point), over exact reals. *)
From Coq Require Import Reals List Arith Bool Lia Lra Sorted PrimFloat ZArith SpecFloat FloatOps.
Require Import Num Result C14_Count C14_Interp C14_Index C14_Grid C14_Lerp C14_Eval C14_Obs C14_Track C14_Body C14_CountP.
Import ListNotations.
Local Open Scope R_scope.

(* the three assumptions about SciPy's quadratic / cubic interp1d *)
Definition spline_ok (sp : spline_t) : Prop := spline_shape sp /\ spline_nodes sp /\ spline_poly sp.
(* "o is the result of interpolating b to new_fps with kind k, and it has n frames" *)
Definition interpolated (sp : spline_t) (b : bodyR) (new_fps : option float) (k : kind) (o : outR) (n : nat) : Prop :=
  wf_body b /\ interpolate R_ops sp b new_fps k = Ok o /\
  new_frame_count (frames_of b) (target b new_fps) (b_fps R_ops b) = Ok n.
Definition in_body (b : bodyR) (p t : nat) : Prop := (p < b_people R_ops b)%nat /\ (t < b_points R_ops b)%nat.
Definition seen (b : bodyR) (i p t : nat) : Prop := (i < frames_of b)%nat /\ observedR (in_row b i p t) = true.
Definition width (b : bodyR) : nat := S (b_dims R_ops b).

Section Main.
Variable sp : spline_t.
Hypothesis Hsp : spline_ok sp.
Variables (b : bodyR) (new_fps : option float) (k : kind) (o : outR) (n : nat).
Hypothesis Hi : interpolated sp b new_fps k o n.
Variables (p t : nat).
Hypothesis Hpt : in_body b p t.
Local Notation F := (frames_of b).
Local Notation rows := (track R_ops b p t).

Lemma rows_wf : wf_rows (width b) F rows.
Proof. destruct Hi as [Hwf _]. destruct Hpt. apply track_wf; assumption. Qed.
Lemma row_eq j : (j < n)%nat -> out_row o j p t = nth j (track_out sp k (width b) F n rows) [] /\
                               out_mask o j p t = Reqb (out_conf o j p t) 0.
Proof. intros Hj. destruct Hsp as [Hs _]. destruct Hi as [Hwf [Ho Hn]]. destruct Hpt.
  apply (interpolate_row sp Hs b new_fps k Hwf o n j p t); assumption. Qed.
Lemma conf_of_out_row j : confR (out_row o j p t) = out_conf o j p t.
Proof. unfold confR, conf_of, out_row. apply last_last. Qed.

(* SUPPORT *)
Theorem support_body j : (j < n)%nat ->
  (forall i, seen b i p t -> t_new n j < t_old F i) \/ (forall i, seen b i p t -> t_old F i < t_new n j) ->
  out_row o j p t = zrow (width b) /\ out_conf o j p t = 0 /\ out_mask o j p t = true.
Proof. intros Hj Hside. destruct (row_eq j Hj) as [Er Em].
  assert (Ez : out_row o j p t = zrow (width b)).
  { rewrite Er. apply (track_support sp k (width b) F n rows rows_wf j Hj).
    destruct Hside as [H|H]; [left|right]; intros i Hi' Ho; apply H; split; assumption. }
  assert (Ec : out_conf o j p t = 0) by (rewrite <- conf_of_out_row, Ez; apply zrow_conf).
  split; [exact Ez|]. split; [exact Ec|]. rewrite Em, Ec. apply Reqb_true. reflexivity. Qed.

(* a new sample that coincides in time with an observed frame returns that frame unchanged and unmasked *)
Theorem node_body j i : (j < n)%nat -> seen b i p t -> t_new n j = t_old F i ->
  out_row o j p t = in_row b i p t /\ out_mask o j p t = false.
Proof. intros Hj [Hi' Ho] Et. destruct (row_eq j Hj) as [Er Em]. destruct Hsp as [_ [Hn _]].
  assert (E : out_row o j p t = in_row b i p t).
  { rewrite Er. apply (track_node sp Hn k (width b) F n rows rows_wf j i Hj Hi' Ho Et). }
  split; [exact E|]. rewrite Em, <- conf_of_out_row, E. apply Reqb_false. apply observedR_iff. exact Ho. Qed.

(* IDENTITY at an unchanged rate: when the new frame count is the old one, observed points are unchanged *)
Theorem identity_body i : n = F -> seen b i p t -> out_row o i p t = in_row b i p t /\ out_mask o i p t = false.
Proof. intros En Hs. apply node_body; [destruct Hs; lia|exact Hs|]. unfold t_new, t_old. rewrite En. reflexivity. Qed.

(* ENDS: the first and last new frames are at the times of the first and last old frames ... *)
Theorem ends_times : (2 <= F)%nat -> (2 <= n)%nat ->
  t_new n 0 = t_old F 0 /\ t_new n (n - 1) = t_old F (F - 1) /\ t_new n 0 = 0 /\ t_new n (n - 1) = 1.
Proof. intros HF Hn. unfold t_new, t_old. rewrite !grid_first, !grid_last by lia. auto. Qed.
(* ... and a point observed there keeps its first / last row, whatever the kind *)
Theorem ends_body : (2 <= F)%nat ->
  ((1 <= n)%nat -> seen b 0 p t -> out_row o 0 p t = in_row b 0 p t /\ out_mask o 0 p t = false) /\
  ((2 <= n)%nat -> seen b (F - 1) p t -> out_row o (n - 1) p t = in_row b (F - 1) p t /\ out_mask o (n - 1) p t = false).
Proof. intros HF. split; intros Hn Hs; (apply node_body; [lia|exact Hs|]); unfold t_new, t_old.
  - rewrite !grid_first by lia. reflexivity.
  - rewrite !grid_last by lia. reflexivity. Qed.

(* AFFINE *)
Theorem affine_body c a b0 j i1 i2 : (c < width b)%nat -> (j < n)%nat ->
  (forall i, seen b i p t -> col c (in_row b i p t) = a * t_old F i + b0) ->
  seen b i1 p t -> t_old F i1 <= t_new n j -> seen b i2 p t -> t_new n j <= t_old F i2 ->
  col c (out_row o j p t) = a * t_new n j + b0.
Proof. intros Hc Hj Ha [Hi1 Ho1] H1 [Hi2 Ho2] H2. destruct (row_eq j Hj) as [Er _]. rewrite Er.
  destruct Hsp as [_ [Hn Hp]].
  apply (track_affine sp Hp k (width b) F n rows rows_wf c a b0 j i1 i2); try assumption.
  intros i Hi' Ho. apply Ha. split; assumption. Qed.

(* LINEAR IN RANGE *)
Theorem linear_in_range_body c j i1' i2' : k = Linear -> (c < width b)%nat -> (j < n)%nat ->
  seen b i1' p t -> t_old F i1' <= t_new n j -> seen b i2' p t -> t_new n j <= t_old F i2' ->
  exists i1 i2, seen b i1 p t /\ seen b i2 p t /\
    (forall i, (i1 < i < i2)%nat -> observedR (in_row b i p t) = false) /\
    t_old F i1 <= t_new n j <= t_old F i2 /\
    Rmin (col c (in_row b i1 p t)) (col c (in_row b i2 p t)) <= col c (out_row o j p t)
      <= Rmax (col c (in_row b i1 p t)) (col c (in_row b i2 p t)).
Proof. intros Hk Hc Hj [Hi1 Ho1] H1 [Hi2 Ho2] H2. destruct (row_eq j Hj) as [Er _]. rewrite Er.
  destruct (track_linear_in_range sp k (width b) F n rows rows_wf c j i1' i2' Hk Hc Hj Hi1 Ho1 H1 Hi2 Ho2 H2)
    as [i1 [i2 [A1 [A2 [A3 [A4 [A5 [[A6 A6'] [A7 A7']]]]]]]]].
  exists i1, i2. unfold seen, in_row. repeat split; assumption. Qed.
End Main.

(* FRAME COUNT: shape and rate of the result; the count is Python's round() of the binary64 quotient *)
Theorem frame_count_body sp b new_fps k o : interpolate R_ops sp b new_fps k = Ok o ->
  exists n, new_frame_count (frames_of b) (target b new_fps) (b_fps R_ops b) = Ok n /\
    o_fps R_ops o = target b new_fps /\
    length (o_data R_ops o) = n /\ length (o_conf R_ops o) = n /\ length (o_mask R_ops o) = n /\
    (forall j, (j < n)%nat -> length (nth j (o_data R_ops o) []) = b_people R_ops b /\ length (nth j (o_conf R_ops o) []) = b_people R_ops b /\
       forall p, (p < b_people R_ops b)%nat -> length (nth p (nth j (o_data R_ops o) []) []) = b_points R_ops b /\
                                               length (nth p (nth j (o_conf R_ops o) []) []) = b_points R_ops b).
Proof. intros H. destruct (interpolate_shape sp b new_fps k o H) as [n [H1 [_ [H2 [H3 [H4 [H5 H6]]]]]]].
  exists n. repeat split; try assumption; apply H6; assumption. Qed.
Theorem frame_count_rounding F new old n : new_frame_count F new old = Ok n ->
  PrimFloat.eqb old 0 = false /\
  match Prim2SF (count_quotient F new old) with
  | S754_zero _ => n = 0%nat
  | S754_finite s m e => exists z, nearest_even m e z /\ Z.of_nat n = (if s then - z else z)%Z
  | _ => False
  end.
Proof. intros H. destruct (new_frame_count_ok F new old n H) as [H0 [z [Hr [Hz ->]]]]. split; [exact H0|].
  pose proof (py_round_finite _ z Hr) as Hf. destruct (Prim2SF (count_quotient F new old)); try contradiction.
  - subst z. reflexivity.
  - destruct Hf as [z' [Hn Ez]]. exists z'. split; [exact Hn|]. rewrite Z2Nat.id by exact Hz. exact Ez. Qed.

(* interp1d is never asked for a value outside its range: the bounds error needs no branch in the model *)
Theorem no_bounds_error w F n rows : wf_rows w F rows -> (1 <= length (compress R_ops (gridR F) rows))%nat ->
  let obs := compress R_ops (gridR F) rows in
  forall x, In x (slice (first_index R_ops (first_x obs) (gridR n)) (last_index R_ops (last_x obs) (gridR n)) (gridR n)) ->
    first_x obs <= x <= last_x obs.
Proof. intros Hwf Hl obs x Hin.
  apply (no_bounds_error_obs (gridR n) (grid_sorted n) obs (obs_sorted w F rows Hwf) Hl x Hin). Qed.
