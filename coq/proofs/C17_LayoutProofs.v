(* C17 - proofs of the discrete part: output size accounting and block layout of the assembled
   PoseRepresentation.  No reals; everything here is closed under the global context. *)
From Coq Require Import List Arith Bool Lia.
Require Import C17_Layout.
Import ListNotations.

Definition sum_nat (l : list nat) : nat := fold_right Nat.add 0 l.
Lemma nth_map_d {A B} (f : A -> B) l i da db : i < length l -> nth i (map f l) db = f (nth i l da).
Proof. intros H. rewrite (nth_indep _ db (f da)) by (rewrite map_length; exact H). apply map_nth. Qed.

(* ---------------------------------------------------------------- header index lists *)
Lemma limbs_from_length h : forall idx, length (limbs_from idx h) = total_limbs h.
Proof.
  induction h as [|c r IH]; intros idx; [reflexivity|].
  cbn [limbs_from]. rewrite app_length, map_length, IH. reflexivity.
Qed.
Lemma limb_points_length h : length (limb_points h) = total_limbs h.
Proof. apply limbs_from_length. Qed.

(* limb j of component ci sits at position limbs_before h ci + j and names the points
   a + (points before the component), b + (points before the component) *)
Lemma limbs_from_nth h : forall idx ci j dc,
  ci < length h -> j < length (c_limbs (nth ci h dc)) ->
  nth (limbs_before h ci + j) (limbs_from idx h) (0, 0) =
    (fst (nth j (c_limbs (nth ci h dc)) (0, 0)) + (idx + points_before h ci),
     snd (nth j (c_limbs (nth ci h dc)) (0, 0)) + (idx + points_before h ci)).
Proof.
  induction h as [|c r IH]; intros idx ci j dc Hci Hj; [cbn in Hci; lia|].
  destruct ci as [|ci].
  - cbn [nth] in Hj |- *. unfold limbs_before, points_before. cbn [firstn map fold_right input_size].
    cbn [limbs_from]. rewrite app_nth1 by (rewrite map_length; exact Hj).
    rewrite (nth_map_d _ _ _ (0, 0)) by exact Hj. cbn [fst snd]. rewrite Nat.add_0_r. reflexivity.
  - cbn [nth] in Hj |- *. cbn [length] in Hci.
    unfold limbs_before, points_before, input_size. cbn [firstn map fold_right].
    fold (input_size (firstn ci r)). fold (points_before r ci).
    change (fold_right Nat.add 0 (map (fun c0 : comp => length (c_limbs c0)) (firstn ci r))) with (limbs_before r ci).
    cbn [limbs_from]. rewrite app_nth2 by (rewrite map_length; lia).
    rewrite map_length. replace (length (c_limbs c) + limbs_before r ci + j - length (c_limbs c)) with (limbs_before r ci + j) by lia.
    rewrite (IH (idx + c_points c) ci j dc) by lia.
    f_equal; lia.
Qed.
Lemma limb_points_nth h ci j dc :
  ci < length h -> j < length (c_limbs (nth ci h dc)) ->
  nth (limbs_before h ci + j) (limb_points h) (0, 0) =
    (fst (nth j (c_limbs (nth ci h dc)) (0, 0)) + points_before h ci,
     snd (nth j (c_limbs (nth ci h dc)) (0, 0)) + points_before h ci).
Proof. intros Hci Hj. unfold limb_points. rewrite (limbs_from_nth h 0 ci j dc Hci Hj). reflexivity. Qed.
Lemma limbs_before_lt h : forall ci j dc, ci < length h -> j < length (c_limbs (nth ci h dc)) ->
  limbs_before h ci + j < total_limbs h.
Proof.
  induction h as [|c r IH]; intros ci j dc Hci Hj; [cbn in Hci; lia|].
  destruct ci as [|ci]; unfold limbs_before, total_limbs; cbn [firstn map fold_right nth] in *.
  - lia.
  - specialize (IH ci j dc). unfold limbs_before, total_limbs in IH. cbn [length] in Hci. lia.
Qed.

(* end points of well-formed headers are points of the pose *)
Lemma limbs_from_range h : forall idx, wf_header h ->
  Forall (fun ab => fst ab < idx + input_size h /\ snd ab < idx + input_size h) (limbs_from idx h).
Proof.
  induction h as [|c r IH]; intros idx Hwf; [constructor|].
  inversion Hwf as [|c' r' Hc Hr]; subst. cbn [limbs_from]. apply Forall_app; split.
  - apply Forall_forall. intros ab Hin. apply in_map_iff in Hin. destruct Hin as [xy [<- Hxy]].
    unfold wf_comp in Hc. rewrite Forall_forall in Hc. specialize (Hc _ Hxy). unfold input_size. cbn [fst snd map fold_right].
    fold (input_size r). lia.
  - specialize (IH (idx + c_points c) Hr). eapply Forall_impl; [|exact IH].
    intros ab H. cbn beta in H. unfold input_size. cbn [map fold_right]. fold (input_size r). lia.
Qed.

(* ---------------------------------------------------------------- chains *)
Lemma chains_spec ls p1 p2 p3 : In (p1, p2, p3) (chains ls) <-> In (p1, p2) ls /\ In (p2, p3) ls.
Proof.
  unfold chains. rewrite in_flat_map. split.
  - intros [l1 [H1 H]]. rewrite in_flat_map in H. destruct H as [l2 [H2 H]].
    destruct (Nat.eqb_spec (snd l1) (fst l2)) as [E|NE]; [|contradiction].
    destruct H as [H|[]]. injection H as <- <- <-. split; [destruct l1; exact H1|].
    rewrite E. destruct l2; exact H2.
  - intros [H1 H2]. exists (p1, p2). split; [exact H1|]. rewrite in_flat_map. exists (p2, p3). split; [exact H2|].
    cbn [fst snd]. rewrite Nat.eqb_refl. left. reflexivity.
Qed.
Lemma chains_range ls (Q : nat -> Prop) : Forall (fun ab => Q (fst ab) /\ Q (snd ab)) ls ->
  Forall (fun x => Q (fst (fst x)) /\ Q (snd (fst x)) /\ Q (snd x)) (chains ls).
Proof.
  intros H. rewrite Forall_forall in *. intros [[p1 p2] p3] Hin. apply chains_spec in Hin. destruct Hin as [H1 H2].
  pose proof (H _ H1) as [A B]. pose proof (H _ H2) as [_ C]. cbn [fst snd] in *. tauto.
Qed.
(* number of triples = number of ordered limb pairs (i, j) with end(i) = start(j) *)
Lemma chains_length_gen (outer ls : list (nat * nat)) :
  length (flat_map (fun l1 => flat_map (fun l2 => if snd l1 =? fst l2 then [(fst l1, snd l1, snd l2)] else []) ls) outer) =
  sum_nat (map (fun l1 => length (filter (fun l2 => snd l1 =? fst l2) ls)) outer).
Proof.
  induction outer as [|l1 r IH]; [reflexivity|].
  cbn [flat_map map sum_nat fold_right]. rewrite app_length. fold (sum_nat (map (fun l0 => length (filter (fun l2 => snd l0 =? fst l2) ls)) r)).
  rewrite <- IH. f_equal. clear. induction ls as [|l2 q IHq]; [reflexivity|].
  cbn [flat_map filter]. destruct (snd l1 =? fst l2); cbn [app length]; rewrite IHq; reflexivity.
Qed.
Lemma chains_length ls :
  length (chains ls) = sum_nat (map (fun l1 => length (filter (fun l2 => snd l1 =? fst l2) ls)) ls).
Proof. apply chains_length_gen. Qed.

(* ---------------------------------------------------------------- constructor *)
Lemma mk_repr_some_iff h k1 k2 k3 :
  (exists r, mk_repr h k1 k2 k3 = Some r) <-> chains (limb_points h) <> [].
Proof.
  unfold mk_repr. split.
  - intros [r H]. destruct (header_dims h); [|discriminate]. destruct (limb_points h) eqn:E; [discriminate|].
    destruct (chains (p :: l)); [discriminate|]. discriminate.
  - intros H. destruct h as [|c r].
    + exfalso. apply H. reflexivity.
    + cbn [header_dims]. destruct (limb_points (c :: r)) eqn:E; [exfalso; apply H; reflexivity|].
      destruct (chains (p :: l)) eqn:E2; [exfalso; apply H; reflexivity|]. eexists. reflexivity.
Qed.
Lemma mk_repr_fields h k1 k2 k3 r : mk_repr h k1 k2 k3 = Some r ->
  r_input r = input_size h /\ header_dims h = Some (r_dims r) /\ r_limbs r = limb_points h /\
  r_tris r = chains (limb_points h) /\ r_k1 r = k1 /\ r_k2 r = k2 /\ r_k3 r = k3 /\ chains (limb_points h) <> [].
Proof.
  unfold mk_repr. destruct (header_dims h) as [d|]; [|discriminate].
  destruct (limb_points h) as [|p l] eqn:E; [discriminate|].
  destruct (chains (p :: l)) as [|x tr] eqn:E2; [discriminate|].
  intros [= <-]. cbn. repeat split; try reflexivity. discriminate.
Qed.

(* ---------------------------------------------------------------- concatenation of embeds *)
Section Cat.
Variable Y : Type.
Variable dy : Y.
Definition offset (es : list (embed Y)) (i : nat) : nat := sum_nat (map e_size (firstn i es)).
Definition total (es : list (embed Y)) : nat := sum_nat (map e_size es).

Lemma cat0_size es : e_size (cat0 Y dy es) = total es.
Proof.
  induction es as [|a r IH]; [reflexivity|].
  unfold total, cat0 in *. cbn [fold_right map sum_nat]. unfold cat2 at 1. cbn [e_size]. rewrite IH. reflexivity.
Qed.
Lemma cat0_at es : forall i e b l d0, i < length es -> e < e_size (nth i es d0) ->
  e_at (cat0 Y dy es) (offset es i + e) b l = e_at (nth i es d0) e b l.
Proof.
  induction es as [|a r IH]; intros i e b l d0 Hi He; [cbn in Hi; lia|].
  destruct i as [|i].
  - cbn [nth] in He. unfold offset, cat0. cbn [firstn map sum_nat fold_right nth]. unfold cat2 at 1. cbn [e_at].
    destruct (Nat.ltb_spec (0 + e) (e_size a)) as [_|H]; [reflexivity|lia].
  - cbn [nth] in He |- *. cbn [length] in Hi.
    assert (Ho : offset (a :: r) (S i) = e_size a + offset r i) by reflexivity. rewrite Ho.
    unfold cat0. cbn [fold_right]. fold (cat0 Y dy r). unfold cat2 at 1. cbn [e_at e_size].
    destruct (Nat.ltb_spec (e_size a + offset r i + e) (e_size a)) as [H|_]; [lia|].
    replace (e_size a + offset r i + e - e_size a) with (offset r i + e) by lia.
    apply IH; [lia|exact He].
Qed.
Lemma offset_app_l (a b : list (embed Y)) i : i <= length a -> offset (a ++ b) i = offset a i.
Proof. intros H. unfold offset. rewrite firstn_app. replace (i - length a) with 0 by lia. cbn [firstn]. rewrite app_nil_r. reflexivity. Qed.
Lemma offset_app_r (a b : list (embed Y)) j : offset (a ++ b) (length a + j) = total a + offset b j.
Proof.
  unfold offset, total. rewrite firstn_app. rewrite firstn_all2 by lia. replace (length a + j - length a) with j by lia.
  rewrite map_app. generalize (map e_size a) (map e_size (firstn j b)). intros u v. induction u as [|x u IH]; cbn [app sum_nat fold_right]; [reflexivity|].
  fold (sum_nat (u ++ v)). fold (sum_nat u). rewrite IH. lia.
Qed.
Lemma offset_const (es : list (embed Y)) s i : Forall (fun e => e_size e = s) es -> i <= length es -> offset es i = i * s.
Proof.
  revert i. induction es as [|a r IH]; intros i Hall Hi.
  - cbn in Hi. replace i with 0 by lia. reflexivity.
  - inversion Hall as [|a' r' Ha Hr]; subst. destruct i as [|i]; [reflexivity|].
    unfold offset. cbn [firstn map sum_nat fold_right]. fold (sum_nat (map e_size (firstn i r))). fold (offset r i).
    rewrite (IH i Hr) by (cbn in Hi; lia). cbn [Nat.mul]. reflexivity.
Qed.
Lemma total_const (es : list (embed Y)) s : Forall (fun e => e_size e = s) es -> total es = length es * s.
Proof.
  intros H. rewrite <- (offset_const es s (length es) H (le_n _)). unfold offset. rewrite firstn_all. reflexivity.
Qed.
Lemma total_app (a b : list (embed Y)) : total (a ++ b) = total a + total b.
Proof.
  pose proof (offset_app_r a b (length b)) as H. unfold offset in H. rewrite firstn_all in H.
  rewrite <- app_length in H. rewrite firstn_all in H. exact H.
Qed.
End Cat.

(* ---------------------------------------------------------------- __call__ *)
Section CallProofs.
Variables X Y : Type.
Variable dy : Y.
Variable h : header.
Variable r : repr.
Variables (m1s : list (list X -> list Y)) (m2s : list (list X -> list X -> Y)) (m3s : list (list X -> list X -> list X -> Y)).
Hypothesis Hr : mk_repr h (length m1s) (length m2s) (length m3s) = Some r.
Variable D : nat.
Hypothesis HD : header_dims h = Some D.      (* one channel per letter of the point format *)
Variable src : t4 X.
Let P := input_size h.
Let NL := total_limbs h.
Let NT := length (chains (limb_points h)).
Let points := permute_2013 X src.
Let e1 := map (fun m => apply1 X Y dy P D m points) m1s.
Let e2 := map (fun m => apply2 X Y (length (map fst (r_limbs r))) m (get_points X points (map fst (r_limbs r)))
                               (get_points X points (map snd (r_limbs r)))) m2s.
Let e3 := map (fun m => apply3 X Y (length (map (fun x => fst (fst x)) (r_tris r))) m
                               (get_points X points (map (fun x => fst (fst x)) (r_tris r)))
                               (get_points X points (map (fun x => snd (fst x)) (r_tris r)))
                               (get_points X points (map snd (r_tris r)))) m3s.

Lemma r_facts : r_input r = P /\ r_dims r = D /\ r_limbs r = limb_points h /\ r_tris r = chains (limb_points h) /\
  r_k1 r = length m1s /\ r_k2 r = length m2s /\ r_k3 r = length m3s.
Proof.
  destruct (mk_repr_fields _ _ _ _ _ Hr) as (A & B & C & E & F & G & I & _). rewrite HD in B. injection B as B.
  repeat split; auto.
Qed.
Lemma e1_sizes : Forall (fun e => e_size e = P * D) e1.
Proof. unfold e1. apply Forall_forall. intros e Hin. apply in_map_iff in Hin. destruct Hin as [m [<- _]]. reflexivity. Qed.
Lemma e2_sizes : Forall (fun e => e_size e = NL) e2.
Proof.
  unfold e2. apply Forall_forall. intros e Hin. apply in_map_iff in Hin. destruct Hin as [m [<- _]]. cbn [apply2 e_size].
  destruct r_facts as (_ & _ & C & _). rewrite C, map_length. apply limb_points_length.
Qed.
Lemma e3_sizes : Forall (fun e => e_size e = NT) e3.
Proof.
  unfold e3. apply Forall_forall. intros e Hin. apply in_map_iff in Hin. destruct Hin as [m [<- _]]. cbn [apply3 e_size].
  destruct r_facts as (_ & _ & _ & E & _). rewrite E, map_length. reflexivity.
Qed.
Lemma total_e : total Y (e1 ++ e2 ++ e3) = length m1s * (P * D) + length m2s * NL + length m3s * NT.
Proof.
  rewrite !total_app, (total_const Y e1 _ e1_sizes), (total_const Y e2 _ e2_sizes), (total_const Y e3 _ e3_sizes).
  unfold e1, e2, e3. rewrite !map_length. lia.
Qed.

(* advertised size in terms of the header *)
Lemma output_size_header :
  output_size r = length m1s * (input_size h * D) + length m2s * total_limbs h + length m3s * length (chains (limb_points h)).
Proof.
  destruct r_facts as (A & B & C & E & F & G & I). unfold output_size. rewrite A, B, C, E, F, G, I, limb_points_length. reflexivity.
Qed.

Hypothesis Hwf : wf_header h.
Hypothesis Hmods : length m1s + length m2s + length m3s > 0.

Lemma limbs_in_range : in_range P (map fst (r_limbs r)) = true /\ in_range P (map snd (r_limbs r)) = true.
Proof.
  destruct r_facts as (_ & _ & C & _). rewrite C. pose proof (limbs_from_range h 0 Hwf) as H. fold (limb_points h) in H.
  unfold in_range. rewrite !forallb_forall. split; intros i Hin; apply in_map_iff in Hin; destruct Hin as [ab [<- Hab]];
    rewrite Forall_forall in H; specialize (H _ Hab); apply Nat.ltb_lt; unfold P; lia.
Qed.
Lemma tris_in_range : in_range P (map (fun x => fst (fst x)) (r_tris r)) = true /\
  in_range P (map (fun x => snd (fst x)) (r_tris r)) = true /\ in_range P (map snd (r_tris r)) = true.
Proof.
  destruct r_facts as (_ & _ & _ & E & _). rewrite E. pose proof (limbs_from_range h 0 Hwf) as H. fold (limb_points h) in H.
  pose proof (chains_range _ (fun i => i < 0 + input_size h) H) as H3. rewrite Forall_forall in H3.
  unfold in_range. rewrite !forallb_forall. repeat split; intros i Hin; apply in_map_iff in Hin; destruct Hin as [x [<- Hx]];
    specialize (H3 _ Hx); apply Nat.ltb_lt; unfold P; cbn beta in H3; lia.
Qed.

(* the call does not raise, and returns exactly the advertised number of features *)
Lemma call_defined :
  call X Y dy r P D m1s m2s m3s src = Some (output_size r, group Y (cat0 Y dy (e1 ++ e2 ++ e3))).
Proof.
  unfold call. fold points. fold e1. fold e2. fold e3.
  destruct limbs_in_range as [L1 L2]. destruct tris_in_range as (T1 & T2 & T3). rewrite L1, L2, T1, T2, T3.
  assert (Hok : (match m2s with [] => true | _ :: _ => true && true end && match m3s with [] => true | _ :: _ => true && true && true end) = true)
    by (destruct m2s, m3s; reflexivity).
  rewrite Hok.
  destruct (e1 ++ e2 ++ e3) eqn:E.
  - exfalso. apply (f_equal (@length _)) in E. rewrite !app_length in E. unfold e1, e2, e3 in E. rewrite !map_length in E. cbn in E. lia.
  - rewrite <- E. rewrite cat0_size, total_e, output_size_header. reflexivity.
Qed.

Let out := group Y (cat0 Y dy (e1 ++ e2 ++ e3)).
Let d0 : embed Y := mkE 0 (fun _ _ _ => dy).

Lemma layout_points i p d b l dm : i < length m1s -> p < P -> d < D ->
  out b l (i * (P * D) + (p * D + d)) = nth d (nth i m1s dm (src b l p)) dy.
Proof.
  intros Hi Hp Hd. unfold out, group.
  assert (Hlen : i < length (e1 ++ e2 ++ e3)) by (rewrite app_length; unfold e1; rewrite map_length; lia).
  assert (Hnth : nth i (e1 ++ e2 ++ e3) d0 = apply1 X Y dy P D (nth i m1s dm) points).
  { rewrite app_nth1 by (unfold e1; rewrite map_length; exact Hi). unfold e1.
    apply (nth_map_d (fun m => apply1 X Y dy P D m points)). exact Hi. }
  assert (Hoff : offset Y (e1 ++ e2 ++ e3) i = i * (P * D)).
  { rewrite offset_app_l by (unfold e1; rewrite map_length; lia). apply offset_const; [exact e1_sizes|unfold e1; rewrite map_length; lia]. }
  rewrite <- Hoff. rewrite (cat0_at Y dy _ i (p * D + d) b l d0 Hlen).
  - rewrite Hnth. cbn [apply1 e_at]. rewrite Nat.div_add_l by lia. rewrite Nat.div_small by exact Hd.
    rewrite Nat.add_comm, Nat.mod_add by lia. rewrite Nat.mod_small by exact Hd. rewrite Nat.add_0_r. reflexivity.
  - rewrite Hnth. cbn [apply1 e_size]. nia.
Qed.

Lemma layout_limbs i q b l dm : i < length m2s -> q < NL ->
  out b l (length m1s * (P * D) + i * NL + q) =
    nth i m2s dm (src b l (fst (nth q (limb_points h) (0, 0)))) (src b l (snd (nth q (limb_points h) (0, 0)))).
Proof.
  intros Hi Hq. unfold out, group.
  assert (L1 : length e1 = length m1s) by (unfold e1; apply map_length).
  assert (L2 : length e2 = length m2s) by (unfold e2; apply map_length).
  assert (Hlen : length e1 + i < length (e1 ++ e2 ++ e3)) by (rewrite !app_length; lia).
  set (ap := fun m => apply2 X Y (length (map fst (r_limbs r))) m (get_points X points (map fst (r_limbs r)))
                               (get_points X points (map snd (r_limbs r)))).
  assert (Hnth : nth (length e1 + i) (e1 ++ e2 ++ e3) d0 = ap (nth i m2s dm)).
  { rewrite app_nth2_plus. rewrite app_nth1 by lia. unfold e2. fold ap.
    apply (nth_map_d ap). exact Hi. }
  assert (Hoff : offset Y (e1 ++ e2 ++ e3) (length e1 + i) = length m1s * (P * D) + i * NL).
  { rewrite offset_app_r, (total_const Y e1 _ e1_sizes), L1. rewrite offset_app_l by lia.
    rewrite (offset_const Y e2 NL i e2_sizes) by lia. reflexivity. }
  rewrite <- Hoff. rewrite (cat0_at Y dy _ (length e1 + i) q b l d0 Hlen).
  - rewrite Hnth. unfold ap. cbn [apply2 e_at]. unfold get_points, points, permute_2013.
    destruct r_facts as (_ & _ & C & _). rewrite C.
    rewrite (nth_map_d fst _ _ (0, 0)) by (rewrite limb_points_length; exact Hq).
    rewrite (nth_map_d snd _ _ (0, 0)) by (rewrite limb_points_length; exact Hq).
    reflexivity.
  - rewrite Hnth. unfold ap. cbn [apply2 e_size]. destruct r_facts as (_ & _ & C & _). rewrite C, map_length, limb_points_length. exact Hq.
Qed.

Lemma layout_triples i q b l dm : i < length m3s -> q < NT ->
  out b l (length m1s * (P * D) + length m2s * NL + i * NT + q) =
    let x := nth q (chains (limb_points h)) (0, 0, 0) in
    nth i m3s dm (src b l (fst (fst x))) (src b l (snd (fst x))) (src b l (snd x)).
Proof.
  intros Hi Hq. unfold out, group.
  assert (L1 : length e1 = length m1s) by (unfold e1; apply map_length).
  assert (L2 : length e2 = length m2s) by (unfold e2; apply map_length).
  assert (L3 : length e3 = length m3s) by (unfold e3; apply map_length).
  assert (Hlen : length e1 + (length e2 + i) < length (e1 ++ e2 ++ e3)) by (rewrite !app_length; lia).
  set (ap := fun m => apply3 X Y (length (map (fun x => fst (fst x)) (r_tris r))) m
                               (get_points X points (map (fun x => fst (fst x)) (r_tris r)))
                               (get_points X points (map (fun x => snd (fst x)) (r_tris r)))
                               (get_points X points (map snd (r_tris r)))).
  assert (Hnth : nth (length e1 + (length e2 + i)) (e1 ++ e2 ++ e3) d0 = ap (nth i m3s dm)).
  { rewrite app_nth2_plus. rewrite app_nth2_plus. unfold e3. fold ap.
    apply (nth_map_d ap). exact Hi. }
  assert (Hoff : offset Y (e1 ++ e2 ++ e3) (length e1 + (length e2 + i)) = length m1s * (P * D) + length m2s * NL + i * NT).
  { rewrite offset_app_r, (total_const Y e1 _ e1_sizes), L1. rewrite offset_app_r, (total_const Y e2 _ e2_sizes), L2.
    rewrite (offset_const Y e3 NT i e3_sizes) by lia. lia. }
  rewrite <- Hoff. rewrite (cat0_at Y dy _ _ q b l d0 Hlen).
  - rewrite Hnth. unfold ap. cbn [apply3 e_at]. unfold get_points, points, permute_2013.
    destruct r_facts as (_ & _ & _ & E & _). rewrite E. cbn zeta.
    rewrite (nth_map_d (fun x : nat * nat * nat => fst (fst x)) _ _ (0, 0, 0)) by exact Hq.
    rewrite (nth_map_d (fun x : nat * nat * nat => snd (fst x)) _ _ (0, 0, 0)) by exact Hq.
    rewrite (nth_map_d (@snd (nat * nat) nat) _ _ (0, 0, 0)) by exact Hq.
    reflexivity.
  - rewrite Hnth. unfold ap. cbn [apply3 e_size]. destruct r_facts as (_ & _ & _ & E & _). rewrite E, map_length. exact Hq.
Qed.
End CallProofs.

(* ---------------------------------------------------------------- statements used by props/C17.v *)
Theorem output_size_thm X Y (dy : Y) h r (m1s : list (list X -> list Y)) (m2s : list (list X -> list X -> Y))
    (m3s : list (list X -> list X -> list X -> Y)) D (src : t4 X) :
  mk_repr h (length m1s) (length m2s) (length m3s) = Some r -> header_dims h = Some D -> wf_header h ->
  length m1s + length m2s + length m3s > 0 ->
  (exists f, call X Y dy r (input_size h) D m1s m2s m3s src = Some (output_size r, f)) /\
  output_size r = length m1s * (input_size h * D) + length m2s * total_limbs h + length m3s * length (chains (limb_points h)).
Proof.
  intros Hr HD Hwf Hm. split.
  - eexists. apply (call_defined X Y dy h r m1s m2s m3s Hr D HD src Hwf Hm).
  - apply (output_size_header X Y h r m1s m2s m3s Hr D HD).
Qed.

Theorem block_layout_thm X Y (dy : Y) h r (m1s : list (list X -> list Y)) (m2s : list (list X -> list X -> Y))
    (m3s : list (list X -> list X -> list X -> Y)) D (src : t4 X) n f :
  mk_repr h (length m1s) (length m2s) (length m3s) = Some r -> header_dims h = Some D -> wf_header h ->
  length m1s + length m2s + length m3s > 0 ->
  call X Y dy r (input_size h) D m1s m2s m3s src = Some (n, f) ->
  (* point features: module i, point p, channel d *)
  (forall i p d b l dm, i < length m1s -> p < input_size h -> d < D ->
     f b l (i * (input_size h * D) + (p * D + d)) = nth d (nth i m1s dm (src b l p)) dy) /\
  (* limb features: module i, limb j of component ci, computed from the component's points shifted by
     the number of points of the components before it *)
  (forall i ci j b l dm dc, i < length m2s -> ci < length h -> j < length (c_limbs (nth ci h dc)) ->
     let ab := nth j (c_limbs (nth ci h dc)) (0, 0) in
     f b l (length m1s * (input_size h * D) + i * total_limbs h + (limbs_before h ci + j)) =
       nth i m2s dm (src b l (fst ab + points_before h ci)) (src b l (snd ab + points_before h ci))) /\
  (* joint-triple features: module i, q-th limb chain *)
  (forall i q b l dm, i < length m3s -> q < length (chains (limb_points h)) ->
     let x := nth q (chains (limb_points h)) (0, 0, 0) in
     f b l (length m1s * (input_size h * D) + length m2s * total_limbs h + i * length (chains (limb_points h)) + q) =
       nth i m3s dm (src b l (fst (fst x))) (src b l (snd (fst x))) (src b l (snd x))).
Proof.
  intros Hr HD Hwf Hm Hc.
  rewrite (call_defined X Y dy h r m1s m2s m3s Hr D HD src Hwf Hm) in Hc. injection Hc as <- <-.
  split; [|split].
  - intros i p d b l dm Hi Hp Hd. eapply layout_points; eassumption.
  - intros i ci j b l dm dc Hi Hci Hj ab.
    assert (H : forall q, q < total_limbs h ->
       group Y (cat0 Y dy (map (fun m => apply1 X Y dy (input_size h) D m (permute_2013 X src)) m1s ++
          map (fun m => apply2 X Y (length (map fst (r_limbs r))) m (get_points X (permute_2013 X src) (map fst (r_limbs r)))
                          (get_points X (permute_2013 X src) (map snd (r_limbs r)))) m2s ++
          map (fun m => apply3 X Y (length (map (fun x => fst (fst x)) (r_tris r))) m
                          (get_points X (permute_2013 X src) (map (fun x => fst (fst x)) (r_tris r)))
                          (get_points X (permute_2013 X src) (map (fun x => snd (fst x)) (r_tris r)))
                          (get_points X (permute_2013 X src) (map snd (r_tris r)))) m3s)) b l
         (length m1s * (input_size h * D) + i * total_limbs h + q) =
       nth i m2s dm (src b l (fst (nth q (limb_points h) (0, 0)))) (src b l (snd (nth q (limb_points h) (0, 0)))))
      by (intros q Hq; eapply layout_limbs; eassumption).
    rewrite (H _ (limbs_before_lt h ci j dc Hci Hj)). rewrite (limb_points_nth h ci j dc Hci Hj). reflexivity.
  - intros i q b l dm Hi Hq. eapply layout_triples; eassumption.
Qed.
