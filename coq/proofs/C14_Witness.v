(* C14 - the three hypotheses about SciPy's quadratic / cubic interp1d are satisfiable: a concrete function
   (value at a node: that node's row; elsewhere: the Lagrange polynomial through the first k+1 nodes) meets
   all of them.  This is only a non-vacuity witness for the theorems; it is not SciPy's spline. *)
From Coq Require Import Reals List Arith Bool Lia Lra Sorted.
Require Import Num C14_Interp C14_Index C14_Grid C14_Lerp C14_Eval.
Import ListNotations.
Local Open Scope R_scope.

Definition lag2 (x0 x1 x2 y0 y1 y2 x : R) : R :=
  y0 * ((x - x1) * (x - x2)) / ((x0 - x1) * (x0 - x2)) +
  y1 * ((x - x0) * (x - x2)) / ((x1 - x0) * (x1 - x2)) +
  y2 * ((x - x0) * (x - x1)) / ((x2 - x0) * (x2 - x1)).
Definition lag3 (x0 x1 x2 x3 y0 y1 y2 y3 x : R) : R :=
  y0 * ((x - x1) * (x - x2) * (x - x3)) / ((x0 - x1) * (x0 - x2) * (x0 - x3)) +
  y1 * ((x - x0) * (x - x2) * (x - x3)) / ((x1 - x0) * (x1 - x2) * (x1 - x3)) +
  y2 * ((x - x0) * (x - x1) * (x - x3)) / ((x2 - x0) * (x2 - x1) * (x2 - x3)) +
  y3 * ((x - x0) * (x - x1) * (x - x2)) / ((x3 - x0) * (x3 - x1) * (x3 - x2)).
Definition wit_col (k : nat) (xs ycol : list R) (x : R) : R :=
  match k, xs, ycol with
  | 2%nat, x0 :: x1 :: x2 :: _, y0 :: y1 :: y2 :: _ => lag2 x0 x1 x2 y0 y1 y2 x
  | 3%nat, x0 :: x1 :: x2 :: x3 :: _, y0 :: y1 :: y2 :: y3 :: _ => lag3 x0 x1 x2 x3 y0 y1 y2 y3 x
  | _, _, _ => 0
  end.
Definition wit : spline_t := fun k xs ys x =>
  match find (fun xy => Reqb (fst xy) x) (combine xs ys) with
  | Some (_, y) => y
  | None => map (fun c => wit_col k xs (map (fun r => nth c r 0) ys) x) (seq 0 (length (hd [] ys)))
  end.

Lemma find_node : forall xs ys i, StronglySorted Rlt xs -> length xs = length ys -> (i < length xs)%nat ->
  find (fun xy : R * list R => Reqb (fst xy) (nth i xs 0)) (combine xs ys) = Some (nth i xs 0, nth i ys []).
Proof. induction xs as [|a xs IH]; intros [|b ys] i Hs Hl Hi; cbn [length] in *; try lia.
  inversion Hs as [|a' l' Hs' Hf]; subst. destruct i as [|i]; cbn [combine find fst nth].
  - replace (Reqb a a) with true by (symmetry; apply Reqb_true; reflexivity). reflexivity.
  - rewrite Forall_forall in Hf. pose proof (Hf (nth i xs 0) ltac:(apply nth_In; lia)) as Hlt.
    replace (Reqb a (nth i xs 0)) with false by (symmetry; apply Reqb_false; lra).
    apply IH; [assumption|lia|lia]. Qed.
Lemma find_some_node xs ys x x' y : length xs = length ys ->
  find (fun xy : R * list R => Reqb (fst xy) x) (combine xs ys) = Some (x', y) ->
  x' = x /\ exists i, (i < length xs)%nat /\ nth i xs 0 = x' /\ nth i ys [] = y.
Proof. intros Hl Hf. apply find_some in Hf. destruct Hf as [Hin Hp]. cbn in Hp. apply Reqb_true in Hp.
  split; [exact Hp|]. destruct (In_nth _ _ (0, []) Hin) as [i [Hi E]].
  rewrite combine_length in Hi. rewrite combine_nth in E by exact Hl. injection E as E1 E2.
  exists i. repeat split; try assumption. lia. Qed.

Lemma wit_shape : spline_shape wit.
Proof. intros k xs ys w x Hk Hs Hl Hkl Hw. unfold wit.
  destruct (find _ _) as [[x' y]|] eqn:E.
  - destruct (find_some_node xs ys x x' y Hl E) as [_ [i [Hi [_ <-]]]].
    rewrite Forall_forall in Hw. apply Hw. apply nth_In. lia.
  - rewrite map_length, seq_length. destruct ys as [|r ys]; [cbn in Hl; lia|].
    rewrite Forall_forall in Hw. apply Hw. left; reflexivity. Qed.
Lemma wit_nodes : spline_nodes wit.
Proof. intros k xs ys i Hk Hs Hl Hkl Hi. unfold wit. rewrite (find_node xs ys i Hs Hl Hi). reflexivity. Qed.

Lemma sorted3 x0 x1 x2 l : StronglySorted Rlt (x0 :: x1 :: x2 :: l) -> x0 < x1 /\ x0 < x2 /\ x1 < x2.
Proof. intros H. inversion H as [|? ? H1 F1]; subst. inversion H1 as [|? ? H2 F2]; subst.
  rewrite Forall_forall in *. repeat split; [apply F1|apply F1|apply F2]; cbn; auto. Qed.
Lemma sorted4 x0 x1 x2 x3 l : StronglySorted Rlt (x0 :: x1 :: x2 :: x3 :: l) ->
  x0 < x1 /\ x0 < x2 /\ x0 < x3 /\ x1 < x2 /\ x1 < x3 /\ x2 < x3.
Proof. intros H. inversion H as [|? ? H1 F1]; subst. inversion H1 as [|? ? H2 F2]; subst. inversion H2 as [|? ? H3 F3]; subst.
  rewrite Forall_forall in *. repeat split; [apply F1|apply F1|apply F1|apply F2|apply F2|apply F3]; cbn; auto. Qed.

Lemma lag2_poly x0 x1 x2 p x : x0 < x1 -> x0 < x2 -> x1 < x2 -> (length p <= 3)%nat ->
  lag2 x0 x1 x2 (peval p x0) (peval p x1) (peval p x2) x = peval p x.
Proof. intros H01 H02 H12 Hp.
  destruct p as [|c0 [|c1 [|c2 [|c3 p]]]]; cbn [length] in Hp; try lia; unfold lag2; cbn [peval fold_right];
    field; repeat split; lra. Qed.
Lemma lag3_poly x0 x1 x2 x3 p x : x0 < x1 -> x0 < x2 -> x0 < x3 -> x1 < x2 -> x1 < x3 -> x2 < x3 -> (length p <= 4)%nat ->
  lag3 x0 x1 x2 x3 (peval p x0) (peval p x1) (peval p x2) (peval p x3) x = peval p x.
Proof. intros H01 H02 H03 H12 H13 H23 Hp.
  destruct p as [|c0 [|c1 [|c2 [|c3 [|c4 p]]]]]; cbn [length] in Hp; try lia; unfold lag3; cbn [peval fold_right];
    field; repeat split; lra. Qed.

Lemma wit_poly : spline_poly wit.
Proof. intros k xs ys w c p x Hk Hs Hl Hkl Hw Hc Hp Hy Hx. unfold wit.
  destruct (find _ _) as [[x' y]|] eqn:E.
  - destruct (find_some_node xs ys x x' y Hl E) as [-> [i [Hi [<- <-]]]]. apply Hy. exact Hi.
  - assert (Hw0 : length (hd [] ys) = w).
    { destruct ys as [|r ys']; [cbn in Hl; lia|]. rewrite Forall_forall in Hw. apply Hw. left; reflexivity. }
    unfold col. rewrite (nth_map_seq _ (length (hd [] ys)) c 0) by lia.
    destruct Hk as [-> | ->].
    + destruct xs as [|x0 [|x1 [|x2 xs']]]; cbn [length] in Hkl; try lia.
      destruct ys as [|r0 [|r1 [|r2 ys']]]; cbn [length] in Hl; try lia.
      cbn [wit_col map].
      pose proof (Hy 0%nat ltac:(cbn; lia)) as E0. pose proof (Hy 1%nat ltac:(cbn; lia)) as E1. pose proof (Hy 2%nat ltac:(cbn; lia)) as E2.
      unfold col in E0, E1, E2. cbn [nth] in E0, E1, E2. rewrite E0, E1, E2.
      destruct (sorted3 _ _ _ _ Hs) as [H01 [H02 H12]]. apply lag2_poly; assumption.
    + destruct xs as [|x0 [|x1 [|x2 [|x3 xs']]]]; cbn [length] in Hkl; try lia.
      destruct ys as [|r0 [|r1 [|r2 [|r3 ys']]]]; cbn [length] in Hl; try lia.
      cbn [wit_col map].
      pose proof (Hy 0%nat ltac:(cbn; lia)) as E0. pose proof (Hy 1%nat ltac:(cbn; lia)) as E1.
      pose proof (Hy 2%nat ltac:(cbn; lia)) as E2. pose proof (Hy 3%nat ltac:(cbn; lia)) as E3.
      unfold col in E0, E1, E2, E3. cbn [nth] in E0, E1, E2, E3. rewrite E0, E1, E2, E3.
      destruct (sorted4 _ _ _ _ _ Hs) as [H01 [H02 [H03 [H12 [H13 H23]]]]]. apply lag3_poly; assumption. Qed.

Theorem spline_hypotheses_satisfiable : exists sp : spline_t, spline_shape sp /\ spline_nodes sp /\ spline_poly sp.
Proof. exists wit. split; [exact wit_shape|]. split; [exact wit_nodes|exact wit_poly]. Qed.
