(* C14 - from tracks to whole bodies: the result of interpolate is, entry by entry, the per-track result. *)
From Coq Require Import Reals List Arith Bool Lia Lra Sorted PrimFloat.
Require Import Num Result C14_Count C14_Interp C14_Index C14_Grid C14_Lerp C14_Eval C14_Obs C14_Track.
Import ListNotations.
Local Open Scope R_scope.

Definition bodyR := body R_ops.
Definition outR := out_body R_ops.
Definition frames_of (b : bodyR) : nat := length (b_data R_ops b).
Definition wf_body (b : bodyR) : Prop :=
  length (b_conf R_ops b) = frames_of b /\
  Forall (fun fd => length fd = b_people R_ops b /\
            Forall (fun pd => length pd = b_points R_ops b /\ Forall (fun row => length row = b_dims R_ops b) pd) fd) (b_data R_ops b) /\
  Forall (fun fc => length fc = b_people R_ops b /\ Forall (fun pc => length pc = b_points R_ops b) fc) (b_conf R_ops b).
Definition target (b : bodyR) (new_fps : option float) : float :=
  match new_fps with Some f => f | None => b_fps R_ops b end.
(* rows of the input and of the result, as (coordinates ++ [confidence]) *)
Definition in_row (b : bodyR) (i p t : nat) : list R := nth i (track R_ops b p t) [].
Definition out_coords (o : outR) (j p t : nat) : list R := nth t (nth p (nth j (o_data R_ops o) []) []) [].
Definition out_conf (o : outR) (j p t : nat) : R := nth t (nth p (nth j (o_conf R_ops o) []) []) 0.
Definition out_mask (o : outR) (j p t : nat) : bool := nth t (nth p (nth j (o_mask R_ops o) []) []) false.
Definition out_row (o : outR) (j p t : nat) : list R := out_coords o j p t ++ [out_conf o j p t].
Definition track_of (sp : spline_t) (b : bodyR) (k : kind) (n p t : nat) : list (list R) :=
  track_out sp k (S (b_dims R_ops b)) (frames_of b) n (track R_ops b p t).

Lemma map2_len {A B C} (f : A -> B -> C) la lb : length (map2 f la lb) = Nat.min (length la) (length lb).
Proof. unfold map2. now rewrite map_length, combine_length. Qed.
Lemma map2_nth' {A B C} (f : A -> B -> C) da db dc : forall la lb c,
  (c < length la)%nat -> (c < length lb)%nat -> nth c (map2 f la lb) dc = f (nth c la da) (nth c lb db).
Proof. exact (map2_nth f da db dc). Qed.

Lemma track_wf b p t : wf_body b -> (p < b_people R_ops b)%nat -> (t < b_points R_ops b)%nat ->
  wf_rows (S (b_dims R_ops b)) (frames_of b) (track R_ops b p t).
Proof. intros [Hc [Hd Hcf]] Hp Ht. unfold wf_rows, track, frames_of in *. split.
  - rewrite map2_len, Hc. lia.
  - apply Forall_forall. intros r Hr. unfold map2 in Hr. apply in_map_iff in Hr.
    destruct Hr as [[fd fc] [<- Hin]]. cbn [fst snd]. apply in_combine_l in Hin.
    rewrite Forall_forall in Hd. destruct (Hd fd Hin) as [HP Hpd].
    rewrite Forall_forall in Hpd. destruct (Hpd (nth p fd []) ltac:(apply nth_In; lia)) as [HT Hrow].
    rewrite Forall_forall in Hrow. rewrite app_length, (Hrow (nth t (nth p fd []) []) ltac:(apply nth_In; lia)). cbn. lia. Qed.

Section Body.
Variable sp : spline_t.
Hypothesis Hshape : spline_shape sp.
Hypothesis Hnodes : spline_nodes sp.
Hypothesis Hpoly : spline_poly sp.
Variables (b : bodyR) (new_fps : option float) (k : kind).
Local Notation F := (frames_of b).
Local Notation P := (b_people R_ops b).
Local Notation Tn := (b_points R_ops b).
Local Notation D := (b_dims R_ops b).

Lemma cell_tracks n j p t : (p < P)%nat -> (t < Tn)%nat ->
  cell R_ops (tracks_result R_ops sp b k n) j p t = nth j (track_of sp b k n p t) [].
Proof. intros Hp Ht. unfold cell, tracks_result, track_of, track_out.
  rewrite (nth_map_seq _ Tn t []) by exact Ht. rewrite (nth_map_seq _ P p []) by exact Hp. reflexivity. Qed.

(* FRAME COUNT: a result has round(F * new / old) frames of the input's people x points, at the new rate *)
Theorem interpolate_shape o : interpolate R_ops sp b new_fps k = Ok o ->
  exists n, new_frame_count F (target b new_fps) (b_fps R_ops b) = Ok n /\ F <> 1%nat /\
    o_fps R_ops o = target b new_fps /\
    length (o_data R_ops o) = n /\ length (o_conf R_ops o) = n /\ length (o_mask R_ops o) = n /\
    (forall j, (j < n)%nat -> length (nth j (o_data R_ops o) []) = P /\ length (nth j (o_conf R_ops o) []) = P /\
       forall p, (p < P)%nat -> length (nth p (nth j (o_data R_ops o) []) []) = Tn /\ length (nth p (nth j (o_conf R_ops o) []) []) = Tn).
Proof. unfold interpolate. fold (target b new_fps). fold F.
  destruct (Nat.eqb_spec F 1) as [|HF]; [discriminate|].
  destruct (new_frame_count F (target b new_fps) (b_fps R_ops b)) as [n|e]; cbn [rbind]; [|discriminate].
  destruct (Nat.eqb Tn 0 || Nat.eqb P 0); [discriminate|].
  destruct (forallb _ _); [|discriminate]. intros H. injection H as <-. cbn [o_fps o_data o_conf o_mask].
  exists n. repeat split; try reflexivity; try assumption; try (now rewrite !map_length, seq_length).
  - rewrite (nth_map_seq _ n j []) by assumption. now rewrite map_length, seq_length.
  - rewrite (nth_map_seq _ n j []) by assumption. now rewrite map_length, seq_length.
  - rewrite (nth_map_seq _ n j []), (nth_map_seq _ P p []) by assumption. now rewrite map_length, seq_length.
  - rewrite (nth_map_seq _ n j []), (nth_map_seq _ P p []) by assumption. now rewrite map_length, seq_length. Qed.

(* every entry of the result is the corresponding entry of its track's result *)
Theorem interpolate_entry o n j p t : interpolate R_ops sp b new_fps k = Ok o ->
  new_frame_count F (target b new_fps) (b_fps R_ops b) = Ok n ->
  (j < n)%nat -> (p < P)%nat -> (t < Tn)%nat ->
  let r := nth j (track_of sp b k n p t) [] in
  out_coords o j p t = removelast r /\ out_conf o j p t = last r 0 /\ out_mask o j p t = Reqb (last r 0) 0.
Proof. unfold interpolate. fold (target b new_fps). fold F. intros H Hn Hj Hp Ht.
  destruct (Nat.eqb_spec F 1) as [|HF]; [discriminate|]. rewrite Hn in H. cbn [rbind] in H.
  destruct (Nat.eqb Tn 0 || Nat.eqb P 0); [discriminate|].
  destruct (forallb _ _); [|discriminate]. injection H as <-.
  unfold out_coords, out_conf, out_mask. cbn [o_data o_conf o_mask].
  rewrite (nth_map_seq _ n j []), (nth_map_seq _ P p []), (nth_map_seq _ Tn t []) by assumption.
  rewrite (nth_map_seq _ n j []), (nth_map_seq _ P p []), (nth_map_seq _ Tn t 0) by assumption.
  rewrite cell_tracks by assumption. cbv zeta. split; [reflexivity|]. split; [reflexivity|].
  rewrite (nth_map_lt _ _ [] [] j) by (now rewrite map_length, seq_length).
  rewrite (nth_map_seq _ n j []) by assumption.
  rewrite (nth_map_lt _ _ [] [] p) by (now rewrite map_length, seq_length).
  rewrite (nth_map_seq _ P p []) by assumption.
  rewrite (nth_map_lt _ _ false 0 t) by (now rewrite map_length, seq_length).
  rewrite (nth_map_seq _ Tn t 0) by assumption. rewrite cell_tracks by assumption. reflexivity. Qed.

Hypothesis Hwf : wf_body b.

Lemma track_row_width n j p t : (j < n)%nat -> (p < P)%nat -> (t < Tn)%nat ->
  length (nth j (track_of sp b k n p t) []) = S D.
Proof. intros Hj Hp Ht. pose proof (track_wf b p t Hwf Hp Ht) as Hw. unfold track_of.
  set (rows := track R_ops b p t) in *.
  destruct (Nat.eq_dec (length (compress R_ops (gridR F) rows)) 0) as [H0|Hpos].
  - rewrite (out_nth_none sp k (S D) F n rows Hw j Hj H0). apply repeat_length.
  - rewrite (out_nth sp k (S D) F n rows Hw j Hj ltac:(lia)).
    destruct (in_span _ _); [|apply repeat_length]. unfold value_at.
    pose proof (obs_widths (S D) F rows Hw) as Hws.
    destruct (compress R_ops (gridR F) rows) as [|[s y0] [|b0 rest]] eqn:E; [cbn in Hpos; lia| |].
    + unfold widths in Hws. rewrite Forall_forall in Hws. apply (Hws (s, y0)). left; reflexivity.
    + rewrite <- E in *. apply (eval_width sp Hshape _ (S D) k (obs_sorted (S D) F rows Hw) Hws). rewrite E; cbn; lia. Qed.

(* the result row (coordinates ++ [confidence]) is the track's row *)
Theorem interpolate_row o n j p t : interpolate R_ops sp b new_fps k = Ok o ->
  new_frame_count F (target b new_fps) (b_fps R_ops b) = Ok n ->
  (j < n)%nat -> (p < P)%nat -> (t < Tn)%nat ->
  out_row o j p t = nth j (track_of sp b k n p t) [] /\ out_mask o j p t = Reqb (out_conf o j p t) 0.
Proof. intros H Hn Hj Hp Ht. destruct (interpolate_entry o n j p t H Hn Hj Hp Ht) as [E1 [E2 E3]]. cbv zeta in *.
  unfold out_row. rewrite E1, E2, E3. split; [|reflexivity].
  symmetry. apply app_removelast_last. intros E. pose proof (track_row_width n j p t Hj Hp Ht) as Hl.
  rewrite E in Hl. discriminate. Qed.

(* interpolate succeeds on every well-formed body with frames <> 1, at least one person and one point,
   whenever the frame count itself is defined (finite non-negative quotient) *)
Theorem interpolate_defined n : F <> 1%nat -> (0 < P)%nat -> (0 < Tn)%nat ->
  new_frame_count F (target b new_fps) (b_fps R_ops b) = Ok n ->
  exists o, interpolate R_ops sp b new_fps k = Ok o.
Proof. intros HF HP HT Hn. unfold interpolate. fold (target b new_fps). fold F.
  destruct (Nat.eqb_spec F 1) as [|_]; [contradiction|]. rewrite Hn. cbn [rbind].
  destruct (Nat.eqb_spec Tn 0) as [|_]; [lia|]. destruct (Nat.eqb_spec P 0) as [|_]; [lia|]. cbn [orb].
  replace (forallb _ (tracks_result R_ops sp b k n)) with true; [eexists; reflexivity|].
  symmetry. apply forallb_forall. intros per_t Hin. unfold tracks_result in Hin. apply in_map_iff in Hin.
  destruct Hin as [t [<- Ht]]. apply in_seq in Ht. apply forallb_forall. intros r Hr. apply in_map_iff in Hr.
  destruct Hr as [p [<- Hp]]. apply in_seq in Hp. apply Nat.eqb_eq.
  apply (track_length sp k (S D) F n (track R_ops b p t)). apply track_wf; [exact Hwf|lia|lia]. Qed.
End Body.
