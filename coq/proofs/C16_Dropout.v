(* C16: generic frame dropout (NumPy / PyTorch bodies), for every draw random.sample can make. *)
From Coq Require Import ZArith List Bool Arith Lia Sorted Permutation SpecFloat QArith_base.
Require Import Result F32 C16_Frames C16_Lists C16_Select.
Import ListNotations.
Local Open Scope nat_scope.

(* ---------- the three variants are one ---------- *)
Lemma dropout_is_given {A} c be (b : body A) d s : dropout c be b d s = dropout_given c be b (fraction d) s.
Proof. destruct d; reflexivity. Qed.

(* ---------- what an Ok result is made of ---------- *)
Lemma dropout_given_inv {A} c be (b : body A) p s r kept :
  dropout_given c be b p s = Ok (r, kept) ->
  exists k, drop_count c (frames b) p = Ok k /\ (0 <= k <= Z.of_nat (frames b))%Z /\
            kept = complement (frames b) s /\ select_frames be b (map Z.of_nat kept) = Ok r.
Proof. unfold dropout_given. destruct (drop_count c (frames b) p) as [k|e] eqn:Hk; cbn [rbind]; [|discriminate].
  destruct (Z.ltb_spec k 0) as [Hneg|Hpos]; cbn [orb]; [discriminate|].
  destruct (Z.ltb_spec (Z.of_nat (frames b)) k) as [Hbig|Hle]; [discriminate|].
  destruct (select_frames be b _) as [r'|e] eqn:Hs; cbn [rbind]; [|discriminate].
  intros [= <- <-]. exists k. repeat split; try lia; assumption. Qed.
Lemma possible_draw_inv c n p s k :
  possible_draw c n p s -> drop_count c n p = Ok k -> (0 <= k <= Z.of_nat n)%Z ->
  length s = Z.to_nat k /\ NoDup s /\ Forall (fun i => i < n) s.
Proof. intros [k' [Hs Hv]] Hk Hr. unfold sample_size in Hs. rewrite Hk in Hs.
  destruct (Z.ltb_spec k 0); [lia|]. destruct (Z.ltb_spec (Z.of_nat n) k); [lia|]. cbn [orb] in Hs.
  injection Hs as <-. now apply valid_sample_spec. Qed.
Lemma drop_count_inv c n p k :
  drop_count c n p = Ok k -> exists a kc, asked_count n p = Ok a /\ cap_count c n = Ok kc /\ k = Z.min a kc.
Proof. unfold drop_count. destruct (asked_count n p) as [a|e]; cbn [rbind]; [|discriminate].
  destruct (cap_count c n) as [kc|e]; cbn [rbind]; [|discriminate]. intros [= <-]. now exists a, kc. Qed.

(* ---------- kept indexes: strictly increasing, within range ---------- *)
Lemma kept_sorted_in_range {A} c be (b : body A) d s r kept :
  dropout c be b d s = Ok (r, kept) -> StronglySorted lt kept /\ Forall (fun i => i < frames b) kept.
Proof. rewrite dropout_is_given. intros H. apply dropout_given_inv in H. destruct H as [k [_ [_ [-> _]]]].
  split; [apply complement_sorted|apply complement_range]. Qed.
(* ---------- the returned body consists of exactly those frames ---------- *)
Lemma pose_is_those_frames {A} (x : A) c be (b : body A) d s r kept :
  dropout c be b d s = Ok (r, kept) -> r = body_at x b kept.
Proof. rewrite dropout_is_given. intros H. apply dropout_given_inv in H. destruct H as [k [_ [_ [_ Hs]]]].
  now apply (select_ok_inv x) in Hs. Qed.
(* ---------- number of dropped frames = min(int(n*p), int(n*cap)), and it is what the draw contains ---------- *)
Lemma dropped_count {A} c be (b : body A) d s r kept :
  possible_draw c (frames b) (fraction d) s -> dropout c be b d s = Ok (r, kept) ->
  exists a kc, asked_count (frames b) (fraction d) = Ok a /\ cap_count c (frames b) = Ok kc /\
               (0 <= Z.min a kc <= Z.of_nat (frames b))%Z /\
               Z.of_nat (length kept) = (Z.of_nat (frames b) - Z.min a kc)%Z /\
               forall i, In i kept <-> i < frames b /\ ~ In i s.
Proof. rewrite dropout_is_given. intros Hp H. apply dropout_given_inv in H. destruct H as [k [Hk [Hr [-> _]]]].
  destruct (possible_draw_inv _ _ _ _ _ Hp Hk Hr) as [Hl [Hd Hf]].
  destruct (drop_count_inv _ _ _ _ Hk) as [a [kc [Ha [Hc ->]]]]. exists a, kc. repeat split; try assumption; try lia.
  - pose proof (complement_length _ _ Hd Hf). lia.
  - apply filter_In in H. destruct H as [H _]. apply in_seq in H. lia.
  - now apply complement_not_in in H.
  - intros [Hi Hn]. apply filter_In. split; [apply in_seq; lia|]. apply negb_true_iff. now apply memb_false. Qed.

(* ---------- fraction 0 (either sign) drops nothing ---------- *)
Lemma asked_zero n sg a : asked_count n (S754_zero sg) = Ok a -> a = 0%Z.
Proof. unfold asked_count, int_times_float. destruct (is_inf_sf _); cbn [rbind]; [discriminate|].
  unfold sf64_mul. destruct (sf64_of_Z (Z.of_nat n)) as [s0|s0| |s0 m0 e0]; cbn [SFmul py_int sf_trunc]; congruence. Qed.
Lemma zero_fraction_drops_nothing {A} c be (b : body A) d sg s r kept :
  fraction d = S754_zero sg -> possible_draw c (frames b) (fraction d) s ->
  dropout c be b d s = Ok (r, kept) -> kept = seq 0 (frames b).
Proof. intros Hz Hp H. rewrite dropout_is_given in H. apply dropout_given_inv in H. destruct H as [k [Hk [Hr [-> _]]]].
  destruct (possible_draw_inv _ _ _ _ _ Hp Hk Hr) as [Hl _].
  destruct (drop_count_inv _ _ _ _ Hk) as [a [kc [Ha [_ ->]]]]. rewrite Hz in Ha. apply asked_zero in Ha. subst a.
  assert (Z.min 0 kc = 0%Z) as E by lia. rewrite E in Hl. cbn [Z.to_nat] in Hl.
  destruct s; [apply complement_nil|discriminate]. Qed.

(* ---------- at least one frame is kept, provided the cap is below n ---------- *)
Lemma cap_okb_spec c n : cap_okb c n = true <-> cap_ok c n.
Proof. unfold cap_okb, cap_ok. destruct (cap_count c n) as [k|e]; split.
  - intros H. apply andb_true_iff in H. destruct H as [H1 H2]. exists k. split; [reflexivity|]. lia.
  - intros [k' [[= <-] Hk]]. apply andb_true_iff. split; lia.
  - discriminate.
  - intros [k' [H _]]. discriminate. Qed.
Lemma keeps_one_if_cap_ok {A} c be (b : body A) d s r kept :
  cap_ok c (frames b) -> possible_draw c (frames b) (fraction d) s ->
  dropout c be b d s = Ok (r, kept) -> 1 <= length kept.
Proof. intros [kc0 [Hc0 Hb]] Hp H. destruct (dropped_count _ _ _ _ _ _ _ Hp H) as [a [kc [_ [Hc [_ [Hl _]]]]]].
  rewrite Hc0 in Hc. injection Hc as <-. lia. Qed.

(* ---------- "about that fraction": int(x) is within 1 below x ---------- *)
Lemma pow_pos_2 p : Z.pow_pos 2 p = Zpos (Pos.pow 2 p).
Proof. now rewrite Pos2Z.inj_pow_pos. Qed.
Lemma trunc_bounds x a : sf_nonneg x = true -> sf_trunc x = Some a ->
  (0 <= a)%Z /\ Qle (inject_Z a) (sf_Q x) /\ Qlt (sf_Q x) (inject_Z (a + 1)).
Proof. destruct x as [s|s| |s m e]; cbn [sf_nonneg sf_trunc sf_Q]; try discriminate.
  - intros _ [= <-]. unfold Qle, Qlt, inject_Z. cbn [Qnum Qden]. lia.
  - intros Hs. apply negb_true_iff in Hs. subst s. intros [= <-]. unfold Qle, Qlt, inject_Z.
    destruct e as [|p|p]; cbn [Qnum Qden].
    + lia.
    + rewrite pow_pos_2. lia.
    + rewrite pow_pos_2. set (D := Pos.pow 2 p).
      pose proof (Z.mul_div_le (Zpos m) (Zpos D) ltac:(lia)) as H1.
      pose proof (Z.mul_succ_div_gt (Zpos m) (Zpos D) ltac:(lia)) as H2.
      pose proof (Z.div_pos (Zpos m) (Zpos D) ltac:(lia) ltac:(lia)) as H3.
      unfold Z.succ in H2. split; [lia|]. split; nia. Qed.
(* without the cap the number of dropped frames is the integer part of the binary64 product x = n * p:
   dropped <= x < dropped + 1 *)
Lemma drops_about_the_fraction {A} c be (b : body A) d s r kept x :
  possible_draw c (frames b) (fraction d) s -> dropout c be b d s = Ok (r, kept) ->
  int_times_float (frames b) (fraction d) = Ok x -> sf_nonneg x = true ->
  exists a kc, cap_count c (frames b) = Ok kc /\ asked_count (frames b) (fraction d) = Ok a /\
    Qle (inject_Z a) (sf_Q x) /\ Qlt (sf_Q x) (inject_Z (a + 1)) /\
    ((a <= kc)%Z -> Z.of_nat (frames b - length kept) = a) /\
    ((kc < a)%Z -> Z.of_nat (frames b - length kept) = kc).
Proof. intros Hp H Hx Hn. destruct (dropped_count _ _ _ _ _ _ _ Hp H) as [a [kc [Ha [Hc [Hr [Hl _]]]]]].
  exists a, kc. split; [exact Hc|]. split; [exact Ha|].
  unfold asked_count in Ha. rewrite Hx in Ha. cbn [rbind] in Ha. unfold py_int in Ha.
  destruct (sf_trunc x) as [a'|] eqn:Ht; [|discriminate]. injection Ha as ->.
  destruct (trunc_bounds _ _ Hn Ht) as [H0 [H1 H2]]. repeat split; try assumption; intros; lia. Qed.

(* ---------- pose level: the header is passed on ---------- *)
Lemma with_header_inv {H A} (ps : pose H A) res ps' kept :
  with_header ps res = Ok (ps', kept) -> header ps' = header ps /\ res = Ok (pbody ps', kept).
Proof. unfold with_header. destruct res as [[b k]|e]; cbn [rbind fst snd]; [|discriminate].
  intros [= <- <-]. split; reflexivity. Qed.
Lemma pose_slice_step_inv {H A} be (ps : pose H A) by' ps' :
  pose_slice_step true false be ps by' = Ok ps' ->
  header ps' = header ps /\ slice_step be (pbody ps) by' = Ok (pbody ps').
Proof. unfold pose_slice_step. cbn [negb]. destruct (slice_step be (pbody ps) by') as [b|e]; cbn [rbind]; [|discriminate].
  intros [= <-]. split; reflexivity. Qed.

(* ---------- non-vacuity ---------- *)
Definition c99 : spec_float := sf_of_b64 4607092346807469998%N.       (* 0.99 *)
Definition p03 : spec_float := sf_of_b64 4599075939470750515%N.       (* 0.3 *)
Definition ex_body : body nat := mkB (sf64_of_Z 30) [10;11;12;13;14;15;16;17;18;19] [20;21;22;23;24;25;26;27;28;29] [30;31;32;33;34;35;36;37;38;39].
Example possible_draw_example : possible_draw c99 10 p03 [7; 2; 5].
Proof. exists 3. split; vm_compute; reflexivity. Qed.
Example dropout_example :
  dropout c99 NumPy ex_body (Given p03) [7; 2; 5]
  = Ok (mkB (sf64_of_Z 30) [10;11;13;14;16;18;19] [20;21;23;24;26;28;29] [30;31;33;34;36;38;39], [0;1;3;4;6;8;9]).
Proof. vm_compute. reflexivity. Qed.
Example zero_draw_example : possible_draw c99 10 (S754_zero true) [].
Proof. exists 0. split; vm_compute; reflexivity. Qed.
Example cap_ok_example : cap_ok c99 200.
Proof. apply cap_okb_spec. vm_compute. reflexivity. Qed.
(* the cap is reached: fraction 1 of 200 frames drops 198 *)
Example capped_example : drop_count c99 200 (sf64_of_Z 1) = Ok 198%Z.
Proof. vm_compute. reflexivity. Qed.
Example nonneg_example : exists x, int_times_float 10 p03 = Ok x /\ sf_nonneg x = true /\ sf_trunc x = Some 3%Z.
Proof. eexists. split; [vm_compute; reflexivity|]. split; vm_compute; reflexivity. Qed.
