(* A file whose header declares a version other than 0, 0.1 or 0.2 (at the format's three-decimal granularity)
   is refused with NotImplementedError - from bytes and from a stream, under every memo state and whatever legacy
   decoders are plugged in. *)
From Coq Require Import ZArith NArith List Lia ZifyBool ZifyN ZifyNat Bool SpecFloat.
Require Import ListN Result Bytes F32 Prog Codec ProgLemmas PoseRead PoseReadLemmas StreamLemmas StreamRead
  C03_Window C04_Legacy C04_Spec C04_Stream C04_Handoff C04_SpecRT C04_V01.
Import ListNotations.
Open Scope N_scope.

Section WithLegacy.
Variable legacy : vclass -> header -> rargs -> prog body.

Lemma read_body_unknown h a : version_class (h_version h) = VUnknown -> read_body legacy h a = Fail NotImplemented.
Proof. intros H. unfold read_body, read_body_with. now rewrite H. Qed.

Theorem unknown_version_bytes m q a h o : MemoOK m ->
  run_plain rd_header {| pbuf := q; poff := 0 |} = Ok (h, {| pbuf := q; poff := o |}) ->
  version_class (h_version h) = VUnknown ->
  fst (read_bytes legacy m q a) = Err NotImplemented.
Proof. intros Hm Hh Hv. rewrite (bytes_header legacy m q a h o Hm Hh), (read_body_unknown h a Hv). reflexivity. Qed.

Theorem unknown_version_stream m q a h o : MemoOK m ->
  run_plain rd_header {| pbuf := q; poff := 0 |} = Ok (h, {| pbuf := q; poff := o |}) ->
  version_class (h_version h) = VUnknown ->
  fst (fst (read_stream4 legacy m q a)) = Err NotImplemented.
Proof.
  intros Hm Hh Hv. destruct (any_arg a) eqn:Ha.
  - destruct (stream4_header legacy m q a h o Hm Ha Hh) as [sr [_ ->]].
    rewrite (read_body_unknown h a Hv). reflexivity.
  - rewrite read_stream4_noargs by exact Ha. now apply (unknown_version_bytes m q a h o).
Qed.
(* the same for the stream reader of base/Prog.v (the one the v0.2 checks run) *)
Theorem unknown_version_stream_base m q a h o : MemoOK m ->
  run_plain rd_header {| pbuf := q; poff := 0 |} = Ok (h, {| pbuf := q; poff := o |}) ->
  version_class (h_version h) = VUnknown ->
  exists e, fst (fst (read_stream legacy m q a)) = Err e.
Proof.
  intros Hm Hh Hv. destruct (fst (fst (read_stream legacy m q a))) as [p|e] eqn:E; [|eexists; reflexivity]. exfalso.
  destruct (any_arg a) eqn:Ha.
  - unfold read_stream in E. rewrite Ha in E. cbn [negb] in E.
    destruct (expect q (prefetch_len m) _) as [r1|e1] eqn:Hex; [|discriminate].
    destruct (prefetch_sim q [] m r1 Hex) as [HS [_ [_ Hbuf]]]. rewrite app_nil_r in HS.
    rewrite Hbuf, (check_cache_prefetch m q Hm) in E.
    destruct (check_cache m q) as [c|] eqn:Hc.
    + destruct (check_cache_hit m q c Hm Hc) as [_ Hhd]. rewrite Hh in Hhd. injection Hhd as Hx _.
      rewrite <- Hx, (read_body_unknown h a Hv) in E. discriminate.
    + pose proof (sim_fwd q [] _ v2prog_rd_header _ _ _ _ HS Hh) as Hsim.
      destruct (run_stream q rd_header r1) as [[h' r2]|e1]; [|discriminate].
      destruct Hsim as [<- _]. rewrite (read_body_unknown h a Hv) in E. discriminate.
  - rewrite (C03_Window.read_stream_noargs legacy m q a Ha) in E. rewrite (unknown_version_bytes m q a h o Hm Hh Hv) in E. discriminate.
Qed.
End WithLegacy.
