(* C14 - the discrete part of interpolate: index searches, slicing and zero padding.
   No real numbers here: everything is about arbitrary boolean predicates on an arbitrary list. *)
From Coq Require Import List Arith Bool Lia Sorted.
Require Import C14_Interp.
Import ListNotations.

Definition fidx {A} (p : A -> bool) (l : list A) : nat :=
  match find_index p l with Some i => i | None => length l end.

Lemma fidx_cons {A} (p : A -> bool) a l : fidx p (a :: l) = if p a then 0 else S (fidx p l).
Proof. unfold fidx; cbn [find_index]. destruct (p a); [reflexivity|].
  destruct (find_index p l); reflexivity. Qed.
Lemma fidx_le {A} (p : A -> bool) l : fidx p l <= length l.
Proof. induction l as [|a l IH]; [cbn; lia|]. rewrite fidx_cons. destruct (p a); cbn [length]; lia. Qed.
Lemma fidx_before {A} (p : A -> bool) l d : forall j, j < fidx p l -> p (nth j l d) = false.
Proof. induction l as [|a l IH]; intros j Hj; [cbn in Hj; lia|].
  rewrite fidx_cons in Hj. destruct (p a) eqn:E; [lia|].
  destruct j as [|j]; [exact E|]. cbn [nth]. apply IH. lia. Qed.
Lemma fidx_at {A} (p : A -> bool) l d : fidx p l < length l -> p (nth (fidx p l) l d) = true.
Proof. induction l as [|a l IH]; intros H; [cbn in H; lia|].
  rewrite fidx_cons in *. destruct (p a) eqn:E; [exact E|]. cbn [nth length] in *. apply IH. lia. Qed.

(* a predicate that, once true, stays true along the list *)
Definition mono_along {A} (p : A -> bool) (l : list A) : Prop :=
  forall i j d, i <= j -> j < length l -> p (nth i l d) = true -> p (nth j l d) = true.
Lemma fidx_iff {A} (p : A -> bool) l d : mono_along p l ->
  forall j, j < length l -> (p (nth j l d) = true <-> fidx p l <= j).
Proof. intros Hm j Hj. split.
  - intros Hp. destruct (le_lt_dec (fidx p l) j) as [|Hlt]; [assumption|].
    rewrite (fidx_before p l d j Hlt) in Hp. discriminate.
  - intros Hle. apply (Hm (fidx p l) j d Hle Hj). apply fidx_at. lia. Qed.

Lemma slice_length {A} i j (l : list A) : j <= length l -> length (slice i j l) = j - i.
Proof. intros H. unfold slice. rewrite firstn_length, skipn_length. lia. Qed.
Lemma nth_skipn' {A} i (l : list A) d : forall m, nth m (skipn i l) d = nth (i + m) l d.
Proof. revert l; induction i as [|i IH]; intros l m; [reflexivity|].
  destruct l as [|a l]; [now destruct m|]. cbn [skipn Nat.add nth]. apply IH. Qed.
Lemma nth_firstn_lt {A} k (l : list A) d : forall m, m < k -> nth m (firstn k l) d = nth m l d.
Proof. revert l; induction k as [|k IH]; intros l m Hm; [lia|].
  destruct l as [|a l]; [reflexivity|]. destruct m as [|m]; [reflexivity|]. cbn [firstn nth]. apply IH. lia. Qed.
Lemma slice_nth {A} i j (l : list A) d : forall m, i + m < j -> nth m (slice i j l) d = nth (i + m) l d.
Proof. intros m Hm. unfold slice. rewrite nth_firstn_lt by lia. apply nth_skipn'. Qed.

Lemma nth_map_seq {B} (g : nat -> B) n j d : j < n -> nth j (map g (seq 0 n)) d = g j.
Proof. intros Hj. rewrite (nth_indep _ d (g 0)) by (rewrite map_length, seq_length; exact Hj).
  rewrite map_nth, seq_nth by exact Hj. reflexivity. Qed.
Lemma nth_repeat_any {B} (z : B) n j : nth j (repeat z n) z = z.
Proof. revert j; induction n as [|n IH]; intros [|j]; cbn; auto. Qed.

(* zero padding around a middle block *)
Lemma pad_length {B} (z : B) (mid : list B) fi li n :
  fi <= li -> li <= n -> length mid = li - fi -> length (repeat z fi ++ mid ++ repeat z (n - li)) = n.
Proof. intros. rewrite !app_length, !repeat_length. lia. Qed.
Lemma pad_nth {B} (z : B) (mid : list B) fi li n j :
  fi <= li -> li <= n -> length mid = li - fi ->
  nth j (repeat z fi ++ mid ++ repeat z (n - li)) z =
  if (fi <=? j) && (j <? li) then nth (j - fi) mid z else z.
Proof. intros H1 H2 H3.
  destruct (Nat.leb_spec fi j) as [Hf|Hf]; cbn [andb].
  - rewrite app_nth2 by (rewrite repeat_length; lia). rewrite repeat_length.
    destruct (Nat.ltb_spec j li) as [Hl|Hl].
    + rewrite app_nth1 by lia. reflexivity.
    + rewrite app_nth2 by lia. apply nth_repeat_any.
  - rewrite app_nth1 by (rewrite repeat_length; lia). apply nth_repeat_any. Qed.

Section Pad.
Context {A B : Type}.
Variables (pf pl : A -> bool) (l : list A) (z : B).
Hypothesis mono_f : mono_along pf l.
Hypothesis mono_l : mono_along pl l.
Hypothesis l_f : forall x, pl x = true -> pf x = true.     (* first <= last *)
Local Notation fi := (fidx pf l).
Local Notation li := (fidx pl l).
Local Notation n := (length l).
Definition inside (x : A) : bool := pf x && negb (pl x).

Lemma fi_le_li : fi <= li.
Proof. destruct (le_lt_dec fi li) as [|Hlt]; [assumption|]. exfalso.
  assert (Hn : li < n) by (pose proof (fidx_le pf l); lia).
  assert (a0 : A) by (destruct l; [cbn in Hn; lia|assumption]).
  pose proof (fidx_at pl l a0 Hn) as Hp. apply l_f in Hp.
  apply (fidx_iff pf l a0 mono_f li Hn) in Hp. lia. Qed.
Lemma li_le_n : li <= n.
Proof. apply fidx_le. Qed.
Lemma inside_iff d j : j < n -> (inside (nth j l d) = true <-> fi <= j < li).
Proof. intros Hj. unfold inside. rewrite andb_true_iff, negb_true_iff.
  rewrite (fidx_iff pf l d mono_f j Hj).
  split; intros [H1 H2]; split; try assumption.
  - destruct (le_lt_dec li j) as [Hle|]; [|assumption].
    apply (fidx_iff pl l d mono_l j Hj) in Hle. congruence.
  - apply (fidx_before pl l d). exact H2. Qed.
Lemma inside_false_iff d j : j < n -> (inside (nth j l d) = false <-> ~ (fi <= j < li)).
Proof. intros Hj. rewrite <- (inside_iff d j Hj). destruct (inside (nth j l d)); split; intros H; try congruence; try tauto. Qed.

(* :373-382 with a pointwise interpolant [g] (two or more observations) *)
Definition padded (mid : list A -> list B) : list B :=
  if Nat.eqb fi li then repeat z n else repeat z fi ++ mid (slice fi li l) ++ repeat z (n - li).
Lemma padded_map_length (g : A -> B) : length (padded (map g)) = n.
Proof. unfold padded. destruct (Nat.eqb_spec fi li) as [E|NE]; [apply repeat_length|].
  apply pad_length; [apply fi_le_li|apply li_le_n|]. rewrite map_length. apply slice_length. apply li_le_n. Qed.
Lemma padded_map_nth (g : A -> B) d j : j < n ->
  nth j (padded (map g)) z = if inside (nth j l d) then g (nth j l d) else z.
Proof. intros Hj. unfold padded. pose proof fi_le_li as H1. pose proof li_le_n as H2.
  destruct (Nat.eqb_spec fi li) as [E|NE].
  - rewrite nth_repeat_any. destruct (inside (nth j l d)) eqn:Ei; [|reflexivity].
    apply (inside_iff d j Hj) in Ei. lia.
  - rewrite pad_nth by (try assumption; rewrite map_length; apply slice_length; assumption).
    destruct (inside (nth j l d)) eqn:Ei.
    + apply (inside_iff d j Hj) in Ei.
      replace ((fi <=? j) && (j <? li)) with true
        by (symmetry; apply andb_true_iff; split; [apply Nat.leb_le|apply Nat.ltb_lt]; lia).
      rewrite (nth_indep _ z (g d)) by (rewrite map_length, slice_length by assumption; lia).
      rewrite map_nth. f_equal. rewrite slice_nth by lia. f_equal. lia.
    + apply (inside_false_iff d j Hj) in Ei.
      destruct (Nat.leb_spec fi j); destruct (Nat.ltb_spec j li); cbn [andb]; try reflexivity. lia. Qed.

(* :353-355 one observation: the interpolant returns its single row whatever it is given; the padding has
   the right length exactly when one sample lies inside, which holds when at most one can *)
Hypothesis uniq : forall i j d, i < n -> j < n -> inside (nth i l d) = true -> inside (nth j l d) = true -> i = j.
Lemma one_inside : fi <> li -> li = S fi.
Proof. intros NE. pose proof fi_le_li as H1. pose proof li_le_n as H2.
  assert (a0 : A) by (destruct l; [cbn in *; lia|assumption]).
  destruct (Nat.eq_dec li (S fi)) as [|NE2]; [assumption|]. exfalso.
  assert (Ha : inside (nth fi l a0) = true) by (apply inside_iff; lia).
  assert (Hb : inside (nth (S fi) l a0) = true) by (apply inside_iff; lia).
  pose proof (uniq fi (S fi) a0 ltac:(lia) ltac:(lia) Ha Hb). lia. Qed.
Lemma padded_const_length (y : B) : length (padded (fun _ => [y])) = n.
Proof. unfold padded. destruct (Nat.eqb_spec fi li) as [E|NE]; [apply repeat_length|].
  apply pad_length; [apply fi_le_li|apply li_le_n|]. rewrite (one_inside NE). cbn [length]. lia. Qed.
Lemma padded_const_nth (y : B) d j : j < n ->
  nth j (padded (fun _ => [y])) z = if inside (nth j l d) then y else z.
Proof. intros Hj. unfold padded. pose proof fi_le_li as H1. pose proof li_le_n as H2.
  destruct (Nat.eqb_spec fi li) as [E|NE].
  - rewrite nth_repeat_any. destruct (inside (nth j l d)) eqn:Ei; [|reflexivity].
    apply (inside_iff d j Hj) in Ei. lia.
  - pose proof (one_inside NE) as Hs.
    rewrite pad_nth by (try assumption; rewrite Hs; cbn [length]; lia).
    destruct (inside (nth j l d)) eqn:Ei.
    + apply (inside_iff d j Hj) in Ei.
      replace ((fi <=? j) && (j <? li)) with true
        by (symmetry; apply andb_true_iff; split; [apply Nat.leb_le|apply Nat.ltb_lt]; lia).
      replace (j - fi) with 0 by lia. reflexivity.
    + apply (inside_false_iff d j Hj) in Ei.
      destruct (Nat.leb_spec fi j); destruct (Nat.ltb_spec j li); cbn [andb]; try reflexivity. lia. Qed.
End Pad.

(* sortedness: relation-indexed and position-indexed forms *)
Lemma StronglySorted_nth {A} (R : A -> A -> Prop) l d : StronglySorted R l ->
  forall i j, i < j -> j < length l -> R (nth i l d) (nth j l d).
Proof. induction 1 as [|a l Hs IH Hf]; intros i j Hij Hj; [cbn in Hj; lia|].
  destruct j as [|j]; [lia|]. cbn [length] in Hj. destruct i as [|i]; cbn [nth].
  - rewrite Forall_forall in Hf. apply Hf. apply nth_In. lia.
  - apply IH; lia. Qed.
Lemma nth_StronglySorted {A} (R : A -> A -> Prop) l d :
  (forall i j, i < j -> j < length l -> R (nth i l d) (nth j l d)) -> StronglySorted R l.
Proof. induction l as [|a l IH]; intros H; constructor.
  - apply IH. intros i j Hij Hj. apply (H (S i) (S j)); cbn [length]; lia.
  - apply Forall_forall. intros x Hx. destruct (In_nth l x d Hx) as [m [Hm <-]].
    apply (H 0 (S m)); cbn [length]; lia. Qed.
Lemma StronglySorted_filter_fst {A B} (R : A -> A -> Prop) (q : A * B -> bool) (l : list (A * B)) :
  StronglySorted R (map fst l) -> StronglySorted R (map fst (filter q l)).
Proof. induction l as [|a l IH]; intros H; cbn [filter map]; [constructor|].
  inversion H as [|a' l' Hs Hf]; subst.
  destruct (q a); cbn [map]; [constructor|]; auto.
  rewrite Forall_forall in *. intros x Hx. apply Hf.
  rewrite in_map_iff in *. destruct Hx as [y [<- Hy]]. exists y. split; [reflexivity|].
  apply filter_In in Hy. tauto. Qed.
Lemma map_fst_combine {A B} (la : list A) (lb : list B) : length la = length lb -> map fst (combine la lb) = la.
Proof. revert lb; induction la as [|a la IH]; intros [|b lb] H; cbn in *; try reflexivity; try discriminate.
  f_equal. apply IH. lia. Qed.

Lemma padded_ext {A B} pf pl (l : list A) (z : B) mid mid' :
  (forall x, mid x = mid' x) -> padded pf pl l z mid = padded pf pl l z mid'.
Proof. intros H. unfold padded. now rewrite H. Qed.
Lemma nth_map_lt {A B} (g : A -> B) l z d j : j < length l -> nth j (map g l) z = g (nth j l d).
Proof. intros Hj. rewrite (nth_indep _ z (g d)) by (rewrite map_length; exact Hj). apply map_nth. Qed.
(* everything handed to the interpolant lies inside *)
Lemma slice_inside {A} (pf pl : A -> bool) (l : list A) :
  mono_along pf l -> mono_along pl l -> (forall x, pl x = true -> pf x = true) ->
  forall x, In x (slice (fidx pf l) (fidx pl l) l) -> inside pf pl x = true.
Proof. intros Hf Hl Hlf x Hin.
  pose proof (fidx_le pl l) as Hli.
  destruct (In_nth _ _ x Hin) as [m [Hm <-]]. rewrite slice_length in Hm by exact Hli.
  rewrite slice_nth by lia. apply (inside_iff pf pl l Hf Hl); pose proof (fi_le_li pf pl l Hf Hl Hlf); lia. Qed.
