(* C19 - tie lemmas: the facts regenerated from /repo on every run (coq/gen/Gen_C19.v, harness/translate_c19.py) equal
   the literals the hand-written model was transcribed from.  A source edit of the frame pattern, of a component table or
   of a statement of the modelled functions changes Gen_C19.v and breaks one of these obligations.
   lit_* are the statement sequences (ast.unparse normal form, docstrings dropped) the model was transcribed from;
   lit_load_openpose carries the repaired `fps=fps` (F14). *)
From Coq Require Import String List Arith NArith.
Require Import C19_Tables C19_Layout C19_FrameId Gen_C19.
Import ListNotations.
Open Scope string_scope.

Lemma pattern_tie : Gen_C19.frame_pattern = C19_Tables.frame_pattern.
Proof. reflexivity. Qed.
Lemma components_137_tie : Gen_C19.components_137 = C19_Tables.components_137.
Proof. reflexivity. Qed.
Lemma components_135_tie : Gen_C19.components_135 = C19_Tables.components_135.
Proof. reflexivity. Qed.
(* the executable tables are the string tables, code point by code point *)
Lemma layout_tie : comps137 = map enc_comp Gen_C19.components_137 /\ comps135 = map enc_comp Gen_C19.components_135 /\
                   pattern_k = key_of_string Gen_C19.frame_pattern.
Proof. repeat split; vm_compute; reflexivity. Qed.
(* the modelled meaning of the pattern: "(?:^|\D)(\d+)\" followed literally by the SUFFIX constant of C19_FrameId.v *)
Lemma pattern_meaning_tie :
  key_of_string Gen_C19.frame_pattern = ([40; 63; 58; 94; 124; 92; 68; 41; 40; 92; 100; 43; 41; 92]%N ++ SUFFIX)%list.
Proof. vm_compute. reflexivity. Qed.

Definition lit_load_openpose : list string :=
  [ "def load_openpose(frames, fps, width, height, depth, num_frames)";
    "dimensions = PoseHeaderDimensions(width=width, height=height, depth=depth)";
    "header: PoseHeader = PoseHeader(version=0.2, dimensions=dimensions, components=OpenPose_Components)";
    "total_points = header.total_points()";
    "if num_frames is None:
    num_frames = max(frames.keys()) + 1";
    "people = max([len(frame['people']) for frame in frames.values()])";
    "data = np.zeros(shape=(num_frames, people, total_points, 2), dtype=np.float32)";
    "confidence = np.zeros(shape=(num_frames, people, total_points), dtype=np.float32)";
    "for frame_id, frame in frames.items():
    for person_id, person in enumerate(frame['people']):
        keypoint_id = 0
        for component in header.components:
            numbers = person[component.name]
            for k in range(0, len(numbers), len(component.format)):
                data[frame_id, person_id, keypoint_id, 0] = numbers[k + 0]
                data[frame_id, person_id, keypoint_id, 1] = numbers[k + 1]
                confidence[frame_id, person_id, keypoint_id] = numbers[k + 2]
                keypoint_id += 1";
    "mask = confidence == 0";
    "stacked_confidence = np.stack([mask, mask], axis=3)";
    "masked_data = ma.masked_array(data, mask=stacked_confidence)";
    "body = NumPyPoseBody(fps=fps, data=masked_data, confidence=confidence)";
    "return Pose(header, body)" ].
Lemma src_load_openpose_tie : Gen_C19.src_load_openpose = lit_load_openpose.
Proof. reflexivity. Qed.
Definition lit_get_frame_id : list string :=
  [ "def get_frame_id(filename, pattern)";
    "m = re.findall(pattern, filename)";
    "frame_id = int(m[-1])";
    "return frame_id" ].
Lemma src_get_frame_id_tie : Gen_C19.src_get_frame_id = lit_get_frame_id.
Proof. reflexivity. Qed.
Definition lit_load_frames_directory_dict : list string :=
  [ "def load_frames_directory_dict(directory, pattern)";
    "frames = {}";
    "with os.scandir(directory) as entry_iterator:
    for entry in entry_iterator:
        with open(entry.path, 'r') as f:
            frame_id = get_frame_id(entry.name, pattern=pattern)
            frame_dict = json.load(f)
            frames[frame_id] = frame_dict";
    "return frames" ].
Lemma src_load_frames_directory_dict_tie : Gen_C19.src_load_frames_directory_dict = lit_load_frames_directory_dict.
Proof. reflexivity. Qed.
Definition lit_load_openpose_directory : list string :=
  [ "def load_openpose_directory(directory, fps, width, height, depth, num_frames)";
    "frames = load_frames_directory_dict(directory=directory, pattern=OPENPOSE_FRAME_PATTERN)";
    "return load_openpose(frames, fps=fps, width=width, height=height, depth=depth, num_frames=num_frames)" ].
Lemma src_load_openpose_directory_tie : Gen_C19.src_load_openpose_directory = lit_load_openpose_directory.
Proof. reflexivity. Qed.
Definition lit_limbs_index : list string :=
  [ "def limbs_index(limbs, points)";
    "return [(points.index(p1), points.index(p2)) for p1, p2 in limbs]" ].
Lemma src_limbs_index_tie : Gen_C19.src_limbs_index = lit_limbs_index.
Proof. reflexivity. Qed.
Definition lit_load_openpose_135_directory : list string :=
  [ "def load_openpose_135_directory(*args, **kwargs)";
    "pose = load_openpose_directory(*args, **kwargs)";
    "pose.body.data = pose.body.data[:, :, :135, :]";
    "pose.body.confidence = pose.body.confidence[:, :, :135]";
    "pose.header.components = OpenPose_Components";
    "return pose" ].
Lemma src_load_openpose_135_directory_tie : Gen_C19.src_load_openpose_135_directory = lit_load_openpose_135_directory.
Proof. reflexivity. Qed.
