(* C10 - tie lemmas: the facts regenerated from the source on every run (coq/gen/Gen_C10.v, by
   harness/translate_c10.py) equal the literals the model in model/C10_Masked.v was transcribed from.
   An edit to one of the four masked-tensor sources that changes a modelled statement, a white-list or one of the
   five switches breaks one of these proofs. *)
From Coq Require Import String List.
Require Import C10_Masked Gen_C10.
Import ListNotations.
Open Scope string_scope.

(* the five switches, both frameworks: the source is in the repaired shape *)
Definition gen_cfg_torch : cfg := {| matmul_rowall := torch_matmul_rowall; plain_bcast := torch_plain_bcast; unsq_listed := torch_unsq_listed;
                                     var_keepdims := torch_var_keepdims; zf_where := torch_zf_where |}.
Definition gen_cfg_tf : cfg := {| matmul_rowall := tf_matmul_rowall; plain_bcast := tf_plain_bcast; unsq_listed := tf_unsq_listed;
                                  var_keepdims := tf_var_keepdims; zf_where := tf_zf_where |}.
Lemma cfg_torch_tie : gen_cfg_torch = repaired.
Proof. reflexivity. Qed.
Lemma cfg_tf_tie : gen_cfg_tf = repaired.
Proof. reflexivity. Qed.

(* doesnt_change_mask: exactly the elementwise functions of the model ([uname]); in particular nothing that changes the shape *)
Definition uname_name (u : uname) : string :=
  match u with USqrt => "sqrt" | USquare => "square" | UCos => "cos" | USin => "sin" | UTan => "tan"
             | UAcos => "acos" | UAsin => "asin" | UAtan => "atan" end.
Definition all_unames : list uname := [UAcos; UAsin; UAtan; UCos; USin; USqrt; USquare; UTan].
Lemma torch_whitelist_tie : torch_whitelist = map uname_name all_unames.
Proof. reflexivity. Qed.
Lemma tf_whitelist_tie : tf_whitelist = map uname_name all_unames.
Proof. reflexivity. Qed.

(* the statements the model was transcribed from (docstrings dropped; the five switch sites replaced by tokens) *)
Definition lit_torch_methods : list (string * list string) :=
  [ ("__init__",
    [ "def(self, tensor: torch.Tensor, mask: torch.Tensor=None)";
      "self.tensor = tensor";
      "self.mask = mask if mask is not None else torch.ones(tensor.shape, dtype=torch.bool).to(tensor.device)" ]);
  ("__getitem__",
    [ "def(self, key)";
      "tensor = self.tensor[key]";
      "mask = self.mask[key]";
      "return MaskedTensor(tensor=tensor, mask=mask)" ]);
  ("arithmetic",
    [ "def(self, action: str, other)";
      "if isinstance(other, MaskedTensor):
    tensor = getattr(self.tensor, action)(other.tensor)
    mask = self.mask & other.mask
else:
    tensor = getattr(self.tensor, action)(other)
    mask = <MASK-OF-PLAIN-OPERAND>";
      "return MaskedTensor(tensor=tensor, mask=mask)" ]);
  ("__add__",
    [ "def(self, other)";
      "return self.arithmetic('__add__', other)" ]);
  ("__sub__",
    [ "def(self, other)";
      "return self.arithmetic('__sub__', other)" ]);
  ("__mul__",
    [ "def(self, other)";
      "return self.arithmetic('__mul__', other)" ]);
  ("__truediv__",
    [ "def(self, other)";
      "return self.arithmetic('__truediv__', other)" ]);
  ("sum",
    [ "def(self, dim: int)";
      "tensor = self.tensor.sum(dim=dim)";
      "mask = self.mask.prod(dim=dim).bool()";
      "return MaskedTensor(tensor=tensor, mask=mask)" ]);
  ("zero_filled",
    [ "def(self)";
      "return <ZERO-FILLED>" ]);
  ("div",
    [ "def(self, other: 'MaskedTensor', in_place=False, update_mask=True)";
      "tensor = torch.div(self.tensor, other.tensor, out=self.tensor if in_place else None)";
      "mask = self.mask & other.mask if update_mask else <MASK-OF-PLAIN-OPERAND>";
      "return MaskedTensor(tensor, mask)" ]);
  ("matmul",
    [ "def(self, matrix: torch.Tensor)";
      "tensor = torch.matmul(self.tensor, matrix.to(self.device))";
      "return MaskedTensor(tensor, <MATMUL-MASK>)" ]);
  ("transpose",
    [ "def(self, dim0, dim1)";
      "tensor = self.tensor.transpose(dim0, dim1)";
      "mask = self.mask.transpose(dim0, dim1)";
      "return MaskedTensor(tensor=tensor, mask=mask)" ]);
  ("permute",
    [ "def(self, dims: tuple)";
      "tensor = self.tensor.permute(dims)";
      "mask = self.mask.permute(dims)";
      "return MaskedTensor(tensor=tensor, mask=mask)" ]);
  ("squeeze",
    [ "def(self, dim)";
      "tensor = self.tensor.squeeze(dim)";
      "mask = self.mask.squeeze(dim)";
      "return MaskedTensor(tensor=tensor, mask=mask)" ]);
  ("split",
    [ "def(self, split_size_or_sections, dim=0)";
      "tensors = torch.split(self.tensor, split_size_or_sections, dim)";
      "masks = torch.split(self.mask, split_size_or_sections, dim)";
      "return [MaskedTensor(tensor=tensor, mask=mask) for tensor, mask in zip(tensors, masks)]" ]);
  ("reshape",
    [ "def(self, shape: tuple)";
      "tensor = self.tensor.reshape(shape=shape)";
      "mask = self.mask.reshape(shape=shape)";
      "return MaskedTensor(tensor=tensor, mask=mask)" ]) ].

Lemma torch_methods_tie : torch_methods = lit_torch_methods.
Proof. reflexivity. Qed.

Definition lit_torch_static : list (string * list string) :=
  [ ("TorchFallback.__getattr__",
    [ "def(cls, attr)";
      "def func(*args, **kwargs):
    if len(args) > 0 and isinstance(args[0], MaskedTensor):
        args = list(args)
        mask = args[0].mask
        args[0] = args[0].tensor
        res = getattr(torch, attr)(*args, **kwargs)
        if attr in TorchFallback.doesnt_change_mask:
            return MaskedTensor(res, mask)
        else:
            return res
    else:
        return getattr(torch, attr)(*args, **kwargs)";
      "return func" ]);
  ("cat",
    [ "def(tensors: List[Union[MaskedTensor, torch.Tensor]], dim: int)";
      "tensors: List[MaskedTensor] = [t if isinstance(t, MaskedTensor) else MaskedTensor(tensor=t) for t in tensors]";
      "tensor = torch.cat([t.tensor for t in tensors], dim=dim)";
      "mask = torch.cat([t.mask for t in tensors], dim=dim)";
      "return MaskedTensor(tensor=tensor, mask=mask)" ]);
  ("stack",
    [ "def(tensors: List[MaskedTensor], dim: int)";
      "tensor = torch.stack([t.tensor for t in tensors], dim=dim)";
      "mask = torch.stack([t.mask for t in tensors], dim=dim)";
      "return MaskedTensor(tensor=tensor, mask=mask)" ]);
  ("squeeze",
    [ "def(masked_tensor: MaskedTensor)";
      "tensor = torch.squeeze(masked_tensor.tensor)";
      "mask = torch.squeeze(masked_tensor.mask)";
      "return MaskedTensor(tensor=tensor, mask=mask)" ]) ].

Lemma torch_static_tie : torch_static = lit_torch_static.
Proof. reflexivity. Qed.

Definition lit_tf_methods : list (string * list string) :=
  [ ("__init__",
    [ "def(self, tensor: tf.Tensor, mask: tf.Tensor=None)";
      "self.tensor = tensor";
      "self.mask = mask if mask is not None else tf.ones(tensor.shape, dtype=tf.bool)" ]);
  ("__getitem__",
    [ "def(self, key)";
      "if isinstance(key, list):
    key = tf.constant(key, dtype=tf.int32)
    tensor = tf.gather(self.tensor, key)
    mask = tf.gather(self.mask, key)
else:
    tensor = self.tensor[key]
    mask = self.mask[key]";
      "return MaskedTensor(tensor=tensor, mask=mask)" ]);
  ("arithmetic",
    [ "def(self, action: str, other)";
      "if isinstance(other, MaskedTensor):
    tensor = getattr(self.tensor, action)(other.tensor)
    mask = self.mask & other.mask
else:
    tensor = getattr(self.tensor, action)(other)
    mask = <MASK-OF-PLAIN-OPERAND>";
      "return MaskedTensor(tensor=tensor, mask=mask)" ]);
  ("__add__",
    [ "def(self, other)";
      "return self.arithmetic('__add__', other)" ]);
  ("__sub__",
    [ "def(self, other)";
      "return self.arithmetic('__sub__', other)" ]);
  ("__mul__",
    [ "def(self, other)";
      "return self.arithmetic('__mul__', other)" ]);
  ("__truediv__",
    [ "def(self, other)";
      "return self.arithmetic('__truediv__', other)" ]);
  ("__rtruediv__",
    [ "def(self, other)";
      "return self.arithmetic('__rtruediv__', other)" ]);
  ("square",
    [ "def(self)";
      "tensor = tf.math.square(self.tensor)";
      "return MaskedTensor(tensor=tensor, mask=self.mask)" ]);
  ("sqrt",
    [ "def(self)";
      "tensor = tf.math.sqrt(self.tensor)";
      "return MaskedTensor(tensor=tensor, mask=self.mask)" ]);
  ("sum",
    [ "def(self, axis)";
      "tensor = tf.math.reduce_sum(self.tensor, axis=axis)";
      "mask = tf.cast(tf.math.reduce_prod(tf.cast(self.mask, tf.int32), axis=axis), tf.bool)";
      "return MaskedTensor(tensor=tensor, mask=mask)" ]);
  ("fix_nan",
    [ "def(self)";
      "self.tensor = tf.where(tf.math.is_finite(self.tensor), self.tensor, tf.zeros_like(self.tensor))";
      "return self" ]);
  ("zero_filled",
    [ "def(self)";
      "return <ZERO-FILLED>" ]);
  ("matmul",
    [ "def(self, matrix: tf.Tensor)";
      "tensor = tf.matmul(self.tensor, matrix)";
      "return MaskedTensor(tensor=tensor, mask=<MATMUL-MASK>)" ]);
  ("transpose",
    [ "def(self, perm: List[int])";
      "tensor = tf.transpose(self.tensor, perm=perm)";
      "mask = tf.transpose(self.mask, perm=perm)";
      "return MaskedTensor(tensor=tensor, mask=mask)" ]);
  ("squeeze",
    [ "def(self, axis)";
      "tensor = tf.squeeze(self.tensor, axis=axis)";
      "mask = tf.squeeze(self.mask, axis=axis)";
      "return MaskedTensor(tensor=tensor, mask=mask)" ]);
  ("split",
    [ "def(self, split_size_or_sections, axis=0)";
      "tensors = tf.split(self.tensor, split_size_or_sections, axis)";
      "masks = tf.split(self.mask, split_size_or_sections, axis)";
      "return [MaskedTensor(tensor=tensor, mask=mask) for tensor, mask in zip(tensors, masks)]" ]);
  ("reshape",
    [ "def(self, shape: tuple)";
      "tensor = tf.reshape(self.tensor, shape=shape)";
      "mask = tf.reshape(self.mask, shape=shape)";
      "return MaskedTensor(tensor=tensor, mask=mask)" ]);
  ("gather",
    [ "def(self, indexes)";
      "tensor = tf.gather(self.tensor, indexes)";
      "mask = tf.gather(self.mask, indexes)";
      "return MaskedTensor(tensor=tensor, mask=mask)" ]);
  ("mean",
    [ "<MEAN-HEAD>";
      "tensor = tf.math.divide(mt_sum, mt_count)";
      "mask = tf.cast(mt_count, tf.bool)";
      "mt = MaskedTensor(tensor=tensor, mask=mask)";
      "return mt.fix_nan()" ]);
  ("variance",
    [ "def(self, axis=None)";
      "means = <MEAN-ALONG-AXIS>";
      "diff = self - means";
      "squared_deviations = diff.square()";
      "return squared_deviations.mean(axis=axis)" ]);
  ("std",
    [ "def(self, axis=None)";
      "variance = self.variance(axis=axis)";
      "return variance.sqrt()" ]) ].

Lemma tf_methods_tie : tf_methods = lit_tf_methods.
Proof. reflexivity. Qed.

Definition lit_tf_static : list (string * list string) :=
  [ ("TensorflowFallback.__getattr__",
    [ "def(cls, attr)";
      "def func(*args, **kwargs):
    if len(args) > 0 and isinstance(args[0], MaskedTensor):
        args = list(args)
        mask = args[0].mask
        args[0] = args[0].tensor
        res = getattr(tensorflow, attr)(*args, **kwargs)
        if attr in TensorflowFallback.doesnt_change_mask:
            return MaskedTensor(res, mask)
        else:
            return res
    else:
        return getattr(tensorflow, attr)(*args, **kwargs)";
      "return func" ]);
  ("concat",
    [ "def(tensors: List[Union[MaskedTensor, tensorflow.Tensor]], axis: int)";
      "tensors: List[MaskedTensor] = [t if isinstance(t, MaskedTensor) else MaskedTensor(tensor=t) for t in tensors]";
      "tensor = tensorflow.concat([t.tensor for t in tensors], axis=axis)";
      "mask = tensorflow.concat([t.mask for t in tensors], axis=axis)";
      "return MaskedTensor(tensor=tensor, mask=mask)" ]);
  ("stack",
    [ "def(tensors: List[MaskedTensor], axis: int)";
      "tensor = tensorflow.stack([t.tensor for t in tensors], axis=axis)";
      "mask = tensorflow.stack([t.mask for t in tensors], axis=axis)";
      "return MaskedTensor(tensor=tensor, mask=mask)" ]) ].

Lemma tf_static_tie : tf_static = lit_tf_static.
Proof. reflexivity. Qed.
