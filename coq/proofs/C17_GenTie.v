(* C17 - tie lemmas: the facts regenerated from /repo on every run (coq/gen/Gen_C17.v, harness/translate_c17.py)
   equal the text the hand-written models were transcribed from (model/C17_Source.v). *)
From Coq Require Import String List Bool.
Require Import Num Gen_C17 C17_Source C17_Run.
Import ListNotations.
Open Scope string_scope.

Lemma tie_torch_representations :
  Gen_C17.torch_distance_distance = C17_Source.torch_distance_distance /\
  Gen_C17.torch_distance_forward = C17_Source.torch_distance_forward /\
  Gen_C17.torch_angle_forward = C17_Source.torch_angle_forward /\
  Gen_C17.torch_inner_vectors_norm = C17_Source.torch_inner_vectors_norm /\
  Gen_C17.torch_inner_forward = C17_Source.torch_inner_forward /\
  Gen_C17.torch_pld_init = C17_Source.torch_pld_init /\
  Gen_C17.torch_pld_forward = C17_Source.torch_pld_forward /\
  Gen_C17.torch_points_forward_prefix = C17_Source.torch_points_forward_prefix /\
  Gen_C17.torch_points_flatten_kind = C17_Source.torch_points_flatten_kind.
Proof. repeat split; reflexivity. Qed.

Lemma tie_tf_representations :
  Gen_C17.tf_distance_distance = C17_Source.tf_distance_distance /\
  Gen_C17.tf_distance_call = C17_Source.tf_distance_call /\
  Gen_C17.tf_angle_call = C17_Source.tf_angle_call /\
  Gen_C17.tf_inner_vectors_norm = C17_Source.tf_inner_vectors_norm /\
  Gen_C17.tf_inner_call = C17_Source.tf_inner_call /\
  Gen_C17.tf_pld_init = C17_Source.tf_pld_init /\
  Gen_C17.tf_pld_call = C17_Source.tf_pld_call.
Proof. repeat split; reflexivity. Qed.

Lemma tie_numpy_distance :
  Gen_C17.np_distance_distance = C17_Source.np_distance_distance /\
  Gen_C17.np_distance_call = C17_Source.np_distance_call.
Proof. repeat split; reflexivity. Qed.

Lemma tie_masked_tensor :
  Gen_C17.masked_arithmetic = C17_Source.masked_arithmetic /\
  Gen_C17.masked_add = C17_Source.masked_add /\
  Gen_C17.masked_sub = C17_Source.masked_sub /\
  Gen_C17.masked_mul = C17_Source.masked_mul /\
  Gen_C17.masked_truediv = C17_Source.masked_truediv /\
  Gen_C17.masked_pow = C17_Source.masked_pow /\
  Gen_C17.masked_sum = C17_Source.masked_sum /\
  Gen_C17.masked_fix_nan = C17_Source.masked_fix_nan /\
  Gen_C17.masked_div = C17_Source.masked_div /\
  Gen_C17.masked_getitem = C17_Source.masked_getitem /\
  Gen_C17.masked_permute = C17_Source.masked_permute /\
  Gen_C17.masked_split = C17_Source.masked_split /\
  Gen_C17.masked_squeeze = C17_Source.masked_squeeze /\
  Gen_C17.masked_transpose = C17_Source.masked_transpose /\
  Gen_C17.masked_zero_filled_kind = C17_Source.masked_zero_filled_kind /\
  Gen_C17.torch_fallback_getattr = C17_Source.torch_fallback_getattr /\
  Gen_C17.masked_torch_stack = C17_Source.masked_torch_stack.
Proof. repeat split; reflexivity. Qed.

Lemma tie_pose_representation :
  Gen_C17.repr_init = C17_Source.repr_init /\
  Gen_C17.repr_calc_output_size = C17_Source.repr_calc_output_size /\
  Gen_C17.repr_get_limbs_points = C17_Source.repr_get_limbs_points /\
  Gen_C17.repr_get_triangles_points = C17_Source.repr_get_triangles_points /\
  Gen_C17.repr_get_points = C17_Source.repr_get_points /\
  Gen_C17.repr_call = C17_Source.repr_call /\
  Gen_C17.torch_repr_init = C17_Source.torch_repr_init /\
  Gen_C17.torch_repr_group_embeds = C17_Source.torch_repr_group_embeds /\
  Gen_C17.torch_repr_permute = C17_Source.torch_repr_permute /\
  Gen_C17.tf_repr_group_embeds = C17_Source.tf_repr_group_embeds /\
  Gen_C17.tf_repr_get_points = C17_Source.tf_repr_get_points /\
  Gen_C17.tf_repr_permute = C17_Source.tf_repr_permute.
Proof. repeat split; reflexivity. Qed.

(* the model keeps the mask through sqrt, square and acos: they must be on the white-list (membership, so
   that harmless additions to the list re-prove) *)
Lemma tie_doesnt_change_mask :
  forallb (fun s => existsb (String.eqb s) Gen_C17.doesnt_change_mask) ["sqrt"; "square"; "acos"] = true.
Proof. reflexivity. Qed.
(* the executed instance is Num.F_ops field for field *)
Lemma F17_ops_is_F_ops : F17_ops = F_ops.
Proof. reflexivity. Qed.
