(* C13 - normalize_distribution / unnormalize_distribution over the reals, for an arbitrary grouping [key]
   of the cells (reducing over a leading block of axes is key i = i mod G). *)
From Coq Require Import Reals List Lra Lia Arith Bool.
Require Import Num C13_Normalize C13_RBase.
Import ListNotations.
Open Scope R_scope.

Notation rcell := (C13_Normalize.cell R_ops).
Notation rgvals := (gvals R_ops).

(* ---------- indexed lists ---------- *)
Fixpoint iForall {A} (P : nat -> A -> Prop) (i : nat) (l : list A) : Prop :=
  match l with [] => True | a :: r => P i a /\ iForall P (S i) r end.
Lemma iForall_nth {A} (P : nat -> A -> Prop) l : forall i,
  (forall k a, nth_error l k = Some a -> P (i + k)%nat a) -> iForall P i l.
Proof. induction l as [|a l IH]; intros i H; [exact I|]. split.
  - specialize (H 0%nat a eq_refl). rewrite Nat.add_0_r in H. exact H.
  - apply IH. intros k x Hk. specialize (H (S k) x Hk). rewrite Nat.add_succ_r in H. exact H. Qed.
Lemma iForall_imp {A} (P Q : nat -> A -> Prop) l : forall i,
  (forall k a, P k a -> Q k a) -> iForall P i l -> iForall Q i l.
Proof. induction l as [|a l IH]; intros i H HP; [exact I|]. destruct HP as [H1 H2]. split; [apply H; exact H1|apply IH; assumption]. Qed.
Lemma imap_ext_i {A B} (f g : nat -> A -> B) l : forall i,
  iForall (fun k a => f k a = g k a) i l -> imap f i l = imap g i l.
Proof. induction l as [|a l IH]; intros i H; [reflexivity|]. destruct H as [H1 H2]. cbn [imap]. rewrite H1, (IH _ H2). reflexivity. Qed.
Lemma imap_imap {A B C} (f : nat -> B -> C) (g : nat -> A -> B) l : forall i,
  imap f i (imap g i l) = imap (fun k a => f k (g k a)) i l.
Proof. induction l as [|a l IH]; intros i; [reflexivity|]. cbn [imap]. rewrite IH. reflexivity. Qed.
Lemma map_imap {A B C} (f : B -> C) (g : nat -> A -> B) l : forall i, map f (imap g i l) = imap (fun k a => f (g k a)) i l.
Proof. induction l as [|a l IH]; intros i; [reflexivity|]. cbn [imap map]. rewrite IH. reflexivity. Qed.
Lemma map_as_imap {A B} (f : A -> B) l : forall i, map f l = imap (fun _ a => f a) i l.
Proof. induction l as [|a l IH]; intros i; [reflexivity|]. cbn [imap map]. rewrite (IH (S i)). reflexivity. Qed.

(* ---------- group values ---------- *)
Section Key.
Variable key : nat -> nat.
Lemma gvals_in cs : forall i k (c : rcell), nth_error cs k = Some c -> cm c = false ->
  In (cv c) (rgvals key (key (i + k)%nat) i cs).
Proof. induction cs as [|a cs IH]; intros i k c Hk Hc; [destruct k; discriminate|]. destruct k as [|k].
  - injection Hk as ->. cbn [gvals]. rewrite Nat.add_0_r, Nat.eqb_refl, Hc. left. reflexivity.
  - cbn [nth_error] in Hk. cbn [gvals]. rewrite Nat.add_succ_r. change (S (i + k)) with (S i + k)%nat.
    destruct (Nat.eqb (key i) (key (S i + k)) && negb (cm a)); [right|]; apply IH; assumption. Qed.
(* cells rewritten in place, masks kept, observed cells of group g mapped by h *)
Lemma gvals_imap (f : nat -> rcell -> rcell) (h : R -> R) g cs : forall i,
  iForall (fun k c => cm (f k c) = cm c /\ (key k = g -> cm c = false -> cv (f k c) = h (cv c))) i cs ->
  rgvals key g i (imap f i cs) = map h (rgvals key g i cs).
Proof. induction cs as [|a cs IH]; intros i H; [reflexivity|]. destruct H as [[Hm Hv] H]. cbn [imap gvals].
  rewrite Hm. destruct (Nat.eqb (key i) g) eqn:Ek, (cm a) eqn:Ea; cbn [andb negb map]; rewrite ?(IH _ H); try reflexivity.
  f_equal. apply Hv; [apply Nat.eqb_eq; exact Ek|reflexivity]. Qed.

Variable G : nat.
Hypothesis HG : forall i, (key i < G)%nat.
Variable cs : list rcell.
Let mu := fst (stats R_ops key G cs).
Let sd := snd (stats R_ops key G cs).
Definition observed (g : nat) : Prop := rgvals key g 0 cs <> [].

Lemma stat_mu g : (g < G)%nat -> stat R_ops mu g = @mkcell R_ops (Nat.eqb (gcount R_ops key cs g) 0) (gmean R_ops key cs g).
Proof. intros Hg. unfold mu, stats, stat. cbn [fst].
  exact (nth_map_seq (fun g => @mkcell R_ops (Nat.eqb (gcount R_ops key cs g) 0) (gmean R_ops key cs g)) G g _ Hg). Qed.
Lemma stat_sd g : (g < G)%nat -> stat R_ops sd g = @mkcell R_ops (Nat.eqb (gcount R_ops key cs g) 0) (gstd R_ops key cs g).
Proof. intros Hg. unfold sd, stats, stat. cbn [snd].
  exact (nth_map_seq (fun g => @mkcell R_ops (Nat.eqb (gcount R_ops key cs g) 0) (gstd R_ops key cs g)) G g _ Hg). Qed.
Lemma count_of_cell k (c : rcell) : nth_error cs k = Some c -> cm c = false -> Nat.eqb (gcount R_ops key cs (key k)) 0 = false.
Proof. intros Hk Hc. apply Nat.eqb_neq. unfold gcount. pose proof (gvals_in cs 0 k c Hk Hc) as Hin. cbn [Nat.add] in Hin.
  destruct (rgvals key (key k) 0 cs); [destruct Hin|cbn [length]; lia]. Qed.

(* the cells after (x - mu) / std, one by one *)
Definition norm_cell (k : nat) (c : rcell) : rcell :=
  if cm c then @mkcell R_ops true (cv c) else @mkcell R_ops false ((cv c - gmean R_ops key cs (key k)) / gstd R_ops key cs (key k)).
Lemma apply_stats_eq : apply_stats R_ops key mu sd cs = imap norm_cell 0 cs.
Proof. unfold apply_stats. apply imap_ext_i. apply iForall_nth. intros k c Hk. cbn [Nat.add].
  unfold norm_cell. destruct (cm c) eqn:Ec; [reflexivity|]. rewrite stat_mu, stat_sd by apply HG. cbn [cm cv].
  rewrite (count_of_cell k c Hk Ec). reflexivity. Qed.
Lemma gvals_normalized g :
  rgvals key g 0 (imap norm_cell 0 cs) = map (fun v => (v - gmean R_ops key cs g) * / gstd R_ops key cs g) (rgvals key g 0 cs).
Proof. apply gvals_imap. apply iForall_nth. intros k c _. cbn [Nat.add]. unfold norm_cell. split.
  - destruct (cm c); reflexivity.
  - intros <- Hc. rewrite Hc. reflexivity. Qed.

Lemma var_nonneg g : 0 <= rmean (map (fun v => sq R_ops (sub R_ops v (gmean R_ops key cs g))) (rgvals key g 0 cs)).
Proof. rewrite rmean_eq. apply Rmult_le_pos.
  - apply rsum_nonneg. intros x Hx. apply in_map_iff in Hx. destruct Hx as [v [<- _]]. unfold sq. rsimp. apply Rle_0_sqr.
  - rewrite map_length. destruct (length (rgvals key g 0 cs)); [cbn [INR]; rewrite Rinv_0; lra|].
    left. apply Rinv_0_lt_compat. apply lt_0_INR. lia. Qed.

Theorem distribution_post g : observed g -> gstd R_ops key cs g <> 0 ->
  let out := fst (normalize_distribution R_ops key key G cs) in
  gmean R_ops key out g = 0 /\ gstd R_ops key out g = 1.
Proof. intros Hobs Hsd out. unfold out, normalize_distribution. cbn [fst]. fold mu sd. rewrite apply_stats_eq.
  assert (Hm : gmean R_ops key (imap norm_cell 0 cs) g = 0).
  { unfold gmean at 1. rewrite gvals_normalized. rewrite rmean_map_affine by exact Hobs.
    rewrite map_id. unfold gmean. req. ring. }
  split; [exact Hm|]. unfold gstd. rewrite Hm. rewrite gvals_normalized, map_map.
  set (m := gmean R_ops key cs g) in *. set (s := gstd R_ops key cs g) in *.
  rewrite (rmean_map_ext _ (fun v => sq R_ops (sub R_ops v m) * (/ s * / s))) by (intros v _; unfold sq; rsimp; ring).
  rewrite rmean_map_scal. pose proof (var_nonneg g) as Hv. fold m in Hv.
  set (var := rmean (map (fun v => sq R_ops (sub R_ops v m)) (rgvals key g 0 cs))) in *.
  assert (Hs : s * s = var) by (unfold s, gstd; fold m; fold var; rsimp; apply sqrt_sqrt; exact Hv).
  change (rsqrt (var * (/ s * / s)) = 1). replace (var * (/ s * / s)) with 1 by (rewrite <- Hs; field; exact Hsd). apply sqrt_1. Qed.

Theorem distribution_mask_unchanged :
  map cm (fst (normalize_distribution R_ops key key G cs)) = map cm cs.
Proof. unfold normalize_distribution. cbn [fst]. fold mu sd. rewrite apply_stats_eq.
  rewrite map_imap, (map_as_imap cm cs 0). apply imap_ext_i. apply iForall_nth. intros k c _.
  unfold norm_cell. destruct (cm c) eqn:E; cbn [cm]; congruence. Qed.

Theorem unnormalize_inverse :
  (forall g, observed g -> gstd R_ops key cs g <> 0) ->
  let r := normalize_distribution R_ops key key G cs in
  cfilled R_ops (unnormalize_distribution R_ops key (fst (snd r)) (snd (snd r)) (fst r)) = cfilled R_ops cs.
Proof. intros Hsd r. unfold r, normalize_distribution. cbn [fst snd]. fold mu sd. rewrite apply_stats_eq.
  unfold unnormalize_distribution, cfilled. rewrite imap_imap, map_imap, (map_as_imap _ cs 0).
  apply imap_ext_i. apply iForall_nth. intros k c Hk. cbn [Nat.add]. unfold norm_cell.
  destruct (cm c) eqn:Ec; cbn [cm cv orb]; [reflexivity|].
  rewrite stat_mu, stat_sd by apply HG. cbn [cm cv]. rewrite (count_of_cell k c Hk Ec). cbn [orb]. cbn [cm].
  destruct c as [m v]. cbn [cm cv] in *. subst m. f_equal.
  assert (Ho : observed (key k)).
  { unfold observed. pose proof (gvals_in cs 0 k _ Hk eq_refl) as Hin. cbn [Nat.add] in Hin. intros E. rewrite E in Hin. destruct Hin. }
  specialize (Hsd _ Ho). rsimp. field. exact Hsd. Qed.
End Key.

(* ---------- axis tuples that are not a leading block: REFUTED ----------
   shape (2, 2, 1, 1), axis = (1,): the statistics have shape (2, 1, 1) = one entry per frame, but broadcasting
   right-aligns them with the (people, points, dims) axes, so cell (f, p) meets the statistics of frame p. *)
Definition nl_g (i : nat) : nat := Nat.div i 2.       (* group = frame *)
Definition nl_b (i : nat) : nat := Nat.modulo i 2.    (* statistics entry met by broadcasting = person index *)
Definition nl_cells : list rcell :=
  [@mkcell R_ops false 0; @mkcell R_ops false 2; @mkcell R_ops false 10; @mkcell R_ops false 14].
Lemma nl_std_pos g : (g < 2)%nat -> 0 < gstd R_ops nl_g nl_cells g.
Proof. intros Hg. destruct g as [|[|g]]; [| |lia];
  unfold gstd, gmean, gvals, nl_cells, nl_g; cbn -[Rplus Rmult Rminus Rdiv R_sqrt.sqrt IZR]; apply sqrt_lt_R0; lra. Qed.
Theorem distribution_nonleading_refuted :
  (forall g, (g < 2)%nat -> observed nl_g nl_cells g /\ gstd R_ops nl_g nl_cells g <> 0) /\
  gmean R_ops nl_g (fst (normalize_distribution R_ops nl_g nl_b 2 nl_cells)) 0 <> 0.
Proof. split.
  - intros g Hg. split; [destruct g as [|[|g]]; [discriminate|discriminate|lia]|]. pose proof (nl_std_pos g Hg). lra.
  - pose proof (nl_std_pos 0 ltac:(lia)) as H0. pose proof (nl_std_pos 1 ltac:(lia)) as H1.
    set (s0 := gstd R_ops nl_g nl_cells 0) in *. set (s1 := gstd R_ops nl_g nl_cells 1) in *.
    assert (E : gmean R_ops nl_g (fst (normalize_distribution R_ops nl_g nl_b 2 nl_cells)) 0
                = ((0 - (0 + (2 + 0)) / 2) / s0 + ((2 - (10 + (14 + 0)) / 2) / s1 + 0)) / 2).
    { unfold s0, s1. unfold normalize_distribution, stats, apply_stats, stat, gmean, gcount, nl_cells, nl_g, nl_b.
      cbn -[Rplus Rmult Rminus Rdiv R_sqrt.sqrt IZR gstd]. reflexivity. }
    rewrite E. clearbody s0 s1. apply Rlt_not_eq.
    assert (I0 : 0 < / s0) by (apply Rinv_0_lt_compat; exact H0).
    assert (I1 : 0 < / s1) by (apply Rinv_0_lt_compat; exact H1).
    unfold Rdiv. lra. Qed.
