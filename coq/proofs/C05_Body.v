(* C05: parseBodyV0_1 (version 0.2) on the bytes of Pose.write: same fps / frame / people counts as the Python reader and
   the two Float32Arrays are exactly the Python reader's data and confidence tensors (row-major). *)
From Coq Require Import ZArith NArith List Lia ZifyBool ZifyN ZifyNat Bool.
Require Import ListN Result Bytes Utf8 Utf8S F32 Prog Codec ProgLemmas CodecRT
  C05_JsParser C05_View C05_Lemmas C05_Header C05_HeaderView.
Import ListNotations.
Open Scope N_scope.

(* what the body parsers take from a component of the parsed header *)
Definition jcomp_of_comp (c : component) : jcomp :=
  {| jc_name := strip_bom (c_name c); jc_format := strip_bom (c_format c);
     jc_npoints := Z.of_N (lenN (c_points c)); jc_plen := Z.of_N (lenN (c_points c)) |}.
Lemma jcomp_of_obj c : jcomp_of (VObj (js_comp_obj c)) = Some (jcomp_of_comp c).
Proof.
  unfold jcomp_of, js_comp_obj. kred. unfold js_strv, arr_len, jcomp_of_comp.
  rewrite map_length. unfold lenN. rewrite nat_N_Z. reflexivity.
Qed.
Lemma all_some_map' {A B C} (f : A -> option B) (g : C -> A) (k : C -> B) l :
  (forall c, f (g c) = Some (k c)) -> all_some (map f (map g l)) = Some (map k l).
Proof. intros H. induction l as [|b l IH]; [reflexivity|]. cbn [map all_some]. now rewrite H, IH. Qed.
Lemma header_comps_obj h hl : header_comps (js_header_obj h hl) = Some (map jcomp_of_comp (h_comps h)).
Proof.
  unfold header_comps, js_header_obj. destruct (h_dims h) as [[w hh] d]. kred.
  apply (all_some_map' jcomp_of (fun c => VObj (js_comp_obj c))). exact jcomp_of_obj.
Qed.

(* strings the two readers see alike, and format lengths JavaScript counts as Python does *)
Definition bmp (s : str) : Prop := Forall (fun c => c < 65536) s.
Definition wcomp_plain (c : wcomponent) : Prop := wcomp_no_bom c /\ bmp (wc_format c).
Lemma utf16_len_bmp s : bmp s -> utf16_len s = Z.of_N (lenN s).
Proof. induction 1 as [|c s Hc _ IH]; [reflexivity|]. cbn [utf16_len fold_right]. fold (utf16_len s). rewrite IH.
  destruct (N.ltb_spec c 65536); [|lia]. unfold lenN. cbn [length]. rewrite Nat2N.inj_succ. lia. Qed.
Lemma fold_max_shift (l : list Z) : forall a, (0 <= a)%Z -> Forall (fun x => 0 <= x)%Z l ->
  fold_right Z.max a l = Z.max a (fold_right Z.max 0%Z l).
Proof. induction l as [|x l IH]; intros a Ha Hl; cbn [fold_right]; [lia|]. inversion Hl; subst. rewrite (IH a) by assumption. lia. Qed.
Lemma js_points_eq comps : js_points (map jcomp_of_comp comps) = Z.of_N (sumN (map (fun c => lenN (c_points c)) comps)).
Proof. unfold js_points. induction comps as [|c l IH]; [reflexivity|]. cbn [map fold_right sumN jc_plen jcomp_of_comp] in *. rewrite IH. unfold sumN. lia. Qed.
Lemma js_dims_eq (comps : list wcomponent) d : Forall wcomp_plain comps ->
  num_dims_of (map wc_format comps) = Ok d -> js_dims (map jcomp_of_comp (map canon_comp comps)) = Some d.
Proof.
  intros Hp. destruct comps as [|c l]; [discriminate|]. cbn [map num_dims_of js_dims]. intros [= <-].
  assert (Hlen : forall c, wcomp_plain c -> utf16_len (jc_format (jcomp_of_comp (canon_comp c))) = Z.of_N (lenN (wc_format c))).
  { intros c0 [[_ [Hb _]] Hm]. cbn [jcomp_of_comp canon_comp jc_format c_format]. rewrite (strip_no_bom _ Hb). now apply utf16_len_bmp. }
  inversion Hp as [|? ? Hc Hl]; subst. f_equal. rewrite (Hlen c Hc).
  rewrite !map_map.
  assert (E : map (fun x => utf16_len (jc_format (jcomp_of_comp (canon_comp x)))) l = map (fun f => Z.of_N (lenN f)) (map wc_format l)).
  { rewrite map_map. apply map_ext_in. intros x Hx. apply Hlen. rewrite Forall_forall in Hl. now apply Hl. }
  rewrite E. rewrite fold_max_shift; [cbn [fold_right]; rewrite map_map; reflexivity|lia|].
  apply Forall_forall. intros x Hx. apply in_map_iff in Hx. destruct Hx as [f [<- _]]. lia.
Qed.

(* parseFloat32Array over an encoded block *)
Lemma read_f32_array_enc pre ws post : Forall (fun n => n < 4294967296) ws ->
  read_f32_array (pre ++ flat_map enc_u32 ws ++ post) (Z.of_N (lenN ws)) (Z.of_N (lenN pre))
  = Some (ws, (Z.of_N (lenN pre) + 4 * Z.of_N (lenN ws))%Z).
Proof.
  intros Hlt. unfold read_f32_array.
  destruct (Z.ltb_spec (Z.of_N (lenN ws)) 0) as [|_]; [lia|].
  destruct (Z.eqb_spec (Z.of_N (lenN ws)) 0) as [E|NE].
  - destruct ws; [|unfold lenN in E; cbn [length] in E; lia]. f_equal. f_equal. unfold lenN. cbn [length]. lia.
  - destruct (Z.ltb_spec (Z.of_N (lenN pre)) 0) as [|_]; [lia|].
    destruct (Z.leb_spec (Z.of_N (lenN pre) + 4 * Z.of_N (lenN ws)) (Z.of_N (lenN (pre ++ flat_map enc_u32 ws ++ post)))) as [_|H];
      [|rewrite lenN_app3, lenN_flat_enc_u32 in H; lia].
    rewrite N2Z.id, drop_pre. replace (Z.to_nat (Z.of_N (lenN ws))) with (length ws) by (unfold lenN; lia).
    rewrite words32_enc by exact Hlt. reflexivity.
Qed.

Definition comps_of (p : wpose) : list jcomp := map jcomp_of_comp (map canon_comp (w_comps p)).
Definition info_obj_v02 (fps F P : N) : obj :=
  [(k_fps, VF32 fps); (k__frames, VNum (Z.of_N F)); (k__people, VNum (Z.of_N P))].

Theorem js_body_v02 p bs F P T D : write_pose p = Ok bs -> wf_arrays p -> w_shape p = [F; P; T; D] ->
  Forall wcomp_plain (w_comps p) ->
  exists h, write_header (w_dims p) (w_comps p) = Ok h /\
  parse_body_v01 (js_header_obj (canon_header p) (lenN h)) (comps_of p) bs true =
    Some {| jb_info := info_obj_v02 (b_fps (canon_body p)) F P;
            jb_frames := Z.of_N F; jb_people := Z.of_N P; jb_points := Z.of_N T; jb_dims := Z.of_N D;
            jb_data := b_data (canon_body p); jb_conf := b_conf (canon_body p) |}.
Proof.
  intros H [Hld Hlc] Hs Hplain.
  destruct (write_pose_ok _ _ H) as [F' [P' [T' [D' [h [b [Hs' [Hcs [Hnd [Htp [Hh [Hb ->]]]]]]]]]]]].
  rewrite Hs in Hs'. injection Hs' as <- <- <- <-. exists h. split; [exact Hh|].
  unfold write_body in Hb. rewrite Hs in Hb.
  destruct (N.ltb_spec 4294967295 F) as [|HF]; [discriminate|].
  destruct (pack_f32 (w_fps p)) as [fw|] eqn:Hfps; [|discriminate].
  destruct (N.ltb_spec 65535 P) as [|HP]; [discriminate|]. apply Ok_inj in Hb. subst b.
  rewrite Hs in Hld. rewrite Hcs in Hlc. cbn [prodN fold_right] in Hld, Hlc.
  unfold parse_body_v01.
  assert (Ehl : get_num (js_header_obj (canon_header p) (lenN h)) k_headerLength = Some (Z.of_N (lenN h))).
  { unfold js_header_obj. destruct (h_dims (canon_header p)) as [[w hh] d]. kred. reflexivity. }
  rewrite Ehl. unfold comps_of. rewrite (js_dims_eq _ _ Hplain Hnd).
  rewrite js_points_eq. fold (total_points_w (w_comps p)).
  assert (Etp : sumN (map (fun c => lenN (c_points c)) (map canon_comp (w_comps p))) = T).
  { rewrite map_map. exact Htp. }
  rewrite Etp. rewrite N2Z.id.
  (* the info parser *)
  unfold parse, js_little, info_v02_schema. rewrite run_seek.
  change (0 + lenN h) with (lenN h).
  rewrite (run_f32 _ _ _ h fw) by (now apply pack_f32_lt in Hfps).
  rewrite run_u32 by lia. rewrite run_u16 by lia. cbn [run].
  set (info := obj_set _ k__people _).
  assert (Ei : info = info_obj_v02 fw F P) by reflexivity.
  assert (Ef : get_num info k__frames = Some (Z.of_N F)) by reflexivity.
  assert (Ep : get_num info k__people = Some (Z.of_N P)) by reflexivity.
  rewrite Ef, Ep.
  (* the two arrays *)
  unfold js_data_len, js_conf_len, js_data_start, info_size_v02.
  rewrite <- (flat_map_map f64_to_f32 enc_u32 (w_data p)), <- (flat_map_map f64_to_f32 enc_u32 (w_conf p)).
  set (dw := map f64_to_f32 (w_data p)). set (cw := map f64_to_f32 (w_conf p)).
  assert (Ldw : lenN dw = F * P * T * D) by (unfold dw; rewrite lenN_map; lia).
  assert (Lcw : lenN cw = F * P * T) by (unfold cw; rewrite lenN_map; lia).
  set (pre := ((h ++ enc_u32 fw) ++ enc_u32 F) ++ enc_u16 P).
  replace (Z.of_N F * Z.of_N P * Z.of_N T * Z.of_N D)%Z with (Z.of_N (lenN dw)) by lia.
  replace (Z.of_N (lenN h) + 10)%Z with (Z.of_N (lenN pre)) by (unfold pre; rewrite !lenN_app, !enc_u32_len, enc_u16_len; lia).
  assert (Eb : h ++ enc_u32 fw ++ enc_u32 F ++ enc_u16 P ++ flat_map enc_u32 dw ++ flat_map enc_u32 cw
               = pre ++ flat_map enc_u32 dw ++ flat_map enc_u32 cw) by (unfold pre; rewrite <- !app_assoc; reflexivity).
  rewrite Eb.
  rewrite (read_f32_array_enc pre dw (flat_map enc_u32 cw)) by apply words_lt.
  replace (Z.of_N F * Z.of_N P * Z.of_N T)%Z with (Z.of_N (lenN cw)) by lia.
  replace (Z.of_N (lenN pre) + 4 * Z.of_N (lenN dw))%Z with (Z.of_N (lenN (pre ++ flat_map enc_u32 dw)))
    by (rewrite lenN_app, lenN_flat_enc_u32; lia).
  assert (Eb2 : pre ++ flat_map enc_u32 dw ++ flat_map enc_u32 cw = (pre ++ flat_map enc_u32 dw) ++ flat_map enc_u32 cw ++ [])
    by (rewrite app_nil_r, app_assoc; reflexivity).
  rewrite Eb2.
  rewrite (read_f32_array_enc (pre ++ flat_map enc_u32 dw) cw []) by apply words_lt.
  rewrite Ei. unfold canon_body. cbn [b_fps b_data b_conf]. rewrite Hfps. reflexivity.
Qed.
