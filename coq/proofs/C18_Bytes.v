(* C18, byte level: what a reader thread computes locally.  Skip-free decoders (the header decoder is one)
   (i) never move backwards, (ii) depend only on the bytes they consumed (soundness of the memo key), and
   (iii) give the same answer through the stream reader, whatever was prefetched, as through the plain
   reader on the whole file. *)
From Coq Require Import ZArith NArith List Lia ZifyBool ZifyN ZifyNat Bool.
Require Import ListN Result Bytes Prog Codec PoseRead ProgLemmas.
Import ListNotations.
Ltac Zify.zify_post_hook ::= Z.div_mod_to_equations.
Open Scope N_scope.

Lemma bytes_eqb_eq a : forall b, bytes_eqb a b = true <-> a = b.
Proof.
  induction a as [|x a IH]; intros [|y b]; cbn [bytes_eqb]; split; intros H; try reflexivity; try discriminate.
  - apply andb_true_iff in H. destruct H as [Hx Hr]. apply N.eqb_eq in Hx. apply IH in Hr. now subst.
  - injection H as -> ->. rewrite N.eqb_refl. cbn [andb]. now apply IH.
Qed.

Lemma dropN_0 {X} (l : list X) : dropN 0 l = l.
Proof. destruct l; reflexivity. Qed.
Lemma py_slice_0 e b : py_slice 0 e b = takeN e b.
Proof. unfold py_slice. now rewrite dropN_0, N.sub_0_r. Qed.

(* ---------- the header decoder is skip-free ---------- *)
Lemma noSkip_noBL {A} (p : prog A) : noSkip p -> noBL p.
Proof. induction p as [a|n k IH|n k IH|n k IH|k IH|e]; cbn [noSkip noBL]; intros H; auto; try contradiction. Qed.
Lemma noSkip_block_ret {A} n (g : bytes -> A) : noSkip (Block n (fun b => Ret (g b))).
Proof. cbn [noSkip]. intros b. exact I. Qed.
Lemma noSkip_rd_str : noSkip rd_str.
Proof.
  unfold rd_str. apply noSkip_bind; [apply noSkip_block_ret|]. intros n. cbn [noSkip]. intros b.
  destruct (Utf8S.dec_utf8 b); exact I.
Qed.
Lemma noSkip_rd_component : noSkip rd_component.
Proof.
  unfold rd_component.
  apply noSkip_bind; [apply noSkip_rd_str|]. intros name.
  apply noSkip_bind; [apply noSkip_rd_str|]. intros fmt.
  apply noSkip_bind; [apply noSkip_block_ret|]. intros [[np nl] nc].
  apply noSkip_bind; [apply noSkip_prep, noSkip_rd_str|]. intros pts.
  apply noSkip_bind; [apply noSkip_prep, noSkip_block_ret|]. intros limbs.
  apply noSkip_bind; [apply noSkip_block_ret|]. intros cols. exact I.
Qed.
Lemma noSkip_rd_header : noSkip rd_header.
Proof.
  unfold rd_header.
  apply noSkip_bind; [apply noSkip_block_ret|]. intros v.
  apply noSkip_bind; [apply noSkip_block_ret|]. intros dims.
  apply noSkip_bind; [apply noSkip_block_ret|]. intros n.
  apply noSkip_bind; [apply noSkip_prep, noSkip_rd_component|]. intros comps. exact I.
Qed.

(* ---------- (i) monotone, and inside the buffer once anything was read ---------- *)
Lemma run_plain_mono {A} (p : prog A) : noSkip p -> forall r a r',
  run_plain p r = Ok (a, r') ->
  poff r <= poff r' /\ (poff r' = poff r \/ poff r' <= lenN (pbuf r)).
Proof.
  induction p as [a|n k IH|n k IH|n k IH|k IH|e]; intros Hn r a' r' H; cbn [run_plain noSkip] in *; try contradiction.
  - injection H as _ <-. lia.
  - destruct (N.leb_spec (poff r + n) (lenN (pbuf r))) as [Hfit|]; [|discriminate].
    apply (IH _ (Hn _)) in H. cbn [poff pbuf] in H. lia.
  - discriminate.
Qed.

(* ---------- (ii) a successful run depends only on the consumed prefix ---------- *)
Lemma run_plain_prefix {A} (p : prog A) : noSkip p -> forall r a r',
  run_plain p r = Ok (a, r') ->
  forall b, takeN (poff r') b = takeN (poff r') (pbuf r) ->
  run_plain p {| pbuf := b; poff := poff r |} = Ok (a, {| pbuf := b; poff := poff r' |}).
Proof.
  induction p as [a|n k IH|n k IH|n k IH|k IH|e]; intros Hn r a' r' H b Hb; cbn [run_plain noSkip pbuf poff] in *; try contradiction.
  - injection H as <- <-. reflexivity.
  - destruct (N.leb_spec (poff r + n) (lenN (pbuf r))) as [Hfit|]; [|discriminate].
    pose proof (run_plain_mono _ (Hn _) _ _ _ H) as Hm. cbn [poff pbuf] in Hm.
    assert (Hle : poff r' <= lenN (pbuf r)) by lia.
    assert (Hlb : poff r' <= lenN b).
    { assert (E : lenN (takeN (poff r') b) = lenN (takeN (poff r') (pbuf r))) by now rewrite Hb.
      rewrite !lenN_takeN in E. lia. }
    destruct (N.leb_spec (poff r + n) (lenN b)) as [_|Hlt]; [|lia].
    assert (Eb : takeN n (dropN (poff r) b) = takeN n (dropN (poff r) (pbuf r))).
    { rewrite !takeN_dropN_comm.
      rewrite <- (takeN_takeN_le (n + poff r) (poff r') b) by lia.
      rewrite <- (takeN_takeN_le (n + poff r) (poff r') (pbuf r)) by lia.
      now rewrite Hb. }
    rewrite Eb.
    apply (IH _ (Hn _) _ _ _ H b Hb).
  - discriminate.
Qed.

(* ---------- (iii) the stream reader on a skip-free decoder ---------- *)
(* nothing skipped, the buffer is a prefix of the file, the offset is inside the buffer *)
Definition SInv (file : bytes) (r : sreader) : Prop :=
  skipped r = 0 /\ buf r = takeN (lenN (buf r)) file /\ off r <= lenN (buf r).

Lemma prefix_len (file : bytes) L : lenN (takeN L file) = L -> L <= lenN file.
Proof. rewrite lenN_takeN. lia. Qed.

Lemma expect_sim file n r : SInv file r ->
  match expect file n r with
  | Ok r1 => SInv file r1 /\ off r1 = off r /\ lenN (buf r) <= lenN (buf r1) /\
             (off r + n <=? lenN (buf r1)) = (off r + n <=? lenN file)
  | Err _ => file = [] /\ lenN file < off r + n
  end.
Proof.
  intros (Hs & Hb & Ho). unfold expect, bytes_left. rewrite Hs.
  assert (HL : lenN (buf r) <= lenN file) by (apply prefix_len; now rewrite <- Hb).
  destruct (Z.ltb_spec (Z.of_N (lenN (buf r)) - Z.of_N (off r) + Z.of_N 0) (Z.of_N n)) as [Hlt|Hge].
  - unfold read_chunk. rewrite Hs, N.add_0_l.
    set (k := Z.to_N (Z.of_N n - (Z.of_N (lenN (buf r)) - Z.of_N (off r) + Z.of_N 0))).
    assert (Hk : lenN (buf r) + k = off r + n) by lia.
    assert (E : buf r ++ takeN k (dropN (lenN (buf r)) file) = takeN (off r + n) file).
    { rewrite Hb at 1. rewrite takeN_app_takeN. now rewrite Hk. }
    rewrite E.
    destruct (takeN (off r + n) file) as [|x l] eqn:Et.
    + assert (El : lenN (takeN (off r + n) file) = 0) by now rewrite Et.
      rewrite lenN_takeN in El.
      assert (lenN file = 0) by lia. split; [|lia].
      destruct file; [reflexivity|]. unfold lenN in *. cbn [length] in *. lia.
    + rewrite <- Et. cbn [buf off skipped]. rewrite lenN_takeN.
      split; [|split; [reflexivity|split]].
      * repeat split; cbn [buf off skipped]; try assumption.
        -- rewrite lenN_takeN. apply takeN_clip.
        -- rewrite lenN_takeN. lia.
      * cbn [buf]. rewrite ?lenN_takeN. lia.
      * cbn [buf]. rewrite ?lenN_takeN. lia.
  - split; [repeat split; assumption|]. split; [reflexivity|]. split; [lia|]. lia.
Qed.

Lemma run_stream_sim {A} (p : prog A) file : noSkip p -> forall r, SInv file r ->
  match run_stream file p r with
  | Ok (a, r') => SInv file r' /\ lenN (buf r) <= lenN (buf r') /\
                  run_plain p {| pbuf := file; poff := off r |} = Ok (a, {| pbuf := file; poff := off r' |})
  | Err _ => exists e, run_plain p {| pbuf := file; poff := off r |} = Err e
  end.
Proof.
  induction p as [a|n k IH|n k IH|n k IH|k IH|e]; intros Hn r Hr; cbn [run_stream run_plain noSkip pbuf poff] in *; try contradiction.
  - split; [exact Hr|]. split; [lia|reflexivity].
  - pose proof (expect_sim file n r Hr) as He.
    destruct (expect file n r) as [r1|e1].
    + destruct He as (Hr1 & Hoff & Hlen & Hfit). destruct Hr1 as (Hs1 & Hb1 & Ho1).
      rewrite Hs1, N.sub_0_r, Hoff, Hfit.
      destruct (N.leb_spec (off r + n) (lenN file)) as [Hle|Hgt]; [|eexists; reflexivity].
      assert (Hin : off r + n <= lenN (buf r1)).
      { destruct (N.leb_spec (off r + n) (lenN (buf r1))); [assumption|].
        destruct (N.leb_spec (off r + n) (lenN file)); [discriminate|lia]. }
      assert (Eb : takeN n (dropN (off r) (buf r1)) = takeN n (dropN (off r) file)).
      { rewrite Hb1. rewrite dropN_takeN. apply takeN_takeN_le. lia. }
      rewrite Eb.
      set (r2 := {| buf := buf r1; off := off r + n; skipped := 0; pulled := pulled r1 |}).
      assert (Hr2 : SInv file r2) by (repeat split; cbn [buf off skipped]; assumption || reflexivity).
      specialize (IH (takeN n (dropN (off r) file)) (Hn _) r2 Hr2).
      destruct (run_stream file (k (takeN n (dropN (off r) file))) r2) as [[a' r']|e2].
      * destruct IH as (Hr' & Hlen' & Hrun). subst r2. cbn [buf off] in *. split; [exact Hr'|]. split; [lia|exact Hrun].
      * exact IH.
    + destruct He as (_ & Hshort).
      destruct (N.leb_spec (off r + n) (lenN file)) as [Hle|Hgt]; [lia|eexists; reflexivity].
  - eexists; reflexivity.
Qed.

(* the whole-file header parse used as the reference *)
Lemma parse_nil : run_plain rd_header {| pbuf := []; poff := 0 |} = Err StructError.
Proof. reflexivity. Qed.
