(* C19 - the frame-id rule: for a name  pre ++ [sep] ++ digits ++ "_keypoints.json"  (sep a non-digit other than 'n'),
   or  digits ++ "_keypoints.json", get_frame_id returns the value of [digits] whatever [pre] contains. *)
From Coq Require Import List Arith NArith Bool Lia.
Require Import Result C19_FrameId.
Import ListNotations.
Local Open Scope nat_scope.

Definition all_digits (ds : list N) : Prop := Forall (fun c => is_digit c = true) ds.

Lemma span_digits_app ds r : all_digits ds -> (match r with [] => True | c :: _ => is_digit c = false end) ->
  span_digits (ds ++ r) = (ds, r).
Proof.
  intros Hd Hr. induction Hd as [|c ds Hc Hds IH]; cbn [app span_digits].
  - destruct r as [|c r]; [reflexivity|]. cbn [span_digits]. now rewrite Hr.
  - rewrite Hc, IH. reflexivity.
Qed.
(* the digit run taken from the head of a string is a prefix of it, followed by a non-digit or the end *)
Lemma span_digits_spec s : forall ds r, span_digits s = (ds, r) ->
  s = ds ++ r /\ all_digits ds /\ match r with [] => True | c :: _ => is_digit c = false end.
Proof.
  induction s as [|c s IH]; intros ds r H; cbn [span_digits] in H.
  - injection H as <- <-. repeat split. constructor.
  - destruct (is_digit c) eqn:Ec.
    + destruct (span_digits s) as [a b]. injection H as <- <-. destruct (IH a b eq_refl) as (-> & Ha & Hb).
      repeat split; [constructor; assumption|assumption].
    + injection H as <- <-. repeat split; [constructor|assumption].
Qed.

Lemma tail_ok_suffix : tail_ok SUFFIX = Some [].
Proof. reflexivity. Qed.
Lemma match_body_final ds : all_digits ds -> ds <> [] -> match_body (ds ++ SUFFIX) = Some (ds, length ds + 15).
Proof.
  intros Hd Hne. unfold match_body. rewrite (span_digits_app ds SUFFIX Hd eq_refl).
  destruct ds; [contradiction|]. rewrite tail_ok_suffix. reflexivity.
Qed.

(* ---- no match that starts earlier can reach into  sep :: digits ++ "_keypoints.json" ---- *)
Ltac eqb_step H :=
  match type of H with
  | context [N.eqb ?a ?b] => destruct (N.eqb_spec a b) as [?|?]; [subst|]; try discriminate H
  end.

(* q ++ G with |q| < 15 never carries the tail "_keypoints?json" when G = sep :: digits ++ SUFFIX *)
Lemma tail_not_across q sep d0 ds rest :
  length q < 15 -> is_digit sep = false -> sep <> 110%N -> is_digit d0 = true -> all_digits ds ->
  tail_ok (q ++ sep :: d0 :: ds ++ SUFFIX) = Some rest -> False.
Proof.
  intros Hq Hsep Hn Hd0 Hds H.
  assert (Hds0 : match ds with [] => True | d1 :: _ => is_digit d1 = true end) by (destruct Hds; auto).
  unfold tail_ok, KEYPOINTS, JSON in H.
  do 15 (destruct q as [|? q]; [ cbn [app strip_prefix] in H; repeat eqb_step H;
      try (vm_compute in Hsep; discriminate Hsep); try (vm_compute in Hd0; discriminate Hd0); try (now apply Hn);
      try (destruct ds as [|d1 ds]; cbn [app strip_prefix SUFFIX KEYPOINTS] in H; repeat eqb_step H; try discriminate H;
           try (vm_compute in Hds0; discriminate Hds0))
    | cbn [length] in Hq ]).
  all: try lia.
Qed.

Lemma span_digits_barrier p sep R : is_digit sep = false ->
  span_digits (p ++ sep :: R) = (fst (span_digits p), snd (span_digits p) ++ sep :: R).
Proof.
  intros Hs. induction p as [|c p IH]; cbn [app span_digits].
  - now rewrite Hs.
  - destruct (is_digit c); [|reflexivity]. rewrite IH. destruct (span_digits p); reflexivity.
Qed.

Section Across.
Variables (sep d0 : N) (ds : list N).
Hypothesis Hsep : is_digit sep = false.
Hypothesis Hn : sep <> 110%N.
Hypothesis Hd0 : is_digit d0 = true.
Hypothesis Hds : all_digits ds.
Let G : list N := sep :: d0 :: ds ++ SUFFIX.

Lemma match_body_bound p dg n : match_body (p ++ G) = Some (dg, n) -> n <= length p.
Proof.
  unfold match_body, G. rewrite (span_digits_barrier p sep _ Hsep).
  destruct (span_digits p) as [a q] eqn:Es. cbn [fst snd].
  destruct (span_digits_spec p a q Es) as (-> & _ & _).
  destruct a as [|a0 a]; [discriminate|].
  destruct (tail_ok (q ++ sep :: d0 :: ds ++ SUFFIX)) as [rest|] eqn:Et; [|discriminate].
  intros H; injection H as _ <-.
  destruct (Nat.lt_ge_cases (length q) 15) as [Hlt|Hge].
  - exfalso. exact (tail_not_across q sep d0 ds rest Hlt Hsep Hn Hd0 Hds Et).
  - rewrite app_length. cbn [length]. lia.
Qed.
Lemma try_match_bound start p dg n : try_match start (p ++ G) = Some (dg, n) -> p <> [] -> n <= length p.
Proof.
  destruct p as [|y p]; [contradiction|]. intros H _. cbn [app try_match] in H.
  destruct (is_digit y).
  - destruct start; [|discriminate]. exact (match_body_bound (y :: p) dg n H).
  - destruct (match_body (p ++ G)) as [[dg' n']|] eqn:E; [|discriminate]. injection H as <- <-.
    apply match_body_bound in E. cbn [length]. lia.
Qed.
Lemma scan_pre : forall p start skip last, skip <= length p ->
  exists last', scan (p ++ G) start skip last = scan G (match p with [] => start | _ => false end) 0 last'.
Proof.
  induction p as [|y p IH]; intros start skip last Hk.
  - cbn [length] in Hk. assert (skip = 0) by lia. subst. exists last. reflexivity.
  - cbn [length] in Hk. change ((y :: p) ++ G) with (y :: (p ++ G)). cbn [scan]. destruct skip as [|k].
    + change (y :: (p ++ G)) with ((y :: p) ++ G).
      destruct (try_match start ((y :: p) ++ G)) as [[dg n]|] eqn:E.
      * apply try_match_bound in E; [|discriminate]. cbn [length] in E.
        destruct (IH false (Nat.pred n) (Some dg) ltac:(lia)) as [l' Hl']. exists l'. rewrite Hl'. destruct p; reflexivity.
      * destruct (IH false 0 last ltac:(lia)) as [l' Hl']. exists l'. rewrite Hl'. destruct p; reflexivity.
    + destruct (IH false k last ltac:(lia)) as [l' Hl']. exists l'. rewrite Hl'. destruct p; reflexivity.
Qed.
End Across.

Lemma scan_skip_all : forall s start skip last, length s <= skip -> scan s start skip last = last.
Proof.
  induction s as [|c s IH]; intros start skip last H; [reflexivity|]. cbn [length] in H. cbn [scan].
  destruct skip as [|k]; [lia|]. apply IH. lia.
Qed.
Lemma scan_final sep ds start last : is_digit sep = false -> all_digits ds -> ds <> [] ->
  scan (sep :: ds ++ SUFFIX) start 0 last = Some ds.
Proof.
  intros Hs Hd Hne. cbn [scan try_match]. rewrite Hs, (match_body_final ds Hd Hne). cbn [Nat.pred].
  apply scan_skip_all. rewrite app_length. cbn. lia.
Qed.

Definition frame_id_of (ds : list N) : result N :=
  if (N.of_nat (length ds) <=? MAX_STR_DIGITS)%N then Ok (digits_value ds) else Err Value.

(* general form: [sep] any non-digit other than 'n' *)
Theorem frame_id_after_separator pre sep ds :
  is_digit sep = false -> sep <> 110%N -> all_digits ds -> ds <> [] ->
  get_frame_id (pre ++ sep :: ds ++ SUFFIX) = frame_id_of ds.
Proof.
  intros Hs Hn Hd Hne. destruct ds as [|d0 ds']; [contradiction|]. inversion Hd as [|? ? Hd0 Hds']; subst.
  unfold get_frame_id, frame_id_of.
  destruct (scan_pre sep d0 ds' Hs Hn Hd0 Hds' pre true 0 None ltac:(lia)) as [l' Hl'].
  change (sep :: (d0 :: ds') ++ SUFFIX) with (sep :: d0 :: ds' ++ SUFFIX). rewrite Hl'.
  change (sep :: d0 :: ds' ++ SUFFIX) with (sep :: (d0 :: ds') ++ SUFFIX).
  rewrite (scan_final sep (d0 :: ds') _ l' Hs Hd Hne). reflexivity.
Qed.
(* no prefix at all: "000000000013_keypoints.json" *)
Theorem frame_id_bare ds : all_digits ds -> ds <> [] -> get_frame_id (ds ++ SUFFIX) = frame_id_of ds.
Proof.
  intros Hd Hne. unfold get_frame_id, frame_id_of. destruct ds as [|d0 ds']; [contradiction|].
  inversion Hd as [|? ? Hd0 Hds']; subst. change ((d0 :: ds') ++ SUFFIX) with (d0 :: (ds' ++ SUFFIX)).
  cbn [scan try_match]. rewrite Hd0. change (d0 :: (ds' ++ SUFFIX)) with ((d0 :: ds') ++ SUFFIX).
  rewrite (match_body_final (d0 :: ds') Hd Hne). cbn [Nat.pred length Nat.add].
  rewrite scan_skip_all; [reflexivity|]. rewrite app_length. cbn. lia.
Qed.
(* the documented format  [ARBITRARY CHARACTERS]_[FRAME_ID]_keypoints.json  (openpose.py:313) *)
Theorem frame_id_docstring arbitrary ds : all_digits ds -> ds <> [] ->
  get_frame_id (arbitrary ++ 95%N :: ds ++ SUFFIX) = frame_id_of ds.
Proof. intros Hd Hne. apply frame_id_after_separator; [reflexivity|discriminate|exact Hd|exact Hne]. Qed.
