(* C13 - the axis model on the shapes the theorems mention. *)
From Coq Require Import List Arith.
Require Import Tensor C13_Axes C13_DistP.
Import ListNotations.
(* the keys of distribution_nonleading_refuted are those of shape (2, 2, 1, 1), axis = (1,); broadcasting succeeds *)
Lemma nonleading_keys :
  broadcast_ok [2; 2; 1; 1] [1] = true /\ groups_of [2; 2; 1; 1] [1] = 2 /\
  map (gkey_of [2; 2; 1; 1] [1]) (seq 0 4) = map nl_g (seq 0 4) /\
  map (bkey_of [2; 2; 1; 1] [1]) (seq 0 4) = map nl_b (seq 0 4).
Proof. vm_compute. repeat split; reflexivity. Qed.
(* for a leading block of axes grouping and broadcasting agree and are i mod G (instance; the general statement is
   checked by the correspondence run: requests (2 ...) and (8 ...) of the runner agree) *)
Lemma leading_keys_example :
  let shape := [2; 3; 2; 2] in
  map (gkey_of shape [0; 1]) (seq 0 24) = map (fun i => Nat.modulo i 4) (seq 0 24) /\
  map (bkey_of shape [0; 1]) (seq 0 24) = map (fun i => Nat.modulo i 4) (seq 0 24) /\
  map (gkey_of shape [0]) (seq 0 24) = map (fun i => Nat.modulo i 12) (seq 0 24) /\
  map (bkey_of shape [0]) (seq 0 24) = map (fun i => Nat.modulo i 12) (seq 0 24) /\
  map (gkey_of shape [0; 1; 2]) (seq 0 24) = map (fun i => Nat.modulo i 2) (seq 0 24) /\
  map (bkey_of shape [0; 1; 2]) (seq 0 24) = map (fun i => Nat.modulo i 2) (seq 0 24).
Proof. vm_compute. repeat split; reflexivity. Qed.
