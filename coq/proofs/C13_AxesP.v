(* C13 - the axis model on the shapes the theorems mention. *)
From Coq Require Import List Arith.
Require Import Tensor C13_Axes C13_DistP.
Import ListNotations.
(* the keys of distribution_nonleading_refuted are those of shape (2, 2, 1, 1), axis = (1,); broadcasting succeeds *)
Lemma nonleading_keys :
  broadcast_ok [2; 2; 1; 1] [1] = true /\ groups_of [2; 2; 1; 1] [1] = 2 /\
  map (gkey_of [2; 2; 1; 1] [1]) (seq 0 4) = map nl_g (seq 0 4) /\
  map (bkey_of [2; 2; 1; 1] [1]) (seq 0 4) = map nl_b (seq 0 4).
Proof. vm_compute. repeat split; reflexivity. Qed.
(* for a leading block of axes grouping and broadcasting agree and are i mod G (instance; the general statement is
   checked by the correspondence run: requests (2 ...) and (8 ...) of the runner agree) *)
Lemma leading_keys_example :
  let shape := [2; 3; 2; 2] in
  map (gkey_of shape [0; 1]) (seq 0 24) = map (fun i => Nat.modulo i 4) (seq 0 24) /\
  map (bkey_of shape [0; 1]) (seq 0 24) = map (fun i => Nat.modulo i 4) (seq 0 24) /\
  map (gkey_of shape [0]) (seq 0 24) = map (fun i => Nat.modulo i 12) (seq 0 24) /\
  map (bkey_of shape [0]) (seq 0 24) = map (fun i => Nat.modulo i 12) (seq 0 24) /\
  map (gkey_of shape [0; 1; 2]) (seq 0 24) = map (fun i => Nat.modulo i 2) (seq 0 24) /\
  map (bkey_of shape [0; 1; 2]) (seq 0 24) = map (fun i => Nat.modulo i 2) (seq 0 24).
Proof. vm_compute. repeat split; reflexivity. Qed.

(* ---------- a leading block of axes: grouping = broadcasting = i mod G, for every shape ---------- *)
From Coq Require Import Lia Bool.
Lemma existsb_seq i k : existsb (Nat.eqb i) (seq 0 k) = Nat.ltb i k.
Proof. destruct (Nat.ltb i k) eqn:E.
  - apply existsb_exists. exists i. split; [apply in_seq; apply Nat.ltb_lt in E; lia|apply Nat.eqb_refl].
  - apply Nat.ltb_ge in E. destruct (existsb (Nat.eqb i) (seq 0 k)) eqn:E'; [|reflexivity].
    apply existsb_exists in E'. destruct E' as [x [Hx Hi]]. apply in_seq in Hx. apply Nat.eqb_eq in Hi. lia. Qed.
Lemma remaining_from {A} k (l : list A) : forall s,
  map snd (filter (fun ia => negb (existsb (Nat.eqb (fst ia)) (seq 0 k))) (combine (seq s (length l)) l)) = skipn (k - s) l.
Proof. induction l as [|a l IH]; intros s; [destruct (k - s); reflexivity|].
  cbn [length seq combine filter fst]. rewrite existsb_seq. destruct (Nat.ltb s k) eqn:E; cbn [negb].
  - apply Nat.ltb_lt in E. rewrite IH. replace (k - s) with (S (k - S s)) by lia. reflexivity.
  - apply Nat.ltb_ge in E. cbn [map snd]. rewrite IH. replace (k - S s) with 0 by lia. replace (k - s) with 0 by lia. reflexivity. Qed.
Lemma remaining_leading {A} k (l : list A) : remaining (seq 0 k) l = skipn k l.
Proof. unfold remaining. rewrite remaining_from. rewrite Nat.sub_0_r. reflexivity. Qed.
Lemma unravel_length s : forall i, length (unravel s i) = length s.
Proof. induction s as [|d s IH]; intros i; [reflexivity|]. cbn [unravel length]. rewrite IH. reflexivity. Qed.
Lemma prod_cons d s : prod (d :: s) = d * prod s.
Proof. reflexivity. Qed.
Lemma prod_skipn_divides s : forall k, exists a, prod s = a * prod (skipn k s).
Proof. induction s as [|d s IH]; intros k; [exists 1; destruct k; reflexivity|]. destruct k as [|k]; [exists 1; cbn [skipn]; lia|].
  cbn [skipn]. destruct (IH k) as [a Ha]. exists (d * a). rewrite prod_cons, Ha. lia. Qed.
Lemma mod_mod_mul i a c : c <> 0 -> (i mod (a * c)) mod c = i mod c.
Proof. intros Hc. destruct (Nat.eq_dec a 0) as [->|Ha]; [reflexivity|].
  rewrite (Nat.mul_comm a c), Nat.mod_mul_r by assumption.
  rewrite (Nat.mul_comm c), Nat.mod_add by exact Hc. apply Nat.mod_mod. exact Hc. Qed.
Lemma unravel_in_range s : forall i, i < prod s -> in_range s (unravel s i).
Proof. induction s as [|d s IH]; intros i Hi; [constructor|]. cbn [unravel]. rewrite prod_cons in Hi.
  assert (Hp : prod s <> 0) by (intros E; rewrite E in Hi; lia). constructor.
  - apply Nat.div_lt_upper_bound; [exact Hp|lia].
  - apply IH. apply Nat.mod_upper_bound. exact Hp. Qed.
Lemma ravel_skipn s : forall k i, i < prod s -> ravel (skipn k s) (skipn k (unravel s i)) = i mod prod (skipn k s).
Proof. induction s as [|d s IH]; intros k i Hi.
  - destruct k; cbn; lia.
  - destruct k as [|k].
    + cbn [skipn]. rewrite ravel_unravel by exact Hi. symmetry. apply Nat.mod_small. exact Hi.
    + cbn [skipn unravel]. rewrite prod_cons in Hi. assert (Hp : prod s <> 0) by (intros E; rewrite E in Hi; lia).
      rewrite IH by (apply Nat.mod_upper_bound; exact Hp).
      destruct (prod_skipn_divides s k) as [a Ha]. rewrite Ha at 1.
      apply mod_mod_mul. intros E. rewrite E in Ha. lia. Qed.
Lemma stretch_id rs : forall ix, Forall2 (fun i d => i < d) ix rs ->
  map (fun de => if Nat.eqb (fst de) 1 then 0 else snd de) (combine rs ix) = ix.
Proof. induction rs as [|d rs IH]; intros ix H; inversion H as [|i d' ix' rs' Hi Hr]; subst; [reflexivity|].
  cbn [combine map fst snd]. rewrite (IH _ Hr). destruct (Nat.eqb d 1) eqn:E; [apply Nat.eqb_eq in E; f_equal; lia|reflexivity]. Qed.
Lemma Forall2_skipn {A B} (P : A -> B -> Prop) l : forall m k, Forall2 P l m -> Forall2 P (skipn k l) (skipn k m).
Proof. induction l as [|a l IH]; intros m k H; inversion H; subst; [destruct k; constructor|].
  destruct k as [|k]; [exact H|]. cbn [skipn]. apply IH. assumption. Qed.

Theorem leading_block_keys shape k i : k <= length shape -> i < prod shape ->
  gkey_of shape (seq 0 k) i = i mod prod (skipn k shape) /\
  bkey_of shape (seq 0 k) i = i mod prod (skipn k shape) /\
  groups_of shape (seq 0 k) = prod (skipn k shape).
Proof. intros Hk Hi. unfold gkey_of, bkey_of, groups_of. rewrite !remaining_leading.
  split; [apply ravel_skipn; exact Hi|]. split; [|reflexivity].
  cbv zeta. rewrite skipn_length. replace (length shape - (length shape - k)) with k by lia.
  rewrite stretch_id; [apply ravel_skipn; exact Hi|].
  apply Forall2_skipn. exact (unravel_in_range shape i Hi). Qed.
Lemma broadcast_ok_leading shape k : k <= length shape -> broadcast_ok shape (seq 0 k) = true.
Proof. intros Hk. unfold broadcast_ok. rewrite remaining_leading. cbv zeta. rewrite skipn_length.
  replace (length shape - (length shape - k)) with k by lia.
  induction (skipn k shape) as [|d l IH]; [reflexivity|]. cbn [combine forallb fst snd]. rewrite Nat.eqb_refl, orb_true_r. exact IH. Qed.

(* ---------- the distribution theorems for normalize_distribution(axis = the first k axes) ---------- *)
From Coq Require Import Reals.
Require Import Num C13_Normalize C13_RBase.
Local Open Scope nat_scope.
Lemma gvals_ext (k1 k2 : nat -> nat) g cs : forall i0,
  (forall i, i0 <= i < i0 + length cs -> k1 i = k2 i) -> rgvals k1 g i0 cs = rgvals k2 g i0 cs.
Proof. induction cs as [|c cs IH]; intros i0 H; [reflexivity|]. cbn [gvals]. cbn [length] in H.
  rewrite (H i0) by lia. rewrite (IH (S i0)) by (intros i Hi; apply H; lia). reflexivity. Qed.
Lemma imap_ext_bound {A B} (f g : nat -> A -> B) l : forall i0,
  (forall i a, i0 <= i < i0 + length l -> f i a = g i a) -> imap f i0 l = imap g i0 l.
Proof. induction l as [|a l IH]; intros i0 H; [reflexivity|]. cbn [imap]. cbn [length] in H.
  rewrite (H i0) by lia. rewrite (IH (S i0)) by (intros i x Hi; apply H; lia). reflexivity. Qed.
Lemma imap_length {A B} (f : nat -> A -> B) l : forall i0, length (imap f i0 l) = length l.
Proof. induction l as [|a l IH]; intros i0; [reflexivity|]. cbn [imap length]. rewrite IH. reflexivity. Qed.
Lemma stats_ext (k1 k2 : nat -> nat) G (cs : list rcell) :
  (forall i, i < length cs -> k1 i = k2 i) -> stats R_ops k1 G cs = stats R_ops k2 G cs.
Proof. intros H.
  assert (E : forall g, rgvals k1 g 0 cs = rgvals k2 g 0 cs) by (intros g; apply gvals_ext; intros i Hi; apply H; lia).
  assert (Em : forall g, gmean R_ops k1 cs g = gmean R_ops k2 cs g) by (intros g; unfold gmean; rewrite E; reflexivity).
  assert (Ec : forall g, gcount R_ops k1 cs g = gcount R_ops k2 cs g) by (intros g; unfold gcount; rewrite E; reflexivity).
  assert (Es : forall g, gstd R_ops k1 cs g = gstd R_ops k2 cs g) by (intros g; unfold gstd; rewrite E, Em; reflexivity).
  unfold stats. f_equal; apply map_ext; intros g; rewrite Ec, ?Em, ?Es; reflexivity. Qed.
Lemma normalize_distribution_ext (g1 g2 b1 b2 : nat -> nat) G (cs : list rcell) :
  (forall i, i < length cs -> g1 i = g2 i) -> (forall i, i < length cs -> b1 i = b2 i) ->
  normalize_distribution R_ops g1 b1 G cs = normalize_distribution R_ops g2 b2 G cs.
Proof. intros Hg Hb. unfold normalize_distribution. rewrite (stats_ext g1 g2 G cs Hg). f_equal.
  unfold apply_stats. apply imap_ext_bound. intros i a Hi. rewrite Hb by lia. reflexivity. Qed.

Section Leading.
Variables (shape : list nat) (k : nat) (cs : list rcell).
Hypothesis Hk : k <= length shape.
Hypothesis Hlen : length cs = prod shape.
Let axes := seq 0 k.
Let G := groups_of shape axes.
Let modk := fun i => Nat.modulo i G.
Lemma keys_mod i : i < length cs -> gkey_of shape axes i = modk i /\ bkey_of shape axes i = modk i.
Proof. intros Hi. rewrite Hlen in Hi. destruct (leading_block_keys shape k i Hk Hi) as (E1 & E2 & E3).
  unfold modk, G, axes. rewrite E3. split; assumption. Qed.
Lemma nd_mod : normalize_distribution R_ops (gkey_of shape axes) (bkey_of shape axes) G cs = normalize_distribution R_ops modk modk G cs.
Proof. apply normalize_distribution_ext; intros i Hi; apply keys_mod; exact Hi. Qed.
Lemma gvals_mod g (l : list rcell) : length l = length cs -> rgvals (gkey_of shape axes) g 0 l = rgvals modk g 0 l.
Proof. intros Hl. apply gvals_ext. intros i Hi. apply keys_mod. lia. Qed.
Lemma gmean_mod g (l : list rcell) : length l = length cs -> gmean R_ops (gkey_of shape axes) l g = gmean R_ops modk l g.
Proof. intros Hl. unfold gmean. rewrite (gvals_mod g l Hl). reflexivity. Qed.
Lemma gstd_mod g (l : list rcell) : length l = length cs -> gstd R_ops (gkey_of shape axes) l g = gstd R_ops modk l g.
Proof. intros Hl. unfold gstd. rewrite (gvals_mod g l Hl), (gmean_mod g l Hl). reflexivity. Qed.
Lemma G_pos g : observed (gkey_of shape axes) cs g -> G <> 0.
Proof. intros Ho E. apply Ho. destruct cs as [|c l] eqn:Ec; [reflexivity|]. exfalso.
  assert (Hp : prod shape <> 0) by (rewrite <- Hlen; cbn [length]; lia).
  destruct (prod_skipn_divides shape k) as [a Ha]. unfold G, groups_of, axes in E. rewrite remaining_leading in E. rewrite E in Ha. lia. Qed.

Theorem distribution_post_leading g : observed (gkey_of shape axes) cs g -> gstd R_ops (gkey_of shape axes) cs g <> 0%R ->
  let out := fst (normalize_distribution R_ops (gkey_of shape axes) (bkey_of shape axes) G cs) in
  gmean R_ops (gkey_of shape axes) out g = 0%R /\ gstd R_ops (gkey_of shape axes) out g = 1%R.
Proof. intros Ho Hs out. pose proof (G_pos g Ho) as HG.
  assert (Hout : length out = length cs) by (unfold out, normalize_distribution, apply_stats; cbn [fst]; apply imap_length).
  unfold observed in Ho. rewrite (gvals_mod g cs eq_refl) in Ho. rewrite (gstd_mod g cs eq_refl) in Hs.
  rewrite (gmean_mod g out Hout), (gstd_mod g out Hout). unfold out. rewrite nd_mod.
  exact (distribution_post modk G (fun i => Nat.mod_upper_bound i G HG) cs g Ho Hs). Qed.
Theorem distribution_mask_unchanged_leading :
  map cm (fst (normalize_distribution R_ops (gkey_of shape axes) (bkey_of shape axes) G cs)) = map cm cs.
Proof. rewrite nd_mod. destruct (Nat.eq_dec G 0) as [E|HG].
  - (* no group at all: the body is empty *)
    assert (Hc : cs = []).
    { destruct cs as [|c l]; [reflexivity|]. exfalso. assert (Hp : prod shape <> 0) by (rewrite <- Hlen; cbn [length]; lia).
      destruct (prod_skipn_divides shape k) as [a Ha]. unfold G, groups_of, axes in E. rewrite remaining_leading in E. rewrite E in Ha. lia. }
    rewrite Hc. reflexivity.
  - exact (distribution_mask_unchanged modk G (fun i => Nat.mod_upper_bound i G HG) cs). Qed.
Theorem unnormalize_inverse_leading :
  (forall g, observed (gkey_of shape axes) cs g -> gstd R_ops (gkey_of shape axes) cs g <> 0%R) ->
  let r := normalize_distribution R_ops (gkey_of shape axes) (bkey_of shape axes) G cs in
  cfilled R_ops (unnormalize_distribution R_ops (bkey_of shape axes) (fst (snd r)) (snd (snd r)) (fst r)) = cfilled R_ops cs.
Proof. intros Hs r. unfold r. rewrite nd_mod. destruct (Nat.eq_dec G 0) as [E|HG].
  - assert (Hc : cs = []).
    { destruct cs as [|c l]; [reflexivity|]. exfalso. assert (Hp : prod shape <> 0) by (rewrite <- Hlen; cbn [length]; lia).
      destruct (prod_skipn_divides shape k) as [a Ha]. unfold G, groups_of, axes in E. rewrite remaining_leading in E. rewrite E in Ha. lia. }
    rewrite Hc. reflexivity.
  - set (r' := normalize_distribution R_ops modk modk G cs).
    assert (Hl : length (fst r') = length cs) by (unfold r', normalize_distribution, apply_stats; cbn [fst]; apply imap_length).
    replace (unnormalize_distribution R_ops (bkey_of shape axes) (fst (snd r')) (snd (snd r')) (fst r'))
      with (unnormalize_distribution R_ops modk (fst (snd r')) (snd (snd r')) (fst r')).
    + apply (unnormalize_inverse modk G (fun i => Nat.mod_upper_bound i G HG) cs).
      intros g Ho. rewrite <- (gstd_mod g cs eq_refl). apply Hs. unfold observed in *. rewrite (gvals_mod g cs eq_refl). exact Ho.
    + unfold unnormalize_distribution. apply imap_ext_bound. intros i a Hi. destruct (keys_mod i) as [_ E2]; [lia|]. rewrite E2. reflexivity. Qed.
End Leading.
