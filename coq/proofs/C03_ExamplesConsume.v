(* Non-vacuity of the C03 consumption bound: a 600-frame file (14 452 bytes) is longer than the bound for the
   window [1,2) under an empty memo (10 416 bytes), and the model's stream read of that window pulls 10 364
   bytes - the 10 340-byte prefetch plus the 24 bytes of the window - not the remainder of the file. *)
From Coq Require Import ZArith NArith List Lia Bool.
Require Import ListN Result Bytes Utf8 Utf8S F32 Prog Codec ProgLemmas CodecRT PoseRead PoseReadLemmas WindowLemmas StreamRead C03_Window C03_Consume C03_Examples.
Import ListNotations.
Open Scope N_scope.

Definition ex600 : wpose :=
  {| w_dims := w_dims ex3; w_comps := w_comps ex3; w_fps := w_fps ex3;
     w_shape := [600; 1; 2; 2];
     w_data := repeat 4607182418800017408 (N.to_nat 2400);
     w_cshape := [600; 1; 2];
     w_conf := repeat 4607182418800017408 (N.to_nat 1200) |}.
Definition ex600_file : bytes := match write_pose ex600 with Ok b => b | Err _ => [] end.

Lemma ex600_written : write_pose ex600 = Ok ex600_file.
Proof. vm_compute. reflexivity. Qed.
Lemma ex600_wf : wf_arrays ex600 /\ 1 <= nth 3 (w_shape ex600) 0.
Proof. split; [split; vm_compute; reflexivity|]. cbn. lia. Qed.
Lemma ex600_window_hyps :
  any_arg ex3_frames = true /\
  conflict (a_sf ex3_frames) (a_st ex3_frames) = false /\ conflict (a_ef ex3_frames) (a_et ex3_frames) = false /\
  resolve_start (fps_word ex600) (a_sf ex3_frames) (a_st ex3_frames) = Ok (Some 1%Z) /\
  resolve_end (fps_word ex600) (a_ef ex3_frames) (a_et ex3_frames) = Ok (Some 2%Z) /\
  valid_window ex600 (Some 1%Z) (Some 2%Z).
Proof.
  split; [reflexivity|]. split; [reflexivity|]. split; [reflexivity|]. split; [reflexivity|]. split; [reflexivity|].
  unfold valid_window. vm_compute. split; [right; reflexivity|intros E; discriminate].
Qed.
(* the bound is 42 + 10 + 10340 + 24 = 10416 < 14452 = the file's length; the model pulls 10364 *)
Lemma ex600_bound_below_file :
  header_len ex600 + 10 + prefetch_len None + window_bytes ex600 (Some 1%Z) (Some 2%Z) = 10416 /\
  lenN ex600_file = 14452 /\
  snd (read_stream no_legacy None ex600_file ex3_frames) = 10364.
Proof. split; [vm_compute; reflexivity|]. split; vm_compute; reflexivity. Qed.
