(* Concrete witnesses that the hypotheses of the C01 / C07 theorems are satisfiable (non-vacuity). *)
From Coq Require Import ZArith NArith List Lia.
Require Import ListN Result Bytes Utf8 Utf8S F32 Prog Codec ProgLemmas CodecRT PoseRead PoseReadLemmas.
Import ListNotations.
Open Scope N_scope.

(* two components, a 2-byte and a 3-byte-per-character name, mixed formats (XYC / XC), one frame, two people,
   NaN / -0.0 / subnormal data, a zero and a non-zero confidence *)
Definition ex_pose : wpose :=
  {| w_dims := (640, 480, 0)%Z;
     w_comps := [ {| wc_name := [233; 8364]; wc_format := [88; 89; 67]; wc_points := [[97]; [26085; 26412]];
                     wc_limbs := [(0, 1)%Z]; wc_colors := [(255, 0, 65535)%Z] |};
                  {| wc_name := []; wc_format := [88; 67]; wc_points := [[98]]; wc_limbs := []; wc_colors := [] |} ];
     w_fps := 4629137466983448576;              (* 30.0 *)
     w_shape := [1; 2; 3; 2];
     w_data := [9221120237041090560; 9223372036854775808; 1; 4607182418800017408; 4611686018427387904; 0;
                4613937818241073152; 4616189618054758400; 4617315517961601024; 0; 0; 4607182418800017408];
     w_cshape := [1; 2; 3];
     w_conf := [4607182418800017408; 0; 4602678819172646912; 0; 9223372036854775808; 4607182418800017408] |}.
Lemma ex_pose_written : exists bs, write_pose ex_pose = Ok bs /\ lenN bs = 148.
Proof. eexists. split; vm_compute; reflexivity. Qed.
Lemma ex_pose_wf : wf_arrays ex_pose /\ 1 <= nth 3 (w_shape ex_pose) 0.
Proof. split; [split; reflexivity|]. cbn. lia. Qed.
(* zero frames and zero people are representable too *)
Definition ex_empty : wpose :=
  {| w_dims := (0, 0, 0)%Z;
     w_comps := [ {| wc_name := [65]; wc_format := [88; 89; 90; 67]; wc_points := []; wc_limbs := []; wc_colors := [] |} ];
     w_fps := 0; w_shape := [0; 0; 0; 3]; w_data := []; w_cshape := [0; 0; 0]; w_conf := [] |}.
Lemma ex_empty_written : exists bs, write_pose ex_empty = Ok bs.
Proof. eexists. vm_compute. reflexivity. Qed.
(* unrepresentable poses are rejected: a surrogate code point, a 65536-byte... (short witnesses) *)
Lemma ex_rejected_surrogate :
  write_pose {| w_dims := (1, 1, 0)%Z;
                w_comps := [ {| wc_name := [55296]; wc_format := [88; 67]; wc_points := []; wc_limbs := []; wc_colors := [] |} ];
                w_fps := 0; w_shape := [0; 1; 0; 1]; w_data := []; w_cshape := [0; 1; 0]; w_conf := [] |} = Err Unicode.
Proof. vm_compute. reflexivity. Qed.
Lemma ex_rejected_points_mismatch :
  write_pose {| w_dims := (1, 1, 0)%Z;
                w_comps := [ {| wc_name := [65]; wc_format := [88; 67]; wc_points := [[97]]; wc_limbs := []; wc_colors := [] |} ];
                w_fps := 0; w_shape := [1; 1; 2; 1]; w_data := [0; 0]; w_cshape := [1; 1; 2]; w_conf := [0; 0] |} = Err Value.
Proof. vm_compute. reflexivity. Qed.
(* a memo holding another file's header is a consistent memo *)
Definition ex_empty_bytes : bytes := match write_pose ex_empty with Ok b => b | Err _ => [] end.
Definition ex_memo : option memo := snd (read_bytes no_legacy None ex_empty_bytes no_args).
Lemma ex_memo_some : exists c, ex_memo = Some c.
Proof. vm_compute. eexists. reflexivity. Qed.
Lemma ex_memo_ok : exists m, m <> None /\ MemoOK m.
Proof.
  exists ex_memo. split.
  - destruct ex_memo_some as [c ->]. discriminate.
  - unfold ex_memo. apply read_bytes_memo_ok. exact I.
Qed.
