(* C03, consumption clause: bytes a windowed stream read hands to the decoder ([consumed]) are exactly the three
   info fields plus the window of the data and confidence blocks; with the simulation theorem's
   "pulled grows no faster than consumed" this bounds the bytes pulled from the stream by
   header + 10 + prefetch + window, whatever the file length. *)
From Coq Require Import ZArith NArith List Lia ZifyBool ZifyN ZifyNat Bool.
Require Import ListN Result Bytes Utf8 Utf8S F32 Prog Codec ProgLemmas CodecRT PoseRead PoseReadLemmas StreamLemmas WindowLemmas StreamRead C03_Window.
Import ListNotations.
Open Scope N_scope.
Ltac Zify.zify_post_hook ::= Z.div_mod_to_equations.

(* ---------- how far single reader calls move [consumed] ---------- *)
Lemma expect_off q n r r1 : expect q n r = Ok r1 -> off r1 = off r /\ skipped r1 = skipped r.
Proof.
  unfold expect. destruct (bytes_left r <? Z.of_N n)%Z.
  - intros H. apply read_chunk_ok in H. tauto.
  - intros [= <-]. auto.
Qed.

Lemma block_ret_consumed {A} q n (g : bytes -> A) sr x sr' :
  skipped sr <= off sr ->
  run_stream q (Block n (fun b => Ret (g b))) sr = Ok (x, sr') ->
  consumed sr' = consumed sr + n /\ skipped sr' <= off sr'.
Proof.
  intros Hso H. cbn [run_stream] in H.
  destruct (expect q n sr) as [r1|e] eqn:He; [|discriminate].
  destruct (expect_off _ _ _ _ He) as [Ho Hs].
  destruct (off r1 - skipped r1 + n <=? lenN (buf r1)); [|discriminate].
  injection H as _ <-. unfold consumed. cbn [off skipped]. lia.
Qed.

Lemma zblock_consumed q n (g : bytes -> list N) sr (t : list N) sr' :
  skipped sr <= off sr ->
  run_stream q (zblock n (fun b => Ret (g b))) sr = Ok (t, sr') ->
  consumed sr' = consumed sr + Z.to_N n /\ skipped sr' <= off sr' /\ (0 <= n)%Z.
Proof.
  intros Hso H. unfold zblock in H. destruct (Z.ltb_spec n 0) as [|Hn]; [discriminate|].
  destruct (block_ret_consumed q _ g sr t sr' Hso H) as [Hc Hs]. auto.
Qed.

Lemma sskip_consumed n r : skipped r <= off r -> consumed (sskip n r) = consumed r /\ skipped (sskip n r) <= off (sskip n r).
Proof. intros H. unfold consumed, sskip. cbn [off skipped]. lia. Qed.

(* read_v0_1_frames on the stream reader: the decoder is handed exactly the window's bytes *)
Lemma read_frames_consumed q frames cells s e sr x sr' :
  skipped sr <= off sr ->
  run_stream q (read_frames frames cells s e) sr = Ok (x, sr') ->
  fst x = (end0 e frames - start0 s)%Z /\
  consumed sr' = consumed sr + Z.to_N (4 * fst x * cells) /\ skipped sr' <= off sr' /\ (0 <= 4 * fst x * cells)%Z.
Proof.
  intros Hso H. unfold read_frames, start0, end0 in *.
  destruct s as [z|]; [destruct (Z.ltb_spec 0 z) as [Hz0|Hz0]|]; cbn [andb] in H;
    [destruct (Z.leb_spec frames z) as [|Hfz]; [discriminate|]| |]; cbv beta iota zeta in H;
    [cbn [run_stream] in H; destruct (sskip_consumed (Z.to_N (4 * z * cells)) sr Hso) as [Hc0 Hso0]| |];
    destruct e as [e'|]; rewrite run_stream_bind in H;
    match type of H with context [run_stream q (zblock ?n ?g) ?r] =>
      destruct (run_stream q (zblock n g) r) as [[t ra]|er] eqn:Hz; [|discriminate];
      match type of Hz with _ = _ =>
        first [ destruct (zblock_consumed q _ _ _ t ra Hso0 Hz) as [Hc [Hs Hn]]
              | destruct (zblock_consumed q _ _ _ t ra Hso Hz) as [Hc [Hs Hn]] ] end end;
    cbn [run_stream] in H; injection H as <- <-; cbn [fst];
    try (match goal with Hs' : skipped ?r1 <= off ?r1 |- context [sskip ?n ?r1] => destruct (sskip_consumed n r1 Hs') as [Hc2 Hs2]; rewrite Hc2 end);
    rewrite Hc; try rewrite Hc0; (split; [lia|]); auto.
Qed.

(* the windowed v0.2 body decoder: 10 bytes of info fields, then the window of the data block and of the
   confidence block - [f] frames of [P] people, [T] points, [D] dims + 1 confidence, 4 bytes each *)
Lemma body_prog_consumed q h sf st ef et sr b sr' :
  skipped sr <= off sr ->
  run_stream q (body_prog h sf st ef et) sr = Ok (b, sr') ->
  exists f P T D, b_shape b = [f; P; T; D] /\ consumed sr' = consumed sr + 10 + 4 * P * T * (D + 1) * f.
Proof.
  intros Hso H. unfold body_prog in H.
  rewrite run_stream_bind in H. destruct (run_stream q rd_u32 sr) as [[fps r1]|er] eqn:H1; [|discriminate].
  destruct (block_ret_consumed q _ _ _ _ _ Hso H1) as [Hc1 Hs1].
  rewrite run_stream_bind in H. destruct (run_stream q rd_u32 r1) as [[F r2]|er] eqn:H2; [|discriminate].
  destruct (block_ret_consumed q _ _ _ _ _ Hs1 H2) as [Hc2 Hs2].
  rewrite run_stream_bind in H. destruct (run_stream q rd_u16 r2) as [[P r3]|er] eqn:H3; [|discriminate].
  destruct (block_ret_consumed q _ _ _ _ _ Hs2 H3) as [Hc3 Hs3].
  destruct (num_dims h) as [D|er]; cbn [plift pbind] in H; [|discriminate].
  destruct (resolve_start fps sf st) as [s|er]; cbn [plift pbind] in H; [|discriminate].
  destruct (resolve_end fps ef et) as [e|er]; cbn [plift pbind] in H; [|discriminate].
  rewrite run_stream_bind in H.
  destruct (run_stream q (read_frames _ _ s e) r3) as [[dat r4]|er] eqn:H4; [|discriminate].
  destruct (read_frames_consumed q _ _ _ _ _ _ _ Hs3 H4) as [Hx4 [Hc4 [Hs4 Hn4]]].
  rewrite run_stream_bind in H.
  destruct (run_stream q (read_frames _ _ s e) r4) as [[cnf r5]|er] eqn:H5; [|discriminate].
  destruct (read_frames_consumed q _ _ _ _ _ _ _ Hs4 H5) as [Hx5 [Hc5 [Hs5 Hn5]]].
  unfold mk_body in H. destruct (Z.leb_spec D 0) as [|HD]; [discriminate|]. cbn [plift run_stream] in H.
  injection H as <- <-. cbn [b_shape].
  exists (Z.to_N (fst dat)), P, (total_points h), (Z.to_N D). split; [reflexivity|].
  rewrite Hc5, Hc4, Hc3, Hc2, Hc1. rewrite Hx5, <- Hx4 in *.
  remember (fst dat) as f2. remember (Z.of_N (P * total_points h)) as c eqn:Ec.
  assert (Hc0 : (0 <= c)%Z) by lia.
  destruct (Z.eq_dec c 0) as [E0|Hne].
  - rewrite E0 in *. replace (4 * f2 * (0 * D))%Z with 0%Z by ring. replace (4 * f2 * 0)%Z with 0%Z by ring.
    assert (EPT : P * total_points h = 0) by lia. rewrite <- !N.mul_assoc. rewrite (N.mul_assoc P), EPT. lia.
  - assert (Hf : (0 <= f2)%Z) by nia.
    replace (4 * P * total_points h * (Z.to_N D + 1) * Z.to_N f2) with (4 * Z.to_N f2 * (P * total_points h) * (Z.to_N D + 1)) by ring.
    assert (E1 : Z.to_N (4 * f2 * (c * D)) = 4 * Z.to_N f2 * (P * total_points h) * Z.to_N D).
    { replace (4 * f2 * (c * D))%Z with (4 * (f2 * (c * D)))%Z by ring.
      rewrite Z2N.inj_mul by nia. rewrite (Z2N.inj_mul f2) by nia. rewrite (Z2N.inj_mul c) by lia.
      rewrite Ec, N2Z.id. change (Z.to_N 4) with 4. ring. }
    assert (E2 : Z.to_N (4 * f2 * c) = 4 * Z.to_N f2 * (P * total_points h)).
    { replace (4 * f2 * c)%Z with (4 * (f2 * c))%Z by ring.
      rewrite Z2N.inj_mul by nia. rewrite (Z2N.inj_mul f2) by lia.
      rewrite Ec, N2Z.id. change (Z.to_N 4) with 4. ring. }
    rewrite E1, E2.
    ring.
Qed.

(* ---------- Pose.read on a stream up to the point where the body decoder starts ---------- *)
(* state of the stream reader when the body decoder starts: nothing skipped yet, the buffer is a prefix of the
   file that covers the header *)
Definition BodyStart (q : bytes) (o : N) (sr : sreader) : Prop :=
  skipped sr = 0 /\ buf sr = takeN (lenN (buf sr)) q /\ off sr = o /\ o <= lenN (buf sr).
Lemma body_start_sim q o sr : BodyStart q o sr -> Sim q [] {| pbuf := q; poff := o |} sr.
Proof.
  intros [Hs [Hb [Ho Hl]]]. unfold Sim; cbn [pbuf poff]. split; [now rewrite app_nil_r|]. split; [now symmetry|].
  unfold Inv. rewrite Hs. split; [lia|]. exists 0. split; [lia|]. split; [lia|].
  rewrite !dropN_0, N.sub_0_r. exact Hb.
Qed.
Lemma header_nonempty3 q h r : run_plain rd_header {| pbuf := q; poff := 0 |} = Ok (h, r) -> q <> [].
Proof. intros H ->. cbn in H. discriminate. Qed.

Section WithLegacy.
Variable legacy : vclass -> header -> rargs -> prog body.

(* whatever the memo holds: the body decoder starts at the end of the header, having pulled at most the
   prefetch plus the header; the result, memo and pulled count are those of the body decoder's run *)
Lemma stream_handoff m q a h o : MemoOK m -> any_arg a = true ->
  run_plain rd_header {| pbuf := q; poff := 0 |} = Ok (h, {| pbuf := q; poff := o |}) ->
  exists sr m', BodyStart q o sr /\ pulled sr <= prefetch_len m + o /\
    read_stream legacy m q a =
      match run_stream q (read_body legacy h a) sr with
      | Ok (b, r3) => (Ok {| p_header := h; p_body := b |}, m', pulled r3)
      | Err e => (Err e, m', 0)
      end.
Proof.
  intros Hm Ha Hh. unfold read_stream. rewrite Ha. cbn [negb].
  assert (Hpos : 0 < prefetch_len m) by (unfold prefetch_len; destruct m as [c|]; [destruct (m_end c =? 0)|]; lia).
  destruct (expect q (prefetch_len m) _) as [r1|e] eqn:Hex.
  2:{ exfalso. apply (header_nonempty3 _ _ _ Hh).
      unfold expect, bytes_left in Hex. cbn [buf off skipped] in Hex.
      destruct (Z.ltb_spec (Z.of_N (lenN (@nil N)) - Z.of_N 0 + Z.of_N 0) (Z.of_N (prefetch_len m))); [|discriminate].
      unfold read_chunk in Hex. cbn [buf skipped app] in Hex.
      destruct (takeN _ (dropN (0 + lenN (@nil N)) q)) as [|x l] eqn:E; [|discriminate].
      replace (0 + lenN (@nil N)) with 0 in E by reflexivity. rewrite dropN_0 in E.
      destruct q as [|y q']; [reflexivity|]. apply (f_equal lenN) in E. rewrite lenN_takeN in E.
      unfold lenN in E. cbn [length] in E. lia. }
  destruct (prefetch_sim q [] m r1 Hex) as [HS [Hp [Hc0 Hbuf]]]. rewrite app_nil_r in HS.
  assert (Hsk1 : skipped r1 = 0).
  { destruct HS as [_ [Ho [Hso _]]]. cbn [poff] in Ho. lia. }
  rewrite Hbuf, (check_cache_prefetch m q Hm).
  destruct (check_cache m q) as [c|] eqn:Hc.
  - (* hit *)
    destruct (check_cache_hit m q c Hm Hc) as [-> Hhd]. rewrite Hh in Hhd. injection Hhd as -> ->.
    exists {| buf := takeN (prefetch_len (Some c)) q; off := m_end c; skipped := skipped r1; pulled := pulled r1 |}, (Some c).
    split; [|split; [cbn [pulled]; lia|reflexivity]].
    unfold BodyStart; cbn [buf off skipped]. split; [exact Hsk1|]. split; [apply pre_takeN|]. split; [reflexivity|].
    destruct Hm as [Hst [Hl _]]. unfold check_cache in Hc.
    destruct (bytes_eqb (m_slice c) (py_slice (m_start c) (m_end c) q)) eqn:E; [|discriminate].
    apply bytes_eqb_eq in E. unfold py_slice in E. rewrite Hst, dropN_0, N.sub_0_r in E.
    apply (f_equal lenN) in E. rewrite Hl, lenN_takeN in E.
    rewrite lenN_takeN. unfold prefetch_len. destruct (m_end c =? 0) eqn:E0; lia.
  - (* miss *)
    pose proof (sim_fwd q [] _ v2prog_rd_header _ _ _ _ HS Hh) as Hsim1.
    destruct (run_stream q rd_header r1) as [[h' r2]|e] eqn:Hrs; [|now contradiction Hsim1].
    destruct Hsim1 as [<- [HS2 [Hpc _]]].
    assert (HP1 : Pre q r1) by (split; [exact Hsk1|rewrite Hbuf; apply pre_takeN]).
    destruct (pre_run q _ noSkip_rd_header _ _ _ HP1 Hrs) as [Hsk2 Hpre].
    destruct HS2 as [_ [Ho2 [_ [j [_ [Hi _]]]]]]. cbn [poff] in Ho2.
    exists r2. eexists. split; [|split; [|reflexivity]].
    + unfold BodyStart. split; [exact Hsk2|]. split; [exact Hpre|]. split; [now symmetry|lia].
    + unfold consumed in *. lia.
Qed.
End WithLegacy.

(* ---------- the closed forms of the consumption clause ---------- *)
(* byte length of the header Pose.write emits for [p] *)
Definition header_len (p : wpose) : N :=
  match write_header (w_dims p) (w_comps p) with Ok h => lenN h | Err _ => 0 end.
(* bytes of frames [start, min(end, frames)) in the data and the confidence block:
   4 * people * points * (dims + 1) per frame *)
Definition window_bytes (p : wpose) (s e : option Z) : N :=
  4 * nth 1 (w_shape p) 0 * nth 2 (w_shape p) 0 * (nth 3 (w_shape p) 0 + 1)
    * Z.to_N (end0 e (frames_of p) - start0 s).

Section Theorems.
Variable legacy : vclass -> header -> rargs -> prog body.

(* A windowed stream read pulls at most: the header, the 10 bytes of the body's info fields (fps, frame count,
   people count), the prefetch, and the window itself - nothing that depends on the frames outside the window
   or on the length of the file. *)
Theorem read_stream_pulled_bound m p bs a s e :
  MemoOK m -> write_pose p = Ok bs -> wf_arrays p -> 1 <= nth 3 (w_shape p) 0 ->
  any_arg a = true ->
  conflict (a_sf a) (a_st a) = false -> conflict (a_ef a) (a_et a) = false ->
  resolve_start (fps_word p) (a_sf a) (a_st a) = Ok s -> resolve_end (fps_word p) (a_ef a) (a_et a) = Ok e ->
  valid_window p s e ->
  snd (read_stream legacy m bs a) <= header_len p + 10 + prefetch_len m + window_bytes p s e.
Proof.
  intros Hm H Hwf HD Ha Hc1 Hc2 Hrs Hre [Hv1 Hv2].
  destruct (write_pose_ok _ _ H) as [F [P [T [D [h [b [Hs [Hcs [Hnd [Htp [Hh [Hb Hbs]]]]]]]]]]]].
  unfold header_len, window_bytes, frames_of in *. rewrite Hh. rewrite Hs in *. cbn [nth] in *.
  pose proof (header_of_written p bs h b Hh Hbs) as Hhead.
  pose proof (read_body_window_rt p b F P T D _ _ _ _ s e Hs Hcs Hwf Hnd Htp HD Hb Hc1 Hc2 Hrs Hre Hv1 Hv2 h []) as Hbody.
  rewrite app_nil_r, <- Hbs in Hbody.
  destruct (stream_handoff legacy m bs a _ _ Hm Ha Hhead) as [sr [m' [HH [Hp Heq]]]].
  rewrite Heq, read_body_dispatch.
  pose proof (sim_fwd bs [] _ (v2prog_read_v0_2 _ _ _ _ _) _ _ _ _ (body_start_sim _ _ _ HH) Hbody) as Hsim.
  destruct (run_stream bs (read_v0_2 _ _ _ _ _) sr) as [[b' sr']|er] eqn:Hrun; [|now contradiction Hsim].
  destruct Hsim as [<- [_ [Hpc _]]]. cbn [snd].
  rewrite read_v0_2_shape, Hc1, Hc2 in Hrun. cbn [orb] in Hrun.
  assert (Hso : skipped sr <= off sr) by (destruct HH as [Hk _]; lia).
  destruct (body_prog_consumed _ _ _ _ _ _ _ _ _ Hso Hrun) as [f [P' [T' [D' [Hsh Hcons]]]]].
  unfold window_body, canon_body in Hsh. cbn [b_shape] in Hsh. rewrite Hs in Hsh. cbn [b_shape] in Hsh.
  injection Hsh as <- <- <- <-. lia.
Qed.

(* the bound in the form sketched in DESIGN section 6 (the prefetch is at least 100 bytes) *)
Corollary read_stream_pulled_bound_2pf m p bs a s e :
  MemoOK m -> write_pose p = Ok bs -> wf_arrays p -> 1 <= nth 3 (w_shape p) 0 ->
  any_arg a = true ->
  conflict (a_sf a) (a_st a) = false -> conflict (a_ef a) (a_et a) = false ->
  resolve_start (fps_word p) (a_sf a) (a_st a) = Ok s -> resolve_end (fps_word p) (a_ef a) (a_et a) = Ok e ->
  valid_window p s e ->
  snd (read_stream legacy m bs a) <= header_len p + 2 * prefetch_len m + window_bytes p s e.
Proof.
  intros Hm H Hwf HD Ha Hc1 Hc2 Hrs Hre Hv.
  pose proof (read_stream_pulled_bound m p bs a s e Hm H Hwf HD Ha Hc1 Hc2 Hrs Hre Hv) as Hb.
  assert (Hpf : 100 <= prefetch_len m) by (unfold prefetch_len; destruct m as [c|]; [destruct (m_end c =? 0)|]; lia).
  lia.
Qed.
End Theorems.
