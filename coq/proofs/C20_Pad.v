(* C20 - the master lemma: on a well-formed homogeneous batch, pad_tensors (with any sound shortcut)
   returns exactly [spec_out]. *)
From Coq Require Import List ZArith Arith Bool Lia.
Require Import Result Tensor C20_Collate C20_Spec.
Import ListNotations.

Lemma rmapM_ok {A B} (f : A -> result B) (g : A -> B) (l : list A) :
  (forall x, In x l -> f x = Ok (g x)) -> rmapM f l = Ok (map g l).
Proof.
  induction l as [|a l IH]; intros H; cbn [rmapM map]; [reflexivity|].
  rewrite (H a (or_introl eq_refl)). cbn [rbind].
  rewrite IH by (intros x Hx; apply H; right; exact Hx). reflexivity.
Qed.

Lemma nats_eqb_refl s : nats_eqb s s = true.
Proof. induction s as [|a s IH]; cbn [nats_eqb]; [reflexivity|]. now rewrite Nat.eqb_refl, IH. Qed.

Lemma dt_max_idem d : dt_max d d = d.
Proof. unfold dt_max. now rewrite Nat.ltb_irrefl. Qed.

Lemma forallb_true_in {A} (p : A -> bool) l : (forall x, In x l -> p x = true) -> forallb p l = true.
Proof. intros H. apply forallb_forall. exact H. Qed.

Lemma tensor_eta {X} (t : tensor X) : t = mkT (shape t) (data t).
Proof. destruct t; reflexivity. Qed.

Lemma in_le_list_max n l : In n l -> n <= list_max l.
Proof.
  intros Hin. pose proof (proj1 (list_max_le l (list_max l)) (le_n _)) as HF.
  rewrite Forall_forall in HF. now apply HF.
Qed.

Lemma len_le_Lmax x batch : In x batch -> len_of x <= Lmax batch.
Proof. intros H. apply in_le_list_max. now apply in_map. Qed.

Lemma good_len masked tail x : good masked tail x -> tl_len x = Ok (len_of x).
Proof. intros (_ & Hs & _). unfold tl_len. now rewrite Hs. Qed.

(* an example that needs no padding is its own padded form *)
Lemma padded_self masked tail pv L x : good masked tail x -> len_of x = L -> padded masked L tail pv x = x.
Proof.
  intros (Hk & Hs & _ & Hm) HL. unfold padded, row_of. rewrite HL, Nat.sub_diag. cbn [Nat.mul repeat].
  rewrite !app_nil_r. rewrite <- HL, <- Hs.
  destruct x as [dt t m|dt t]; cbn [is_masked tl_t tl_m tl_dt] in *; subst masked.
  - destruct (Hm eq_refl) as [Hsm _]. rewrite <- Hsm at 2. now rewrite <- !tensor_eta.
  - now rewrite <- tensor_eta.
Qed.

Lemma pad_one_ok masked tail pv L x :
  good masked tail x -> len_of x <= L -> pad_fits (tl_dt x) pv = true ->
  pad_one masked L pv x = Ok (padded masked L tail pv x).
Proof.
  intros G Hle Hfit. pose proof G as (Hk & Hs & _ & Hm).
  unfold pad_one. rewrite Hs.
  destruct (0 <? L - len_of x) eqn:Hlt.
  - apply Nat.ltb_lt in Hlt. unfold cast_pad. rewrite Hfit. cbn [rbind].
    assert (HL : len_of x + (L - len_of x) = L) by lia.
    destruct x as [dt t m|dt t]; cbn [is_masked tl_t tl_m tl_dt] in *; subst masked.
    + destruct (Hm eq_refl) as [Hsm _].
      unfold cat2, as_masked; cbn [fst snd]. unfold tcat0, tfull; cbn [shape data].
      rewrite Hsm, Hs, nats_eqb_refl. cbn [rbind]. rewrite dt_max_idem, HL.
      unfold padded, row_of, pad_mask_fill; cbn [tl_t tl_m tl_dt prod fold_right]. reflexivity.
    + unfold cat2, tcat0, tfull; cbn [shape data]. rewrite Hs, nats_eqb_refl. cbn [rbind].
      rewrite dt_max_idem, HL. unfold padded, row_of; cbn [tl_t tl_dt prod fold_right]. reflexivity.
  - apply Nat.ltb_ge in Hlt. f_equal. symmetry. apply (padded_self masked tail pv L x G). lia.
Qed.

(* stacking the padded examples *)
Lemma stack_padded masked tail pv batch :
  batch <> [] ->
  stack masked (map (padded masked (Lmax batch) tail pv) batch) = Ok (spec_out masked tail pv batch).
Proof.
  intros Hne. unfold stack, spec_out. set (L := Lmax batch). destruct masked.
  - rewrite (rmapM_ok masked_parts
               (fun y => (tl_dt y, (tl_t y, tl_m y)))) by (intros y Hy; apply in_map_iff in Hy; destruct Hy as (x & <- & _); reflexivity).
    cbn [rbind]. rewrite !map_map. unfold padded; cbn [fst snd tl_dt tl_t tl_m].
    destruct batch as [|x0 r]; [congruence|].
    unfold tstack0. cbn [map]. 
    rewrite forallb_true_in by (intros t Ht; change (x0 :: r) with ([x0] ++ r) in Ht; cbn [app] in Ht;
      destruct Ht as [<-|Ht]; [apply nats_eqb_refl|apply in_map_iff in Ht; destruct Ht as (x & <- & _); apply nats_eqb_refl]).
    cbn [rbind].
    rewrite forallb_true_in by (intros t Ht; destruct Ht as [<-|Ht]; [apply nats_eqb_refl|apply in_map_iff in Ht; destruct Ht as (x & <- & _); apply nats_eqb_refl]).
    cbn [rbind shape data length]. rewrite !map_length, !map_map. cbn [data]. reflexivity.
  - rewrite (rmapM_ok plain_parts (fun y => (tl_dt y, tl_t y))) by (intros y Hy; apply in_map_iff in Hy; destruct Hy as (x & <- & _); reflexivity).
    cbn [rbind]. rewrite !map_map. unfold padded; cbn [fst snd tl_dt tl_t].
    destruct batch as [|x0 r]; [congruence|].
    unfold tstack0. cbn [map].
    rewrite forallb_true_in by (intros t Ht; destruct Ht as [<-|Ht]; [apply nats_eqb_refl|apply in_map_iff in Ht; destruct Ht as (x & <- & _); apply nats_eqb_refl]).
    cbn [rbind shape data length]. rewrite !map_length, !map_map. cbn [data]. reflexivity.
Qed.

Theorem pad_tensors_master masked tail pv batch sc :
  sc_sound sc -> good_batch masked tail pv batch ->
  pad_tensors_with sc batch pv = Ok (spec_out masked tail pv batch).
Proof.
  intros Hsc (Hne & HG & HF). rewrite Forall_forall in HG, HF.
  unfold pad_tensors_with. destruct batch as [|x0 r] eqn:Eb; [congruence|]. rewrite <- Eb in *.
  assert (Hcls : is_masked x0 = masked) by (apply (HG x0); rewrite Eb; left; reflexivity).
  rewrite Hcls.
  rewrite (rmapM_ok tl_len len_of) by (intros x Hx; apply (good_len masked tail); now apply HG).
  cbn [rbind]. fold (Lmax batch).
  destruct (sc (map len_of batch) (Lmax batch)) eqn:Esc.
  - apply Hsc in Esc. rewrite Forall_forall in Esc.
    rewrite <- (stack_padded masked tail pv batch Hne). f_equal.
    rewrite <- (map_id batch) at 1. apply map_ext_in. intros x Hx. symmetry.
    apply padded_self; [now apply HG|]. apply Esc. now apply in_map.
  - rewrite (rmapM_ok (pad_one masked (Lmax batch) pv) (padded masked (Lmax batch) tail pv))
      by (intros x Hx; apply pad_one_ok; [now apply HG|now apply len_le_Lmax|now apply HF]).
    cbn [rbind]. now apply stack_padded.
Qed.

Lemma sc_repaired_sound : sc_sound sc_repaired.
Proof.
  intros lens mx H. unfold sc_repaired in H. rewrite forallb_forall in H.
  apply Forall_forall. intros n Hn. apply Nat.eqb_eq. now apply H.
Qed.
Lemma sc_none_sound : sc_sound sc_none.
Proof. intros lens mx H. discriminate H. Qed.
