(* C08 - ties between the facts regenerated from the source (gen/Gen_C08.v) and what the hand-written model
   was written from.  A source edit that changes one of them breaks the corresponding obligation. *)
From Coq Require Import String List ZArith NArith.
Require Import Tree C08_Body C08_Run Gen_C08.
Import ListNotations.
Open Scope string_scope.

(* the constructors and zero_filled as repaired (F7, F8, F9, NumPy stacking axis): the configuration the runner
   is given is one of those the theorems are about (they hold for either shape of MaskedTensor.matmul's mask
   and of the index-list cast, which other owners' proposed fixes change) *)
Lemma ctor_cfg_tie : exists mm eo, t_cfg (Nd (map L Gen_C08.cfg_code)) = cfg_repaired mm eo.
Proof. eexists. eexists. reflexivity. Qed.
Lemma ctor_facts_tie : Gen_C08.ctor_facts =
  [ "numpy: mask = confidence == 0; np.stack axis=-1";
    "torch: valid = confidence != 0; torch.stack([mask] * data.shape[-1], dim=3)";
    "tensorflow: valid = confidence != 0; tf.stack([mask] * data.shape[-1], axis=3)" ].
Proof. reflexivity. Qed.
Lemma zf_facts_tie : Gen_C08.zf_facts =
  [ "torch: where";
    "tensorflow: where" ].
Proof. reflexivity. Qed.
(* POINTS_DIMS puts the points axis first, keeps the coordinates last and is its own inverse, so that
   transpose ; index axis 0 ; transpose is indexing on axis 2 (model/C08_Body.v get_points) *)
Lemma points_dims_tie : Gen_C08.points_dims = [2; 1; 0; 3]%nat.
Proof. reflexivity. Qed.
Lemma points_dims_involution :
  nth 0 Gen_C08.points_dims 9 = 2%nat /\ nth 3 Gen_C08.points_dims 9 = 3%nat /\
  map (fun i => nth (nth i Gen_C08.points_dims 9) Gen_C08.points_dims 9) [0; 1; 2; 3]%nat = [0; 1; 2; 3]%nat.
Proof. repeat split. Qed.
Lemma tf_flatten_tie : Gen_C08.tf_flatten = "absent".
Proof. reflexivity. Qed.

(* reading: which reader each class names, and what the torch / tensorflow readers do to the ndarray *)
Lemma read_source_tie : (Gen_C08.tensor_readers, Gen_C08.fn_unpack_torch, Gen_C08.fn_unpack_tensorflow) =
  (
  [ "numpy:unpack_numpy";
    "torch:unpack_torch";
    "tensorflow:unpack_tensorflow" ],
  [ "import torch";
    "arr = self.unpack_numpy(s, shape)";
    "return torch.from_numpy(arr)" ],
  [ "import tensorflow as tf";
    "arr = self.unpack_numpy(s, shape)";
    "return tf.constant(arr)" ]).
Proof. reflexivity. Qed.

(* NumPyPoseBody.torch() / .tensorflow() *)
Lemma convert_source_tie : (Gen_C08.fn_np_torch, Gen_C08.fn_np_tensorflow) =
  (
  [ "try:
    import torch
except ImportError:
    raise ImportError('Please install torch. https://pytorch.org/')";
    "import torch";
    "from ..torch.pose_body import TorchPoseBody";
    "torch_confidence = torch.from_numpy(self.confidence)";
    "torch_data = torch.from_numpy(self.data.data)";
    "return TorchPoseBody(self.fps, torch_data, torch_confidence)" ],
  [ "import tensorflow";
    "from ..tensorflow.pose_body import TensorflowPoseBody";
    "tf_confidence = tensorflow.constant(self.confidence)";
    "tf_data = tensorflow.constant(self.data.data)";
    "return TensorflowPoseBody(self.fps, tf_data, tf_confidence)" ]).
Proof. reflexivity. Qed.

(* __getitem__, select_frames, slice_step and the containers' indexing *)
Lemma frames_source_tie : (Gen_C08.fn_base_getitem, Gen_C08.fn_base_select_frames, Gen_C08.fn_base_slice_step, Gen_C08.fn_tf_select_frames, Gen_C08.fn_mt_torch_getitem, Gen_C08.fn_mt_tf_getitem, Gen_C08.fn_mt_tf_gather) =
  (
  [ "sliced_data = self.data[index]";
    "sliced_confidence = self.confidence[index]";
    "return type(self)(self.fps, sliced_data, sliced_confidence)" ],
  [ "data = self.data[frame_indexes]";
    "confidence = self.confidence[frame_indexes]";
    "return self.__class__(fps=self.fps, data=data, confidence=confidence)" ],
  [ "new_data = self.data[::by]";
    "new_confidence = self.confidence[::by]";
    "new_fps = self.fps / by";
    "return self.__class__(fps=new_fps, data=new_data, confidence=new_confidence)" ],
  [ "data = self.data.gather(frame_indexes)";
    "confidence = tf.gather(self.confidence, frame_indexes)";
    "return self.__class__(fps=self.fps, data=data, confidence=confidence)" ],
  [ "tensor = self.tensor[key]";
    "mask = self.mask[key]";
    "return MaskedTensor(tensor=tensor, mask=mask)" ],
  [ "if isinstance(key, list):
    tensor = tf.gather(self.tensor, key)
    mask = tf.gather(self.mask, key)
else:
    tensor = self.tensor[key]
    mask = self.mask[key]";
    "return MaskedTensor(tensor=tensor, mask=mask)" ],
  [ "tensor = tf.gather(self.tensor, indexes)";
    "mask = tf.gather(self.mask, indexes)";
    "return MaskedTensor(tensor=tensor, mask=mask)" ]).
Proof. reflexivity. Qed.

(* get_points and the permutations it uses *)
Lemma get_points_source_tie : (Gen_C08.fn_np_get_points, Gen_C08.fn_torch_get_points, Gen_C08.fn_torch_points_perspective, Gen_C08.fn_tf_get_points, Gen_C08.fn_mt_torch_permute, Gen_C08.fn_mt_tf_transpose) =
  (
  [ "data = ma.transpose(self.data, axes=POINTS_DIMS)";
    "new_data = ma.transpose(data[indexes], axes=POINTS_DIMS)";
    "confidence_reshape = (2, 1, 0)";
    "confidence = np.transpose(self.confidence, axes=confidence_reshape)";
    "new_confidence = np.transpose(confidence[indexes], axes=confidence_reshape)";
    "return NumPyPoseBody(self.fps, new_data, new_confidence)" ],
  [ "data = self.points_perspective()";
    "new_data = data[indexes].permute(POINTS_DIMS)";
    "confidence_reshape = (2, 1, 0)";
    "confidence = self.confidence.permute(confidence_reshape)";
    "new_confidence = confidence[indexes].permute(confidence_reshape)";
    "return self.__class__(self.fps, new_data, new_confidence)" ],
  [ "return self.data.permute(POINTS_DIMS)" ],
  [ "data = self.data.transpose(perm=POINTS_DIMS)";
    "new_data = data[indexes].transpose(perm=POINTS_DIMS)";
    "confidence_reshape = [2, 1, 0]";
    "confidence = tf.transpose(self.confidence, perm=confidence_reshape)";
    "new_confidence = tf.transpose(tf.gather(confidence, indexes), perm=confidence_reshape)";
    "return TensorflowPoseBody(self.fps, new_data, new_confidence)" ],
  [ "tensor = self.tensor.permute(dims)";
    "mask = self.mask.permute(dims)";
    "return MaskedTensor(tensor=tensor, mask=mask)" ],
  [ "tensor = tf.transpose(self.tensor, perm=perm)";
    "mask = tf.transpose(self.mask, perm=perm)";
    "return MaskedTensor(tensor=tensor, mask=mask)" ]).
Proof. reflexivity. Qed.

(* copy *)
Lemma copy_source_tie : (Gen_C08.fn_np_copy, Gen_C08.fn_torch_copy, Gen_C08.fn_tf_copy) =
  (
  [ "return type(self)(fps=self.fps, data=self.data.copy(), confidence=self.confidence.copy())" ],
  [ "data_copy = MaskedTensor(tensor=self.data.tensor.detach().clone().to(self.data.tensor.device), mask=self.data.mask.detach().clone().to(self.data.mask.device))";
    "confidence_copy = self.confidence.detach().clone().to(self.confidence.device)";
    "return self.__class__(fps=self.fps, data=data_copy, confidence=confidence_copy)" ],
  [ "detached_data = tf.convert_to_tensor(self.data.tensor.numpy())";
    "detached_mask = tf.convert_to_tensor(self.data.mask.numpy())";
    "data_copy = MaskedTensor(detached_data, detached_mask)";
    "confidence_copy = tf.convert_to_tensor(self.confidence.numpy())";
    "return self.__class__(fps=self.fps, data=data_copy, confidence=confidence_copy)" ]).
Proof. reflexivity. Qed.

(* zero_filled (body level; the container level is in zf_facts) *)
Lemma zero_filled_source_tie : (Gen_C08.fn_np_zero_filled, Gen_C08.fn_torch_zero_filled, Gen_C08.fn_tf_zero_filled) =
  (
  [ "copy = self.copy()";
    "copy.data = ma.array(copy.data.filled(0), mask=copy.data.mask)";
    "return copy" ],
  [ "copy = self.copy()";
    "copy.data = copy.data.zero_filled()";
    "return copy" ],
  [ "copy = self.copy()";
    "copy.data = self.data.zero_filled()";
    "return copy" ]).
Proof. reflexivity. Qed.

(* matmul *)
Lemma matmul_source_tie : (Gen_C08.fn_np_matmul, Gen_C08.fn_torch_matmul, Gen_C08.fn_tf_matmul, Gen_C08.fn_mt_torch_matmul, Gen_C08.fn_mt_tf_matmul) =
  (
  [ "data = ma.dot(self.data, matrix)";
    "return NumPyPoseBody(self.fps, data, self.confidence)" ],
  [ "data = self.data.matmul(torch.from_numpy(matrix))";
    "return self.__class__(fps=self.fps, data=data, confidence=self.confidence)" ],
  [ "matrix = tf.convert_to_tensor(matrix, dtype=self.data.dtype)";
    "data = self.data.matmul(matrix)";
    "return self.__class__(fps=self.fps, data=data, confidence=self.confidence)" ],
  [ "tensor = torch.matmul(self.tensor, matrix.to(self.device))";
    "return MaskedTensor(tensor, self.mask)" ],
  [ "tensor = tf.matmul(self.tensor, matrix)";
    "return MaskedTensor(tensor=tensor, mask=self.mask)" ]).
Proof. reflexivity. Qed.

(* flatten (TensorFlow inherits the base class's NotImplementedError) *)
Lemma flatten_source_tie : (Gen_C08.fn_np_flatten, Gen_C08.fn_torch_flatten, Gen_C08.fn_base_flatten) =
  (
  [ "shape = self.data.shape";
    "data = self.data.data.reshape(-1, shape[-1])";
    "confidence = self.confidence.flatten()";
    "indexes = list(np.ndindex(shape[:-1]))";
    "flat = np.c_[indexes, confidence, data]";
    "flat = flat[confidence != 0]";
    "scalar = np.ones(len(shape) + shape[-1])";
    "scalar[0] = 1 / self.fps";
    "return flat * scalar" ],
  [ "shape = self.data.shape";
    "data = self.data.tensor.reshape(-1, shape[-1])";
    "confidence = self.confidence.flatten()";
    "indexes = torch.tensor(list(np.ndindex(shape[:-1])), dtype=torch.float32, device=data.device)";
    "flat = torch.cat([indexes, torch.unsqueeze(confidence, dim=1), data], dim=1)";
    "flat = flat[confidence != 0.0]";
    "scalar = torch.ones(len(shape) + shape[-1], device=data.device)";
    "scalar[0] = 1 / self.fps";
    "return flat * scalar" ],
  [ "raise NotImplementedError(""'flatten' not implemented on '%s'"" % self.__class__)" ]).
Proof. reflexivity. Qed.
