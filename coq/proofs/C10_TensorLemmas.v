(* C10 - generic lemmas about tabulated tensors, zipping, broadcasting and slicing. *)
From Coq Require Import List Arith ZArith Bool Lia.
Require Import Result Tensor C10_Tensor.
Import ListNotations.

(* ---- lists *)
Lemma map_seq_ext {X} (f g : nat -> X) n a : (forall k, a <= k < a + n -> f k = g k) -> map f (seq a n) = map g (seq a n).
Proof. intros H. apply map_ext_in. intros k Hk. apply in_seq in Hk. apply H. lia. Qed.
Lemma combine_map_same {X Y Z} (f : Z -> X) (g : Z -> Y) l : combine (map f l) (map g l) = map (fun i => (f i, g i)) l.
Proof. induction l as [|x l IH]; cbn; [reflexivity|]. now rewrite IH. Qed.
Lemma list_as_map_nth {X} (d : X) (l : list X) : l = map (fun k => nth k l d) (seq 0 (length l)).
Proof. induction l as [|x l IH]; cbn [length seq map nth]; [reflexivity|]. f_equal. rewrite <- seq_shift, map_map. exact IH. Qed.
Lemma map_fst_combine {X Y} (a : list X) (b : list Y) : length a = length b -> map fst (combine a b) = a.
Proof. revert b; induction a as [|x a IH]; intros [|y b] H; cbn in *; try discriminate; [reflexivity|]. f_equal. apply IH. lia. Qed.
Lemma map_snd_combine {X Y} (a : list X) (b : list Y) : length a = length b -> map snd (combine a b) = b.
Proof. revert b; induction a as [|x a IH]; intros [|y b] H; cbn in *; try discriminate; [reflexivity|]. f_equal. apply IH. lia. Qed.
Lemma combine_app {X Y} (a1 a2 : list X) (b1 b2 : list Y) : length a1 = length b1 ->
  combine (a1 ++ a2) (b1 ++ b2) = combine a1 b1 ++ combine a2 b2.
Proof. revert b1; induction a1 as [|x a IH]; intros [|y b] H; cbn in *; try discriminate; [reflexivity|]. f_equal. apply IH. lia. Qed.
Lemma combine_map_l {X X' Y} (u : X -> X') (a : list X) (b : list Y) :
  combine (map u a) b = map (fun p => (u (fst p), snd p)) (combine a b).
Proof. revert b; induction a as [|x a IH]; intros [|y b]; cbn; try reflexivity. now rewrite IH. Qed.
Lemma combine_const_r {X} (l : list X) n : n = length l -> combine l (map (fun _ : nat => true) (seq 0 n)) = map (fun x => (x, true)) l.
Proof. intros ->. generalize 0. induction l as [|x l IH]; intros a; cbn; [reflexivity|]. now rewrite IH. Qed.
Lemma forallb_snd_combine {X} (a : list X) (b : list bool) : length a = length b ->
  forallb snd (combine a b) = forallb (fun x => x) b.
Proof. revert b; induction a as [|x a IH]; intros [|y b] H; cbn in *; try discriminate; [reflexivity|]. f_equal. apply IH. lia. Qed.

(* ---- broadcasting a shape with itself *)
Lemma bshape_rev_same a : bshape_rev a a = Ok a.
Proof. induction a as [|x a IH]; cbn; [reflexivity|]. rewrite IH; cbn. now rewrite Nat.eqb_refl. Qed.
Lemma broadcast_shapes_same s : broadcast_shapes s s = Ok s.
Proof. unfold broadcast_shapes. rewrite bshape_rev_same; cbn. now rewrite rev_involutive. Qed.

(* ---- tabulate *)
Lemma tabulate_wf {X} ns (c : nat -> X) : wf (tabulate ns c).
Proof. unfold wf, tabulate; cbn. now rewrite map_length, seq_length. Qed.
Lemma tabulate_ext {X} ns (c1 c2 : nat -> X) : (forall k, k < prod ns -> c1 k = c2 k) -> tabulate ns c1 = tabulate ns c2.
Proof. intros H. unfold tabulate. f_equal. apply map_seq_ext. intros k Hk. apply H. lia. Qed.
Lemma tzip_tabulate {X Y} ns (c1 : nat -> X) (c2 : nat -> Y) :
  tzip (tabulate ns c1) (tabulate ns c2) = tabulate ns (fun k => (c1 k, c2 k)).
Proof. unfold tzip, tabulate; cbn. f_equal. apply combine_map_same. Qed.
Lemma tmap_tabulate {X Y} (g : X -> Y) ns c : tmap g (tabulate ns c) = tabulate ns (fun k => g (c k)).
Proof. unfold tmap, tabulate; cbn. f_equal. apply map_map. Qed.
Lemma reindex_tabulate {X} (d : X) ns f t :
  reindex d ns f t = tabulate ns (fun k => nth (ravel (shape t) (f (unravel ns k))) (data t) d).
Proof. reflexivity. Qed.
Lemma tensor_as_tabulate {X} (d : X) (t : tensor X) : wf t -> t = tabulate (shape t) (fun k => nth k (data t) d).
Proof. intros H. destruct t as [s l]. unfold wf, tabulate in *; cbn in *. f_equal. rewrite <- H. apply list_as_map_nth. Qed.
Lemma tmap_wf' {X Y} (g : X -> Y) t : wf t -> wf (tmap g t).
Proof. apply tmap_wf. Qed.

(* ---- zipping *)
Lemma nth_tzip {X Y} (da : X) (db : Y) (a : tensor X) (b : tensor Y) k : length (data a) = length (data b) ->
  nth k (data (tzip a b)) (da, db) = (nth k (data a) da, nth k (data b) db).
Proof. intros H. unfold tzip; cbn. now apply combine_nth. Qed.
Lemma tzip_wf {X Y} (a : tensor X) (b : tensor Y) : wf a -> length (data a) = length (data b) -> wf (tzip a b).
Proof. unfold wf, tzip; cbn. intros Ha Hl. rewrite combine_length, <- Hl, Nat.min_id. exact Ha. Qed.
Lemma apply_plan_zip {X Y} (da : X) (db : Y) p (a : tensor X) (b : tensor Y) ns f :
  shape a = shape b -> length (data a) = length (data b) -> p (shape a) = Ok (ns, f) ->
  apply_plan (da, db) p (tzip a b) = Ok (tzip (reindex da ns f a) (reindex db ns f b)).
Proof. intros Hs Hl Hp. unfold apply_plan. cbn [shape tzip]. rewrite Hp. f_equal. now apply reindex_zip. Qed.
Lemma bget_tzip {X Y} (da : X) (db : Y) ns (a : tensor X) (b : tensor Y) k :
  shape a = shape b -> length (data a) = length (data b) ->
  bget (da, db) ns (tzip a b) k = (bget da ns a k, bget db ns b k).
Proof. intros Hs Hl. unfold bget. cbn [shape tzip]. rewrite <- Hs. now apply nth_tzip. Qed.
Lemma bzip_ok {X Y Z} (dx : X) (dy : Y) (g : X -> Y -> Z) a b t :
  bzip dx dy g a b = Ok t ->
  exists ns, broadcast_shapes (shape a) (shape b) = Ok ns /\ t = tabulate ns (fun k => g (bget dx ns a k) (bget dy ns b k)).
Proof. unfold bzip. destruct (broadcast_shapes (shape a) (shape b)) as [ns|e]; cbn; [|discriminate].
  intros H. injection H as <-. now exists ns. Qed.
Lemma bzip_of_shapes {X Y Z} (dx : X) (dy : Y) (g : X -> Y -> Z) a b ns :
  broadcast_shapes (shape a) (shape b) = Ok ns -> bzip dx dy g a b = Ok (tabulate ns (fun k => g (bget dx ns a k) (bget dy ns b k))).
Proof. unfold bzip. now intros ->. Qed.

(* ---- several tensors *)
Lemma flatcat_tzip {X Y} (ms : list (tensor X * tensor Y)) :
  Forall (fun m => length (data (fst m)) = length (data (snd m))) ms ->
  flatcat (map (fun m => tzip (fst m) (snd m)) ms) = tzip (flatcat (map fst ms)) (flatcat (map snd ms))
  /\ length (data (flatcat (map fst ms))) = length (data (flatcat (map snd ms))).
Proof. intros H. unfold flatcat, tzip; cbn [shape data].
  assert (E : concat (map data (map (fun m : tensor X * tensor Y => mkT (shape (fst m)) (combine (data (fst m)) (data (snd m)))) ms))
              = combine (concat (map data (map fst ms))) (concat (map data (map snd ms)))
            /\ length (concat (map data (map fst ms))) = length (concat (map data (map snd ms)))).
  { induction H as [|m ms Hm Hms IH]; cbn; [split; reflexivity|]. destruct IH as [IH1 IH2]. split.
    - rewrite IH1. symmetry. now apply combine_app.
    - rewrite !app_length. lia. }
  destruct E as [E1 E2]. split; [|exact E2]. rewrite E1. f_equal. f_equal. rewrite combine_length, <- E2. apply Nat.min_id. Qed.

(* ---- slices *)
Lemma slices_tzip {X Y} (da : X) (db : Y) d (a : tensor X) (b : tensor Y) :
  shape a = shape b -> length (data a) = length (data b) ->
  slices (da, db) d (tzip a b)
  = tabulate (remove_at d (shape a))
      (fun k => combine (nth k (data (slices da d a)) []) (nth k (data (slices db d b)) [])).
Proof. intros Hs Hl. unfold slices. cbn [shape tzip]. rewrite <- Hs. apply tabulate_ext. intros k Hk.
  unfold tabulate; cbn [data].
  rewrite (nth_indep _ [] (map (fun i => nth (ravel (shape a) (insert_at d i (unravel (remove_at d (shape a)) 0))) (data a) da) (seq 0 (nth d (shape a) 0))))
    by (now rewrite map_length, seq_length).
  rewrite (map_nth (fun k0 => map (fun i => nth (ravel (shape a) (insert_at d i (unravel (remove_at d (shape a)) k0))) (data a) da) (seq 0 (nth d (shape a) 0)))).
  rewrite (nth_indep _ [] (map (fun i => nth (ravel (shape a) (insert_at d i (unravel (remove_at d (shape a)) 0))) (data b) db) (seq 0 (nth d (shape a) 0))))
    by (now rewrite map_length, seq_length).
  rewrite (map_nth (fun k0 => map (fun i => nth (ravel (shape a) (insert_at d i (unravel (remove_at d (shape a)) k0))) (data b) db) (seq 0 (nth d (shape a) 0)))).
  rewrite seq_nth by exact Hk. cbn [plus]. rewrite combine_map_same. apply map_ext. intros i. now apply combine_nth. Qed.
