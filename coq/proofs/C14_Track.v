(* C14 - theorems about one track (one point of one person) over exact reals. *)
From Coq Require Import Reals List Arith Bool Lia Lra Sorted.
Require Import Num C14_Interp C14_Index C14_Grid C14_Lerp C14_Eval C14_Obs.
Import ListNotations.
Local Open Scope R_scope.

Ltac nR := change (T R_ops) with R in *.

Definition observedR (row : list R) : bool := observed R_ops row.
Definition confR (row : list R) : R := conf_of R_ops row.
Definition t_old (F i : nat) : R := nth i (gridR F) 0.       (* normalised time of input frame i *)
Definition t_new (n j : nat) : R := nth j (gridR n) 0.       (* normalised time of output frame j *)
Definition track_out (sp : spline_t) (k : kind) (w F n : nat) (rows : list (list R)) : list (list R) :=
  interp_track R_ops sp k w (gridR F) (gridR n) rows.
Definition wf_rows (w F : nat) (rows : list (list R)) : Prop := length rows = F /\ Forall (fun r => length r = w) rows.

Lemma observedR_iff row : observedR row = true <-> confR row <> 0.
Proof. unfold observedR, observed, confR. rewrite negb_true_iff. apply Reqb_false. Qed.
Lemma zrow_conf w : confR (zrow w) = 0.
Proof. unfold confR, conf_of, zrow. induction w as [|w IH]; [reflexivity|].
  destruct w; [reflexivity|]. exact IH. Qed.
Lemma zrow_col w c : col c (zrow w) = 0.
Proof. unfold col, zrow. apply nth_repeat_any. Qed.

Section Compress.
Variables (w F : nat) (rows : list (list R)).
Hypothesis Hwf : wf_rows w F rows.
Local Notation obs := (compress R_ops (gridR F) rows).

Lemma combine_len : length (combine (gridR F) rows) = F.
Proof. destruct Hwf as [Hl _]. rewrite combine_length, grid_length, Hl. lia. Qed.
Lemma obs_sorted : StronglySorted Rlt (xs_of obs).
Proof. unfold xs_of, compress. apply StronglySorted_filter_fst.
  rewrite map_fst_combine by (rewrite grid_length; destruct Hwf; lia). apply grid_sorted. Qed.
Lemma obs_widths : widths w obs.
Proof. unfold widths, compress. apply Forall_forall. intros [x y] Hin.
  apply filter_In in Hin. destruct Hin as [Hin _]. apply in_combine_r in Hin.
  destruct Hwf as [_ Hw]. rewrite Forall_forall in Hw. apply Hw. exact Hin. Qed.
(* every observed frame is an observation ... *)
Lemma obs_of_frame i : (i < F)%nat -> observedR (nth i rows []) = true ->
  exists m, (m < length obs)%nat /\ nth m obs dflt = (t_old F i, nth i rows []).
Proof. intros Hi Ho.
  assert (Hin : In (t_old F i, nth i rows []) obs).
  { unfold compress. apply filter_In. split; [|exact Ho].
    unfold t_old. rewrite <- combine_nth by (rewrite grid_length; destruct Hwf; lia).
    apply nth_In. change (T R_ops) with R. rewrite combine_len. exact Hi. }
  destruct (In_nth _ _ dflt Hin) as [m [Hm E]]. exists m. split; assumption. Qed.
(* ... and every observation is an observed frame *)
Lemma frame_of_obs m : (m < length obs)%nat ->
  exists i, (i < F)%nat /\ observedR (nth i rows []) = true /\ nth m obs dflt = (t_old F i, nth i rows []).
Proof. intros Hm. pose proof (nth_In obs dflt Hm) as Hin. unfold compress in Hin at 2. change (T R_ops) with R in *.
  apply filter_In in Hin. destruct Hin as [Hin Ho].
  destruct (In_nth _ _ (0, []) Hin) as [i [Hi E]]. rewrite combine_len in Hi.
  rewrite combine_nth in E by (rewrite grid_length; destruct Hwf; lia).
  exists i. split; [exact Hi|]. split.
  - rewrite <- E in Ho. exact Ho.
  - rewrite <- E. reflexivity. Qed.
Lemma obs_span m : (m < length obs)%nat -> first_x obs <= fst (nth m obs dflt) <= last_x obs.
Proof. intros Hm. unfold first_x, last_x. rewrite (xs_last obs). split; apply (xs_le obs obs_sorted); nR; lia. Qed.
Lemma frame_in_span i : (i < F)%nat -> observedR (nth i rows []) = true -> first_x obs <= t_old F i <= last_x obs.
Proof. intros Hi Ho. destruct (obs_of_frame i Hi Ho) as [m [Hm E]].
  pose proof (obs_span m Hm) as H. rewrite E in H. exact H. Qed.
Lemma first_is_frame : (1 <= length obs)%nat -> exists i, (i < F)%nat /\ observedR (nth i rows []) = true /\ first_x obs = t_old F i.
Proof. intros H. destruct (frame_of_obs 0 ltac:(nR; lia)) as [i [Hi [Ho E]]]. exists i. unfold first_x. nR. rewrite E. auto. Qed.
Lemma last_is_frame : (1 <= length obs)%nat -> exists i, (i < F)%nat /\ observedR (nth i rows []) = true /\ last_x obs = t_old F i.
Proof. intros H. destruct (frame_of_obs (length obs - 1) ltac:(nR; lia)) as [i [Hi [Ho E]]]. exists i.
  unfold last_x. rewrite (xs_last obs). nR. rewrite E. auto. Qed.
Lemma no_obs_no_frame : length obs = 0%nat -> forall i, (i < F)%nat -> observedR (nth i rows []) = false.
Proof. intros H0 i Hi. destruct (observedR (nth i rows [])) eqn:E; [|reflexivity].
  destruct (obs_of_frame i Hi E) as [m [Hm _]]. nR. lia. Qed.
End Compress.

Section Track.
Variable sp : spline_t.
Hypothesis Hshape : spline_shape sp.
Hypothesis Hnodes : spline_nodes sp.
Hypothesis Hpoly : spline_poly sp.
Variables (k : kind) (w F n : nat) (rows : list (list R)).
Hypothesis Hwf : wf_rows w F rows.
Local Notation obs := (compress R_ops (gridR F) rows).
Local Notation out := (track_out sp k w F n rows).
Local Notation Hs := (obs_sorted w F rows Hwf).

Lemma new01 : forall j, (j < length (gridR n))%nat -> 0 <= nth j (gridR n) 0 <= 1.
Proof. intros j Hj. rewrite grid_length in Hj. apply grid_range. exact Hj. Qed.

(* the result has one row per new sample *)
Lemma track_length : length out = n.
Proof. unfold track_out, interp_track.
  etransitivity; [apply (interp_obs_length sp (gridR n) w k (grid_sorted n) obs Hs)|apply grid_length]. Qed.

Definition value_at (t : R) : list R :=
  match obs with
  | [(_, y0)] => y0
  | _ => eval_f R_ops sp k obs t
  end.
(* master statement: row j is the interpolant at time t_new j inside the observed span, zeros outside *)
Lemma out_nth j : (j < n)%nat -> (1 <= length obs)%nat ->
  nth j out [] = if in_span obs (t_new n j) then value_at (t_new n j) else zrow w.
Proof. intros Hj Hl.
  rewrite (nth_indep out [] (zrow w)) by (rewrite track_length; exact Hj).
  assert (Hjn : (j < length (gridR n))%nat) by (rewrite grid_length; exact Hj).
  unfold track_out, interp_track, value_at, t_new.
  destruct obs as [|[s y0] [|b rest]] eqn:E; [cbn in Hl; lia| |]; rewrite <- E in *.
  - apply (interp_obs_nth_one sp (gridR n) w k (grid_sorted n) obs Hs s y0 E j Hjn).
  - apply (interp_obs_nth_many sp (gridR n) w k (grid_sorted n) new01 obs Hs); [rewrite E; cbn; lia|exact Hjn]. Qed.

Lemma out_nth_none j : (j < n)%nat -> length obs = 0%nat -> nth j out [] = zrow w.
Proof. intros Hj H0. rewrite (nth_indep out [] (zrow w)) by (rewrite track_length; exact Hj).
  unfold track_out, interp_track. destruct obs; [|cbn in H0; lia].
  cbn. apply nth_repeat_any. Qed.

(* SUPPORT: before the first and after the last observation - and for a point that was never observed -
   the result row is all zeros: confidence 0, hence missing *)
Theorem track_support j : (j < n)%nat ->
  (forall i, (i < F)%nat -> observedR (nth i rows []) = true -> t_new n j < t_old F i) \/
  (forall i, (i < F)%nat -> observedR (nth i rows []) = true -> t_old F i < t_new n j) ->
  nth j out [] = zrow w.
Proof. intros Hj Hside.
  destruct (Nat.eq_dec (length obs) 0) as [H0|Hpos]; [apply out_nth_none; assumption|].
  rewrite out_nth by (try assumption; lia).
  replace (in_span obs (t_new n j)) with false; [reflexivity|]. symmetry.
  destruct (in_span obs (t_new n j)) eqn:E; [|reflexivity]. exfalso. apply in_span_iff in E.
  destruct Hside as [Hb|Ha].
  - destruct (first_is_frame w F rows Hwf ltac:(lia)) as [i [Hi [Ho Ef]]]. specialize (Hb i Hi Ho). lra.
  - destruct (last_is_frame w F rows Hwf ltac:(lia)) as [i [Hi [Ho El]]]. specialize (Ha i Hi Ho). lra. Qed.

(* NODES: a new sample that falls on an observed frame returns that frame's row (every kind) *)
Theorem track_node j i : (j < n)%nat -> (i < F)%nat -> observedR (nth i rows []) = true ->
  t_new n j = t_old F i -> nth j out [] = nth i rows [].
Proof. intros Hj Hi Ho Et.
  destruct (obs_of_frame w F rows Hwf i Hi Ho) as [m [Hm Em]].
  rewrite out_nth by (try assumption; nR; lia).
  replace (in_span obs (t_new n j)) with true
    by (symmetry; apply in_span_iff; rewrite Et; apply (frame_in_span w F rows Hwf i Hi Ho)).
  unfold value_at. rewrite Et.
  destruct obs as [|[s y0] [|b rest]] eqn:E; [cbn in Hm; lia| |]; rewrite <- E in *.
  - assert (m = 0%nat) by (rewrite E in Hm; cbn in Hm; lia). subst m. rewrite E in Em. cbn in Em. congruence.
  - replace (t_old F i) with (fst (nth m obs dflt)) by (rewrite Em; reflexivity).
    rewrite (eval_node sp Hnodes obs w k Hs (obs_widths w F rows Hwf)) by (try (rewrite E; cbn; lia); exact Hm).
    nR. rewrite Em. reflexivity. Qed.

(* AFFINE: a column that is affine in time on the observed frames is reproduced exactly, by every kind,
   wherever the new sample lies between two observations *)
Theorem track_affine c a b j i1 i2 : (c < w)%nat -> (j < n)%nat ->
  (forall i, (i < F)%nat -> observedR (nth i rows []) = true -> col c (nth i rows []) = a * t_old F i + b) ->
  (i1 < F)%nat -> observedR (nth i1 rows []) = true -> t_old F i1 <= t_new n j ->
  (i2 < F)%nat -> observedR (nth i2 rows []) = true -> t_new n j <= t_old F i2 ->
  col c (nth j out []) = a * t_new n j + b.
Proof. intros Hc Hj Haff Hi1 Ho1 H1 Hi2 Ho2 H2.
  destruct (obs_of_frame w F rows Hwf i1 Hi1 Ho1) as [m1 [Hm1 _]].
  pose proof (frame_in_span w F rows Hwf i1 Hi1 Ho1) as S1.
  pose proof (frame_in_span w F rows Hwf i2 Hi2 Ho2) as S2.
  assert (Hspan : first_x obs <= t_new n j <= last_x obs) by lra.
  rewrite out_nth by (try assumption; nR; lia).
  replace (in_span obs (t_new n j)) with true by (symmetry; apply in_span_iff; exact Hspan).
  assert (Hnode : forall m, (m < length obs)%nat -> col c (snd (nth m obs dflt)) = a * fst (nth m obs dflt) + b).
  { intros m Hm. destruct (frame_of_obs w F rows Hwf m Hm) as [i [Hi [Ho E]]]. rewrite E. cbn [fst snd]. apply Haff; assumption. }
  unfold value_at.
  destruct obs as [|[s y0] [|b0 rest]] eqn:E; [cbn in Hm1; lia| |]; rewrite <- E in *.
  - assert (Es : t_new n j = s) by (apply (in_span_one obs s y0 E); apply in_span_iff; exact Hspan).
    specialize (Hnode 0%nat ltac:(rewrite E; cbn; lia)). rewrite E in Hnode. cbn in Hnode. rewrite Es. exact Hnode.
  - apply (eval_affine sp Hpoly obs w k Hs (obs_widths w F rows Hwf)); try assumption. rewrite E; cbn; lia. Qed.

(* LINEAR: with kind = "linear" every column (coordinates and confidence) stays within the range of the two
   neighbouring observations *)
Theorem track_linear_in_range c j i1' i2' : k = Linear -> (c < w)%nat -> (j < n)%nat ->
  (i1' < F)%nat -> observedR (nth i1' rows []) = true -> t_old F i1' <= t_new n j ->
  (i2' < F)%nat -> observedR (nth i2' rows []) = true -> t_new n j <= t_old F i2' ->
  exists i1 i2, (i1 < F)%nat /\ (i2 < F)%nat /\
    observedR (nth i1 rows []) = true /\ observedR (nth i2 rows []) = true /\
    (forall i, (i1 < i < i2)%nat -> observedR (nth i rows []) = false) /\
    t_old F i1 <= t_new n j <= t_old F i2 /\
    Rmin (col c (nth i1 rows [])) (col c (nth i2 rows [])) <= col c (nth j out [])
      <= Rmax (col c (nth i1 rows [])) (col c (nth i2 rows [])).
Proof. intros Hk Hc Hj Hi1 Ho1 H1 Hi2 Ho2 H2.
  destruct (obs_of_frame w F rows Hwf i1' Hi1 Ho1) as [m1 [Hm1 _]].
  pose proof (frame_in_span w F rows Hwf i1' Hi1 Ho1) as S1.
  pose proof (frame_in_span w F rows Hwf i2' Hi2 Ho2) as S2.
  assert (Hspan : first_x obs <= t_new n j <= last_x obs) by lra.
  rewrite out_nth by (try assumption; nR; lia).
  replace (in_span obs (t_new n j)) with true by (symmetry; apply in_span_iff; exact Hspan).
  unfold value_at.
  destruct obs as [|[s y0] [|b0 rest]] eqn:E; [cbn in Hm1; lia| |]; rewrite <- E in *.
  - assert (Es : t_new n j = s) by (apply (in_span_one obs s y0 E); apply in_span_iff; exact Hspan).
    destruct (frame_of_obs w F rows Hwf 0%nat ltac:(rewrite E; cbn; lia)) as [i [Hi [Ho Ei]]].
    rewrite E in Ei. cbn in Ei. injection Ei as Ex Ey.
    exists i, i. repeat split; try assumption; try lia; try lra.
    + rewrite Ey. unfold Rmin. destruct (Rle_dec _ _); lra.
    + rewrite Ey. unfold Rmax. destruct (Rle_dec _ _); lra.
  - assert (Hl2 : (2 <= length obs)%nat) by (rewrite E; cbn; lia).
    pose proof (obs_widths w F rows Hwf) as Hw.
    rewrite (eval_f_unfold sp obs k), Hk, this_kind_linear.
    destruct (lerp_between obs w Hs Hw Hl2 c (t_new n j) Hc (proj1 Hspan) (proj2 Hspan)) as [m [Hm [Hr Hb]]].
    destruct (frame_of_obs w F rows Hwf m ltac:(nR; lia)) as [ia [Hia [Hoa Ea]]].
    destruct (frame_of_obs w F rows Hwf (S m) Hm) as [ib [Hib [Hob Eb]]].
    nR. rewrite Ea, Eb in Hr, Hb. cbn [fst snd] in Hr, Hb.
    exists ia, ib. repeat split; try assumption; try lra.
    intros i Hbetween. destruct (observedR (nth i rows [])) eqn:Eo; [|reflexivity]. exfalso.
    destruct (obs_of_frame w F rows Hwf i ltac:(lia) Eo) as [m' [Hm' Em']].
    assert (Ha : t_old F ia < t_old F i) by (apply grid_incr; lia).
    assert (Hb' : t_old F i < t_old F ib) by (apply grid_incr; lia).
    assert (Hlt1 : (m < m')%nat).
    { destruct (le_lt_dec m' m) as [Hle|]; [|assumption]. exfalso.
      pose proof (xs_le obs Hs m' m Hle ltac:(nR; lia)) as Hx. nR. rewrite Ea, Em' in Hx. cbn in Hx. lra. }
    assert (Hlt2 : (m' < S m)%nat).
    { destruct (le_lt_dec (S m) m') as [Hle|]; [|assumption]. exfalso.
      pose proof (xs_le obs Hs (S m) m' Hle Hm') as Hx. nR. rewrite Eb, Em' in Hx. cbn in Hx. lra. }
    lia. Qed.
End Track.
