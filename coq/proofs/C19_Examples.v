(* C19 - concrete inputs showing that the hypotheses of the theorems are satisfiable by non-trivial values, and the
   boundary of the frame-id rule.  Everything here is decided by computation. *)
From Coq Require Import List Arith NArith ZArith Bool Lia.
Require Import Result F32 C19_Layout C19_FrameId C19_OpenPose C19_Spec C19_LoadProofs C19_FrameIdProofs C19_Theorems.
Import ListNotations.
Local Open Scope nat_scope.

(* a person listing 3 numbers per point of the layout: x = 100.0 + ..., y = 0.5, confidence 0.0 for odd points, 0.5 for even *)
Definition ex_numbers (n : nat) (seed : N) : list N :=
  concat (map (fun i => [(4636737291354636288 + seed * 1099511627776 + N.of_nat i * 17592186044416)%N; 4602678819172646912%N;
                         if Nat.odd i then 0%N else 4602678819172646912%N]) (seq 0 n)).
Definition ex_person (seed : N) : person :=
  ([112; 101; 114; 115; 111; 110; 95; 105; 100]%N, [13826050856027422720%N]) ::                     (* "person_id": [-1] *)
  map (fun c => (c_name c, ex_numbers (length (c_points c)) seed)) comps137.
Definition ex_person_135 (seed : N) : person :=
  map (fun c => (c_name c, if Nat.eqb (length (c_points c)) 25 then ex_numbers 135 seed else [])) comps137.
Definition ex_frames : frames := [(2, [ex_person 1; ex_person 2]); (0, [ex_person 3])].
Definition ex_fps : num := NFloat 4629129022734147256.          (* 29.97 *)

Lemma ex_person_conforms s : person_conforms comps137 (ex_person s).
Proof. unfold person_conforms, comps137. repeat constructor; eexists; (split; [reflexivity|]); vm_compute; reflexivity. Qed.
Definition oeqb (a b : option N) : bool :=
  match a, b with Some x, Some y => N.eqb x y | None, None => true | _, _ => false end.
Definition obeqb (a b : option bool) : bool :=
  match a, b with Some x, Some y => Bool.eqb x y | None, None => true | _, _ => false end.
Definition num_eqb (a b : num) : bool :=
  match a, b with NInt x, NInt y => Z.eqb x y | NFloat x, NFloat y => N.eqb x y | _, _ => false end.
(* the values the example run must show: point 26 = face point 1 of person 1 in frame 2 (confidence 0 -> missing),
   point 27 (confidence 0.5 -> present), recorded fps and shape *)
Definition ex_checks (ps : pose) : bool :=
  oeqb (data_at ps 2 1 26 0) (Some 1120440320%N) && oeqb (conf_at ps 2 1 26) (Some 0%N) && obeqb (mask_at ps 2 1 26 0) (Some true) &&
  oeqb (conf_at ps 2 1 27) (Some 1056964608%N) && obeqb (mask_at ps 2 1 27 1) (Some false) &&
  num_eqb (p_fps ps) ex_fps && (let '(f, p, k) := p_shape ps in Nat.eqb f 3 && Nat.eqb p 2 && Nat.eqb k 137).
Lemma ex_run : match load_openpose comps137 ex_frames ex_fps 1920 1080 0 (Some 3) with Ok ps => ex_checks ps | Err _ => false end = true.
Proof. vm_compute. reflexivity. Qed.
Lemma ex_137_hypotheses :
  exists ps per c, load_openpose comps137 ex_frames ex_fps 1920 1080 0 (Some 3) = Ok ps /\
    dict_ok ex_frames /\ count_ok ex_frames (Some 3) /\ frames_conform comps137 ex_frames /\
    json_person ex_frames 2 1 = Some per /\ locate comps137 26 = Some (c, 1) /\ c_name c = nth 1 (map c_name comps137) [] /\
    json_person ex_frames 1 0 = None /\ json_person ex_frames 0 1 = None /\ json_person ex_frames 3 0 = None /\
    ex_checks ps = true.
Proof.
  pose proof ex_run as R. destruct (load_openpose comps137 ex_frames ex_fps 1920 1080 0 (Some 3)) as [ps|]; [|discriminate R].
  exists ps. eexists. eexists. split; [reflexivity|].
  split; [unfold dict_ok, ex_frames; cbn [map fst]; repeat constructor; cbn [In]; lia|].
  split; [vm_compute; lia|].
  split; [unfold frames_conform, ex_frames; repeat (apply ex_person_conforms || apply Forall_nil || apply Forall_cons)|].
  split; [vm_compute; reflexivity|]. split; [vm_compute; reflexivity|].
  split; [vm_compute; reflexivity|]. split; [reflexivity|]. split; [reflexivity|]. split; [reflexivity|]. exact R.
Qed.

Definition ex_entries_135 : list (list N * frame) :=      (* a_03_keypoints.json, 0_keypoints.json *)
  [([97; 95; 48; 51; 95; 107; 101; 121; 112; 111; 105; 110; 116; 115; 46; 106; 115; 111; 110]%N, [ex_person_135 1]);
   ([48; 95; 107; 101; 121; 112; 111; 105; 110; 116; 115; 46; 106; 115; 111; 110]%N, [])].
Definition ex_checks_135 (ps : pose) : bool :=
  oeqb (conf_at ps 3 0 134) (Some 1056964608%N) && oeqb (conf_at ps 3 0 135) None && oeqb (conf_at ps 0 0 7) (Some 0%N) &&
  (let '(f, p, k) := p_shape ps in Nat.eqb f 4 && Nat.eqb p 1 && Nat.eqb k 135).
Lemma ex_run_135 : match load_openpose_135_directory ex_entries_135 ex_fps 640 480 0 None with Ok ps => ex_checks_135 ps | Err _ => false end = true.
Proof. vm_compute. reflexivity. Qed.
Lemma ex_135_hypotheses :
  exists fs ps, dir_frames ex_entries_135 [] = Ok fs /\ load_openpose_135_directory ex_entries_135 ex_fps 640 480 0 None = Ok ps /\
    count_ok fs None /\ Forall (fun x => Forall person_conforms_135 (snd x)) fs /\ map fst fs = [3; 0] /\ ex_checks_135 ps = true.
Proof.
  pose proof ex_run_135 as R. destruct (load_openpose_135_directory ex_entries_135 ex_fps 640 480 0 None) as [ps|]; [|discriminate R].
  eexists. exists ps. split; [vm_compute; reflexivity|]. split; [reflexivity|].
  split; [exact I|]. split.
  - repeat (apply Forall_nil || apply Forall_cons). unfold person_conforms_135. eexists. split; [vm_compute; reflexivity|]. split; [vm_compute; reflexivity|].
    repeat (apply Forall_nil || apply Forall_cons); reflexivity.
  - split; [reflexivity|exact R].
Qed.

(* ---- frame ids ---- *)
Definition name_CAM2_17 : list N :=    (* "CAM2_000000000017_keypoints.json" (openpose.py:289) *)
  [67;65;77;50;95;48;48;48;48;48;48;48;48;48;48;49;55;95;107;101;121;112;111;105;110;116;115;46;106;115;111;110]%N.
Lemma ex_frame_ids :
  get_frame_id name_CAM2_17 = Ok 17%N /\
  (* several digit groups and an embedded "_keypoints.json": "a_1_keypoints.json_02_keypoints.json" -> 2 *)
  (let pre := [97;95;49;95;107;101;121;112;111;105;110;116;115;46;106;115;111;110]%N in
   let ds := [48; 50]%N in
   is_digit 95 = false /\ 95%N <> 110%N /\ all_digits ds /\ ds <> [] /\ frame_id_of ds = Ok 2%N /\
   get_frame_id (pre ++ 95%N :: ds ++ SUFFIX) = Ok 2%N) /\
  get_frame_id [107;101;121;112;111;105;110;116;115;46;106;115;111;110]%N = Err Index.        (* "keypoints.json": no match *)
Proof.
  split; [vm_compute; reflexivity|]. split; [|vm_compute; reflexivity].
  cbv zeta. split; [reflexivity|]. split; [discriminate|]. split; [repeat constructor|]. split; [discriminate|].
  split; vm_compute; reflexivity.
Qed.
(* boundary of the rule (outside the documented name format `[ARBITRARY CHARACTERS]_[FRAME_ID]_keypoints.json`): when the
   digit group directly follows the "json" of an earlier match, re.findall has already consumed the 'n' that `\D` needs:
   "1_keypoints.json2_keypoints.json" -> 1.  This is why frame_id_after_separator excludes the separator 'n'. *)
Lemma frame_id_boundary :
  get_frame_id ([49;95;107;101;121;112;111;105;110;116;115;46;106;115;111;110]%N ++ 50%N :: SUFFIX) = Ok 1%N.
Proof. vm_compute. reflexivity. Qed.

(* ---- the tables themselves are well formed headers ---- *)
Definition comp_ok (c : comp) : bool :=
  forallb (fun l => (fst l <? length (c_points c)) && (snd l <? length (c_points c))) (c_limbs c) &&
  Nat.eqb (length (nodup (list_eq_dec N.eq_dec) (c_points c))) (length (c_points c)).
Lemma tables_wellformed :
  forallb comp_ok comps137 = true /\ forallb comp_ok comps135 = true /\ total_points comps137 = 137 /\ total_points comps135 = 135 /\
  formats_xyc comps137 /\ formats_xyc comps135.
Proof. repeat split; try (vm_compute; reflexivity); unfold formats_xyc; repeat constructor. Qed.
