(* C08 - every shared operation maps the representation of a content to the representation (or the
   observation) of the reference result, on every backend. *)
From Coq Require Import ZArith NArith List Bool Lia.
Require Import Result F32 Codec C08_Body C08_Read C08_Spec C08_Lemmas C08_Ctor.
Import ListNotations.
Local Open Scope nat_scope.

Section Cfg.
Variables (mm : mmkind) (eo : bool).

Lemma Masked_eq {V M} s1 s2 (v v' : V) (m m' : M) : v = v' -> m = m' -> Masked s1 v s2 m = Masked s1 v' s2 m'.
Proof. now intros -> ->. Qed.
(* ---------------- frames (axis 0) ---------------- *)
Lemma gat_map3 {X Y} (f : X -> Y) ix (l : t3 X) : gat ix (map3 f l) = map3 f (gat ix l).
Proof. unfold map3. apply gat_map. Qed.
Lemma take_rep b fps ix k : kD k <> 0 ->
  take_frames (cfg_repaired mm eo) b fps ix (rep b k) = Ok (rep b (ref_frames fps ix k)).
Proof. intros HD. etransitivity; [|apply (masked_rep mm eo b (ref_frames fps ix k)); exact HD].
  unfold take_frames, rep, rows, kshape, kcshape. cbn [g_data g_cs g_conf dmapx set0 ref_frames k_fps kF kP kT kD k_pts].
  f_equal; [apply Masked_eq|]; apply gat_map3. Qed.
Lemma tf_safe_gat ix (pts : t3 point) : tf_safe_pts pts -> tf_safe_pts (gat ix pts).
Proof. unfold tf_safe_pts. intros H. now rewrite <- !gat_map3, H. Qed.
Lemma ok_for_gat b ix pts : ok_for b pts -> ok_for b (gat ix pts).
Proof. destruct b; cbn [ok_for]; trivial. apply tf_safe_gat. Qed.

Lemma select_frames_rep b idx k : kD k <> 0 -> idx <> [] -> in_range (kF k) idx ->
  select_frames (cfg_repaired mm eo) b idx (rep b k) = Ok (rep b (ref_frames (k_fps k) (map Z.to_nat idx) k)).
Proof. intros HD Hne Hin. unfold select_frames, extent. cbn [rep g_data dshape kshape nth].
  rewrite ix_list_in by assumption. cbn [rbind]. now apply take_rep. Qed.
Lemma getitem_slice_gen b s k : kD k <> 0 ->
  getitem_slice (cfg_repaired mm eo) b s (rep b k) = rmap (fun ix => rep b (ref_frames (k_fps k) ix k)) (ix_slice b (kF k) s).
Proof. intros HD. unfold getitem_slice, extent. cbn [rep g_data dshape kshape nth g_fps].
  destruct (ix_slice b (kF k) s) as [ix|e]; cbn [rbind rmap]; [|reflexivity]. now apply take_rep. Qed.
Lemma slice_step_gen b by_ k : kD k <> 0 ->
  slice_step (cfg_repaired mm eo) b by_ (rep b k) =
  rmap (fun ix => rep b (ref_frames (fps_div (k_fps k) by_) ix k)) (ix_slice b (kF k) (every by_)).
Proof. intros HD. unfold slice_step, extent, every. cbn [rep g_data dshape kshape nth g_fps].
  destruct (ix_slice b (kF k) _) as [ix|e]; cbn [rbind rmap]; [|reflexivity]. now apply take_rep. Qed.
(* the frames kept by [::by] *)
Lemma slice_idx_every n by_ : (0 < by_)%Z ->
  slice_idx n (every by_) = Ok (filter (fun i => (Z.of_nat i mod by_ =? 0)%Z) (seq 0 n)).
Proof. intros H. unfold slice_idx, every. cbn [s_step s_start s_stop].
  destruct (Z.eqb_spec by_ 0); [lia|]. destruct (Z.ltb_spec 0 by_); [|lia]. f_equal.
  apply filter_ext_in. intros i Hi. apply in_seq in Hi. rewrite Z.sub_0_r.
  replace (0 <=? Z.of_nat i)%Z with true by (symmetry; apply Z.leb_le; lia).
  replace (Z.of_nat i <? Z.of_nat n)%Z with true by (symmetry; apply Z.ltb_lt; lia). reflexivity. Qed.
Lemma slice_zero_step b n s : s_step s = Some 0%Z -> ix_slice b n s = Err Value.
Proof. intros H. unfold ix_slice, slice_idx. rewrite H. destruct b; reflexivity. Qed.

(* ---------------- one frame ---------------- *)
Lemma getitem_int_rep b i k : kD k <> 0 ->
  getitem_int (cfg_repaired mm eo) b i (rep b k) = rmap (fun j => frep b (ref_frame j k)) (norm_wrap (kF k) i).
Proof. intros HD. unfold getitem_int, extent. cbn [rep g_data dshape kshape nth g_fps g_cs g_conf kcshape].
  destruct (norm_wrap (kF k) i) as [j|e]; cbn [rbind rmap]; [|reflexivity].
  etransitivity; [|apply (masked_frep mm eo b (ref_frame j k)); exact HD].
  unfold frep, rows. cbn [dmapx tl g_data ref_frame q_fps qP qT qD q_pts].
  f_equal; [apply Masked_eq|]; apply nth_map_nil. Qed.
Lemma norm_wrap_out n i : (i < - Z.of_nat n \/ Z.of_nat n <= i)%Z -> norm_wrap n i = Err Index.
Proof. intros H. unfold norm_wrap.
  destruct (Z.leb_spec 0 i), (Z.ltb_spec i (Z.of_nat n)), (Z.leb_spec (- Z.of_nat n) i), (Z.ltb_spec i 0); cbn [andb]; try reflexivity; lia. Qed.
Lemma tf_safe_nth j (pts : t3 point) : tf_safe_pts pts -> tf_safe_pts2 (nth j pts []).
Proof. unfold tf_safe_pts, tf_safe_pts2, map3, map2n. intros H.
  rewrite <- (nth_map_nil (map (fun x : point => is_zero32_daz (fst x)))), <- (nth_map_nil (map (fun x : point => is_zero32 (fst x)))).
  now rewrite H. Qed.

(* ---------------- points (axis 2) ---------------- *)
Lemma gat2_map3 {X Y} (f : X -> Y) ix (l : t3 X) : map (map (gat ix)) (map3 f l) = map3 f (map (map (gat ix)) l).
Proof. unfold map3. rewrite !map_map. apply map_ext; intros l2. rewrite !map_map. apply map_ext; intros l1. apply gat_map. Qed.
Lemma get_points_rep b idx k : kD k <> 0 -> idx <> [] -> in_range (kT k) idx ->
  get_points (cfg_repaired mm eo) b idx (rep b k) = Ok (rep b (ref_points (map Z.to_nat idx) k)).
Proof. intros HD Hne Hin. unfold get_points, extent. cbn [rep g_data dshape kshape nth g_fps g_cs g_conf kcshape].
  rewrite ix_list_in by assumption. cbn [rbind].
  etransitivity; [|apply (masked_rep mm eo b (ref_points (map Z.to_nat idx) k)); exact HD].
  unfold rep, rows, kshape, kcshape. cbn [g_data dmapx set2 ref_points k_fps kF kP kT kD k_pts].
  f_equal; [apply Masked_eq|]; apply gat2_map3. Qed.
Lemma tf_safe_gat2 ix (pts : t3 point) : tf_safe_pts pts -> tf_safe_pts (map (map (gat ix)) pts).
Proof. unfold tf_safe_pts. intros H. now rewrite <- !gat2_map3, H. Qed.
Lemma ok_for_gat2 b ix pts : ok_for b pts -> ok_for b (map (map (gat ix)) pts).
Proof. destruct b; cbn [ok_for]; trivial. apply tf_safe_gat2. Qed.

(* ---------------- copy ---------------- *)
Lemma copy_rep b k : kD k <> 0 -> copy (cfg_repaired mm eo) b (rep b k) = Ok (rep b k).
Proof. intros HD. pose proof (masked_rep mm eo b k HD) as H. destruct b; exact H. Qed.

(* ---------------- zero_filled ---------------- *)
Lemma zipw_repeat_map {A B B' C} (f : A -> B -> C) (h : B' -> B) (l : list A) (y : B') n :
  zipw f l (repeat (h y) n) = zipw (fun a b => f a (h b)) l (repeat y n).
Proof. revert n; induction l as [|x l IH]; intros [|n]; cbn [zipw repeat]; try reflexivity. now rewrite IH. Qed.
Lemma rows_same_fst {X} (g : N -> X) d (h : point -> point) (pts : t3 point) :
  (forall x, fst (h x) = fst x) -> rows g d (map3 h pts) = rows g d pts.
Proof. intros H. unfold rows. rewrite map3_map3. apply map3_ext. intros x. now rewrite H. Qed.
Lemma zero_filled_np k : kD k <> 0 -> zero_filled (cfg_repaired mm eo) Np (rep Np k) = Ok (rep Np (ref_zero k)).
Proof. intros HD. unfold zero_filled. rewrite copy_rep by exact HD. cbn [rbind rep g_data g_fps g_cs g_conf]. f_equal.
  unfold rep, kshape, kcshape, ref_zero. cbn [k_fps kF kP kT kD k_pts]. f_equal.
  - f_equal.
    + unfold rows. rewrite zip4_map3, map3_map3. reflexivity.
    + symmetry. apply rows_same_fst. reflexivity.
  - rewrite map3_map3. reflexivity. Qed.
Lemma zero_filled_mt b k : b <> Np -> kD k <> 0 -> ok_for b (k_pts k) ->
  zero_filled (cfg_repaired mm eo) b (rep b k) =
  Ok {| g_fps := k_fps k; g_data := Plain (kshape k) (map3 snd (k_pts (ref_zero k))); g_cs := kcshape k; g_conf := map3 fst (k_pts k) |}.
Proof. intros Hb HD Hok. unfold zero_filled. rewrite copy_rep by exact HD. cbn [rbind].
  assert (E : zip4 (zf_cell ZfWhere) (map3 snd (k_pts k)) (rows (fun w => negb (is_zero32 w)) (kD k) (k_pts k))
              = map3 snd (k_pts (ref_zero k))).
  { unfold rows, ref_zero. cbn [k_pts]. rewrite zip4_map3, map3_map3. apply map3_ext. intros x. cbn [snd fst].
    rewrite (zipw_repeat_map (zf_cell ZfWhere) negb). apply zipw_ext. intros w m. now destruct m. }
  destruct b; [contradiction| |]; cbn [rep g_data g_fps g_cs g_conf cfg_repaired torch_zf tf_zf];
    rewrite shape_eqb_refl; cbn [negb]; unfold stored.
  - now rewrite E.
  - cbn [ok_for] in Hok. rewrite tf_rows by exact Hok. now rewrite E. Qed.

End Cfg.

(* ---------------- matmul ---------------- *)
Section Kernel.
Variable dot : list N -> list N -> N.
Variable eo : bool.
Lemma vecmat_length m v : length (vecmat dot m v) = m_cols m.
Proof. unfold vecmat, mcols. now rewrite !map_length, seq_length. Qed.
Lemma map3_ext_in {X Y} (P : X -> Prop) (f g : X -> Y) (l : t3 X) :
  Forall (Forall (Forall P)) l -> (forall x, P x -> f x = g x) -> map3 f l = map3 g l.
Proof. intros H Hfg. unfold map3. apply map_ext_in. intros l2 H2. apply map_ext_in. intros l1 H1. apply map_ext_in. intros x Hx.
  apply Hfg. rewrite Forall_forall in H. specialize (H _ H2). rewrite Forall_forall in H. specialize (H _ H1).
  rewrite Forall_forall in H. now apply H. Qed.
(* what is visible of the product: the reference row for a valid point, +0.0 for a missing one *)
Definition vis_row (m : matrix) (x : point) : list N :=
  if is_zero32 (fst x) then repeat zero32 (m_cols m) else vecmat dot m (snd x).
Lemma visible_core m (k : core) (h : point -> list N) :
  (forall x, length (h x) = m_cols m) ->
  o_val (visible (obs_core {| k_fps := k_fps k; kF := kF k; kP := kP k; kT := kT k; kD := m_cols m;
                              k_pts := map3 (fun x : point => (fst x, h x)) (k_pts k) |}))
  = map3 (fun x : point => if is_zero32 (fst x) then repeat zero32 (m_cols m) else h x) (k_pts k).
Proof. intros Hlen. unfold visible, obs_core, rows. cbn [o_valid o_val k_pts kD].
  rewrite !map3_map3, zip4_map3. apply map3_ext. intros x. cbn [fst snd].
  rewrite zipw_repeat_r by (rewrite Hlen; lia). destruct (is_zero32 (fst x)); cbn [negb].
  - rewrite <- (Hlen x). clear. induction (h x) as [|w l IH]; cbn [map length repeat]; [reflexivity|]. now rewrite IH.
  - apply map_id. Qed.
Lemma visible_eq (o1 o2 : obs) : o_fps o1 = o_fps o2 -> o_shape o1 = o_shape o2 -> o_valid o1 = o_valid o2 ->
  o_cshape o1 = o_cshape o2 -> o_conf o1 = o_conf o2 -> o_val (visible o1) = o_val (visible o2) -> visible o1 = visible o2.
Proof. intros H1 H2 H3 H4 H5 H6. unfold visible in *. cbn [o_val] in H6. rewrite H1, H2, H4, H5, H6. now rewrite H3. Qed.

Definition np_matmul_core (m : matrix) (k : core) : core :=
  {| k_fps := k_fps k; kF := kF k; kP := kP k; kT := kT k; kD := m_cols m;
     k_pts := map3 (fun x : point => (fst x, vecmat dot m (zipw (fun w (miss : bool) => if miss then zero32 else w)
                                                              (snd x) (repeat (is_zero32 (fst x)) (kD k))))) (k_pts k) |}.
Lemma set_last4 e a b c d : set_last e [a; b; c; d] = [a; b; c; e].
Proof. reflexivity. Qed.
Lemma matmul_np mm m k : kD k <> 0 -> m_rows m = kD k -> m_cols m <> 0 ->
  matmul dot (cfg_repaired mm eo) Np m (rep Np k) = Ok (rep Np (np_matmul_core m k)).
Proof. intros HD Hr Hc. unfold matmul. cbn [rep g_data dshape kshape last_dim last g_fps g_cs g_conf].
  rewrite Hr, Nat.eqb_refl. cbn [negb].
  etransitivity; [|apply (masked_rep mm eo Np (np_matmul_core m k)); exact Hc].
  cbn [ctor]. unfold rep, kshape, kcshape, np_matmul_core. cbn [g_data k_fps kF kP kT kD k_pts stored]. rewrite !set_last4.
  f_equal.
  - f_equal.
    + unfold rows. rewrite zip4_map3, !map3_map3. reflexivity.
    + unfold rows. rewrite !map3_map3. apply map3_ext. intros x. cbn [fst]. now rewrite forallb_repeat.
  - rewrite map3_map3. reflexivity. Qed.
Lemma matmul_np_visible mm m k : kD k <> 0 -> m_rows m = kD k -> m_cols m <> 0 -> rows_ok k ->
  rmap (fun y => visible (observe Np y)) (matmul dot (cfg_repaired mm eo) Np m (rep Np k)) = Ok (visible (obs_core (ref_matmul dot m k))).
Proof. intros HD Hr Hc Hok. rewrite matmul_np by assumption. cbn [rmap]. f_equal. rewrite obs_rep by exact I.
  apply visible_eq; try reflexivity.
  - unfold obs_core, rows, np_matmul_core, ref_matmul. cbn [o_valid k_pts kD kshape kF kP kT]. now rewrite !map3_map3.
  - unfold obs_core, np_matmul_core, ref_matmul. cbn [o_conf k_pts]. now rewrite !map3_map3.
  - unfold np_matmul_core, ref_matmul.
    rewrite (visible_core m k (fun x : point => vecmat dot m (zipw (fun w (miss : bool) => if miss then zero32 else w)
                                                                 (snd x) (repeat (is_zero32 (fst x)) (kD k)))))
      by (intros; apply vecmat_length).
    rewrite (visible_core m k (fun x : point => if is_zero32 (fst x) then repeat zero32 (m_cols m) else vecmat dot m (snd x)))
      by (intros x; destruct (is_zero32 (fst x)); [apply repeat_length|apply vecmat_length]).
    apply (map3_ext_in (fun x : point => length (snd x) = kD k)); [exact Hok|]. intros x Hx.
    destruct (is_zero32 (fst x)); [reflexivity|]. rewrite zipw_repeat_r by lia. now rewrite map_id. Qed.
Definition mt_matmul_core (m : matrix) (k : core) : core :=
  {| k_fps := k_fps k; kF := kF k; kP := kP k; kT := kT k; kD := m_cols m;
     k_pts := map3 (fun x : point => (fst x, vecmat dot m (snd x))) (k_pts k) |}.
Lemma matmul_mt_keep b m k : b <> Np -> kD k <> 0 -> m_rows m = kD k -> m_cols m = kD k ->
  matmul dot (cfg_repaired MmKeep eo) b m (rep b k) = Ok (rep b (mt_matmul_core m k)).
Proof. intros Hb HD Hr Hc. unfold matmul. cbn [rep g_data dshape kshape last_dim last g_fps g_cs g_conf].
  rewrite Hr, Nat.eqb_refl. cbn [negb].
  assert (HD' : kD (mt_matmul_core m k) <> 0) by (cbn [mt_matmul_core kD]; lia).
  destruct b; [contradiction| |]; cbn [cfg_repaired torch_mm tf_mm];
    (etransitivity; [|apply (masked_rep MmKeep eo _ (mt_matmul_core m k)); exact HD']);
    unfold rep, kshape, kcshape, mt_matmul_core; cbn [g_data k_fps kF kP kT kD k_pts]; rewrite !set_last4, Hc;
    (f_equal; [apply Masked_eq|]); try (rewrite !map3_map3; reflexivity); try (unfold rows; rewrite !map3_map3; reflexivity). Qed.
(* with the mask rebuilt from the rows (proposed fix F16a) any width is fine *)
Lemma matmul_mt_expand b m k : b <> Np -> kD k <> 0 -> m_rows m = kD k -> m_cols m <> 0 ->
  matmul dot (cfg_repaired MmAllExpand eo) b m (rep b k) = Ok (rep b (mt_matmul_core m k)).
Proof. intros Hb HD Hr Hc. unfold matmul. cbn [rep g_data dshape kshape last_dim last g_fps g_cs g_conf].
  rewrite Hr, Nat.eqb_refl. cbn [negb].
  assert (HD' : kD (mt_matmul_core m k) <> 0) by (cbn [mt_matmul_core kD]; exact Hc).
  destruct b; [contradiction| |]; cbn [cfg_repaired torch_mm tf_mm];
    (etransitivity; [|apply (masked_rep MmAllExpand eo _ (mt_matmul_core m k)); exact HD']);
    unfold rep, kshape, kcshape, mt_matmul_core; cbn [g_data k_fps kF kP kT kD k_pts]; rewrite !set_last4;
    (f_equal; [apply Masked_eq|]); try (rewrite !map3_map3; reflexivity);
    unfold rows; rewrite !map3_map3; apply map3_ext; intros x; cbn [fst]; now rewrite forallb_repeat. Qed.
Lemma mt_visible b m k : ok_for b (k_pts k) ->
  visible (observe b (rep b (mt_matmul_core m k))) = visible (obs_core (ref_matmul dot m k)).
Proof. intros Hok. rewrite obs_rep.
  2:{ destruct b; cbn [ok_for] in *; trivial. unfold tf_safe_pts, mt_matmul_core in *. cbn [k_pts]. now rewrite !map3_map3. }
  apply visible_eq; try reflexivity.
  - unfold obs_core, rows, mt_matmul_core, ref_matmul. cbn [o_valid k_pts kD kshape kF kP kT]. now rewrite !map3_map3.
  - unfold obs_core, mt_matmul_core, ref_matmul. cbn [o_conf k_pts]. now rewrite !map3_map3.
  - unfold mt_matmul_core, ref_matmul.
    rewrite (visible_core m k (fun x : point => vecmat dot m (snd x))) by (intros; apply vecmat_length).
    rewrite (visible_core m k (fun x : point => if is_zero32 (fst x) then repeat zero32 (m_cols m) else vecmat dot m (snd x)))
      by (intros x; destruct (is_zero32 (fst x)); [apply repeat_length|apply vecmat_length]).
    apply map3_ext. intros x. now destruct (is_zero32 (fst x)). Qed.
Lemma matmul_mt_visible mm b m k : b <> Np -> kD k <> 0 -> m_rows m = kD k -> m_cols m = kD k -> ok_for b (k_pts k) ->
  rmap (fun y => visible (observe b y)) (matmul dot (cfg_repaired mm eo) b m (rep b k)) = Ok (visible (obs_core (ref_matmul dot m k))).
Proof. intros Hb HD Hr Hc Hok. destruct mm.
  - rewrite matmul_mt_keep by assumption. cbn [rmap]. f_equal. now apply mt_visible.
  - rewrite matmul_mt_expand by (try assumption; lia). cbn [rmap]. f_equal. now apply mt_visible. Qed.
Lemma matmul_mt_expand_visible b m k : b <> Np -> kD k <> 0 -> m_rows m = kD k -> m_cols m <> 0 -> ok_for b (k_pts k) ->
  rmap (fun y => visible (observe b y)) (matmul dot (cfg_repaired MmAllExpand eo) b m (rep b k)) = Ok (visible (obs_core (ref_matmul dot m k))).
Proof. intros Hb HD Hr Hc Hok. rewrite matmul_mt_expand by assumption. cbn [rmap]. f_equal. now apply mt_visible. Qed.
Lemma visible_ref_matmul m k :
  o_val (visible (obs_core (ref_matmul dot m k))) = map3 (vis_row m) (k_pts k).
Proof. unfold ref_matmul, vis_row.
  rewrite (visible_core m k (fun x : point => if is_zero32 (fst x) then repeat zero32 (m_cols m) else vecmat dot m (snd x)))
    by (intros x; destruct (is_zero32 (fst x)); [apply repeat_length|apply vecmat_length]).
  apply map3_ext. intros x. now destruct (is_zero32 (fst x)). Qed.
End Kernel.

(* ---------------- flatten ---------------- *)
Lemma flatten_rep b k : b <> Tf ->
  flatten b (rep b k) =
  if fps_zero (k_fps k) then Err ZeroDiv else if Nat.eqb (kF k * (kP k * (kT k * 1))) 0 then Err Value else Ok (ref_flatten k).
Proof. intros Hb. destruct b; [| |contradiction]; reflexivity. Qed.
