(* C16: the TensorFlow dropout (float32 arithmetic) as repaired by proposed-fixes/F10-tf-dropout.diff, for every
   permutation tf.random.shuffle can return - and what the pinned code did instead (F10). *)
From Coq Require Import ZArith List Bool Arith Lia Sorted Permutation SpecFloat QArith_base.
Require Import Result F32 C16_Frames C16_Lists C16_Select C16_Dropout.
Import ListNotations.
Local Open Scope nat_scope.

Lemma tf_dropout_is_given {A} (b : body A) d perm : tf_dropout b d perm = tf_dropout_given b (tf_fraction d) perm.
Proof. destruct d; reflexivity. Qed.
Definition tf_kept (n : nat) (dd : Z) (perm : list nat) : list nat := isort (firstn (Z.to_nat (tf_keep_count n dd)) perm).
Lemma tf_dropout_given_inv {A} (b : body A) p perm r kept :
  tf_dropout_given b p perm = Ok (r, kept) ->
  exists dd, tf_drop_count (frames b) p = Ok dd /\ kept = tf_kept (frames b) dd perm /\
             (kept = [] \/ select_frames TF b (map Z.of_nat kept) = Ok r) /\ (kept = [] -> r = mkB (fps b) [] [] []).
Proof. unfold tf_dropout_given. destruct (tf_drop_count (frames b) p) as [dd|e]; cbn [rbind]; [|discriminate].
  fold (tf_kept (frames b) dd perm). destruct (tf_kept (frames b) dd perm) as [|k0 kr] eqn:Hk.
  - cbn [rbind]. intros [= <- <-]. exists dd. repeat split; auto.
  - destruct (select_frames TF b _) as [r'|e] eqn:Hs; cbn [rbind]; [|discriminate].
    intros [= <- <-]. exists dd. repeat split; auto. discriminate. Qed.

Lemma perm_seq_facts n perm : Permutation perm (seq 0 n) -> NoDup perm /\ length perm = n /\ forall i, In i perm <-> i < n.
Proof. intros Hp. split; [apply (Permutation_NoDup (Permutation_sym Hp)), seq_NoDup|]. split.
  - rewrite (Permutation_length Hp). apply seq_length.
  - intros i. split; intros H.
    + apply (Permutation_in _ Hp) in H. apply in_seq in H. lia.
    + apply (Permutation_in _ (Permutation_sym Hp)). apply in_seq. lia. Qed.
Lemma valid_perm_spec n perm : valid_perm n perm = true <-> Permutation perm (seq 0 n).
Proof. unfold valid_perm. rewrite valid_sample_spec. split.
  - intros [Hl [Hd Hf]]. apply NoDup_Permutation_bis; [exact Hd|rewrite seq_length; lia|].
    intros i Hi. rewrite Forall_forall in Hf. apply in_seq. specialize (Hf i Hi). lia.
  - intros Hp. destruct (perm_seq_facts _ _ Hp) as [Hd [Hl Hi]]. repeat split; try assumption.
    apply Forall_forall. intros i. apply Hi. Qed.

Lemma tf_kept_sorted n dd perm : Permutation perm (seq 0 n) ->
  StronglySorted lt (tf_kept n dd perm) /\ Forall (fun i => i < n) (tf_kept n dd perm).
Proof. intros Hp. destruct (perm_seq_facts _ _ Hp) as [Hd [_ Hi]]. unfold tf_kept. split.
  - apply isort_strict, NoDup_firstn, Hd.
  - apply Forall_forall. intros i H. apply (Permutation_in _ (isort_perm _)) in H. apply In_firstn' in H. now apply Hi. Qed.
Lemma tf_kept_length n dd perm : Permutation perm (seq 0 n) ->
  length (tf_kept n dd perm) = Nat.min (Z.to_nat (tf_keep_count n dd)) n.
Proof. intros Hp. destruct (perm_seq_facts _ _ Hp) as [_ [Hl _]]. unfold tf_kept.
  rewrite (Permutation_length (isort_perm _)), firstn_length, Hl. reflexivity. Qed.

(* kept indexes: strictly increasing, within range *)
Lemma tf_kept_sorted_in_range {A} (b : body A) d perm r kept :
  Permutation perm (seq 0 (frames b)) -> tf_dropout b d perm = Ok (r, kept) ->
  StronglySorted lt kept /\ Forall (fun i => i < frames b) kept.
Proof. intros Hp. rewrite tf_dropout_is_given. intros H. apply tf_dropout_given_inv in H.
  destruct H as [dd [_ [-> _]]]. now apply tf_kept_sorted. Qed.
(* the body consists of exactly those frames *)
Lemma tf_pose_is_those_frames {A} (x : A) (b : body A) d perm r kept :
  tf_dropout b d perm = Ok (r, kept) -> r = body_at x b kept.
Proof. rewrite tf_dropout_is_given. intros H. apply tf_dropout_given_inv in H. destruct H as [dd [_ [_ [[He|Hs] Hn]]]].
  - subst kept. now apply Hn.
  - now apply (select_ok_inv x) in Hs. Qed.
(* number of kept frames: max(1, n - d) of them (never more than n) *)
Lemma tf_kept_count {A} (b : body A) d perm r kept :
  Permutation perm (seq 0 (frames b)) -> tf_dropout b d perm = Ok (r, kept) ->
  exists dd, tf_drop_count (frames b) (tf_fraction d) = Ok dd /\
             Z.of_nat (length kept) = Z.min (Z.max 1 (Z.of_nat (frames b) - dd)) (Z.of_nat (frames b)).
Proof. intros Hp. rewrite tf_dropout_is_given. intros H. apply tf_dropout_given_inv in H.
  destruct H as [dd [Hd [-> _]]]. exists dd. split; [exact Hd|]. rewrite (tf_kept_length _ _ _ Hp). unfold tf_keep_count. lia. Qed.
(* at least one frame of a non-empty body is kept - for every n *)
Lemma tf_keeps_one {A} (b : body A) d perm r kept :
  1 <= frames b -> Permutation perm (seq 0 (frames b)) -> tf_dropout b d perm = Ok (r, kept) -> 1 <= length kept.
Proof. intros Hn Hp H. destruct (tf_kept_count _ _ _ _ _ Hp H) as [dd [_ Hl]]. lia. Qed.
(* fraction 0 (either sign) drops nothing *)
Lemma tf_count_zero n sg dd : tf_drop_count n (S754_zero sg) = Ok dd -> dd = 0%Z.
Proof. unfold tf_drop_count, sf32_mul.
  destruct (sf32_of_Z (Z.of_nat n)) as [s0|s0| |s0 m0 e0]; cbn [SFmul sf_trunc int32_ok]; try discriminate;
    (destruct (int32_ok 0); [congruence|discriminate]). Qed.
Lemma tf_zero_fraction_drops_nothing {A} (b : body A) d sg perm r kept :
  tf_fraction d = S754_zero sg -> Permutation perm (seq 0 (frames b)) ->
  tf_dropout b d perm = Ok (r, kept) -> kept = seq 0 (frames b).
Proof. intros Hz Hp. rewrite tf_dropout_is_given, Hz. intros H. apply tf_dropout_given_inv in H.
  destruct H as [dd [Hd [-> _]]]. apply tf_count_zero in Hd. subst dd.
  destruct (perm_seq_facts _ _ Hp) as [_ [Hl _]]. unfold tf_kept, tf_keep_count.
  rewrite firstn_all2 by lia. now apply isort_of_perm_seq. Qed.
(* "about that fraction": d = int(x) for the float32 product x = float32(n) * p, so d <= x < d + 1;
   dropped = d unless that would leave no frame (then exactly one is kept) *)
Lemma tf_drops_about_the_fraction {A} (b : body A) d perm r kept :
  1 <= frames b -> Permutation perm (seq 0 (frames b)) -> tf_dropout b d perm = Ok (r, kept) ->
  let x := sf32_mul (sf32_of_Z (Z.of_nat (frames b))) (tf_fraction d) in
  sf_nonneg x = true ->
  exists dd, sf_trunc x = Some dd /\ Qle (inject_Z dd) (sf_Q x) /\ Qlt (sf_Q x) (inject_Z (dd + 1)) /\
    ((dd <= Z.of_nat (frames b) - 1)%Z -> Z.of_nat (frames b - length kept) = dd) /\
    ((Z.of_nat (frames b) - 1 < dd)%Z -> length kept = 1).
Proof. intros Hn Hp H x Hx. destruct (tf_kept_count _ _ _ _ _ Hp H) as [dd [Hd Hl]]. exists dd.
  unfold tf_drop_count in Hd. fold x in Hd. destruct (sf_trunc x) as [d'|] eqn:Ht; [|discriminate].
  destruct (int32_ok d'); [|discriminate]. injection Hd as ->.
  destruct (trunc_bounds _ _ Hx Ht) as [H0 [H1 H2]]. repeat split; try assumption; intros; lia. Qed.

(* ---------- the pinned TensorFlow code (F10) ---------- *)
Definition f32 (w : N) : spec_float := round32 (sf_of_b64 w).
Definition b10 : body nat := mkB (sf64_of_Z 30) (seq 100 10) (seq 200 10) (seq 300 10).
Definition b1 : body nat := mkB (sf64_of_Z 30) [100] [200] [300].
(* a one-frame body: nothing is kept *)
Lemma tf_pinned_keeps_nothing_refuted :
  exists (b : body nat) p perm1 r, frames b = 1 /\ valid_perm (frames b - 1) perm1 = true /\
    tf_pinned_dropout_given b p perm1 = Ok (r, []).
Proof. exists b1, (S754_zero false), [], (mkB (sf64_of_Z 30) [] [] []). repeat split; vm_compute; reflexivity. Qed.
(* fraction 0: nine of ten frames are dropped *)
Lemma tf_pinned_zero_fraction_refuted :
  exists (b : body nat) perm1 r kept, valid_perm (frames b - 1) perm1 = true /\
    tf_pinned_dropout_given b (S754_zero false) perm1 = Ok (r, kept) /\ length kept = 1 /\ frames b = 10.
Proof. exists b10, [4;0;8;1;2;3;5;6;7]. eexists. eexists. split; [vm_compute; reflexivity|].
  split; [vm_compute; reflexivity|]. split; reflexivity. Qed.
(* fraction 0.9 of ten frames: nine are KEPT (one dropped) *)
Lemma tf_pinned_keeps_the_fraction_refuted :
  exists (b : body nat) perm1 r kept, valid_perm (frames b - 1) perm1 = true /\
    tf_pinned_dropout_given b (f32 4606281698874543309) perm1 = Ok (r, kept) /\ length kept = 9 /\ frames b = 10.
Proof. exists b10, [4;0;8;1;2;3;5;6;7]. eexists. eexists. split; [vm_compute; reflexivity|].
  split; [vm_compute; reflexivity|]. split; reflexivity. Qed.
(* the last frame is never kept, whatever the fraction and the shuffle *)
Lemma tf_pinned_never_last_frame {A} (b : body A) p perm1 r kept :
  Permutation perm1 (seq 0 (frames b - 1)) -> tf_pinned_dropout_given b p perm1 = Ok (r, kept) -> ~ In (frames b - 1) kept.
Proof. intros Hp. unfold tf_pinned_dropout_given. destruct (tf_pinned_keep_count _ _) as [k|e]; cbn [rbind]; [|discriminate].
  destruct (match isort _ with [] => _ | _ => _ end) as [r'|e]; cbn [rbind]; [|discriminate].
  intros [= <- <-] Hi. apply (Permutation_in _ (isort_perm _)) in Hi. apply In_firstn' in Hi.
  apply (perm_seq_facts _ _ Hp) in Hi. lia. Qed.

(* ---------- non-vacuity ---------- *)
Definition p03f : spec_float := f32 4599075939470750515.         (* float32(0.3) *)
Example tf_dropout_example :
  tf_dropout b10 (Given p03f) [3;1;4;0;5;9;2;6;8;7]
  = Ok (mkB (sf64_of_Z 30) [100;101;102;103;104;105;109] [200;201;202;203;204;205;209] [300;301;302;303;304;305;309],
        [0;1;2;3;4;5;9]).
Proof. vm_compute. reflexivity. Qed.
Example tf_perm_example : Permutation [3;1;4;0;5;9;2;6;8;7] (seq 0 (frames b10)).
Proof. apply valid_perm_spec. vm_compute. reflexivity. Qed.
Example tf_nonneg_example : sf_nonneg (sf32_mul (sf32_of_Z 10) p03f) = true /\ sf_trunc (sf32_mul (sf32_of_Z 10) p03f) = Some 3%Z.
Proof. split; vm_compute; reflexivity. Qed.
(* fraction 1 keeps exactly one frame *)
Example tf_all_example : exists r k, tf_dropout b10 (Uniform (sf32_of_Z 1)) [3;1;4;0;5;9;2;6;8;7] = Ok (r, [k]).
Proof. eexists. eexists. vm_compute. reflexivity. Qed.
