(* C18: the invariant of the locked reader system, for any number of threads and any schedule.
   - lock free: the memo is Good (empty, or a sound entry) and nobody is inside a critical section;
   - lock held by o: o (and only o) is inside a critical section, and the memo is in the partial state that
     o's program counter describes.
   Every thread's locals are consistent with its own job (PcOk); a finished thread holds [result_alone]. *)
From Coq Require Import ZArith NArith List Lia Bool.
Require Import ListN Result Bytes Prog Codec PoseRead C18_Threads C18_Bytes C18_Local.
Import ListNotations.
Open Scope N_scope.

Section Inv.
Variable pf : option N -> N.

Definition BufOk (j : job) (b : bytes) : Prop := exists er, lookup_buffer pf j er = Ok b.
Definition PendOk (j : job) (pd : pending) : Prop :=
  result_alone j = pd_res pd /\
  SoundKey (pd_s pd) (pd_e pd) (py_slice (pd_s pd) (pd_e pd) (pd_buf pd)) (pd_h pd).
Definition PcOk (j : job) (p : pc) : Prop :=
  match p with
  | P_pf => True
  | P_acq1 b | P_h1 b | P_h2 b | P_cs b _ | P_ce b _ _ | P_hd b | P_he b _ | P_rel_miss b => BufOk j b
  | P_rel_hit r | P_rel_set r | P_done r => r = result_alone j
  | P_acq2 pd | P_ws pd | P_we pd | P_wh pd | P_tau pd | P_scs pd | P_sce pd _ | P_swk pd _ _ => PendOk j pd
  end.
Definition in_crit (p : pc) : bool :=
  match p with P_pf | P_acq1 _ | P_acq2 _ | P_done _ => false | _ => true end.
Definition Hit (m : gmemo) (b : bytes) : Prop :=
  exists k, g_hash m = Some k /\ slice_opt (g_start m) (g_end m) b = k.
Definition Written (pd : pending) (m : gmemo) : Prop :=
  g_start m = Some (pd_s pd) /\ g_end m = Some (pd_e pd) /\ g_header m = Some (pd_h pd).
Definition CritOk (p : pc) (m : gmemo) : Prop :=
  match p with
  | P_h1 _ | P_h2 _ | P_rel_miss _ | P_rel_hit _ | P_rel_set _ => Good m
  | P_cs _ hv => Good m /\ hv = g_hash m
  | P_ce _ hv sv => Good m /\ hv = g_hash m /\ sv = g_start m
  | P_hd b => Good m /\ Hit m b
  | P_he b hd => Good m /\ Hit m b /\ g_header m = Some hd
  | P_ws _ => True
  | P_we pd => g_start m = Some (pd_s pd)
  | P_wh pd => g_start m = Some (pd_s pd) /\ g_end m = Some (pd_e pd)
  | P_tau pd | P_scs pd => Written pd m
  | P_sce pd sv => Written pd m /\ sv = Some (pd_s pd)
  | P_swk pd sv ev => Written pd m /\ sv = Some (pd_s pd) /\ ev = Some (pd_e pd)
  | _ => True
  end.

Lemma hit_result j m b hd : Good m -> Hit m b -> BufOk j b -> g_header m = Some hd ->
  match g_end m with Some e => ROk hd e | None => RFail end = result_alone j.
Proof.
  intros [Hn|(s & e & k & h & -> & Hk)] (k' & Hh & Hs) (er & Hb) Hhd.
  - rewrite Hn in Hh. discriminate.
  - cbn [g_hash g_start g_end g_header] in *. injection Hh as <-. injection Hhd as <-.
    symmetry. apply (lookup_parse pf j er b h e Hb). apply Hk. exact Hs.
Qed.

(* ---------- one step of a thread that is outside the critical sections ---------- *)
Lemma tstep_noncrit j me p s s' p' : in_crit p = false -> PcOk j p -> tstep pf true j me p s = (s', p') ->
  PcOk j p' /\ sh_memo s' = sh_memo s /\
  ((s' = s /\ in_crit p' = false) \/
   (sh_lock s = None /\ sh_lock s' = Some me /\ in_crit p' = true /\ (Good (sh_memo s) -> CritOk p' (sh_memo s')))).
Proof.
  intros Hc Hp H. destruct p; try discriminate Hc; cbn [tstep] in H.
  - (* P_pf *)
    destruct (lookup_buffer pf j (g_end (sh_memo s))) as [b|e] eqn:E; injection H as <- <-.
    + split; [exists (g_end (sh_memo s)); exact E|]. split; [reflexivity|]. left. split; reflexivity.
    + split; [cbn [PcOk]; symmetry; exact (lookup_err pf j _ e E)|]. split; [reflexivity|]. left. split; reflexivity.
  - (* P_acq1 *)
    destruct (sh_lock s) eqn:L; injection H as <- <-.
    + split; [exact Hp|]. split; [reflexivity|]. left. split; reflexivity.
    + split; [exact Hp|]. split; [reflexivity|]. right. repeat split; try reflexivity. intros G; exact G.
  - (* P_acq2 *)
    destruct (sh_lock s) eqn:L; injection H as <- <-.
    + split; [exact Hp|]. split; [reflexivity|]. left. split; reflexivity.
    + split; [exact Hp|]. split; [reflexivity|]. right. repeat split; reflexivity.
  - (* P_done *)
    injection H as <- <-. split; [exact Hp|]. split; [reflexivity|]. left. split; reflexivity.
Qed.

(* ---------- one step of the lock holder ---------- *)
Lemma tstep_crit j me p s s' p' : in_crit p = true -> sh_lock s = Some me -> PcOk j p -> CritOk p (sh_memo s) ->
  tstep pf true j me p s = (s', p') ->
  PcOk j p' /\
  ((sh_lock s' = Some me /\ in_crit p' = true /\ CritOk p' (sh_memo s')) \/
   (sh_lock s' = None /\ in_crit p' = false /\ Good (sh_memo s'))).
Proof.
  intros Hc Hl Hp Hk H. destruct p; try discriminate Hc; cbn [tstep miss] in H; cbn [PcOk CritOk] in Hp, Hk.
  - (* P_h1 *)
    destruct (g_hash (sh_memo s)); injection H as <- <-; (split; [exact Hp|]); left; repeat split; assumption.
  - (* P_h2 *)
    injection H as <- <-. split; [exact Hp|]. left. repeat split; assumption.
  - (* P_cs *)
    injection H as <- <-. destruct Hk as [G ->]. split; [exact Hp|]. left. repeat split; assumption.
  - (* P_ce *)
    destruct Hk as (G & -> & ->).
    destruct (hash_eqb (g_hash (sh_memo s)) (slice_opt (g_start (sh_memo s)) (g_end (sh_memo s)) buf)) eqn:E;
      injection H as <- <-; (split; [exact Hp|]); left; repeat split; try assumption.
    unfold hash_eqb in E. destruct (g_hash (sh_memo s)) as [x|] eqn:Hh; [|discriminate].
    apply bytes_eqb_eq in E. exists x. split; [exact Hh|now symmetry].
  - (* P_hd *)
    destruct Hk as (G & Hh).
    destruct (g_header (sh_memo s)) eqn:E; injection H as <- <-; (split; [exact Hp|]); left; repeat split; assumption.
  - (* P_he *)
    destruct Hk as (G & Hh & Hhd). injection H as <- <-.
    split; [cbn [PcOk]; exact (hit_result j _ _ _ G Hh Hp Hhd)|]. left. repeat split; assumption.
  - (* P_rel_hit *)
    injection H as <- <-. split; [exact Hp|]. right. repeat split; assumption.
  - (* P_rel_miss *)
    injection H as <- <-. destruct Hp as (er & Hb). pose proof (own_parse pf j er buf Hb) as O.
    unfold after_miss. destruct (parse_own j buf) as [[[h e] b']|e].
    + split; [exact O|]. right. repeat split; assumption.
    + split; [cbn [PcOk]; now symmetry|]. right. repeat split; assumption.
  - (* P_ws *)
    injection H as <- <-. split; [exact Hp|]. left. repeat split; try assumption.
  - (* P_we *)
    injection H as <- <-. split; [exact Hp|]. left. repeat split; try assumption.
  - (* P_wh *)
    injection H as <- <-. destruct Hk as (H1 & H2). split; [exact Hp|]. left. repeat split; try assumption.
  - (* P_tau *)
    injection H as <- <-. split; [exact Hp|]. left. repeat split; try assumption; apply Hk.
  - (* P_scs *)
    injection H as <- <-. split; [exact Hp|]. left. repeat split; try assumption; apply Hk.
  - (* P_sce *)
    injection H as <- <-. destruct Hk as (W & ->). split; [exact Hp|]. left. repeat split; try assumption; apply W.
  - (* P_swk *)
    injection H as <- <-. destruct Hk as ((W1 & W2 & W3) & -> & ->). destruct Hp as (Hr & Hs).
    split; [cbn [PcOk]; now symmetry|]. left. repeat split; try assumption.
    cbn [CritOk sh_memo with_memo]. right.
    exists (pd_s pd), (pd_e pd), (py_slice (pd_s pd) (pd_e pd) (pd_buf pd)), (pd_h pd).
    split; [|exact Hs]. unfold set_hash. rewrite W1, W2, W3. reflexivity.
  - (* P_rel_set *)
    injection H as <- <-. split; [exact Hp|]. right. repeat split; assumption.
Qed.

(* ---------- the system ---------- *)
Definition Inv (jobs : list job) (st : state) : Prop :=
  length (st_pcs st) = length jobs /\
  (forall t j p, nth_error jobs t = Some j -> nth_error (st_pcs st) t = Some p -> PcOk j p) /\
  match sh_lock (st_sh st) with
  | None => Good (sh_memo (st_sh st)) /\ forall t q, nth_error (st_pcs st) t = Some q -> in_crit q = false
  | Some o => (exists p, nth_error (st_pcs st) o = Some p /\ in_crit p = true /\ CritOk p (sh_memo (st_sh st))) /\
              forall t q, t <> o -> nth_error (st_pcs st) t = Some q -> in_crit q = false
  end.

Lemma upd_length {A} (l : list A) : forall i x, length (upd l i x) = length l.
Proof. induction l as [|y r IH]; intros [|k] x; cbn [upd length]; try reflexivity. now rewrite IH. Qed.
Lemma nth_upd_same {A} (l : list A) : forall i x y, nth_error l i = Some y -> nth_error (upd l i x) i = Some x.
Proof. induction l as [|z r IH]; intros [|k] x y H; cbn [upd nth_error] in *; try discriminate; [reflexivity|now apply IH with y]. Qed.
Lemma nth_upd_other {A} (l : list A) : forall i u x, i <> u -> nth_error (upd l i x) u = nth_error l u.
Proof.
  induction l as [|z r IH]; intros [|k] [|u] x H; cbn [upd nth_error]; try reflexivity; try congruence.
  apply IH. congruence.
Qed.

Lemma step_inv jobs t st : Inv jobs st -> Inv jobs (step pf true jobs t st).
Proof.
  intros (Hlen & Hpc & Hlock). unfold step.
  destruct (nth_error (st_pcs st) t) as [p|] eqn:Ep; [|repeat split; assumption].
  destruct (nth_error jobs t) as [j|] eqn:Ej; [|repeat split; assumption].
  destruct (tstep pf true j t p (st_sh st)) as [s' p'] eqn:Et.
  pose proof (Hpc t j p Ej Ep) as Hp.
  assert (Hpc' : forall q', PcOk j q' ->
            forall u ju q, nth_error jobs u = Some ju -> nth_error (upd (st_pcs st) t q') u = Some q -> PcOk ju q).
  { intros q' Hq' u ju q Hju Hq. destruct (Nat.eq_dec t u) as [<-|Hne].
    - rewrite (nth_upd_same _ _ _ _ Ep) in Hq. injection Hq as <-. rewrite Ej in Hju. injection Hju as <-. exact Hq'.
    - rewrite nth_upd_other in Hq by exact Hne. eapply Hpc; eassumption. }
  unfold Inv. cbn [st_sh st_pcs]. split; [now rewrite upd_length|].
  destruct (sh_lock (st_sh st)) as [o|] eqn:L.
  - destruct Hlock as ((po & Epo & Hco & Hko) & Hothers).
    destruct (Nat.eq_dec t o) as [->|Hne].
    + (* the lock holder steps *)
      rewrite Ep in Epo. injection Epo as <-.
      destruct (tstep_crit j o p _ _ _ Hco L Hp Hko Et) as (Hp' & [(L' & Hc' & Hk')|(L' & Hc' & G')]).
      * split; [apply Hpc'; exact Hp'|]. rewrite L'. split.
        -- exists p'. split; [eapply nth_upd_same; eassumption|]. split; assumption.
        -- intros u q Hu Hq. rewrite nth_upd_other in Hq by congruence. eapply Hothers; eassumption.
      * split; [apply Hpc'; exact Hp'|]. rewrite L'. split; [exact G'|].
        intros u q Hq. destruct (Nat.eq_dec o u) as [<-|Hu].
        -- rewrite (nth_upd_same _ _ _ _ Ep) in Hq. now injection Hq as <-.
        -- rewrite nth_upd_other in Hq by exact Hu. eapply Hothers; [|eassumption]. congruence.
    + (* somebody else steps while the lock is held *)
      pose proof (Hothers t p Hne Ep) as Hnc.
      destruct (tstep_noncrit j t p _ _ _ Hnc Hp Et) as (Hp' & Hm & [(-> & Hc')|(L0 & _)]); [|congruence].
      split; [apply Hpc'; exact Hp'|]. rewrite L. split.
      * exists po. split; [rewrite nth_upd_other by exact Hne; exact Epo|]. split; assumption.
      * intros u q Hu Hq. destruct (Nat.eq_dec t u) as [<-|Htu].
        -- rewrite (nth_upd_same _ _ _ _ Ep) in Hq. now injection Hq as <-.
        -- rewrite nth_upd_other in Hq by exact Htu. eapply Hothers; eassumption.
  - destruct Hlock as (G & Hall).
    pose proof (Hall t p Ep) as Hnc.
    destruct (tstep_noncrit j t p _ _ _ Hnc Hp Et) as (Hp' & Hm & [(-> & Hc')|(_ & L' & Hc' & Hk')]).
    + split; [apply Hpc'; exact Hp'|]. rewrite L. split; [exact G|].
      intros u q Hq. destruct (Nat.eq_dec t u) as [<-|Htu].
      * rewrite (nth_upd_same _ _ _ _ Ep) in Hq. now injection Hq as <-.
      * rewrite nth_upd_other in Hq by exact Htu. eapply Hall; eassumption.
    + split; [apply Hpc'; exact Hp'|]. rewrite L'. split.
      * exists p'. split; [eapply nth_upd_same; eassumption|]. split; [exact Hc'|apply Hk'; exact G].
      * intros u q Hu Hq. rewrite nth_upd_other in Hq by congruence. eapply Hall; eassumption.
Qed.

Lemma run_inv jobs sched : forall st, Inv jobs st -> Inv jobs (run pf true jobs sched st).
Proof.
  unfold run. induction sched as [|t r IH]; intros st H; cbn [fold_left]; [exact H|]. apply IH. now apply step_inv.
Qed.

Lemma init_inv jobs m0 : Good m0 -> Inv jobs (init jobs m0).
Proof.
  intros G. unfold init, Inv. cbn [st_sh st_pcs sh_lock sh_memo]. split; [apply map_length|]. split.
  - intros t j p _ H. rewrite nth_error_map in H. destruct (nth_error jobs t); [|discriminate]. injection H as <-. exact I.
  - split; [exact G|]. intros t q H. rewrite nth_error_map in H. destruct (nth_error jobs t); [|discriminate].
    now injection H as <-.
Qed.

(* a thread that has finished holds the result of its own read made alone - whatever the others did *)
Theorem finished_isolated jobs m0 sched t j r : Good m0 ->
  nth_error jobs t = Some j ->
  result_of (run pf true jobs sched (init jobs m0)) t = Some r ->
  r = result_alone j.
Proof.
  intros G Hj Hr. pose proof (run_inv jobs sched _ (init_inv jobs m0 G)) as (_ & Hpc & _).
  unfold result_of in Hr. destruct (nth_error (st_pcs _) t) as [p|] eqn:Ep; [|discriminate].
  destruct p; try discriminate. injection Hr as <-. exact (Hpc t j _ Hj Ep).
Qed.

(* whenever the lock is free the memo is sound again, so a later batch of reads may start from it *)
Theorem memo_stays_good jobs m0 sched : Good m0 ->
  let st := run pf true jobs sched (init jobs m0) in
  sh_lock (st_sh st) = None -> Good (sh_memo (st_sh st)).
Proof.
  intros G st L. pose proof (run_inv jobs sched _ (init_inv jobs m0 G)) as (_ & _ & H). fold st in H.
  rewrite L in H. exact (proj1 H).
Qed.

Lemma forallb_nth {A} (f : A -> bool) (l : list A) : forallb f l = true -> forall i x, nth_error l i = Some x -> f x = true.
Proof.
  induction l as [|y r IH]; intros H [|i] x Hx; cbn [nth_error forallb] in *; try discriminate.
  - injection Hx as <-. now apply andb_true_iff in H.
  - apply andb_true_iff in H. now apply (IH (proj2 H) i).
Qed.

Theorem isolated_locked jobs m0 sched : Good m0 ->
  let st := run pf true jobs sched (init jobs m0) in
  complete st = true ->
  forall t j, nth_error jobs t = Some j -> result_of st t = Some (result_alone j).
Proof.
  intros G st Hc t j Hj.
  pose proof (run_inv jobs sched _ (init_inv jobs m0 G)) as (Hlen & _ & _). fold st in Hlen.
  assert (Hlt : (t < length (st_pcs st))%nat) by (rewrite Hlen; apply nth_error_Some; congruence).
  destruct (nth_error (st_pcs st) t) as [p|] eqn:Ep; [|apply nth_error_None in Ep; lia].
  pose proof (forallb_nth _ _ Hc t p Ep) as Hd. destruct p; try discriminate Hd.
  assert (Hr : result_of st t = Some r) by (unfold result_of; now rewrite Ep).
  rewrite Hr. f_equal. exact (finished_isolated jobs m0 sched t j r G Hj Hr).
Qed.
End Inv.
