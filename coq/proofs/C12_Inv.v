(* C12 - the invariant and its preservation by every operation of the model. *)
From Coq Require Import List Arith Bool ZArith Lia.
Require Import Result Tensor C12_Model C12_Tab.
Import ListNotations.
Ltac Zify.zify_post_hook ::= Z.div_mod_to_equations.

(* values and confidence agree: shapes (F,P,T,D) / (F,P,T); a cell is masked, in every dimension, iff its confidence is 0 *)
Definition Cons (m c : tensor bool) (F P T D : nat) : Prop :=
  shape m = [F; P; T; D] /\ shape c = [F; P; T] /\ wf m /\ wf c /\
  forall f p t d, f < F -> p < P -> t < T -> d < D -> get4 m f p t d = get3 c f p t.
(* header and body agree.  "Every component has format length D+1" strengthens the statement's
   "header dims = D" (= max format length - 1) so that selection preserves it. *)
Definition Inv (st : state) : Prop :=
  exists F P T D, s_hdr st <> [] /\ Forall (fun c => c_fmt c = S D) (s_hdr st) /\ total_points (s_hdr st) = T
                  /\ Cons (s_mask st) (s_cz st) F P T D.

Lemma cons_dims4 m c F P T D : Cons m c F P T D -> dims4 m c = Ok (F, P, T, D).
Proof. intros [Hm [Hc _]]. unfold dims4. rewrite Hm, Hc, !Nat.eqb_refl. reflexivity. Qed.
Lemma dims4_shapes m c F P T D : dims4 m c = Ok (F, P, T, D) -> shape m = [F; P; T; D] /\ shape c = [F; P; T].
Proof.
  unfold dims4. destruct (shape m) as [|a [|b [|c0 [|d [|? ?]]]]]; try discriminate.
  destruct (shape c) as [|a' [|b' [|c' [|? ?]]]]; try discriminate.
  destruct (a =? a') eqn:E1; [|discriminate]. destruct (b =? b') eqn:E2; [|discriminate]. destruct (c0 =? c') eqn:E3; [|discriminate].
  cbn [andb]. intros H. inversion H; subst. apply Nat.eqb_eq in E1, E2, E3. subst. split; reflexivity.
Qed.
Lemma cons_unique m c F P T D F' P' T' D' : Cons m c F P T D -> dims4 m c = Ok (F', P', T', D') -> F' = F /\ P' = P /\ T' = T /\ D' = D.
Proof. intros HC H. rewrite (cons_dims4 _ _ _ _ _ _ HC) in H. inversion H. auto. Qed.

(* ---- constructors ---- *)
Lemma np_ctor_cons m c m' F P T D :
  shape m = [F; P; T; D] -> shape c = [F; P; T] -> wf c ->
  (forall f p t d, f < F -> p < P -> t < T -> d < D -> get4 m f p t d = true -> get3 c f p t = true) ->
  np_ctor m c = Ok m' -> Cons m' c F P T D.
Proof.
  intros Hm Hc Hw Hsub H. unfold np_ctor, dims4 in H. rewrite Hm, Hc, !Nat.eqb_refl in H. cbn [andb rbind] in H.
  destruct (D =? 0); [discriminate|]. inversion H; subst m'. clear H.
  split; [apply tab4_shape|]. split; [exact Hc|]. split; [apply tab4_wf|]. split; [exact Hw|].
  intros f p t d Hf Hp Ht Hd. rewrite get4_tab4 by assumption.
  destruct (get4 m f p t d) eqn:E; cbn [orb]; [symmetry; eapply Hsub; eassumption|reflexivity].
Qed.
Lemma np_fin_inv m1 c1 m2 c2 : np_fin (m1, c1) = Ok (m2, c2) -> np_ctor m1 c1 = Ok m2 /\ c2 = c1.
Proof. unfold np_fin; cbn [fst snd]. intros H. apply rbind_ok in H. destruct H as [x [Hx H]]. inversion H; subst. auto. Qed.
Lemma np_fin_cons m1 c1 m2 c2 F P T D : Cons m1 c1 F P T D -> np_fin (m1, c1) = Ok (m2, c2) -> Cons m2 c2 F P T D.
Proof.
  intros [Hm [Hc [_ [Hw Hcell]]]] H. apply np_fin_inv in H. destruct H as [H ->].
  eapply np_ctor_cons; try eassumption. intros f p t d Hf Hp Ht Hd E. rewrite <- (Hcell f p t d) by assumption. exact E.
Qed.
Lemma fin_cons be m1 c1 m2 c2 F P T D :
  Cons m1 c1 F P T D -> match be with Np => np_fin (m1, c1) | _ => Ok (m1, c1) end = Ok (m2, c2) -> Cons m2 c2 F P T D.
Proof. intros HC H. destruct be; [eapply np_fin_cons; eassumption| |]; inversion H; subst; exact HC. Qed.
Lemma conf_mask_cons c F P T D : shape c = [F; P; T] -> wf c -> Cons (conf_mask F P T D c) c F P T D.
Proof.
  intros Hc Hw. split; [apply tab4_shape|]. split; [exact Hc|]. split; [apply tab4_wf|]. split; [exact Hw|].
  intros f p t d Hf Hp Ht Hd. unfold conf_mask. now rewrite get4_tab4 by assumption.
Qed.
Lemma cons_empty m c F P T D : shape m = [F; P; T; D] -> shape c = [F; P; T] -> wf m -> wf c -> P * T * D = 0 -> Cons m c F P T D.
Proof. intros Hm Hc Wm Wc H0. repeat (split; [assumption|]). intros f p t d _ Hp Ht Hd. exfalso.
  apply Nat.eq_mul_0 in H0. destruct H0 as [H0|H0]; [apply Nat.eq_mul_0 in H0; destruct H0; lia|lia]. Qed.

(* ---- structural re-indexing ---- *)
Lemma regather_cons m c F P T D F' T' gf gt :
  Cons m c F P T D -> (forall f, f < F' -> gf f < F) -> (forall t, t < T' -> gt t < T) ->
  Cons (fst (regather F' P T' D gf gt m c)) (snd (regather F' P T' D gf gt m c)) F' P T' D.
Proof.
  intros [_ [_ [_ [_ Hcell]]]] Hf Ht. unfold regather; cbn [fst snd].
  split; [apply tab4_shape|]. split; [apply tab3_shape|]. split; [apply tab4_wf|]. split; [apply tab3_wf|].
  intros f p t d H1 H2 H3 H4. rewrite get4_tab4, get3_tab3 by assumption. apply Hcell; auto.
Qed.
Lemma regather_shapes m c F' P T' D gf gt :
  let r := regather F' P T' D gf gt m c in shape (fst r) = [F'; P; T'; D] /\ shape (snd r) = [F'; P; T'] /\ wf (fst r) /\ wf (snd r).
Proof. cbn. repeat split; apply tab_wf. Qed.

Lemma nth_lt_of_forallb (l : list nat) n j : forallb (fun i => i <? n) l = true -> j < length l -> nth j l 0 < n.
Proof. intros H Hj. rewrite forallb_forall in H. apply Nat.ltb_lt. apply H. apply nth_In. exact Hj. Qed.

Lemma get_points_cons be F P T D idxs m c m' c' :
  Cons m c F P T D -> get_points be F P T D idxs m c = Ok (m', c') -> Cons m' c' F P (length idxs) D.
Proof.
  intros HC H. unfold get_points in H. destruct (forallb (fun i => i <? T) idxs) eqn:E; cbn [negb] in H; [|discriminate].
  pose proof (regather_cons m c F P T D F (length idxs) idf (fun j => nth j idxs 0) HC
                (fun f Hf => Hf) (fun t Ht => nth_lt_of_forallb idxs T t E Ht)) as HR.
  destruct (regather F P (length idxs) D idf (fun j => nth j idxs 0) m c) as [m1 c1]. cbn [fst snd] in HR.
  eapply fin_cons; eassumption.
Qed.

Lemma step_count_lt F b j : 0 < b -> j < step_count F b -> j * b < F.
Proof.
  unfold step_count. intros Hb Hj. destruct F as [|F].
  - rewrite Nat.div_small in Hj by lia. lia.
  - assert (Hm : b * ((S F + b - 1) / b) <= S F + b - 1) by (apply Nat.mul_div_le; lia). nia.
Qed.
Lemma slice_step_cons be F P T D by_ m c m' c' :
  Cons m c F P T D -> slice_step be F P T D by_ m c = Ok (m', c') -> Cons m' c' (step_count F (Z.abs_nat by_)) P T D.
Proof.
  intros HC H. unfold slice_step in H. destruct (by_ =? 0)%Z eqn:E0; [discriminate|].
  assert (Hb : 0 < Z.abs_nat by_) by (apply Z.eqb_neq in E0; lia).
  set (b := Z.abs_nat by_) in *. set (F' := step_count F b) in *.
  destruct (0 <? by_)%Z.
  - pose proof (regather_cons m c F P T D F' T (fun j => j * b) idf HC
                  (fun j Hj => step_count_lt F b j Hb Hj) (fun t Ht => Ht)) as HR.
    destruct (regather F' P T D (fun j => j * b) idf m c) as [m1 c1]. cbn [fst snd] in HR.
    eapply fin_cons; eassumption.
  - assert (Hg : forall j, j < F' -> F - 1 - j * b < F) by (intros j Hj; pose proof (step_count_lt F b j Hb Hj); lia).
    pose proof (regather_cons m c F P T D F' T (fun j => F - 1 - j * b) idf HC Hg (fun t Ht => Ht)) as HR.
    destruct (regather F' P T D (fun j => F - 1 - j * b) idf m c) as [m1 c1]. cbn [fst snd] in HR.
    destruct be; [eapply np_fin_cons; eassumption|discriminate|inversion H; subst; exact HR].
Qed.

Lemma gather_frames_cons be F P T D ix m c m' c' :
  Cons m c F P T D -> (forall j, j < length ix -> nth j ix 0 < F) ->
  gather_frames be F P T D ix m c = Ok (m', c') -> Cons m' c' (length ix) P T D.
Proof.
  intros HC Hix H. unfold gather_frames in H.
  pose proof (regather_cons m c F P T D (length ix) T (fun j => nth j ix 0) idf HC Hix (fun t Ht => Ht)) as HR.
  destruct (regather (length ix) P T D (fun j => nth j ix 0) idf m c) as [m1 c1]. cbn [fst snd] in HR.
  eapply fin_cons; eassumption.
Qed.
Lemma norm_index_lt neg F i k : norm_index neg F i = Ok k -> k < F.
Proof.
  unfold norm_index. destruct ((0 <=? i) && (i <? Z.of_nat F))%Z eqn:E1.
  - intros H; inversion H; subst. apply andb_prop in E1. destruct E1 as [A B]. apply Z.leb_le in A. apply Z.ltb_lt in B. lia.
  - destruct (neg && (- Z.of_nat F <=? i) && (i <? 0))%Z eqn:E2; [|discriminate].
    intros H; inversion H; subst. apply andb_prop in E2. destruct E2 as [E2 B]. apply andb_prop in E2. destruct E2 as [_ A].
    apply Z.leb_le in A. apply Z.ltb_lt in B. lia.
Qed.
Lemma rmapM_norm_lt neg F ix ixn : rmapM (norm_index neg F) ix = Ok ixn -> forall j, j < length ixn -> nth j ixn 0 < F.
Proof.
  intros H j Hj. apply rmapM_ok in H.
  pose proof (Forall2_nth' _ _ _ 0%Z 0 j H Hj) as Hn. cbn beta in Hn. eapply norm_index_lt. exact Hn.
Qed.
Lemma select_frames_cons be F P T D ix m c m' c' :
  Cons m c F P T D -> select_frames be F P T D ix m c = Ok (m', c') -> exists F', Cons m' c' F' P T D.
Proof.
  intros HC H. unfold select_frames in H.
  assert (Hgen : forall neg, (do ixn <- rmapM (norm_index neg F) ix; gather_frames be F P T D ixn m c) = Ok (m', c') ->
                             exists F', Cons m' c' F' P T D).
  { intros neg H'. apply rbind_ok in H'. destruct H' as [ixn [Hn H']]. exists (length ixn).
    eapply gather_frames_cons; try eassumption. eapply rmapM_norm_lt; eassumption. }
  assert (Hempty : P * T * D = 0 -> gather_frames be F P T D (map (fun _ : Z => 0) ix) m c = Ok (m', c') -> be <> Np ->
                   exists F', Cons m' c' F' P T D).
  { intros E0 H' Hb. exists (length (map (fun _ : Z => 0) ix)). unfold gather_frames in H'.
    pose proof (regather_shapes m c (length (map (fun _ : Z => 0) ix)) P T D (fun j => nth j (map (fun _ : Z => 0) ix) 0) idf) as HS.
    cbn zeta in HS. destruct (regather _ P T D _ idf m c) as [m1 c1]. cbn [fst snd] in HS.
    destruct be; [congruence| |]; inversion H'; subst; destruct HS as [A [B [C0 D0]]]; apply cons_empty; assumption. }
  destruct be.
  - destruct ix; eapply Hgen; exact H.
  - destruct (P * T * D =? 0) eqn:E0.
    + apply Nat.eqb_eq in E0. destruct F as [|F0]; destruct ix as [|i0 ix']; try discriminate;
        (eapply Hempty; [exact E0|exact H|discriminate]).
    + destruct ix; eapply Hgen; exact H.
  - destruct ix as [|i0 ix']; [discriminate|]. destruct (P * T * D =? 0) eqn:E0.
    + apply Nat.eqb_eq in E0. destruct F; (eapply Hempty; [exact E0|exact H|discriminate]).
    + eapply Hgen; exact H.
Qed.
Lemma dropout_cons be F P T D sel m c m' c' :
  Cons m c F P T D -> dropout be F P T D sel m c = Ok (m', c') -> Cons m' c' (length sel) P T D.
Proof.
  intros HC H. unfold dropout in H.
  destruct (forallb (fun i => i <? F) sel) eqn:E; cbn [negb] in H; [|discriminate].
  eapply gather_frames_cons; try eassumption. intros j Hj. eapply nth_lt_of_forallb; eassumption.
Qed.

(* ---- bbox ---- *)
Lemma comp_ranges_length h idx : length (comp_ranges h idx) = length h.
Proof. revert idx; induction h as [|c r IH]; intros idx; cbn; [reflexivity|now rewrite IH]. Qed.
Lemma total_points_cons c r : total_points (c :: r) = length (c_points c) + total_points r.
Proof. reflexivity. Qed.
Lemma comp_ranges_bound h idx r : In r (comp_ranges h idx) -> fst r + snd r <= idx + total_points h.
Proof.
  revert idx; induction h as [|c h IH]; intros idx Hin; cbn [comp_ranges] in Hin; [contradiction|].
  rewrite total_points_cons. destruct Hin as [<-|Hin]; cbn [fst snd]; [lia|]. apply IH in Hin. lia.
Qed.
Lemma total_points_bbox h : total_points (bbox_hdr h) = bbox_rows * length h.
Proof.
  induction h as [|c r IH]; [reflexivity|]. change (bbox_hdr (c :: r)) with ({| c_name := c_name c; c_points := box_points; c_fmt := c_fmt c |} :: bbox_hdr r).
  rewrite total_points_cons, IH. unfold bbox_rows. change (length (c_points {| c_name := c_name c; c_points := box_points; c_fmt := c_fmt c |})) with 2. cbn [length]. lia.
Qed.
Lemma bbox_np_cons h F P T D m c m' c' :
  Cons m c F P T D -> bbox_np h F P T D m c = Ok (m', c') -> Cons m' c' F P (bbox_rows * length h) D.
Proof.
  intros HC H. pose proof HC as [_ [_ [_ [_ Hcell]]]]. unfold bbox_np in H.
  destruct (comp_ranges h 0) as [|r0 rs'] eqn:Ers; [discriminate|]. rewrite <- Ers in H.
  destruct (T <? total_points h) eqn:ET; [discriminate|]. apply Nat.ltb_ge in ET.
  destruct (D =? 0) eqn:ED; [discriminate|]. apply Nat.eqb_neq in ED.
  rewrite comp_ranges_length in H.
  set (rs := comp_ranges h 0) in *. set (T' := bbox_rows * length h) in *.
  set (red := fun f p j d => let r := nth (j / bbox_rows) rs (0, 0) in forallb (fun t => get4 m f p t d) (seq (fst r) (snd r))) in *.
  assert (Hred : forall f p j d, f < F -> p < P -> j < T' -> d < D ->
                 red f p j d = (let r := nth (j / bbox_rows) rs (0, 0) in forallb (fun t => get3 c f p t) (seq (fst r) (snd r)))).
  { intros f p j d Hf Hp Hj Hd. unfold red. cbn zeta.
    assert (Hk : j / bbox_rows < length rs).
    { unfold rs. rewrite comp_ranges_length. apply Nat.div_lt_upper_bound; [unfold bbox_rows; lia|]. exact Hj. }
    pose proof (comp_ranges_bound h 0 _ (nth_In rs (0, 0) Hk)) as Hb.
    apply forallb_seq_ext. intros t Ht. apply Hcell; try assumption. lia. }
  eapply np_fin_cons; [|exact H].
  split; [apply tab4_shape|]. split; [apply tab3_shape|]. split; [apply tab4_wf|]. split; [apply tab3_wf|].
  intros f p j d Hf Hp Hj Hd. rewrite get3_tab3 by assumption. rewrite !get4_tab4 by (assumption || lia).
  rewrite !Hred by (assumption || lia). reflexivity.
Qed.

(* ---- interpolate ---- *)
Lemma interpolate_np_cons F P T D newF cz' m c m' c' :
  interpolate_np F P T D newF cz' m c = Ok (m', c') -> Cons m' c' (Z.to_nat newF) P T D.
Proof.
  unfold interpolate_np. intros H.
  destruct (F =? 1); [discriminate|]. destruct (newF <? 0)%Z; [discriminate|].
  destruct ((P =? 0) || (T =? 0)); [discriminate|]. destruct (compress_ok F P T D m c); cbn [negb] in H; [|discriminate].
  destruct (length cz' =? Z.to_nat newF * P * T) eqn:EL; cbn [negb] in H; [|discriminate]. apply Nat.eqb_eq in EL.
  apply np_fin_inv in H. destruct H as [H ->].
  apply (np_ctor_cons _ _ _ (Z.to_nat newF) P T D) in H; [exact H|apply tab4_shape|reflexivity| |].
  - unfold wf; cbn [data shape prod fold_right]. rewrite EL. rewrite Nat.mul_1_r, Nat.mul_assoc. reflexivity.
  - intros f p t d Hf Hp Ht Hd E. rewrite get4_tab4 in E by assumption. discriminate.
Qed.

(* ---- flip / copy / augment ---- *)
Lemma augment2d_cons be F P T D ok m c m' c' :
  Cons m c F P T D -> augment2d be F P T D ok m c = Ok (m', c') -> Cons m' c' F P T D.
Proof.
  intros HC H. pose proof HC as [Hm [Hc [Wm [Wc Hcell]]]]. unfold augment2d in H.
  destruct (D <? 2) eqn:ED; [discriminate|]. apply Nat.ltb_ge in ED.
  assert (HR : Cons (tab4 F P T D (fun f p t _ => all_lt D (fun k => get4 m f p t k))) c F P T D).
  { split; [apply tab4_shape|]. split; [exact Hc|]. split; [apply tab4_wf|]. split; [exact Wc|].
    intros f p t d Hf Hp Ht Hd. rewrite get4_tab4 by assumption. apply all_lt_const; [lia|]. intros k Hk. apply Hcell; assumption. }
  destruct be.
  - eapply np_fin_cons; [exact HR|exact H].
  - destruct ok; [injection H as <- <-; exact HR|discriminate].
  - injection H as <- <-; exact HR.
Qed.

(* ---- normalisations (need the property's preconditions) ---- *)
Lemma normalize_cons be F P T D i1 i2 m c m' c' :
  Cons m c F P T D ->
  (exists f0 p0, f0 < F /\ p0 < P /\ get3 c f0 p0 i1 = false /\ get3 c f0 p0 i2 = false) ->
  normalize be F P T D i1 i2 m c = Ok (m', c') -> Cons m' c' F P T D.
Proof.
  intros HC [f0 [p0 [Hf0 [Hp0 [Z1 Z2]]]]] H. pose proof HC as [Hm [Hc [Wm [Wc Hcell]]]]. unfold normalize in H.
  destruct ((i1 <? T) && (i2 <? T)) eqn:EI; cbn [negb] in H; [|discriminate].
  apply andb_prop in EI. destruct EI as [I1 I2]. apply Nat.ltb_lt in I1, I2.
  set (both := fun f p d => get4 m f p i1 d || get4 m f p i2 d) in *.
  assert (Hboth : forall d, d < D -> both f0 p0 d = false).
  { intros d Hd. unfold both. rewrite !Hcell by assumption. rewrite Z1, Z2. reflexivity. }
  set (cm := fun d => all_lt F (fun f => all_lt P (fun p => both f p d))) in *.
  assert (Hcm : forall d, d < D -> cm d = false).
  { intros d Hd. unfold cm. apply (all_lt_false F _ f0 Hf0). apply (all_lt_false P _ p0 Hp0). apply Hboth. exact Hd. }
  assert (Hfin : forall md, (forall d, d < D -> md = false) ->
                 Cons (tab4 F P T D (fun f p t d => get4 m f p t d || cm d || md)) c F P T D).
  { intros md Hmd. split; [apply tab4_shape|]. split; [exact Hc|]. split; [apply tab4_wf|]. split; [exact Wc|].
    intros f p t d Hf Hp Ht Hd. rewrite get4_tab4 by assumption. rewrite (Hcm d Hd), (Hmd d Hd), !orb_false_r. apply Hcell; assumption. }
  destruct be.
  - injection H as <- <-. apply Hfin. intros d Hd.
    apply (all_lt_false F _ f0 Hf0). apply (all_lt_false P _ p0 Hp0). apply (all_lt_false D _ d Hd).
    change (both f0 p0 d || cm d = false). rewrite (Hboth d Hd), (Hcm d Hd). reflexivity.
  - discriminate.
  - injection H as <- <-. apply Hfin. intros d Hd.
    apply (all_lt_false F _ f0 Hf0). apply (all_lt_false P _ p0 Hp0). apply ex_lt_none. intros k Hk. apply Hboth. exact Hk.
Qed.
Lemma nth_negb_false (zs : list bool) k : forallb negb zs = true -> nth k zs false = false.
Proof.
  intros H. destruct (Nat.lt_ge_cases k (length zs)) as [Hk|Hk].
  - rewrite forallb_forall in H. specialize (H _ (nth_In zs false Hk)). destruct (nth k zs false); [discriminate|reflexivity].
  - apply nth_overflow. exact Hk.
Qed.
Lemma normalize_distribution_cons be F P T D pp zs m c m' c' :
  Cons m c F P T D -> forallb negb zs = true ->
  normalize_distribution be F P T D pp zs m c = Ok (m', c') -> Cons m' c' F P T D.
Proof.
  intros HC Hz H. pose proof HC as [Hm [Hc [Wm [Wc Hcell]]]]. unfold normalize_distribution in H.
  destruct (length zs =? (if pp then T * D else D)); cbn [negb] in H; [|discriminate].
  destruct be; [|discriminate|inversion H; subst; exact HC].
  inversion H; subst. split; [apply tab4_shape|]. split; [exact Hc|]. split; [apply tab4_wf|]. split; [exact Wc|].
  intros f p t d Hf Hp Ht Hd. rewrite get4_tab4 by assumption. rewrite nth_negb_false by exact Hz. rewrite orb_false_r. apply Hcell; assumption.
Qed.

(* ---- selection: the header side ---- *)
Definition entry_ok (D : nat) (e : comp * list nat) : Prop := length (snd e) = length (c_points (fst e)) /\ c_fmt (fst e) = S D.
Lemma gc_entry_ok c idx pts e D : c_fmt c = S D -> gc_entry c idx pts = Ok e -> entry_ok D e.
Proof.
  intros Hfmt H. unfold gc_entry in H.
  destruct (match pts with Some d => assoc_first (c_name c) d | None => None end) as [np|].
  - apply rbind_ok in H. destruct H as [ixs [Hix H]]. inversion H; subst. split; cbn [fst snd c_points c_fmt]; [|exact Hfmt].
    apply rmapM_ok in Hix. symmetry. eapply Forall2_length'. exact Hix.
  - inversion H; subst. split; cbn [fst snd]; [apply seq_length|exact Hfmt].
Qed.
Lemma gc_scan_ok h D : Forall (fun c => c_fmt c = S D) h ->
  forall idx cs pts es, gc_scan h idx cs pts = Ok es -> Forall (fun ne => entry_ok D (snd ne)) es.
Proof.
  induction 1 as [|c h Hc Hh IH]; intros idx cs pts es H; cbn [gc_scan] in H.
  - inversion H. constructor.
  - destruct (mem (c_name c) cs).
    + apply rbind_ok in H. destruct H as [e [He H]]. apply rbind_ok in H. destruct H as [rest [Hr H]]. inversion H; subst.
      constructor; [cbn [snd]; eapply gc_entry_ok; eassumption|eapply IH; eassumption].
    + eapply IH; eassumption.
Qed.
Lemma assoc_last_in {V} x (l : list (name * V)) v : assoc_last x l = Some v -> exists k, In (k, v) l.
Proof.
  induction l as [|[k w] r IH]; cbn [assoc_last]; [discriminate|].
  destruct (assoc_last x r) as [w'|] eqn:E.
  - intros H; inversion H; subst. destruct (IH eq_refl) as [k' Hk']. exists k'. right. exact Hk'.
  - destruct (name_eqb k x); [|discriminate]. intros H; inversion H; subst. exists k. left. reflexivity.
Qed.
Lemma total_points_sel (sel : list (comp * list nat)) D :
  Forall (entry_ok D) sel -> total_points (map fst sel) = length (flat_map snd sel) /\ Forall (fun c => c_fmt c = S D) (map fst sel).
Proof.
  induction 1 as [|e sel [He1 He2] Hs [IH1 IH2]]; cbn [map flat_map]; [split; [reflexivity|constructor]|].
  rewrite total_points_cons, app_length, IH1, He1. split; [reflexivity|constructor; assumption].
Qed.
Lemma get_components_hdr_ok h cs pts h' idxs D :
  Forall (fun c => c_fmt c = S D) h -> get_components_hdr h cs pts = Ok (h', idxs) ->
  Forall (fun c => c_fmt c = S D) h' /\ total_points h' = length idxs /\ length h' = length cs.
Proof.
  intros Hh H. unfold get_components_hdr in H. apply rbind_ok in H. destruct H as [es [Hes H]].
  apply rbind_ok in H. destruct H as [sel [Hsel H]]. inversion H; subst. clear H.
  pose proof (gc_scan_ok h D Hh _ _ _ _ Hes) as Hok. apply rmapM_ok in Hsel.
  assert (Hall : Forall (entry_ok D) sel).
  { clear Hes. induction Hsel as [|x e cs' sel' Hx Hr IH]; [constructor|]. constructor; [|exact IH].
    destruct (assoc_last x es) as [e'|] eqn:E; [|discriminate]. inversion Hx; subst.
    destruct (assoc_last_in _ _ _ E) as [k Hk]. rewrite Forall_forall in Hok. apply (Hok _ Hk). }
  destruct (total_points_sel sel D Hall) as [A B]. split; [exact B|]. split; [exact A|].
  rewrite map_length. symmetry. eapply Forall2_length'. exact Hsel.
Qed.
Lemma rc_args_keep h cs pts : existsb (fun c => negb (mem (c_name c) cs)) h = true -> fst (rc_args h cs pts) <> [].
Proof.
  induction h as [|c r IH]; cbn [existsb rc_args]; [discriminate|].
  destruct (rc_args r cs pts) as [keep d] eqn:E. cbn [fst] in IH.
  destruct (mem (c_name c) cs); cbn [negb orb fst]; [exact IH|]. intros _. discriminate.
Qed.

(* ---- the dispatcher never touches the header ---- *)
Lemma pass_through_ok {A} me (r : result A) x : pass_through me r = Ok x -> r = Ok x.
Proof.
  unfold pass_through. destruct (negb (mem (meth_name me) pass_through_methods)); [discriminate|].
  destruct r as [a|e]; cbn [rbind]; [|discriminate]. destruct (mem (meth_name me) header_attrs); [discriminate|]. intros H; exact H.
Qed.
Lemma only_np_ok {A} be e (r : result A) x : only_np be e r = Ok x -> be = Np /\ r = Ok x.
Proof. destruct be; cbn; [auto|discriminate|discriminate]. Qed.
