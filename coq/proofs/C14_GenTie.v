(* C14 - ties between the facts regenerated from numpy/pose_body.py on every run (gen/Gen_C14.v) and the
   hand-written model.  Where a fact has a meaning, the model is shown to BE the interpretation of the
   generated constant (so an edit of the comparison, the default, a threshold, the rounding function or an
   operand breaks the lemma); the statement list of the whole function is tied literally. *)
From Coq Require Import String List ZArith Arith Bool PrimFloat Reals.
Require Import Result Num C14_Count C14_Interp C14_Index Gen_C14.
Import ListNotations.
Local Open Scope string_scope.

(* ---- frame count: round(_frames * new_fps / self.fps) *)
Fixpoint cfloat (e : cexpr) (frames : nat) (new old : float) : result float :=
  match e with
  | EFrames => Ok (f_of_Z (Z.of_nat frames))
  | ENew => Ok new
  | EOld => Ok old
  | EMul a b => do x <- cfloat a frames new old; do y <- cfloat b frames new old; Ok (PrimFloat.mul x y)
  | EDiv a b => do x <- cfloat a frames new old; do y <- cfloat b frames new old;
                if PrimFloat.eqb y 0 then Err ZeroDiv else Ok (PrimFloat.div x y)
  | _ => Err NotImplemented
  end.
Definition ccount (e : cexpr) (frames : nat) (new old : float) : result nat :=
  match e with
  | ERound a => do q <- cfloat a frames new old; do z <- py_round q; if (z <? 0)%Z then Err Value else Ok (Z.to_nat z)
  | _ => Err NotImplemented
  end.
Lemma frame_count_tie frames new old : new_frame_count frames new old = ccount frame_count_expr frames new old.
Proof. unfold new_frame_count, ccount, frame_count_expr, cfloat, count_quotient. cbn [rbind].
  destruct (PrimFloat.eqb old 0); reflexivity. Qed.

(* ---- grids: np.linspace(0, 1, n) for both *)
Lemma grid_tie : grid_old = (0, 1)%Z /\ grid_new = (0, 1)%Z.
Proof. split; reflexivity. Qed.

(* ---- the two index searches over the new grid *)
Definition cmp_b (O : ops) (c : cmp) (x a : T O) : bool :=   (* new_steps <c> a *)
  match c with
  | CEq => eqb O x a | CNe => negb (eqb O x a)
  | CLt => ltb O x a | CLe => leb O x a | CGt => ltb O a x | CGe => leb O a x
  end.
Definition search (O : ops) (s : cmp * idx_default) (a : T O) (l : list (T O)) : nat :=
  match find_index (fun x => cmp_b O (fst s) x a) l with
  | Some i => i
  | None => match snd s with DZero => 0 | DLen => length l end
  end.
Lemma first_search_tie O a l : first_index O a l = search O first_search a l.
Proof. reflexivity. Qed.
Lemma last_search_tie O a l : last_index O a l = search O last_search a l.
Proof. reflexivity. Qed.

(* ---- the kind actually used, by the number of observations *)
Definition kind_name (k : kind) : string := match k with Linear => "linear" | Quadratic => "quadratic" | Cubic => "cubic" end.
Definition kind_named (s : string) : kind := if String.eqb s "cubic" then Cubic else if String.eqb s "quadratic" then Quadratic else Linear.
Definition kind_by_rule (r : nat * nat * string * string * string) (k : kind) (c : nat) : kind :=
  let '(a, b, cub, quad, lin) := r in
  if Nat.ltb a c then k else if Nat.ltb b c && String.eqb (kind_name k) cub then kind_named quad else kind_named lin.
Lemma kind_rule_tie k c : this_kind k c = kind_by_rule kind_rule k c.
Proof. destruct k; reflexivity. Qed.

(* ---- mask rules: confidence == 0 in interpolate and in the constructor; the full-range shortcut *)
Lemma mask_rule_tie : confidence_mask_rule = (CEq, "0") /\ constructor_mask_rule = ("confidence", CEq, "0").
Proof. split; reflexivity. Qed.
Lemma observed_tie O row : observed O row = negb (cmp_b O (fst confidence_mask_rule) (conf_of O row) (zero O)).
Proof. reflexivity. Qed.
Lemma full_range_test_tie : full_range_test = (("first_step", CEq, "0"), ("last_step", CEq, "1")).
Proof. reflexivity. Qed.
Lemma single_frame_guard_tie : single_frame_guard = (CEq, "1").
Proof. reflexivity. Qed.
Lemma interp1d_arguments_tie : interp1d_arguments = ["partial_steps"; "partial_frames"; "axis=0"; "kind=this_kind"].
Proof. reflexivity. Qed.
Definition padding_expected : list string :=
  ["np.zeros((first_step_index, frames.shape[1]))"; "np.array(frame_data)";
   "np.zeros((len(new_steps) - last_step_index, frames.shape[1]))"].
Lemma padding_tie : padding = padding_expected.
Proof. reflexivity. Qed.
Lemma result_tie : result_expr = "NumPyPoseBody(fps=new_fps, data=dimensions, confidence=confidence)".
Proof. reflexivity. Qed.
Definition constructor_statements_expected : list string :=
  [ "0:if isinstance(data, np.ndarray)";
    "1:mask = confidence == 0";
    "1:stacked_mask = np.stack([mask] * data.shape[-1], axis=-1)";
    "1:data = ma.masked_array(data, mask=stacked_mask)";
    "0:super().__init__(fps, data, confidence)" ].
Lemma constructor_tie : constructor_statements = constructor_statements_expected.
Proof. reflexivity. Qed.

(* ---- the whole function, statement by statement (the repaired source: proposed-fixes/F17) *)
Definition interpolate_statements_expected : list string :=
  [ "0:try";
    "1:from scipy.interpolate import interp1d";
    "0:except ImportError";
    "1:raise ImportError('Please install scipy with: pip install scipy')";
    "0:if new_fps is None";
    "1:new_fps = self.fps";
    "0:_frames = self.data.shape[0]";
    "0:if _frames == 1";
    "1:raise ValueError(""Can't interpolate single frame"")";
    "0:_new_frames = round(_frames * new_fps / self.fps)";
    "0:steps = np.linspace(0, 1, _frames)";
    "0:new_steps = np.linspace(0, 1, _new_frames)";
    "0:transposed = self.points_perspective()";
    "0:masked_confidence = ma.array(self.confidence, mask=self.confidence == 0)";
    "0:confidence = ma.expand_dims(masked_confidence.transpose(), axis=3)";
    "0:points = ma.concatenate([transposed, confidence], axis=3)";
    "0:new_people = []";
    "0:for people in points";
    "1:new_frames = []";
    "1:for frames in people";
    "2:mask = frames.transpose()[-1].mask";
    "2:partial_steps = ma.array(steps, mask=mask).compressed()";
    "2:if partial_steps.shape[0] == 0";
    "3:new_frames.append(np.zeros((_new_frames, frames.shape[1])))";
    "2:else";
    "3:partial_frames = frames.compressed().reshape(partial_steps.shape[0], frames.shape[1])";
    "3:if len(partial_steps) == 1";
    "4:f = lambda l: partial_frames";
    "3:else";
    "4:this_kind = kind if len(partial_steps) > 3 else 'quadratic' if len(partial_steps) > 2 and kind == 'cubic' else 'linear'";
    "4:f = interp1d(partial_steps, partial_frames, axis=0, kind=this_kind)";
    "3:first_step = partial_steps[0]";
    "3:last_step = partial_steps[-1]";
    "3:if first_step == 0 and last_step == 1";
    "4:new_frames.append(f(new_steps))";
    "3:else";
    "4:first_step_where = np.argwhere(new_steps >= first_step)";
    "4:first_step_index = first_step_where[0][0] if len(first_step_where) > 0 else len(new_steps)";
    "4:last_step_where = np.argwhere(new_steps > last_step)";
    "4:last_step_index = last_step_where[0][0] if len(last_step_where) > 0 else len(new_steps)";
    "4:if first_step_index == last_step_index";
    "5:new_frames.append(np.zeros((len(new_steps), frames.shape[1])))";
    "4:else";
    "5:frame_data = f(new_steps[first_step_index:last_step_index])";
    "5:new_frames.append(np.concatenate([np.zeros((first_step_index, frames.shape[1])), np.array(frame_data), np.zeros((len(new_steps) - last_step_index, frames.shape[1]))]))";
    "1:new_people.append(np.stack(new_frames, axis=0))";
    "0:new_data = np.stack(new_people, axis=0).transpose([2, 1, 0, 3])";
    "0:dimensions, confidence = np.split(new_data, [-1], axis=3)";
    "0:confidence = np.squeeze(confidence, axis=3)";
    "0:return NumPyPoseBody(fps=new_fps, data=dimensions, confidence=confidence)" ].
Lemma interpolate_statements_tie : interpolate_statements = interpolate_statements_expected.
Proof. reflexivity. Qed.

(* the literal facts, collected *)
Definition source_facts : Prop :=
  grid_old = (0, 1)%Z /\ grid_new = (0, 1)%Z /\
  confidence_mask_rule = (CEq, "0") /\ constructor_mask_rule = ("confidence", CEq, "0") /\
  full_range_test = (("first_step", CEq, "0"), ("last_step", CEq, "1")) /\
  single_frame_guard = (CEq, "1") /\
  interp1d_arguments = ["partial_steps"; "partial_frames"; "axis=0"; "kind=this_kind"] /\
  result_expr = "NumPyPoseBody(fps=new_fps, data=dimensions, confidence=confidence)".
Lemma source_facts_hold : source_facts.
Proof. repeat split; reflexivity. Qed.
Definition source_statements : Prop :=
  interpolate_statements = interpolate_statements_expected /\ constructor_statements = constructor_statements_expected /\
  padding = padding_expected.
Lemma source_statements_hold : source_statements.
Proof. repeat split; reflexivity. Qed.
