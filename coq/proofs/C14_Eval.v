(* C14 - the interpolant f built at numpy/pose_body.py:353-359, for two or more observations, over exact reals.
   SciPy's quadratic / cubic interp1d is an arbitrary function [sp] about which three things are assumed
   (never axioms: they are hypotheses of the final theorems, sampled on SciPy by the correspondence check):
     spline_shape  it returns one value per column,
     spline_nodes  it interpolates its nodes,
     spline_poly   it reproduces polynomials of degree <= k.
   They are only required for the two orders the code uses (k = 2, 3). *)
From Coq Require Import Reals List Arith Bool Lia Lra Sorted.
Require Import Num C14_Interp C14_Index C14_Grid C14_Lerp.
Import ListNotations.
Local Open Scope R_scope.

Definition spline_t := nat -> list R -> list (list R) -> R -> list R.
Definition peval (p : list R) (x : R) : R := fold_right (fun c acc => c + x * acc) 0 p.
Definition order_used (k : nat) : Prop := k = 2%nat \/ k = 3%nat.
Definition spline_shape (sp : spline_t) : Prop :=
  forall k xs ys w x, order_used k -> StronglySorted Rlt xs -> length xs = length ys -> (k < length xs)%nat ->
    Forall (fun r => length r = w) ys -> length (sp k xs ys x) = w.
Definition spline_nodes (sp : spline_t) : Prop :=
  forall k xs ys i, order_used k -> StronglySorted Rlt xs -> length xs = length ys -> (k < length xs)%nat ->
    (i < length xs)%nat -> sp k xs ys (nth i xs 0) = nth i ys [].
Definition spline_poly (sp : spline_t) : Prop :=
  forall k xs ys w c p x, order_used k -> StronglySorted Rlt xs -> length xs = length ys -> (k < length xs)%nat ->
    Forall (fun r => length r = w) ys -> (c < w)%nat -> (length p <= S k)%nat ->
    (forall i, (i < length xs)%nat -> col c (nth i ys []) = peval p (nth i xs 0)) ->
    nth 0 xs 0 <= x <= last xs 0 -> col c (sp k xs ys x) = peval p x.

Lemma this_kind_linear c : this_kind Linear c = Linear.
Proof. unfold this_kind. destruct (3 <? c)%nat; [reflexivity|]. now rewrite andb_false_r. Qed.
Lemma this_kind_quadratic k c : this_kind k c = Quadratic -> (2 < c)%nat.
Proof. unfold this_kind. destruct (Nat.ltb_spec 3 c); [lia|].
  destruct (Nat.ltb_spec 2 c); [lia|]. cbn [andb]. discriminate. Qed.
Lemma this_kind_cubic k c : this_kind k c = Cubic -> (3 < c)%nat.
Proof. unfold this_kind. destruct (Nat.ltb_spec 3 c); [lia|].
  destruct ((2 <? c)%nat && match k with Cubic => true | _ => false end); discriminate. Qed.

Section Eval.
Variable sp : spline_t.
Hypothesis Hshape : spline_shape sp.
Hypothesis Hnodes : spline_nodes sp.
Hypothesis Hpoly : spline_poly sp.
Variables (obs : obsR) (w : nat) (k : kind).
Hypothesis Hsort : StronglySorted Rlt (xs_of obs).
Hypothesis Hw : widths w obs.
Hypothesis Hlen : (2 <= length obs)%nat.

Local Notation ev := (eval_f R_ops sp k obs).
Lemma ys_nth i : nth i (map snd obs) [] = snd (nth i obs dflt).
Proof. change (@nil R) with (snd dflt). apply map_nth. Qed.
Lemma ys_widths : Forall (fun r => length r = w) (map snd obs).
Proof. unfold widths in Hw. rewrite Forall_forall in *. intros r Hr. apply in_map_iff in Hr.
  destruct Hr as [xy [<- Hin]]. apply Hw. exact Hin. Qed.
Lemma xs_ys_len : length (map fst obs) = length (map snd obs).
Proof. now rewrite !map_length. Qed.

Lemma eval_f_unfold x : ev x = match this_kind k (length obs) with
  | Linear => lerp R_ops obs x
  | Quadratic => sp 2%nat (map fst obs) (map snd obs) x
  | Cubic => sp 3%nat (map fst obs) (map snd obs) x end.
Proof. reflexivity. Qed.

Lemma eval_width x : length (ev x) = w.
Proof. rewrite eval_f_unfold. destruct (this_kind k (length obs)) eqn:E.
  - apply lerp_width; assumption.
  - apply this_kind_quadratic in E. apply Hshape;
      [left; reflexivity|exact Hsort|apply xs_ys_len|rewrite map_length; lia|apply ys_widths].
  - apply this_kind_cubic in E. apply Hshape;
      [right; reflexivity|exact Hsort|apply xs_ys_len|rewrite map_length; lia|apply ys_widths]. Qed.

Lemma eval_node i : (i < length obs)%nat -> ev (fst (nth i obs dflt)) = snd (nth i obs dflt).
Proof. intros Hi. rewrite eval_f_unfold. destruct (this_kind k (length obs)) eqn:E.
  - apply (lerp_node obs w); assumption.
  - apply this_kind_quadratic in E. rewrite <- (xs_nth obs i), <- ys_nth. unfold xs_of.
    apply Hnodes; [left; reflexivity|exact Hsort|apply xs_ys_len|rewrite map_length; lia|rewrite map_length; exact Hi].
  - apply this_kind_cubic in E. rewrite <- (xs_nth obs i), <- ys_nth. unfold xs_of.
    apply Hnodes; [right; reflexivity|exact Hsort|apply xs_ys_len|rewrite map_length; lia|rewrite map_length; exact Hi]. Qed.

Lemma eval_affine c a b x : (c < w)%nat ->
  (forall i, (i < length obs)%nat -> col c (snd (nth i obs dflt)) = a * fst (nth i obs dflt) + b) ->
  fst (nth 0 obs dflt) <= x <= last (xs_of obs) 0 ->
  col c (ev x) = a * x + b.
Proof. intros Hc Ha Hx. rewrite eval_f_unfold. destruct (this_kind k (length obs)) eqn:E.
  - apply (lerp_affine obs w); assumption.
  - apply this_kind_quadratic in E.
    replace (a * x + b) with (peval [b; a] x) by (cbn; ring).
    apply (Hpoly 2%nat (map fst obs) (map snd obs) w);
      [left; reflexivity|exact Hsort|apply xs_ys_len|rewrite map_length; lia|apply ys_widths|exact Hc|cbn; lia| |].
    + intros i Hi. rewrite map_length in Hi. fold (xs_of obs). rewrite ys_nth, (xs_nth obs i), Ha by exact Hi. cbn; ring.
    + fold (xs_of obs). rewrite (xs_nth obs 0). exact Hx.
  - apply this_kind_cubic in E.
    replace (a * x + b) with (peval [b; a] x) by (cbn; ring).
    apply (Hpoly 3%nat (map fst obs) (map snd obs) w);
      [right; reflexivity|exact Hsort|apply xs_ys_len|rewrite map_length; lia|apply ys_widths|exact Hc|cbn; lia| |].
    + intros i Hi. rewrite map_length in Hi. fold (xs_of obs). rewrite ys_nth, (xs_nth obs i), Ha by exact Hi. cbn; ring.
    + fold (xs_of obs). rewrite (xs_nth obs 0). exact Hx. Qed.
End Eval.
