(* C10 - refinement, part 3: every instruction, then every program (induction, any length). *)
From Coq Require Import List Arith ZArith Bool Lia.
Require Import Result Tensor Num C10_Tensor C10_Masked C10_TensorLemmas C10_IndexLemmas C10_Aligned C10_RefBase C10_Stats.
Import ListNotations.

Lemma prod_app_one s e : prod (s ++ [e]) = prod s * e.
Proof. induction s as [|x s IH]; cbn [app prod fold_right]; [lia|]. fold (prod (s ++ [e])) (prod s). rewrite IH. lia. Qed.
Lemma flat_map_length_const {X Y} (row : X -> list Y) e l : (forall x, length (row x) = e) -> length (flat_map row l) = length l * e.
Proof. intros H. induction l as [|x l IH]; cbn; [reflexivity|]. rewrite app_length, H, IH. reflexivity. Qed.
Lemma combine_map_repeat {X Y} (f : nat -> X) (y : Y) l : combine (map f l) (repeat y (length l)) = map (fun j => (f j, y)) l.
Proof. induction l as [|a l IH]; cbn; [reflexivity|]. now rewrite IH. Qed.
Lemma expand_last_wf {X Y} e (row : X -> list Y) t : wf t -> (forall x, length (row x) = e) -> wf (expand_last e row t).
Proof. intros Hw Hr. unfold wf, expand_last; cbn [shape data]. rewrite prod_app_one, (flat_map_length_const row e) by exact Hr. now rewrite Hw. Qed.

Section Refines.
Variable O : ops.
Variable trig : uname -> T O -> T O.
Hypothesis add_0_r : forall x : T O, add O x (zero O) = x.
Hypothesis count_faithful : forall l : list (T O), nonzero O (count O l) = false -> l = [].
Notation A := (T O).
Notation mt := (mt O).
Notation pair_of := (pair_of O).
Notation dp := (dp O).
Notation z0 := (z0 O).
Notation ok := (ok O).
Notation fsum := (fsum O).
Notation exec := (exec O trig).
Notation rexec := (rexec O trig).

(* ---- strict sum *)
Lemma sum_refines dd (m : mt) : ok m ->
  pair_of (tmap fsum (slices_opt z0 dd (fst m)), tmap (forallb (fun b => b)) (slices_opt false dd (snd m)))
  = tmap (fun l : list (A * bool) => (fsum (map fst l), forallb snd l)) (slices_opt dp dd (pair_of m)).
Proof. intros [Hv [Hm Hs]]. assert (Hl : length (data (fst m)) = length (data (snd m))) by (unfold wf in *; congruence).
  unfold C10_Masked.pair_of; cbn [fst snd]. destruct dd as [d|]; cbn [slices_opt].
  - unfold dp, C10_Masked.dp, z0, C10_Masked.z0. rewrite (slices_tzip (zero O) false d _ _ Hs Hl).
    unfold slices at 1 2. rewrite <- Hs. rewrite !tmap_tabulate, tzip_tabulate. apply tabulate_ext. intros k Hk.
    rewrite !slices_nth by (rewrite <- ?Hs; exact Hk). rewrite <- Hs.
    rewrite map_fst_combine, forallb_snd_combine by (now rewrite !map_length). reflexivity.
  - unfold tmap, tzip; cbn [shape data map combine]. now rewrite map_fst_combine, forallb_snd_combine. Qed.

(* ---- matrix product *)
Definition rowv (mat : tensor A) (e : nat) (row : list A) : list A := map (fun j => dot O row (column O mat j)) (seq 0 e).
Definition rowk (e : nat) (row : list bool) : list bool := repeat (forallb (fun b => b) row) e.
Definition rowp (mat : tensor A) (e : nat) (row : list (A * bool)) : list (A * bool) :=
  map (fun j => (dot O (map fst row) (column O mat j), forallb snd row)) (seq 0 e).
Lemma row_combine mat e a b : length a = length b -> combine (rowv mat e a) (rowk e b) = rowp mat e (combine a b).
Proof. intros H. unfold rowv, rowk, rowp. rewrite map_fst_combine, forallb_snd_combine by exact H.
  rewrite <- (seq_length e 0) at 2. apply combine_map_repeat. Qed.
Lemma rows_combine mat e (ca : nat -> list A) (cb : nat -> list bool) l : (forall k, length (ca k) = length (cb k)) ->
  combine (flat_map (rowv mat e) (map ca l)) (flat_map (rowk e) (map cb l))
  = flat_map (rowp mat e) (map (fun k => combine (ca k) (cb k)) l).
Proof. intros H. induction l as [|x l IH]; cbn [map flat_map]; [reflexivity|].
  rewrite combine_app by (unfold rowv, rowk; now rewrite map_length, seq_length, repeat_length).
  now rewrite IH, row_combine. Qed.
Lemma matmul_refines (m : mt) mat e : ok m ->
  pair_of (expand_last e (rowv mat e) (slices z0 (length (shape (fst m)) - 1) (fst m)),
           expand_last e (rowk e) (slices false (length (shape (snd m)) - 1) (snd m)))
  = expand_last e (rowp mat e) (slices dp (length (shape (fst m)) - 1) (pair_of m))
  /\ ok (expand_last e (rowv mat e) (slices z0 (length (shape (fst m)) - 1) (fst m)),
         expand_last e (rowk e) (slices false (length (shape (snd m)) - 1) (snd m))).
Proof. intros [Hv [Hm Hs]]. assert (Hl : length (data (fst m)) = length (data (snd m))) by (unfold wf in *; congruence).
  rewrite <- Hs. set (d := length (shape (fst m)) - 1). split.
  - unfold C10_Masked.pair_of, dp, C10_Masked.dp, z0, C10_Masked.z0; cbn [fst snd]. rewrite (slices_tzip (zero O) false d _ _ Hs Hl).
    unfold expand_last, tzip; cbn [shape data]. f_equal.
    unfold slices at 1 2. rewrite <- Hs. unfold tabulate; cbn [data].
    rewrite rows_combine by (intros k; now rewrite !map_length). f_equal. apply map_seq_ext. intros k Hk.
    rewrite !slices_nth by (rewrite <- ?Hs; lia). now rewrite <- Hs.
  - repeat split; cbn [fst snd].
    + apply expand_last_wf; [apply tabulate_wf | intros x; unfold rowv; now rewrite map_length, seq_length].
    + apply expand_last_wf; [apply tabulate_wf | intros x; unfold rowk; now rewrite repeat_length].
    + unfold expand_last, slices, tabulate; cbn [shape]. now rewrite Hs. Qed.

(* ---- elementwise on the value only *)
Lemma unary_pair (u : A -> A) (x : mt) : pair_of (tmap u (fst x), snd x) = tmap (fun a : A * bool => (u (fst a), snd a)) (pair_of x).
Proof. unfold C10_Masked.pair_of, tzip, tmap; cbn [fst snd shape data]. f_equal. apply combine_map_l. Qed.
Lemma tmap_tmap {X Y Z} (g : Y -> Z) (h : X -> Y) t : tmap g (tmap h t) = tmap (fun x => g (h x)) t.
Proof. unfold tmap; cbn [shape data]. now rewrite map_map. Qed.

(* ---- one instruction *)
Lemma bcast_tabulate (v : tensor A) (k' : tensor bool) k : apply_plan false (p_broadcast (shape v)) k' = Ok k ->
  k = tabulate (shape v) (bget false (shape v) k').
Proof. unfold apply_plan, p_broadcast. destruct (bcompat_rev (rev (shape k')) (rev (shape v))); [|discriminate]. now intros [= <-]. Qed.

Lemma exec_refines f i env outs : instr_wf O i -> Forall ok env -> exec repaired f i env = Ok outs ->
  rexec f i (map pair_of env) = Ok (map pair_of outs) /\ Forall ok outs.
Proof. intros Hi He H. unfold C10_Masked.exec in H. unfold C10_Masked.rexec.
  destruct (plans_of O f i) as [[r p]|] eqn:Hp.
  { binv H. rewrite get_map, E. cbn [rmap rbind]. apply struct_refines; [|exact H]. eapply (get_P ok); eauto. }
  destruct i; try discriminate.
  - (* IArith *)
    destruct (arith_ok O f op o); [|discriminate]. binv H. rename x into m. rewrite get_map, E. cbn [rmap rbind].
    pose proof (get_P ok _ _ _ He E) as Hm.
    destruct o as [r2|t].
    + binv H. rename x into m2. rewrite get_map, E0. cbn [rmap rbind]. pose proof (get_P ok _ _ _ He E0) as Hm2.
      binv H. binv H. injection H as <-.
      apply bzip_ok in E1. destruct E1 as [ns [B1 ->]]. apply bzip_ok in E2. destruct E2 as [n2 [B2 ->]].
      replace (shape (snd m)) with (shape (fst m)) in B2 by apply Hm. replace (shape (snd m2)) with (shape (fst m2)) in B2 by apply Hm2.
      rewrite B1 in B2. injection B2 as <-.
      rewrite (bzip_of_shapes dp dp _ (pair_of m) (pair_of m2) ns B1). cbn [rbind map]. split; [|constructor; [apply ok_tabulate|constructor]].
      f_equal. f_equal. (symmetry; etransitivity; [apply (pair_tabulate O)|]; symmetry). apply tabulate_ext. intros k _.
      rewrite (bget_pair O ns m k Hm), (bget_pair O ns m2 k Hm2). reflexivity.
    + binv H. cbn [plain_bcast repaired] in H. binv H. injection H as <-.
      apply bzip_ok in E0. destruct E0 as [ns [B1 ->]]. apply bcast_tabulate in E1. cbn [shape tabulate] in E1. subst x0.
      rewrite (bzip_of_shapes dp z0 _ (pair_of m) t ns B1). cbn [rbind map]. split; [|constructor; [apply ok_tabulate|constructor]].
      f_equal. f_equal. (symmetry; etransitivity; [apply (pair_tabulate O)|]; symmetry). apply tabulate_ext. intros k _. rewrite (bget_pair O ns m k Hm). reflexivity.
  - (* IDivM *)
    destruct f; [|discriminate]. binv H. rename x into m. binv H. rename x into m2. rewrite !get_map, E, E0. cbn [rmap rbind].
    pose proof (get_P ok _ _ _ He E) as Hm. pose proof (get_P ok _ _ _ He E0) as Hm2.
    binv H. apply bzip_ok in E1. destruct E1 as [ns [B1 ->]].
    rewrite (bzip_of_shapes dp dp _ (pair_of m) (pair_of m2) ns B1). cbn [rbind map].
    destruct upd.
    + binv H. injection H as <-. apply bzip_ok in E1. destruct E1 as [n2 [B2 ->]].
      replace (shape (snd m)) with (shape (fst m)) in B2 by apply Hm. replace (shape (snd m2)) with (shape (fst m2)) in B2 by apply Hm2.
      rewrite B1 in B2. injection B2 as <-. cbn [map]. split; [|constructor; [apply ok_tabulate|constructor]].
      f_equal. f_equal. (symmetry; etransitivity; [apply (pair_tabulate O)|]; symmetry). apply tabulate_ext. intros k _.
      rewrite (bget_pair O ns m k Hm), (bget_pair O ns m2 k Hm2). reflexivity.
    + cbn [plain_bcast repaired] in H. binv H. injection H as <-. apply bcast_tabulate in E1. cbn [shape tabulate] in E1. subst x.
      cbn [map]. split; [|constructor; [apply ok_tabulate|constructor]].
      f_equal. f_equal. (symmetry; etransitivity; [apply (pair_tabulate O)|]; symmetry). apply tabulate_ext. intros k _.
      rewrite (bget_pair O ns m k Hm), (bget_pair O ns m2 k Hm2). reflexivity.
  - (* ISum *)
    destruct (sum_ok f d); [|discriminate]. binv H. rename x into m. rewrite get_map, E. cbn [rmap rbind].
    pose proof (get_P ok _ _ _ He E) as Hm.
    replace (shape (snd m)) with (shape (fst m)) in H by apply Hm. binv H. rewrite pair_shape, E0. cbn [rbind]. injection H as <-. cbn [map].
    split.
    + f_equal. f_equal. symmetry. now apply sum_refines.
    + constructor; [|constructor]. repeat split; cbn [fst snd].
      * apply tmap_wf, slices_opt_wf.
      * apply tmap_wf, slices_opt_wf.
      * cbn [tmap shape]. rewrite !slices_opt_shape. f_equal. apply Hm.
  - (* ICat *)
    binv H. rename x into ms. destruct (operands_refine O env os ms Hi He E) as [R1 R2]. rewrite R1. cbn [rbind].
    binv H. binv H. injection H as <-. destruct (multi_refines O (cat_planZ d) ms _ _ R2 E0 E1) as [M1 M2].
    rewrite M1. cbn [rbind map]. split; [reflexivity|]. constructor; [exact M2|constructor].
  - (* IStack *)
    binv H. rename x into ms. rewrite gets_map, E. cbn [rmap rbind]. pose proof (gets_P ok _ _ _ He E) as R2.
    binv H. binv H. injection H as <-. destruct (multi_refines O (stack_planZ d) ms _ _ R2 E0 E1) as [M1 M2].
    rewrite M1. cbn [rbind map]. split; [reflexivity|]. constructor; [exact M2|constructor].
  - (* IMatmul *)
    binv H. rename x into x0. rewrite get_map, E. cbn [rmap rbind]. pose proof (get_P ok _ _ _ He E) as Hm.
    rewrite pair_shape. destruct (matmul_ok (shape (fst x0)) (shape m)); [|discriminate].
    cbn [matmul_rowall repaired] in H. injection H as <-. cbn [map].
    destruct (matmul_refines x0 m (nth 1 (shape m) 0) Hm) as [M1 M2]. split; [|constructor; [exact M2|constructor]].
    f_equal. f_equal. symmetry. exact M1.
  - (* IStat *)
    destruct (stat_ok f); [|discriminate]. binv H. rename x into m. rewrite get_map, E. cbn [rmap rbind].
    pose proof (get_P ok _ _ _ He E) as Hm. rewrite pair_shape.
    destruct k; binv H; injection H as <-.
    + destruct (mean_nf O add_0_r _ _ _ _ Hm E0) as [dd [Hdd [_ [Hpx Hx]]]]. rewrite Hdd. cbn [rbind map].
      split; [|constructor; [exact Hx|constructor]]. f_equal. f_equal. symmetry. exact Hpx.
    + destruct (var_nf O add_0_r count_faithful _ _ _ Hm E0) as [dd [Hdd [Hpx Hx]]]. rewrite Hdd. cbn [rbind map].
      split; [|constructor; [exact Hx|constructor]]. f_equal. f_equal. symmetry. exact Hpx.
    + destruct (var_nf O add_0_r count_faithful _ _ _ Hm E0) as [dd [Hdd [Hpx Hx]]]. rewrite Hdd. cbn [rbind map].
      split.
      * f_equal. f_equal. rewrite unary_pair, Hpx, tmap_tmap. reflexivity.
      * constructor; [|constructor]. destruct Hx as [X1 [X2 X3]]. repeat split; cbn [fst snd]; [now apply tmap_wf | exact X2 | exact X3].
  - (* IZeroFill *)
    binv H. rename x into m. rewrite get_map, E. cbn [rmap rbind]. pose proof (get_P ok _ _ _ He E) as Hm.
    binv H. injection H as <-. cbn [map]. pose proof (zero_filled_nf O _ _ Hm E0) as Hz. subst x.
    split; [|constructor; [apply ok_wrap, tabulate_wf|constructor]].
    f_equal. f_equal. unfold wrap, tconst. cbn [shape tabulate]. (symmetry; etransitivity; [apply (pair_tabulate O)|]; symmetry).
    assert (HP : wf (pair_of m)) by (destruct Hm as [Hv [Hk Hs]]; apply tzip_wf; [exact Hv | unfold wf in *; congruence]).
    rewrite (tmap_as_tabulate _ dp (pair_of m) HP). reflexivity.
  - (* IUnary *)
    destruct (unary_ok f u meth); [|discriminate]. binv H. rename x into m. rewrite get_map, E. cbn [rmap rbind].
    pose proof (get_P ok _ _ _ He E) as Hm. injection H as <-. cbn [map]. split.
    + f_equal. f_equal. symmetry. apply unary_pair.
    + constructor; [|constructor]. destruct Hm as [X1 [X2 X3]]. repeat split; cbn [fst snd]; [now apply tmap_wf | exact X2 | exact X3].
  - (* IUnsqueeze *)
    destruct f; discriminate.
Qed.

Definition prog_wf (p : list (instr O)) : Prop := Forall (instr_wf O) p.

Theorem run_refines f p : prog_wf p -> forall env env', Forall ok env -> run O trig repaired f p env = Ok env' ->
  rrun O trig f p (map pair_of env) = Ok (map pair_of env') /\ Forall ok env'.
Proof. induction 1 as [|i p Hi _ IH]; cbn [run rrun]; intros env env' He H; [injection H as <-; now split|].
  binv H. destruct (exec_refines f i env x Hi He E) as [R1 R2]. rewrite R1. cbn [rbind]. rewrite <- map_app.
  apply IH; [|exact H]. apply Forall_app. now split. Qed.
End Refines.
