(* C09 - non-interference of every pose operation: bodies that agree on what is visible give results that
   agree on what is visible.  Generic in the numeric instance and in the external numerics. *)
From Coq Require Import List Arith Bool Lia.
Require Import Tensor Num Result C09_Masked C09_Ops C09_Core.
Import ListNotations.

Section NI.
Variable O : ops.
Variable E : ext O.
Notation T := (Num.T O).
Notation cell := (cell O).
Notation vis1 := (vis1 O).
Notation rd := (rd O).
Notation rdT := (rdT O).
Notation dcell := (dcell O).
Notation agree := (agree O).
Notation agree_l := (agree_l O).
Notation body := (body O).

(* ---- masked tensors ------------------------------------------------------------------------------------ *)
Lemma pair_inj {A B} (a a' : A) (b b' : B) : (a, b) = (a', b') -> a = a' /\ b = b'.
Proof. intros H. injection H as H1 H2. now split. Qed.
Lemma mkT_inj {X} s s' (l l' : list X) : mkT s l = mkT s' l' -> s = s' /\ l = l'.
Proof. intros H. injection H as H1 H2. now split. Qed.
Lemma agree_iff (a a' : marr O) : agree a a' <-> shape a = shape a' /\ agree_l (data a) (data a').
Proof. unfold C09_Masked.agree, visible, tmap, C09_Masked.agree_l. destruct a as [s l], a' as [s' l']; cbn [shape data]. split.
  - intros H. now apply mkT_inj in H.
  - intros [H1 H2]. now rewrite H1, H2. Qed.
Lemma agree_mkT s l l' : agree_l l l' -> agree (mkT s l) (mkT s l').
Proof. intros H. apply agree_iff. now split. Qed.
Lemma agree_shape a a' : agree a a' -> shape a = shape a'.
Proof. intros H. now apply agree_iff in H. Qed.
Lemma agree_data a a' : agree a a' -> agree_l (data a) (data a').
Proof. intros H. now apply agree_iff in H. Qed.
Lemma agree_body_iff (b b' : body) : agree_body O b b' <-> agree (bdat b) (bdat b') /\ bconf b = bconf b'.
Proof. unfold agree_body, visible_body, C09_Masked.agree. split.
  - intros H. now apply pair_inj in H.
  - intros [H1 H2]. now rewrite H1, H2. Qed.

Lemma reindex_agree ns f a a' : agree a a' -> agree (reindex dcell ns f a) (reindex dcell ns f a').
Proof. intros H. apply agree_iff in H. destruct H as [Hs Hd]. apply agree_iff. split; [reflexivity|].
  unfold reindex; cbn [data]. rewrite Hs. unfold C09_Masked.agree_l. rewrite !map_map. apply map_ext. intros k.
  apply (rd_vis O _ _ _ Hd). Qed.
Lemma transpose_agree axes a a' : agree a a' -> agree (transpose dcell axes a) (transpose dcell axes a').
Proof. intros H. unfold transpose. rewrite (agree_shape _ _ H). now apply reindex_agree. Qed.
Lemma take0_agree idx a a' : agree a a' -> agree (take0 dcell idx a) (take0 dcell idx a').
Proof. intros H. unfold take0. rewrite (agree_shape _ _ H). now apply reindex_agree. Qed.
Lemma sel_points_agree axes idx a a' : agree a a' -> agree (sel_points dcell axes idx a) (sel_points dcell axes idx a').
Proof. intros H. unfold sel_points. now apply transpose_agree, take0_agree, transpose_agree. Qed.

(* ---- constructors -------------------------------------------------------------------------------------- *)
Lemma VC1_ormask z : VC1 O (fun x : cell => (fst x, snd x || z)).
Proof. intros c c' H. apply vis1_eq in H. destruct H as [Hm Hv]. apply vis1_eq; cbn [fst snd]. rewrite Hm. split; [reflexivity|].
  intros Hz. apply orb_false_iff in Hz. destruct Hz as [Hz _]. apply Hv. congruence. Qed.
Lemma np_ctor_agree d d' c : agree d d' -> agree_body O (np_ctor O d c) (np_ctor O d' c).
Proof. intros H. apply agree_body_iff. split; [|reflexivity]. unfold np_ctor; cbn [bdat].
  pose proof (agree_shape _ _ H) as Hs. pose proof (agree_data _ _ H) as Hd. rewrite Hs, <- (agree_l_len O _ _ Hd).
  apply agree_mkT. apply agree_l_tab. intros k. apply (VC1_ormask _ _ _ (rd_vis O _ _ k Hd)). Qed.
Lemma t_ctor_agree d d' c : agree d d' -> agree_body O (t_ctor O d c) (t_ctor O d' c).
Proof. intros H. apply agree_body_iff. now split. Qed.
(* two fillings of the missing slots of one pose agree, on every backend *)
Lemma same_pose_np raw raw' conf : same_pose O raw raw' conf ->
  agree_body O (np_ctor O (of_plain O raw) conf) (np_ctor O (of_plain O raw') conf).
Proof. intros [Hs [Hl Hv]]. apply agree_body_iff. split; [|reflexivity]. unfold np_ctor, of_plain, tmap; cbn [bdat shape data].
  rewrite !map_length, <- Hs, <- Hl. apply agree_mkT. apply agree_l_tab_lt. intros k Hk.
  unfold C09_Masked.rd. rewrite !(nth_indep _ dcell (plain O (zero O))) by (rewrite map_length; lia).
  rewrite !map_nth. unfold plain; cbn [fst snd orb].
  apply vis1_eq; cbn [fst snd]. split; [reflexivity|]. intros Hz. apply Hv. exact Hz. Qed.
Lemma same_pose_t raw raw' conf : same_pose O raw raw' conf ->
  agree_body O (t_ctor_plain O raw conf) (t_ctor_plain O raw' conf).
Proof. intros [Hs [Hl Hv]]. apply agree_body_iff. split; [|reflexivity]. unfold t_ctor_plain; cbn [bdat].
  rewrite <- Hs, <- Hl. apply agree_mkT. apply agree_l_tab. intros k.
  apply vis1_eq; cbn [fst snd]. split; [reflexivity|]. intros Hz. apply Hv. exact Hz. Qed.

(* ---- results --------------------------------------------------------------------------------------------- *)
Definition vres (r : result body) : result (marr O * tensor T) := rmap (visible_body O) r.
Ltac split_body H := apply agree_body_iff in H; destruct H as [?Hd ?Hc].

(* ---- selection ------------------------------------------------------------------------------------------- *)
Lemma np_get_points_ni idx b b' : agree_body O b b' -> vres (np_get_points O idx b) = vres (np_get_points O idx b').
Proof. intros H. split_body H. unfold np_get_points. rewrite (agree_shape _ _ Hd), Hc.
  destruct (all_lt _ idx); [|reflexivity]. unfold vres; cbn [rmap]. f_equal. apply np_ctor_agree. now apply sel_points_agree. Qed.
Lemma t_get_points_ni idx b b' : agree_body O b b' -> vres (t_get_points O idx b) = vres (t_get_points O idx b').
Proof. intros H. split_body H. unfold t_get_points. rewrite (agree_shape _ _ Hd), Hc.
  destruct (all_lt _ idx); [|reflexivity]. unfold vres; cbn [rmap]. f_equal. apply t_ctor_agree. now apply sel_points_agree. Qed.
Lemma np_select_frames_ni idx b b' : agree_body O b b' -> vres (np_select_frames O idx b) = vres (np_select_frames O idx b').
Proof. intros H. split_body H. unfold np_select_frames. rewrite (agree_shape _ _ Hd), Hc.
  destruct (all_lt _ idx); [|reflexivity]. unfold vres; cbn [rmap]. f_equal. apply np_ctor_agree. now apply take0_agree. Qed.
Lemma t_select_frames_ni idx b b' : agree_body O b b' -> vres (t_select_frames O idx b) = vres (t_select_frames O idx b').
Proof. intros H. split_body H. unfold t_select_frames. rewrite (agree_shape _ _ Hd), Hc.
  destruct (all_lt _ idx); [|reflexivity]. unfold vres; cbn [rmap]. f_equal. apply t_ctor_agree. now apply take0_agree. Qed.
Lemma tf_select_frames_ni idx b b' : agree_body O b b' -> vres (tf_select_frames O idx b) = vres (tf_select_frames O idx b').
Proof. intros H. unfold tf_select_frames. destruct idx; [reflexivity|]. now apply t_select_frames_ni. Qed.
Lemma tf_get_points_ni ic idx b b' : agree_body O b b' -> vres (tf_get_points O ic idx b) = vres (tf_get_points O ic idx b').
Proof. intros H. unfold tf_get_points. destruct idx; [destruct ic; [now apply t_get_points_ni|reflexivity]|]. now apply t_get_points_ni. Qed.

(* ---- linear transforms ----------------------------------------------------------------------------------- *)
Lemma np_flip_ni axis b b' : agree_body O b b' -> agree_body O (np_flip O axis b) (np_flip O axis b').
Proof. intros H. split_body H. unfold np_flip. rewrite (agree_shape _ _ Hd), Hc. apply np_ctor_agree, agree_mkT.
  apply ew_trail_agree; [apply VC2_mbin|now apply agree_data|apply agree_l_refl]. Qed.
Lemma madot_eq D E' M l l' : agree_l l l' -> madot O D E' M l = madot O D E' M l'.
Proof. intros H. unfold madot. rewrite (agree_l_len O _ _ H). apply tab_ext. intros k. f_equal.
  - f_equal. apply tab_ext. intros d. f_equal. apply (VI1_filled O). now apply rd_vis.
  - apply VIL_allmasked. now apply lane_last_agree. Qed.
Lemma np_matmul_ni E' M b b' : agree_body O b b' -> agree_body O (np_matmul O E' M b) (np_matmul O E' M b').
Proof. intros H. split_body H. unfold np_matmul. rewrite (agree_shape _ _ Hd), Hc, (madot_eq _ _ _ _ _ (agree_data _ _ Hd)).
  reflexivity. Qed.
(* Torch / TF: the product reads the stored values of every coordinate of the point, and the row is valid only if all are *)
Lemma tdot_agree D E' M l l' : agree_l l l' -> agree_l (tdot O D E' M l) (tdot O D E' M l').
Proof. intros H. unfold tdot. rewrite (agree_l_len O _ _ H). apply agree_l_tab. intros k.
  pose proof (lane_last_agree O D _ _ (k / E') H) as Hlane.
  apply vis1_eq; cbn [fst snd]. split; [now apply existsb_snd_agree|]. intros Hm. f_equal.
  pose proof (map_fst_agree O _ _ Hlane Hm) as Hf. unfold lane_last in Hf. rewrite !map_tab in Hf.
  unfold tab in *. revert Hf. generalize (seq 0 D). intros s Hf. induction s as [|d s IH]; [reflexivity|].
  cbn [map] in *. apply cons_inj in Hf. destruct Hf as [H1 H2]. rewrite H1. f_equal. now apply IH. Qed.
Lemma t_matmul_ni E' M b b' : agree_body O b b' -> agree_body O (t_matmul O E' M b) (t_matmul O E' M b').
Proof. intros H. split_body H. unfold t_matmul. rewrite <- (agree_shape _ _ Hd), Hc. apply t_ctor_agree, agree_mkT.
  apply tdot_agree. now apply agree_data. Qed.

Lemma rd_tab n (f : nat -> cell) k : rd (tab n f) k = if Nat.ltb k n then f k else dcell.
Proof. unfold C09_Masked.rd, tab. destruct (Nat.ltb k n) eqn:Ek.
  - apply Nat.ltb_lt in Ek. rewrite (nth_indep _ dcell (f 0)) by (now rewrite map_length, seq_length).
    rewrite (map_nth f (seq 0 n) 0 k), seq_nth by exact Ek. reflexivity.
  - apply Nat.ltb_ge in Ek. rewrite nth_overflow by (now rewrite map_length, seq_length). reflexivity. Qed.

(* ---- zero filling ---------------------------------------------------------------------------------------- *)
Lemma tmap_agree g a a' : VC1 O g -> agree a a' -> agree (tmap g a) (tmap g a').
Proof. intros Hg H. apply agree_iff in H. destruct H as [Hs Hd]. apply agree_iff. unfold tmap; cbn [shape data]. split; [exact Hs|].
  now apply agree_l_map. Qed.
Lemma np_zero_filled_ni b b' : agree_body O b b' -> agree_body O (np_zero_filled O b) (np_zero_filled O b').
Proof. intros H. split_body H. unfold np_zero_filled. rewrite Hc.
  pose proof (np_ctor_agree _ _ (bconf b') Hd) as Hn. apply agree_body_iff in Hn. destruct Hn as [Hn1 Hn2].
  apply agree_body_iff; cbn [bdat bconf]. split; [|exact Hn2]. apply tmap_agree; [apply VC1_vis_filled|exact Hn1]. Qed.
Lemma t_zero_filled_ni b b' : agree_body O b b' -> t_zero_filled O b = t_zero_filled O b'.
Proof. intros H. split_body H. unfold t_zero_filled, tmap. rewrite (agree_shape _ _ Hd). f_equal.
  apply map_VI1; [apply VI1_tzero|now apply agree_data]. Qed.
(* exactly zero at every missing slot *)
Lemma t_zero_fill_exact b k : snd (rd (data (bdat b)) k) = true -> k < length (data (bdat b)) ->
  rdT (data (t_zero_filled O b)) k = zero O.
Proof. intros Hm Hk. unfold t_zero_filled, tmap; cbn [data]. unfold C09_Masked.rdT, C09_Masked.rd in *.
  rewrite (nth_indep _ (zero O) (tzero O dcell)) by (now rewrite map_length). rewrite map_nth. unfold tzero. now rewrite Hm. Qed.
Lemma np_zero_fill_exact b k : snd (rd (data (bdat (np_zero_filled O b))) k) = true -> k < length (data (bdat b)) ->
  fst (rd (data (bdat (np_zero_filled O b))) k) = zero O.
Proof. unfold np_zero_filled, tmap; cbn [bdat data]. unfold C09_Masked.rd. set (g := fun x : cell => (filled O (zero O) x, snd x)).
  intros Hm Hk. change dcell with (g dcell) in *. rewrite map_nth in *. unfold g in *; cbn [fst snd] in *. unfold filled. now rewrite Hm. Qed.

End NI.
