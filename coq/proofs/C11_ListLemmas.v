(* C11 - list / dictionary lemmas used by the selection proofs. *)
From Coq Require Import List Arith Bool NArith ZArith Lia.
Require Import Result Tensor C11_Str C11_Select.
Import ListNotations.

Lemma str_eqb_spec a b : reflect (a = b) (str_eqb a b).
Proof. revert b; induction a as [|x a IH]; intros [|y b]; cbn [str_eqb]; try (constructor; congruence).
  destruct (N.eqb_spec x y) as [->|Hn]; cbn [andb].
  - destruct (IH b) as [->|Hn]; constructor; congruence.
  - constructor; congruence. Qed.
Lemma str_eqb_refl a : str_eqb a a = true.
Proof. destruct (str_eqb_spec a a); congruence. Qed.
Lemma str_eqb_neq a b : a <> b -> str_eqb a b = false.
Proof. destruct (str_eqb_spec a b); congruence. Qed.

Lemma mem_In x l : mem x l = true <-> In x l.
Proof. unfold mem. rewrite existsb_exists. split.
  - intros [y [Hy He]]. destruct (str_eqb_spec x y) as [->|]; [exact Hy|discriminate].
  - intros H. exists x. split; [exact H|apply str_eqb_refl]. Qed.
Lemma mem_false x l : mem x l = false <-> ~ In x l.
Proof. rewrite <- mem_In. destruct (mem x l); split; congruence. Qed.
Lemma nodupb_NoDup l : nodupb l = true <-> NoDup l.
Proof. induction l as [|a l IH]; cbn [nodupb]; [split; [constructor|reflexivity]|].
  rewrite andb_true_iff, negb_true_iff, IH, mem_false. split.
  - intros [H1 H2]. constructor; assumption.
  - intros H. inversion H; subst. split; assumption. Qed.

(* list.index *)
Lemma index_of_Some x l : forall k, index_of x l = Some k -> nth_error l k = Some x.
Proof. induction l as [|a l IH]; intros k; cbn [index_of]; [discriminate|].
  destruct (str_eqb_spec a x) as [->|Hn].
  - intros [= <-]. reflexivity.
  - destruct (index_of x l) as [j|]; cbn [option_map]; intros [= <-]. cbn [nth_error]. apply IH. reflexivity. Qed.
Lemma index_of_lt x l k : index_of x l = Some k -> k < length l.
Proof. intros H. apply index_of_Some in H. apply nth_error_Some. congruence. Qed.
Lemma index_of_In x l : In x l -> exists k, index_of x l = Some k.
Proof. induction l as [|a l IH]; intros H; [destruct H|]. cbn [index_of].
  destruct (str_eqb_spec a x) as [->|Hn]; [eexists; reflexivity|].
  destruct H as [->|H]; [congruence|]. destruct (IH H) as [k ->]. eexists; reflexivity. Qed.
Lemma index_of_None x l : index_of x l = None -> ~ In x l.
Proof. intros H Hi. destruct (index_of_In _ _ Hi) as [k Hk]. congruence. Qed.
Lemma index_of_nodup l : forall k x, NoDup l -> nth_error l k = Some x -> index_of x l = Some k.
Proof. induction l as [|a l IH]; intros k x Hn Hk; [destruct k; discriminate|].
  inversion Hn as [|? ? Ha Hl]; subst. cbn [index_of]. destruct k as [|k]; cbn [nth_error] in Hk.
  - injection Hk as ->. now rewrite str_eqb_refl.
  - destruct (str_eqb_spec a x) as [->|Hne].
    + exfalso. apply Ha. eapply nth_error_In; eassumption.
    + rewrite (IH k x Hl Hk). reflexivity. Qed.
Lemma index_of_nth_default l k x d : index_of x l = Some k -> nth k l d = x.
Proof. intros H. apply index_of_Some in H. now apply nth_error_nth. Qed.

(* dict: the last binding of a key wins *)
Lemma assoc_last_In {V} k (d : list (str * V)) v : assoc_last k d = Some v -> In (k, v) d.
Proof. induction d as [|[k' v'] d IH]; cbn [assoc_last]; [discriminate|].
  destruct (assoc_last k d) as [x|].
  - intros [= <-]. right. now apply IH.
  - destruct (str_eqb_spec k' k) as [->|]; [intros [= <-]; now left|discriminate]. Qed.
Lemma assoc_last_None {V} k (d : list (str * V)) : assoc_last k d = None -> ~ In k (map fst d).
Proof. induction d as [|[k' v'] d IH]; cbn [assoc_last map fst]; [intros _ []|].
  destruct (assoc_last k d) as [x|]; [discriminate|].
  destruct (str_eqb_spec k' k) as [->|Hn]; [discriminate|]. intros _ [H|H]; [congruence|]. now apply IH. Qed.
Lemma assoc_last_nodup {V} k (d : list (str * V)) v : NoDup (map fst d) -> In (k, v) d -> assoc_last k d = Some v.
Proof. induction d as [|[k' v'] d IH]; intros Hn Hi; [destruct Hi|]. cbn [map fst] in Hn. inversion Hn as [|? ? Hk Hd]; subst.
  cbn [assoc_last]. destruct Hi as [[= -> ->]|Hi].
  - destruct (assoc_last k d) as [x|] eqn:E.
    + exfalso. apply Hk. apply assoc_last_In in E. change k with (fst (k, x)). now apply in_map.
    + now rewrite str_eqb_refl.
  - now rewrite (IH Hd Hi). Qed.
Lemma assoc_last_some_key {V} k (d : list (str * V)) : In k (map fst d) -> exists v, assoc_last k d = Some v.
Proof. intros H. destruct (assoc_last k d) as [v|] eqn:E; [eauto|]. apply assoc_last_None in E. contradiction. Qed.

Lemma nat_assoc_last_In k d v : nat_assoc_last k d = Some v -> In (k, v) d.
Proof. induction d as [|[k' v'] d IH]; cbn [nat_assoc_last]; [discriminate|].
  destruct (nat_assoc_last k d) as [x|].
  - intros [= <-]. right. now apply IH.
  - destruct (Nat.eqb_spec k' k) as [->|]; [intros [= <-]; now left|discriminate]. Qed.
Lemma nat_assoc_last_None k d : nat_assoc_last k d = None -> ~ In k (map fst d).
Proof. induction d as [|[k' v'] d IH]; cbn [nat_assoc_last map fst]; [intros _ []|].
  destruct (nat_assoc_last k d) as [x|]; [discriminate|].
  destruct (Nat.eqb_spec k' k) as [->|Hn]; [discriminate|]. intros _ [H|H]; [congruence|]. now apply IH. Qed.

(* rmapM *)
Lemma rmapM_Forall2 {A B} (f : A -> result B) l : forall r, rmapM f l = Ok r -> Forall2 (fun a b => f a = Ok b) l r.
Proof. induction l as [|a l IH]; intros r; cbn [rmapM]; [intros [= <-]; constructor|].
  destruct (f a) as [y|] eqn:E; cbn [rbind]; [|discriminate].
  destruct (rmapM f l) as [ys|]; cbn [rbind]; [|discriminate]. intros [= <-]. constructor; [exact E|now apply IH]. Qed.
Lemma rmapM_ok {A B} (f : A -> result B) l : (forall a, In a l -> exists b, f a = Ok b) -> exists r, rmapM f l = Ok r.
Proof. induction l as [|a l IH]; intros H; cbn [rmapM]; [eexists; reflexivity|].
  destruct (H a (or_introl eq_refl)) as [y ->]. cbn [rbind].
  destruct IH as [ys ->]; [intros; apply H; now right|]. cbn [rbind]. eexists; reflexivity. Qed.

Lemma Forall2_nth_error {A B} (R : A -> B -> Prop) l1 l2 : Forall2 R l1 l2 ->
  forall i a, nth_error l1 i = Some a -> exists b, nth_error l2 i = Some b /\ R a b.
Proof. induction 1 as [|x y l1 l2 Hxy H IH]; intros i a Hi; [destruct i; discriminate|].
  destruct i as [|i]; cbn [nth_error] in *; [injection Hi as <-; eauto|]. now apply IH. Qed.
Lemma Forall2_length' {A B} (R : A -> B -> Prop) l1 l2 : Forall2 R l1 l2 -> length l1 = length l2.
Proof. induction 1; cbn [length]; congruence. Qed.
Lemma Forall2_map_l {A B C} (R : C -> B -> Prop) (g : A -> C) l1 l2 :
  Forall2 (fun a b => R (g a) b) l1 l2 -> Forall2 R (map g l1) l2.
Proof. induction 1; cbn [map]; constructor; assumption. Qed.
Lemma Forall2_impl' {A B} (R S : A -> B -> Prop) l1 l2 : (forall a b, In a l1 -> R a b -> S a b) -> Forall2 R l1 l2 -> Forall2 S l1 l2.
Proof. intros H F. induction F as [|x y l1 l2 Hxy F IH]; constructor.
  - apply H; [now left|exact Hxy].
  - apply IH. intros a b Ha. apply H. now right. Qed.
