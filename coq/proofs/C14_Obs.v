(* C14 - pointwise description of interp_obs over exact reals: sample j of the result is the interpolant at
   the j-th new time when that time lies in [first observation, last observation], and the zero row otherwise. *)
From Coq Require Import Reals List Arith Bool Lia Lra Sorted.
Require Import Num C14_Interp C14_Index C14_Grid C14_Lerp C14_Eval.
Import ListNotations.
Local Open Scope R_scope.

Definition zrow (w : nat) : list R := repeat 0 w.
Definition first_x (obs : obsR) : R := fst (nth 0 obs dflt).
Definition last_x (obs : obsR) : R := last (xs_of obs) 0.
(* new_steps >= first_step, and not new_steps > last_step *)
Definition in_span (obs : obsR) (x : R) : bool := inside (Rleb (first_x obs)) (Rltb (last_x obs)) x.
Lemma in_span_iff obs x : in_span obs x = true <-> first_x obs <= x <= last_x obs.
Proof. unfold in_span, inside. rewrite andb_true_iff, negb_true_iff, Rleb_true, Rltb_false. tauto. Qed.

Section Obs.
Variable sp : spline_t.
Variables (new : list R) (w : nat) (k : kind).
Hypothesis Hnew : StronglySorted Rlt new.
Hypothesis Hnew01 : forall j, (j < length new)%nat -> 0 <= nth j new 0 <= 1.

Lemma new_le i j : (i <= j)%nat -> (j < length new)%nat -> nth i new 0 <= nth j new 0.
Proof. intros Hij Hj. destruct (Nat.eq_dec i j) as [->|NE]; [lra|]. left.
  apply (StronglySorted_nth Rlt new 0 Hnew); lia. Qed.
Lemma mono_ge a : mono_along (Rleb a) new.
Proof. intros i j d Hij Hj H.
  rewrite (nth_indep new d 0) by lia. rewrite (nth_indep new d 0) in H by lia. rewrite Rleb_true in *. pose proof (new_le i j Hij Hj). lra. Qed.
Lemma mono_gt a : mono_along (Rltb a) new.
Proof. intros i j d Hij Hj H.
  rewrite (nth_indep new d 0) by lia. rewrite (nth_indep new d 0) in H by lia. rewrite Rltb_true in *. pose proof (new_le i j Hij Hj). lra. Qed.

Variable obs : obsR.
Hypothesis Hsort : StronglySorted Rlt (xs_of obs).

Lemma first_le_last : (1 <= length obs)%nat -> first_x obs <= last_x obs.
Proof. intros H. unfold first_x, last_x. rewrite (xs_last obs). apply (xs_le obs Hsort); lia. Qed.
Lemma l_f_span : (1 <= length obs)%nat -> forall x, Rltb (last_x obs) x = true -> Rleb (first_x obs) x = true.
Proof. intros H x. rewrite Rltb_true, Rleb_true. pose proof (first_le_last H). lra. Qed.

Lemma interp_obs_nil : interp_obs R_ops sp k w new [] = repeat (zrow w) (length new).
Proof. reflexivity. Qed.

(* the branch structure of interp_obs, for a non-empty observation list *)
Lemma interp_obs_cases : (1 <= length obs)%nat ->
  interp_obs R_ops sp k w new obs =
    if Reqb (first_x obs) 0 && Reqb (last_x obs) 1 then f_of R_ops sp k obs new
    else padded (Rleb (first_x obs)) (Rltb (last_x obs)) new (zrow w) (f_of R_ops sp k obs).
Proof. intros H. destruct obs as [|[x0 y0] rest]; [cbn in H; lia|]. reflexivity. Qed.

(* interp1d is only ever evaluated inside its interpolation range: no bounds error to model *)
Lemma no_bounds_error_obs : (1 <= length obs)%nat ->
  forall x, In x (slice (first_index R_ops (first_x obs) new) (last_index R_ops (last_x obs) new) new) ->
    first_x obs <= x <= last_x obs.
Proof. intros H x Hin. apply in_span_iff.
  apply (slice_inside (Rleb (first_x obs)) (Rltb (last_x obs)) new (mono_ge _) (mono_gt _) (l_f_span H)). exact Hin. Qed.

(* two or more observations *)
Section Many.
Hypothesis Hlen : (2 <= length obs)%nat.
Lemma f_of_many l : f_of R_ops sp k obs l = map (eval_f R_ops sp k obs) l.
Proof. destruct obs as [|a [|b rest]]; cbn in Hlen; try lia. destruct a. reflexivity. Qed.
Lemma interp_obs_length_many : length (interp_obs R_ops sp k w new obs) = length new.
Proof. rewrite interp_obs_cases by lia.
  destruct (Reqb (first_x obs) 0 && Reqb (last_x obs) 1).
  - rewrite f_of_many. apply map_length.
  - rewrite (padded_ext _ _ _ _ _ _ f_of_many).
    apply padded_map_length; [apply mono_ge|apply mono_gt|apply l_f_span; lia]. Qed.
Lemma interp_obs_nth_many j : (j < length new)%nat ->
  nth j (interp_obs R_ops sp k w new obs) (zrow w) =
    if in_span obs (nth j new 0) then eval_f R_ops sp k obs (nth j new 0) else zrow w.
Proof. intros Hj. rewrite interp_obs_cases by lia.
  destruct (Reqb (first_x obs) 0 && Reqb (last_x obs) 1) eqn:E.
  - apply andb_true_iff in E. destruct E as [E0 E1]. apply Reqb_true in E0, E1.
    rewrite f_of_many, (nth_map_lt _ _ _ 0) by exact Hj.
    replace (in_span obs (nth j new 0)) with true; [reflexivity|].
    symmetry. apply in_span_iff. rewrite E0, E1. apply Hnew01. exact Hj.
  - rewrite (padded_ext _ _ _ _ _ _ f_of_many).
    apply padded_map_nth; [apply mono_ge|apply mono_gt|apply l_f_span; lia|exact Hj]. Qed.
End Many.

(* exactly one observation (s, y0) *)
Section One.
Variables (s : R) (y0 : list R).
Hypothesis Hone : obs = [(s, y0)].
Lemma one_first_last : first_x obs = s /\ last_x obs = s.
Proof. rewrite Hone. split; reflexivity. Qed.
Lemma in_span_one x : in_span obs x = true <-> x = s.
Proof. rewrite in_span_iff. destruct one_first_last as [-> ->]. lra. Qed.
Lemma uniq_one : forall i j d, (i < length new)%nat -> (j < length new)%nat ->
  inside (Rleb (first_x obs)) (Rltb (last_x obs)) (nth i new d) = true ->
  inside (Rleb (first_x obs)) (Rltb (last_x obs)) (nth j new d) = true -> i = j.
Proof. intros i j d Hi Hj Ha Hb. rewrite (nth_indep new d 0) in Ha by lia. rewrite (nth_indep new d 0) in Hb by lia.
  apply in_span_one in Ha, Hb.
  destruct (lt_eq_lt_dec i j) as [[H|H]|H]; [|exact H|].
  - pose proof (StronglySorted_nth Rlt new 0 Hnew i j H Hj). lra.
  - pose proof (StronglySorted_nth Rlt new 0 Hnew j i H Hi). lra. Qed.
Lemma interp_obs_one :
  interp_obs R_ops sp k w new obs = padded (Rleb (first_x obs)) (Rltb (last_x obs)) new (zrow w) (fun _ => [y0]).
Proof. rewrite interp_obs_cases by (rewrite Hone; cbn; lia).
  destruct one_first_last as [E1 E2].
  replace (Reqb (first_x obs) 0 && Reqb (last_x obs) 1) with false.
  - apply padded_ext. intros l. rewrite Hone. reflexivity.
  - symmetry. apply andb_false_iff. rewrite E1, E2.
    destruct (Req_EM_T s 0) as [->|NE]; [right|left]; apply Reqb_false; lra. Qed.
Lemma interp_obs_length_one : length (interp_obs R_ops sp k w new obs) = length new.
Proof. rewrite interp_obs_one. apply padded_const_length;
    [apply mono_ge|apply mono_gt|apply l_f_span; rewrite Hone; cbn; lia|exact uniq_one]. Qed.
Lemma interp_obs_nth_one j : (j < length new)%nat ->
  nth j (interp_obs R_ops sp k w new obs) (zrow w) = if in_span obs (nth j new 0) then y0 else zrow w.
Proof. intros Hj. rewrite interp_obs_one. apply padded_const_nth;
    [apply mono_ge|apply mono_gt|apply l_f_span; rewrite Hone; cbn; lia|exact uniq_one|exact Hj]. Qed.
End One.

Lemma interp_obs_length : length (interp_obs R_ops sp k w new obs) = length new.
Proof. destruct obs as [|[s y0] [|b rest]] eqn:E.
  - cbn. apply repeat_length.
  - rewrite <- E in *. apply (interp_obs_length_one s y0 E).
  - rewrite <- E in *. apply interp_obs_length_many. rewrite E. cbn; lia. Qed.
End Obs.
