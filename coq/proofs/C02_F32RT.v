(* C02: widening a float32 word to binary64 and rounding it back is the identity on every word that is not a
   NaN (and gives the canonical quiet NaN on NaNs).  Proved from the definitions of base/F32.v and Coq's SpecFloat
   for ALL 2^32 words (no sweep): binary_round is exact on a value that already fits the target format. *)
From Coq Require Import ZArith NArith PArith List Lia ZifyBool ZifyN ZifyNat Bool SpecFloat.
Require Import F32.
Ltac Zify.zify_post_hook ::= Z.div_mod_to_equations.
Open Scope Z_scope.

(* ---------- iteration, digits, shifts ---------- *)
Lemma iter_pos_iter {A} (f : A -> A) n : forall x, iter_pos f n x = Pos.iter f x n.
Proof.
  induction n as [n IH|n IH|]; intros x; cbn [iter_pos Pos.iter].
  - rewrite !IH. now rewrite !Pos.iter_swap.
  - now rewrite !IH.
  - reflexivity.
Qed.
Lemma digits_shift m j : digits2_pos (shift_pos j m) = (digits2_pos m + j)%positive.
Proof.
  unfold shift_pos. induction j as [|j IH] using Pos.peano_ind.
  - cbn [Pos.iter digits2_pos]. lia.
  - rewrite Pos.iter_succ. cbn [digits2_pos]. rewrite IH. lia.
Qed.
Lemma shr_shift m j :
  iter_pos shr_1 j {| shr_m := Zpos (shift_pos j m); shr_r := false; shr_s := false |}
  = {| shr_m := Zpos m; shr_r := false; shr_s := false |}.
Proof.
  rewrite iter_pos_iter. unfold shift_pos. induction j as [|j IH] using Pos.peano_ind.
  - reflexivity.
  - rewrite (Pos.iter_succ _ _ xO). rewrite Pos.iter_succ, <- Pos.iter_swap. cbn [shr_1 orb]. exact IH.
Qed.
Lemma digits_lt_pow p : forall n : nat, Zpos p < 2 ^ Z.of_nat n -> (Pos.to_nat (digits2_pos p) <= n)%nat.
Proof.
  induction p as [p IH|p IH|]; intros [|n] H; cbn [digits2_pos].
  - cbn in H. lia.
  - rewrite Nat2Z.inj_succ, Z.pow_succ_r in H by lia. specialize (IH n). lia.
  - cbn in H. lia.
  - rewrite Nat2Z.inj_succ, Z.pow_succ_r in H by lia. specialize (IH n). lia.
  - cbn in H. lia.
  - lia.
Qed.
Lemma digits_ge_pow p : forall n : nat, 2 ^ Z.of_nat n <= Zpos p -> (n < Pos.to_nat (digits2_pos p))%nat.
Proof.
  induction p as [p IH|p IH|]; intros [|n] H; cbn [digits2_pos]; try lia.
  - rewrite Nat2Z.inj_succ, Z.pow_succ_r in H by lia. specialize (IH n). lia.
  - rewrite Nat2Z.inj_succ, Z.pow_succ_r in H by lia. specialize (IH n). lia.
  - rewrite Nat2Z.inj_succ, Z.pow_succ_r in H by lia. pose proof (Z.pow_pos_nonneg 2 (Z.of_nat n)). lia.
Qed.

(* ---------- binary_round is exact on representable values ---------- *)
Section Exact.
Variables prec emax : Z.
Lemma bounded_inv m e : bounded prec emax m e = true -> fexp prec emax (Zpos (digits2_pos m) + e) = e /\ e <= emax - prec.
Proof. unfold bounded, canonical_mantissa. intros H. apply andb_true_iff in H. destruct H as [H1 H2].
  apply Zeq_bool_eq in H1. apply Z.leb_le in H2. now split. Qed.
Lemma round_aux_exact s m e : bounded prec emax m e = true ->
  binary_round_aux prec emax s (Zpos m) e loc_Exact = S754_finite s m e.
Proof.
  intros H. destruct (bounded_inv m e H) as [Hf He].
  unfold binary_round_aux, shr_fexp. cbn [Zdigits2 shr_record_of_loc]. rewrite Hf, Z.sub_diag.
  cbn [shr shr_m loc_of_shr_record round_nearest_even Zdigits2]. rewrite Hf, Z.sub_diag. cbn [shr shr_m shr_record_of_loc].
  apply Z.leb_le in He. now rewrite He.
Qed.
(* the value is given with fewer digits: it is shifted left *)
Lemma binary_round_exact_l s m e j : bounded prec emax (shift_pos j m) (e - Zpos j) = true ->
  binary_round prec emax s m e = S754_finite s (shift_pos j m) (e - Zpos j).
Proof.
  intros H. destruct (bounded_inv _ _ H) as [Hf He]. rewrite digits_shift in Hf.
  unfold binary_round.
  replace (Zpos (digits2_pos m) + e) with (Zpos (digits2_pos m + j) + (e - Zpos j)) by lia. rewrite Hf.
  unfold shl_align. replace (e - Zpos j - e) with (Zneg j) by lia. now apply round_aux_exact.
Qed.
(* the value is given with more (trailing zero) digits: they are shifted out exactly *)
Lemma binary_round_exact_r s m e j : bounded prec emax m e = true ->
  binary_round prec emax s (shift_pos j m) (e - Zpos j) = S754_finite s m e.
Proof.
  intros H. destruct (bounded_inv _ _ H) as [Hf He].
  unfold binary_round. rewrite digits_shift.
  replace (Zpos (digits2_pos m + j) + (e - Zpos j)) with (Zpos (digits2_pos m) + e) by lia. rewrite Hf.
  unfold shl_align. replace (e - (e - Zpos j)) with (Zpos j) by lia.
  unfold binary_round_aux, shr_fexp. cbn [Zdigits2 shr_record_of_loc]. rewrite digits_shift.
  replace (Zpos (digits2_pos m + j) + (e - Zpos j)) with (Zpos (digits2_pos m) + e) by lia. rewrite Hf.
  replace (e - (e - Zpos j)) with (Zpos j) by lia. cbn [shr]. rewrite shr_shift.
  replace (e - Zpos j + Zpos j) with e by lia.
  cbn [shr_m loc_of_shr_record round_nearest_even Zdigits2]. rewrite Hf, Z.sub_diag. cbn [shr shr_m shr_record_of_loc].
  apply Z.leb_le in He. now rewrite He.
Qed.
End Exact.

(* ---------- words ---------- *)
Open Scope N_scope.
Lemma digits_53_bounds M : digits2_pos M = 53%positive -> 4503599627370496 <= N.pos M < 9007199254740992.
Proof.
  intros H. split.
  - destruct (N.lt_ge_cases (N.pos M) 4503599627370496) as [Hlt|]; [|assumption]. exfalso.
    pose proof (digits_lt_pow M 52) as HL. rewrite H in HL. change (2 ^ Z.of_nat 52)%Z with 4503599627370496%Z in HL. lia.
  - destruct (N.lt_ge_cases (N.pos M) 9007199254740992) as [|Hge]; [assumption|]. exfalso.
    pose proof (digits_ge_pow M 53) as HL. rewrite H in HL. change (2 ^ Z.of_nat 53)%Z with 9007199254740992%Z in HL. lia.
Qed.
(* binary64 words of normal numbers decode to the number they encode *)
Lemma b64_rt s M E : 4503599627370496 <= N.pos M < 9007199254740992 -> (-1074 <= E <= 971)%Z ->
  sf_of_b64 (b64_of_sf (S754_finite s M E)) = S754_finite s M E.
Proof.
  intros HM HE. unfold b64_of_sf. destruct (N.ltb_spec (N.pos M) 4503599627370496) as [|_]; [lia|].
  set (w := sbit s 9223372036854775808 + Z.to_N (E + 1075) * 4503599627370496 + (N.pos M - 4503599627370496)).
  assert (Hs : N.testbit w 63 = s).
  { rewrite N.testbit_eqb. change (2 ^ 63) with 9223372036854775808. subst w. destruct s; cbn [sbit]; lia. }
  assert (He : (w / 4503599627370496) mod 2048 = Z.to_N (E + 1075)) by (subst w; destruct s; cbn [sbit]; lia).
  assert (Hm : w mod 4503599627370496 = N.pos M - 4503599627370496) by (subst w; destruct s; cbn [sbit]; lia).
  unfold sf_of_b64. cbv zeta. rewrite Hs, He, Hm.
  destruct (N.eqb_spec (Z.to_N (E + 1075)) 0) as [|_]; [lia|].
  destruct (N.eqb_spec (Z.to_N (E + 1075)) 2047) as [|_]; [lia|].
  replace (N.pos M - 4503599627370496 + 4503599627370496) with (N.pos M) by lia.
  f_equal. lia.
Qed.

Lemma bounded32_inv m e : bounded 24 128 m e = true ->
  (Z.pos (digits2_pos m) <= 24 /\ -149 <= e <= 104 /\ (Z.pos (digits2_pos m) = 24 \/ e = -149))%Z.
Proof. intros H. apply bounded_inv in H. unfold fexp, emin in H. lia. Qed.
Lemma bounded_intro prec emax m e : fexp prec emax (Zpos (digits2_pos m) + e) = e -> (e <= emax - prec)%Z -> bounded prec emax m e = true.
Proof. intros H1 H2. unfold bounded, canonical_mantissa. apply andb_true_iff. split; [now apply Zeq_is_eq_bool|now apply Z.leb_le]. Qed.

(* a finite binary32 value: widened to binary64, stored as a word, loaded, rounded back to binary32 *)
Lemma finite_widen_narrow s m e : bounded 24 128 m e = true ->
  exists M E, sf_of_b64 (b64_of_sf (binary_round 53 1024 s m e)) = S754_finite s M E /\
              round32 (S754_finite s M E) = S754_finite s m e.
Proof.
  intros H. destruct (bounded32_inv m e H) as [Hd [He Hc]].
  set (j := (53 - digits2_pos m)%positive).
  assert (Hj : Zpos j = (53 - Zpos (digits2_pos m))%Z) by lia.
  assert (Hdj : digits2_pos (shift_pos j m) = 53%positive) by (rewrite digits_shift; lia).
  assert (HB : bounded 53 1024 (shift_pos j m) (e - Zpos j) = true).
  { apply bounded_intro; [|lia]. rewrite Hdj. unfold fexp, emin. lia. }
  exists (shift_pos j m), (e - Zpos j)%Z. split.
  - rewrite (binary_round_exact_l 53 1024 s m e j HB). apply b64_rt; [now apply digits_53_bounds|lia].
  - cbn [round32]. now apply binary_round_exact_r.
Qed.

(* the three fields of a 32-bit word *)
Lemma word_fields w : w < 4294967296 ->
  w = sbit (N.testbit w 31) 2147483648 + (w / 8388608) mod 256 * 8388608 + w mod 8388608.
Proof. intros H. rewrite N.testbit_eqb. change (2 ^ 31) with 2147483648.
  destruct (N.eqb_spec ((w / 2147483648) mod 2) 1); cbn [sbit]; lia. Qed.

Definition wn_spec (w : N) (x : spec_float) : Prop :=
  w32 (b32_of_sf (round32 x)) = canon_nan32 w /\ is_finite_sf x && negb (is_finite_sf (round32 x)) = false.

Lemma finite_case s m e w : bounded 24 128 m e = true -> w < 4294967296 -> b32_of_sf (S754_finite s m e) = w ->
  is_nan32 w = false -> wn_spec w (sf_of_b64 (b64_of_sf (binary_round 53 1024 s m e))).
Proof.
  intros HB Hw Hb Hn. destruct (finite_widen_narrow s m e HB) as [M [E [H1 H2]]]. rewrite H1. unfold wn_spec. rewrite H2.
  split; [|reflexivity]. rewrite Hb. unfold canon_nan32. rewrite Hn. unfold w32. now apply N.mod_small.
Qed.

(* every 32-bit word: widen (f32_to_f64), load the binary64 word, round to binary32, store *)
Lemma widen_narrow w : w < 4294967296 -> wn_spec w (sf_of_b64 (f32_to_f64 w)).
Proof.
  intros Hw. pose proof (word_fields w Hw) as HW.
  unfold f32_to_f64, sf_of_b32. cbv zeta.
  set (s := N.testbit w 31) in *. set (eb := (w / 8388608) mod 256) in *. set (mb := w mod 8388608) in *.
  assert (Heb : eb < 256) by (subst eb; lia). assert (Hmb : mb < 8388608) by (subst mb; lia).
  assert (Hnan : is_nan32 w = (eb =? 255) && negb (mb =? 0)).
  { unfold is_nan32. rewrite HW at 1. destruct s; cbn [sbit]; lia. }
  clearbody s eb mb.
  destruct (N.eqb_spec eb 0) as [He0|He0].
  - destruct mb as [|p] eqn:Emb.
    + (* zeros *) subst eb. cbn [N.mul N.add] in HW. rewrite N.add_0_r in HW. subst w. destruct s; vm_compute; auto.
    + (* subnormal numbers *)
      apply finite_case; [|exact Hw| |rewrite Hnan; subst eb; reflexivity].
      * apply bounded_intro; [|lia]. pose proof (digits_lt_pow p 24) as HL.
        change (2 ^ Z.of_nat 24)%Z with 16777216%Z in HL. unfold fexp, emin. lia.
      * unfold b32_of_sf. destruct (N.ltb_spec (N.pos p) 8388608) as [_|]; [|lia]. rewrite HW. subst eb. lia.
  - destruct (N.eqb_spec eb 255) as [He1|He1].
    + destruct mb as [|p] eqn:Emb.
      * (* infinities *) subst eb. cbn [N.mul N.add] in HW. rewrite N.add_0_r in HW. subst w. destruct s; vm_compute; auto.
      * (* NaNs *) unfold wn_spec, canon_nan32. rewrite Hnan. subst eb. cbn [N.eqb Pos.eqb negb andb]. vm_compute. auto.
    + (* normal numbers *)
      destruct (mb + 8388608) as [|p] eqn:Ep; [lia|].
      apply finite_case; [|exact Hw| |rewrite Hnan; destruct (N.eqb_spec eb 255); [contradiction|reflexivity]].
      * pose proof (digits_lt_pow p 24) as HL. pose proof (digits_ge_pow p 23) as HG.
        change (2 ^ Z.of_nat 24)%Z with 16777216%Z in HL. change (2 ^ Z.of_nat 23)%Z with 8388608%Z in HG.
        apply bounded_intro; [|lia]. unfold fexp, emin. lia.
      * unfold b32_of_sf. destruct (N.ltb_spec (N.pos p) 8388608) as [|_]; [lia|]. rewrite HW. lia.
Qed.

(* ---------- the statements used by the codec ---------- *)
Theorem f32_widen_narrow w : w < 4294967296 -> f64_to_f32 (f32_to_f64 w) = canon_nan32 w.
Proof. intros H. exact (proj1 (widen_narrow w H)). Qed.
Theorem f32_widen_pack w : w < 4294967296 -> pack_f32 (f32_to_f64 w) = Some (canon_nan32 w).
Proof. intros H. destruct (widen_narrow w H) as [H1 H2]. unfold pack_f32. cbv zeta. rewrite H2. now rewrite H1. Qed.
Corollary f32_widen_narrow_id w : w < 4294967296 -> is_nan32 w = false -> f64_to_f32 (f32_to_f64 w) = w.
Proof. intros H Hn. rewrite (f32_widen_narrow w H). unfold canon_nan32. now rewrite Hn. Qed.
Theorem f32_widen_both w : w < 4294967296 ->
  f64_to_f32 (f32_to_f64 w) = canon_nan32 w /\ pack_f32 (f32_to_f64 w) = Some (canon_nan32 w).
Proof. intros H. split; [now apply f32_widen_narrow|now apply f32_widen_pack]. Qed.
