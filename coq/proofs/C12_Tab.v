(* C12 - tabulated tensors: cells, shapes, bounded quantifiers. *)
From Coq Require Import List Arith Bool Lia.
Require Import Result Tensor C12_Model.
Import ListNotations.

Lemma nth_map_seq {X} (h : nat -> X) n k d : k < n -> nth k (map h (seq 0 n)) d = h k.
Proof.
  intros Hk. rewrite (nth_indep _ d (h 0)) by (rewrite map_length, seq_length; exact Hk).
  rewrite (map_nth h (seq 0 n) 0 k). now rewrite seq_nth.
Qed.

Lemma tab_shape {X} ns (g : list nat -> X) : shape (tab ns g) = ns.
Proof. reflexivity. Qed.
Lemma tab_wf {X} ns (g : list nat -> X) : wf (tab ns g).
Proof. unfold wf, tab; cbn. now rewrite map_length, seq_length. Qed.
Lemma tget_tab {X} (d : X) ns g ix : in_range ns ix -> tget d (tab ns g) ix = g ix.
Proof.
  intros Hr. unfold tget, tab; cbn [shape data].
  rewrite nth_map_seq by (apply ravel_lt; exact Hr).
  now rewrite unravel_ravel.
Qed.

Lemma in_range4 F P T D f p t d : f < F -> p < P -> t < T -> d < D -> in_range [F; P; T; D] [f; p; t; d].
Proof. intros; unfold in_range; repeat constructor; assumption. Qed.
Lemma in_range3 F P T f p t : f < F -> p < P -> t < T -> in_range [F; P; T] [f; p; t].
Proof. intros; unfold in_range; repeat constructor; assumption. Qed.

Lemma get4_tab4 F P T D g f p t d : f < F -> p < P -> t < T -> d < D -> get4 (tab4 F P T D g) f p t d = g f p t d.
Proof. intros. unfold get4, tab4. rewrite tget_tab by (apply in_range4; assumption). reflexivity. Qed.
Lemma get3_tab3 F P T g f p t : f < F -> p < P -> t < T -> get3 (tab3 F P T g) f p t = g f p t.
Proof. intros. unfold get3, tab3. rewrite tget_tab by (apply in_range3; assumption). reflexivity. Qed.
Lemma tab4_shape F P T D g : shape (tab4 F P T D g) = [F; P; T; D]. Proof. reflexivity. Qed.
Lemma tab3_shape F P T g : shape (tab3 F P T g) = [F; P; T]. Proof. reflexivity. Qed.
Lemma tab4_wf F P T D g : wf (tab4 F P T D g). Proof. apply tab_wf. Qed.
Lemma tab3_wf F P T g : wf (tab3 F P T g). Proof. apply tab_wf. Qed.

(* bounded quantifiers *)
Lemma all_lt_spec n g : all_lt n g = true <-> (forall i, i < n -> g i = true).
Proof.
  unfold all_lt. rewrite forallb_forall. split.
  - intros H i Hi. apply H. apply in_seq. lia.
  - intros H i Hi. apply in_seq in Hi. apply H. lia.
Qed.
Lemma all_lt_false n g i : i < n -> g i = false -> all_lt n g = false.
Proof.
  intros Hi Hg. destruct (all_lt n g) eqn:E; [|reflexivity].
  rewrite all_lt_spec in E. rewrite (E i Hi) in Hg. discriminate.
Qed.
Lemma all_lt_const n g b : 0 < n -> (forall i, i < n -> g i = b) -> all_lt n g = b.
Proof.
  intros Hn H. destruct b.
  - apply all_lt_spec. exact H.
  - apply (all_lt_false n g 0 Hn). apply H. exact Hn.
Qed.
Lemma all_lt_ext n g h : (forall i, i < n -> g i = h i) -> all_lt n g = all_lt n h.
Proof.
  intros H. unfold all_lt. induction (seq 0 n) as [|x l IH] eqn:E in H |- *.
  - reflexivity.
  - assert (Hin : forall y, In y (x :: l) -> y < n) by (intros y Hy; rewrite <- E in Hy; apply in_seq in Hy; lia).
    clear E. revert Hin. induction (x :: l) as [|y r IHr]; intros Hin; [reflexivity|].
    cbn [forallb]. rewrite H by (apply Hin; left; reflexivity). f_equal. apply IHr. intros z Hz. apply Hin. right. exact Hz.
Qed.
Lemma ex_lt_spec n g : ex_lt n g = true <-> (exists i, i < n /\ g i = true).
Proof.
  unfold ex_lt. rewrite existsb_exists. split.
  - intros [i [Hi Hg]]. apply in_seq in Hi. exists i. split; [lia|exact Hg].
  - intros [i [Hi Hg]]. exists i. split; [apply in_seq; lia|exact Hg].
Qed.
Lemma ex_lt_none n g : (forall i, i < n -> g i = false) -> ex_lt n g = false.
Proof.
  intros H. destruct (ex_lt n g) eqn:E; [|reflexivity].
  apply ex_lt_spec in E. destruct E as [i [Hi Hg]]. rewrite (H i Hi) in Hg. discriminate.
Qed.
Lemma forallb_seq_ext (g h : nat -> bool) o n : (forall i, o <= i < o + n -> g i = h i) -> forallb g (seq o n) = forallb h (seq o n).
Proof.
  revert o. induction n as [|n IH]; intros o H; [reflexivity|]. cbn [seq forallb].
  rewrite H by lia. f_equal. apply IH. intros i Hi. apply H. lia.
Qed.

(* result plumbing *)
Lemma rbind_ok {A B} (r : result A) (k : A -> result B) y : rbind r k = Ok y -> exists x, r = Ok x /\ k x = Ok y.
Proof. destruct r as [a|e]; cbn; [intros H; exists a; split; [reflexivity|exact H]|discriminate]. Qed.
Lemma rmapM_ok {A B} (f : A -> result B) l l' : rmapM f l = Ok l' -> Forall2 (fun x y => f x = Ok y) l l'.
Proof.
  revert l'. induction l as [|x r IH]; intros l' H; cbn [rmapM] in H.
  - inversion H. constructor.
  - apply rbind_ok in H. destruct H as [y [Hy H]]. apply rbind_ok in H. destruct H as [ys [Hys H]].
    inversion H; subst. constructor; [exact Hy|apply IH; exact Hys].
Qed.
Lemma Forall2_length' {A B} (R : A -> B -> Prop) l l' : Forall2 R l l' -> length l = length l'.
Proof. induction 1; cbn; congruence. Qed.
Lemma Forall2_nth' {A B} (R : A -> B -> Prop) l l' da db j : Forall2 R l l' -> j < length l' -> R (nth j l da) (nth j l' db).
Proof.
  intros H. revert j. induction H as [|x y l l' Hxy H IH]; intros j Hj; cbn in Hj; [lia|].
  destruct j; cbn; [exact Hxy|apply IH; lia].
Qed.
