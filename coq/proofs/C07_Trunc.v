(* C07, stream clause: a windowed stream read of a proper prefix of a written file either raises or returns
   exactly what the intact file returns for that window. *)
From Coq Require Import ZArith NArith List Lia ZifyBool ZifyN ZifyNat Bool.
Require Import ListN Result Bytes Utf8 Utf8S F32 Prog Codec ProgLemmas CodecRT PoseRead PoseReadLemmas StreamLemmas WindowLemmas StreamRead C03_Window.
Import ListNotations.
Open Scope N_scope.

Section WithLegacy.
Variable legacy : vclass -> header -> rargs -> prog body.

Theorem read_stream_prefix m p bs q s a ws we :
  MemoOK m -> write_pose p = Ok bs -> wf_arrays p -> 1 <= nth 3 (w_shape p) 0 ->
  bs = q ++ s -> any_arg a = true ->
  conflict (a_sf a) (a_st a) = false -> conflict (a_ef a) (a_et a) = false ->
  resolve_start (fps_word p) (a_sf a) (a_st a) = Ok ws -> resolve_end (fps_word p) (a_ef a) (a_et a) = Ok we ->
  valid_window p ws we ->
  match fst (fst (read_stream legacy m q a)) with
  | Ok pose => pose = window_pose p ws we
  | Err _ => True
  end.
Proof.
  intros Hm H Hwf HD Hq Ha Hc1 Hc2 Hrs Hre [Hv1 Hv2].
  destruct (write_pose_ok _ _ H) as [F [P [T [D [h [b [Hs [Hcs [Hnd [Htp [Hh [Hb Hbs]]]]]]]]]]]].
  unfold frames_of in *. rewrite Hs in HD, Hv1, Hv2. cbn [nth] in HD, Hv1, Hv2.
  pose proof (header_of_written p bs h b Hh Hbs) as Hhead.
  pose proof (read_body_window_rt p b F P T D _ _ _ _ ws we Hs Hcs Hwf Hnd Htp HD Hb Hc1 Hc2 Hrs Hre Hv1 Hv2 h []) as Hbody.
  rewrite app_nil_r, <- Hbs in Hbody.
  pose proof (read_body_dispatch legacy p a) as Hdisp.
  assert (Hwp : window_pose p ws we =
                {| p_header := canon_header p;
                   p_body := window_body (canon_body p) (start0 ws) (end0 we (Z.of_N F)) |})
    by (unfold window_pose, frames_of; rewrite Hs; reflexivity).
  unfold read_stream. rewrite Ha. cbn [negb].
  destruct (expect q (prefetch_len m) _) as [r1|e] eqn:Hex; [|exact I].
  destruct (prefetch_sim q s m r1 Hex) as [HS [_ [_ Hbuf]]]. rewrite <- Hq in HS.
  destruct (check_cache m (buf r1)) as [c|] eqn:Hc.
  - (* hit on the prefetched bytes: they start with the memoised slice, so does the intact file *)
    destruct (check_cache_hit m (buf r1) c Hm Hc) as [_ Hrun].
    assert (Hbsx : exists x, bs = buf r1 ++ x).
    { exists (dropN (prefetch_len m) q ++ s). rewrite Hbuf, app_assoc, take_drop_split. exact Hq. }
    destruct Hbsx as [x Hx].
    pose proof (run_plain_ext _ noBL_rd_header (buf r1) x 0 _ _ Hrun) as Hrun2. rewrite <- Hx, Hhead in Hrun2.
    injection Hrun2 as Hhd Hend.
    assert (HS2 : Sim q s {| pbuf := bs; poff := m_end c |}
                      {| buf := buf r1; off := m_end c; skipped := skipped r1; pulled := pulled r1 |}).
    { destruct HS as [_ [Ho HI]]. cbn [poff] in Ho.
      unfold Sim; cbn [pbuf poff off]. split; [exact Hq|]. split; [reflexivity|].
      destruct HI as [Hso [j [Hj [Hi Heq]]]].
      assert (Hsk : skipped r1 = 0) by lia. assert (Hj0 : j = 0) by lia. subst j.
      unfold Inv; cbn [buf off skipped]. rewrite Hsk in *. split; [lia|]. exists 0. split; [lia|]. split; [|exact Heq].
      pose proof (run_plain_bound _ noSkip_rd_header _ _ _ _ Hrun). lia. }
    rewrite <- Hhd, Hdisp. rewrite Hend in Hbody.
    pose proof (sim_fwd q s _ (v2prog_read_v0_2 _ _ _ _ _) _ _ _ _ HS2 Hbody) as Hsim.
    destruct (run_stream q (read_v0_2 _ _ _ _ _) _) as [[b' sr']|e]; [|exact I].
    destruct Hsim as [<- _]. cbn [fst]. symmetry. exact Hwp.
  - pose proof (sim_fwd q s _ v2prog_rd_header _ _ _ _ HS Hhead) as Hsim1.
    destruct (run_stream q rd_header r1) as [[h' r2]|e]; [|exact I].
    destruct Hsim1 as [<- [HS2 _]]. rewrite Hdisp.
    pose proof (sim_fwd q s _ (v2prog_read_v0_2 _ _ _ _ _) _ _ _ _ HS2 Hbody) as Hsim2.
    destruct (run_stream q (read_v0_2 _ _ _ _ _) r2) as [[b' sr']|e]; [|exact I].
    destruct Hsim2 as [<- _]. cbn [fst]. symmetry. exact Hwp.
Qed.
End WithLegacy.
