(* Tie between the regenerated facts of the source (coq/gen/Gen_C04.v, produced on every run by
   harness/translate_c04.py from /repo) and the literals model/C04_Legacy.v was transcribed from: the statement
   sequences and signatures of the two legacy decoders, the version dispatch, and the reader methods they alone use
   (bytes_remaining of both readers, advance).  The literals are those of the source WITH the repairs
   F4i (bytes_remaining), F4iii (confidence != 0), F4v (zero frames) and F4ii (both decoders take the four window
   arguments); on a tree without them these lemmas fail. *)
From Coq Require Import String List ZArith NArith.
Require Gen_C04.
Import ListNotations.
Open Scope string_scope.

Definition exp_read_v0_1_signature : string :=
 "cls, header: PoseHeader, reader: BufferReader, start_frame: Optional[int]=None, end_frame: Optional[int]=None, start_time: Optional[int]=None, end_time: Optional[int]=None, **unused_kwargs".
Lemma read_v0_1_signature_tie : Gen_C04.read_v0_1_signature = exp_read_v0_1_signature.
Proof. reflexivity. Qed.

Definition exp_read_v0_1_body : list string :=
  [ "if start_time is not None and start_frame is not None:
    raise ValueError('Cannot specify both start_time and start_frame')";
    "if end_time is not None and end_frame is not None:
    raise ValueError('Cannot specify both end_time and end_frame')";
    "fps, _frames = reader.unpack(ConstStructs.double_ushort)";
    "_people = reader.unpack(ConstStructs.ushort)";
    "_points = sum((len(c.points) for c in header.components))";
    "_dims = header.num_dims()";
    "_frames = int(reader.bytes_remaining() / (_people * _points * (_dims + 1) * 4))";
    "if start_time is not None:
    start_frame = math.floor(start_time / 1000 * fps)";
    "if end_time is not None:
    end_frame = math.ceil(end_time / 1000 * fps)";
    "data = cls.read_v0_1_frames(_frames, (_people, _points, _dims), reader, start_frame, end_frame)";
    "confidence = cls.read_v0_1_frames(_frames, (_people, _points), reader, start_frame, end_frame)";
    "return cls(fps, data, confidence)" ].
Lemma read_v0_1_body_tie : Gen_C04.read_v0_1_body = exp_read_v0_1_body.
Proof. reflexivity. Qed.

Definition exp_read_dispatch : list string :=
  [ "if header.version == 0:
    return cls.read_v0_0(header, reader, **kwargs)";
    "if round(header.version, 3) == 0.1:
    return cls.read_v0_1(header, reader, **kwargs)";
    "if round(header.version, 3) == 0.2:
    return cls.read_v0_2(header, reader, **kwargs)";
    "raise NotImplementedError('Unknown version - %f' % header.version)" ].
Lemma read_dispatch_tie : Gen_C04.read_dispatch = exp_read_dispatch.
Proof. reflexivity. Qed.

Definition exp_read_v0_0_signature : string :=
 "cls, header: PoseHeader, reader: BufferReader, start_frame: Optional[int]=None, end_frame: Optional[int]=None, start_time: Optional[int]=None, end_time: Optional[int]=None, **unused_kwargs".
Lemma read_v0_0_signature_tie : Gen_C04.read_v0_0_signature = exp_read_v0_0_signature.
Proof. reflexivity. Qed.

Definition exp_read_v0_0_body : list string :=
  [ "if start_time is not None and start_frame is not None:
    raise ValueError('Cannot specify both start_time and start_frame')";
    "if end_time is not None and end_frame is not None:
    raise ValueError('Cannot specify both end_time and end_frame')";
    "fps, _frames = reader.unpack(ConstStructs.double_ushort)";
    "if start_time is not None:
    start_frame = math.floor(start_time / 1000 * fps)";
    "if end_time is not None:
    end_frame = math.ceil(end_time / 1000 * fps)";
    "if start_frame is not None and start_frame > 0 and (start_frame >= _frames):
    raise ValueError(f'Start frame {start_frame} is greater than the number of frames {_frames}')";
    "window = slice(max(start_frame or 0, 0), None if end_frame is None else max(end_frame, 0))";
    "_dims = max([len(c.format) for c in header.components]) - 1";
    "_points = sum([len(c.points) for c in header.components])";
    "frames_d = []";
    "frames_c = []";
    "for _ in range(_frames):
    _people = reader.unpack(ConstStructs.ushort)
    people_d = []
    people_c = []
    for pid in range(_people):
        reader.advance(ConstStructs.short)
        person_d = []
        person_c = []
        for component in header.components:
            points = np.array(reader.unpack_numpy(ConstStructs.float, (len(component.points), len(component.format))))
            dimensions, confidence = np.split(points, [-1], axis=1)
            boolean_confidence = np.where(confidence != 0, 0, 1)
            mask = np.column_stack(tuple([boolean_confidence] * (len(component.format) - 1)))
            person_d.append(ma.masked_array(dimensions, mask=mask))
            person_c.append(np.squeeze(confidence, axis=-1))
        if pid == 0:
            people_d.append(ma.concatenate(person_d))
            people_c.append(np.concatenate(person_c))
    if len(people_d) == 0:
        people_d.append(np.zeros((_points, _dims)))
        people_c.append(np.zeros(_points))
    frames_d.append(ma.stack(people_d))
    frames_c.append(np.stack(people_c))";
    "frames_d, frames_c = (frames_d[window], frames_c[window])";
    "if len(frames_d) == 0:
    return cls(fps, np.zeros((0, 1, _points, _dims)), np.zeros((0, 1, _points)))";
    "return cls(fps, ma.stack(frames_d), ma.stack(frames_c))" ].
Lemma read_v0_0_body_tie : Gen_C04.read_v0_0_body = exp_read_v0_0_body.
Proof. reflexivity. Qed.

Definition exp_reader_bytes_left : list string :=
  [ "return len(self.buffer) - self.read_offset + self.read_skipped" ].
Lemma reader_bytes_left_tie : Gen_C04.reader_bytes_left = exp_reader_bytes_left.
Proof. reflexivity. Qed.

Definition exp_reader_bytes_remaining : list string :=
  [ "return self.bytes_left()" ].
Lemma reader_bytes_remaining_tie : Gen_C04.reader_bytes_remaining = exp_reader_bytes_remaining.
Proof. reflexivity. Qed.

Definition exp_stream_reader_bytes_remaining : list string :=
  [ "return self.reader.seek(0, 2) - self.read_offset" ].
Lemma stream_reader_bytes_remaining_tie : Gen_C04.stream_reader_bytes_remaining = exp_stream_reader_bytes_remaining.
Proof. reflexivity. Qed.

Definition exp_reader_advance : list string :=
  [ "self.read_offset += s.size * times" ].
Lemma reader_advance_tie : Gen_C04.reader_advance = exp_reader_advance.
Proof. reflexivity. Qed.

Definition exp_stream_reader_methods : list string :=
  [ "__init__";
    "bytes_remaining";
    "expect_to_read";
    "read_chunk";
    "skip" ].
Lemma stream_reader_methods_tie : Gen_C04.stream_reader_methods = exp_stream_reader_methods.
Proof. reflexivity. Qed.
