(* Tie between the class structure of pose_format regenerated on every run (coq/gen/Gen_Classes.v, produced by
   harness/translate_classes.py) and the structure the hand-written models were transcribed under: which methods each
   subclass OVERRIDES, and which classes define attribute hooks.  A model transcribes a method from the class that defines
   it; an override added to a subclass, or a new __getattr__ / __getattribute__ / __setattr__ anywhere, changes which code
   runs without touching any transcribed statement list - these lemmas (by [reflexivity]) turn that into a broken proof
   obligation of every property that depends on the class.  A new method that shadows nothing leaves the tables unchanged. *)
From Coq Require Import String List.
Require Gen_Classes.
Import ListNotations.
Open Scope string_scope.

Fixpoint assoc {A} (k : string) (l : list (string * A)) : option A :=
  match l with [] => None | (k', v) :: r => if String.eqb k k' then Some v else assoc k r end.

(* the three body classes over PoseBody *)
Definition exp_over_numpy_body : list string * list string :=
  (["pose_body.py::PoseBody"],
   ["__init__"; "read_v0_0"; "write"; "copy"; "torch"; "tensorflow"; "zero_filled"; "matmul"; "points_perspective"; "get_points"; "bbox"; "flatten"]).
(* the methods of NumPyPoseBody that also exist in one of its package-level ancestors, in the current source *)
Definition over_numpy_body : option (list string * list string) := assoc "numpy/pose_body.py::NumPyPoseBody" Gen_Classes.overrides.
Lemma over_numpy_body_tie : over_numpy_body = Some exp_over_numpy_body.
Proof. reflexivity. Qed.
Definition exp_over_torch_body : list string * list string :=
  (["pose_body.py::PoseBody"], ["__init__"; "copy"; "zero_filled"; "matmul"; "points_perspective"; "get_points"; "flatten"]).
(* the methods of TorchPoseBody that also exist in one of its package-level ancestors, in the current source *)
Definition over_torch_body : option (list string * list string) := assoc "torch/pose_body.py::TorchPoseBody" Gen_Classes.overrides.
Lemma over_torch_body_tie : over_torch_body = Some exp_over_torch_body.
Proof. reflexivity. Qed.
Definition exp_over_tf_body : list string * list string :=
  (["pose_body.py::PoseBody"],
   ["__init__"; "zero_filled"; "select_frames"; "frame_dropout_given_percent"; "frame_dropout_uniform"; "frame_dropout_normal";
    "points_perspective"; "copy"; "get_points"; "matmul"]).
(* the methods of TensorflowPoseBody that also exist in one of its package-level ancestors, in the current source *)
Definition over_tf_body : option (list string * list string) := assoc "tensorflow/pose_body.py::TensorflowPoseBody" Gen_Classes.overrides.
Lemma over_tf_body_tie : over_tf_body = Some exp_over_tf_body.
Proof. reflexivity. Qed.
(* the stream reader over the buffer reader *)
Definition exp_over_stream_reader : list string * list string :=
  (["utils/reader.py::BufferReader"], ["__init__"; "skip"; "expect_to_read"; "bytes_remaining"]).
(* the methods of BytesIOReader that also exist in one of its package-level ancestors, in the current source *)
Definition over_stream_reader : option (list string * list string) := assoc "utils/reader.py::BytesIOReader" Gen_Classes.overrides.
Lemma over_stream_reader_tie : over_stream_reader = Some exp_over_stream_reader.
Proof. reflexivity. Qed.
(* the two pose representations over PoseRepresentation *)
Definition exp_over_torch_repr : list string * list string :=
  (["pose_representation.py::PoseRepresentation"], ["__init__"; "group_embeds"; "permute"]).
(* the methods of TorchPoseRepresentation that also exist in one of its package-level ancestors, in the current source *)
Definition over_torch_repr : option (list string * list string) := assoc "torch/pose_representation.py::TorchPoseRepresentation" Gen_Classes.overrides.
Lemma over_torch_repr_tie : over_torch_repr = Some exp_over_torch_repr.
Proof. reflexivity. Qed.
Definition exp_over_tf_repr : list string * list string :=
  (["pose_representation.py::PoseRepresentation"], ["group_embeds"; "get_points"; "permute"]).
(* the methods of TensorflowPoseRepresentation that also exist in one of its package-level ancestors, in the current source *)
Definition over_tf_repr : option (list string * list string) := assoc "tensorflow/pose_representation.py::TensorflowPoseRepresentation" Gen_Classes.overrides.
Lemma over_tf_repr_tie : over_tf_repr = Some exp_over_tf_repr.
Proof. reflexivity. Qed.
(* no other class of the package has a package-level base class (the visualizer aside) *)
Definition exp_subclasses : list string :=
  [ "numpy/pose_body.py::NumPyPoseBody"; "pose_visualizer.py::FastAndUglyPoseVisualizer"; "tensorflow/pose_body.py::TensorflowPoseBody";
    "tensorflow/pose_representation.py::TensorflowPoseRepresentation"; "torch/pose_body.py::TorchPoseBody";
    "torch/pose_representation.py::TorchPoseRepresentation"; "utils/reader.py::BytesIOReader" ].
Definition subclasses : list string := map fst Gen_Classes.overrides.
Lemma subclasses_tie : subclasses = exp_subclasses.
Proof. reflexivity. Qed.
(* attribute hooks: Pose.__getattr__ (pass-through to the body), the two MaskedTensor.__getattr__ and the two fall-back
   metaclasses - nothing else intercepts attribute access *)
Definition exp_attr_hooks : list (string * list string) :=
  [ ("pose.py::Pose", ["__getattr__"]);
    ("tensorflow/masked/tensor.py::MaskedTensor", ["__getattr__"]);
    ("tensorflow/masked/tensorflow.py::TensorflowFallback", ["__getattr__"]);
    ("torch/masked/tensor.py::MaskedTensor", ["__getattr__"]);
    ("torch/masked/torch.py::TorchFallback", ["__getattr__"]) ].
Lemma attr_hooks_tie : Gen_Classes.attr_hooks = exp_attr_hooks.
Proof. reflexivity. Qed.
