(* C10 - refinement of the reference semantics, part 1: invariant and the instructions other than statistics. *)
From Coq Require Import List Arith ZArith Bool Lia.
Require Import Result Tensor Num C10_Tensor C10_Masked C10_TensorLemmas C10_IndexLemmas C10_Aligned.
Import ListNotations.

Ltac binv H :=
  match type of H with
  | rbind ?r _ = Ok _ => let x := fresh "x" in let E := fresh "E" in destruct r as [x|] eqn:E; cbn [rbind] in H; [|discriminate H]
  end.

Section RefBase.
Variable O : ops.
Variable trig : uname -> T O -> T O.
Notation mt := (mt O).
Notation pt := (pt O).
Notation pair_of := (pair_of O).
Notation dp := (dp O).
Notation z0 := (z0 O).

Definition ok (m : mt) : Prop := wf (fst m) /\ wf (snd m) /\ shape (fst m) = shape (snd m).
Lemma ok_al m : ok m -> al O m.
Proof. now intros [_ [_ H]]. Qed.
Lemma ok_len m : ok m -> length (data (fst m)) = length (data (snd m)).
Proof. intros [H1 [H2 H3]]. unfold wf in *. congruence. Qed.
Lemma pair_shape m : shape (pair_of m) = shape (fst m).
Proof. reflexivity. Qed.
Definition operand_wf (o : operand O) : Prop := match o with OReg _ _ => True | OPlain _ t => wf t end.
Definition instr_wf (i : instr O) : Prop := match i with ICat _ os _ => Forall operand_wf os | _ => True end.

Lemma get_map {X Y} (g : X -> Y) env r : get (map g env) r = rmap g (get env r).
Proof. unfold get. rewrite nth_error_map. now destruct (nth_error env r). Qed.
Lemma gets_map {X Y} (g : X -> Y) env rs : gets (map g env) rs = rmap (map g) (gets env rs).
Proof. induction rs as [|r rs IH]; cbn; [reflexivity|]. rewrite get_map, IH.
  destruct (get env r); cbn; [|reflexivity]. now destruct (gets env rs). Qed.

(* a pair of tabulated tensors *)
Lemma pair_tabulate ns (cv : nat -> T O) (ck : nat -> bool) :
  pair_of (tabulate ns cv, tabulate ns ck) = tabulate ns (fun k => (cv k, ck k)).
Proof. apply tzip_tabulate. Qed.
Lemma ok_tabulate ns (cv : nat -> T O) (ck : nat -> bool) : ok (tabulate ns cv, tabulate ns ck).
Proof. repeat split; apply tabulate_wf. Qed.
Lemma bget_pair ns m k : ok m -> bget dp ns (pair_of m) k = (bget z0 ns (fst m) k, bget false ns (snd m) k).
Proof. intros H. apply bget_tzip; [apply H | now apply ok_len]. Qed.

(* ---- structural instructions (every cfg) *)
Lemma struct_refines p m outs : ok m -> exec_struct O p m = Ok outs ->
  (do ps <- p (shape (pair_of m)); Ok (map (fun q : plan => reindex dp (fst q) (snd q) (pair_of m)) ps)) = Ok (map pair_of outs)
  /\ Forall ok outs.
Proof. intros Hm. unfold exec_struct. rewrite pair_shape. destruct Hm as [Hw1 [Hw2 Hs]]. rewrite <- Hs.
  destruct (p (shape (fst m))) as [ps|e]; cbn [rbind]; [|discriminate]. intros [= <-]. split.
  - f_equal. induction ps as [|q ps IH]; cbn [map combine]; [reflexivity|]. rewrite IH. f_equal.
    unfold pair_of, C10_Masked.pair_of, dp, C10_Masked.dp; cbn [fst snd]. apply reindex_zip; [exact Hs|]. unfold wf in *. congruence.
  - induction ps as [|q ps IH]; cbn [map combine]; [constructor|]. constructor; [|exact IH]. repeat split; apply reindex_wf. Qed.

(* ---- plain operands *)
Lemma pair_wrap t : wf t -> pair_of (wrap O t) = lift O t.
Proof. intros H. unfold pair_of, C10_Masked.pair_of, wrap, lift, tzip, tmap, tconst, tabulate; cbn [fst snd shape data]. f_equal.
  apply combine_const_r. symmetry. exact H. Qed.
Lemma ok_wrap t : wf t -> ok (wrap O t).
Proof. intros H. repeat split; [exact H | apply tabulate_wf]. Qed.
Lemma operands_refine env os ms : Forall operand_wf os -> Forall ok env -> operands_mt O env os = Ok ms ->
  operands_pt O (map pair_of env) os = Ok (map pair_of ms) /\ Forall ok ms.
Proof. intros Hw He. revert ms. induction Hw as [|o os Ho _ IH]; cbn; intros ms H; [injection H as <-; split; [reflexivity|constructor]|].
  binv H. binv H. injection H as <-. destruct (IH _ eq_refl) as [IH1 IH2]. rewrite IH1.
  destruct o as [r|t]; cbn [operand_mt operand_pt operand_wf] in *.
  - rewrite get_map, E. cbn. split; [reflexivity|]. constructor; [|exact IH2]. eapply (get_P ok); [exact He | exact E].
  - injection E as <-. cbn. rewrite pair_wrap by exact Ho. split; [reflexivity|]. constructor; [now apply ok_wrap | exact IH2]. Qed.
Lemma multi_refines (p : list (list nat) -> result plan) (ms : list mt) v k : Forall ok ms ->
  multi z0 p (map fst ms) = Ok v -> multi false p (map snd ms) = Ok k ->
  multi dp p (map pair_of ms) = Ok (pair_of (v, k)) /\ ok (v, k).
Proof. intros Hm. unfold multi.
  assert (Hs : map shape (map pair_of ms) = map shape (map fst ms)) by (rewrite !map_map; reflexivity). rewrite Hs.
  assert (Hs2 : map shape (map snd ms) = map shape (map fst ms)).
  { symmetry. apply (shapes_al O). eapply Forall_impl; [|exact Hm]. intros m. apply ok_al. }
  rewrite Hs2. destruct (p (map shape (map fst ms))) as [[ns f]|]; [|discriminate].
  intros [= <-] [= <-]. split; [|repeat split; apply reindex_wf].
  f_equal. assert (Hl : Forall (fun m : mt => length (data (fst m)) = length (data (snd m))) ms).
  { eapply Forall_impl; [|exact Hm]. intros m. apply ok_len. }
  destruct (flatcat_tzip ms Hl) as [F1 F2].
  replace (flatcat (map pair_of ms)) with (tzip (flatcat (map fst ms)) (flatcat (map snd ms))) by (symmetry; exact F1).
  unfold C10_Masked.pair_of, dp, C10_Masked.dp; cbn [fst snd]. apply reindex_zip; [|exact F2].
  clear - F2. unfold flatcat in *; cbn [shape data] in *. now rewrite F2. Qed.
End RefBase.
