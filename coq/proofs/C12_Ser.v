(* C12 - a state satisfying the invariant is serialisable: against Codec.write_pose (the model of Pose.write,
   pose.py:66-98, with its four sanity checks) every check passes, and the mask a reader derives from the
   written confidences (Codec.mk_body) is the pose's mask. *)
From Coq Require Import List Arith Bool ZArith NArith Lia.
Require Import ListN Result Bytes F32 Tensor Codec.
Require Import C12_Model C12_Tab C12_Inv C12_Reach.
Import ListNotations.
Open Scope nat_scope.

(* a concrete pose handed to Pose.write whose shapes / point counts / format lengths / confidence zero-ness are the state's *)
Definition hdr_matches (h : C12_Model.header) (comps : list wcomponent) : Prop :=
  Forall2 (fun c wc => length (c_points c) = length (wc_points wc) /\ c_fmt c = length (wc_format wc)) h comps.
Record abstracts (st : state) (wp : wpose) : Prop := {
  ab_np : s_be st = Np;
  ab_hdr : hdr_matches (s_hdr st) (w_comps wp);
  ab_shape : w_shape wp = map N.of_nat (shape (s_mask st));
  ab_cshape : w_cshape wp = map N.of_nat (shape (s_cz st));
  ab_cz : data (s_cz st) = map (fun w => is_zero32 (f64_to_f32 w)) (w_conf wp) }.

Lemma fold_zmax_const (l : list Z) (n : Z) : l <> [] -> Forall (fun x => x = n) l -> (0 <= n)%Z -> fold_right Z.max 0%Z l = n.
Proof.
  intros Hne H Hn. induction H as [|x l Hx Hl IH]; [congruence|]. cbn [fold_right]. subst x.
  destruct l as [|y l']; [cbn; lia|]. rewrite IH by discriminate. lia.
Qed.
Lemma num_dims_of_uniform (comps : list wcomponent) D :
  comps <> [] -> Forall (fun wc => length (wc_format wc) = S D) comps -> num_dims_of (map wc_format comps) = Ok (Z.of_nat D).
Proof.
  intros Hne H. unfold num_dims_of. destruct (map wc_format comps) as [|f0 r] eqn:E.
  - destruct comps; [congruence|discriminate].
  - rewrite <- E. f_equal.
    rewrite (fold_zmax_const _ (Z.of_nat (S D))); [lia| | |lia].
    + destruct comps; [congruence|discriminate].
    + rewrite !Forall_map. eapply Forall_impl; [|exact H]. intros wc Hwc. cbv beta. unfold lenN. rewrite Hwc. lia.
Qed.
Lemma total_points_w_matches h comps : hdr_matches h comps -> total_points_w comps = N.of_nat (C12_Model.total_points h).
Proof.
  induction 1 as [|c wc h comps [Hp _] _ IH]; [reflexivity|].
  unfold total_points_w in *. cbn [map sumN fold_right]. rewrite total_points_cons.
  fold (sumN (map (fun c0 => lenN (wc_points c0)) comps)). rewrite IH. unfold lenN. rewrite <- Hp. lia.
Qed.
Lemma hdr_matches_fmt h comps D :
  hdr_matches h comps -> Forall (fun c => c_fmt c = S D) h -> Forall (fun wc => length (wc_format wc) = S D) comps.
Proof.
  induction 1 as [|c wc h comps [_ Hf] _ IH]; intros HF; [constructor|].
  inversion HF as [|c' h' Hc' Hh']; subst. constructor; [congruence|apply IH; exact Hh'].
Qed.
Lemma hdr_matches_nonempty h comps : hdr_matches h comps -> h <> [] -> comps <> [].
Proof. intros H Hne E. subst comps. inversion H. congruence. Qed.
Lemma eq_shape_refl l : eq_shape l l = true.
Proof.
  unfold eq_shape. rewrite Nat.eqb_refl. cbn [andb]. induction l as [|x l IH]; [reflexivity|].
  cbn [combine forallb fst snd]. rewrite N.eqb_refl. exact IH.
Qed.

Theorem write_checks_pass st wp : Inv st -> abstracts st wp ->
  write_pose wp = (do h <- write_header (w_dims wp) (w_comps wp); do b <- write_body wp; Ok (h ++ b)).
Proof.
  intros [F [P [T [D [Hne [Hfmt [HT [Hm [Hc _]]]]]]]]] [_ Hh Hs Hcs _].
  unfold write_pose. rewrite Hs, Hm. cbn [map].
  pose proof (hdr_matches_nonempty _ _ Hh Hne) as Hne'.
  pose proof (hdr_matches_fmt _ _ D Hh Hfmt) as Hfmt'.
  rewrite (num_dims_of_uniform _ D Hne' Hfmt'). cbn [rbind].
  rewrite nat_N_Z, Z.eqb_refl. cbn [negb].
  rewrite (total_points_w_matches _ _ Hh), HT, N.eqb_refl. cbn [negb].
  rewrite Hcs, Hc. cbn [map]. rewrite eq_shape_refl. cbn [negb]. reflexivity.
Qed.

Lemma mk_body_mask fps F P T D dat conf b : mk_body fps F P T D dat conf = Ok b -> b_mask b = map is_zero32 conf.
Proof. unfold mk_body. destruct (D <=? 0)%Z; [discriminate|]. intros H. injection H as <-. reflexivity. Qed.

Theorem reader_mask st wp F P T D : Inv st -> abstracts st wp -> shape (s_mask st) = [F; P; T; D] ->
  forall f p t d, f < F -> p < P -> t < T -> d < D ->
    get4 (s_mask st) f p t d = nth (ravel [F; P; T] [f; p; t]) (map is_zero32 (map f64_to_f32 (w_conf wp))) false.
Proof.
  intros [F' [P' [T' [D' [_ [_ [_ [Hm [Hc [_ [Wc Hcell]]]]]]]]]]] [_ _ _ _ Hcz] Hm' f p t d Hf Hp Ht Hd.
  rewrite Hm in Hm'. injection Hm' as -> -> -> ->.
  rewrite Hcell by assumption. unfold get3, tget. rewrite Hc, Hcz, map_map. reflexivity.
Qed.

Theorem reachable_serialisable s0 st wp :
  Inv s0 -> reachable s0 st -> abstracts st wp ->
  write_pose wp = (do h <- write_header (w_dims wp) (w_comps wp); do b <- write_body wp; Ok (h ++ b))
  /\ forall F P T D, shape (s_mask st) = [F; P; T; D] ->
     forall fps dat b, mk_body fps (N.of_nat F) (N.of_nat P) (N.of_nat T) (Z.of_nat D) dat (map f64_to_f32 (w_conf wp)) = Ok b ->
     forall f p t d, f < F -> p < P -> t < T -> d < D ->
       get4 (s_mask st) f p t d = nth (ravel [F; P; T] [f; p; t]) (b_mask b) false.
Proof.
  intros H0 R A. pose proof (reachable_inv _ _ H0 R) as HI. split; [apply (write_checks_pass st wp HI A)|].
  intros F P T D Hm fps dat b Hb f p t d Hf Hp Ht Hd.
  rewrite (mk_body_mask _ _ _ _ _ _ _ _ Hb). apply (reader_mask st wp F P T D HI A Hm); assumption.
Qed.
