(* C14 - SciPy's linear interp1d (model: lerp / seg) over exact reals: it interpolates its nodes, reproduces
   affine data, and every value is a convex combination of the two neighbouring observations. *)
From Coq Require Import Reals List Arith Bool Lia Lra Sorted.
Require Import Num C14_Interp C14_Index C14_Grid.
Import ListNotations.
Local Open Scope R_scope.

Definition col (c : nat) (row : list R) : R := nth c row 0.
Definition obsR := list (R * list R).
Definition xs_of (obs : obsR) : list R := map fst obs.
Definition widths (w : nat) (obs : obsR) : Prop := Forall (fun xy => length (snd xy) = w) obs.
Definition dflt : R * list R := (0, []).

Lemma map2_nth {A B C} (f : A -> B -> C) da db dc : forall la lb c,
  (c < length la)%nat -> (c < length lb)%nat -> nth c (map2 f la lb) dc = f (nth c la da) (nth c lb db).
Proof. unfold map2. induction la as [|a la IH]; intros [|b lb] c Ha Hb; cbn [length] in *; try lia.
  destruct c as [|c]; [reflexivity|]. cbn [combine map nth]. apply IH; lia. Qed.
Lemma map2_length {A B C} (f : A -> B -> C) la lb : length la = length lb -> length (map2 f la lb) = length la.
Proof. intros H. unfold map2. rewrite map_length, combine_length. lia. Qed.
Lemma map2_left {A B} (f : A -> B -> A) : forall la lb, length la = length lb ->
  (forall a b, f a b = a) -> map2 f la lb = la.
Proof. unfold map2. induction la as [|a la IH]; intros [|b lb] H Hf; cbn in *; try reflexivity; try discriminate.
  rewrite Hf. f_equal. apply IH; [lia|exact Hf]. Qed.
Lemma map2_right {A B} (f : A -> B -> B) : forall la lb, length la = length lb ->
  (forall a b, f a b = b) -> map2 f la lb = lb.
Proof. unfold map2. induction la as [|a la IH]; intros [|b lb] H Hf; cbn in *; try reflexivity; try discriminate.
  rewrite Hf. f_equal. apply IH; [lia|exact Hf]. Qed.

Lemma last_nth {A} (l : list A) d : last l d = nth (length l - 1) l d.
Proof. induction l as [|a l IH]; [reflexivity|]. destruct l as [|b l]; [reflexivity|].
  change (last (a :: b :: l) d) with (last (b :: l) d). rewrite IH. cbn [length]. 
  replace (S (S (length l)) - 1)%nat with (S (S (length l) - 1)) by lia. reflexivity. Qed.

(* one segment *)
Lemma seg_col x0 y0 x1 y1 x c : (c < length y0)%nat -> (c < length y1)%nat ->
  col c (seg R_ops x0 y0 x1 y1 x) = (x - x0) / (x1 - x0) * col c y1 + (x1 - x) / (x1 - x0) * col c y0.
Proof. intros H0 H1. unfold col, seg. rewrite (map2_nth _ 0 0 0) by assumption. reflexivity. Qed.
Lemma seg_length x0 y0 x1 y1 x : length y0 = length y1 -> length (seg R_ops x0 y0 x1 y1 x) = length y0.
Proof. intros H. unfold seg. apply map2_length. exact H. Qed.
Lemma seg_left x0 y0 x1 y1 : x0 <> x1 -> length y0 = length y1 -> seg R_ops x0 y0 x1 y1 x0 = y0.
Proof. intros Hx Hl. unfold seg. apply map2_left; [exact Hl|]. intros a b. cbn. field. lra. Qed.
Lemma seg_right x0 y0 x1 y1 : x0 <> x1 -> length y0 = length y1 -> seg R_ops x0 y0 x1 y1 x1 = y1.
Proof. intros Hx Hl. unfold seg. apply map2_right; [exact Hl|]. intros a b. cbn. field. lra. Qed.

(* which segment interp1d picks *)
Lemma lerp_from_seg : forall (rest : obsR) x0 y0 x, rest <> [] ->
  exists m, (S m < S (length rest))%nat /\
    let l := (x0, y0) :: rest in
    lerp_from R_ops x0 y0 rest x =
      seg R_ops (fst (nth m l dflt)) (snd (nth m l dflt)) (fst (nth (S m) l dflt)) (snd (nth (S m) l dflt)) x /\
    (x0 <= x -> x <= last (xs_of l) 0 -> fst (nth m l dflt) <= x <= fst (nth (S m) l dflt)).
Proof. induction rest as [|[x1 y1] rest' IH]; intros x0 y0 x Hne; [contradiction|].
  destruct rest' as [|r2 rest''].
  - exists 0%nat. cbn. split; [lia|]. split; [reflexivity|]. intros; lra.
  - cbn [lerp_from]. change (leb R_ops x x1) with (Rleb x x1). destruct (Rleb x x1) eqn:E.
    + exists 0%nat. cbn [length nth fst snd]. split; [lia|]. split; [reflexivity|].
      apply Rleb_true in E. intros; lra.
    + apply Rleb_false in E.
      destruct (IH x1 y1 x ltac:(discriminate)) as [m [Hm [Heq Hr]]].
      exists (S m). split; [cbn [length] in *; lia|]. split.
      * exact Heq.
      * intros _ Hlast. apply Hr; [lra|]. exact Hlast. Qed.

Section Sorted.
Variables (obs : obsR) (w : nat).
Hypothesis Hsort : StronglySorted Rlt (xs_of obs).
Hypothesis Hw : widths w obs.

Lemma xs_nth i : nth i (xs_of obs) 0 = fst (nth i obs dflt).
Proof. unfold xs_of. change 0 with (fst dflt). apply map_nth. Qed.
Lemma xs_lt i j : (i < j)%nat -> (j < length obs)%nat -> fst (nth i obs dflt) < fst (nth j obs dflt).
Proof. intros Hij Hj. rewrite <- !xs_nth. apply StronglySorted_nth; [exact Hsort|exact Hij|].
  unfold xs_of. rewrite map_length. exact Hj. Qed.
Lemma xs_le i j : (i <= j)%nat -> (j < length obs)%nat -> fst (nth i obs dflt) <= fst (nth j obs dflt).
Proof. intros Hij Hj. destruct (Nat.eq_dec i j) as [->|NE]; [lra|]. left. apply xs_lt; lia. Qed.
Lemma xs_last : last (xs_of obs) 0 = fst (nth (length obs - 1) obs dflt).
Proof. rewrite last_nth, xs_nth. unfold xs_of. now rewrite map_length. Qed.
Lemma xs_first : nth 0 (xs_of obs) 0 = fst (nth 0 obs dflt).
Proof. apply xs_nth. Qed.
Lemma row_width i : (i < length obs)%nat -> length (snd (nth i obs dflt)) = w.
Proof. intros Hi. unfold widths in Hw. rewrite Forall_forall in Hw. apply Hw. apply nth_In. exact Hi. Qed.

Section Two.
Hypothesis Hlen : (2 <= length obs)%nat.

Lemma lerp_seg x : exists m, (S m < length obs)%nat /\
  lerp R_ops obs x = seg R_ops (fst (nth m obs dflt)) (snd (nth m obs dflt)) (fst (nth (S m) obs dflt)) (snd (nth (S m) obs dflt)) x /\
  (fst (nth 0 obs dflt) <= x -> x <= last (xs_of obs) 0 -> fst (nth m obs dflt) <= x <= fst (nth (S m) obs dflt)).
Proof. destruct obs as [|[x0 y0] rest] eqn:E; [cbn in Hlen; lia|].
  destruct (lerp_from_seg rest x0 y0 x) as [m [Hm [Heq Hr]]].
  { destruct rest; [cbn in Hlen; lia|discriminate]. }
  exists m. split; [cbn [length]; lia|]. split; [exact Heq|exact Hr]. Qed.

Lemma lerp_width x : length (lerp R_ops obs x) = w.
Proof. destruct (lerp_seg x) as [m [Hm [-> _]]]. rewrite seg_length; rewrite !row_width by lia; reflexivity. Qed.

(* interp1d(kind="linear") interpolates its nodes *)
Lemma lerp_node i : (i < length obs)%nat -> lerp R_ops obs (fst (nth i obs dflt)) = snd (nth i obs dflt).
Proof. intros Hi. destruct (lerp_seg (fst (nth i obs dflt))) as [m [Hm [-> Hr]]].
  assert (Hrange : fst (nth m obs dflt) <= fst (nth i obs dflt) <= fst (nth (S m) obs dflt)).
  { apply Hr; [apply xs_le; lia|]. rewrite xs_last. apply xs_le; lia. }
  assert (Hne : fst (nth m obs dflt) <> fst (nth (S m) obs dflt)) by (pose proof (xs_lt m (S m) ltac:(lia) Hm); lra).
  assert (Hwm : length (snd (nth m obs dflt)) = length (snd (nth (S m) obs dflt))) by (rewrite !row_width by lia; reflexivity).
  destruct (lt_eq_lt_dec i m) as [[Hlt| ->]|Hgt].
  - pose proof (xs_lt i m Hlt ltac:(lia)). lra.
  - apply seg_left; assumption.
  - destruct (Nat.eq_dec i (S m)) as [-> |NE]; [apply seg_right; assumption|].
    pose proof (xs_lt (S m) i ltac:(lia) Hi). lra. Qed.

(* ... reproduces data that is affine in time, at every abscissa ... *)
Lemma lerp_affine c a b x : (c < w)%nat ->
  (forall i, (i < length obs)%nat -> col c (snd (nth i obs dflt)) = a * fst (nth i obs dflt) + b) ->
  col c (lerp R_ops obs x) = a * x + b.
Proof. intros Hc Ha. destruct (lerp_seg x) as [m [Hm [-> _]]].
  rewrite seg_col by (rewrite row_width by lia; exact Hc).
  rewrite !Ha by lia. pose proof (xs_lt m (S m) ltac:(lia) Hm). field. lra. Qed.

(* ... and stays between the two neighbouring observations (coordinates and confidence alike) *)
Lemma lerp_between c x : (c < w)%nat -> fst (nth 0 obs dflt) <= x -> x <= last (xs_of obs) 0 ->
  exists m, (S m < length obs)%nat /\ fst (nth m obs dflt) <= x <= fst (nth (S m) obs dflt) /\
    Rmin (col c (snd (nth m obs dflt))) (col c (snd (nth (S m) obs dflt))) <= col c (lerp R_ops obs x)
      <= Rmax (col c (snd (nth m obs dflt))) (col c (snd (nth (S m) obs dflt))).
Proof. intros Hc H0 H1. destruct (lerp_seg x) as [m [Hm [-> Hr]]]. exists m. split; [exact Hm|].
  specialize (Hr H0 H1). split; [exact Hr|].
  rewrite seg_col by (rewrite row_width by lia; exact Hc).
  pose proof (xs_lt m (S m) ltac:(lia) Hm) as Hd.
  set (xa := fst (nth m obs dflt)) in *. set (xb := fst (nth (S m) obs dflt)) in *.
  set (ya := col c (snd (nth m obs dflt))). set (yb := col c (snd (nth (S m) obs dflt))).
  set (t := (x - xa) / (xb - xa)).
  assert (Ht : 0 <= t <= 1).
  { unfold t. split.
    - apply Rmult_le_pos; [lra|]. left. apply Rinv_0_lt_compat. lra.
    - apply (Rmult_le_reg_r (xb - xa)); [lra|]. unfold Rdiv. rewrite Rmult_assoc, Rinv_l by lra. lra. }
  replace ((xb - x) / (xb - xa)) with (1 - t) by (unfold t; field; lra).
  unfold Rmin, Rmax. destruct (Rle_dec ya yb); split; nra. Qed.
End Two.
End Sorted.
