(* C15 - tie lemmas: the facts regenerated from the source on every run (coq/gen/Gen_C15.v, written by
   harness/translate_c15.py) equal the text / constants the hand-written model (model/C15_Spatial.v) was written from
   (the lit_* definitions below are that text).  A source edit that changes one of them breaks the corresponding
   obligation of props/C15.v. *)
From Coq Require Import String Ascii List ZArith.
Require Import Num Gen_C15 C15_Spatial C15_Run.
Import ListNotations.
Open Scope string_scope.

Definition cps (s : string) : list Z := map (fun a => Z.of_nat (nat_of_ascii a)) (list_ascii_of_string s).
Definition has (s : string) (l : list string) : bool := existsb (String.eqb s) l.

Definition lit_header_bbox_rest : list string :=
  [ "components = [PoseHeaderComponent(c.name, box_points, box_limbs, box_colors, c.format) for c in self.components]";
    "return PoseHeader(self.version, self.dimensions, components, True)" ].
Definition lit_pose_bbox : list string :=
  [ "body = self.body.bbox(self.header)";
    "header = self.header.bbox()";
    "return Pose(header=header, body=body)" ].
Definition lit_numpy_init : list string :=
  [ "if isinstance(data, np.ndarray):
    mask = confidence == 0
    stacked_mask = np.stack([mask] * data.shape[-1], axis=-1)
    data = ma.masked_array(data, mask=stacked_mask)";
    "super().__init__(fps, data, confidence)" ].
Definition lit_numpy_flip : list string :=
  [ "vec = np.ones(self.data.shape[-1])";
    "vec[axis] = -1";
    "data = self.data * vec";
    "return NumPyPoseBody(self.fps, data, self.confidence)" ].
Definition lit_numpy_matmul : list string :=
  [ "data = ma.dot(self.data, matrix)";
    "return NumPyPoseBody(self.fps, data, self.confidence)" ].
Definition lit_numpy_bbox : list string :=
  [ "data = ma.transpose(self.data, axes=POINTS_DIMS)";
    "components = []";
    "idx = 0";
    "for component in header.components:
    components.append(data[list(range(idx, idx + len(component.points)))])
    idx += len(component.points)";
    "boxes = [ma.stack([ma.min(c, axis=0), ma.max(c, axis=0)]) for c in components]";
    "boxes_cat = ma.concatenate(boxes)";
    "if type(boxes_cat.mask) == np.bool_:
    boxes_mask = ma.concatenate([b.mask for b in boxes])
    boxes_cat = ma.array(boxes_cat, mask=boxes_mask)";
    "new_data = ma.transpose(boxes_cat, axes=POINTS_DIMS)";
    "<confidence_mask>";
    "confidence = np.where(confidence_mask == True, 0, 1)";
    "return NumPyPoseBody(self.fps, new_data, confidence)" ].
Definition lit_augment2d_steps : list string :=
  [ "if shear_std > 0: eye2 cell(0,1) = draw; matrix = matrix . M";
    "if rotation_std > 0: M = [[cos, -sin], [sin, cos]]; matrix = matrix . M";
    "if scale_std > 0: eye2 cell(1,1) += draw; matrix = matrix . M" ].
Definition lit_augment2d_tail : list string :=
  [ "dim_matrix = np.eye(self.data.shape[-1])";
    "dim_matrix[0:2, 0:2] = matrix";
    "return self.matmul(dim_matrix.astype(dtype=np.float32))" ].
Definition lit_pose_focus : list string :=
  [ "mins = ma.min(self.body.data, axis=(0, 1, 2))";
    "maxs = ma.max(self.body.data, axis=(0, 1, 2))";
    "if np.count_nonzero(mins) > 0:
    self.body.data = ma.subtract(self.body.data, mins)";
    "dimensions = (maxs - mins).tolist()";
    "self.header.dimensions = PoseHeaderDimensions(*dimensions)" ].
Definition lit_dimensions_init : list string :=
  [ "self.width = math.ceil(width)";
    "self.height = math.ceil(height)";
    "self.depth = math.ceil(depth)" ].
Definition lit_dimensions_init_sig : string := "self,width,height,depth|defaults=0|vararg=args".

(* PoseHeader.bbox (pose_header.py) and Pose.bbox (pose.py): two points per component, TOP_LEFT = the minima first,
   one limb between them; name and format copied; the colour is not tied (a constant the property does not depend on) *)
Lemma header_bbox_tie :
  map cps Gen_C15.box_points = C15_Spatial.box_points /\
  Gen_C15.box_limbs = C15_Spatial.box_limbs /\
  length Gen_C15.box_colors = length Gen_C15.box_limbs /\
  Gen_C15.header_bbox_rest = lit_header_bbox_rest /\
  Gen_C15.pose_bbox = lit_pose_bbox.
Proof. repeat split; reflexivity. Qed.

(* NumPyPoseBody.__init__ / flip / matmul / bbox (numpy/pose_body.py), POINTS_DIMS (pose_body.py), the pass-through
   table of Pose.__getattr__ (pose.py).  bbox: the two repaired places must have the repaired shape. *)
Lemma numpy_body_tie :
  Gen_C15.numpy_init = lit_numpy_init /\
  Gen_C15.numpy_flip = lit_numpy_flip /\
  Gen_C15.numpy_matmul = lit_numpy_matmul /\
  Gen_C15.numpy_bbox = lit_numpy_bbox /\
  Gen_C15.bbox_confidence_mask_kind = "IndexAxis0" /\
  Gen_C15.bbox_empty_component_kind = "MissingBox" /\
  Gen_C15.points_dims = [2; 1; 0; 3]%Z /\
  has "flip" Gen_C15.pass_through_methods = true /\ has "augment2d" Gen_C15.pass_through_methods = true /\
  has "focus" Gen_C15.pass_through_methods = false /\ has "bbox" Gen_C15.pass_through_methods = false.
Proof. repeat split; reflexivity. Qed.

(* PoseBody.augment2d (pose_body.py): parameter order, the three guarded steps in order (shear cell (0,1) = draw,
   rotation [[cos, -sin], [sin, cos]], scale cell (1,1) += draw, each composed on the right), embedding and product *)
Lemma augment2d_tie :
  Gen_C15.augment2d_params = ["self"; "rotation_std"; "shear_std"; "scale_std"] /\
  Gen_C15.augment2d_steps = lit_augment2d_steps /\
  Gen_C15.augment2d_tail = lit_augment2d_tail.
Proof. repeat split; reflexivity. Qed.

(* Pose.focus (pose.py) and PoseHeaderDimensions.__init__ (pose_header.py) *)
Lemma focus_tie :
  Gen_C15.pose_focus = lit_pose_focus /\
  Gen_C15.dimensions_init_sig = lit_dimensions_init_sig /\
  Gen_C15.dimensions_init = lit_dimensions_init.
Proof. repeat split; reflexivity. Qed.

(* the executed binary64 instance is Num.F_ops (named constants only for extraction) *)
Lemma F64_ops_is_F_ops : F64_ops = F_ops.
Proof. reflexivity. Qed.
