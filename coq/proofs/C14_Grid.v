(* C14 - the normalised time grid np.linspace(0, 1, n) over exact reals, and the boolean tests of R_ops. *)
From Coq Require Import Reals List Arith Bool Lia Lra ZArith Sorted.
Require Import Num C14_Interp C14_Index.
Import ListNotations.
Local Open Scope R_scope.

Lemma Rleb_true a b : Rleb a b = true <-> a <= b.
Proof. unfold Rleb. destruct (Rle_dec a b); split; intros; try reflexivity; try assumption; try discriminate; contradiction. Qed.
Lemma Rleb_false a b : Rleb a b = false <-> b < a.
Proof. unfold Rleb. destruct (Rle_dec a b); split; intros; try reflexivity; try discriminate; lra. Qed.
Lemma Rltb_true a b : Rltb a b = true <-> a < b.
Proof. unfold Rltb. destruct (Rlt_dec a b); split; intros; try reflexivity; try assumption; try discriminate; contradiction. Qed.
Lemma Rltb_false a b : Rltb a b = false <-> b <= a.
Proof. unfold Rltb. destruct (Rlt_dec a b); split; intros; try reflexivity; try discriminate; lra. Qed.
Lemma Reqb_true a b : Reqb a b = true <-> a = b.
Proof. unfold Reqb. destruct (Req_EM_T a b); split; intros; try reflexivity; try assumption; try discriminate; contradiction. Qed.
Lemma Reqb_false a b : Reqb a b = false <-> a <> b.
Proof. unfold Reqb. destruct (Req_EM_T a b); split; intros; try reflexivity; try assumption; try discriminate; contradiction. Qed.

Lemma of_nat_INR i : Num.of_nat R_ops i = INR i.
Proof. unfold Num.of_nat; cbn. symmetry. apply INR_IZR_INZ. Qed.

Definition gridR (n : nat) : list R := grid R_ops n.

Lemma grid_length n : length (gridR n) = n.
Proof. unfold gridR, grid. destruct n as [|[|n]]; try reflexivity. now rewrite map_length, seq_length. Qed.
(* the j-th sample is j / (n - 1) *)
Lemma grid_nth n j : (2 <= n)%nat -> (j < n)%nat -> nth j (gridR n) 0 = INR j / INR (n - 1).
Proof. intros Hn Hj. unfold gridR, grid. destruct n as [|[|n]]; try lia.
  set (N := S (S n)) in *.
  rewrite nth_map_seq by exact Hj.
  assert (Hpos : INR (N - 1) <> 0) by (apply not_0_INR; unfold N; lia).
  destruct (Nat.eqb_spec j (N - 1)) as [->|NE]; cbn [one mul div R_ops Num.T].
  - field. exact Hpos.
  - rewrite !of_nat_INR. field. exact Hpos. Qed.
Lemma grid_one : gridR 1 = [0].
Proof. reflexivity. Qed.
Lemma grid_incr n i j : (i < j)%nat -> (j < n)%nat -> nth i (gridR n) 0 < nth j (gridR n) 0.
Proof. intros Hij Hj. assert (Hn : (2 <= n)%nat) by lia.
  rewrite !grid_nth by lia.
  assert (Hpos : 0 < INR (n - 1)) by (apply lt_0_INR; lia).
  apply Rmult_lt_compat_r; [apply Rinv_0_lt_compat; exact Hpos|]. apply lt_INR. exact Hij. Qed.
Lemma grid_sorted n : StronglySorted Rlt (gridR n).
Proof. apply (nth_StronglySorted Rlt _ 0). intros i j Hij Hj. rewrite grid_length in Hj. apply grid_incr; assumption. Qed.
Lemma grid_first n : (1 <= n)%nat -> nth 0 (gridR n) 0 = 0.
Proof. intros Hn. destruct (Nat.eq_dec n 1) as [->|NE]; [reflexivity|].
  rewrite grid_nth by lia. cbn [INR]. unfold Rdiv. apply Rmult_0_l. Qed.
Lemma grid_last n : (2 <= n)%nat -> nth (n - 1) (gridR n) 0 = 1.
Proof. intros Hn. rewrite grid_nth by lia. field. apply not_0_INR. lia. Qed.
Lemma grid_range n j : (j < n)%nat -> 0 <= nth j (gridR n) 0 <= 1.
Proof. intros Hj. destruct (Nat.eq_dec n 1) as [->|NE].
  - replace j with 0%nat by lia. cbn. lra.
  - rewrite grid_nth by lia.
    assert (Hpos : 0 < INR (n - 1)) by (apply lt_0_INR; lia).
    assert (H0 : 0 <= INR j) by apply pos_INR.
    assert (H1 : INR j <= INR (n - 1)) by (apply le_INR; lia).
    split.
    + apply Rmult_le_pos; [exact H0|]. left. apply Rinv_0_lt_compat. exact Hpos.
    + apply (Rmult_le_reg_r (INR (n - 1))); [exact Hpos|]. unfold Rdiv. rewrite Rmult_assoc, Rinv_l by lra. lra. Qed.
(* same rate: the two grids are the same list; in general equal times mean equal positions *)
Lemma grid_inj n i j : (i < n)%nat -> (j < n)%nat -> nth i (gridR n) 0 = nth j (gridR n) 0 -> i = j.
Proof. intros Hi Hj E. destruct (lt_eq_lt_dec i j) as [[H|H]|H]; [|assumption|].
  - pose proof (grid_incr n i j H Hj). lra.
  - pose proof (grid_incr n j i H Hi). lra. Qed.
