(* C20 - ties between the facts regenerated from /repo on every run (coq/gen/Gen_C20.v, written by
   harness/translate_c20.py) and the literals the hand-written model model/C20_Collate.v was written from.
   An edit of collator.py / MaskedTorch.cat / MaskedTorch.stack / MaskedTensor.__init__ / __len__ changes the
   generated constant and breaks the corresponding lemma (a proof obligation of props/C20.v). *)
From Coq Require Import String List ZArith.
Require Import C20_Collate Gen_C20.
Import ListNotations.
Local Open Scope string_scope.

Lemma pad_tensors_src_tie : Gen_C20.pad_tensors_src = 
  [ "batch: List[Union[torch.Tensor, MaskedTensor]], pad_value=0";
    "datum = batch[0]";
    "torch_cls = MaskedTorch if isinstance(datum, MaskedTensor) else torch";
    "max_len = max((len(t) for t in batch))";
    "if all((len(t) == max_len for t in batch)):
    return torch_cls.stack(batch, dim=0)";
    "new_batch = []";
    "for tensor in batch:
    missing = list(tensor.shape)
    missing[0] = max_len - tensor.shape[0]
    if missing[0] > 0:
        padding_tensor = torch.full(missing, fill_value=pad_value, dtype=tensor.dtype, device=tensor.device)
        if isinstance(tensor, MaskedTensor):
            padding_tensor = MaskedTensor(tensor=padding_tensor, mask=torch.zeros_like(padding_tensor, dtype=torch.bool))
        tensor = torch_cls.cat([tensor, padding_tensor], dim=0)
    new_batch.append(tensor)";
    "return torch_cls.stack(new_batch, dim=0)" ].
Proof. reflexivity. Qed.

Lemma collate_tensors_src_tie : Gen_C20.collate_tensors_src = 
  [ "batch: List, pad_value=0";
    "datum = batch[0]";
    "if isinstance(datum, dict):
    return zero_pad_collator(batch)";
    "if isinstance(datum, (int, np.int32)):
    return torch.tensor(batch, dtype=torch.long)";
    "if isinstance(datum, (MaskedTensor, torch.Tensor)):
    return pad_tensors(batch, pad_value=pad_value)";
    "return batch" ].
Proof. reflexivity. Qed.

Lemma zero_pad_collator_src_tie : Gen_C20.zero_pad_collator_src = 
  [ "batch";
    "datum = batch[0]";
    "if isinstance(datum, str):
    return batch";
    "if isinstance(datum, tuple):
    return tuple((collate_tensors([b[i] for b in batch]) for i in range(len(datum))))";
    "if isinstance(datum, MaskedTensor):
    return collate_tensors(batch)";
    "keys = datum.keys()";
    "return {k: collate_tensors([b[k] for b in batch]) for k in keys}" ].
Proof. reflexivity. Qed.

Lemma masked_cat_src_tie : Gen_C20.masked_cat_src = 
  [ "tensors: List[Union[MaskedTensor, torch.Tensor]], dim: int";
    "tensors: List[MaskedTensor] = [t if isinstance(t, MaskedTensor) else MaskedTensor(tensor=t) for t in tensors]";
    "tensor = torch.cat([t.tensor for t in tensors], dim=dim)";
    "mask = torch.cat([t.mask for t in tensors], dim=dim)";
    "return MaskedTensor(tensor=tensor, mask=mask)" ].
Proof. reflexivity. Qed.

Lemma masked_stack_src_tie : Gen_C20.masked_stack_src = 
  [ "tensors: List[MaskedTensor], dim: int";
    "tensor = torch.stack([t.tensor for t in tensors], dim=dim)";
    "mask = torch.stack([t.mask for t in tensors], dim=dim)";
    "return MaskedTensor(tensor=tensor, mask=mask)" ].
Proof. reflexivity. Qed.

Lemma masked_init_src_tie : Gen_C20.masked_init_src = 
  [ "self, tensor: torch.Tensor, mask: torch.Tensor=None";
    "self.tensor = tensor";
    "self.mask = mask if mask is not None else torch.ones(tensor.shape, dtype=torch.bool).to(tensor.device)" ].
Proof. reflexivity. Qed.

Lemma masked_len_src_tie : Gen_C20.masked_len_src = 
  [ "self";
    "return self.tensor.shape[0]" ].
Proof. reflexivity. Qed.

Lemma pad_default_tie : Gen_C20.pad_default = 0%Z.
Proof. reflexivity. Qed.

Lemma collate_pad_default_tie : Gen_C20.collate_pad_default = 0%Z.
Proof. reflexivity. Qed.

Lemma shortcut_kind_tie : Gen_C20.shortcut_kind = "AllLenEqualMax".
Proof. reflexivity. Qed.

Lemma max_len_src_tie : Gen_C20.max_len_src = "max((len(t) for t in batch))".
Proof. reflexivity. Qed.

Lemma full_fill_src_tie : Gen_C20.full_fill_src = "pad_value".
Proof. reflexivity. Qed.

Lemma full_dtype_src_tie : Gen_C20.full_dtype_src = "tensor.dtype".
Proof. reflexivity. Qed.

Lemma pad_mask_fill_src_tie : Gen_C20.pad_mask_fill_src = C20_Collate.pad_mask_fill.
Proof. reflexivity. Qed.

Lemma pad_at_end_src_tie : Gen_C20.pad_at_end_src = true.
Proof. reflexivity. Qed.

Lemma cat_dim_src_tie : Gen_C20.cat_dim_src = "0".
Proof. reflexivity. Qed.

Lemma stack_dims_src_tie : Gen_C20.stack_dims_src = [ "0" ].
Proof. reflexivity. Qed.

Lemma missing_src_tie : Gen_C20.missing_src = 
  [ "missing = list(tensor.shape)";
    "missing[0] = max_len - tensor.shape[0]" ].
Proof. reflexivity. Qed.

Lemma pad_guard_src_tie : Gen_C20.pad_guard_src = "missing[0] > 0".
Proof. reflexivity. Qed.

Lemma collate_dispatch_src_tie : Gen_C20.collate_dispatch_src = 
  [ "dict => zero_pad_collator(batch)";
    "(int, np.int32) => torch.tensor(batch, dtype=torch.long)";
    "(MaskedTensor, torch.Tensor) => pad_tensors(batch, pad_value=pad_value)";
    "_ => batch" ].
Proof. reflexivity. Qed.

Lemma zero_pad_dispatch_src_tie : Gen_C20.zero_pad_dispatch_src = 
  [ "let datum = batch[0]";
    "str => batch";
    "tuple => tuple((collate_tensors([b[i] for b in batch]) for i in range(len(datum))))";
    "MaskedTensor => collate_tensors(batch)";
    "let keys = datum.keys()";
    "_ => {k: collate_tensors([b[k] for b in batch]) for k in keys}" ].
Proof. reflexivity. Qed.

Lemma default_mask_fill_src_tie : Gen_C20.default_mask_fill_src = C20_Collate.default_mask_fill.
Proof. reflexivity. Qed.
