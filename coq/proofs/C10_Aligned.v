(* C10 - alignment: after any program, every masked tensor has value and mask of identical shape
   (induction over the program, any length).  Needs three of the five switches in their repaired position;
   with the pinned switches the statement is refuted by three concrete programs (C10_Refuted.v). *)
From Coq Require Import List Arith ZArith Bool Lia.
Require Import Result Tensor Num C10_Tensor C10_Masked C10_TensorLemmas.
Import ListNotations.

Section Aligned.
Variable O : ops.
Variable trig : uname -> T O -> T O.
Notation mt := (mt O).
Notation exec := (exec O trig).
Notation run := (run O trig).

Definition al (m : mt) : Prop := shape (fst m) = shape (snd m).

Lemma get_in {X} (env : list X) r x : get env r = Ok x -> In x env.
Proof. unfold get. destruct (nth_error env r) eqn:E; [|discriminate]. intros [= <-]. eapply nth_error_In; eauto. Qed.
Lemma get_P {X} (P : X -> Prop) env r x : Forall P env -> get env r = Ok x -> P x.
Proof. intros H G. eapply Forall_forall; eauto using get_in. Qed.
Lemma gets_P {X} (P : X -> Prop) env rs xs : Forall P env -> gets env rs = Ok xs -> Forall P xs.
Proof. intros H. revert xs; induction rs as [|r rs IH]; cbn; intros xs G; [injection G as <-; constructor|].
  destruct (get env r) as [x|] eqn:Gx; cbn in G; [|discriminate].
  destruct (gets env rs) as [ys|] eqn:Gy; cbn in G; [|discriminate]. injection G as <-.
  constructor; [eapply get_P; eauto | now apply IH]. Qed.

Lemma wrap_al t : al (wrap O t).
Proof. reflexivity. Qed.
Lemma operands_al env os ms : Forall al env -> operands_mt O env os = Ok ms -> Forall al ms.
Proof. intros H. revert ms; induction os as [|o os IH]; cbn; intros ms G; [injection G as <-; constructor|].
  destruct (operand_mt O env o) as [x|] eqn:Gx; cbn in G; [|discriminate].
  destruct (operands_mt O env os) as [ys|] eqn:Gy; cbn in G; [|discriminate]. injection G as <-.
  constructor; [|now apply IH]. destruct o as [r|t]; cbn in Gx; [eapply get_P; eauto|]. injection Gx as <-. apply wrap_al. Qed.

Lemma exec_struct_al p m outs : al m -> exec_struct O p m = Ok outs -> Forall al outs.
Proof. unfold exec_struct, al. intros Ha. rewrite <- Ha.
  destruct (p (shape (fst m))) as [ps|e]; cbn; [|discriminate]. intros [= <-].
  induction ps as [|q ps IH]; cbn; constructor; [reflexivity | exact IH]. Qed.
Lemma bzip_shape {X Y Z} (dx : X) (dy : Y) (g : X -> Y -> Z) a b t ns :
  bzip dx dy g a b = Ok t -> broadcast_shapes (shape a) (shape b) = Ok ns -> shape t = ns.
Proof. intros H Hn. apply bzip_ok in H. destruct H as [ns' [H1 ->]]. rewrite Hn in H1. now injection H1 as <-. Qed.
Lemma bzip_al {X Y Z X' Y' Z'} (dx : X) (dy : Y) (g : X -> Y -> Z) (dx' : X') (dy' : Y') (g' : X' -> Y' -> Z') a b a' b' t t' :
  shape a = shape a' -> shape b = shape b' -> bzip dx dy g a b = Ok t -> bzip dx' dy' g' a' b' = Ok t' -> shape t = shape t'.
Proof. intros Ha Hb H H'. apply bzip_ok in H. apply bzip_ok in H'. destruct H as [n1 [H1 ->]], H' as [n2 [H2 ->]].
  rewrite Ha, Hb, H2 in H1. now injection H1 as <-. Qed.
Lemma broadcast_al {X} (d : X) target t r : apply_plan d (p_broadcast target) t = Ok r -> shape r = target.
Proof. unfold apply_plan, p_broadcast. destruct (bcompat_rev (rev (shape t)) (rev target)); [|discriminate]. now intros [= <-]. Qed.
Lemma multi_al {X Y} (dx : X) (dy : Y) p (a : list (tensor X)) (b : list (tensor Y)) ta tb :
  map shape a = map shape b -> multi dx p a = Ok ta -> multi dy p b = Ok tb -> shape ta = shape tb.
Proof. unfold multi. intros <-. destruct (p (map shape a)) as [[ns f]|]; [|discriminate]. now intros [= <-] [= <-]. Qed.
Lemma shapes_al (ms : list mt) : Forall al ms -> map shape (map fst ms) = map shape (map snd ms).
Proof. induction 1 as [|m ms Hm _ IH]; cbn; [reflexivity|]. now rewrite Hm, IH. Qed.
Lemma zero_filled_shape c m zf : al m -> zero_filled O c m = Ok zf -> shape zf = shape (snd m).
Proof. unfold zero_filled, al. intros Ha. destruct (zf_where c); intros H.
  - eapply bzip_shape; [exact H|]. rewrite Ha. apply broadcast_shapes_same.
  - eapply bzip_shape; [exact H|]. rewrite Ha. apply broadcast_shapes_same. Qed.
Lemma reduce_shape {X} (dflt : X) keep d t : shape (reduce dflt keep d t) =
  if keep then keep_shape d (shape t) else match d with Some d' => remove_at d' (shape t) | None => [] end.
Proof. unfold reduce. destruct keep; [reflexivity|]. destruct d; reflexivity. Qed.
Lemma mean_al c keep d m x : al m -> mean_mt O c keep d m = Ok x -> al x.
Proof. intros Ha. unfold mean_mt.
  destruct (zero_filled O c m) as [zf|] eqn:Hz; cbn; [|discriminate].
  pose proof (zero_filled_shape _ _ _ Ha Hz) as Hs. rewrite Hs.
  destruct (norm_opt d (length (shape (snd m)))) as [dv|]; cbn; [|discriminate].
  match goal with |- context [bzip ?aa ?bb ?gg ?ss ?kk] => destruct (bzip aa bb gg ss kk) as [q|] eqn:Hq end; cbn; [|discriminate].
  intros [= <-]. unfold al; cbn [fst snd tmap shape].
  eapply bzip_shape; [exact Hq|]. cbn [tmap shape]. rewrite !reduce_shape. cbn [tmap shape]. rewrite Hs. apply broadcast_shapes_same. Qed.
Lemma var_al c d m x : al m -> var_mt O c d m = Ok x -> al x.
Proof. intros Ha. unfold var_mt.
  destruct (mean_mt O c (var_keepdims c) d m) as [mu|] eqn:Hm; cbn; [|discriminate].
  pose proof (mean_al _ _ _ _ _ Ha Hm) as Hmu.
  match goal with |- context [bzip ?aa ?bb ?gg (fst m) ?kk] => destruct (bzip aa bb gg (fst m) kk) as [dv|] eqn:Hv end; cbn; [|discriminate].
  match goal with |- context [bzip ?aa ?bb ?gg (snd m) ?kk] => destruct (bzip aa bb gg (snd m) kk) as [dk|] eqn:Hk end; cbn; [|discriminate].
  apply mean_al. unfold al; cbn [fst snd tmap shape]. eapply bzip_al; [exact Ha | exact Hmu | exact Hv | exact Hk]. Qed.

(* the three switches alignment depends on *)
Definition shape_safe (c : cfg) : Prop := matmul_rowall c = true /\ plain_bcast c = true /\ unsq_listed c = false.

Lemma exec_al c f i env outs : shape_safe c -> Forall al env -> exec c f i env = Ok outs -> Forall al outs.
Proof. intros [Cm [Cp Cu]] He. unfold exec.
  destruct (plans_of O f i) as [[r p]|] eqn:Hp.
  { destruct (get env r) as [m|] eqn:G; cbn; [|discriminate]. apply exec_struct_al. eapply get_P; eauto. }
  destruct i; try discriminate.
  - (* IArith *)
    destruct (arith_ok O f op o); [|discriminate].
    destruct (get env r) as [m|] eqn:G; cbn; [|discriminate]. pose proof (get_P _ _ _ _ He G) as Ha.
    destruct o as [r2|t].
    + destruct (get env r2) as [m2|] eqn:G2; cbn; [|discriminate]. pose proof (get_P _ _ _ _ He G2) as Ha2.
      match goal with |- context [bzip ?aa ?bb ?gg (fst m) ?kk] => destruct (bzip aa bb gg (fst m) kk) as [v|] eqn:Hv end; cbn; [|discriminate].
      match goal with |- context [bzip ?aa ?bb ?gg (snd m) ?kk] => destruct (bzip aa bb gg (snd m) kk) as [k|] eqn:Hk end; cbn; [|discriminate].
      intros [= <-]. constructor; [|constructor]. unfold al; cbn [fst snd]. eapply bzip_al; [exact Ha | exact Ha2 | exact Hv | exact Hk].
    + match goal with |- context [bzip ?aa ?bb ?gg (fst m) ?kk] => destruct (bzip aa bb gg (fst m) kk) as [v|] eqn:Hv end; cbn; [|discriminate].
      rewrite Cp. destruct (apply_plan false (p_broadcast (shape v)) (snd m)) as [k|] eqn:Hk; cbn; [|discriminate].
      intros [= <-]. constructor; [|constructor]. unfold al; cbn [fst snd]. symmetry. eapply broadcast_al; exact Hk.
  - (* IDivM *)
    destruct f; [|discriminate].
    destruct (get env r) as [m|] eqn:G; cbn; [|discriminate]. pose proof (get_P _ _ _ _ He G) as Ha.
    destruct (get env r2) as [m2|] eqn:G2; cbn; [|discriminate]. pose proof (get_P _ _ _ _ He G2) as Ha2.
    match goal with |- context [bzip ?aa ?bb ?gg (fst m) ?kk] => destruct (bzip aa bb gg (fst m) kk) as [v|] eqn:Hv end; cbn; [|discriminate].
    destruct upd.
    + match goal with |- context [bzip ?aa ?bb ?gg (snd m) ?kk] => destruct (bzip aa bb gg (snd m) kk) as [k|] eqn:Hk end; cbn; [|discriminate].
      intros [= <-]. constructor; [|constructor]. unfold al; cbn [fst snd]. eapply bzip_al; [exact Ha | exact Ha2 | exact Hv | exact Hk].
    + rewrite Cp. destruct (apply_plan false (p_broadcast (shape v)) (snd m)) as [k|] eqn:Hk; cbn; [|discriminate].
      intros [= <-]. constructor; [|constructor]. unfold al; cbn [fst snd]. symmetry. eapply broadcast_al; exact Hk.
  - (* ISum *)
    destruct (sum_ok f d); [|discriminate].
    destruct (get env r) as [m|] eqn:G; cbn; [|discriminate]. pose proof (get_P _ _ _ _ He G) as Ha. unfold al in Ha. rewrite <- Ha.
    destruct (norm_opt d (length (shape (fst m)))) as [dv|]; cbn; [|discriminate].
    intros [= <-]. constructor; [|constructor]. unfold al; cbn [fst snd tmap shape].
    destruct dv; cbn; [now rewrite Ha | reflexivity].
  - (* ICat *)
    destruct (operands_mt O env os) as [ms|] eqn:Gm; cbn; [|discriminate]. pose proof (operands_al _ _ _ He Gm) as Hms.
    destruct (multi (z0 O) (cat_planZ d) (map fst ms)) as [v|] eqn:Hv; cbn; [|discriminate].
    destruct (multi false (cat_planZ d) (map snd ms)) as [k|] eqn:Hk; cbn; [|discriminate].
    intros [= <-]. constructor; [|constructor]. unfold al; cbn [fst snd]. eapply multi_al; [|exact Hv|exact Hk]. now apply shapes_al.
  - (* IStack *)
    destruct (gets env rs) as [ms|] eqn:Gm; cbn; [|discriminate]. pose proof (gets_P _ _ _ _ He Gm) as Hms.
    destruct (multi (z0 O) (stack_planZ d) (map fst ms)) as [v|] eqn:Hv; cbn; [|discriminate].
    destruct (multi false (stack_planZ d) (map snd ms)) as [k|] eqn:Hk; cbn; [|discriminate].
    intros [= <-]. constructor; [|constructor]. unfold al; cbn [fst snd]. eapply multi_al; [|exact Hv|exact Hk]. now apply shapes_al.
  - (* IMatmul *)
    destruct (get env r) as [x|] eqn:G; cbn; [|discriminate]. pose proof (get_P _ _ _ _ He G) as Ha. unfold al in Ha.
    destruct (matmul_ok (shape (fst x)) (shape m)); [|discriminate]. rewrite Cm.
    intros [= <-]. constructor; [|constructor]. unfold al; cbn [fst snd expand_last shape slices tabulate]. now rewrite Ha.
  - (* IStat *)
    destruct (stat_ok f); [|discriminate].
    destruct (get env r) as [m|] eqn:G; cbn; [|discriminate]. pose proof (get_P _ _ _ _ He G) as Ha.
    destruct k.
    + destruct (mean_mt O c false d m) as [x|] eqn:Hx; cbn; [|discriminate]. intros [= <-]. constructor; [|constructor]. eapply mean_al; eauto.
    + destruct (var_mt O c d m) as [x|] eqn:Hx; cbn; [|discriminate]. intros [= <-]. constructor; [|constructor]. eapply var_al; eauto.
    + destruct (var_mt O c d m) as [x|] eqn:Hx; cbn; [|discriminate]. intros [= <-]. constructor; [|constructor].
      pose proof (var_al _ _ _ _ Ha Hx) as Hv. exact Hv.
  - (* IZeroFill *)
    destruct (get env r) as [m|] eqn:G; cbn; [|discriminate].
    destruct (zero_filled O c m) as [zf|]; cbn; [|discriminate]. intros [= <-]. constructor; [|constructor]. apply wrap_al.
  - (* IUnary *)
    destruct (unary_ok f u meth); [|discriminate].
    destruct (get env r) as [m|] eqn:G; cbn; [|discriminate]. pose proof (get_P _ _ _ _ He G) as Ha.
    intros [= <-]. constructor; [|constructor]. exact Ha.
  - (* IUnsqueeze *)
    destruct f; [|discriminate]. rewrite Cu. discriminate.
Qed.

Theorem aligned_gen c f p : shape_safe c -> forall env env', Forall al env -> run c f p env = Ok env' -> Forall al env'.
Proof. intros Hc. induction p as [|i p IH]; cbn; intros env env' He H; [now injection H as <-|].
  destruct (exec c f i env) as [outs|] eqn:Hx; cbn in H; [|discriminate].
  eapply IH; [|exact H]. apply Forall_app. split; [exact He|]. eapply exec_al; eauto. Qed.

Theorem aligned f p env env' : Forall al env -> run repaired f p env = Ok env' -> Forall al env'.
Proof. apply aligned_gen. repeat split. Qed.
End Aligned.
