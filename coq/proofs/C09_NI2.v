(* C09 - non-interference, continued: normalisation, focus, bounding boxes, interpolation, serialisation round
   trip, feature representations. *)
From Coq Require Import List Arith Bool Lia.
Require Import Tensor Num Result C09_Masked C09_Ops C09_Core C09_NI.
Import ListNotations.

Section NI2.
Variable O : ops.
Variable E : ext O.
Notation T := (Num.T O).
Notation cell := (cell O).
Notation vis1 := (vis1 O).
Notation rd := (rd O).
Notation rdT := (rdT O).
Notation dcell := (dcell O).
Notation agree := (agree O).
Notation agree_l := (agree_l O).
Notation body := (body O).
Ltac split_body H := apply agree_body_iff in H; destruct H as [?Hd ?Hc].

(* ---- normalisation --------------------------------------------------------------------------------------- *)
Lemma point_block_agree a a' p : agree a a' -> agree_l (point_block O a p) (point_block O a' p).
Proof. intros H. unfold point_block. rewrite (agree_shape O _ _ H). apply agree_l_tab. intros k.
  apply rd_vis. apply agree_data. now apply transpose_agree. Qed.
Lemma np_normalize_ni p1 p2 sf b b' : agree_body O b b' ->
  agree_body O (np_normalize O E p1 p2 sf b) (np_normalize O E p1 p2 sf b').
Proof. intros H. split_body H. unfold np_normalize. rewrite <- (agree_shape O _ _ Hd), <- Hc.
  set (s := shape (bdat b)). set (D := dimn s 3). set (PF := dimn s 1 * dimn s 0).
  (* the centre is a function of the visible part *)
  assert (Hcen : red_lead O PF D (mmean O E) (ew_scalar O (mdiv O E)
                   (ew O (mbin O (add O)) (point_block O (bdat b) p2) (point_block O (bdat b) p1)) (plain O (two O))) =
                 red_lead O PF D (mmean O E) (ew_scalar O (mdiv O E)
                   (ew O (mbin O (add O)) (point_block O (bdat b') p2) (point_block O (bdat b') p1)) (plain O (two O)))).
  { apply red_lead_VIL; [apply VIL_mmean|]. apply ew_scalar_agree; [apply VC2_mdiv| |reflexivity].
    apply ew_agree; [apply VC2_mbin|now apply point_block_agree|now apply point_block_agree]. }
  rewrite <- Hcen. set (center := red_lead O PF D _ _).
  assert (Hd1 : agree (mkT s (ew_trail O (misub O) (data (bdat b)) D center)) (mkT s (ew_trail O (misub O) (data (bdat b')) D center))).
  { apply agree_mkT. apply ew_trail_agree; [apply VC2_misub|now apply agree_data|apply agree_l_refl]. }
  set (d1 := mkT s (ew_trail O (misub O) (data (bdat b)) D center)) in *.
  set (d1' := mkT s (ew_trail O (misub O) (data (bdat b')) D center)) in *.
  assert (Hmd : mmean O E (ew1 O (mpow O E (sqrt O)) (red_last O PF D (msum O)
                   (ew1 O (mpow O E (sqr O)) (ew O (mbin O (sub O)) (point_block O d1 p1) (point_block O d1 p2))))) =
                mmean O E (ew1 O (mpow O E (sqrt O)) (red_last O PF D (msum O)
                   (ew1 O (mpow O E (sqr O)) (ew O (mbin O (sub O)) (point_block O d1' p1) (point_block O d1' p2)))))).
  { f_equal. f_equal. apply red_last_VIL; [apply VIL_msum|]. apply ew1_agree; [apply VC1_mpow|].
    apply ew_agree; [apply VC2_mbin|now apply point_block_agree|now apply point_block_agree]. }
  rewrite <- Hmd. apply agree_body_iff; cbn [bdat bconf]. split; [|reflexivity].
  apply agree_mkT. apply ew_scalar_agree; [apply VC2_mbin|now apply (agree_data O _ _ Hd1)|reflexivity]. Qed.

Lemma np_normalize_distribution_ni lead b b' : agree_body O b b' ->
  agree_body O (fst (np_normalize_distribution O E lead b)) (fst (np_normalize_distribution O E lead b')) /\
  snd (np_normalize_distribution O E lead b) = snd (np_normalize_distribution O E lead b').
Proof. intros H. split_body H. unfold np_normalize_distribution; cbn [fst snd]. rewrite <- (agree_shape O _ _ Hd), <- Hc.
  pose proof (agree_data O _ _ Hd) as Hl.
  rewrite <- (red_lead_VIL O _ _ _ _ _ (VIL_mmean O E) Hl), <- (red_lead_VIL O _ _ _ _ _ (VIL_mstd O E) Hl).
  split; [|reflexivity]. apply agree_body_iff; cbn [bdat bconf]. split; [|reflexivity]. apply agree_mkT.
  apply ew_trail_agree; [apply VC2_mdiv| |apply agree_l_refl].
  apply ew_trail_agree; [apply VC2_mbin|exact Hl|apply agree_l_refl]. Qed.
Lemma np_unnormalize_distribution_ni mu sd b b' : agree_body O b b' ->
  agree_body O (np_unnormalize_distribution O mu sd b) (np_unnormalize_distribution O mu sd b').
Proof. intros H. split_body H. unfold np_unnormalize_distribution. rewrite <- (agree_shape O _ _ Hd), <- Hc.
  apply agree_body_iff; cbn [bdat bconf]. split; [|reflexivity]. apply agree_mkT.
  apply ew_trail_agree; [apply VC2_mbin| |apply agree_l_refl].
  apply ew_trail_agree; [apply VC2_mbin|now apply agree_data|apply agree_l_refl]. Qed.

(* ---- focus ----------------------------------------------------------------------------------------------- *)
Definition vfocus (r : result (body * list T)) := rmap (fun x => (visible_body O (fst x), snd x)) r.
Lemma np_focus_ni b b' : agree_body O b b' -> vfocus (np_focus O E b) = vfocus (np_focus O E b').
Proof. intros H. split_body H. unfold np_focus. rewrite <- (agree_shape O _ _ Hd), <- Hc.
  pose proof (agree_data O _ _ Hd) as Hl.
  rewrite <- (red_lead_VIL O _ _ _ _ _ (VIL_mmin O E) Hl), <- (red_lead_VIL O _ _ _ _ _ (VIL_mmax O E) Hl).
  match goal with |- context [if ?c then Err _ else _] => destruct c end; [reflexivity|].
  unfold vfocus; cbn [rmap fst snd]. f_equal. f_equal.
  apply agree_body_iff; cbn [bdat bconf]. split; [|reflexivity]. apply agree_mkT.
  match goal with |- context [if ?c then _ else _] => destruct c end; [|exact Hl].
  apply ew_trail_agree; [apply VC2_mbin|exact Hl|apply agree_l_refl]. Qed.

(* ---- bounding boxes -------------------------------------------------------------------------------------- *)
Lemma comp_box_eq blk tr tr' on : agree_l tr tr' -> comp_box O E blk tr on = comp_box O E blk tr' on.
Proof. intros H. unfold comp_box. cbv zeta.
  assert (Hs : agree_l (tab (snd on * blk) (fun k => rd tr (fst on * blk + k))) (tab (snd on * blk) (fun k => rd tr' (fst on * blk + k)))).
  { apply agree_l_tab. intros k. now apply rd_vis. }
  now rewrite (red_lead_VIL O _ _ _ _ _ (VIL_mmin O E) Hs), (red_lead_VIL O _ _ _ _ _ (VIL_mmax O E) Hs). Qed.
Lemma np_bbox_ni comps b b' : agree_body O b b' -> vres O (np_bbox O E comps b) = vres O (np_bbox O E comps b').
Proof. intros H. split_body H. unfold np_bbox. rewrite <- (agree_shape O _ _ Hd).
  assert (Htr : agree_l (data (transpose dcell POINTS_DIMS (bdat b))) (data (transpose dcell POINTS_DIMS (bdat b')))).
  { apply agree_data. now apply transpose_agree. }
  cbv zeta. rewrite (flat_map_ext _ _ (fun on => comp_box_eq _ _ _ on Htr)). reflexivity. Qed.

(* ---- interpolation --------------------------------------------------------------------------------------- *)
Lemma VIL_compressed : VIL O (compressed O).
Proof. intros l l' H. unfold compressed. revert l' H. unfold C09_Masked.agree_l.
  induction l as [|c l IH]; intros [|c' l'] H; cbn [map filter] in *; try discriminate; [reflexivity|].
  apply cons_inj in H; destruct H as [H1 H2]. pose proof (vis1_snd O _ _ H1) as Hs. rewrite Hs.
  destruct (snd c') eqn:Em; cbn [negb map]; [now apply IH|]. f_equal; [|now apply IH].
  apply (vis1_fst O _ _ H1). congruence. Qed.
Lemma interp_track_VIL dl kind F NF W steps new_steps : VIL O (interp_track O E dl kind F NF W steps new_steps).
Proof. intros l l' H. unfold interp_track.
  assert (Hm : tab F (fun f => snd (rd l (f * W + (W - 1)))) = tab F (fun f => snd (rd l' (f * W + (W - 1))))).
  { apply tab_ext. intros f. apply vis1_snd. now apply rd_vis. }
  rewrite Hm, (VIL_compressed _ _ H). reflexivity. Qed.
Lemma rmapM_ext {A B} (f g : A -> result B) l : (forall x, f x = g x) -> rmapM f l = rmapM g l.
Proof. intros H. induction l as [|x l IH]; [reflexivity|]. cbn [rmapM]. now rewrite H, IH. Qed.
Lemma interp_tracks_eq dl kind F NF D steps new_steps tr tr' ctr n : agree_l tr tr' ->
  interp_tracks O E dl kind F NF D steps new_steps tr ctr n = interp_tracks O E dl kind F NF D steps new_steps tr' ctr n.
Proof. intros H. unfold interp_tracks. apply rmapM_ext. intros tp. apply interp_track_VIL. unfold track_cells.
  apply agree_l_tab. intros k. cbv zeta. destruct (Nat.eqb _ _); [reflexivity|]. now apply rd_vis. Qed.
Lemma np_interpolate_ni dl kind NF b b' : agree_body O b b' ->
  vres O (np_interpolate O E dl kind NF b) = vres O (np_interpolate O E dl kind NF b').
Proof. intros H. split_body H. unfold np_interpolate. rewrite <- (agree_shape O _ _ Hd), <- Hc.
  assert (Htr : agree_l (data (transpose dcell POINTS_DIMS (bdat b))) (data (transpose dcell POINTS_DIMS (bdat b')))).
  { apply agree_data. now apply transpose_agree. }
  cbv zeta. now rewrite (interp_tracks_eq _ _ _ _ _ _ _ _ _ _ _ Htr). Qed.

(* ---- serialisation round trip ------------------------------------------------------------------------------ *)
(* needs the class invariant (what is masked has confidence 0: the mask is not stored), aligned lengths, and that
   the float32 cast keeps a zero confidence zero *)
Definition wf_body (b : body) : Prop :=
  length (data (bdat b)) = length (data (bconf b)) * lastd (shape (bdat b)).
Lemma np_roundtrip_ni b b' :
  (forall x, is0 O x = true -> is0 O (cast32 E x) = true) ->
  wf_body b -> mask_le_conf O b -> mask_le_conf O b' -> agree_body O b b' ->
  agree_body O (np_roundtrip O E b) (np_roundtrip O E b').
Proof. intros Hcast Hwf Hi Hi' H. split_body H. unfold np_roundtrip, np_read, np_write, np_ctor, of_plain, tmap; cbn [fst snd bdat bconf shape data].
  pose proof (agree_shape O _ _ Hd) as Hs. pose proof (agree_data O _ _ Hd) as Hl.
  apply agree_body_iff; cbn [bdat bconf]. split; [|now rewrite Hc].
  apply agree_iff; cbn [shape data]. split; [exact Hs|].
  pose proof (agree_l_len O _ _ Hl) as Hlen. unfold C09_Masked.cell in *.
  rewrite !map_length, <- Hlen, <- Hc, <- Hs. apply agree_l_tab_lt. intros k Hk.
  set (D := lastd (shape (bdat b))) in *.
  assert (Hk' : k < length (data (bdat b'))) by (unfold C09_Masked.cell; rewrite <- Hlen; exact Hk).
  assert (Hq : k / D < length (data (bconf b))).
  { unfold wf_body in Hwf. fold D in Hwf. unfold C09_Masked.cell in *.
    assert (HD : D <> 0) by (intros E0; rewrite E0 in Hwf; lia).
    apply Nat.div_lt_upper_bound; [exact HD|]. nia. }
  unfold C09_Masked.rd, C09_Masked.rdT.
  rewrite !(nth_indep (map (plain O) _) dcell (plain O (zero O))) by (rewrite !map_length; assumption).
  rewrite !(map_nth (plain O)).
  rewrite !(nth_indep (map (fun x : cell => cast32 E (fst x)) _) (zero O) (cast32 E (fst dcell))) by (rewrite map_length; assumption).
  rewrite !(map_nth (fun x : cell => cast32 E (fst x))).
  rewrite (nth_indep (map (cast32 E) _) (zero O) (cast32 E (zero O))) by (rewrite map_length; assumption).
  rewrite (map_nth (cast32 E)).
  unfold plain; cbn [fst snd orb]. apply vis1_eq; cbn [fst snd]. split; [reflexivity|]. intros Hz. f_equal.
  (* the confidence is not zero, so the slot is visible in both bodies *)
  pose proof (rd_vis O _ _ k Hl) as Hv. unfold C09_Masked.rd in Hv.
  apply (vis1_fst O _ _ Hv).
  destruct (snd (nth k (data (bdat b)) dcell)) eqn:Em; [|exact Em].
  specialize (Hi k Hk Em). unfold C09_Masked.rdT in Hi. apply Hcast in Hi.
  exact (False_ind _ (diff_true_false (eq_trans (eq_sym Hi) Hz))). Qed.
(* the constructors establish the invariant *)
Lemma np_ctor_plain_inv raw conf : mask_le_conf O (np_ctor O (of_plain O raw) conf).
Proof. unfold mask_le_conf, np_ctor, of_plain, tmap; cbn [bdat bconf shape data]. intros k Hk. rewrite tab_length, map_length in Hk.
  rewrite rd_tab. rewrite map_length. apply Nat.ltb_lt in Hk. rewrite Hk; cbn [snd]. apply Nat.ltb_lt in Hk.
  unfold C09_Masked.rd. rewrite (nth_indep _ dcell (plain O (zero O))) by (now rewrite map_length). rewrite map_nth.
  unfold plain; cbn [snd orb]. auto. Qed.

(* ---- feature representations ------------------------------------------------------------------------------- *)
Lemma lanes_agree a a' : agree a a' -> lanes O a = lanes O a'.
Proof. intros H. unfold lanes. now rewrite (agree_shape O _ _ H), (agree_l_len O _ _ (agree_data O _ _ H)). Qed.
Lemma np_rep_distance_ni p1 p1' p2 p2' : agree p1 p1' -> agree p2 p2' ->
  np_rep_distance O E p1 p2 = np_rep_distance O E p1' p2'.
Proof. intros H1 H2. unfold np_rep_distance. rewrite <- (agree_shape O _ _ H1), <- (lanes_agree _ _ H1). f_equal. f_equal. f_equal.
  apply red_last_VIL; [apply VIL_msum|]. apply ew1_agree; [apply VC1_mpow|].
  apply ew_agree; [apply VC2_mbin|now apply agree_data|now apply agree_data]. Qed.
Lemma t_distance_agree p1 p1' p2 p2' : agree p1 p1' -> agree p2 p2' -> agree_l (t_distance O p1 p2) (t_distance O p1' p2').
Proof. intros H1 H2. unfold t_distance. rewrite <- (agree_shape O _ _ H1), <- (lanes_agree _ _ H1).
  apply ew1_agree; [apply VC1_tun|]. apply red_last_VCL; [apply VCL_tsum|]. apply ew1_agree; [apply VC1_tun|].
  apply ew_agree; [apply VC2_tbin|now apply agree_data|now apply agree_data]. Qed.
Lemma t_rep_distance_ni p1 p1' p2 p2' : agree p1 p1' -> agree p2 p2' -> t_rep_distance O p1 p2 = t_rep_distance O p1' p2'.
Proof. intros H1 H2. unfold t_rep_distance. rewrite <- (agree_shape O _ _ H1). f_equal.
  apply map_VI1; [apply VI1_tzero|now apply t_distance_agree]. Qed.
Lemma t_rep_angle_ni p1 p1' p2 p2' : agree p1 p1' -> agree p2 p2' -> t_rep_angle O E p1 p2 = t_rep_angle O E p1' p2'.
Proof. intros H1 H2. unfold t_rep_angle. rewrite <- (agree_shape O _ _ H1), <- (lanes_agree _ _ H1).
  destruct (Nat.ltb _ 2); [reflexivity|]. cbv zeta. f_equal. f_equal. f_equal.
  assert (Hd : agree_l (ew O (tbin O (sub O)) (data p2) (data p1)) (ew O (tbin O (sub O)) (data p2') (data p1'))).
  { apply ew_agree; [apply VC2_tbin|now apply agree_data|now apply agree_data]. }
  apply map_VI1; [apply VI1_tzero|]. apply ew1_agree; [apply VC1_tfixnan|].
  apply ew_agree; [apply VC2_tbin| |]; apply agree_l_tab; intros i; now apply rd_vis. Qed.
Lemma t_vectors_norm_agree D v v' : agree_l v v' -> agree_l (t_vectors_norm O D v) (t_vectors_norm O D v').
Proof. intros H. unfold t_vectors_norm. rewrite <- (agree_l_len O _ _ H). apply agree_l_tab. intros k.
  apply VC2_tbin; [now apply rd_vis|]. apply rd_vis. apply ew1_agree; [apply VC1_tun|].
  apply red_last_VCL; [apply VCL_tsum|]. apply ew1_agree; [apply VC1_tun|exact H]. Qed.
Lemma t_rep_inner_angle_ni p1 p1' p2 p2' p3 p3' : agree p1 p1' -> agree p2 p2' -> agree p3 p3' ->
  t_rep_inner_angle O E p1 p2 p3 = t_rep_inner_angle O E p1' p2' p3'.
Proof. intros H1 H2 H3. unfold t_rep_inner_angle. rewrite <- (agree_shape O _ _ H1), <- (lanes_agree _ _ H1). f_equal. f_equal.
  apply map_VI1; [apply VI1_tzero|]. apply ew1_agree; [apply VC1_tun|]. apply red_last_VCL; [apply VCL_tsum|].
  apply ew_agree; [apply VC2_tbin| |]; apply t_vectors_norm_agree;
  (apply ew_agree; [apply VC2_tbin|now apply agree_data|now apply agree_data]). Qed.
Lemma t_rep_point_line_ni p1 p1' p2 p2' p3 p3' : agree p1 p1' -> agree p2 p2' -> agree p3 p3' ->
  t_rep_point_line O p1 p2 p3 = t_rep_point_line O p1' p2' p3'.
Proof. intros H1 H2 H3. unfold t_rep_point_line. rewrite <- (agree_shape O _ _ H1). f_equal.
  pose proof (t_distance_agree _ _ _ _ H1 H2) as Ha. pose proof (t_distance_agree _ _ _ _ H2 H3) as Hb.
  pose proof (t_distance_agree _ _ _ _ H1 H3) as Hc.
  set (s := ew1 O (tun O (fun x => div O x (two O))) _).
  set (s' := ew1 O (tun O (fun x => div O x (two O))) (ew O (tbin O (add O)) (ew O (tbin O (add O)) (t_distance O p1' p2') (t_distance O p2' p3')) (t_distance O p1' p3'))).
  assert (Hs : agree_l s s').
  { apply ew1_agree; [apply VC1_tun|]. repeat (apply ew_agree; [apply VC2_tbin| |]); assumption. }
  apply map_VI1; [apply VI1_tzero|]. apply ew1_agree; [apply VC1_tfixnan|].
  apply ew_agree; [apply VC2_tbin| |exact Hb]. apply ew1_agree; [apply VC1_tun|]. apply ew1_agree; [apply VC1_tun|].
  repeat (apply ew_agree; [apply VC2_tbin| |]); try assumption. Qed.
Lemma t_rep_points_ni p1 p1' : agree p1 p1' -> t_rep_points O p1 = t_rep_points O p1'.
Proof. intros H. unfold t_rep_points.
  assert (Hz : tmap (tzero O) p1 = tmap (tzero O) p1').
  { unfold tmap. rewrite (agree_shape O _ _ H). f_equal. apply map_VI1; [apply VI1_tzero|now apply agree_data]. }
  now rewrite Hz. Qed.

End NI2.
