(* C20: the fields of a batch of dictionaries are gathered BY KEY: examples whose dictionaries answer every key lookup alike
   (in particular the same items in another insertion order, keys distinct) are collated alike. *)
From Coq Require Import List ZArith Bool Permutation.
Require Import Result C20_Collate.
Import ListNotations.

Definition same_lookups (b b' : value) : Prop := forall k, field k b = field k b'.

Lemma rmapM_field_same k : forall rest rest', Forall2 same_lookups rest rest' -> rmapM (field k) rest = rmapM (field k) rest'.
Proof.
  induction 1 as [|b b' rest rest' Hb HF IH]; [reflexivity|]. cbn [rmapM]. rewrite (Hb k), IH. reflexivity.
Qed.
Lemma collate_fields_same f rest rest' : Forall2 same_lookups rest rest' ->
  forall kvs, collate_fields f rest kvs = collate_fields f rest' kvs.
Proof.
  intros HF kvs. induction kvs as [|[k v] kvs IH]; [reflexivity|]. cbn [collate_fields].
  rewrite (rmapM_field_same k rest rest' HF), IH. reflexivity.
Qed.
Theorem dict_batch_by_key kvs rest rest' pv : Forall2 same_lookups rest rest' ->
  collate_t (VDict kvs) rest pv = collate_t (VDict kvs) rest' pv.
Proof. intros HF. cbn [collate_t]. rewrite (collate_fields_same _ rest rest' HF). reflexivity. Qed.

(* a permutation of the items of a dictionary with distinct keys answers every lookup alike *)
Lemma assoc_perm {V} (l l' : list (key * V)) : NoDup (map fst l) -> Permutation l l' -> forall k, assoc k l = assoc k l'.
Proof.
  intros ND HP. induction HP as [|[k0 v0] l l' HP IH|[k0 v0] [k1 v1] l|l l' l'' H1 IH1 H2 IH2]; intros k.
  - reflexivity.
  - cbn [assoc]. destruct (list_eq_dec Z.eq_dec k k0); [reflexivity|]. apply IH. cbn in ND. now inversion ND.
  - cbn [assoc]. destruct (list_eq_dec Z.eq_dec k k1) as [E1|N1]; destruct (list_eq_dec Z.eq_dec k k0) as [E0|N0]; try reflexivity.
    subst. cbn in ND. inversion ND as [|? ? Hn _]. exfalso. apply Hn. left. reflexivity.
  - rewrite IH1 by exact ND. apply IH2. eapply Permutation_NoDup; [|exact ND]. apply Permutation_map. exact H1.
Qed.
Theorem permuted_items_same_lookups kvs kvs' : NoDup (map fst kvs) -> Permutation kvs kvs' ->
  same_lookups (VDict kvs) (VDict kvs').
Proof. intros ND HP k. unfold field. now rewrite (assoc_perm kvs kvs' ND HP k). Qed.
