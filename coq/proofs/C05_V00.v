(* C05: parsePose on a v0.0 file of the reference encoder (docs/specs/v0.0.md): every float of every person is found
   under its component name, point index and format letter; in particular the first person of each frame. *)
From Coq Require Import ZArith NArith List Lia ZifyBool ZifyN ZifyNat Bool Arith.
Require Import ListN Result Bytes Utf8 Utf8S F32 Prog Codec ProgLemmas CodecRT
  C05_JsParser C05_Spec C05_View C05_Lemmas C05_Header C05_HeaderView C05_Body C05_Index C05_Main.
Import ListNotations.
Open Scope N_scope.

(* ---------- more stepping lemmas ---------- *)
Lemma i16_rt z r : (-32768 <= z < 32768)%Z -> dec_i16 (enc_i16 z ++ r) = z.
Proof.
  intros Hz. unfold dec_i16, enc_i16. rewrite u16_rt by lia.
  destruct (Z.ltb_spec (Z.of_N (Z.to_N (z mod 65536))) 32768); lia.
Qed.
Lemma run_i16 k rest vars pre z post : (-32768 <= z < 32768)%Z ->
  run true (Fld KI16 k rest) vars (pre ++ enc_i16 z ++ post) (lenN pre)
  = run true rest (obj_set vars k (VNum z)) ((pre ++ enc_i16 z) ++ post) (lenN (pre ++ enc_i16 z)).
Proof.
  intros Hz. cbn [run]. unfold rd_field.
  assert (L : lenN (enc_i16 z) = 2) by reflexivity.
  destruct (N.leb_spec (lenN pre + 2) (lenN (pre ++ enc_i16 z ++ post))) as [_|H]; [|rewrite lenN_app3, L in H; lia].
  rewrite drop_pre, i16_rt by exact Hz. rewrite lenN_app, L, <- app_assoc. reflexivity.
Qed.
Lemma run_arr_const k elem n f rest vars pre es os post :
  Forall2 (RS elem) es os -> n = Z.of_N (lenN os) ->
  run true (Arr k elem (LenConst n) f rest) vars (pre ++ concat es ++ post) (lenN pre)
  = run true rest (obj_set vars k (apply_fmt f os)) ((pre ++ concat es) ++ post) (lenN (pre ++ concat es)).
Proof.
  intros HF ->. cbn [run eval_len]. destruct (Z.ltb_spec (Z.of_N (lenN os)) 0); [lia|].
  rewrite N2Z.id, to_nat_lenN. rewrite (rep_RS _ _ _ HF pre post). rewrite <- app_assoc. reflexivity.
Qed.

(* ---------- one point: a float per letter, assigned in order ---------- *)
Fixpoint point_obj (fmt ws : list N) (vars : obj) : obj :=
  match fmt, ws with
  | c :: f, w :: r => point_obj f r (obj_set vars [c] (VF32 w))
  | _, _ => vars
  end.
Lemma run_point fmt : forall ws vars pre post, length ws = length fmt -> Forall word32 ws ->
  run true (point_schema fmt) vars (pre ++ flat_map enc_u32 ws ++ post) (lenN pre)
  = Some (point_obj fmt ws vars, lenN (pre ++ flat_map enc_u32 ws)).
Proof.
  induction fmt as [|c fmt IH]; intros [|w ws] vars pre post Hl Hw; try discriminate.
  - cbn [point_schema fold_right run flat_map point_obj app]. now rewrite app_nil_r.
  - inversion Hw as [|? ? Hw0 Hws]; subst. cbn [point_schema fold_right flat_map point_obj]. fold (point_schema fmt).
    rewrite <- app_assoc. rewrite run_f32 by exact Hw0.
    rewrite (IH ws _ (pre ++ enc_u32 w) post); [|cbn [length] in Hl; lia|exact Hws].
    now rewrite <- app_assoc.
Qed.
Lemma RS_point fmt ws : length ws = length fmt -> Forall word32 ws -> RS (point_schema fmt) (flat_map enc_u32 ws) (point_obj fmt ws []).
Proof. intros Hl Hw pre post. now apply run_point. Qed.
(* the letter at position d, not repeated later, holds the d-th float *)
Lemma point_obj_other fmt : forall ws vars x, ~ In x fmt -> obj_get (point_obj fmt ws vars) [x] = obj_get vars [x].
Proof.
  induction fmt as [|c fmt IH]; intros [|w ws] vars x Hx; cbn [point_obj]; try reflexivity.
  rewrite IH by (intros H; apply Hx; now right). apply obj_get_set_other. intros [= E]. apply Hx. now left.
Qed.
Lemma point_obj_at fmt : forall ws vars d x, length ws = length fmt -> nth_error fmt d = Some x -> ~ In x (skipn (S d) fmt) ->
  obj_get (point_obj fmt ws vars) [x] = Some (VF32 (nth d ws 0)).
Proof.
  induction fmt as [|c fmt IH]; intros [|w ws] vars d x Hl Hd Hlater; try discriminate; [destruct d; discriminate|].
  destruct d as [|d]; cbn [nth_error point_obj nth skipn length] in *.
  - injection Hd as ->. rewrite point_obj_other by exact Hlater. now rewrite obj_get_set_same.
  - apply IH; [lia|exact Hd|exact Hlater].
Qed.

(* ---------- one person ---------- *)
Definition points_val (c : jcomp) (pts : list (list N)) : value := VArr (map (fun ws => VObj (point_obj (jc_format c) ws [])) pts).
Fixpoint person_obj (comps : list jcomp) (floats : list (list (list N))) (vars : obj) : obj :=
  match comps, floats with
  | c :: cs, pts :: r => person_obj cs r (obj_set vars (jc_name c) (points_val c pts))
  | _, _ => vars
  end.
Definition enc_floats (floats : list (list (list N))) : bytes :=
  flat_map (fun comp => flat_map (fun pt => flat_map enc_u32 pt) comp) floats.
Definition wf_floats (comps : list jcomp) (floats : list (list (list N))) : Prop :=
  Forall2 (fun c pts => Z.of_N (lenN pts) = jc_npoints c /\
                        Forall (fun pt => length pt = length (jc_format c) /\ Forall word32 pt) pts) comps floats.
Definition comps_schema (comps : list jcomp) : schema :=
  fold_right (fun c r => Arr (jc_name c) (point_schema (jc_format c)) (LenConst (jc_npoints c)) FmtNone r) Done comps.
Lemma points_RS c pts : Forall (fun pt => length pt = length (jc_format c) /\ Forall word32 pt) pts ->
  Forall2 (RS (point_schema (jc_format c))) (map (flat_map enc_u32) pts) (map (fun ws => point_obj (jc_format c) ws []) pts).
Proof. induction 1 as [|pt pts [Hl Hw] _ IH]; cbn [map]; constructor; [now apply RS_point|exact IH]. Qed.
Lemma run_comps comps : forall floats vars pre post, wf_floats comps floats ->
  run true (comps_schema comps) vars (pre ++ enc_floats floats ++ post) (lenN pre)
  = Some (person_obj comps floats vars, lenN (pre ++ enc_floats floats)).
Proof.
  induction comps as [|c comps IH]; intros floats vars pre post Hwf; inversion Hwf as [|? pts ? fl [Hn Hp] Hrest]; subst.
  - cbn [comps_schema fold_right run enc_floats flat_map person_obj app]. now rewrite app_nil_r.
  - cbn [comps_schema fold_right enc_floats flat_map person_obj]. fold (comps_schema comps). fold (enc_floats fl).
    rewrite (flat_map_concat_map (fun pt => flat_map enc_u32 pt) pts). rewrite <- app_assoc.
    rewrite (run_arr_const _ _ _ _ _ _ _ _ _ _ (points_RS c pts Hp)) by (rewrite lenN_map; now symmetry).
    rewrite (IH fl _ (pre ++ concat (map (flat_map enc_u32) pts)) post Hrest).
    cbn [apply_fmt]. unfold points_val. rewrite map_map. now rewrite <- app_assoc.
Qed.
Definition jperson_obj (comps : list jcomp) (p : person0) : obj := person_obj comps (snd p) [(k_id, VNum (fst p))].
Lemma RS_person comps (p : person0) : (-32768 <= fst p < 32768)%Z -> wf_floats comps (snd p) ->
  RS (person_schema comps) (enc_person p) (jperson_obj comps p).
Proof.
  intros Hid Hwf pre post. unfold person_schema, enc_person. fold (comps_schema comps). fold (enc_floats (snd p)).
  rewrite <- app_assoc. rewrite run_i16 by exact Hid.
  rewrite (run_comps comps (snd p) _ (pre ++ enc_i16 (fst p)) post Hwf). now rewrite <- app_assoc.
Qed.
Lemma person_obj_other comps : forall floats vars name, ~ In name (map jc_name comps) ->
  obj_get (person_obj comps floats vars) name = obj_get vars name.
Proof.
  induction comps as [|c comps IH]; intros [|pts fl] vars name Hn; cbn [person_obj]; try reflexivity.
  rewrite IH by (intros H; apply Hn; now right). apply obj_get_set_other. intros E. apply Hn. now left.
Qed.
Lemma person_obj_at comps : forall floats vars n c, length floats = length comps -> nth_error comps n = Some c ->
  ~ In (jc_name c) (map jc_name (skipn (S n) comps)) ->
  obj_get (person_obj comps floats vars) (jc_name c) = Some (points_val c (nth n floats [])).
Proof.
  induction comps as [|c0 comps IH]; intros [|pts fl] vars n c Hl Hn Hlater; try discriminate; [destruct n; discriminate|].
  destruct n as [|n]; cbn [nth_error person_obj nth skipn length] in *.
  - injection Hn as ->. rewrite person_obj_other by exact Hlater. now rewrite obj_get_set_same.
  - apply IH; [lia|exact Hn|exact Hlater].
Qed.

(* ---------- frames and the body ---------- *)
Definition jframe_obj (comps : list jcomp) (people : list person0) : obj :=
  [(k__people, VNum (Z.of_N (lenN people))); (k_people, VArr (map (fun p => VObj (jperson_obj comps p)) people))].
Definition wf_people (comps : list jcomp) (people : list person0) : Prop :=
  lenN people < 65536 /\ Forall (fun p => (-32768 <= fst p < 32768)%Z /\ wf_floats comps (snd p)) people.
Lemma people_RS comps people : Forall (fun p => (-32768 <= fst p < 32768)%Z /\ wf_floats comps (snd p)) people ->
  Forall2 (RS (person_schema comps)) (map enc_person people) (map (jperson_obj comps) people).
Proof. induction 1 as [|p people [Hid Hwf] _ IH]; cbn [map]; constructor; [now apply RS_person|exact IH]. Qed.
Lemma RS_frame comps people : wf_people comps people -> RS (frame_schema comps) (enc_frame people) (jframe_obj comps people).
Proof.
  intros [Hn Hp] pre post. unfold frame_schema, enc_frame. rewrite <- app_assoc. rewrite run_u16 by exact Hn.
  rewrite (flat_map_concat_map enc_person people).
  rewrite (run_arr _ _ _ _ _ _ _ _ _ _ (people_RS comps people Hp)) by (rewrite lenN_map; reflexivity).
  cbn [run apply_fmt]. unfold jframe_obj. rewrite map_map. now rewrite <- !app_assoc.
Qed.
Lemma frames_RS comps frames : Forall (wf_people comps) frames ->
  Forall2 (RS (frame_schema comps)) (map enc_frame frames) (map (jframe_obj comps) frames).
Proof. induction 1 as [|f frames Hf _ IH]; cbn [map]; constructor; [now apply RS_frame|exact IH]. Qed.

Definition zcomps (q : lpose0) : list component := map canon_comp (z_comps q).
Definition zjcomps (q : lpose0) : list jcomp := map jcomp_of_comp (zcomps q).
Definition body_obj_v00 (q : lpose0) : obj :=
  [(k_fps, VNum (Z.of_N (z_fps q))); (k__frames, VNum (Z.of_N (lenN (z_frames q))));
   (k_frames, VArr (map (fun f => VObj (jframe_obj (zjcomps q) f)) (z_frames q)))].
Lemma js_class_v00 : js_version_class 0 = V00.
Proof. vm_compute. reflexivity. Qed.

(* the reference encoder's well-formedness, in terms of what the JavaScript side takes from the header *)
Lemma wf_person_floats (comps : list wcomponent) (p : person0) : Forall wcomp_plain comps -> wf_person comps p ->
  (-32768 <= fst p < 32768)%Z /\ wf_floats (map jcomp_of_comp (map canon_comp comps)) (snd p).
Proof.
  intros Hplain [Hid HF]. split; [exact Hid|]. unfold wf_floats.
  induction HF as [|c pts comps fl [Hn Hp] _ IH]; cbn [map]; constructor.
  - inversion Hplain as [|? ? [[_ [Hb _]] _] _]; subst.
    cbn [jcomp_of_comp canon_comp jc_npoints jc_format c_points c_format]. rewrite (strip_no_bom _ Hb).
    split; [unfold lenN; lia|exact Hp].
  - apply IH. now inversion Hplain.
Qed.

Theorem js_parse_v00 q bs : spec_v00 q = Ok bs -> wf_lpose0 q -> Forall wcomp_plain (z_comps q) ->
  exists h, write_header (z_dims q) (z_comps q) = Ok h /\
  parse_pose bs = Some {| jp_header := js_header_obj (header_of_v 0 (z_dims q) (z_comps q)) (lenN h);
                          jp_info := [(k_fps, VNum (Z.of_N (z_fps q))); (k__frames, VNum (Z.of_N (lenN (z_frames q))))];
                          jp_nframes := Z.of_nat (length (z_frames q));
                          jp_frame := fun i => if (i <? 0)%Z then VUndef
                                               else nth (Z.to_nat i) (map (fun f => VObj (jframe_obj (zjcomps q) f)) (z_frames q)) VUndef |}.
Proof.
  intros H [Hfps [HnF Hfr]] Hplain.
  unfold spec_v00 in H. apply rbind_ok in H. destruct H as [h [Hh H]]. apply Ok_inj in H. subst bs.
  exists h. split; [exact Hh|].
  assert (Hv : 0 < 4294967296) by reflexivity.
  destruct (js_header_obj_eq_v 0 _ _ h (enc_u16 (z_fps q) ++ enc_u16 (lenN (z_frames q)) ++ flat_map enc_frame (z_frames q)) Hv Hh)
    as [Hparse Hlen].
  set (hv := with_version 0 h) in *.
  set (hd := header_of_v 0 (z_dims q) (z_comps q)) in *.
  unfold parse_pose. rewrite Hparse.
  assert (Ev : obj_get (js_header_obj hd (lenN h)) k_version = Some (VF32 0)).
  { unfold js_header_obj, hd. cbn [header_of_v h_dims h_version]. kred. reflexivity. }
  assert (Ehl : get_num (js_header_obj hd (lenN h)) k_headerLength = Some (Z.of_N (lenN h))).
  { unfold js_header_obj. destruct (h_dims hd) as [[w hh] d]. kred. reflexivity. }
  rewrite Ev, header_comps_obj, Ehl, js_class_v00.
  replace (map jcomp_of_comp (h_comps hd)) with (zjcomps q) by reflexivity.
  assert (Hwfp : Forall (wf_people (zjcomps q)) (z_frames q)).
  { eapply Forall_impl; [|exact Hfr]. intros people [Hn Hp]. split; [exact Hn|].
    eapply Forall_impl; [|exact Hp]. intros p Hwp. now apply wf_person_floats. }
  unfold parse, js_little, body_v00_schema. rewrite run_seek. rewrite N2Z.id. change (0 + lenN h) with (lenN h). rewrite <- Hlen.
  rewrite (run_u16 _ _ _ hv (z_fps q)) by exact Hfps. rewrite run_u16 by exact HnF.
  rewrite (flat_map_concat_map enc_frame (z_frames q)).
  match goal with |- context [_ ++ concat ?m] => rewrite <- (app_nil_r (concat m)) end.
  rewrite (run_arr _ _ _ _ _ _ _ _ _ [] (frames_RS _ _ Hwfp)) by (rewrite lenN_map; reflexivity).
  cbn [run apply_fmt]. rewrite map_map.
  set (fr := map (fun f => VObj (jframe_obj (zjcomps q) f)) (z_frames q)).
  change (obj_get (obj_set (obj_set (obj_set [] k_fps ?a) k__frames ?b) k_frames ?c) k_frames) with (Some c).
  cbv beta iota.
  change (without (obj_set (obj_set (obj_set [] k_fps ?a) k__frames ?b) k_frames ?c) k_frames) with [(k_fps, a); (k__frames, b)].
  unfold fr. rewrite map_length. rewrite Hlen. reflexivity.
Qed.

Open Scope nat_scope.
Lemma F2_length {A B} (R : A -> B -> Prop) l1 l2 : Forall2 R l1 l2 -> length l1 = length l2.
Proof. induction 1 as [|a b l1 l2 _ _ IH]; cbn [length]; [reflexivity|now rewrite IH]. Qed.
(* parsePose on a v0.0 file: header, fps, frame count, and for EVERY person p of every frame (in particular the first, which
   is all Pose.read keeps - C04 v00_decodes): frames[i].people[j][component][l][letter at position d] is the d-th float the
   file stores for that point (Python: coordinates are the floats 0 .. len-2, the confidence is the last one). *)
Theorem js_v00_eq q bs : spec_v00 q = Ok bs -> wf_lpose0 q -> Forall wcomp_plain (z_comps q) ->
  exists h jp, write_header (z_dims q) (z_comps q) = Ok h /\ parse_pose bs = Some jp /\
    header_view (jp_header jp) = Some (header_of_v 0 (z_dims q) (z_comps q), lenN h) /\
    vnum (obj_get (jp_info jp) k_fps) = Some (z_fps q) /\ jp_nframes jp = Z.of_nat (length (z_frames q)) /\
    forall i people j p, nth_error (z_frames q) i = Some people -> nth_error people j = Some p ->
      forall n c l d x, nth_error (zcomps q) n = Some c -> ~ In (c_name c) (map c_name (skipn (S n) (zcomps q))) ->
        l < length (c_points c) -> nth_error (c_format c) d = Some x -> ~ In x (skipn (S d) (c_format c)) ->
        js_cell (jp_frame jp (Z.of_nat i)) j (c_name c) l x = Some (VF32 (nth d (nth l (nth n (snd p) []) []) 0%N)).
Proof.
  intros H Hwf Hplain. destruct (js_parse_v00 q bs H Hwf Hplain) as [h [Hh Hparse]].
  destruct Hwf as [Hfps [HnF Hfr]].
  exists h. eexists. split; [exact Hh|]. split; [exact Hparse|]. cbn [jp_header jp_info jp_nframes jp_frame].
  assert (Hnb : Forall comp_no_bom (zcomps q)).
  { apply canon_no_bom. eapply Forall_impl; [|exact Hplain]. intros a Ha. exact (proj1 Ha). }
  assert (Hall : forall c', In c' (zcomps q) -> comp_no_bom c') by (now apply Forall_forall).
  split; [apply header_view_obj; exact Hnb|].
  split; [kred; now rewrite vnum_of_N|]. split; [reflexivity|].
  intros i people j p Hi Hj.
  intros n c l d x Hn Hlater Hl Hd Hxl.
  (* the frame *)
  destruct (Z.ltb_spec (Z.of_nat i) 0) as [|_]; [lia|]. rewrite Nat2Z.id.
  rewrite (nth_error_nth _ _ VUndef (map_nth_error (fun f => VObj (jframe_obj (zjcomps q) f)) i (z_frames q) Hi)).
  unfold js_cell, jframe_obj.
  change (obj_get [(k__people, ?a); (k_people, ?b)] k_people) with (Some b). cbv beta iota.
  rewrite (map_nth_error (fun p0 => VObj (jperson_obj (zjcomps q) p0)) j people Hj).
  (* the person *)
  assert (Hwp : wf_floats (zjcomps q) (snd p)).
  { rewrite Forall_forall in Hfr. destruct (Hfr people (nth_error_In _ _ Hi)) as [_ Hp].
    rewrite Forall_forall in Hp. exact (proj2 (wf_person_floats _ _ Hplain (Hp p (nth_error_In _ _ Hj)))). }
  assert (Hcp : comp_no_bom c) by (apply Hall; eapply nth_error_In; exact Hn).
  assert (Hname : jc_name (jcomp_of_comp c) = c_name c) by (cbn [jcomp_of_comp jc_name]; apply strip_no_bom, Hcp).
  assert (Hfmt : jc_format (jcomp_of_comp c) = c_format c) by (cbn [jcomp_of_comp jc_format]; apply strip_no_bom, Hcp).
  assert (Hn' : nth_error (zjcomps q) n = Some (jcomp_of_comp c)) by (unfold zjcomps; now rewrite nth_error_map, Hn).
  assert (Hlater' : ~ In (jc_name (jcomp_of_comp c)) (map jc_name (skipn (S n) (zjcomps q)))).
  { rewrite Hname. intros Hin. apply Hlater. unfold zjcomps in Hin. rewrite skipn_map, map_map in Hin. apply in_map_iff in Hin.
    destruct Hin as [c' [E Hin']]. apply in_map_iff. exists c'. split; [|exact Hin'].
    rewrite <- E. cbn [jcomp_of_comp jc_name]. symmetry. apply strip_no_bom. apply Hall.
    rewrite <- (firstn_skipn (S n) (zcomps q)). apply in_or_app. now right. }
  assert (Hlen : length (snd p) = length (zjcomps q)) by (symmetry; exact (F2_length _ _ _ Hwp)).
  unfold jperson_obj. rewrite <- Hname.
  rewrite (person_obj_at (zjcomps q) (snd p) _ n (jcomp_of_comp c) Hlen Hn' Hlater').
  unfold points_val. cbv beta iota.
  (* the point *)
  assert (Hpts : Z.of_N (lenN (nth n (snd p) [])) = jc_npoints (jcomp_of_comp c) /\
                 Forall (fun pt => length pt = length (jc_format (jcomp_of_comp c)) /\ Forall word32 pt) (nth n (snd p) [])).
  { clear - Hwp Hn'. revert n Hn'. induction Hwp as [|c0 pts cs fl Hc _ IH]; intros [|n] Hn'; cbn [nth_error nth] in *; try discriminate.
    - injection Hn' as <-. exact Hc.
    - now apply IH. }
  destruct Hpts as [Hnp Hfl]. cbn [jcomp_of_comp jc_npoints] in Hnp.
  assert (Hl2 : l < length (nth n (snd p) [])) by (unfold lenN in Hnp; lia).
  destruct (nth_error (nth n (snd p) []) l) as [ws|] eqn:Ews; [|apply nth_error_None in Ews; lia].
  rewrite (map_nth_error _ _ _ Ews).
  rewrite Forall_forall in Hfl. destruct (Hfl ws (nth_error_In _ _ Ews)) as [Hlw _].
  rewrite Hfmt in *. rewrite (nth_error_nth _ _ [] Ews).
  apply point_obj_at; [exact Hlw|exact Hd|exact Hxl].
Qed.
