(* C05: stepping lemmas for binary-parser schemas over a buffer  pre ++ encoding ++ post . *)
From Coq Require Import ZArith NArith List Lia ZifyBool ZifyN ZifyNat Bool.
Require Import ListN Result Bytes Utf8 Utf8S F32 Prog Codec ProgLemmas CodecRT C05_JsParser.
Import ListNotations.
Open Scope N_scope.

Lemma drop_pre {X} (pre x : list X) : dropN (lenN pre) (pre ++ x) = x.
Proof. rewrite dropN_app_le by lia. rewrite dropN_all by lia. reflexivity. Qed.
Lemma lenN_app3 {X} (a b c : list X) : lenN (a ++ b ++ c) = lenN a + lenN b + lenN c.
Proof. rewrite !lenN_app. lia. Qed.

Lemma run_u16 k rest vars pre n post : n < 65536 ->
  run true (Fld KU16 k rest) vars (pre ++ enc_u16 n ++ post) (lenN pre)
  = run true rest (obj_set vars k (VNum (Z.of_N n))) ((pre ++ enc_u16 n) ++ post) (lenN (pre ++ enc_u16 n)).
Proof.
  intros Hn. cbn [run]. unfold rd_field.
  destruct (N.leb_spec (lenN pre + 2) (lenN (pre ++ enc_u16 n ++ post))) as [_|H];
    [|rewrite lenN_app3, enc_u16_len in H; lia].
  rewrite drop_pre, u16_rt by exact Hn. rewrite lenN_app, enc_u16_len, <- app_assoc. reflexivity.
Qed.
Lemma run_u32 k rest vars pre n post : n < 4294967296 ->
  run true (Fld KU32 k rest) vars (pre ++ enc_u32 n ++ post) (lenN pre)
  = run true rest (obj_set vars k (VNum (Z.of_N n))) ((pre ++ enc_u32 n) ++ post) (lenN (pre ++ enc_u32 n)).
Proof.
  intros Hn. cbn [run]. unfold rd_field.
  destruct (N.leb_spec (lenN pre + 4) (lenN (pre ++ enc_u32 n ++ post))) as [_|H];
    [|rewrite lenN_app3, enc_u32_len in H; lia].
  rewrite drop_pre, u32_rt by exact Hn. rewrite lenN_app, enc_u32_len, <- app_assoc. reflexivity.
Qed.
Lemma run_f32 k rest vars pre n post : n < 4294967296 ->
  run true (Fld KF32 k rest) vars (pre ++ enc_u32 n ++ post) (lenN pre)
  = run true rest (obj_set vars k (VF32 n)) ((pre ++ enc_u32 n) ++ post) (lenN (pre ++ enc_u32 n)).
Proof.
  intros Hn. cbn [run]. unfold rd_field.
  destruct (N.leb_spec (lenN pre + 4) (lenN (pre ++ enc_u32 n ++ post))) as [_|H];
    [|rewrite lenN_app3, enc_u32_len in H; lia].
  rewrite drop_pre, u32_rt by exact Hn. rewrite lenN_app, enc_u32_len, <- app_assoc. reflexivity.
Qed.
Lemma eval_len_var vars lk n : get_num vars lk = Some (Z.of_N n) -> eval_len vars (LenVar lk) = Some n.
Proof. intros H. unfold eval_len. rewrite H. destruct (Z.ltb_spec (Z.of_N n) 0); [lia|]. f_equal. lia. Qed.
Lemma run_str k lk rest vars pre b post s :
  get_num vars lk = Some (Z.of_N (lenN b)) -> dec_utf8 b = Some s ->
  run true (Str k (LenVar lk) rest) vars (pre ++ b ++ post) (lenN pre)
  = run true rest (obj_set vars k (VStr (strip_bom s))) ((pre ++ b) ++ post) (lenN (pre ++ b)).
Proof.
  intros Hl Hd. cbn [run]. rewrite (eval_len_var _ _ _ Hl). rewrite take_mid, Hd.
  rewrite lenN_app, <- app_assoc. reflexivity.
Qed.
Lemma run_seek n rest vars buf off : run true (Seek n rest) vars buf off = run true rest vars buf (off + n).
Proof. reflexivity. Qed.

(* an element schema run on its encoding, anywhere in a buffer *)
Definition RS (s : schema) (e : bytes) (o : obj) : Prop :=
  forall pre post, run true s [] (pre ++ e ++ post) (lenN pre) = Some (o, lenN (pre ++ e)).
Lemma rep_RS elem es os : Forall2 (RS elem) es os -> forall pre post,
  rep (fun o => run true elem [] (pre ++ concat es ++ post) o) (length os) (lenN pre) = Some (os, lenN (pre ++ concat es)).
Proof.
  induction 1 as [|e o es os He _ IH]; intros pre post; cbn [rep length concat].
  - now rewrite app_nil_r.
  - rewrite <- app_assoc. rewrite (He pre (concat es ++ post)).
    specialize (IH (pre ++ e) post). rewrite <- !app_assoc in IH. rewrite IH. reflexivity.
Qed.
Lemma run_arr k elem lk f rest vars pre es os post :
  Forall2 (RS elem) es os -> get_num vars lk = Some (Z.of_N (lenN os)) ->
  run true (Arr k elem (LenVar lk) f rest) vars (pre ++ concat es ++ post) (lenN pre)
  = run true rest (obj_set vars k (apply_fmt f os)) ((pre ++ concat es) ++ post) (lenN (pre ++ concat es)).
Proof.
  intros HF Hl. cbn [run]. rewrite (eval_len_var _ _ _ Hl). rewrite to_nat_lenN.
  rewrite (rep_RS _ _ _ HF pre post). rewrite <- app_assoc. reflexivity.
Qed.
Lemma RS_done_intro s e o :
  (forall pre post, run true s [] (pre ++ e ++ post) (lenN pre) = Some (o, lenN (pre ++ e))) -> RS s e o.
Proof. exact (fun H => H). Qed.

(* ---------- the element parsers of the header ---------- *)
Definition js_str_obj (n : N) (s : str) : obj := [(k__chars, VNum (Z.of_N n)); (k_text, VStr (strip_bom s))].
Lemma RS_str s e : write_str s = Ok e ->
  exists b, enc_utf8 s = Some b /\ RS str_schema e (js_str_obj (lenN b) s).
Proof.
  intros H. apply write_str_ok in H. destruct H as [b [Hb [Hl ->]]]. exists b. split; [exact Hb|].
  intros pre post. unfold str_schema. rewrite <- !app_assoc.
  rewrite run_u16 by exact Hl.
  rewrite (run_str _ _ _ _ _ b post s); [|reflexivity|now apply dec_enc_utf8].
  cbn [run]. rewrite <- !app_assoc. reflexivity.
Qed.
Definition js_limb_obj (l : N * N) : obj := [(k_from, VNum (Z.of_N (fst l))); (k_to, VNum (Z.of_N (snd l)))].
Lemma RS_limb (l : Z * Z) e : pack_u16s [fst l; snd l] = Ok e -> RS limb_schema e (js_limb_obj (limbN l)).
Proof.
  intros H. apply pack_u16s_ok in H. destruct H as [HF ->].
  inversion HF as [|? ? Ha HF1]; subst. inversion HF1 as [|? ? Hb _]; subst.
  intros pre post. unfold limb_schema. cbn [flat_map]. rewrite app_nil_r. rewrite <- !app_assoc.
  rewrite run_u16 by exact Ha. rewrite run_u16 by exact Hb.
  cbn [run]. rewrite <- !app_assoc. reflexivity.
Qed.
Definition js_color_obj (c : N * N * N) : obj :=
  [(k_R, VNum (Z.of_N (fst (fst c)))); (k_G, VNum (Z.of_N (snd (fst c)))); (k_B, VNum (Z.of_N (snd c)))].
Lemma RS_color (c : Z * Z * Z) e : pack_u16s [fst (fst c); snd (fst c); snd c] = Ok e -> RS color_schema e (js_color_obj (colorN c)).
Proof.
  intros H. apply pack_u16s_ok in H. destruct H as [HF ->].
  inversion HF as [|? ? Ha HF1]; subst. inversion HF1 as [|? ? Hb HF2]; subst. inversion HF2 as [|? ? Hc _]; subst.
  intros pre post. unfold color_schema. cbn [flat_map]. rewrite app_nil_r. rewrite <- !app_assoc.
  rewrite run_u16 by exact Ha. rewrite run_u16 by exact Hb. rewrite run_u16 by exact Hc.
  cbn [run]. rewrite <- !app_assoc. reflexivity.
Qed.
