(* C08 - the statements of props/C08.v. *)
From Coq Require Import ZArith NArith List Bool Lia.
Require Import Result F32 Codec C08_Body C08_Read C08_Spec C08_Lemmas C08_Ctor C08_Ops.
Import ListNotations.
Local Open Scope nat_scope.

Definition cfgR := cfg_repaired.
(* the content TensorFlow is asked about has no subnormal confidence *)
Definition ok_res (b : bk) (r : result core) : Prop := match r with Ok k => ok_for b (k_pts k) | Err _ => True end.

(* ---- reading and converting ---- *)
Lemma read_is_rep mm eo b buffer a : read_body (cfgR mm eo) b buffer a = rmap (rep b) (read_core buffer a).
Proof. apply read_body_rep. Qed.
Lemma read_backends_agree mm eo b buffer a : ok_res b (read_core buffer a) ->
  rmap (observe b) (read_body (cfgR mm eo) b buffer a) = rmap obs_core (read_core buffer a).
Proof. intros H. unfold cfgR. rewrite read_body_rep. destruct (read_core buffer a) as [k|e]; cbn [rmap]; [|reflexivity].
  f_equal. now apply obs_rep. Qed.
Lemma convert_agree mm eo b buffer a : ok_res b (read_core buffer a) ->
  rmap (observe b) (read_convert (cfgR mm eo) b buffer a) = rmap obs_core (read_core buffer a).
Proof. intros H. unfold cfgR. rewrite read_convert_rep. destruct (read_core buffer a) as [k|e]; cbn [rmap]; [|reflexivity].
  f_equal. now apply obs_rep. Qed.
Lemma read_dims_positive buffer a k : read_core buffer a = Ok k -> kD k <> 0.
Proof. apply read_core_D. Qed.

(* ---- a point is missing in all of its dimensions exactly when its confidence is 0 ---- *)
Definition at3 {X} (d : X) (l : t3 X) (f p t : nat) : X := nth t (nth p (nth f l []) []) d.
Lemma at3_map3 {X Y} (h : X -> Y) (dx : X) (dy : Y) (l : t3 X) f p t :
  t < length (nth p (nth f l []) []) -> at3 dy (map3 h l) f p t = h (at3 dx l f p t).
Proof. intros Ht. unfold at3, map3, t3, t2 in *. rewrite (nth_map_nil (map h) f l), (nth_map_nil h p (nth f l [])).
  rewrite (nth_indep _ dy (h dx)) by (now rewrite map_length).
  apply map_nth. Qed.
Lemma nth_repeat' {X} (x d : X) n i : i < n -> nth i (repeat x n) d = x.
Proof. revert i; induction n as [|n IH]; intros [|i] H; cbn [repeat nth]; try lia; [reflexivity|]. apply IH. lia. Qed.
Lemma missing_iff_zero_conf mm eo b buffer a x : read_body (cfgR mm eo) b buffer a = Ok x -> ok_res b (read_core buffer a) ->
  exists k, read_core buffer a = Ok k /\ observe b x = obs_core k /\
    forall f p t d, t < length (nth p (nth f (k_pts k) []) []) -> d < kD k ->
      nth d (at3 [] (rows (fun w => negb (is_zero32 w)) (kD k) (k_pts k)) f p t) true
      = negb (is_zero32 (at3 0%N (map3 fst (k_pts k)) f p t)).
Proof. intros Hr Hok. unfold cfgR in Hr. rewrite read_body_rep in Hr. destruct (read_core buffer a) as [k|e]; [|discriminate].
  cbn [rmap] in Hr. injection Hr as <-. exists k. split; [reflexivity|]. split; [now apply obs_rep|].
  intros f p t d Ht Hd. unfold rows, point in *. rewrite (at3_map3 _ (0%N, [])) by exact Ht.
  rewrite (at3_map3 fst (0%N, [])) by exact Ht. now apply nth_repeat'. Qed.

Lemma bk_eq_dec_np (b : bk) : b = Np \/ b <> Np.
Proof. destruct b; [now left|right; discriminate|right; discriminate]. Qed.
(* ---- operations on the representation of any content ---- *)
Section Ops.
Variables (mm : mmkind) (eo : bool) (b : bk) (k : core).
Hypothesis HD : kD k <> 0.
Hypothesis Hok : ok_for b (k_pts k).

Lemma select_frames_agree idx : idx <> [] -> in_range (kF k) idx ->
  rmap (observe b) (select_frames (cfgR mm eo) b idx (rep b k)) = Ok (obs_core (ref_frames (k_fps k) (map Z.to_nat idx) k)).
Proof. intros Hne Hin. unfold cfgR. rewrite select_frames_rep by assumption. cbn [rmap]. f_equal.
  apply obs_rep. now apply ok_for_gat. Qed.
Lemma get_points_agree idx : idx <> [] -> in_range (kT k) idx ->
  rmap (observe b) (get_points (cfgR mm eo) b idx (rep b k)) = Ok (obs_core (ref_points (map Z.to_nat idx) k)).
Proof. intros Hne Hin. unfold cfgR. rewrite get_points_rep by assumption. cbn [rmap]. f_equal.
  apply obs_rep. now apply ok_for_gat2. Qed.
Lemma getitem_slice_agree s : pos_step s ->
  rmap (observe b) (getitem_slice (cfgR mm eo) b s (rep b k)) = rmap (fun ix => obs_core (ref_frames (k_fps k) ix k)) (slice_idx (kF k) s).
Proof. intros Hs. unfold cfgR. rewrite getitem_slice_gen by exact HD. rewrite ix_slice_pos by exact Hs.
  destruct (slice_idx (kF k) s) as [ix|e]; cbn [rmap]; [|reflexivity]. f_equal. apply obs_rep. now apply ok_for_gat. Qed.
Lemma getitem_slice_zero_step s : s_step s = Some 0%Z -> getitem_slice (cfgR mm eo) b s (rep b k) = Err Value.
Proof. intros Hs. unfold cfgR. rewrite getitem_slice_gen by exact HD. now rewrite slice_zero_step. Qed.
Lemma slice_step_agree by_ : (0 < by_)%Z ->
  rmap (observe b) (slice_step (cfgR mm eo) b by_ (rep b k)) =
  Ok (obs_core (ref_frames (fps_div (k_fps k) by_) (filter (fun i => (Z.of_nat i mod by_ =? 0)%Z) (seq 0 (kF k))) k)).
Proof. intros Hb. unfold cfgR. rewrite slice_step_gen by exact HD. rewrite ix_slice_pos by exact Hb.
  rewrite slice_idx_every by exact Hb. cbn [rmap]. f_equal. apply obs_rep. now apply ok_for_gat. Qed.
Lemma slice_step_zero : slice_step (cfgR mm eo) b 0 (rep b k) = Err Value.
Proof. unfold cfgR. rewrite slice_step_gen by exact HD. now rewrite slice_zero_step. Qed.
Lemma getitem_int_agree i :
  rmap (observe3 b) (getitem_int (cfgR mm eo) b i (rep b k)) = rmap (fun j => fobs_core (ref_frame j k)) (norm_wrap (kF k) i).
Proof. unfold cfgR. rewrite getitem_int_rep by exact HD. destruct (norm_wrap (kF k) i) as [j|e]; cbn [rmap]; [|reflexivity].
  f_equal. apply fobs_rep. destruct b; cbn [ok_for2 ok_for] in *; trivial. cbn [ref_frame q_pts]. now apply tf_safe_nth. Qed.
Lemma getitem_int_out_of_range i : (i < - Z.of_nat (kF k) \/ Z.of_nat (kF k) <= i)%Z -> getitem_int (cfgR mm eo) b i (rep b k) = Err Index.
Proof. intros H. unfold cfgR. rewrite getitem_int_rep by exact HD. now rewrite norm_wrap_out. Qed.
Lemma copy_agree : rmap (observe b) (copy (cfgR mm eo) b (rep b k)) = Ok (obs_core k).
Proof. unfold cfgR. rewrite copy_rep by exact HD. cbn [rmap]. f_equal. now apply obs_rep. Qed.
Lemma zero_filled_agree :
  rmap (fun y => forget_valid (observe b y)) (zero_filled (cfgR mm eo) b (rep b k)) = Ok (forget_valid (obs_core (ref_zero k))).
Proof. unfold cfgR. destruct (bk_eq_dec_np b) as [->|Hb].
  - rewrite zero_filled_np by exact HD. reflexivity.
  - rewrite zero_filled_mt by assumption. cbn [rmap]. f_equal. unfold forget_valid, observe, gobserve, obs_core, ref_zero.
    cbn [g_fps g_data g_cs g_conf dshape dval o_fps o_shape o_val o_cshape o_conf k_fps kF kP kT kD k_pts kshape kcshape].
    f_equal. now rewrite map3_map3. Qed.
End Ops.
