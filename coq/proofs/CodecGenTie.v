(* Tie between the regenerated facts of the source (coq/gen/Gen_Codec.v, produced on every run by
   harness/translate_py.py from /repo) and the literals the hand-written codec model (model/Codec.v,
   model/PoseRead.v) was transcribed from.  Each lemma is an obligation of the byte-layer properties: an edit
   of the source that changes a struct format, a field order, a guard, the string length rule, the version
   constant or the statement sequence of a modelled function makes the corresponding lemma fail. *)
From Coq Require Import String List ZArith NArith.
Require Gen_Codec.
Import ListNotations.
Open Scope string_scope.

Definition exp_struct_table :=
  [ ("float", "<f");
    ("short", "<h");
    ("ushort", "<H");
    ("double_ushort", "<HH");
    ("triple_ushort", "<HHH");
    ("uint", "<I") ].
Lemma struct_table_tie : Gen_Codec.struct_table = exp_struct_table.
Proof. reflexivity. Qed.

Definition exp_version_literal :=
 "0.2".
Lemma version_literal_tie : Gen_Codec.version_literal = exp_version_literal.
Proof. reflexivity. Qed.

Definition exp_write_str_kind :=
 "StrLenBytes".
Lemma write_str_kind_tie : Gen_Codec.write_str_kind = exp_write_str_kind.
Proof. reflexivity. Qed.

Definition exp_component_write :=
  [ "str:self.name";
    "str:self.format";
    "pack:triple_ushort:len(self.points),len(self.limbs),len(self.colors)";
    "for:p:self.points[str:p]";
    "for:(p1, p2):self.limbs[pack:double_ushort:p1,p2]";
    "for:(r, g, b):self.colors[pack:triple_ushort:r,g,b]" ].
Lemma component_write_tie : Gen_Codec.component_write = exp_component_write.
Proof. reflexivity. Qed.

Definition exp_dimensions_write :=
  [ "guard:not 0 <= self.width <= 32767 * 2 + 1:ValueError";
    "guard:not 0 <= self.height <= 32767 * 2 + 1:ValueError";
    "guard:not 0 <= self.depth <= 32767 * 2 + 1:ValueError";
    "pack:triple_ushort:self.width,self.height,self.depth" ].
Lemma dimensions_write_tie : Gen_Codec.dimensions_write = exp_dimensions_write.
Proof. reflexivity. Qed.

Definition exp_header_write :=
  [ "pack:float:VERSION";
    "sub:self.dimensions.write";
    "pack:ushort:len(self.components)";
    "for:component:self.components[sub:component.write]" ].
Lemma header_write_tie : Gen_Codec.header_write = exp_header_write.
Proof. reflexivity. Qed.

Definition exp_component_read :=
  [ "name = reader.unpack_str()";
    "point_format = reader.unpack_str()";
    "_points, _limbs, _colors = reader.unpack(ConstStructs.triple_ushort)";
    "points = [reader.unpack_str() for _ in range(_points)]";
    "limbs = [reader.unpack(ConstStructs.double_ushort) for _ in range(_limbs)]";
    "colors = reader.unpack_numpy(ConstStructs.ushort, (_colors, 3))";
    "return PoseHeaderComponent(name, points, limbs, colors, point_format)" ].
Lemma component_read_tie : Gen_Codec.component_read = exp_component_read.
Proof. reflexivity. Qed.

Definition exp_dimensions_read :=
  [ "width, height, depth = reader.unpack(ConstStructs.triple_ushort)";
    "return PoseHeaderDimensions(width, height, depth)" ].
Lemma dimensions_read_tie : Gen_Codec.dimensions_read = exp_dimensions_read.
Proof. reflexivity. Qed.

Definition exp_dimensions_init :=
  [ "self.width = math.ceil(width)";
    "self.height = math.ceil(height)";
    "self.depth = math.ceil(depth)" ].
Lemma dimensions_init_tie : Gen_Codec.dimensions_init = exp_dimensions_init.
Proof. reflexivity. Qed.

Definition exp_header_read :=
  [ "with PoseHeaderCache.lock:
    cached_header = PoseHeaderCache.check_cache(reader.buffer)
    if cached_header is not None:
        reader.read_offset = PoseHeaderCache.end_offset
        return copy.deepcopy(cached_header)";
    "start_offset = reader.read_offset";
    "version = reader.unpack(ConstStructs.float)";
    "dimensions = PoseHeaderDimensions.read(version, reader)";
    "_components = reader.unpack(ConstStructs.ushort)";
    "components = [PoseHeaderComponent.read(version, reader) for _ in range(_components)]";
    "end_offset = reader.read_offset";
    "pose_header = PoseHeader(version, dimensions, components)";
    "PoseHeaderCache.set_cache(pose_header, reader.buffer, start_offset, end_offset)";
    "return pose_header" ].
Lemma header_read_tie : Gen_Codec.header_read = exp_header_read.
Proof. reflexivity. Qed.

Definition exp_header_num_dims :=
  [ "return max([len(c.format) for c in self.components]) - 1" ].
Lemma header_num_dims_tie : Gen_Codec.header_num_dims = exp_header_num_dims.
Proof. reflexivity. Qed.

Definition exp_header_total_points :=
  [ "return sum(map(lambda c: len(c.points), self.components))" ].
Lemma header_total_points_tie : Gen_Codec.header_total_points = exp_header_total_points.
Proof. reflexivity. Qed.

Definition exp_body_write :=
  [ "let:_frames, _people, _points, _dims = self.data.shape";
    "guard:_frames > 4294967295:ValueError";
    "pack:float:self.fps";
    "pack:uint:_frames";
    "pack:ushort:_people";
    "tobytes:np.array(self.data.data, dtype=np.float32)";
    "tobytes:np.array(self.confidence, dtype=np.float32)" ].
Lemma body_write_tie : Gen_Codec.body_write = exp_body_write.
Proof. reflexivity. Qed.

Definition exp_numpy_body_init :=
  [ "if isinstance(data, np.ndarray):
    mask = confidence == 0
    stacked_mask = np.stack([mask] * data.shape[-1], axis=-1)
    data = ma.masked_array(data, mask=stacked_mask)";
    "super().__init__(fps, data, confidence)" ].
Lemma numpy_body_init_tie : Gen_Codec.numpy_body_init = exp_numpy_body_init.
Proof. reflexivity. Qed.

Definition exp_body_read_dispatch :=
  [ "if header.version == 0:
    return cls.read_v0_0(header, reader, **kwargs)";
    "if round(header.version, 3) == 0.1:
    return cls.read_v0_1(header, reader, **kwargs)";
    "if round(header.version, 3) == 0.2:
    return cls.read_v0_2(header, reader, **kwargs)";
    "raise NotImplementedError('Unknown version - %f' % header.version)" ].
Lemma body_read_dispatch_tie : Gen_Codec.body_read_dispatch = exp_body_read_dispatch.
Proof. reflexivity. Qed.

Definition exp_body_read_v0_2 :=
  [ "if start_time is not None and start_frame is not None:
    raise ValueError('Cannot specify both start_time and start_frame')";
    "if end_time is not None and end_frame is not None:
    raise ValueError('Cannot specify both end_time and end_frame')";
    "fps = reader.unpack(ConstStructs.float)";
    "_frames = reader.unpack(ConstStructs.uint)";
    "_people = reader.unpack(ConstStructs.ushort)";
    "_points = sum([len(c.points) for c in header.components])";
    "_dims = header.num_dims()";
    "if start_time is not None:
    start_frame = math.floor(start_time / 1000 * fps)";
    "if end_time is not None:
    end_frame = math.ceil(end_time / 1000 * fps)";
    "data = cls.read_v0_1_frames(_frames, (_people, _points, _dims), reader, start_frame, end_frame)";
    "confidence = cls.read_v0_1_frames(_frames, (_people, _points), reader, start_frame, end_frame)";
    "return cls(fps, data, confidence)" ].
Lemma body_read_v0_2_tie : Gen_Codec.body_read_v0_2 = exp_body_read_v0_2.
Proof. reflexivity. Qed.

Definition exp_body_read_frames :=
  [ "tensor_reader = reader.__getattribute__(cls.tensor_reader)";
    "s = ConstStructs.float";
    "_frames = frames";
    "if start_frame is not None and start_frame > 0:
    if start_frame >= frames:
        raise ValueError(f'Start frame {start_frame} is greater than the number of frames {frames}')
    reader.skip(s, int(np.prod((start_frame, *shape))))
    _frames -= start_frame";
    "remove_frames = None";
    "if end_frame is not None:
    end_frame = min(end_frame, frames)
    remove_frames = frames - end_frame
    _frames -= remove_frames";
    "tensor = tensor_reader(ConstStructs.float, shape=(_frames, *shape))";
    "if remove_frames is not None:
    reader.skip(s, int(np.prod((remove_frames, *shape))))";
    "return tensor" ].
Lemma body_read_frames_tie : Gen_Codec.body_read_frames = exp_body_read_frames.
Proof. reflexivity. Qed.

Definition exp_pose_write :=
  [ "if len(self.body.data.shape) != 4:
    raise ValueError(f'Body data should have 4 dimensions, not {len(self.body.data.shape)}')";
    "header_dims = self.header.num_dims()";
    "body_dims = self.body.data.shape[-1]";
    "if header_dims != body_dims:
    raise ValueError(f'Header has {header_dims} dimensions, but body has {body_dims}')";
    "header_points = self.header.total_points()";
    "body_points = self.body.data.shape[2]";
    "if header_points != body_points:
    raise ValueError(f'Header has {header_points} points, but body has {body_points}')";
    "if tuple(self.body.confidence.shape) != tuple(self.body.data.shape[:3]):
    raise ValueError(f'Confidence has shape {tuple(self.body.confidence.shape)}, but data has shape {tuple(self.body.data.shape)}')";
    "self.header.write(buffer)";
    "self.body.write(self.header.version, buffer)" ].
Lemma pose_write_tie : Gen_Codec.pose_write = exp_pose_write.
Proof. reflexivity. Qed.

Definition exp_pose_read :=
  [ "if isinstance(buffer, bytes):
    reader = BufferReader(buffer)
elif any((kwargs.get(key, None) is not None for key in ('start_frame', 'end_frame', 'start_time', 'end_time'))):
    reader = BytesIOReader(buffer)
else:
    reader = BufferReader(buffer.read())";
    "reader.expect_to_read((PoseHeaderCache.end_offset or 10 * 1024) + 100)";
    "header = PoseHeader.read(reader)";
    "body = pose_body.read(header, reader, **kwargs)";
    "return Pose(header, body)" ].
Lemma pose_read_tie : Gen_Codec.pose_read = exp_pose_read.
Proof. reflexivity. Qed.

Definition exp_reader_init :=
  [ "self.buffer: bytearray = buffer";
    "self.total_bytes_read = len(buffer)";
    "self.read_offset = 0";
    "self.read_skipped = 0" ].
Lemma reader_init_tie : Gen_Codec.reader_init = exp_reader_init.
Proof. reflexivity. Qed.

Definition exp_reader_expect_to_read :=
  [ "pass" ].
Lemma reader_expect_to_read_tie : Gen_Codec.reader_expect_to_read = exp_reader_expect_to_read.
Proof. reflexivity. Qed.

Definition exp_reader_bytes_left :=
  [ "return len(self.buffer) - self.read_offset + self.read_skipped" ].
Lemma reader_bytes_left_tie : Gen_Codec.reader_bytes_left = exp_reader_bytes_left.
Proof. reflexivity. Qed.

Definition exp_reader_unpack_numpy :=
  [ "self.expect_to_read(s.size * int(np.prod(shape)))";
    "arr = np.ndarray(shape, s.format, self.buffer, self.read_offset - self.read_skipped).copy()";
    "self.advance(s, int(np.prod(shape)))";
    "return arr" ].
Lemma reader_unpack_numpy_tie : Gen_Codec.reader_unpack_numpy = exp_reader_unpack_numpy.
Proof. reflexivity. Qed.

Definition exp_reader_unpack :=
  [ "self.expect_to_read(s.size)";
    "unpack: tuple = s.unpack_from(self.buffer, self.read_offset - self.read_skipped)";
    "self.advance(s)";
    "if len(unpack) == 1:
    return unpack[0]";
    "return unpack" ].
Lemma reader_unpack_tie : Gen_Codec.reader_unpack = exp_reader_unpack.
Proof. reflexivity. Qed.

Definition exp_reader_advance :=
  [ "self.read_offset += s.size * times" ].
Lemma reader_advance_tie : Gen_Codec.reader_advance = exp_reader_advance.
Proof. reflexivity. Qed.

Definition exp_reader_skip :=
  [ "self.advance(s, times)" ].
Lemma reader_skip_tie : Gen_Codec.reader_skip = exp_reader_skip.
Proof. reflexivity. Qed.

Definition exp_reader_unpack_str :=
  [ "length: int = self.unpack(ConstStructs.ushort)";
    "self.expect_to_read(length)";
    "bytes_: bytes = self.unpack_f('%ds' % length)";
    "return bytes_.decode('utf-8')" ].
Lemma reader_unpack_str_tie : Gen_Codec.reader_unpack_str = exp_reader_unpack_str.
Proof. reflexivity. Qed.

Definition exp_stream_reader_init :=
  [ "super().__init__(bytearray())";
    "self.reader = reader" ].
Lemma stream_reader_init_tie : Gen_Codec.stream_reader_init = exp_stream_reader_init.
Proof. reflexivity. Qed.

Definition exp_stream_reader_skip :=
  [ "self.buffer = self.buffer[:self.read_offset - self.read_skipped]";
    "self.read_skipped += s.size * times";
    "super().skip(s, times)" ].
Lemma stream_reader_skip_tie : Gen_Codec.stream_reader_skip = exp_stream_reader_skip.
Proof. reflexivity. Qed.

Definition exp_stream_reader_read_chunk :=
  [ "self.reader.seek(self.read_skipped + len(self.buffer), 0)";
    "self.buffer.extend(self.reader.read(chunk_size))";
    "self.total_bytes_read += chunk_size";
    "if not self.buffer:
    raise EOFError('End of file reached')" ].
Lemma stream_reader_read_chunk_tie : Gen_Codec.stream_reader_read_chunk = exp_stream_reader_read_chunk.
Proof. reflexivity. Qed.

Definition exp_stream_reader_expect_to_read :=
  [ "if self.bytes_left() < n:
    self.read_chunk(n - self.bytes_left())" ].
Lemma stream_reader_expect_to_read_tie : Gen_Codec.stream_reader_expect_to_read = exp_stream_reader_expect_to_read.
Proof. reflexivity. Qed.

Definition exp_stream_reader_bases :=
  [ "BufferReader" ].
Lemma stream_reader_bases_tie : Gen_Codec.stream_reader_bases = exp_stream_reader_bases.
Proof. reflexivity. Qed.

(* which methods the two reader classes define, and their class-level assignments: the interpreters of base/Prog.v
   (run_plain for BufferReader, run_stream for BytesIOReader) transcribe exactly these; an added override or class
   attribute means the stream reader may no longer run the transcribed code *)
Definition exp_reader_methods : list string :=
  [ "__init__"; "expect_to_read"; "bytes_left"; "bytes_remaining"; "unpack_f"; "unpack_numpy"; "unpack_torch";
    "unpack_tensorflow"; "unpack"; "advance"; "skip"; "unpack_str" ].
Lemma reader_methods_tie : Gen_Codec.reader_methods = exp_reader_methods.
Proof. reflexivity. Qed.
Definition exp_stream_reader_methods : list string :=
  [ "__init__"; "skip"; "read_chunk"; "expect_to_read"; "bytes_remaining" ].
Lemma stream_reader_methods_tie : Gen_Codec.stream_reader_methods = exp_stream_reader_methods.
Proof. reflexivity. Qed.
Lemma reader_class_attrs_tie : Gen_Codec.reader_class_attrs = [] /\ Gen_Codec.stream_reader_class_attrs = [].
Proof. split; reflexivity. Qed.

Definition exp_cache_calc_hash :=
  [ "return hashlib.md5(buffer[PoseHeaderCache.start_offset:PoseHeaderCache.end_offset]).hexdigest()" ].
Lemma cache_calc_hash_tie : Gen_Codec.cache_calc_hash = exp_cache_calc_hash.
Proof. reflexivity. Qed.

Definition exp_cache_check_cache :=
  [ "if PoseHeaderCache.hash is None:
    return None";
    "if PoseHeaderCache.hash == PoseHeaderCache.calc_hash(buffer):
    return PoseHeaderCache.header" ].
Lemma cache_check_cache_tie : Gen_Codec.cache_check_cache = exp_cache_check_cache.
Proof. reflexivity. Qed.

Definition exp_cache_set_cache :=
  [ "with PoseHeaderCache.lock:
    PoseHeaderCache.start_offset = start_offset
    PoseHeaderCache.end_offset = end_offset
    PoseHeaderCache.header = copy.deepcopy(header)
    PoseHeaderCache.hash = PoseHeaderCache.calc_hash(buffer)" ].
Lemma cache_set_cache_tie : Gen_Codec.cache_set_cache = exp_cache_set_cache.
Proof. reflexivity. Qed.

Definition exp_cache_clear_cache :=
  [ "with PoseHeaderCache.lock:
    PoseHeaderCache.start_offset = None
    PoseHeaderCache.end_offset = None
    PoseHeaderCache.hash = None
    PoseHeaderCache.header = None" ].
Lemma cache_clear_cache_tie : Gen_Codec.cache_clear_cache = exp_cache_clear_cache.
Proof. reflexivity. Qed.

Definition exp_pose_copy :=
  [ "return self.__class__(deepcopy(self.header), self.body.copy())" ].
Lemma pose_copy_tie : Gen_Codec.pose_copy = exp_pose_copy.
Proof. reflexivity. Qed.

Definition exp_numpy_body_copy :=
  [ "return type(self)(fps=self.fps, data=self.data.copy(), confidence=self.confidence.copy())" ].
Lemma numpy_body_copy_tie : Gen_Codec.numpy_body_copy = exp_numpy_body_copy.
Proof. reflexivity. Qed.
