(* What a windowed stream read returns does not depend on how much of the stream happens to be buffered ahead of the read
   position - hence not on the header memo, which only sets the length of the first prefetch and may save the header parse.
   Stated up to the kind of exception (EOFError versus struct.error when the bytes run out depends on whether the retained
   buffer is empty): the same pose, or both raise. *)
From Coq Require Import ZArith NArith List Lia ZifyBool ZifyN ZifyNat Bool.
Require Import ListN Result Bytes Utf8 Utf8S F32 Prog Codec ProgLemmas CodecRT PoseRead PoseReadLemmas StreamLemmas WindowLemmas StreamRead StreamBack.
Import ListNotations.
Open Scope N_scope.

Definition same_outcome {A} (r1 r2 : result A) : Prop :=
  match r1, r2 with
  | Ok a, Ok b => a = b
  | Err _, Err _ => True
  | _, _ => False
  end.
Lemma same_outcome_refl {A} (r : result A) : same_outcome r r.
Proof. destruct r; cbn; auto. Qed.

(* two readers of the same stream at the same position, whatever they hold beyond it *)
Definition Twin (q : bytes) (s1 s2 : sreader) : Prop :=
  Inv q s1 /\ Inv q s2 /\ off s1 = off s2 /\ skipped s1 = skipped s2.

Lemma inv_advance q r n : Inv q r -> off r - skipped r + n <= lenN (buf r) ->
  Inv q {| buf := buf r; off := off r + n; skipped := skipped r; pulled := pulled r |}.
Proof.
  intros [Hso [j [Hj [Hi Heq]]]] Hfit. unfold Inv; cbn [buf off skipped]. split; [lia|]. exists j.
  split; [lia|]. split; [lia|exact Heq].
Qed.

Lemma expect_zero q r : Inv q r -> expect q 0 r = Ok r.
Proof.
  intros HI. unfold expect, bytes_left. open_inv HI j.
  destruct (Z.ltb_spec (Z.of_N (lenN (buf r)) - Z.of_N (off r) + Z.of_N (skipped r)) (Z.of_N 0)); [lia|reflexivity].
Qed.

Definition twin_result {A} q (r1 r2 : result (A * sreader)) : Prop :=
  match r1, r2 with
  | Ok (a, s1'), Ok (b, s2') => a = b /\ Twin q s1' s2'
  | Err _, Err _ => True
  | _, _ => False
  end.

Theorem amount_indep {A} q (p : prog A) : v2prog p -> forall s1 s2, Twin q s1 s2 ->
  twin_result q (run_stream q p s1) (run_stream q p s2).
Proof.
  induction p as [a|n k IH|n k IH|n k IH|k IH|e]; intros Hv s1 s2 [H1 [H2 [Ho Hs]]];
    cbn [run_stream v2prog twin_result] in *; try contradiction; try exact I.
  - split; [reflexivity|]. exact (conj H1 (conj H2 (conj Ho Hs))).
  - destruct (N.eq_dec n 0) as [->|Hn0].
    + rewrite (expect_zero q s1 H1), (expect_zero q s2 H2).
      assert (F1 : off s1 - skipped s1 + 0 <= lenN (buf s1)) by (destruct H1 as [_ [j [_ [Hi _]]]]; lia).
      assert (F2 : off s2 - skipped s2 + 0 <= lenN (buf s2)) by (destruct H2 as [_ [j [_ [Hi _]]]]; lia).
      destruct (N.leb_spec (off s1 - skipped s1 + 0) (lenN (buf s1))) as [_|]; [|lia].
      destruct (N.leb_spec (off s2 - skipped s2 + 0) (lenN (buf s2))) as [_|]; [|lia].
      rewrite !takeN_0. apply (IH [] (Hv [])).
      split; [apply inv_advance; assumption|]. split; [apply inv_advance; assumption|]. cbn [off skipped]. split; lia.
    + assert (Hn : 0 < n) by lia.
      pose proof (inv_expect q s1 n H1 Hn) as E1. pose proof (inv_expect q s2 n H2 Hn) as E2.
      destruct (expect q n s1) as [r1|e1]; destruct (expect q n s2) as [r2|e2].
      * destruct E1 as [I1 [O1 [S1 [L1 _]]]]. destruct E2 as [I2 [O2 [S2 [L2 _]]]].
        destruct (N.le_gt_cases (off s1 + n) (lenN q)) as [Hfit|Hno].
        -- assert (F1 : off r1 - skipped r1 + n <= lenN (buf r1)) by (apply N.leb_le; rewrite L1; apply N.leb_le; exact Hfit).
           assert (F2 : off r2 - skipped r2 + n <= lenN (buf r2)) by (apply N.leb_le; rewrite L2; apply N.leb_le; lia).
           rewrite (proj2 (N.leb_le _ _) F1), (proj2 (N.leb_le _ _) F2).
           destruct (inv_data q r1 n I1 Hn F1) as [D1 _]. destruct (inv_data q r2 n I2 Hn F2) as [D2 _].
           assert (Hd : takeN n (dropN (off r1 - skipped r1) (buf r1)) = takeN n (dropN (off r2 - skipped r2) (buf r2)))
             by (rewrite D1, D2; do 2 f_equal; lia).
           rewrite Hd.
           apply (IH _ (Hv _)).
           split; [apply inv_advance; assumption|]. split; [apply inv_advance; assumption|]. cbn [off skipped]. split; lia.
        -- rewrite L1, L2, <- Ho. rewrite (proj2 (N.leb_gt _ _) Hno). exact I.
      * destruct E1 as [I1 [O1 [S1 [L1 _]]]]. rewrite L1. rewrite (proj2 (N.leb_gt _ _)) by lia. exact I.
      * destruct E2 as [I2 [O2 [S2 [L2 _]]]]. rewrite L2. rewrite (proj2 (N.leb_gt _ _)) by lia. exact I.
      * exact I.
  - apply (IH Hv). split; [apply inv_skip; exact H1|]. split; [apply inv_skip; exact H2|]. cbn [sskip off skipped]. split; lia.
Qed.

Section WithLegacy.
Variable legacy : vclass -> header -> rargs -> prog body.

Lemma prefetch_state q m r1 :
  expect q (prefetch_len m) {| buf := []; off := 0; skipped := 0; pulled := 0 |} = Ok r1 ->
  Inv q r1 /\ off r1 = 0 /\ skipped r1 = 0 /\ buf r1 = takeN (prefetch_len m) q.
Proof.
  intros Hex. destruct (prefetch_sim q [] m r1 Hex) as [[_ [Ho HI]] [_ [_ Hbuf]]]. cbn [poff] in Ho.
  split; [exact HI|]. destruct HI as [Hso _]. split; [lia|]. split; [lia|exact Hbuf].
Qed.

Lemma prefetch_fails q m :
  expect q (prefetch_len m) {| buf := []; off := 0; skipped := 0; pulled := 0 |} = Err EOF \/
  exists r1, expect q (prefetch_len m) {| buf := []; off := 0; skipped := 0; pulled := 0 |} = Ok r1.
Proof.
  unfold expect, bytes_left. cbn [buf off skipped].
  destruct (_ <? _)%Z; [|right; eexists; reflexivity].
  unfold read_chunk. cbn [buf app]. destruct (takeN _ _); [left; reflexivity|right; eexists; reflexivity].
Qed.
Lemma prefetch_empty q m e :
  expect q (prefetch_len m) {| buf := []; off := 0; skipped := 0; pulled := 0 |} = Err e -> q = [].
Proof.
  intros Hex. unfold expect, bytes_left in Hex. cbn [buf off skipped] in Hex.
  assert (Hpos : 0 < prefetch_len m) by (unfold prefetch_len; destruct m as [c|]; [destruct (m_end c =? 0)|]; lia).
  destruct (Z.ltb_spec (Z.of_N (lenN (@nil N)) - Z.of_N 0 + Z.of_N 0) (Z.of_N (prefetch_len m))); [|discriminate].
  unfold read_chunk in Hex. cbn [buf skipped app] in Hex.
  destruct (takeN _ (dropN (0 + lenN (@nil N)) q)) as [|x l] eqn:E; [|discriminate].
  replace (0 + lenN (@nil N)) with 0 in E by reflexivity. rewrite dropN_0 in E.
  destruct q as [|y q']; [reflexivity|]. apply (f_equal lenN) in E. rewrite lenN_takeN in E. unfold lenN in E. cbn [length] in E. lia.
Qed.

Lemma prefetch_nil m : expect [] (prefetch_len m) {| buf := []; off := 0; skipped := 0; pulled := 0 |} = Err EOF.
Proof.
  assert (Hpos : 0 < prefetch_len m) by (unfold prefetch_len; destruct m as [c|]; [destruct (m_end c =? 0)|]; lia).
  unfold expect, bytes_left. cbn [buf off skipped].
  destruct (Z.ltb_spec (Z.of_N (lenN (@nil N)) - Z.of_N 0 + Z.of_N 0) (Z.of_N (prefetch_len m))) as [_|Hge];
    [|unfold lenN in Hge; cbn [length] in Hge; lia].
  unfold read_chunk. cbn [buf skipped app]. rewrite dropN_skipn, skipn_nil, takeN_firstn, firstn_nil. reflexivity.
Qed.

(* the windowed stream read of any byte string, under any sound memo, against the same read in a fresh process *)
Theorem read_stream_memo_independent m q a :
  MemoOK m -> any_arg a = true -> (forall h, v2prog (read_body legacy h a)) ->
  same_outcome (fst (fst (read_stream legacy m q a))) (fst (fst (read_stream legacy None q a))).
Proof.
  intros Hm Ha Hv. unfold read_stream. rewrite Ha. cbn [negb].
  destruct (expect q (prefetch_len m) _) as [r1|e1] eqn:Hex1.
  2:{ pose proof (prefetch_empty q m e1 Hex1) as ->. rewrite (prefetch_nil None). exact I. }
  destruct (expect q (prefetch_len None) _) as [r0|e0] eqn:Hex0.
  2:{ pose proof (prefetch_empty q None e0 Hex0) as ->. rewrite (prefetch_nil m) in Hex1. discriminate. }
  destruct (prefetch_state q m r1 Hex1) as [I1 [O1 [S1 B1]]].
  destruct (prefetch_state q None r0 Hex0) as [I0 [O0 [S0 B0]]].
  cbn [check_cache].
  assert (HT : Twin q r1 r0) by (split; [exact I1|split; [exact I0|split; lia]]).
  pose proof (amount_indep q rd_header v2prog_rd_header r1 r0 HT) as Hhd.
  rewrite B1, (check_cache_prefetch m q Hm).
  destruct (check_cache m q) as [c|] eqn:Hc.
  - (* hit: the memoised header is the one the fresh process parses, and the body starts at the same place *)
    destruct (check_cache_hit m q c Hm Hc) as [-> Hpl].
    assert (HS0 : Sim q [] {| pbuf := q; poff := 0 |} r0).
    { unfold Sim; cbn [pbuf poff]. split; [now rewrite app_nil_r|]. split; [lia|exact I0]. }
    pose proof (sim_fwd q [] _ v2prog_rd_header _ _ _ _ HS0 Hpl) as Hsim.
    destruct (run_stream q rd_header r0) as [[h0 r2]|e] eqn:Hrs0; [|now contradiction Hsim].
    destruct Hsim as [<- [[_ [Ho2 I2]] _]]. cbn [poff] in Ho2.
    assert (Hsk2 : skipped r2 = 0).
    { assert (HP0 : Pre q r0) by (split; [exact S0|rewrite B0; apply pre_takeN]).
      exact (proj1 (pre_run q _ noSkip_rd_header _ _ _ HP0 Hrs0)). }
    set (rc := {| buf := takeN (prefetch_len (Some c)) q; off := m_end c; skipped := skipped r1; pulled := pulled r1 |}).
    assert (HTc : Twin q rc r2).
    { split; [|split; [exact I2|split; [exact Ho2|cbn [rc skipped]; lia]]].
      unfold Inv, rc; cbn [buf off skipped]. rewrite S1. split; [lia|]. exists 0. split; [lia|].
      destruct Hm as [Hst [Hl _]]. unfold check_cache in Hc.
      destruct (bytes_eqb (m_slice c) (py_slice (m_start c) (m_end c) q)) eqn:E; [|discriminate].
      apply bytes_eqb_eq in E. unfold py_slice in E. rewrite Hst, dropN_0, N.sub_0_r in E.
      apply (f_equal lenN) in E. rewrite Hl, lenN_takeN in E.
      split.
      - rewrite lenN_takeN. unfold prefetch_len. destruct (m_end c =? 0) eqn:E0; lia.
      - rewrite !dropN_0, N.sub_0_r. apply pre_takeN. }
    pose proof (amount_indep q _ (Hv (m_header c)) rc r2 HTc) as Hb. unfold rc in Hb.
    destruct (run_stream q (read_body legacy (m_header c) a) _) as [[b1 s1']|e1];
      destruct (run_stream q (read_body legacy (m_header c) a) r2) as [[b0 s0']|e0]; cbn [twin_result] in Hb; cbn [fst same_outcome]; try contradiction; try exact I.
    destruct Hb as [-> _]. reflexivity.
  - (* miss: both parse the header from the stream *)
    destruct (run_stream q rd_header r1) as [[h1 r2]|e1]; destruct (run_stream q rd_header r0) as [[h0 r2']|e0];
      cbn [twin_result] in Hhd; cbn [fst same_outcome]; try contradiction; try exact I.
    destruct Hhd as [-> HT2].
    pose proof (amount_indep q _ (Hv h0) r2 r2' HT2) as Hb.
    destruct (run_stream q (read_body legacy h0 a) r2) as [[b1 s1']|e1];
      destruct (run_stream q (read_body legacy h0 a) r2') as [[b0 s0']|e0]; cbn [twin_result] in Hb; cbn [fst same_outcome]; try contradiction; try exact I.
    destruct Hb as [-> _]. reflexivity.
Qed.

(* the library's own v0.2 / unknown-version decoders satisfy the hypothesis *)
Lemma v2prog_no_legacy h a : v2prog (read_body no_legacy h a).
Proof.
  unfold read_body, read_body_with. destruct (version_class (h_version h)); try exact I; try apply v2prog_read_v0_2.
Qed.
End WithLegacy.
