(* C15 - matmul: linear, identity, keeps confidences and the missing pattern. *)
From Coq Require Import Reals ZArith List Bool Lia Lra.
Require Import Result Num C15_Spatial C15_Real C15_Lemmas C15_Flip.
Import ListNotations.
Local Open Scope R_scope.

(* ---------- dot products over R ---------- *)
Lemma dotp_nil_l c : dotp R_ops [] c = 0.
Proof. reflexivity. Qed.
Lemma dotp_nil_r x : dotp R_ops x [] = 0.
Proof. destruct x; reflexivity. Qed.
Lemma dotp_cons x xs c cs : dotp R_ops (x :: xs) (c :: cs) = x * c + dotp R_ops xs cs.
Proof. reflexivity. Qed.
Lemma dotp_zeros {X} (xs : list R) (l : list X) : dotp R_ops xs (map (fun _ => 0) l) = 0.
Proof. revert l; induction xs as [|x xs IH]; intros [|y l]; cbn [map]; try reflexivity.
  rewrite dotp_cons, IH. (rops; ring). Qed.
Lemma dotp_lin a b (xs ys c : list R) : length xs = length ys ->
  dotp R_ops (zipw (fun x y => a * x + b * y) xs ys) c = a * dotp R_ops xs c + b * dotp R_ops ys c.
Proof. revert ys c; induction xs as [|x xs IH]; intros [|y ys] c H; cbn [length] in H; try discriminate.
  - cbn [zipw]. rewrite !dotp_nil_l. (rops; ring).
  - destruct c as [|c0 c]; cbn [zipw]; [rewrite !dotp_nil_r; (rops; ring)|].
    rewrite !dotp_cons, IH by (now injection H). (rops; ring). Qed.
(* product with the j-th unit vector picks the j-th coordinate *)
Lemma dotp_unit (xs : list R) : forall s j, (s <= j < s + length xs)%nat ->
  dotp R_ops xs (map (fun i => if Nat.eqb i j then 1 else 0) (seq s (length xs))) = nth (j - s) xs 0.
Proof. induction xs as [|x xs IH]; intros s j H; cbn [length] in *; [lia|].
  cbn [seq map]. rewrite dotp_cons. destruct (Nat.eqb s j) eqn:E.
  - apply Nat.eqb_eq in E. subst j. rewrite Nat.sub_diag. cbn [nth].
    rewrite (map_ext_in _ (fun _ => 0)); [rewrite dotp_zeros; (rops; ring)|].
    intros i Hi. apply in_seq in Hi. destruct (Nat.eqb i s) eqn:E2; [apply Nat.eqb_eq in E2; lia | reflexivity].
  - apply Nat.eqb_neq in E. rewrite IH by lia. replace (j - s)%nat with (S (j - S s)) by lia. cbn [nth]. (rops; ring). Qed.
Lemma map_nth_seq {X} (l : list X) d s : map (fun j => nth (j - s) l d) (seq s (length l)) = l.
Proof. revert s; induction l as [|x l IH]; intros s; cbn [length seq map]; [reflexivity|].
  rewrite Nat.sub_diag. cbn [nth]. f_equal. rewrite <- (IH (S s)) at 2. apply map_ext_in.
  intros j Hj. apply in_seq in Hj. replace (j - s)%nat with (S (j - S s)) by lia. reflexivity. Qed.
Lemma nth_map_seq {X} (g : nat -> X) d n j : (j < n)%nat -> nth j (map g (seq 0 n)) d = g j.
Proof. intros H. rewrite (nth_indep _ d (g 0%nat)) by (now rewrite map_length, seq_length).
  now rewrite map_nth, seq_nth. Qed.
(* column j of a matrix given by an entry function *)
Lemma col_of_entries (g : nat -> nat -> R) n m j : (j < m)%nat ->
  col R_ops j (map (fun i => map (fun j' => g i j') (seq 0 m)) (seq 0 n)) = map (fun i => g i j) (seq 0 n).
Proof. intros H. unfold col. rewrite map_map. apply map_ext. intros i. rops. now apply nth_map_seq. Qed.

(* ---------- the identity matrix ---------- *)
Lemma vecmat_eye (x : list R) : vecmat R_ops (length x) x (eye R_ops (length x)) = x.
Proof. unfold vecmat, eye. rops. transitivity (map (fun j => nth (j - 0) x 0) (seq 0 (length x))); [|apply map_nth_seq].
  apply map_ext_in.
  intros j Hj. apply in_seq in Hj. rewrite (col_of_entries (fun i j' => if Nat.eqb i j' then 1 else 0)) by lia.
  rewrite dotp_unit by (rops; lia). reflexivity. Qed.
Lemma matrix_ok_entries (g : nat -> nat -> R) n m :
  matrix_ok R_ops n m (map (fun i => map (fun j' => g i j') (seq 0 m)) (seq 0 n)) = true.
Proof. unfold matrix_ok. rewrite map_length, seq_length, Nat.eqb_refl. cbn [andb].
  apply forallb_forall. intros row Hrow. apply in_map_iff in Hrow as [i [<- _]].
  now rewrite map_length, seq_length, Nat.eqb_refl. Qed.

(* ---------- one point ---------- *)
Definition conf_inv (p : rpoint) : Prop := pc p = 0 -> missing p = true.
Lemma matmul_point_pcs K M (p : rpoint) : conf_inv p ->
  pcs (matmul_point R_ops K M p) = map (fun v => (v, missing p)) (vecmat R_ops K (filled R_ops p) M).
Proof. intros Hinv. unfold matmul_point, reinit. cbn [pcs pc]. rops. rewrite map_map. apply map_ext. intros v.
  cbn [fst snd]. f_equal. unfold missing. destruct (allmasked R_ops p) eqn:E; [reflexivity|].
  cbn [orb]. apply Reqb_false. intros H0. specialize (Hinv H0). unfold missing in Hinv. congruence. Qed.
Lemma matmul_point_pc K M (p : rpoint) : pc (matmul_point R_ops K M p) = pc p.
Proof. reflexivity. Qed.
Lemma vecmat_length K (x : list R) (M : list (list R)) : length (vecmat R_ops K x M) = K.
Proof. unfold vecmat. now rewrite map_length, seq_length. Qed.
Lemma matmul_point_masks D K M (p : rpoint) : wf_point D p -> masks (matmul_point R_ops K M p) = repeat (missing p) K.
Proof. intros Hwf. unfold masks. rewrite matmul_point_pcs by (exact (proj2 (proj2 Hwf))). rewrite map_map. cbn [snd].
  rewrite <- (vecmat_length K (filled R_ops p) M) at 2. induction (vecmat R_ops K (filled R_ops p) M) as [|v l IH]; cbn [map length repeat]; [reflexivity | now rewrite IH]. Qed.
Lemma matmul_point_wf D K M (p : rpoint) : wf_point D p -> wf_point K (matmul_point R_ops K M p).
Proof. intros Hwf. rewrite <- (point_eta (matmul_point R_ops K M p)). rewrite matmul_point_pc.
  apply (wf_point_of_masks D K p _ Hwf).
  - rewrite matmul_point_pcs by (exact (proj2 (proj2 Hwf))). now rewrite map_length, vecmat_length.
  - exact (matmul_point_masks D K M p Hwf). Qed.
(* on an observed well-formed point every coordinate is observed *)
Lemma wf_observed_filled D (p : rpoint) : wf_point D p -> missing p = false -> filled R_ops p = coords p.
Proof. intros Hwf Hm. unfold filled, coords. apply map_ext_in. intros c Hc.
  rewrite (masks_uniform_mask D p c Hwf Hc), Hm. reflexivity. Qed.
Lemma wf_masks D (p : rpoint) : wf_point D p -> masks p = repeat (missing p) D.
Proof. intros H. exact (proj1 (proj2 H)). Qed.
Lemma observes_coords (p : rpoint) k x : observes p k x -> nth_error (coords p) k = Some x.
Proof. unfold observes, coords. intros H. rewrite nth_error_map. rops. now rewrite H. Qed.
Lemma observes_of_coords D (p : rpoint) k x : wf_point D p -> missing p = false -> nth_error (coords p) k = Some x -> observes p k x.
Proof. intros Hwf Hm H. unfold observes, coords in *. rewrite nth_error_map in H.
  destruct (nth_error (pcs p) k) as [[y m]|] eqn:E; cbn [option_map fst] in H; [|discriminate].
  injection H as ->. f_equal. f_equal. apply nth_error_In in E. rewrite <- Hm. exact (masks_uniform_mask D p (x, m) Hwf E). Qed.
Lemma observes_not_missing D (p : rpoint) k x : wf_point D p -> observes p k x -> missing p = false.
Proof. intros Hwf H. apply nth_error_In in H. now rewrite <- (masks_uniform_mask D p _ Hwf H). Qed.

(* ---------- identity ---------- *)
Lemma matmul_point_identity D (p : rpoint) : wf_point D p -> same_observed p (matmul_point R_ops D (eye R_ops D) p).
Proof. intros Hwf. split; [split|].
  - reflexivity.
  - rewrite (matmul_point_masks D D _ p Hwf). symmetry. now apply wf_masks.
  - intros k x Hk. pose proof (observes_not_missing D p k x Hwf Hk) as Hm.
    pose proof (matmul_point_wf D D (eye R_ops D) p Hwf) as Hwf'.
    apply (observes_of_coords D _ k x Hwf').
    + rewrite allmasked_masks, (matmul_point_masks D D _ p Hwf), Hm.
      destruct D as [|D']; [|now apply forallb_repeat].
      exfalso. unfold observes in Hk. destruct Hwf as [Hl _]. destruct (pcs p); [destruct k; discriminate | discriminate].
    + unfold coords. rewrite matmul_point_pcs by (exact (proj2 (proj2 Hwf))). rewrite map_map. cbn [fst]. rewrite map_id.
      rewrite (wf_observed_filled D p Hwf Hm).
      assert (HD : D = length (coords p)) by (unfold coords; rewrite map_length; symmetry; exact (proj1 Hwf)).
      rewrite HD at 1 2. rewrite vecmat_eye. now apply observes_coords. Qed.

(* ---------- linearity ---------- *)
Lemma map_eq_Forall2 {A B C} (f : A -> C) (g : B -> C) l1 l2 : map f l1 = map g l2 -> Forall2 (fun x y => f x = g y) l1 l2.
Proof. revert l2; induction l1 as [|x l1 IH]; intros [|y l2] H; cbn [map] in H; try discriminate; constructor.
  - now injection H. - apply IH. now injection H. Qed.
Definition lin_compat D (p q : rpoint) : Prop := wf_point D p /\ wf_point D q /\ masks p = masks q /\ pc p = pc q.
Lemma lin_point_filled a b D (p q : rpoint) : lin_compat D p q ->
  filled R_ops (lin_point a p b q) = zipw (fun x y => a * x + b * y) (filled R_ops p) (filled R_ops q).
Proof. intros [_ [_ [Hm _]]]. unfold filled, lin_point. cbn [pcs]. rops. rewrite map_zipw, zipw_map_l, zipw_map_r.
  apply (zipw_rel_ext (fun c c' : R * bool => snd c = snd c')); [now apply map_eq_Forall2|].
  intros [x m] [y m'] E. cbn [fst snd] in *. subst m'. destruct m; (rops; ring). Qed.
Lemma lin_point_missing a b D (p q : rpoint) : lin_compat D p q -> missing (lin_point a p b q) = missing p.
Proof. intros [Hp [Hq [Hm _]]]. rewrite !allmasked_masks. f_equal. unfold masks, lin_point. cbn [pcs]. rops.
  rewrite map_zipw. cbn [snd]. apply zipw_fst_only. apply Nat.eq_le_incl. transitivity D; [exact (proj1 Hp) | symmetry; exact (proj1 Hq)]. Qed.
Lemma matmul_point_linear a b D K M (p q : rpoint) : lin_compat D p q ->
  matmul_point R_ops K M (lin_point a p b q) = lin_point a (matmul_point R_ops K M p) b (matmul_point R_ops K M q).
Proof. intros Hc. pose proof Hc as [Hp [Hq [Hm Hpc]]]. apply point_ext; [|reflexivity].
  rewrite matmul_point_pcs.
  2:{ unfold conf_inv. rewrite (lin_point_missing a b D p q Hc). exact (proj2 (proj2 Hp)). }
  rewrite (lin_point_missing a b D p q Hc), (lin_point_filled a b D p q Hc).
  unfold lin_point. cbn [pcs]. rewrite !matmul_point_pcs by (first [exact (proj2 (proj2 Hp)) | exact (proj2 (proj2 Hq))]).
  unfold vecmat. rewrite !map_map. rewrite zipw_map_same. apply map_ext. intros j. cbn [fst snd]. f_equal.
  apply dotp_lin. unfold filled. rewrite !map_length. transitivity D; [exact (proj1 Hp) | symmetry; exact (proj1 Hq)]. Qed.

Lemma Forall2_and3 {A B} (P : A -> Prop) (Q : B -> Prop) (Rp : A -> B -> Prop) l l' :
  Forall P l -> Forall Q l' -> Forall2 Rp l l' -> Forall2 (fun x y => P x /\ Q y /\ Rp x y) l l'.
Proof. intros HP HQ HR. induction HR as [|x y l l' Hxy HR IH]; constructor.
  - inversion HP; inversion HQ; subst. tauto.
  - apply IH; [now inversion HP | now inversion HQ]. Qed.
Lemma rel3_and3 {A B} (P : A -> Prop) (Q : B -> Prop) (Rp : A -> B -> Prop) X Y :
  all3 P X -> all3 Q Y -> rel3 Rp X Y -> rel3 (fun x y => P x /\ Q y /\ Rp x y) X Y.
Proof. intros HP HQ HR. unfold all3, rel3 in *.
  eapply Forall2_weaken; [|exact (Forall2_and3 _ _ _ _ _ HP HQ HR)]. intros fr fr' [H1 [H2 H3]].
  eapply Forall2_weaken; [|exact (Forall2_and3 _ _ _ _ _ H1 H2 H3)]. intros pe pe' [H4 [H5 H6]].
  exact (Forall2_and3 _ _ _ _ _ H4 H5 H6). Qed.

Lemma matmul_ok D K M (b : rframes) : matrix_ok R_ops D K M = true ->
  matmul R_ops D D K M b = Ok (map3 R_ops (matmul_point R_ops K M) b).
Proof. intros H. unfold matmul. now rewrite Nat.eqb_refl, H. Qed.

Lemma matmul_linear D K M a b (X Y : rframes) :
  wf_body D X -> wf_body D Y -> rel3 same_conf_mask X Y -> matrix_ok R_ops D K M = true ->
  exists RX RY, matmul R_ops D D K M X = Ok RX /\ matmul R_ops D D K M Y = Ok RY /\
                matmul R_ops D D K M (lin a X b Y) = Ok (lin a RX b RY).
Proof. intros HX HY Hs HM. rewrite !(matmul_ok D K M) by exact HM.
  eexists. eexists. split; [reflexivity|]. split; [reflexivity|]. f_equal.
  unfold lin. rewrite map3_zip3, zip3_map3.
  apply (zip3_rel_ext (lin_compat D)).
  - eapply rel3_weaken; [|exact (rel3_and3 _ _ _ _ _ HX HY Hs)].
    intros p q [Hp [Hq [Hpc Hm]]]. unfold lin_compat. repeat split; try apply Hp; try apply Hq; symmetry; assumption.
  - intros p q Hc. now apply (matmul_point_linear a b D). Qed.

Lemma matmul_identity D (b : rframes) :
  wf_body D b -> exists b', matmul R_ops D D D (eye R_ops D) b = Ok b' /\ rel3 same_observed b b'.
Proof. intros Hwf. rewrite matmul_ok by (apply (matrix_ok_entries (fun i j' => if Nat.eqb i j' then 1 else 0))).
  eexists. split; [reflexivity|]. apply (all3_rel3_map3 (wf_point D)); [exact Hwf|].
  intros p Hp. now apply matmul_point_identity. Qed.

(* confidences and missing points are untouched by any matrix *)
Definition matmul_mask_spec (K : nat) (p p' : rpoint) : Prop := pc p' = pc p /\ masks p' = repeat (missing p) K.
Lemma matmul_keeps_conf_mask D R' K M (b b' : rframes) :
  wf_body D b -> matmul R_ops D R' K M b = Ok b' -> rel3 (matmul_mask_spec K) b b' /\ wf_body K b'.
Proof. intros Hwf H. unfold matmul in H. destruct (_ && _); [|discriminate]. injection H as <-. split.
  - apply (all3_rel3_map3 (wf_point D)); [exact Hwf|]. intros p Hp. split; [reflexivity | now apply (matmul_point_masks D)].
  - apply (all3_map3 (wf_point D)); [exact Hwf|]. intros p. apply matmul_point_wf. Qed.
Lemma matmul_defined D K M (b : rframes) : matrix_ok R_ops D K M = true -> exists b', matmul R_ops D D K M b = Ok b'.
Proof. intros H. rewrite matmul_ok by exact H. eauto. Qed.
