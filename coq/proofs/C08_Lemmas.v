(* C08 - list lemmas: zips, gathers and maps commute. *)
From Coq Require Import ZArith NArith List Bool Lia.
Require Import Result C08_Body.
Import ListNotations.
Local Open Scope nat_scope.

Lemma zipw_same {A} (f : A -> A -> A) (l : list A) : (forall x, f x x = x) -> zipw f l l = l.
Proof. intros Hf. induction l as [|x l IH]; cbn [zipw]; [reflexivity|]. now rewrite Hf, IH. Qed.
Lemma zipw_ext {A B C} (f g : A -> B -> C) a b : (forall x y, f x y = g x y) -> zipw f a b = zipw g a b.
Proof. intros H. revert b; induction a as [|x a IH]; intros [|y b]; cbn [zipw]; try reflexivity. now rewrite H, IH. Qed.
Lemma zipw_map2 {X A B C} (f : A -> B -> C) (a : X -> A) (b : X -> B) (l : list X) :
  zipw f (map a l) (map b l) = map (fun x => f (a x) (b x)) l.
Proof. induction l as [|x l IH]; cbn [map zipw]; [reflexivity|]. now rewrite IH. Qed.
Lemma zipw_repeat_r {A B C} (f : A -> B -> C) (l : list A) (y : B) (n : nat) :
  length l <= n -> zipw f l (repeat y n) = map (fun x => f x y) l.
Proof. revert n; induction l as [|x l IH]; intros [|n] H; cbn [zipw repeat map length] in *; try reflexivity; [lia|].
  rewrite IH by lia. reflexivity. Qed.
Lemma zipw_repeat_both {A B C} (f : A -> B -> C) (x : A) (y : B) (n : nat) :
  zipw f (repeat x n) (repeat y n) = repeat (f x y) n.
Proof. induction n as [|n IH]; cbn [zipw repeat]; [reflexivity|]. now rewrite IH. Qed.
Lemma map_repeat' {A B} (f : A -> B) (x : A) (n : nat) : map f (repeat x n) = repeat (f x) n.
Proof. induction n as [|n IH]; cbn [map repeat]; [reflexivity|]. now rewrite IH. Qed.
Lemma forallb_repeat (b : bool) (n : nat) : n <> 0 -> forallb (fun z => z) (repeat b n) = b.
Proof. intros Hn. induction n as [|n IH]; [contradiction|]. cbn [repeat forallb].
  destruct n as [|n]; [cbn; now rewrite andb_true_r|]. rewrite IH by discriminate. now destruct b. Qed.

(* nested zips of two maps of the same list *)
Lemma zip3_map3 {X A B C} (f : A -> B -> C) (a : X -> A) (b : X -> B) (l : t3 X) :
  zip3 f (map3 a l) (map3 b l) = map3 (fun x => f (a x) (b x)) l.
Proof. unfold zip3, map3. rewrite zipw_map2. apply map_ext. intros l2. rewrite zipw_map2. apply map_ext.
  intros l1. apply zipw_map2. Qed.
Lemma zip4_map3 {X A B C} (f : A -> B -> C) (a : X -> list A) (b : X -> list B) (l : t3 X) :
  zip4 f (map3 a l) (map3 b l) = map3 (fun x => zipw f (a x) (b x)) l.
Proof. unfold zip4. apply (zip3_map3 (zipw f)). Qed.
Lemma zip3_map2 {X A B C} (f : A -> B -> C) (a : X -> list A) (b : X -> list B) (l : t2 X) :
  zip3 f (map2n a l) (map2n b l) = map2n (fun x => zipw f (a x) (b x)) l.
Proof. unfold zip3, map2n. rewrite zipw_map2. apply map_ext. intros l1. apply zipw_map2. Qed.
Lemma map3_map3 {X Y Z} (g : Y -> Z) (f : X -> Y) (l : t3 X) : map3 g (map3 f l) = map3 (fun x => g (f x)) l.
Proof. unfold map3. rewrite map_map. apply map_ext; intros l2. rewrite map_map. apply map_ext; intros l1. apply map_map. Qed.
Lemma map4_map3 {X Y Z} (g : Y -> Z) (f : X -> list Y) (l : t3 X) : map4 g (map3 f l) = map3 (fun x => map g (f x)) l.
Proof. unfold map4. apply (map3_map3 (map g)). Qed.
Lemma map3_map2n {X Y Z} (g : Y -> Z) (f : X -> list Y) (l : t2 X) : map3 g (map2n f l) = map2n (fun x => map g (f x)) l.
Proof. unfold map3, map2n. rewrite map_map. apply map_ext; intros l1. apply map_map. Qed.
Lemma map3_ext {X Y} (f g : X -> Y) (l : t3 X) : (forall x, f x = g x) -> map3 f l = map3 g l.
Proof. intros H. unfold map3. apply map_ext; intros l2. apply map_ext; intros l1. now apply map_ext. Qed.
Lemma map2n_ext {X Y} (f g : X -> Y) (l : t2 X) : (forall x, f x = g x) -> map2n f l = map2n g l.
Proof. intros H. unfold map2n. apply map_ext; intros l1. now apply map_ext. Qed.

(* gathers commute with maps *)
Lemma gat_map {X Y} (h : X -> Y) (ix : list nat) (l : list X) : gat ix (map h l) = map h (gat ix l).
Proof. unfold gat. induction ix as [|i ix IH]; cbn [flat_map map]; [reflexivity|].
  rewrite map_app, <- IH. f_equal. rewrite nth_error_map. now destruct (nth_error l i). Qed.
Lemma gat_length_le {X} (ix : list nat) (l : list X) : length (gat ix l) <= length ix.
Proof. unfold gat. induction ix as [|i ix IH]; cbn [flat_map length]; [lia|]. rewrite app_length.
  destruct (nth_error l i); cbn [length]; lia. Qed.
Lemma nth_map_nil {X Y} (h : X -> Y) (k : nat) (l : list (list X)) : nth k (map (map h) l) [] = map h (nth k l []).
Proof. change (@nil Y) with (map h []). apply map_nth. Qed.

Lemma shape_eqb_refl s : shape_eqb s s = true.
Proof. induction s as [|x s IH]; cbn [shape_eqb]; [reflexivity|]. now rewrite Nat.eqb_refl, IH. Qed.

(* index normalisation on in-range, non-negative positions *)
Lemma rmapM_ok {A B} (f : A -> result B) (g : A -> B) (l : list A) :
  Forall (fun a => f a = Ok (g a)) l -> rmapM f l = Ok (map g l).
Proof. induction 1 as [|a l Ha _ IH]; cbn [rmapM map]; [reflexivity|]. rewrite Ha. cbn [rbind]. rewrite IH. reflexivity. Qed.
Lemma norm_wrap_in n i : (0 <= i < Z.of_nat n)%Z -> norm_wrap n i = Ok (Z.to_nat i).
Proof. intros H. unfold norm_wrap. replace ((0 <=? i) && (i <? Z.of_nat n))%Z with true; [reflexivity|].
  symmetry. apply andb_true_iff. split; [apply Z.leb_le|apply Z.ltb_lt]; lia. Qed.
Lemma norm_gather_in n i : (0 <= i < Z.of_nat n)%Z -> norm_gather n i = Ok (Z.to_nat i).
Proof. intros H. unfold norm_gather. replace ((0 <=? i) && (i <? Z.of_nat n))%Z with true; [reflexivity|].
  symmetry. apply andb_true_iff. split; [apply Z.leb_le|apply Z.ltb_lt]; lia. Qed.
Lemma unchecked_in n i : (0 <= i < Z.of_nat n)%Z -> unchecked n i = Ok (Z.to_nat i).
Proof. intros H. unfold unchecked. now rewrite Z.mod_small. Qed.
Lemma ix_list_in b eo n inner idx :
  idx <> [] -> Forall (fun i => (0 <= i < Z.of_nat n)%Z) idx -> ix_list b eo n inner idx = Ok (map Z.to_nat idx).
Proof. intros Hne H.
  assert (Hw : rmapM (norm_wrap n) idx = Ok (map Z.to_nat idx))
    by (apply rmapM_ok; eapply Forall_impl; [|exact H]; intros i Hi; now apply norm_wrap_in).
  assert (Hg : rmapM (norm_gather n) idx = Ok (map Z.to_nat idx))
    by (apply rmapM_ok; eapply Forall_impl; [|exact H]; intros i Hi; now apply norm_gather_in).
  assert (Hu : rmapM (unchecked n) idx = Ok (map Z.to_nat idx))
    by (apply rmapM_ok; eapply Forall_impl; [|exact H]; intros i Hi; now apply unchecked_in).
  destruct b; cbn [ix_list].
  - exact Hw.
  - destruct (_ && _); assumption.
  - destruct idx as [|i idx]; [contradiction|]. destruct (Nat.eqb inner 0); assumption. Qed.
(* a positive step is accepted by every framework *)
Lemma ix_slice_pos b n s : match s_step s with Some k => (0 < k)%Z | None => True end -> ix_slice b n s = slice_idx n s.
Proof. intros H. unfold ix_slice. destruct b; try reflexivity. destruct (s_step s) as [k|]; [|reflexivity].
  destruct (Z.ltb_spec k 0); [lia|reflexivity]. Qed.
