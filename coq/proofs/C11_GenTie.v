(* C11 - ties between the facts regenerated from /repo (gen/Gen_C11.v) and what the hand-written model uses. *)
From Coq Require Import List Arith Bool NArith ZArith.
Require Import Result Tensor C11_Str C11_Select C11_Helpers C11_Tables Gen_C11.
Import ListNotations.
Open Scope str_scope.
Open Scope list_scope.

(* POINTS_DIMS and the transposes executed by the three get_points, in execution order *)
Lemma points_dims_tie : Gen_C11.points_dims = C11_Select.points_dims.
Proof. reflexivity. Qed.
Lemma get_points_perms_tie :
  Gen_C11.np_perms = [C11_Select.points_dims; C11_Select.points_dims; conf_perm; conf_perm] /\
  Gen_C11.torch_perms = [C11_Select.points_dims; C11_Select.points_dims; conf_perm; conf_perm] /\
  Gen_C11.tf_perms = [C11_Select.points_dims; C11_Select.points_dims; conf_perm; conf_perm].
Proof. repeat split; reflexivity. Qed.
(* get_components copies name, points, limbs, colours, format into the like-named constructor parameters, and builds the
   new header from (version, dimensions, components) with is_bbox left at its default False *)
Lemma constructors_tie :
  Gen_C11.component_ctor_params = ["name"; "points"; "limbs"; "colors"; "point_format"] /\
  firstn 5 Gen_C11.component_ctor_fields =
    [("name", "name"); ("points", "points"); ("limbs", "limbs"); ("colors", "colors"); ("format", "point_format")] /\
  Gen_C11.gc_component_args = ["component.name"; "component.points"; "component.limbs"; "component.colors"; "component.format"] /\
  Gen_C11.header_ctor_params = ["version"; "dimensions"; "components"; "is_bbox"] /\
  Gen_C11.header_ctor_defaults = ["False"] /\
  Gen_C11.header_ctor_fields = [("version", "version"); ("dimensions", "dimensions"); ("components", "components"); ("is_bbox", "is_bbox")] /\
  Gen_C11.gc_header_args = ["self.header.version"; "self.header.dimensions"; "new_components_order"] /\
  Gen_C11.gc_pose_args = ["header=new_header"; "body=new_body"].
Proof. repeat split; reflexivity. Qed.
(* the name tables of utils/generic.py *)
Lemma tables_tie : Gen_C11.tables = C11_Tables.pinned_tables.
Proof. reflexivity. Qed.
(* generic.py's hard-coded list of MediaPipe component names is the list utils/holistic.py builds *)
Lemma holistic_names_tie : Gen_C11.holistic_component_names = t_mediapipe Gen_C11.tables.
Proof. reflexivity. Qed.
Lemma correct_wrists_hands_tie : Gen_C11.correct_wrists_hands = ["LEFT"; "RIGHT"].
Proof. reflexivity. Qed.
(* the translator's evaluation of `any(word in point ...)` agrees with the model's substring test *)
Lemma hide_openpose_tie :
  t_hide_openpose Gen_C11.tables =
  [("pose_keypoints_2d", filter (fun p => existsb (fun w => substrb w p) Gen_C11.hide_openpose_words) Gen_C11.openpose_body_points)].
Proof. reflexivity. Qed.
(* every leg point named for Holistic is a MediaPipe body landmark *)
Lemma hide_holistic_tie :
  forallb (fun e => forallb (fun p => mem p Gen_C11.flipped_body_points) (snd e)) (t_hide_holistic Gen_C11.tables) = true /\
  map fst (t_hide_holistic Gen_C11.tables) = ["POSE_LANDMARKS"; "POSE_WORLD_LANDMARKS"].
Proof. split; reflexivity. Qed.
