(* C05: the facts regenerated from src/js/pose_format/src/parser.ts (coq/gen/Gen_C05.v, harness/translate_c05.py) are the
   ones the hand-written model coq/model/C05_JsParser.v was written from.  Every lemma is by [reflexivity]: an edit of
   parser.ts that changes a schema, an index expression, the version switch or the text of a function breaks one of them. *)
From Coq Require Import String List ZArith NArith.
Require Import C05_JsParser Gen_C05.
Import ListNotations.
Local Open Scope string_scope.

(* newParser(): little endian *)
Lemma js_little_tie : Gen_C05.js_little = C05_JsParser.js_little.
Proof. reflexivity. Qed.
(* the fluent binary-parser chains of the header *)
Lemma js_limb_tie : Gen_C05.js_limb = limb_schema. Proof. reflexivity. Qed.
Lemma js_color_tie : Gen_C05.js_color = color_schema. Proof. reflexivity. Qed.
Lemma js_str_tie : Gen_C05.js_str = str_schema. Proof. reflexivity. Qed.
Lemma js_component_tie : Gen_C05.js_component = component_schema. Proof. reflexivity. Qed.
Lemma js_header_tie : Gen_C05.js_header = header_schema. Proof. reflexivity. Qed.
(* the info parser of parseBodyV0_1 for the two versions, and infoSize *)
Lemma js_info_v01_tie : forall hl, Gen_C05.js_info_v01 hl = info_v01_schema hl. Proof. reflexivity. Qed.
Lemma js_info_v02_tie : forall hl, Gen_C05.js_info_v02 hl = info_v02_schema hl. Proof. reflexivity. Qed.
Lemma js_info_size_tie : Gen_C05.js_info_size_v01 = info_size_v01 /\ Gen_C05.js_info_size_v02 = info_size_v02.
Proof. split; reflexivity. Qed.
(* the index expressions of parseBodyV0_1 / frameRepresentation *)
Lemma js_index_exprs_tie :
  (forall f p t d, Gen_C05.js_data_len f p t d = C05_JsParser.js_data_len f p t d) /\
  (forall f p t, Gen_C05.js_conf_len f p t = C05_JsParser.js_conf_len f p t) /\
  (forall h s, Gen_C05.js_data_start h s = C05_JsParser.js_data_start h s) /\
  (forall i p t j, Gen_C05.js_offset i p t j = C05_JsParser.js_offset i p t j) /\
  (forall o k l, Gen_C05.js_place o k l = C05_JsParser.js_place o k l) /\
  (forall pl d x, Gen_C05.js_data_index pl d x = C05_JsParser.js_data_index pl d x).
Proof. repeat split; reflexivity. Qed.
(* parsePose: Math.round(version * 1000) / 1000 and the case table *)
Lemma js_switch_tie :
  Gen_C05.js_round_mul = 1000%Z /\ Gen_C05.js_round_div = 1000%Z /\
  Gen_C05.js_switch =
  [ ("0", "parseBodyV0_0 ( header , buffer )");
    ("0.1", "parseBodyV0_1 ( header , buffer , version )");
    ("0.2", "parseBodyV0_1 ( header , buffer , version )");
    ("default", "throw") ].
Proof. repeat split; reflexivity. Qed.
(* the text of every function of parser.ts (tokens, comments dropped): the parts of the model that are not schemas
   (getBodyParserV0_0, parseFloat32Array, frameRepresentation, the Proxy, parsePose) were transcribed from these *)
Definition txt_newParser : string :=
  "(  ) return new Parser ( ) . endianess ( ""little"" ) ;".
Lemma src_newParser_tie : Gen_C05.src_newParser = txt_newParser.
Proof. reflexivity. Qed.
Definition txt_componentHeaderParser : string :=
  "(  ) const limbParser = newParser ( ) . uint16 ( ""from"" ) . uint16 ( ""to"" ) ; const colorParser = newParser ( ) . uint16 ( ""R"" ) . uint16 ( ""G"" ) . uint16 ( ""B"" ) ; const strParser = newParser ( ) . uint16 ( ""_chars"" ) . string ( ""text"" , { length : ""_chars"" } ) ; return newParser ( ) . uint16 ( ""_name"" ) . string ( ""name"" , { length : ""_name"" } ) . uint16 ( ""_format"" , ) . string ( ""format"" , { length : ""_format"" } ) . uint16 ( ""_points"" ) . uint16 ( ""_limbs"" ) . uint16 ( ""_colors"" ) . array ( ""points"" , { type : strParser , formatter : ( arr : any ) => arr . map ( ( item : any ) => item . text ) , length : ""_points"" } ) . array ( ""limbs"" , { type : limbParser , length : ""_limbs"" } ) . array ( ""colors"" , { type : colorParser , length : ""_colors"" } ) ;".
Lemma src_componentHeaderParser_tie : Gen_C05.src_componentHeaderParser = txt_componentHeaderParser.
Proof. reflexivity. Qed.
Definition txt_getHeaderParser : string :=
  "(  ) const componentParser = componentHeaderParser ( ) ; return newParser ( ) . floatle ( ""version"" ) . uint16 ( ""width"" ) . uint16 ( ""height"" ) . uint16 ( ""depth"" ) . uint16 ( ""_components"" ) . array ( ""components"" , { type : componentParser , length : ""_components"" } ) . saveOffset ( ""headerLength"" )".
Lemma src_getHeaderParser_tie : Gen_C05.src_getHeaderParser = txt_getHeaderParser.
Proof. reflexivity. Qed.
Definition txt_getBodyParserV0_0 : string :=
  "( header : PoseHeaderModel ) let personParser : any = newParser ( ) . int16 ( ""id"" ) ; header . components . forEach ( component => { let pointParser : any = newParser ( ) ; Array . from ( component . format ) . forEach ( c => { pointParser = pointParser . floatle ( c ) ; } ) ; personParser = personParser . array ( component . name , { ""type"" : pointParser , ""length"" : component . _points } ) ; } ) ; const frameParser = newParser ( ) . uint16 ( ""_people"" ) . array ( ""people"" , { type : personParser , length : ""_people"" } ) ; return newParser ( ) . seek ( header . headerLength ) . uint16 ( ""fps"" ) . uint16 ( ""_frames"" ) . array ( ""frames"" , { type : frameParser , length : ""_frames"" } )".
Lemma src_getBodyParserV0_0_tie : Gen_C05.src_getBodyParserV0_0 = txt_getBodyParserV0_0.
Proof. reflexivity. Qed.
Definition txt_parseBodyV0_0 : string :=
  "( header : PoseHeaderModel , buffer : Buffer ) return getBodyParserV0_0 ( header ) . parse ( buffer ) as unknown as PoseBodyModel".
Lemma src_parseBodyV0_0_tie : Gen_C05.src_parseBodyV0_0 = txt_parseBodyV0_0.
Proof. reflexivity. Qed.
Definition txt_parseBodyV0_1 : string :=
  "( header : PoseHeaderModel , buffer : Buffer , version : number ) const _points = header . components . map ( c => c . points . length ) . reduce ( ( a , b ) => a + b , 0 ) ; const _dims = Math . max ( ... header . components . map ( c => c . format . length ) ) - 1 ; let infoParser = newParser ( ) . seek ( header . headerLength ) ; let infoSize = 0 ; if ( version === 0.1 ) { infoParser = infoParser . uint16 ( ""fps"" ) . uint16 ( ""_frames"" ) ; infoSize = 6 ; } else if ( version === 0.2 ) { infoParser = infoParser . floatle ( ""fps"" ) . uint32 ( ""_frames"" ) ; infoSize = 10 ; } else { throw new Error ( `Invalid version ${version}` ) ; } infoParser = infoParser . uint16 ( ""_people"" ) ; const info = infoParser . parse ( buffer ) ; const parseFloat32Array = ( length : number , offset : number ) => { const dataView = new DataView ( buffer . buffer , buffer . byteOffset , buffer . length ) ; let currentOffset = offset ; const vars = { data : new Float32Array ( length ) , offset : 0 } ; for ( let i = 0 ; i < vars . data . length ; i ++ ) { let $tmp1 = dataView . getFloat32 ( currentOffset , true ) ; currentOffset += 4 ; vars . data [ i ] = $tmp1 } vars . offset = currentOffset ; return vars ; } ; const data = parseFloat32Array ( info . _frames * info . _people * _points * _dims , header . headerLength + infoSize ) ; const confidence = parseFloat32Array ( info . _frames * info . _people * _points , data . offset ) ; function frameRepresentation ( i : number ) { const people : any [ ] = new Array ( info . _people ) ; for ( let j = 0 ; j < info . _people ; j ++ ) { const person : any = { } ; people [ j ] = person ; let k = 0 ; header . components . forEach ( component => { person [ component . name ] = [ ] ; for ( let l = 0 ; l < component . points . length ; l ++ ) { const offset = i * ( info . _people * _points ) + j * _points ; const place = offset + k + l ; const point : any = { ""C"" : confidence . data [ place ] } ; let dimIndex = 0 ; [ ... component . format ] . forEach ( dim => { if ( dim !== ""C"" ) { point [ dim ] = data . data [ place * _dims + dimIndex ] ; dimIndex ++ ; } } ) ; person [ component . name ] . push ( point ) } k += component . points . length ; } ) ; } return { people } } const frames = new Proxy ( { } , { get : function ( target : any , name : any ) { if ( name === ""length"" ) { return info . _frames } return frameRepresentation ( name ) ; } } ) as PoseBodyFrameModel [ ] ; return { ... info , frames } as PoseBodyModel ;".
Lemma src_parseBodyV0_1_tie : Gen_C05.src_parseBodyV0_1 = txt_parseBodyV0_1.
Proof. reflexivity. Qed.
Definition txt_parsePose : string :=
  "( buffer : Buffer ) const header = headerParser . parse ( buffer ) as unknown as PoseHeaderModel ; let body : PoseBodyModel ; const version = Math . round ( header . version * 1000 ) / 1000 ; switch ( version ) { case 0 : body = parseBodyV0_0 ( header , buffer ) ; break ; case 0.1 : case 0.2 : body = parseBodyV0_1 ( header , buffer , version ) ; break ; default : throw new Error ( ""Parsing this body version is not implemented - "" + header . version ) ; } return { header , body } ;".
Lemma src_parsePose_tie : Gen_C05.src_parsePose = txt_parsePose.
Proof. reflexivity. Qed.
(* types.d.ts: the typed view of the result (the translator also checks that every declared header field is produced by
   the corresponding schema) *)
Lemma types_fields_tie : Gen_C05.types_fields =
  [ ("RGBColor", ["R"; "G"; "B"]);
    ("PoseLimb", ["from"; "to"]);
    ("PoseHeaderComponentModel", ["name"; "format"; "_points"; "_limbs"; "_colors"; "points"; "limbs"; "colors"]);
    ("PoseHeaderModel", ["version"; "width"; "height"; "depth"; "_components"; "components"; "headerLength"]);
    ("PosePointModel", ["X"; "Y"; "Z?"; "C?"]);
    ("PoseBodyFramePersonModel", ["[]"]);
    ("PoseBodyFrameModel", ["_people"; "people"]);
    ("PoseBodyModel", ["fps"; "_frames"; "frames"]);
    ("PoseModel", ["header"; "body"]) ].
Proof. reflexivity. Qed.
Lemma src_ties :
  Gen_C05.src_newParser = txt_newParser /\
  Gen_C05.src_componentHeaderParser = txt_componentHeaderParser /\
  Gen_C05.src_getHeaderParser = txt_getHeaderParser /\
  Gen_C05.src_getBodyParserV0_0 = txt_getBodyParserV0_0 /\
  Gen_C05.src_parseBodyV0_0 = txt_parseBodyV0_0 /\
  Gen_C05.src_parseBodyV0_1 = txt_parseBodyV0_1 /\
  Gen_C05.src_parsePose = txt_parsePose.
Proof. repeat split; reflexivity. Qed.
