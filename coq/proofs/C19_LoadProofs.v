(* C19 - load_openpose as a whole: it does not raise on fitting inputs, shape, recorded arguments, every cell. *)
From Coq Require Import List Arith NArith ZArith Bool Lia.
Require Import Result F32 C19_Layout C19_FrameId C19_OpenPose C19_Spec C19_ArrayLemmas C19_LoopLemmas.
Import ListNotations.
Local Open Scope nat_scope.

Lemma list_max_ge l x : In x l -> x <= list_max l.
Proof. induction l as [|y l IH]; intros H; [contradiction|]. cbn [list_max fold_right]. destruct H as [->|H]; [lia|]. specialize (IH H). unfold list_max in IH. lia. Qed.

Lemma total_points_cons c cs : total_points (c :: cs) = length (c_points c) + total_points cs.
Proof. reflexivity. Qed.

Lemma get3_map {A B} (g : A -> B) a f p k : get3 (map (map (map g)) a) f p k = option_map g (get3 a f p k).
Proof.
  unfold get3. rewrite nth_error_map. destruct (nth_error a f) as [x|]; [|reflexivity]. cbn [option_map].
  rewrite nth_error_map. destruct (nth_error x p) as [y|]; [|reflexivity]. cbn [option_map]. apply nth_error_map.
Qed.
Lemma rect_mask F P K (g : N -> list bool) a : (forall c, length (g c) = 2) -> rect3 F P K a -> rect4 F P K 2 (map (map (map g)) a).
Proof.
  intros Hg [HF HR]. split; [now rewrite map_length|]. rewrite Forall_map. eapply Forall_impl; [|exact HR].
  intros x [HxP HxR]. split; [now rewrite map_length|]. rewrite Forall_map. eapply Forall_impl; [|exact HxR].
  intros y HyK. cbv beta in HyK. split; [now rewrite map_length|]. rewrite Forall_map. apply Forall_forall. intros; apply Hg.
Qed.

Definition pose_shape_ok (ps : pose) : Prop :=
  let '(F, P, K) := p_shape ps in rect4 F P K 2 (p_data ps) /\ rect4 F P K 2 (p_mask ps) /\ rect3 F P K (p_conf ps).

(* the general theorem: any component table whose formats have three letters, any fitting input *)
Theorem load_general cs (fs : frames) fps w h d nf :
  formats_xyc cs -> fs <> [] -> dict_ok fs -> count_ok fs nf -> frames_fit cs fs ->
  exists ps, load_openpose cs fs fps w h d nf = Ok ps /\
    p_comps ps = cs /\ p_dims ps = (w, h, d) /\ p_fps ps = fps /\
    p_shape ps = (frame_count fs nf, max_people fs, total_points cs) /\ pose_shape_ok ps /\
    forall f p k, f < frame_count fs nf -> p < max_people fs -> k < total_points cs ->
      cell_at ps f p k = Some (expected_cell cs fs f p k) /\
      forall x y c, expected_cell cs fs f p k = (x, y, c) ->
        mask_at ps f p k 0 = Some (is_zero32 c) /\ mask_at ps f p k 1 = Some (is_zero32 c).
Proof.
  intros Hfmt Hne Hnd Hcnt Hfit.
  set (F := frame_count fs nf). set (P := max_people fs). set (K := total_points cs).
  unfold load_openpose.
  assert (E1 : match nf with Some n => Ok n | None => match fs with [] => Err Value | _ :: _ => Ok (list_max (map fst fs) + 1) end end = Ok F).
  { unfold F, frame_count, last_id. destruct nf; [reflexivity|]. destruct fs; [contradiction|reflexivity]. }
  rewrite E1. cbn [rbind].
  assert (E2 : match fs with [] => Err Value | _ :: _ => Ok (list_max (map (fun x => length (snd x)) fs)) end = Ok P).
  { unfold P, max_people. destruct fs; [contradiction|reflexivity]. }
  rewrite E2. cbn [rbind]. fold K.
  assert (Hall : Forall (fun x => fst x < F /\ length (snd x) <= P /\ Forall (fits K cs) (snd x)) fs).
  { apply Forall_forall. intros x Hx. split; [|split].
    - assert (fst x <= last_id fs) by (apply list_max_ge, in_map; exact Hx).
      unfold F, frame_count. unfold count_ok in Hcnt. destruct nf; lia.
    - apply list_max_ge. apply (in_map (fun x => length (snd x))). exact Hx.
    - unfold frames_fit in Hfit. rewrite Forall_forall in Hfit. exact (Hfit x Hx). }
  destruct (frame_loop_ok F P K cs Hfmt fs _ Hall Hnd (zeros_shaped F P K)) as (a & R & Hs & G).
  rewrite R. cbn [rbind].
  eexists. split; [reflexivity|]. cbn [p_comps p_dims p_fps p_shape].
  split; [reflexivity|]. split; [reflexivity|]. split; [reflexivity|]. split; [reflexivity|].
  split.
  { unfold pose_shape_ok. cbn [p_shape p_data p_mask p_conf]. destruct Hs as [Hd Hc].
    split; [exact Hd|]. split; [|exact Hc]. apply rect_mask; [reflexivity|exact Hc]. }
  intros f p k Hf Hp Hk.
  assert (Hcell : cell a f p k = Some (expected_cell cs fs f p k)).
  { rewrite G, zeros_cell. unfold expected_cell, json_person.
    destruct (Nat.ltb_spec f F), (Nat.ltb_spec p P), (Nat.ltb_spec k K); try lia. cbn [andb].
    destruct (find_frame f fs) as [fr|]; [|reflexivity].
    destruct (nth_error fr p) as [per|]; [|reflexivity].
    unfold pcell. destruct (person_triples cs per) as [ts|]; [|reflexivity].
    destruct (Nat.ltb_spec k (length ts)) as [Hlt|Hge].
    - destruct (nth_error ts k) eqn:E; [reflexivity|]. apply nth_error_None in E. lia.
    - destruct (nth_error ts k) eqn:E; [|reflexivity].
      assert (k < length ts) by (apply nth_error_Some; rewrite E; discriminate). lia. }
  split.
  - unfold cell_at, data_at, conf_at; cbn [p_data p_conf]. exact Hcell.
  - intros x y c Hxyc. rewrite Hxyc in Hcell. unfold mask_at, get4; cbn [p_mask]. rewrite get3_map.
    unfold cell in Hcell.
    destruct (get4 (a_data a) f p k 0); [|discriminate]. destruct (get4 (a_data a) f p k 1); [|discriminate].
    destruct (get3 (a_conf a) f p k) as [c'|]; [|discriminate]. injection Hcell as _ _ ->.
    cbn [option_map nth_error]. split; reflexivity.
Qed.

(* cells of the pose as separate reads *)
Lemma cell_at_inv ps f p k x y c : cell_at ps f p k = Some (x, y, c) ->
  data_at ps f p k 0 = Some x /\ data_at ps f p k 1 = Some y /\ conf_at ps f p k = Some c.
Proof.
  unfold cell_at. destruct (data_at ps f p k 0); [|discriminate]. destruct (data_at ps f p k 1); [|discriminate].
  destruct (conf_at ps f p k); [|discriminate]. intros H; injection H as -> -> ->. auto.
Qed.

(* ---- a conforming person: the running index is the component offset ---- *)
Lemma chunk3_len : forall n ns, length ns = 3 * n ->
  exists t, chunk3 ns = Some t /\ length t = n /\
    forall i, i < n -> exists x y c, nth_error ns (3 * i) = Some x /\ nth_error ns (3 * i + 1) = Some y /\
                                  nth_error ns (3 * i + 2) = Some c /\ nth_error t i = Some (x, y, c).
Proof.
  induction n as [|n IH]; intros ns Hl.
  - destruct ns; [|discriminate]. exists []. split; [reflexivity|]. split; [reflexivity|]. intros i Hi; lia.
  - destruct ns as [|x [|y [|c r]]]; cbn [length] in Hl; try lia.
    destruct (IH r ltac:(lia)) as (t & Et & Lt & Ht).
    exists ((x, y, c) :: t). cbn [chunk3]. rewrite Et. split; [reflexivity|]. split; [cbn [length]; lia|].
    intros [|i] Hi.
    + exists x, y, c. cbn. auto.
    + destruct (Ht i ltac:(lia)) as (x' & y' & c' & H0 & H1 & H2 & H3).
      exists x', y', c'. replace (3 * S i) with (S (S (S (3 * i)))) by lia. cbn [Nat.add nth_error]. auto.
Qed.

Lemma conforming_triples : forall cs per, person_conforms cs per ->
  exists ts, person_triples cs per = Some ts /\ length ts = total_points cs /\
    forall k c i, locate cs k = Some (c, i) ->
      exists ns x y cf, lookup (c_name c) per = Some ns /\
        nth_error ns (3 * i) = Some x /\ nth_error ns (3 * i + 1) = Some y /\ nth_error ns (3 * i + 2) = Some cf /\
        nth_error ts k = Some (x, y, cf).
Proof.
  induction cs as [|c0 cs IH]; intros per Hc.
  - exists []. split; [reflexivity|]. split; [reflexivity|]. intros k c i H; discriminate.
  - inversion Hc as [|c0' cs' (ns & El & Ln) Hrest]; subst.
    destruct (IH per Hrest) as (t2 & E2 & L2 & H2).
    destruct (chunk3_len _ ns Ln) as (t1 & E1 & L1 & H1).
    exists (t1 ++ t2). cbn [person_triples]. rewrite El, E1, E2. split; [reflexivity|].
    split; [rewrite app_length, total_points_cons; lia|].
    intros k c i Hloc. cbn [locate] in Hloc.
    destruct (Nat.ltb_spec k (length (c_points c0))) as [Hlt|Hge].
    + injection Hloc as <- <-. destruct (H1 k Hlt) as (x & y & cf & A0 & A1 & A2 & A3).
      exists ns, x, y, cf. repeat split; try assumption.
      rewrite nth_error_app1 by lia. exact A3.
    + destruct (H2 _ _ _ Hloc) as (ns' & x & y & cf & B & B0 & B1 & B2 & B3).
      exists ns', x, y, cf. repeat split; try assumption.
      rewrite nth_error_app2 by lia. rewrite L1. exact B3.
Qed.
Lemma conforms_fits cs (fs : frames) : frames_conform cs fs -> frames_fit cs fs.
Proof.
  unfold frames_conform, frames_fit. intros H. eapply Forall_impl; [|exact H]. intros x Hx. cbv beta in Hx.
  eapply Forall_impl; [|exact Hx]. intros per Hper. destruct (conforming_triples cs per Hper) as (ts & E & L & _).
  exists ts. split; [exact E|lia].
Qed.
Lemma locate_lt : forall cs k c i, locate cs k = Some (c, i) -> k < total_points cs /\ i < length (c_points c) /\ In c cs.
Proof.
  induction cs as [|c0 cs IH]; intros k c i H; [discriminate|]. cbn [locate] in H. rewrite total_points_cons.
  destruct (Nat.ltb_spec k (length (c_points c0))).
  - injection H as <- <-. split; [lia|]. split; [assumption|]. now left.
  - destruct (IH _ _ _ H) as (A & B & C). split; [lia|]. split; [assumption|]. now right.
Qed.
Lemma locate_some : forall cs k, k < total_points cs -> exists c i, locate cs k = Some (c, i).
Proof.
  induction cs as [|c0 cs IH]; intros k H; [cbn in H; lia|]. rewrite total_points_cons in H. cbn [locate].
  destruct (Nat.ltb_spec k (length (c_points c0))); [eauto|]. apply IH. lia.
Qed.
Lemma json_person_in (fs : frames) f p per : json_person fs f p = Some per -> exists x, In x fs /\ In per (snd x).
Proof.
  unfold json_person. induction fs as [|[g fr] r IH]; cbn [find_frame]; [discriminate|].
  destruct (Nat.eqb f g).
  - intros H. exists (g, fr). split; [now left|]. eapply nth_error_In; exact H.
  - intros H. destruct (IH H) as (x & A & B). exists x. split; [now right|assumption].
Qed.
Lemma json_person_lt (fs : frames) f p per : json_person fs f p = Some per -> f <= last_id fs /\ p < max_people fs.
Proof.
  unfold json_person, last_id, max_people. induction fs as [|[g fr] r IH]; cbn [find_frame]; [discriminate|].
  cbn [map fst snd list_max fold_right]. destruct (Nat.eqb_spec f g) as [->|N].
  - intros H. assert (p < length fr) by (apply nth_error_Some; rewrite H; discriminate). lia.
  - intros H. destruct (IH H). unfold list_max in *. lia.
Qed.
