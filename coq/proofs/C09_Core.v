(* C09 - non-interference of the masked-array primitives: whatever is stored under the mask cannot be seen
   through them.  Everything is generic in the numeric instance (no law of the operations is used). *)
From Coq Require Import List Arith Bool Lia.
Require Import Tensor Num C09_Masked.
Import ListNotations.

Section Core.
Variable O : ops.
Variable E : ext O.
Notation T := (Num.T O).
Notation cell := (cell O).
Notation vis1 := (vis1 O).
Notation rd := (rd O).
Notation dcell := (dcell O).

(* ---- cells ---------------------------------------------------------------------------------------- *)
Lemma vis1_eq (c c' : cell) :
  vis1 c = vis1 c' <-> snd c = snd c' /\ (snd c = false -> fst c = fst c').
Proof.
  destruct c as [v m], c' as [v' m']; unfold C09_Masked.vis1; cbn [fst snd]. split.
  - intros H. destruct m, m'; inversion H; subst; split; auto; intros; discriminate.
  - intros [Hm Hv]. subst m'. destruct m; [reflexivity|]. now rewrite Hv.
Qed.
Lemma vis1_idem (c : cell) : vis1 (vis1 c) = vis1 c.
Proof. destruct c as [v m]; unfold C09_Masked.vis1; cbn [fst snd]. now destruct m. Qed.
Lemma vis1_snd (c c' : cell) : vis1 c = vis1 c' -> snd c = snd c'.
Proof. intros H. now apply vis1_eq in H. Qed.
Lemma vis1_fst (c c' : cell) : vis1 c = vis1 c' -> snd c = false -> fst c = fst c'.
Proof. intros H. apply vis1_eq in H. tauto. Qed.

(* respecting the observation: unary, binary, to a plain value *)
Definition VC1 (g : cell -> cell) := forall c c', vis1 c = vis1 c' -> vis1 (g c) = vis1 (g c').
Definition VC2 (g : cell -> cell -> cell) :=
  forall a a' b b', vis1 a = vis1 a' -> vis1 b = vis1 b' -> vis1 (g a b) = vis1 (g a' b').
Definition VI1 {X} (h : cell -> X) := forall c c', vis1 c = vis1 c' -> h c = h c'.
Definition VCL (red : list cell -> cell) := forall l l', agree_l O l l' -> vis1 (red l) = vis1 (red l').
Definition VIL {X} (red : list cell -> X) := forall l l', agree_l O l l' -> red l = red l'.

Ltac cells :=
  repeat match goal with
  | c : C09_Masked.cell _ |- _ => destruct c as [? ?]
  | c : (_ * bool)%type |- _ => destruct c as [? ?]
  end.
Ltac vc :=
  intros; cells;
  repeat match goal with H : C09_Masked.vis1 _ _ = C09_Masked.vis1 _ _ |- _ => apply vis1_eq in H; cbn [fst snd] in H; destruct H as [? ?] end;
  subst; apply vis1_eq; cbn [fst snd].

Lemma VC2_mbin f : VC2 (mbin O f).
Proof. unfold VC2, mbin. vc. match goal with |- context [?x || ?y] => destruct x, y end; cbn [orb]; split; auto; intros; try discriminate.
  repeat match goal with H : false = false -> _ |- _ => specialize (H eq_refl) end. congruence. Qed.
Lemma VC2_mdiv : VC2 (mdiv O E).
Proof. unfold VC2, mdiv. vc.
  match goal with |- context [(_ || ?x || ?y || _)] => destruct x, y end; cbn [orb];
  repeat rewrite ?orb_true_r, ?orb_true_l; cbn [orb]; try (split; [reflexivity|intros; discriminate]).
  repeat match goal with H : false = false -> _ |- _ => specialize (H eq_refl) end. subst.
  split; [reflexivity|]. intros _. reflexivity. Qed.
Lemma VC2_misub : VC2 (misub O).
Proof. unfold VC2, misub. vc. match goal with |- context [?x || ?y] => destruct x, y end; cbn [orb]; split; auto; intros; try discriminate.
  repeat match goal with H : false = false -> _ |- _ => specialize (H eq_refl) end. congruence. Qed.
Lemma VC2_mimul : VC2 (mimul O).
Proof. unfold VC2, mimul. vc. match goal with |- context [?x || ?y] => destruct x, y end; cbn [orb]; split; auto; intros; try discriminate.
  repeat match goal with H : false = false -> _ |- _ => specialize (H eq_refl) end. congruence. Qed.
Lemma VC2_tbin f : VC2 (tbin O f).
Proof. unfold VC2, tbin. vc. match goal with |- context [?x || ?y] => destruct x, y end; cbn [orb]; split; auto; intros; try discriminate.
  repeat match goal with H : false = false -> _ |- _ => specialize (H eq_refl) end. congruence. Qed.
Lemma VC1_mpow pw : VC1 (mpow O E pw).
Proof. unfold VC1, mpow. vc. match goal with b : bool |- _ => destruct b end; cbn [orb]; [split; [reflexivity|intros; discriminate]|].
  repeat match goal with H : false = false -> _ |- _ => specialize (H eq_refl) end. subst. split; reflexivity. Qed.
Lemma VC1_msqrt : VC1 (msqrt O).
Proof. unfold VC1, msqrt. vc. match goal with b : bool |- _ => destruct b end;
  repeat rewrite ?orb_true_r; [split; [reflexivity|intros; discriminate]|].
  repeat match goal with H : false = false -> _ |- _ => specialize (H eq_refl) end. subst. split; reflexivity. Qed.
Lemma VC1_tun f : VC1 (tun O f).
Proof. unfold VC1, tun. vc. split; [reflexivity|]. intros Hm.
  repeat match goal with H : _ = false -> _ |- _ => specialize (H Hm) end. subst. reflexivity. Qed.
Lemma VC1_tfixnan : VC1 (tfixnan O).
Proof. unfold VC1, tfixnan. vc. split; [reflexivity|]. intros Hm.
  repeat match goal with H : _ = false -> _ |- _ => specialize (H Hm) end. subst. reflexivity. Qed.
Lemma VI1_filled c0 : VI1 (filled O c0).
Proof. unfold VI1, filled. intros c c' H. apply vis1_eq in H. destruct H as [Hm Hv]. cells; cbn [fst snd] in *. subst.
  match goal with b : bool |- _ => destruct b end; auto. Qed.
Lemma VI1_tzero : VI1 (tzero O).
Proof. unfold VI1, tzero. intros c c' H. apply vis1_eq in H. destruct H as [Hm Hv]. cells; cbn [fst snd] in *. subst.
  match goal with b : bool |- _ => destruct b end; auto. Qed.
Lemma VI1_snd : VI1 (fun c : cell => snd c).
Proof. intros c c' H. now apply vis1_snd. Qed.
Lemma VC1_diag g : VC2 g -> VC1 (fun c => g c c).
Proof. intros H c c' Hc. now apply H. Qed.
Lemma VC1_left g b : VC2 g -> VC1 (fun c => g c b).
Proof. intros H c c' Hc. now apply H. Qed.
Lemma VC1_vis_filled : VC1 (fun x => (filled O (zero O) x, snd x)).
Proof. unfold VC1. vc. split; [reflexivity|]. intros Hm. unfold filled; cbn [fst snd].
  repeat match goal with H : _ = false -> _ |- _ => specialize (H Hm) end. rewrite Hm. assumption. Qed.

(* ---- lists ---------------------------------------------------------------------------------------- *)
Lemma cons_inj {X} (a b : X) l m : a :: l = b :: m -> a = b /\ l = m.
Proof. intros H. injection H as H1 H2. now split. Qed.
Lemma tab_ext {X} n (f g : nat -> X) : (forall k, f k = g k) -> tab n f = tab n g.
Proof. intros H. unfold tab. apply map_ext. exact H. Qed.
Lemma tab_ext_lt {X} n (f g : nat -> X) : (forall k, k < n -> f k = g k) -> tab n f = tab n g.
Proof. intros H. unfold tab. apply map_ext_in. intros k Hk. apply in_seq in Hk. apply H. lia. Qed.
Lemma map_tab {X Y} (h : X -> Y) n f : map h (tab n f) = tab n (fun k => h (f k)).
Proof. unfold tab. now rewrite map_map. Qed.
Lemma tab_length {X} n (f : nat -> X) : length (tab n f) = n.
Proof. unfold tab. now rewrite map_length, seq_length. Qed.
Lemma agree_l_len l l' : agree_l O l l' -> length l = length l'.
Proof. intros H. apply (f_equal (@length _)) in H. now rewrite !map_length in H. Qed.
Lemma vis1_dcell : vis1 dcell = dcell.
Proof. reflexivity. Qed.
Lemma rd_vis l l' i : agree_l O l l' -> vis1 (rd l i) = vis1 (rd l' i).
Proof. intros H. unfold C09_Masked.rd.
  rewrite <- (map_nth vis1 l dcell i), <- (map_nth vis1 l' dcell i). now rewrite H. Qed.
Lemma agree_l_refl l : agree_l O l l. Proof. reflexivity. Qed.
Lemma agree_l_tab n f g : (forall k, vis1 (f k) = vis1 (g k)) -> agree_l O (tab n f) (tab n g).
Proof. intros H. unfold agree_l. rewrite !map_tab. now apply tab_ext. Qed.
Lemma agree_l_tab_lt n f g : (forall k, k < n -> vis1 (f k) = vis1 (g k)) -> agree_l O (tab n f) (tab n g).
Proof. intros H. unfold agree_l. rewrite !map_tab. now apply tab_ext_lt. Qed.
Lemma agree_l_map g l l' : VC1 g -> agree_l O l l' -> agree_l O (map g l) (map g l').
Proof. intros Hg H. unfold agree_l in *. revert l' H. induction l as [|c l IH]; intros [|c' l'] H; cbn [map forallb existsb filter length] in *; try discriminate; [reflexivity|].
  apply cons_inj in H; destruct H as [H1 H2]. f_equal; [now apply Hg|now apply IH]. Qed.
Lemma map_VI1 {X} (h : cell -> X) l l' : VI1 h -> agree_l O l l' -> map h l = map h l'.
Proof. intros Hh H. unfold agree_l in *. revert l' H. induction l as [|c l IH]; intros [|c' l'] H; cbn [map forallb existsb filter length] in *; try discriminate; [reflexivity|].
  apply cons_inj in H; destruct H as [H1 H2]. f_equal; [now apply Hh|now apply IH]. Qed.
Lemma agree_l_app a a' b b' : agree_l O a a' -> agree_l O b b' -> agree_l O (a ++ b) (a' ++ b').
Proof. unfold agree_l. intros H1 H2. now rewrite !map_app, H1, H2. Qed.

(* elementwise combinators *)
Lemma ew_agree g a a' b b' : VC2 g -> agree_l O a a' -> agree_l O b b' -> agree_l O (ew O g a b) (ew O g a' b').
Proof. intros Hg Ha Hb. unfold ew. rewrite <- (agree_l_len _ _ Ha). apply agree_l_tab. intros k. apply Hg; now apply rd_vis. Qed.
Lemma ew1_agree g a a' : VC1 g -> agree_l O a a' -> agree_l O (ew1 O g a) (ew1 O g a').
Proof. intros Hg Ha. unfold ew1. rewrite <- (agree_l_len _ _ Ha). apply agree_l_tab. intros k. apply Hg; now apply rd_vis. Qed.
Lemma ew_trail_agree g l l' inner s s' : VC2 g -> agree_l O l l' -> agree_l O s s' ->
  agree_l O (ew_trail O g l inner s) (ew_trail O g l' inner s').
Proof. intros Hg Ha Hb. unfold ew_trail. rewrite <- (agree_l_len _ _ Ha). apply agree_l_tab. intros k. apply Hg; now apply rd_vis. Qed.
Lemma ew_scalar_agree g l l' s s' : VC2 g -> agree_l O l l' -> vis1 s = vis1 s' ->
  agree_l O (ew_scalar O g l s) (ew_scalar O g l' s').
Proof. intros Hg Ha Hs. unfold ew_scalar. rewrite <- (agree_l_len _ _ Ha). apply agree_l_tab. intros k. apply Hg; [now apply rd_vis|exact Hs]. Qed.

(* lanes and reductions *)
Lemma lane_lead_agree outer inner l l' j : agree_l O l l' -> agree_l O (lane_lead O outer inner l j) (lane_lead O outer inner l' j).
Proof. intros H. unfold lane_lead. apply agree_l_tab. intros i. now apply rd_vis. Qed.
Lemma lane_last_agree D l l' n : agree_l O l l' -> agree_l O (lane_last O D l n) (lane_last O D l' n).
Proof. intros H. unfold lane_last. apply agree_l_tab. intros i. now apply rd_vis. Qed.
Lemma red_lead_VIL {X} outer inner (red : list cell -> X) l l' : VIL red -> agree_l O l l' ->
  red_lead O outer inner red l = red_lead O outer inner red l'.
Proof. intros Hr H. unfold red_lead. apply tab_ext. intros j. apply Hr. now apply lane_lead_agree. Qed.
Lemma red_last_VIL {X} n D (red : list cell -> X) l l' : VIL red -> agree_l O l l' ->
  red_last O n D red l = red_last O n D red l'.
Proof. intros Hr H. unfold red_last. apply tab_ext. intros j. apply Hr. now apply lane_last_agree. Qed.
Lemma red_last_VCL n D red l l' : VCL red -> agree_l O l l' ->
  agree_l O (red_last O n D red l) (red_last O n D red l').
Proof. intros Hr H. unfold red_last. apply agree_l_tab. intros j. apply Hr. now apply lane_last_agree. Qed.

Lemma VIL_allmasked : VIL (allmasked O).
Proof. intros l l' H. unfold allmasked. revert l' H. unfold agree_l.
  induction l as [|c l IH]; intros [|c' l'] H; cbn [map forallb existsb filter length] in *; try discriminate; [reflexivity|].
  apply cons_inj in H; destruct H as [H1 H2]. rewrite (vis1_snd _ _ H1). f_equal. now apply IH. Qed.
Lemma VIL_count : VIL (count O).
Proof. intros l l' H. unfold count. revert l' H. unfold agree_l.
  induction l as [|c l IH]; intros [|c' l'] H; cbn [map forallb existsb filter length] in *; try discriminate; [reflexivity|].
  apply cons_inj in H; destruct H as [H1 H2]. rewrite (vis1_snd _ _ H1). destruct (snd c'); cbn; [now apply IH|f_equal; now apply IH]. Qed.
Lemma VIL_msum : VIL (msum O).
Proof. intros l l' H. unfold msum. rewrite (map_VI1 _ _ _ (VI1_filled _) H), (VIL_allmasked _ _ H). reflexivity. Qed.
Lemma VIL_mmin : VIL (mmin O E).
Proof. intros l l' H. unfold mmin. rewrite (map_VI1 _ _ _ (VI1_filled _) H), (VIL_allmasked _ _ H). reflexivity. Qed.
Lemma VIL_mmax : VIL (mmax O E).
Proof. intros l l' H. unfold mmax. rewrite (map_VI1 _ _ _ (VI1_filled _) H), (VIL_allmasked _ _ H). reflexivity. Qed.
Lemma VIL_mmean : VIL (mmean O E).
Proof. intros l l' H. unfold mmean. now rewrite (VIL_msum _ _ H), (VIL_count _ _ H). Qed.
Lemma VIL_mstd : VIL (mstd O E).
Proof. intros l l' H. unfold mstd. rewrite (VIL_mmean _ _ H), (VIL_count _ _ H), (VIL_allmasked _ _ H).
  assert (Hd : agree_l O (map (fun c => mimul O c c) (map (fun c => mbin O (sub O) c (mmean O E l')) l))
                         (map (fun c => mimul O c c) (map (fun c => mbin O (sub O) c (mmean O E l')) l'))).
  { apply agree_l_map; [apply VC1_diag, VC2_mimul|]. apply agree_l_map; [apply VC1_left, VC2_mbin|exact H]. }
  now rewrite (VIL_msum _ _ Hd). Qed.
Lemma existsb_snd_agree l l' : agree_l O l l' -> existsb snd l = existsb snd l'.
Proof. revert l'. unfold agree_l. induction l as [|c l IH]; intros [|c' l'] H; cbn [map existsb] in *; try discriminate; [reflexivity|].
  apply cons_inj in H; destruct H as [H1 H2]. rewrite (vis1_snd _ _ H1). f_equal. now apply IH. Qed.
Lemma map_fst_agree l l' : agree_l O l l' -> existsb snd l = false -> map fst l = map fst l'.
Proof. revert l'. unfold agree_l. induction l as [|c l IH]; intros [|c' l'] H Hn; cbn [map existsb] in *; try discriminate; [reflexivity|].
  apply cons_inj in H; destruct H as [H1 H2]. apply orb_false_iff in Hn. destruct Hn as [Hc Hl].
  f_equal; [now apply vis1_fst|now apply IH]. Qed.
Lemma VCL_tsum : VCL (tsum O).
Proof. intros l l' H. unfold tsum. apply vis1_eq; cbn [fst snd].
  split; [now apply existsb_snd_agree|]. intros Hn. now rewrite (map_fst_agree _ _ H Hn). Qed.

End Core.
