(* C09 - concrete witnesses: hypotheses of the theorems are satisfiable by non-trivial values (binary64 instance),
   exactness of zero-filling, and the refutation of zero-filling by multiplication (defect F9). *)
From Coq Require Import List Arith Bool ZArith Lia PrimFloat.
Require Import Tensor Num Result C09_Masked C09_Ops C09_TfNorm C09_Facts C09_Run C09_Core C09_NI C09_NI2 C09_NI3 C09_GenTie Gen_C09.
Import ListNotations.

(* one frame, one person, two points, two coordinates; the second point is missing (confidence 0) and holds
   nan / +inf in one filling and 2^100 / -7 in the other *)
Definition ex_conf : tensor float := mkT [1; 1; 2] [1%float; 0%float].
Definition ex_raw : tensor float := mkT [1; 1; 2; 2] [3%float; 4%float; nan; infinity].
Definition ex_raw' : tensor float := mkT [1; 1; 2; 2] [3%float; 4%float; 0x1p100%float; (-7)%float].
Definition ex_np : body F_ops := np_ctor F_ops (of_plain F_ops ex_raw) ex_conf.
Definition ex_np' : body F_ops := np_ctor F_ops (of_plain F_ops ex_raw') ex_conf.
Definition ex_t : body F_ops := t_ctor_plain F_ops ex_raw ex_conf.
Definition ex_t' : body F_ops := t_ctor_plain F_ops ex_raw' ex_conf.
Definition ex_p : marr F_ops := mkT [1; 1; 1; 2] [(nan, true); (1%float, false)].
Definition ex_p' : marr F_ops := mkT [1; 1; 1; 2] [(5%float, true); (1%float, false)].

Lemma ex_same_pose : same_pose F_ops ex_raw ex_raw' ex_conf.
Proof. unfold same_pose. split; [reflexivity|]. split; [reflexivity|]. intros k Hk.
  destruct k as [|[|[|[|k]]]]; try reflexivity; vm_compute in Hk; discriminate. Qed.
Lemma ex_differ : bdat ex_np <> bdat ex_np'.
Proof. intros H. apply (f_equal (fun t => match nth 3 (data t) (0%float, true) with (x, _) => PrimFloat.eqb x (-7)%float end)) in H.
  vm_compute in H. discriminate. Qed.
Lemma ex_agree_np : agree_body F_ops ex_np ex_np'.
Proof. vm_compute. reflexivity. Qed.
Lemma ex_agree_t : agree_body F_ops ex_t ex_t'.
Proof. vm_compute. reflexivity. Qed.
Lemma ex_agree_p : agree F_ops ex_p ex_p'.
Proof. vm_compute. reflexivity. Qed.
Lemma ex_roundtrip_hyps :
  (forall x, is0 F_ops x = true -> is0 F_ops (cast32 FE x) = true) /\ wf_body F_ops ex_np /\
  mask_le_conf F_ops ex_np /\ mask_le_conf F_ops ex_np'.
Proof. split; [intros x H; exact H|]. split; [reflexivity|]. split; apply np_ctor_plain_inv. Qed.
(* the theorems are not vacuous on the example: the flipped, normalised ... results are visible-equal although the stored data differ *)
Lemma ex_normalize_runs :
  visible_body F_ops (np_normalize F_ops FE 0 0 1%float ex_np) = visible_body F_ops (np_normalize F_ops FE 0 0 1%float ex_np').
Proof. apply (np_normalize_ni F_ops FE). exact ex_agree_np. Qed.
(* the same on the TensorFlow body: the two fillings are stored differently, normalisation cannot tell *)
Lemma ex_differ_t : bdat ex_t <> bdat ex_t'.
Proof. intros H. apply (f_equal (fun t => match nth 3 (data t) (0%float, true) with (x, _) => PrimFloat.eqb x (-7)%float end)) in H.
  vm_compute in H. discriminate. Qed.
Lemma ex_tf_normalize_runs :
  bdat ex_t <> bdat ex_t' /\
  visible_body F_ops (tf_normalize F_ops 0 0 1%float ex_t) = visible_body F_ops (tf_normalize F_ops 0 0 1%float ex_t') /\
  visible_body F_ops (fst (tf_normalize_distribution F_ops 2 ex_t)) = visible_body F_ops (fst (tf_normalize_distribution F_ops 2 ex_t')).
Proof. split; [exact ex_differ_t|]. split; [apply (tf_normalize_ni F_ops); exact ex_agree_t|].
  apply (tf_normalize_distribution_ni F_ops 2 _ _ ex_agree_t). Qed.

(* zero filling *)
Lemma zero_fill_exact_gen (O : ops) (c : cell O) : snd c = true ->
  zf_sem O Gen_C09.torch_zero_filled c = zero O /\ zf_sem O Gen_C09.tf_zero_filled c = zero O.
Proof. intros H. destruct (zero_filled_tie O) as [H1 H2]. rewrite H1, H2. unfold tzero. rewrite H. split; reflexivity. Qed.
Lemma ex_masked_cell : snd (nan, true) = true.
Proof. reflexivity. Qed.
(* value * mask leaves nan at a missing slot that holds nan (and at one that holds +-inf) *)
Lemma zero_fill_mul_refuted : exists c : cell F_ops, snd c = true /\ zf_sem F_ops ZF_mul c <> zero F_ops.
Proof. exists (nan, true). split; [reflexivity|]. intros H.
  apply (f_equal (fun x => PrimFloat.eqb x x)) in H. vm_compute in H. discriminate. Qed.
