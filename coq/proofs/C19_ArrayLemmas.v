(* C19 - lemmas about the nested-list arrays: [upd] against [nth_error], rectangularity, the stores of one keypoint. *)
From Coq Require Import List Arith NArith Bool Lia.
Require Import Result F32 C19_Layout C19_FrameId C19_OpenPose C19_Spec.
Import ListNotations.
Local Open Scope nat_scope.

Section Upd.
Context {A : Type}.
Lemma upd_inv (i : nat) (g : A -> option A) (l l' : list A) :
  upd i g l = Some l' ->
  exists x y, nth_error l i = Some x /\ g x = Some y /\ length l' = length l /\
              (forall j, nth_error l' j = if Nat.eqb j i then Some y else nth_error l j).
Proof.
  revert i l'. induction l as [|a r IH]; intros i l' H; [destruct i; discriminate|].
  destruct i as [|i]; cbn [upd] in H.
  - destruct (g a) as [y|] eqn:Hg; [|discriminate]. injection H as <-.
    exists a, y. repeat split; try reflexivity; try assumption. intros [|j]; reflexivity.
  - destruct (upd i g r) as [r'|] eqn:Hu; [|discriminate]. injection H as <-.
    destruct (IH _ _ Hu) as (x & y & Hx & Hg & Hl & Hj).
    exists x, y. repeat split; try assumption.
    + cbn [length]. now rewrite Hl.
    + intros [|j]; [reflexivity|]. cbn [nth_error]. rewrite Hj. reflexivity.
Qed.
Lemma upd_ok (i : nat) (g : A -> option A) (l : list A) x y :
  nth_error l i = Some x -> g x = Some y -> exists l', upd i g l = Some l'.
Proof.
  revert i. induction l as [|a r IH]; intros i Hx Hg; [destruct i; discriminate|].
  destruct i as [|i]; cbn [upd nth_error] in *.
  - injection Hx as ->. rewrite Hg. eauto.
  - destruct (IH _ Hx Hg) as [r' Hr]. rewrite Hr. eauto.
Qed.
Lemma upd_Forall (Q : A -> Prop) i g (l l' : list A) :
  upd i g l = Some l' -> Forall Q l -> (forall x y, Q x -> g x = Some y -> Q y) -> Forall Q l'.
Proof.
  revert i l'. induction l as [|a r IH]; intros i l' H HF Hg; [destruct i; discriminate|].
  inversion HF as [|a' r' Ha Hr]; subst.
  destruct i as [|i]; cbn [upd] in H.
  - destruct (g a) as [y|] eqn:E; [|discriminate]. injection H as <-. constructor; eauto.
  - destruct (upd i g r) as [r2|] eqn:E; [|discriminate]. injection H as <-. constructor; eauto.
Qed.
End Upd.

Lemma nth_error_repeat {A} (x : A) n i : nth_error (repeat x n) i = if i <? n then Some x else None.
Proof.
  revert i; induction n as [|n IH]; intros i; cbn [repeat]; [destruct i; reflexivity|].
  destruct i as [|i]; [reflexivity|]. cbn [nth_error]. rewrite IH.
  destruct (Nat.ltb_spec i n), (Nat.ltb_spec (S i) (S n)); try reflexivity; lia.
Qed.
Lemma Forall_repeat {A} (Q : A -> Prop) x n : Q x -> Forall Q (repeat x n).
Proof. intros; induction n; cbn; constructor; assumption. Qed.
Lemma Forall_nth_error {A} (Q : A -> Prop) l i x : Forall Q l -> nth_error l i = Some x -> Q x.
Proof. intros HF Hn. rewrite Forall_forall in HF. apply HF. eapply nth_error_In; eassumption. Qed.
Lemma nth_error_lt_some {A} (l : list A) i : i < length l -> exists x, nth_error l i = Some x.
Proof. intros H. destruct (nth_error l i) eqn:E; [eauto|]. apply nth_error_None in E. lia. Qed.

Ltac nth_some l i x Hx :=
  let H := fresh in assert (H : i < length l) by lia; destruct (nth_error_lt_some l i H) as [x Hx]; clear H.

(* ---- one keypoint ---- *)
Definition cell (a : arrays) (f p k : nat) : option triple :=
  match get4 (a_data a) f p k 0, get4 (a_data a) f p k 1, get3 (a_conf a) f p k with
  | Some x, Some y, Some c => Some (x, y, c)
  | _, _, _ => None
  end.
Definition shaped (F P K : nat) (a : arrays) : Prop := rect4 F P K 2 (a_data a) /\ rect3 F P K (a_conf a).
Definition hit (f p k f' p' k' : nat) : bool := Nat.eqb f' f && Nat.eqb p' p && Nat.eqb k' k.

Lemma store3_spec {A} F P K f p k (v : A) a :
  rect3 F P K a -> f < F -> p < P -> k < K ->
  exists a', store3 f p k v a = Some a' /\ rect3 F P K a' /\
             forall f' p' k', get3 a' f' p' k' = if hit f p k f' p' k' then Some v else get3 a f' p' k'.
Proof.
  intros [HF HR] Hf Hp Hk.
  nth_some a f x Hx.
  destruct (Forall_nth_error _ _ _ _ HR Hx) as [HxP HxR].
  nth_some x p y Hy.
  pose proof (Forall_nth_error _ _ _ _ HxR Hy) as HyK; cbv beta in HyK.
  nth_some y k z Hz.
  destruct (upd_ok k (put v) y z v Hz eq_refl) as [y' Hy'].
  destruct (upd_ok p (upd k (put v)) x y y' Hy Hy') as [x' Hx'].
  destruct (upd_ok f (upd p (upd k (put v))) a x x' Hx Hx') as [a' Ha'].
  exists a'. split; [exact Ha'|].
  destruct (upd_inv _ _ _ _ Ha') as (x0 & x1 & Ex0 & Ex1 & La & Ga).
  rewrite Hx in Ex0; injection Ex0 as <-. rewrite Hx' in Ex1; injection Ex1 as <-.
  destruct (upd_inv _ _ _ _ Hx') as (y0 & y1 & Ey0 & Ey1 & Lx & Gx).
  rewrite Hy in Ey0; injection Ey0 as <-. rewrite Hy' in Ey1; injection Ey1 as <-.
  destruct (upd_inv _ _ _ _ Hy') as (z0 & z1 & Ez0 & Ez1 & Ly & Gy).
  unfold put in Ez1; injection Ez1 as <-.
  split.
  - split; [lia|]. eapply upd_Forall; [exact Ha'|exact HR|].
    intros u u' [HuP HuR] Hu. destruct (upd_inv _ _ _ _ Hu) as (_ & _ & _ & _ & Lu & _). split; [lia|].
    eapply upd_Forall; [exact Hu|exact HuR|].
    intros w w' Hw Hw'. destruct (upd_inv _ _ _ _ Hw') as (_ & _ & _ & _ & Lw & _). lia.
  - intros f' p' k'. unfold get3, hit. rewrite Ga.
    destruct (Nat.eqb_spec f' f) as [->|Nf]; cbn [andb]; [|reflexivity].
    rewrite Hx, Gx. destruct (Nat.eqb_spec p' p) as [->|Np]; cbn [andb]; [|reflexivity].
    rewrite Hy, Gy. destruct (Nat.eqb_spec k' k) as [->|Nk]; reflexivity.
Qed.

Lemma store4_spec {A} F P K D f p k d (v : A) a :
  rect4 F P K D a -> f < F -> p < P -> k < K -> d < D ->
  exists a', store4 f p k d v a = Some a' /\ rect4 F P K D a' /\
             forall f' p' k' d', get4 a' f' p' k' d' = if hit f p k f' p' k' && Nat.eqb d' d then Some v else get4 a f' p' k' d'.
Proof.
  intros [HF HR] Hf Hp Hk Hd.
  nth_some a f x Hx.
  destruct (Forall_nth_error _ _ _ _ HR Hx) as [HxP HxR].
  nth_some x p y Hy.
  destruct (Forall_nth_error _ _ _ _ HxR Hy) as [HyK HyR].
  nth_some y k z Hz.
  pose proof (Forall_nth_error _ _ _ _ HyR Hz) as HzD; cbv beta in HzD.
  nth_some z d w Hw.
  destruct (upd_ok d (put v) z w v Hw eq_refl) as [z' Hz'].
  destruct (upd_ok k (upd d (put v)) y z z' Hz Hz') as [y' Hy'].
  destruct (upd_ok p (upd k (upd d (put v))) x y y' Hy Hy') as [x' Hx'].
  destruct (upd_ok f (upd p (upd k (upd d (put v)))) a x x' Hx Hx') as [a' Ha'].
  exists a'. split; [exact Ha'|].
  destruct (upd_inv _ _ _ _ Ha') as (x0 & x1 & Ex0 & Ex1 & La & Ga).
  rewrite Hx in Ex0; injection Ex0 as <-. rewrite Hx' in Ex1; injection Ex1 as <-.
  destruct (upd_inv _ _ _ _ Hx') as (y0 & y1 & Ey0 & Ey1 & Lx & Gx).
  rewrite Hy in Ey0; injection Ey0 as <-. rewrite Hy' in Ey1; injection Ey1 as <-.
  destruct (upd_inv _ _ _ _ Hy') as (z0 & z1 & Ez0 & Ez1 & Ly & Gy).
  rewrite Hz in Ez0; injection Ez0 as <-. rewrite Hz' in Ez1; injection Ez1 as <-.
  destruct (upd_inv _ _ _ _ Hz') as (w0 & w1 & Ew0 & Ew1 & Lz & Gz).
  unfold put in Ew1; injection Ew1 as <-.
  split.
  - split; [lia|]. eapply upd_Forall; [exact Ha'|exact HR|].
    intros u u' [HuP HuR] Hu. destruct (upd_inv _ _ _ _ Hu) as (_ & _ & _ & _ & Lu & _). split; [lia|].
    eapply upd_Forall; [exact Hu|exact HuR|].
    intros t t' [HtK HtR] Ht. destruct (upd_inv _ _ _ _ Ht) as (_ & _ & _ & _ & Lt & _). split; [lia|].
    eapply upd_Forall; [exact Ht|exact HtR|].
    intros s s' Hs Hs'. destruct (upd_inv _ _ _ _ Hs') as (_ & _ & _ & _ & Ls & _). lia.
  - intros f' p' k' d'. unfold get4, get3, hit. rewrite Ga.
    destruct (Nat.eqb_spec f' f) as [->|Nf]; cbn [andb]; [|reflexivity].
    rewrite Hx, Gx. destruct (Nat.eqb_spec p' p) as [->|Np]; cbn [andb]; [|reflexivity].
    rewrite Hy, Gy. destruct (Nat.eqb_spec k' k) as [->|Nk]; cbn [andb]; [|reflexivity].
    rewrite Hz, Gz. destruct (Nat.eqb_spec d' d) as [->|Nd]; reflexivity.
Qed.

(* the three stores of openpose.py:272-274 *)
Lemma step_cell F P K f p k vx vy vc a :
  shaped F P K a -> f < F -> p < P -> k < K ->
  exists d1 d2 c1,
    store4 f p k 0 vx (a_data a) = Some d1 /\ store4 f p k 1 vy d1 = Some d2 /\ store3 f p k vc (a_conf a) = Some c1 /\
    shaped F P K (mkA d2 c1) /\
    forall f' p' k', cell (mkA d2 c1) f' p' k' = if hit f p k f' p' k' then Some (vx, vy, vc) else cell a f' p' k'.
Proof.
  intros [Hd Hc] Hf Hp Hk.
  destruct (store4_spec F P K 2 f p k 0 vx _ Hd Hf Hp Hk ltac:(lia)) as (d1 & S1 & R1 & G1).
  destruct (store4_spec F P K 2 f p k 1 vy _ R1 Hf Hp Hk ltac:(lia)) as (d2 & S2 & R2 & G2).
  destruct (store3_spec F P K f p k vc _ Hc Hf Hp Hk) as (c1 & S3 & R3 & G3).
  exists d1, d2, c1. split; [exact S1|]. split; [exact S2|]. split; [exact S3|]. split; [split; assumption|].
  intros f' p' k'. unfold cell; cbn [a_data a_conf]. rewrite !G2, !G1, G3.
  destruct (hit f p k f' p' k'); cbn [andb Nat.eqb]; reflexivity.
Qed.

(* zero arrays of openpose.py:263-264 *)
Lemma zeros_shaped F P K :
  shaped F P K (mkA (repeat (repeat (repeat [0%N; 0%N] K) P) F) (repeat (repeat (repeat 0%N K) P) F)).
Proof.
  split; cbn [a_data a_conf]; (split; [apply repeat_length|]); apply Forall_repeat; (split; [apply repeat_length|]);
    apply Forall_repeat; [split; [apply repeat_length|]; apply Forall_repeat; reflexivity | apply repeat_length].
Qed.
Lemma zeros_cell F P K f p k :
  cell (mkA (repeat (repeat (repeat [0%N; 0%N] K) P) F) (repeat (repeat (repeat 0%N K) P) F)) f p k =
  if (f <? F) && (p <? P) && (k <? K) then Some (0%N, 0%N, 0%N) else None.
Proof.
  unfold cell, get4, get3; cbn [a_data a_conf]. rewrite !nth_error_repeat.
  destruct (f <? F); cbn [andb]; [|reflexivity]. rewrite !nth_error_repeat.
  destruct (p <? P); cbn [andb]; [|reflexivity]. rewrite !nth_error_repeat.
  destruct (k <? K); reflexivity.
Qed.
(* a cell is defined exactly inside the shape *)
Lemma cell_some_iff F P K a f p k : shaped F P K a -> (cell a f p k <> None <-> f < F /\ p < P /\ k < K).
Proof.
  intros [[HF HR] [HF' HR']]. unfold cell, get4, get3. split.
  - intros H. destruct (nth_error (a_data a) f) as [x|] eqn:Ex; [|congruence].
    destruct (Forall_nth_error _ _ _ _ HR Ex) as [HxP HxR].
    destruct (nth_error x p) as [y|] eqn:Ey; [|congruence].
    destruct (Forall_nth_error _ _ _ _ HxR Ey) as [HyK HyR].
    destruct (nth_error y k) as [z|] eqn:Ez; [|congruence].
    pose proof (proj1 (nth_error_Some _ _) ltac:(rewrite Ex; discriminate) : f < length (a_data a)).
    pose proof (proj1 (nth_error_Some _ _) ltac:(rewrite Ey; discriminate) : p < length x).
    pose proof (proj1 (nth_error_Some _ _) ltac:(rewrite Ez; discriminate) : k < length y). lia.
  - intros (Hf & Hp & Hk).
    destruct (nth_error_lt_some (a_data a) f ltac:(lia)) as [x Hx]. rewrite Hx.
    destruct (Forall_nth_error _ _ _ _ HR Hx) as [HxP HxR].
    nth_some x p y Hy. rewrite Hy.
    destruct (Forall_nth_error _ _ _ _ HxR Hy) as [HyK HyR].
    nth_some y k z Hz. rewrite Hz.
    pose proof (Forall_nth_error _ _ _ _ HyR Hz) as HzD; cbv beta in HzD.
    destruct z as [|z0 [|z1 [|]]]; cbn in HzD; try lia. cbn [nth_error].
    destruct (nth_error_lt_some (a_conf a) f ltac:(lia)) as [x' Hx']. rewrite Hx'.
    destruct (Forall_nth_error _ _ _ _ HR' Hx') as [HxP' HxR'].
    nth_some x' p y' Hy'. rewrite Hy'.
    pose proof (Forall_nth_error _ _ _ _ HxR' Hy') as HyK'; cbv beta in HyK'.
    nth_some y' k z' Hz'. rewrite Hz'. discriminate.
Qed.
