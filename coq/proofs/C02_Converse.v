(* C02, reader direction: every file the independent encoder produces for a coherent content is read to that content
   (with the mask the reader derives), and writing the pose just read reproduces the file. *)
From Coq Require Import ZArith NArith List Lia ZifyBool ZifyN ZifyNat Bool.
Require Import ListN Result Bytes Utf8 Utf8S F32 Prog Codec ProgLemmas CodecRT PoseRead PoseReadLemmas
  C02_SpecV02 C02_SpecProofs C02_Content C02_F32RT C04_Spec C04_SpecRT.
Import ListNotations.
Ltac Zify.zify_post_hook ::= Z.div_mod_to_equations.
Open Scope N_scope.

(* ---------- what the encoder's success says: inversion of enc_fields ---------- *)
Lemma le2_inv n e : le_bytes 2 n = Some e -> n < 65536 /\ e = enc_u16 n.
Proof.
  destruct (N.lt_ge_cases n 65536) as [Hlt|Hge].
  - rewrite (le2 n Hlt). intros [= <-]. now split.
  - cbn [le_bytes]. destruct (N.eqb_spec (n / 256 / 256) 0) as [Hz|_]; [exfalso; lia|discriminate].
Qed.
Lemma le4_inv n e : le_bytes 4 n = Some e -> n < 4294967296 /\ e = enc_u32 n.
Proof.
  destruct (N.lt_ge_cases n 4294967296) as [Hlt|Hge].
  - rewrite (le4 n Hlt). intros [= <-]. now split.
  - cbn [le_bytes]. destruct (N.eqb_spec (n / 256 / 256 / 256 / 256) 0) as [Hz|_]; [exfalso; lia|discriminate].
Qed.
Lemma enc_fields_cons_inv f r e : enc_fields (f :: r) = Some e ->
  exists a b, enc_field f = Some a /\ enc_fields r = Some b /\ e = a ++ b.
Proof. cbn [enc_fields]. destruct (enc_field f) as [a|]; [|discriminate]. destruct (enc_fields r) as [b|]; [|discriminate].
  intros [= <-]. eauto. Qed.
Lemma enc_fields_app_inv l1 : forall l2 e, enc_fields (l1 ++ l2) = Some e ->
  exists a b, enc_fields l1 = Some a /\ enc_fields l2 = Some b /\ e = a ++ b.
Proof.
  induction l1 as [|f l1 IH]; intros l2 e H; cbn [app] in H.
  - exists [], e. auto.
  - apply enc_fields_cons_inv in H. destruct H as [a [b [Ha [Hb ->]]]].
    destruct (IH _ _ Hb) as [a' [b' [Ha' [Hb' ->]]]]. exists (a ++ a'), b'. cbn [enc_fields]. rewrite Ha, Ha'.
    split; [reflexivity|]. split; [assumption|apply app_assoc].
Qed.
Lemma enc_u16_inv n r e : enc_fields (FUShort n :: r) = Some e ->
  u16 n /\ exists b, enc_fields r = Some b /\ e = enc_u16 n ++ b.
Proof. intros H. apply enc_fields_cons_inv in H. destruct H as [a [b [Ha [Hb ->]]]]. cbn [enc_field] in Ha.
  apply le2_inv in Ha. destruct Ha as [Hn ->]. split; [exact Hn|eauto]. Qed.
Lemma enc_u32_inv n r e : enc_fields (FUInt n :: r) = Some e ->
  n < 4294967296 /\ exists b, enc_fields r = Some b /\ e = enc_u32 n ++ b.
Proof. intros H. apply enc_fields_cons_inv in H. destruct H as [a [b [Ha [Hb ->]]]]. cbn [enc_field] in Ha.
  apply le4_inv in Ha. destruct Ha as [Hn ->]. split; [exact Hn|eauto]. Qed.
Lemma enc_f32_inv n r e : enc_fields (FFloat n :: r) = Some e ->
  n < 4294967296 /\ exists b, enc_fields r = Some b /\ e = enc_u32 n ++ b.
Proof. intros H. apply enc_fields_cons_inv in H. destruct H as [a [b [Ha [Hb ->]]]]. cbn [enc_field] in Ha.
  apply le4_inv in Ha. destruct Ha as [Hn ->]. split; [exact Hn|eauto]. Qed.
Lemma enc_str_inv s r e : enc_fields (FString s :: r) = Some e ->
  wf_str s /\ exists b, enc_fields r = Some b /\ e = spec_str s ++ b.
Proof. intros H. apply enc_fields_cons_inv in H. destruct H as [a [b [Ha [Hb ->]]]]. cbn [enc_field] in Ha.
  unfold wf_str, spec_str. destruct (enc_utf8 s) as [u|]; [|discriminate].
  destruct (le_bytes 2 (lenN u)) as [l|] eqn:Hl; [|discriminate]. injection Ha as <-.
  apply le2_inv in Hl. destruct Hl as [Hn ->]. split; [exists u; now split|eauto]. Qed.

Lemma enc_strs_inv ss e : enc_fields (map FString ss) = Some e -> Forall wf_str ss /\ e = concat (map spec_str ss).
Proof. revert e. induction ss as [|s ss IH]; intros e H; cbn [map] in H.
  - injection H as <-. split; [constructor|reflexivity].
  - apply enc_str_inv in H. destruct H as [Hs [b [Hb ->]]]. destruct (IH _ Hb) as [HF ->]. split; [now constructor|reflexivity]. Qed.
Lemma enc_limbs_inv (ls : list (N * N)) e :
  enc_fields (flat_map (fun l => [FUShort (fst l); FUShort (snd l)]) ls) = Some e ->
  Forall (fun l => u16 (fst l) /\ u16 (snd l)) ls /\ e = concat (map spec_limb ls).
Proof. revert e. induction ls as [|l ls IH]; intros e H; cbn [flat_map app] in H.
  - injection H as <-. split; [constructor|reflexivity].
  - apply enc_u16_inv in H. destruct H as [H1 [b1 [H ->]]]. apply enc_u16_inv in H. destruct H as [H2 [b2 [H ->]]].
    destruct (IH _ H) as [HF ->]. split; [now constructor|]. cbn [map concat]. unfold spec_limb. now rewrite <- app_assoc. Qed.
Lemma enc_colors_inv (ks : list (N * N * N)) e :
  enc_fields (flat_map (fun k => [FUShort (fst (fst k)); FUShort (snd (fst k)); FUShort (snd k)]) ks) = Some e ->
  Forall (fun k => u16 (fst (fst k)) /\ u16 (snd (fst k)) /\ u16 (snd k)) ks /\ e = concat (map spec_color ks).
Proof. revert e. induction ks as [|k ks IH]; intros e H; cbn [flat_map app] in H.
  - injection H as <-. split; [constructor|reflexivity].
  - apply enc_u16_inv in H. destruct H as [H1 [b1 [H ->]]]. apply enc_u16_inv in H. destruct H as [H2 [b2 [H ->]]].
    apply enc_u16_inv in H. destruct H as [H3 [b3 [H ->]]].
    destruct (IH _ H) as [HF ->]. split; [now constructor|]. cbn [map concat]. unfold spec_color. now rewrite <- !app_assoc. Qed.
Lemma enc_floats_inv ws e : enc_fields (map FFloat ws) = Some e ->
  Forall (fun n => n < 4294967296) ws /\ e = flat_map enc_u32 ws.
Proof. revert e. induction ws as [|w ws IH]; intros e H; cbn [map] in H.
  - injection H as <-. split; [constructor|reflexivity].
  - apply enc_f32_inv in H. destruct H as [Hw [b [Hb ->]]]. destruct (IH _ Hb) as [HF ->]. split; [now constructor|reflexivity]. Qed.

Lemma enc_component_inv c e : enc_fields (component_fields c) = Some e -> wf_component c /\ e = spec_component c.
Proof.
  unfold component_fields. cbn [app]. intros H.
  apply enc_str_inv in H. destruct H as [Hn [b1 [H ->]]]. apply enc_str_inv in H. destruct H as [Hf [b2 [H ->]]].
  apply enc_u16_inv in H. destruct H as [Hnp [b3 [H ->]]]. apply enc_u16_inv in H. destruct H as [Hnl [b4 [H ->]]].
  apply enc_u16_inv in H. destruct H as [Hnc [b5 [H ->]]].
  apply enc_fields_app_inv in H. destruct H as [e1 [r1 [H1 [H ->]]]].
  apply enc_fields_app_inv in H. destruct H as [e2 [e3 [H2 [H3 ->]]]].
  apply enc_strs_inv in H1. destruct H1 as [Hp ->]. apply enc_limbs_inv in H2. destruct H2 as [Hl ->].
  apply enc_colors_inv in H3. destruct H3 as [Hc ->].
  split; [repeat split; assumption|reflexivity].
Qed.
Lemma enc_components_inv cs e : enc_fields (flat_map component_fields cs) = Some e ->
  Forall wf_component cs /\ e = concat (map spec_component cs).
Proof. revert e. induction cs as [|c cs IH]; intros e H; cbn [flat_map] in H.
  - injection H as <-. split; [constructor|reflexivity].
  - apply enc_fields_app_inv in H. destruct H as [a [b [Ha [Hb ->]]]]. apply enc_component_inv in Ha. destruct Ha as [Hc ->].
    destruct (IH _ Hb) as [HF ->]. split; [now constructor|reflexivity]. Qed.
Lemma enc_header_inv h e : enc_fields (header_fields h) = Some e -> wf_header h /\ e = spec_header h.
Proof.
  unfold header_fields, wf_header, spec_header. destruct (h_dims h) as [[w hh] d]. cbn [app fst snd]. intros H.
  apply enc_f32_inv in H. destruct H as [Hv [b1 [H ->]]]. apply enc_u16_inv in H. destruct H as [Hw [b2 [H ->]]].
  apply enc_u16_inv in H. destruct H as [Hh [b3 [H ->]]]. apply enc_u16_inv in H. destruct H as [Hd [b4 [H ->]]].
  apply enc_u16_inv in H. destruct H as [Hn [b5 [H ->]]]. apply enc_components_inv in H. destruct H as [Hc ->].
  split; [repeat split; assumption|reflexivity].
Qed.

(* the words of the body *)
Definition spec_body_bytes (b : body) : bytes :=
  enc_u32 (b_fps b) ++ enc_u32 (nth 0 (b_shape b) 0) ++ enc_u16 (nth 1 (b_shape b) 0) ++
  flat_map enc_u32 (b_data b) ++ flat_map enc_u32 (b_conf b).
Definition all_words (l : list N) : Prop := Forall (fun n => n < 4294967296) l.
Lemma enc_body_inv b e : enc_fields (body_fields b) = Some e ->
  b_fps b < 4294967296 /\ nth 0 (b_shape b) 0 < 4294967296 /\ u16 (nth 1 (b_shape b) 0) /\
  all_words (b_data b) /\ all_words (b_conf b) /\ e = spec_body_bytes b.
Proof.
  unfold body_fields, spec_body_bytes. cbn [app]. intros H.
  apply enc_f32_inv in H. destruct H as [Hfps [b1 [H ->]]]. apply enc_u32_inv in H. destruct H as [HF [b2 [H ->]]].
  apply enc_u16_inv in H. destruct H as [HP [b3 [H ->]]].
  apply enc_fields_app_inv in H. destruct H as [e1 [e2 [H1 [H2 ->]]]].
  apply enc_floats_inv in H1. destruct H1 as [Hd ->]. apply enc_floats_inv in H2. destruct H2 as [Hc ->].
  repeat split; assumption.
Qed.
Theorem spec_encode_inv c sb : spec_encode c = Some sb ->
  wf_header (p_header c) /\ b_fps (p_body c) < 4294967296 /\ nth 0 (b_shape (p_body c)) 0 < 4294967296 /\
  u16 (nth 1 (b_shape (p_body c)) 0) /\ all_words (b_data (p_body c)) /\ all_words (b_conf (p_body c)) /\
  sb = spec_header (p_header c) ++ spec_body_bytes (p_body c).
Proof.
  unfold spec_encode. intros H. apply enc_fields_app_inv in H. destruct H as [a [b [Ha [Hb ->]]]].
  apply enc_header_inv in Ha. destruct Ha as [Hh ->]. apply enc_body_inv in Hb.
  destruct Hb as [H1 [H2 [H3 [H4 [H5 ->]]]]]. split; [exact Hh|]. repeat split; assumption.
Qed.

(* ---------- the reader on the encoder's output ---------- *)
Lemma coherent_inv c : coherent c = true ->
  version_class (h_version (p_header c)) = V02 /\
  exists F P D, b_shape (p_body c) = [F; P; total_points (p_header c); D] /\
    num_dims (p_header c) = Ok (Z.of_N D) /\ 1 <= D /\
    lenN (b_data (p_body c)) = F * (P * (total_points (p_header c) * D)) /\
    lenN (b_conf (p_body c)) = F * (P * total_points (p_header c)).
Proof.
  unfold coherent. cbv zeta. destruct (version_class (h_version (p_header c))); try discriminate.
  destruct (num_dims (p_header c)) as [d|]; try discriminate.
  destruct (b_shape (p_body c)) as [|F [|P [|T [|D [|? ?]]]]]; try discriminate.
  intros H. repeat (apply andb_true_iff in H; destruct H as [H ?]).
  split; [reflexivity|]. exists F, P, D.
  assert (HT : T = total_points (p_header c)) by lia. subst T.
  split; [reflexivity|]. split; [f_equal; lia|]. split; [lia|]. split; lia.
Qed.

Lemma spec_body_rt c F P D :
  let h := p_header c in let b := p_body c in
  b_shape b = [F; P; total_points h; D] -> num_dims h = Ok (Z.of_N D) -> 1 <= D ->
  lenN (b_data b) = F * (P * (total_points h * D)) -> lenN (b_conf b) = F * (P * total_points h) ->
  b_fps b < 4294967296 -> F < 4294967296 -> u16 P -> all_words (b_data b) -> all_words (b_conf b) ->
  RTp (read_v0_2 h None None None None) (spec_body_bytes b) (p_body (with_derived_mask c)).
Proof.
  intros h b Hs Hnd HD Hld Hlc Hfps HF HP Hdw Hcw. unfold u16 in HP.
  unfold read_v0_2, spec_body_bytes. rewrite Hs. cbn [nth].
  apply RTp_bind with (a := b_fps b); [now apply rd_u32_rt|].
  apply RTp_bind with (a := F); [now apply rd_u32_rt|].
  apply RTp_bind with (a := P); [now apply rd_u16_rt|].
  rewrite Hnd. cbn [plift pbind rmap].
  apply RTp_bind with (a := (Z.of_N F, b_data b)).
  { apply frames_block_rt; [exact Hdw|lia|lia|]. rewrite Hld. lia. }
  rewrite <- (app_nil_r (flat_map enc_u32 (b_conf b))).
  apply RTp_bind with (a := (Z.of_N F, b_conf b)).
  { apply frames_block_rt; [exact Hcw|lia|lia|]. rewrite Hlc. lia. }
  cbn [fst snd]. unfold mk_body. destruct (Z.leb_spec (Z.of_N D) 0) as [|_]; [lia|]. cbn [plift].
  unfold with_derived_mask. cbn [p_body]. fold b. rewrite Hs.
  replace (Z.to_N (Z.of_N F)) with F by lia. replace (Z.to_N (Z.of_N D)) with D by lia.
  apply RTp_ret.
Qed.

Section WithLegacy.
Variable legacy : vclass -> header -> rargs -> prog body.

(* the converse of the writer direction: whatever file the independent encoder produces for a coherent content, and
   whatever follows it, and whatever the memo holds, Pose.read returns the content with the derived mask *)
Theorem reader_reads_spec_trailing m c sb x : MemoOK m -> coherent c = true -> spec_encode c = Some sb ->
  fst (read_bytes legacy m (sb ++ x) no_args) = Ok (with_derived_mask c).
Proof.
  intros Hm Hco Hsp.
  destruct (spec_encode_inv c sb Hsp) as [Hwf [Hfps [HF [HP [Hdw [Hcw Hsb]]]]]].
  destruct (coherent_inv c Hco) as [Hver [F [P [D [Hs [Hnd [HD [Hld Hlc]]]]]]]].
  rewrite Hs in HF, HP. cbn [nth] in HF, HP.
  set (h := p_header c) in *. set (b := p_body c) in *.
  assert (Hhead : run_plain rd_header {| pbuf := sb ++ x; poff := 0 |} =
                  Ok (h, {| pbuf := sb ++ x; poff := lenN (spec_header h) |})).
  { pose proof (spec_header_rt h Hwf [] (spec_body_bytes b ++ x)) as HR. cbn [app] in HR.
    rewrite Hsb, <- app_assoc. exact HR. }
  pose proof (spec_body_rt c F P D Hs Hnd HD Hld Hlc Hfps HF HP Hdw Hcw (spec_header h) x) as Hbody.
  fold h b in Hbody. rewrite app_assoc, <- Hsb in Hbody.
  assert (Hdisp : read_body legacy h no_args = read_v0_2 h None None None None).
  { unfold read_body, read_body_with. rewrite Hver. reflexivity. }
  unfold read_bytes. destruct (check_cache m (sb ++ x)) as [k|] eqn:Hc.
  - destruct (check_cache_hit m (sb ++ x) k Hm Hc) as [_ Hrun]. rewrite Hhead in Hrun.
    injection Hrun as Hhd Hend. rewrite <- Hhd, <- Hend, Hdisp, Hbody. reflexivity.
  - rewrite Hhead. cbn [fst poff]. rewrite Hdisp, Hbody. reflexivity.
Qed.
Theorem reader_reads_spec m c sb : MemoOK m -> coherent c = true -> spec_encode c = Some sb ->
  fst (read_bytes legacy m sb no_args) = Ok (with_derived_mask c).
Proof. intros. rewrite <- (app_nil_r sb). now apply reader_reads_spec_trailing. Qed.
End WithLegacy.

(* ---------- Pose.write accepts a pose that was read from such a file ---------- *)
Lemma c02_concat_r_ok_map {X} (f : X -> result bytes) (g : X -> bytes) xs :
  Forall (fun x => f x = Ok (g x)) xs -> concat_r (map f xs) = Ok (concat (map g xs)).
Proof. induction 1 as [|x xs Hx _ IH]; [reflexivity|]. cbn [map concat_r concat]. now rewrite Hx, IH. Qed.
Lemma c02_concat_r_ok_app l1 l2 a b : concat_r l1 = Ok a -> concat_r l2 = Ok b -> concat_r (l1 ++ l2) = Ok (a ++ b).
Proof. revert a. induction l1 as [|r l1 IH]; intros a H1 H2; cbn [app concat_r] in *.
  - injection H1 as <-. exact H2.
  - destruct r as [x|e]; [|discriminate]. cbn [rbind] in *. destruct (concat_r l1) as [y|e]; [|discriminate].
    cbn [rbind] in *. injection H1 as <-. rewrite (IH y eq_refl H2). cbn [rbind]. now rewrite app_assoc. Qed.
Lemma c02_pack_u16s_N (l : list N) : Forall u16 l -> pack_u16s (map Z.of_N l) = Ok (flat_map enc_u16 l).
Proof.
  intros H. unfold pack_u16s.
  assert (E : forallb u16_ok (map Z.of_N l) = true).
  { apply forallb_forall. intros z Hz. apply in_map_iff in Hz. destruct Hz as [n [<- Hn]].
    rewrite Forall_forall in H. specialize (H n Hn). unfold u16 in H. unfold u16_ok. lia. }
  rewrite E. f_equal. rewrite flat_map_map. apply flat_map_ext. intros n. now rewrite N2Z.id.
Qed.
Lemma c02_write_component c : wf_component c -> write_component (wcomp_of_read c) = Ok (spec_component c).
Proof.
  intros [Hn [Hf [Hp [Hnp [Hnl [Hnc [Hl Hc]]]]]]]. unfold write_component, wcomp_of_read, spec_component.
  cbn [wc_name wc_format wc_points wc_limbs wc_colors].
  assert (H3 : pack_u16s [Z.of_N (lenN (c_points c));
                          Z.of_N (lenN (map (fun l => (Z.of_N (fst l), Z.of_N (snd l))) (c_limbs c)));
                          Z.of_N (lenN (map (fun k => (Z.of_N (fst (fst k)), Z.of_N (snd (fst k)), Z.of_N (snd k))) (c_colors c)))]
               = Ok (enc_u16 (lenN (c_points c)) ++ enc_u16 (lenN (c_limbs c)) ++ enc_u16 (lenN (c_colors c)))).
  { unfold lenN at 2 3. rewrite !map_length. fold (lenN (c_limbs c)). fold (lenN (c_colors c)).
    pose proof (c02_pack_u16s_N [lenN (c_points c); lenN (c_limbs c); lenN (c_colors c)]) as H. cbn [map flat_map] in H.
    rewrite app_nil_r in H. apply H. repeat (constructor; [assumption|]). constructor. }
  assert (H4 : concat_r (map write_str (c_points c)) = Ok (concat (map spec_str (c_points c)))).
  { apply c02_concat_r_ok_map. eapply Forall_impl; [|exact Hp]. intros s. apply spec_str_written. }
  assert (H5 : concat_r (map (fun l : Z * Z => pack_u16s [fst l; snd l]) (map (fun l => (Z.of_N (fst l), Z.of_N (snd l))) (c_limbs c)))
               = Ok (concat (map spec_limb (c_limbs c)))).
  { rewrite map_map. apply c02_concat_r_ok_map. eapply Forall_impl; [|exact Hl]. intros [a b] [Ha Hb]. cbn [fst snd] in *.
    pose proof (c02_pack_u16s_N [a; b]) as H. cbn [map flat_map] in H. rewrite app_nil_r in H. unfold spec_limb. cbn [fst snd].
    apply H. repeat (constructor; [assumption|]). constructor. }
  assert (H6 : concat_r (map (fun k : Z * Z * Z => pack_u16s [fst (fst k); snd (fst k); snd k])
                             (map (fun k => (Z.of_N (fst (fst k)), Z.of_N (snd (fst k)), Z.of_N (snd k))) (c_colors c)))
               = Ok (concat (map spec_color (c_colors c)))).
  { rewrite map_map. apply c02_concat_r_ok_map. eapply Forall_impl; [|exact Hc]. intros [[a b] d] [Ha [Hb Hd]]. cbn [fst snd] in *.
    pose proof (c02_pack_u16s_N [a; b; d]) as H. cbn [map flat_map] in H. rewrite app_nil_r in H. unfold spec_color. cbn [fst snd].
    apply H. repeat (constructor; [assumption|]). constructor. }
  cbn [app concat_r]. rewrite (spec_str_written _ Hn), (spec_str_written _ Hf), H3. cbn [rbind].
  rewrite (c02_concat_r_ok_app _ _ _ _ H4 (c02_concat_r_ok_app _ _ _ _ H5 H6)). cbn [rbind].
  rewrite <- !app_assoc. reflexivity.
Qed.
Lemma c02_write_header h : wf_header h ->
  exists hb, write_header (Z.of_N (fst (fst (h_dims h))), Z.of_N (snd (fst (h_dims h))), Z.of_N (snd (h_dims h)))
                          (map wcomp_of_read (h_comps h)) = Ok hb.
Proof.
  intros [_ [Hw [Hh [Hd [Hn Hc]]]]]. unfold write_header.
  assert (H2 : write_dims (Z.of_N (fst (fst (h_dims h))), Z.of_N (snd (fst (h_dims h))), Z.of_N (snd (h_dims h)))
               = Ok (enc_u16 (fst (fst (h_dims h))) ++ enc_u16 (snd (fst (h_dims h))) ++ enc_u16 (snd (h_dims h)))).
  { unfold write_dims, u16_ok. unfold u16 in *.
    replace ((0 <=? Z.of_N (fst (fst (h_dims h))))%Z && (Z.of_N (fst (fst (h_dims h))) <? 65536)%Z) with true by lia.
    replace ((0 <=? Z.of_N (snd (fst (h_dims h))))%Z && (Z.of_N (snd (fst (h_dims h))) <? 65536)%Z) with true by lia.
    replace ((0 <=? Z.of_N (snd (h_dims h)))%Z && (Z.of_N (snd (h_dims h)) <? 65536)%Z) with true by lia.
    cbn [andb].
    pose proof (c02_pack_u16s_N [fst (fst (h_dims h)); snd (fst (h_dims h)); snd (h_dims h)]) as H. cbn [map flat_map] in H.
    rewrite app_nil_r in H. apply H. repeat (constructor; [assumption|]). constructor. }
  assert (H3 : pack_u16s [Z.of_N (lenN (map wcomp_of_read (h_comps h)))] = Ok (enc_u16 (lenN (h_comps h)))).
  { unfold lenN at 1. rewrite map_length. fold (lenN (h_comps h)).
    pose proof (c02_pack_u16s_N [lenN (h_comps h)]) as H. cbn [map flat_map] in H. rewrite app_nil_r in H. apply H.
    constructor; [assumption|constructor]. }
  assert (H4 : concat_r (map write_component (map wcomp_of_read (h_comps h))) = Ok (concat (map spec_component (h_comps h)))).
  { rewrite map_map. apply c02_concat_r_ok_map. eapply Forall_impl; [|exact Hc]. intros c. apply c02_write_component. }
  cbn [app concat_r]. rewrite H2, H3, H4. cbn [rbind]. eexists. reflexivity.
Qed.
Lemma c02_eq_shape_refl l : eq_shape l l = true.
Proof. unfold eq_shape. rewrite Nat.eqb_refl. cbn [andb]. induction l as [|x l IH]; [reflexivity|].
  cbn [combine forallb fst snd]. now rewrite N.eqb_refl, IH. Qed.
Lemma canon_wcomp_of_read c : canon_comp (wcomp_of_read c) = c.
Proof.
  destruct c as [nm fm pts limbs cols]. unfold canon_comp, wcomp_of_read. cbn [wc_name wc_format wc_points wc_limbs wc_colors]. f_equal.
  - rewrite map_map. rewrite <- (map_id limbs) at 2. apply map_ext. intros [a b]. cbn [fst snd]. now rewrite !N2Z.id.
  - rewrite map_map. rewrite <- (map_id cols) at 2. apply map_ext. intros [[a b] d]. cbn [fst snd]. now rewrite !N2Z.id.
Qed.

Lemma map_widen_narrow l : all_words l -> map f64_to_f32 (map f32_to_f64 l) = map canon_nan32 l.
Proof. intros H. rewrite map_map. induction H as [|w l Hw _ IH]; [reflexivity|]. cbn [map]. now rewrite (f32_widen_narrow w Hw), IH. Qed.

(* the independent encoder looks at the header, the frame rate, the two counts and the two blocks only *)
Lemma spec_encode_ext c1 c2 : p_header c1 = p_header c2 -> b_fps (p_body c1) = b_fps (p_body c2) ->
  b_shape (p_body c1) = b_shape (p_body c2) -> b_data (p_body c1) = b_data (p_body c2) ->
  b_conf (p_body c1) = b_conf (p_body c2) -> spec_encode c1 = spec_encode c2.
Proof. intros H1 H2 H3 H4 H5. unfold spec_encode, body_fields. now rewrite H1, H2, H3, H4, H5. Qed.

(* the content of the pose handed to the writer is the content that was read, version 0.2, NaNs canonical *)
Lemma canon_of_read c : b_fps (p_body c) < 4294967296 -> all_words (b_data (p_body c)) -> all_words (b_conf (p_body c)) ->
  spec_encode (canon (wpose_of_read (with_derived_mask c))) = spec_encode (rewritten c).
Proof.
  intros Hfps Hd Hc. apply spec_encode_ext.
  - unfold canon, canon_header, wpose_of_read, with_derived_mask, rewritten. cbn [p_header p_body w_dims w_comps].
    rewrite !N2Z.id, map_map. f_equal; [now destruct (h_dims (p_header c)) as [[? ?] ?]|].
    rewrite <- (map_id (h_comps (p_header c))) at 2. apply map_ext. apply canon_wcomp_of_read.
  - unfold canon, canon_body, wpose_of_read, with_derived_mask, rewritten. cbn [p_body b_fps w_fps].
    now rewrite (f32_widen_pack _ Hfps).
  - reflexivity.
  - unfold canon, canon_body, wpose_of_read, with_derived_mask, rewritten. cbn [p_body b_data w_data]. now apply map_widen_narrow.
  - unfold canon, canon_body, wpose_of_read, with_derived_mask, rewritten. cbn [p_body b_conf w_conf]. now apply map_widen_narrow.
Qed.

Theorem rewrite_of_read c sb : coherent c = true -> spec_encode c = Some sb ->
  exists sb', write_pose (wpose_of_read (with_derived_mask c)) = Ok sb' /\ spec_encode (rewritten c) = Some sb'.
Proof.
  intros Hco Hsp.
  destruct (spec_encode_inv c sb Hsp) as [Hwf [Hfps [HF [HP [Hdw [Hcw Hsb]]]]]].
  destruct (coherent_inv c Hco) as [Hver [F [P [D [Hs [Hnd [HD [Hld Hlc]]]]]]]].
  rewrite Hs in HF, HP. cbn [nth] in HF, HP. unfold u16 in HP.
  destruct (c02_write_header _ Hwf) as [hb Hhb].
  assert (Hw : exists sb', write_pose (wpose_of_read (with_derived_mask c)) = Ok sb').
  { unfold write_pose, wpose_of_read, with_derived_mask. cbn [p_header p_body b_shape b_fps b_data b_conf w_shape w_comps w_cshape w_dims].
    rewrite Hs.
    replace (num_dims_of (map wc_format (map wcomp_of_read (h_comps (p_header c))))) with (num_dims (p_header c))
      by (unfold num_dims; now rewrite map_map).
    rewrite Hnd. cbn [rbind]. rewrite Z.eqb_refl. cbn [negb].
    replace (total_points_w (map wcomp_of_read (h_comps (p_header c)))) with (total_points (p_header c))
      by (unfold total_points_w, total_points; now rewrite map_map).
    rewrite N.eqb_refl. cbn [negb firstn]. rewrite c02_eq_shape_refl. cbn [negb].
    rewrite Hhb. cbn [rbind]. unfold write_body. cbn [w_shape w_fps w_data w_conf].
    destruct (N.ltb_spec 4294967295 F) as [|_]; [lia|]. rewrite (f32_widen_pack _ Hfps).
    destruct (N.ltb_spec 65535 P) as [|_]; [lia|]. cbn [rbind]. eexists. reflexivity. }
  destruct Hw as [sb' Hw]. exists sb'. split; [exact Hw|].
  rewrite <- (canon_of_read c Hfps Hdw Hcw). now apply writer_matches_spec.
Qed.

(* when the content carries the writer's version word and no non-canonical NaN, re-writing changes nothing *)
Lemma canon_nans_id l : forallb (fun w => canon_nan32 w =? w) l = true -> map canon_nan32 l = l.
Proof. induction l as [|w l IH]; [reflexivity|]. cbn [forallb map]. intros H. apply andb_true_iff in H. destruct H as [Hw Hl].
  apply N.eqb_eq in Hw. now rewrite Hw, IH. Qed.
Lemma rewritten_same c : h_version (p_header c) = version_word -> nans_canonical c = true ->
  spec_encode (rewritten c) = spec_encode c.
Proof.
  intros Hv Hn. unfold nans_canonical in Hn. cbn [forallb] in Hn. apply andb_true_iff in Hn. destruct Hn as [Hf Hn].
  rewrite forallb_app in Hn. apply andb_true_iff in Hn. destruct Hn as [Hd Hc]. apply N.eqb_eq in Hf.
  apply spec_encode_ext; unfold rewritten; cbn [p_header p_body b_fps b_shape b_data b_conf].
  - rewrite <- Hv. now destruct (p_header c).
  - exact Hf.
  - reflexivity.
  - now apply canon_nans_id.
  - now apply canon_nans_id.
Qed.

Section WithLegacy2.
Variable legacy : vclass -> header -> rargs -> prog body.
(* re-writing a pose just read: in general the file with version word 0.2 and canonical NaNs ... *)
Theorem rewrite_canonical m c sb q : MemoOK m -> coherent c = true -> spec_encode c = Some sb ->
  fst (read_bytes legacy m sb no_args) = Ok q ->
  exists sb', write_pose (wpose_of_read q) = Ok sb' /\ spec_encode (rewritten c) = Some sb'.
Proof. intros Hm Hco Hsp Hr. rewrite (reader_reads_spec legacy m c sb Hm Hco Hsp) in Hr. apply Ok_inj in Hr. subst q.
  now apply (rewrite_of_read c sb). Qed.
(* ... and therefore the file itself, byte for byte, when it carries version word 0.2 and only canonical NaNs *)
Theorem rewrite_identity m c sb q : MemoOK m -> coherent c = true ->
  h_version (p_header c) = version_word -> nans_canonical c = true -> spec_encode c = Some sb ->
  fst (read_bytes legacy m sb no_args) = Ok q -> write_pose (wpose_of_read q) = Ok sb.
Proof. intros Hm Hco Hv Hn Hsp Hr. destruct (rewrite_canonical m c sb q Hm Hco Hsp Hr) as [sb' [Hw Hs']].
  rewrite (rewritten_same c Hv Hn), Hsp in Hs'. injection Hs' as <-. exact Hw. Qed.
End WithLegacy2.
