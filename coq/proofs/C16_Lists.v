(* List lemmas behind C16: gather, x[::k], complement of a sample, insertion sort. *)
From Coq Require Import ZArith NArith List Bool Arith Lia ZifyN ZifyNat Sorted Permutation SpecFloat.
Require Import Result F32 C16_Frames.
Import ListNotations.
Local Open Scope nat_scope.

(* ---------- booleans <-> propositions ---------- *)
Lemma memb_In i s : memb i s = true <-> In i s.
Proof. unfold memb. rewrite existsb_exists. split.
  - intros [x [Hx He]]. apply Nat.eqb_eq in He. now subst.
  - intros H. exists i. split; [exact H|apply Nat.eqb_refl]. Qed.
Lemma memb_false i s : memb i s = false <-> ~ In i s.
Proof. rewrite <- memb_In. destruct (memb i s); split; congruence. Qed.
Lemma nodupb_NoDup s : nodupb s = true <-> NoDup s.
Proof. induction s as [|x r IH]; cbn [nodupb].
  - split; [constructor|reflexivity].
  - rewrite andb_true_iff, negb_true_iff, memb_false, IH. split.
    + intros [H1 H2]. now constructor.
    + intros H. inversion H; subst. now split. Qed.
Lemma forallb_ltb n s : forallb (fun i => Nat.ltb i n) s = true <-> Forall (fun i => i < n) s.
Proof. rewrite forallb_forall, Forall_forall. split; intros H x Hx; specialize (H x Hx); now apply Nat.ltb_lt. Qed.
Lemma valid_sample_spec n k s :
  valid_sample n k s = true <-> length s = k /\ NoDup s /\ Forall (fun i => i < n) s.
Proof. unfold valid_sample. rewrite !andb_true_iff, Nat.eqb_eq, nodupb_NoDup, forallb_ltb. tauto. Qed.

(* ---------- gather ---------- *)
Lemma norm_index_nat w n i : i < n -> norm_index w n (Z.of_nat i) = Ok i.
Proof. intros H. unfold norm_index.
  destruct (Z.leb_spec 0 (Z.of_nat i)) as [_|Hc]; [|lia].
  destruct (Z.ltb_spec (Z.of_nat i) (Z.of_nat n)) as [_|Hc]; [|lia].
  cbn [andb]. now rewrite Nat2Z.id. Qed.
Lemma norm_index_nat_inv w n i k : norm_index w n (Z.of_nat i) = Ok k -> k = i /\ i < n.
Proof. unfold norm_index.
  destruct (Z.leb_spec 0 (Z.of_nat i)) as [_|Hc]; [|lia].
  destruct (Z.ltb_spec (Z.of_nat i) (Z.of_nat n)) as [Hlt|Hge]; cbn [andb].
  - intros [= <-]. rewrite Nat2Z.id. split; [reflexivity|lia].
  - destruct (Z.ltb_spec (Z.of_nat i) 0) as [Hneg|_]; [lia|]. rewrite andb_false_r. discriminate. Qed.
(* negative indices count from the end on the backends that wrap *)
Lemma norm_index_wrap n k : 1 <= k <= n -> norm_index true n (- Z.of_nat k) = Ok (n - k).
Proof. intros H. unfold norm_index.
  destruct (Z.leb_spec 0 (- Z.of_nat k)) as [Hc|_]; [lia|]. cbn [andb].
  destruct (Z.leb_spec (- Z.of_nat n) (- Z.of_nat k)) as [_|Hc]; [|lia].
  destruct (Z.ltb_spec (- Z.of_nat k) 0) as [_|Hc]; [|lia]. cbn [andb]. f_equal. lia. Qed.

Lemma gather_nat {A} (d : A) w l idx :
  Forall (fun i => i < length l) idx -> gather w l (map Z.of_nat idx) = Ok (map (fun i => nth i l d) idx).
Proof. unfold gather. induction idx as [|i r IH]; intros H; cbn [map rmapM]; [reflexivity|].
  inversion H as [|i' r' Hi Hr]; subst. rewrite norm_index_nat by exact Hi. cbn [rbind].
  rewrite (nth_error_nth' l d Hi). cbn [rbind]. rewrite IH by exact Hr. reflexivity. Qed.
Lemma gather_nat_inv {A} (d : A) w l idx out :
  gather w l (map Z.of_nat idx) = Ok out ->
  out = map (fun i => nth i l d) idx /\ Forall (fun i => i < length l) idx.
Proof. unfold gather. revert out. induction idx as [|i r IH]; intros out; cbn [map rmapM].
  - intros [= <-]. split; [reflexivity|constructor].
  - destruct (norm_index w (length l) (Z.of_nat i)) as [k|e] eqn:Hn; cbn [rbind]; [|discriminate].
    apply norm_index_nat_inv in Hn. destruct Hn as [-> Hi].
    rewrite (nth_error_nth' l d Hi). cbn [rbind].
    destruct (rmapM _ (map Z.of_nat r)) as [ys|e] eqn:Hr; cbn [rbind]; [|discriminate].
    intros [= <-]. destruct (IH ys eq_refl) as [-> Hf]. split; [reflexivity|now constructor]. Qed.

(* ---------- x[::by] ---------- *)
Lemma seq_S_map a n : seq a (S n) = a :: map S (seq a n).
Proof. cbn [seq]. f_equal. symmetry. apply seq_shift. Qed.
Lemma div_add_one a b : 1 <= b -> (a + b) / b = S (a / b).
Proof. intros Hb. replace (a + b) with (a + 1 * b) by lia. rewrite Nat.div_add by lia. lia. Qed.
Lemma stride_general {A} (d : A) (by' : nat) : 1 <= by' -> forall (l : list A) (s : nat),
  stride by' s l = map (fun j => nth (s + j * by') l d) (seq 0 ((length l - s + by' - 1) / by')).
Proof. intros Hb. induction l as [|x r IH]; intros s; cbn [stride length].
  - replace (0 - s + by' - 1) with (by' - 1) by lia. rewrite Nat.div_small by lia. reflexivity.
  - destruct s as [|s'].
    + rewrite IH. replace (S (length r) - 0 + by' - 1) with (length r + by') by lia.
      rewrite div_add_one by exact Hb.
      assert (Hc : (length r - (by' - 1) + by' - 1) / by' = length r / by').
      { destruct (Nat.le_gt_cases (by' - 1) (length r)) as [Hle|Hgt].
        - f_equal. lia.
        - replace (length r - (by' - 1) + by' - 1) with (by' - 1) by lia.
          rewrite !Nat.div_small by lia. reflexivity. }
      rewrite Hc, seq_S_map. cbn [map]. f_equal. rewrite map_map. apply map_ext. intros j.
      replace (0 + S j * by') with (S (by' - 1 + j * by')) by lia. reflexivity.
    + rewrite IH. replace (S (length r) - S s' + by' - 1) with (length r - s' + by' - 1) by lia.
      apply map_ext. intros j. reflexivity. Qed.
(* frames 0, k, 2k, ... : ceil(n / k) of them *)
Lemma stride_spec {A} (d : A) (by' : nat) (l : list A) : 1 <= by' ->
  stride by' 0 l = map (fun j => nth (j * by') l d) (seq 0 ((length l + by' - 1) / by')).
Proof. intros Hb. rewrite (stride_general d by' Hb l 0). rewrite Nat.sub_0_r. reflexivity. Qed.

Lemma strideN_stride {A} (by' : N) (l : list A) : forall skip, strideN by' skip l = stride (N.to_nat by') (N.to_nat skip) l.
Proof. induction l as [|x r IH]; intros skip; cbn [strideN stride]; [reflexivity|].
  destruct (N.eqb_spec skip 0) as [->|Hne].
  - cbn [N.to_nat]. rewrite IH. f_equal. f_equal. lia.
  - replace (N.to_nat skip) with (S (N.to_nat (skip - 1))) by lia. apply IH. Qed.

(* ---------- complement of a sample ---------- *)
Lemma sorted_seq a n : StronglySorted lt (seq a n).
Proof. revert a. induction n as [|n IH]; intros a; cbn [seq]; constructor; [apply IH|].
  apply Forall_forall. intros x Hx. apply in_seq in Hx. lia. Qed.
Lemma sorted_filter {A} (R : A -> A -> Prop) f l : StronglySorted R l -> StronglySorted R (filter f l).
Proof. induction 1 as [|x l Hs IH Hf]; cbn [filter]; [constructor|].
  destruct (f x); [|exact IH]. constructor; [exact IH|].
  apply Forall_forall. intros y Hy. apply filter_In in Hy. rewrite Forall_forall in Hf. now apply Hf. Qed.
Lemma complement_sorted n s : StronglySorted lt (complement n s).
Proof. apply sorted_filter, sorted_seq. Qed.
Lemma complement_range n s : Forall (fun i => i < n) (complement n s).
Proof. apply Forall_forall. intros x Hx. apply filter_In in Hx. destruct Hx as [Hx _]. apply in_seq in Hx. lia. Qed.
Lemma complement_nil n : complement n [] = seq 0 n.
Proof. unfold complement. induction (seq 0 n) as [|x r IH]; [reflexivity|].
  change (filter (fun i => negb (memb i [])) (x :: r)) with (x :: filter (fun i => negb (memb i [])) r). now rewrite IH. Qed.
Lemma filter_split_length {A} (f : A -> bool) l : length (filter f l) + length (filter (fun x => negb (f x)) l) = length l.
Proof. induction l as [|x r IH]; cbn [filter length]; [reflexivity|]. destruct (f x); cbn [negb length]; lia. Qed.
Lemma NoDup_filter' {A} (f : A -> bool) l : NoDup l -> NoDup (filter f l).
Proof. induction 1 as [|x l Hn Hd IH]; cbn [filter]; [constructor|]. destruct (f x); [|exact IH].
  constructor; [|exact IH]. intros Hi. apply filter_In in Hi. tauto. Qed.
Lemma complement_length n s : NoDup s -> Forall (fun i => i < n) s -> length (complement n s) + length s = n.
Proof. intros Hd Hr. unfold complement.
  pose proof (filter_split_length (fun i => memb i s) (seq 0 n)) as Hsplit. rewrite seq_length in Hsplit.
  assert (Hp : Permutation (filter (fun i => memb i s) (seq 0 n)) s).
  { apply NoDup_Permutation; [apply NoDup_filter', seq_NoDup|exact Hd|].
    intros x. rewrite filter_In, memb_In, in_seq. rewrite Forall_forall in Hr. split; [tauto|].
    intros Hx. specialize (Hr x Hx). split; [lia|exact Hx]. }
  apply Permutation_length in Hp. lia. Qed.
Lemma complement_not_in n s i : In i (complement n s) -> ~ In i s.
Proof. intros H. apply filter_In in H. destruct H as [_ H]. apply negb_true_iff in H. now apply memb_false. Qed.

(* ---------- insertion sort ---------- *)
Lemma insert_perm x l : Permutation (insert x l) (x :: l).
Proof. induction l as [|y r IH]; cbn [insert]; [reflexivity|]. destruct (Nat.leb x y); [reflexivity|].
  rewrite IH. apply perm_swap. Qed.
Lemma isort_perm l : Permutation (isort l) l.
Proof. induction l as [|x r IH]; cbn [isort fold_right]; [reflexivity|]. fold (isort r). rewrite insert_perm. now constructor. Qed.
Lemma insert_sorted x l : StronglySorted le l -> StronglySorted le (insert x l).
Proof. induction 1 as [|y r Hs IH Hf]; cbn [insert]; [repeat constructor|].
  destruct (Nat.leb_spec x y) as [Hle|Hgt].
  - constructor; [now constructor|]. constructor; [exact Hle|].
    apply Forall_forall. intros z Hz. rewrite Forall_forall in Hf. specialize (Hf z Hz). lia.
  - constructor; [exact IH|]. apply Forall_forall. intros z Hz.
    apply (Permutation_in _ (insert_perm x r)) in Hz. destruct Hz as [<-|Hz]; [lia|].
    rewrite Forall_forall in Hf. now apply Hf. Qed.
Lemma isort_sorted l : StronglySorted le (isort l).
Proof. induction l as [|x r IH]; cbn [isort fold_right]; [constructor|]. now apply insert_sorted. Qed.
Lemma sorted_le_nodup_lt l : StronglySorted le l -> NoDup l -> StronglySorted lt l.
Proof. induction 1 as [|x r Hs IH Hf]; intros Hd; [constructor|]. inversion Hd as [|x' r' Hn Hd']; subst.
  constructor; [now apply IH|]. apply Forall_forall. intros y Hy. rewrite Forall_forall in Hf. specialize (Hf y Hy).
  assert (x <> y) by (intros ->; contradiction). lia. Qed.
Lemma sorted_lt_ext a : forall b, StronglySorted lt a -> StronglySorted lt b -> (forall x, In x a <-> In x b) -> a = b.
Proof. induction a as [|x a IH]; intros b Ha Hb Hab.
  - destruct b as [|y b]; [reflexivity|]. exfalso. apply (Hab y). now left.
  - destruct b as [|y b]; [exfalso; apply (Hab x); now left|].
    inversion Ha as [|x' a' Hsa Hfa]; subst. inversion Hb as [|y' b' Hsb Hfb]; subst.
    rewrite Forall_forall in Hfa, Hfb.
    assert (x = y).
    { destruct (proj1 (Hab x) (or_introl eq_refl)) as [->|Hxb]; [reflexivity|].
      destruct (proj2 (Hab y) (or_introl eq_refl)) as [->|Hya]; [reflexivity|].
      specialize (Hfa y Hya). specialize (Hfb x Hxb). lia. }
    subst y. f_equal. apply IH; [exact Hsa|exact Hsb|]. intros z. split; intros Hz.
    + destruct (proj1 (Hab z) (or_intror Hz)) as [<-|H]; [|exact H]. specialize (Hfa _ Hz). lia.
    + destruct (proj2 (Hab z) (or_intror Hz)) as [<-|H]; [|exact H]. specialize (Hfb _ Hz). lia. Qed.
(* sorting a duplicate-free list: strictly increasing, same elements *)
Lemma isort_strict l : NoDup l -> StronglySorted lt (isort l).
Proof. intros Hd. apply sorted_le_nodup_lt; [apply isort_sorted|].
  apply (Permutation_NoDup (Permutation_sym (isort_perm l)) Hd). Qed.
Lemma isort_of_perm_seq n l : Permutation l (seq 0 n) -> isort l = seq 0 n.
Proof. intros Hp. apply sorted_lt_ext.
  - apply isort_strict. apply (Permutation_NoDup (Permutation_sym Hp)), seq_NoDup.
  - apply sorted_seq.
  - intros x. split; intros H.
    + apply (Permutation_in _ Hp), (Permutation_in _ (isort_perm l)), H.
    + apply (Permutation_in _ (Permutation_sym (isort_perm l))), (Permutation_in _ (Permutation_sym Hp)), H. Qed.
Lemma In_firstn' {A} k : forall (l : list A) x, In x (firstn k l) -> In x l.
Proof. induction k as [|k IH]; intros l x; cbn [firstn]; [intros []|]. destruct l as [|y r]; [intros []|].
  intros [->|H]; [now left|right; now apply IH]. Qed.
Lemma NoDup_firstn {A} k (l : list A) : NoDup l -> NoDup (firstn k l).
Proof. revert l. induction k as [|k IH]; intros l Hd; cbn [firstn]; [constructor|].
  destruct l as [|x r]; [constructor|]. inversion Hd; subst. constructor; [|now apply IH].
  intros Hi. apply In_firstn' in Hi. contradiction. Qed.
