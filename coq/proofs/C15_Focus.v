(* C15 - focus: a common translation that puts the smallest observed coordinate of every axis at 0; header
   dimensions are the observed extents rounded up; confidences and the missing pattern are untouched. *)
From Coq Require Import Reals ZArith List Bool Lia Lra.
Require Import Result Num C15_Spatial C15_Real C15_Lemmas C15_Flip C15_Matmul C15_Obs.
Import ListNotations.
Local Open Scope R_scope.

Lemma R_ceil_spec x z : R_ceil x = Some z -> is_ceil z x.
Proof. intros H. assert (Hz : z = (1 - up (- x))%Z) by (unfold R_ceil in H; congruence). subst z.
  unfold is_ceil. destruct (archimed (- x)) as [H1 H2]. rewrite minus_IZR. lra. Qed.

(* ---------- structure of a successful focus ---------- *)
Definition nonzero (m : R) : bool := negb (Reqb m 0).

(* on a well-formed body every axis has an observed value as soon as one has *)
Lemma axis_values D (b : rframes) : wf_body D b -> all_missing (all_points R_ops b) = false ->
  exists mins maxs : list R,
    Forall2 (fun d m => lmin R_ops (obs_axis R_ops d (all_points R_ops b)) = Some m) (seq 0 D) mins /\
    Forall2 (fun d m => lmax R_ops (obs_axis R_ops d (all_points R_ops b)) = Some m) (seq 0 D) maxs /\
    map (fun d => lmin R_ops (obs_axis R_ops d (all_points R_ops b))) (seq 0 D) = map Some mins /\
    map (fun d => lmax R_ops (obs_axis R_ops d (all_points R_ops b))) (seq 0 D) = map Some maxs.
Proof. intros Hwf Hm. pose proof (all3_all_points _ _ Hwf) as Hp.
  exists (map (fun d => val R_ops (lmin R_ops (obs_axis R_ops d (all_points R_ops b)))) (seq 0 D)),
         (map (fun d => val R_ops (lmax R_ops (obs_axis R_ops d (all_points R_ops b)))) (seq 0 D)).
  split; [|split; [|split]].
  - apply Forall2_map_r. intros d Hd. apply in_seq in Hd. destruct (lmin_some D _ d Hp) as [m ->]; [lia | exact Hm | reflexivity].
  - apply Forall2_map_r. intros d Hd. apply in_seq in Hd. destruct (lmax_some D _ d Hp) as [m ->]; [lia | exact Hm | reflexivity].
  - rewrite map_map. apply map_ext_in. intros d Hd. apply in_seq in Hd. destruct (lmin_some D _ d Hp) as [m ->]; [lia | exact Hm | reflexivity].
  - rewrite map_map. apply map_ext_in. intros d Hd. apply in_seq in Hd. destruct (lmax_some D _ d Hp) as [m ->]; [lia | exact Hm | reflexivity]. Qed.
Lemma zipw_osub_some (maxs mins : list R) : zipw (osub R_ops) (map Some maxs) (map Some mins) = map Some (zipw Rminus maxs mins).
Proof. revert mins; induction maxs as [|x maxs IH]; intros [|m mins]; cbn [map zipw]; try reflexivity. rewrite IH. reflexivity. Qed.
Lemma existsb_nonzero_some (mins : list R) :
  existsb (fun m : option R => match m with Some v => negb (Reqb v 0) | None => true end) (map Some mins) = existsb nonzero mins.
Proof. induction mins as [|m mins IH]; cbn [map existsb]; [reflexivity | now rewrite IH]. Qed.
Lemma map_val_some (mins : list R) : map (val R_ops) (map Some mins) = mins.
Proof. rewrite map_map. cbn [val]. apply map_id. Qed.

(* focus on a well-formed body, with the per-axis minima / maxima made explicit *)
Lemma focus_as_values D (b : rframes) (mins maxs : list R) :
  map (fun d => lmin R_ops (obs_axis R_ops d (all_points R_ops b))) (seq 0 D) = map Some mins ->
  map (fun d => lmax R_ops (obs_axis R_ops d (all_points R_ops b))) (seq 0 D) = map Some maxs ->
  focus R_ops R_ceil D b =
  let b' := if existsb nonzero mins then map3 R_ops (shift_point R_ops mins) b else b in
  match zipw Rminus maxs mins with
  | w :: h :: rest =>
      do wz <- need (R_ceil w) Value; do hz <- need (R_ceil h) Value;
      do dz <- match rest with [] => Ok 0%Z | dpt :: _ => need (R_ceil dpt) Value end;
      Ok (b', (wz, hz, dz))
  | _ => Err Type_
  end.
Proof. intros Hmin Hmax. unfold focus. rewrite Hmin, Hmax. rops.
  rewrite zipw_osub_some, existsb_nonzero_some, map_val_some.
  destruct (zipw Rminus maxs mins) as [|w [|h rest]]; cbn [map]; try reflexivity.
  cbn [need rbind]. destruct (R_ceil w); cbn [need rbind]; [|reflexivity]. destruct (R_ceil h); cbn [need rbind]; [|reflexivity].
  destruct rest as [|dpt rest]; cbn [map need rbind]; reflexivity. Qed.
(* success needs an observed value on the first axis *)
Lemma focus_ok_observed D (b b' : rframes) dims : focus R_ops R_ceil D b = Ok (b', dims) ->
  (2 <= D)%nat /\ exists m, lmin R_ops (obs_axis R_ops 0 (all_points R_ops b)) = Some m.
Proof. unfold focus. intros H. destruct D as [|[|n]]; cbn [seq map zipw] in H; try discriminate.
  split; [lia|]. destruct (lmin R_ops (obs_axis R_ops 0 (all_points R_ops b))) as [m|]; [eauto|].
  destruct (lmax R_ops (obs_axis R_ops 0 (all_points R_ops b))); cbn [osub need rbind] in H; discriminate. Qed.

Lemma focus_unfold D (b b' : rframes) dims : wf_body D b -> focus R_ops R_ceil D b = Ok (b', dims) ->
  exists mins maxs : list R,
    Forall2 (fun d m => lmin R_ops (obs_axis R_ops d (all_points R_ops b)) = Some m) (seq 0 D) mins /\
    Forall2 (fun d m => lmax R_ops (obs_axis R_ops d (all_points R_ops b)) = Some m) (seq 0 D) maxs /\
    b' = (if existsb nonzero mins then map3 R_ops (shift_point R_ops mins) b else b) /\
    (2 <= D)%nat /\ (D = 2%nat -> snd dims = 0%Z) /\
    forall d mn mx, (d < 3)%nat -> nth_error mins d = Some mn -> nth_error maxs d = Some mx -> is_ceil (dim_of dims d) (mx - mn).
Proof. intros Hwf H. destruct (focus_ok_observed D b b' dims H) as [HD [m0' Hm0]].
  pose proof (lmin_some_not_all_missing D _ 0%nat m0' (all3_all_points _ _ Hwf) ltac:(lia) Hm0) as Hnm.
  destruct (axis_values D b Hwf Hnm) as [mins [maxs [Hmin [Hmax [Emin Emax]]]]].
  rewrite (focus_as_values D b mins maxs Emin Emax) in H. cbn zeta in H.
  exists mins, maxs. split; [exact Hmin|]. split; [exact Hmax|].
  pose proof (Forall2_length' _ _ _ Hmin) as Lmin. pose proof (Forall2_length' _ _ _ Hmax) as Lmax. rewrite seq_length in Lmin, Lmax.
  destruct mins as [|m0 [|m1 mins]]; destruct maxs as [|x0 [|x1 maxs]]; cbn [zipw length] in *; try discriminate; try lia.
  rops.
  destruct (R_ceil (x0 - m0)) as [wz|] eqn:Ew; cbn [need rbind] in H; [|discriminate].
  destruct (R_ceil (x1 - m1)) as [hz|] eqn:Eh; cbn [need rbind] in H; [|discriminate].
  destruct mins as [|m2 mins]; destruct maxs as [|x2 maxs]; cbn [zipw length] in *; try lia.
  - cbn [rbind] in H. injection H as Hb Hd. subst b' dims. split; [reflexivity|]. split; [lia|]. split; [reflexivity|].
    intros d mn mx Hd Hmn Hmx. destruct d as [|[|d]]; cbn [nth_error] in Hmn, Hmx; [| |destruct d; discriminate Hmn];
      injection Hmn as <-; injection Hmx as <-; cbn [dim_of fst snd]; now apply R_ceil_spec.
  - destruct (R_ceil (x2 - m2)) as [dz|] eqn:Ed; cbn [need rbind] in H; [|discriminate].
    injection H as Hb Hd. subst b' dims. split; [reflexivity|]. split; [lia|]. split; [intros; lia|].
    intros d mn mx Hd Hmn Hmx. destruct d as [|[|[|d]]]; cbn [nth_error] in Hmn, Hmx; try lia;
      injection Hmn as <-; injection Hmx as <-; cbn [dim_of fst snd]; now apply R_ceil_spec. Qed.

(* ---------- observed values after the shift ---------- *)
Lemma obs_axis_point_shift D (mins : list R) (p : rpoint) d m : wf_point D p -> nth_error mins d = Some m ->
  match nth_error (pcs (shift_point R_ops mins p)) d with Some (x, false) => [x] | _ => [] end =
  map (fun x => x - m) (match nth_error (pcs p) d with Some (x, false) => [x] | _ => [] end).
Proof. intros Hwf Hm. unfold shift_point. cbn [pcs]. rewrite zipw_nth_error. rops. rewrite Hm.
  destruct (@nth_error (R * bool) (pcs p) d) as [[x mk]|]; [|reflexivity]. cbn [fst snd]. destruct mk; reflexivity. Qed.
Lemma obs_axis_shift D (mins : list R) (pts : list rpoint) d m : Forall (wf_point D) pts -> nth_error mins d = Some m ->
  obs_axis R_ops d (map (shift_point R_ops mins) pts) = map (fun x => x - m) (obs_axis R_ops d pts).
Proof. intros Hwf Hm. unfold obs_axis. induction Hwf as [|p pts Hp Hpts IH]; cbn [map flat_map]; [reflexivity|].
  rewrite map_app, IH. f_equal. exact (obs_axis_point_shift D mins p d m Hp Hm). Qed.
Lemma is_min_shift m (l : list R) : is_min m l -> is_min 0 (map (fun x => x - m) l).
Proof. intros [Hin Hle]. split.
  - replace 0 with (m - m) by ring. now apply (in_map (fun x => x - m)).
  - intros y Hy. apply in_map_iff in Hy as [x [<- Hx]]. specialize (Hle _ Hx). lra. Qed.
Lemma existsb_nonzero_false (mins : list R) d m : existsb nonzero mins = false -> nth_error mins d = Some m -> m = 0.
Proof. intros H Hd. apply nth_error_In in Hd. destruct (Req_EM_T m 0) as [E|E]; [exact E|]. exfalso.
  assert (existsb nonzero mins = true); [|congruence]. apply existsb_exists. exists m. split; [exact Hd|].
  unfold nonzero. now rewrite (proj2 (Reqb_false m 0) E). Qed.

(* ---------- one point under the shift ---------- *)
Lemma shift_point_pc mins (p : rpoint) : pc (shift_point R_ops mins p) = pc p.
Proof. reflexivity. Qed.
Lemma shift_point_masks D (mins : list R) (p : rpoint) : wf_point D p -> length mins = D -> masks (shift_point R_ops mins p) = masks p.
Proof. intros Hwf Hl. unfold masks, shift_point. cbn [pcs]. rewrite map_zipw.
  rewrite (zipw_ext_in _ (fun c _ => snd c)).
  - rops. apply zipw_fst_only. apply Nat.eq_le_incl. rewrite Hl. exact (proj1 Hwf).
  - intros [x mk] m _ _. cbn [fst snd]. now destruct mk. Qed.
Lemma shift_point_wf D (mins : list R) (p : rpoint) : wf_point D p -> length mins = D -> wf_point D (shift_point R_ops mins p).
Proof. intros Hwf Hl. rewrite <- (point_eta (shift_point R_ops mins p)). rewrite shift_point_pc.
  apply (wf_point_of_masks D D p _ Hwf).
  - unfold shift_point. cbn [pcs]. rewrite zipw_length. pose proof (proj1 Hwf) as Hp. rops. rewrite Hl, Hp. lia.
  - change (masks (shift_point R_ops mins p) = repeat (missing p) D). rewrite (shift_point_masks D mins p Hwf Hl). now apply wf_masks. Qed.
Lemma shift_point_observes D (mins : list R) (p : rpoint) k x : wf_point D p -> length mins = D -> observes p k x ->
  exists m, nth_error mins k = Some m /\ observes (shift_point R_ops mins p) k (x - m).
Proof. intros Hwf Hl Hk. unfold observes in *.
  assert (Hlt : (k < length mins)%nat) by (rewrite Hl; exact (observes_lt D p k x Hwf Hk)).
  destruct (nth_error mins k) as [m|] eqn:E; [|apply nth_error_None in E; lia].
  exists m. split; [reflexivity|]. unfold shift_point. cbn [pcs]. rewrite zipw_nth_error. rops. now rewrite Hk, E. Qed.

(* ---------- theorems ---------- *)
Definition focus_point_spec (mins : list R) (p p' : rpoint) : Prop :=
  same_conf_mask p p' /\ forall k x, observes p k x -> exists m, nth_error mins k = Some m /\ observes p' k (x - m).

Lemma focus_is_translation D (b b' : rframes) dims :
  wf_body D b -> focus R_ops R_ceil D b = Ok (b', dims) ->
  exists mins : list R, length mins = D /\
    (forall d m, nth_error mins d = Some m -> is_min m (obs_axis R_ops d (all_points R_ops b))) /\
    rel3 (focus_point_spec mins) b b' /\ wf_body D b'.
Proof. intros Hwf H. destruct (focus_unfold D b b' dims Hwf H) as [mins [maxs [Hmin [_ [Hb' _]]]]].
  pose proof (Forall2_length' _ _ _ Hmin) as Lmin. rewrite seq_length in Lmin. symmetry in Lmin. rops.
  exists mins. split; [exact Lmin|]. split.
  { intros d m Hd. assert (Hlt : (d < D)%nat) by (rewrite <- Lmin; apply nth_error_Some; congruence).
    destruct (Forall2_nth_error_l _ _ _ d _ Hmin (nth_error_seq 0 D d Hlt)) as [m' [Hm' Hlm]].
    rewrite Hd in Hm'. injection Hm' as <-. now apply lmin_spec. }
  subst b'. destruct (existsb nonzero mins) eqn:E.
  - split.
    + apply (all3_rel3_map3 (wf_point D)); [exact Hwf|]. intros p Hp. split; [split|].
      * reflexivity.
      * now apply (shift_point_masks D).
      * intros k x. now apply (shift_point_observes D).
    + apply (all3_map3 (wf_point D)); [exact Hwf|]. intros p Hp. now apply shift_point_wf.
  - split; [|exact Hwf]. rewrite <- (map3_id b) at 2. apply (all3_rel3_map3 (wf_point D)); [exact Hwf|].
    intros p Hp. split; [split; reflexivity|]. intros k x Hk.
    assert (Hlt : (k < length mins)%nat) by (rewrite Lmin; exact (observes_lt D p k x Hp Hk)).
    destruct (nth_error mins k) as [m|] eqn:Em; [|apply nth_error_None in Em; lia].
    exists m. split; [reflexivity|]. rewrite (existsb_nonzero_false mins k m E Em). now replace (x - 0) with x by ring. Qed.

Lemma focus_min_zero D (b b' : rframes) dims :
  wf_body D b -> focus R_ops R_ceil D b = Ok (b', dims) ->
  forall d, (d < D)%nat -> is_min 0 (obs_axis R_ops d (all_points R_ops b')).
Proof. intros Hwf H d Hd. destruct (focus_unfold D b b' dims Hwf H) as [mins [maxs [Hmin [_ [Hb' _]]]]].
  destruct (Forall2_nth_error_l _ _ _ d _ Hmin (nth_error_seq 0 D d Hd)) as [m [Hm Hlm]]. cbn [Nat.add] in Hlm.
  apply lmin_spec in Hlm. subst b'. destruct (existsb nonzero mins) eqn:E.
  - rewrite all_points_map3. rewrite (obs_axis_shift D mins _ d m (all3_all_points _ _ Hwf) Hm). now apply is_min_shift.
  - now rewrite <- (existsb_nonzero_false mins d m E Hm). Qed.

Lemma focus_dims D (b b' : rframes) dims :
  wf_body D b -> focus R_ops R_ceil D b = Ok (b', dims) ->
  (2 <= D)%nat /\ (D = 2%nat -> snd dims = 0%Z) /\
  forall d, (d < D)%nat -> (d < 3)%nat ->
    exists mn mx, is_min mn (obs_axis R_ops d (all_points R_ops b)) /\ is_max mx (obs_axis R_ops d (all_points R_ops b)) /\
                  is_ceil (dim_of dims d) (mx - mn).
Proof. intros Hwf H. destruct (focus_unfold D b b' dims Hwf H) as [mins [maxs [Hmin [Hmax [_ [HD [Hdepth Hceil]]]]]]].
  split; [exact HD|]. split; [exact Hdepth|]. intros d Hd Hd3.
  destruct (Forall2_nth_error_l _ _ _ d _ Hmin (nth_error_seq 0 D d Hd)) as [mn [Hmn Hlmn]].
  destruct (Forall2_nth_error_l _ _ _ d _ Hmax (nth_error_seq 0 D d Hd)) as [mx [Hmx Hlmx]].
  exists mn, mx. split; [now apply lmin_spec|]. split; [now apply lmax_spec|]. now apply Hceil. Qed.

(* focus succeeds whenever there is something to measure: width and height exist and some point is observed *)
Lemma focus_defined D (b : rframes) : (2 <= D)%nat -> wf_body D b -> all_missing (all_points R_ops b) = false ->
  exists r, focus R_ops R_ceil D b = Ok r.
Proof. intros HD Hwf Hm. destruct (axis_values D b Hwf Hm) as [mins [maxs [Hmin [Hmax [Emin Emax]]]]].
  rewrite (focus_as_values D b mins maxs Emin Emax). cbn zeta.
  pose proof (Forall2_length' _ _ _ Hmin) as Lmin. pose proof (Forall2_length' _ _ _ Hmax) as Lmax. rewrite seq_length in Lmin, Lmax.
  destruct mins as [|m0 [|m1 mins]]; destruct maxs as [|x0 [|x1 maxs]]; cbn [length] in *; try lia.
  cbn [zipw]. unfold R_ceil at 1 2. cbn [need rbind].
  destruct mins as [|m2 mins]; destruct maxs as [|x2 maxs]; cbn [zipw length need rbind R_ceil] in *; try lia; eexists; reflexivity. Qed.
(* ... and fails loudly otherwise *)
Lemma focus_nothing_observed D (b : rframes) : wf_body D b -> all_missing (all_points R_ops b) = true ->
  exists e, focus R_ops R_ceil D b = Err e.
Proof. intros Hwf Hm. destruct (focus R_ops R_ceil D b) as [[b' dims]|e] eqn:E; [|eauto]. exfalso.
  destruct (focus_ok_observed D b b' dims E) as [HD [m Hm0]].
  pose proof (lmin_some_not_all_missing D _ 0%nat m (all3_all_points _ _ Hwf) ltac:(lia) Hm0). congruence. Qed.
