(* C15 - bbox: per frame, person and component the smallest axis-aligned box of the observed points; missing
   exactly when the component has no observed point. *)
From Coq Require Import Reals ZArith List Bool Lia Lra.
Require Import Result Num C15_Spatial C15_Real C15_Lemmas C15_Flip C15_Matmul C15_Obs.
Import ListNotations.
Local Open Scope R_scope.


(* ---------- the two points of one box ---------- *)
Definition box_point (D : nat) (v : nat -> R) (m : bool) : rpoint :=
  @mkP R_ops (map (fun d => (v d, m)) (seq 0 D)) (if m then 0 else 1).
Lemma box_eq D (cpts : list rpoint) : Forall (wf_point D) cpts -> (1 <= D)%nat ->
  box R_ops D cpts =
  [ box_point D (fun d => val R_ops (lmin R_ops (obs_axis R_ops d cpts))) (all_missing cpts);
    box_point D (fun d => val R_ops (lmax R_ops (obs_axis R_ops d cpts))) (all_missing cpts) ].
Proof. intros Hwf HD. unfold box, box_point, reinit. cbn [pcs pc]. rewrite (is_none_lmin D cpts 0%nat Hwf) by lia. rops.
  assert (E : forall m : bool, m || Reqb (if m then 0 else 1) 0 = m).
  { intros [|]; [reflexivity|]. cbn [orb]. apply Reqb_false. lra. }
  f_equal; [|f_equal]; (apply point_ext; [|reflexivity]; cbn [pcs]; rewrite map_map; apply map_ext_in; intros d Hd; apply in_seq in Hd; cbn [fst snd]).
  - f_equal. transitivity (all_missing cpts || Reqb (if all_missing cpts then 0 else 1) 0); [|apply E].
    f_equal. apply (is_none_lmin D cpts d Hwf). lia.
  - f_equal. transitivity (all_missing cpts || Reqb (if all_missing cpts then 0 else 1) 0); [|apply E].
    f_equal. apply (is_none_lmax D cpts d Hwf). lia. Qed.
Lemma box_point_wf D v m : (1 <= D)%nat -> wf_point D (box_point D v m).
Proof. intros HD. assert (Hm : missing (box_point D v m) = m).
  { rewrite allmasked_masks. unfold masks, box_point. cbn [pcs]. rewrite map_map. cbn [snd].
    transitivity (forallb (fun b : bool => b) (repeat m D)); [|apply forallb_repeat; lia].
    f_equal. clear HD. generalize 0%nat. induction D as [|D IH]; intros s; cbn [seq map repeat]; [reflexivity | now rewrite IH]. }
  split; [|split].
  - unfold box_point. cbn [pcs]. now rewrite map_length, seq_length.
  - rewrite Hm. unfold masks, box_point. cbn [pcs]. rewrite map_map. cbn [snd].
    generalize 0%nat. clear. induction D as [|D IH]; intros s; cbn [seq map repeat]; [reflexivity | now rewrite IH].
  - rewrite Hm. unfold box_point. cbn [pc]. destruct m; [reflexivity | intros H; exfalso; lra]. Qed.
Lemma box_point_observes D v d : (d < D)%nat -> observes (box_point D v false) d (v d).
Proof. intros Hd. unfold observes, box_point. cbn [pcs]. rewrite nth_error_map, nth_error_seq by exact Hd. reflexivity. Qed.
Lemma box_point_missing D v : missing (box_point D v true) = true.
Proof. unfold missing, allmasked, box_point. cbn [pcs]. apply forallb_forall. intros c Hc. apply in_map_iff in Hc as [d [<- _]]. reflexivity. Qed.

(* what C15 says about one box *)
Definition box_spec (D : nat) (cpts : list rpoint) (tl br : rpoint) : Prop :=
  wf_point D tl /\ wf_point D br /\
  (all_missing cpts = true -> missing tl = true /\ missing br = true /\ pc tl = 0 /\ pc br = 0) /\
  (all_missing cpts = false -> pc tl = 1 /\ pc br = 1 /\
     forall d, (d < D)%nat -> exists lo hi, observes tl d lo /\ observes br d hi /\ smallest_interval lo hi (obs_axis R_ops d cpts)).

Lemma box_correct D (cpts : list rpoint) : Forall (wf_point D) cpts -> (1 <= D)%nat ->
  exists tl br, box R_ops D cpts = [tl; br] /\ box_spec D cpts tl br.
Proof. intros Hwf HD. rewrite (box_eq D cpts Hwf HD). eexists. eexists. split; [reflexivity|].
  split; [now apply box_point_wf|]. split; [now apply box_point_wf|]. split.
  - intros ->. repeat split; apply box_point_missing.
  - intros E. rewrite E. split; [reflexivity|]. split; [reflexivity|]. intros d Hd.
    pose proof (is_none_lmin D cpts d Hwf Hd) as Hn. pose proof (is_none_lmax D cpts d Hwf Hd) as Hx. rewrite E in Hn, Hx.
    destruct (lmin R_ops (obs_axis R_ops d cpts)) as [lo|] eqn:Elo; [|discriminate].
    destruct (lmax R_ops (obs_axis R_ops d cpts)) as [hi|] eqn:Ehi; [|discriminate].
    exists lo, hi. split; [|split].
    + pose proof (box_point_observes D (fun d => val R_ops (lmin R_ops (obs_axis R_ops d cpts))) d Hd) as H. cbn beta in H. now rewrite Elo in H.
    + pose proof (box_point_observes D (fun d => val R_ops (lmax R_ops (obs_axis R_ops d cpts))) d Hd) as H. cbn beta in H. now rewrite Ehi in H.
    + apply min_max_smallest; [now apply lmin_spec | now apply lmax_spec]. Qed.

(* ---------- components are consecutive segments of the point list, in header order ---------- *)
Lemma split_comps_length {O : ops} ns (pts : list (point O)) : length (split_comps O ns pts) = length ns.
Proof. revert pts; induction ns as [|n ns IH]; intros pts; cbn [split_comps length]; [reflexivity | now rewrite IH]. Qed.
Lemma split_comps_concat {O : ops} ns (pts : list (point O)) :
  concat (split_comps O ns pts) = firstn (fold_right Nat.add 0%nat ns) pts.
Proof. revert pts; induction ns as [|n ns IH]; intros pts; cbn [split_comps concat fold_right]; [reflexivity|].
  rewrite IH. clear IH. revert pts. induction n as [|n IHn]; intros pts; cbn [firstn skipn Nat.add app]; [reflexivity|].
  destruct pts as [|p pts]; cbn [firstn skipn app]; [now rewrite firstn_nil | now rewrite IHn]. Qed.
Lemma split_comps_sizes {O : ops} ns (pts : list (point O)) : (fold_right Nat.add 0%nat ns <= length pts)%nat ->
  Forall2 (fun n c => length c = n) ns (split_comps O ns pts).
Proof. revert pts; induction ns as [|n ns IH]; intros pts H; cbn [split_comps fold_right] in *; constructor.
  - rewrite firstn_length. lia.
  - apply IH. rewrite skipn_length. lia. Qed.
Lemma Forall_firstn {A} (P : A -> Prop) n l : Forall P l -> Forall P (firstn n l).
Proof. intros H. rewrite Forall_forall in *. intros x Hx. apply H. rewrite <- (firstn_skipn n l). apply in_or_app. now left. Qed.
Lemma Forall_skipn {A} (P : A -> Prop) n l : Forall P l -> Forall P (skipn n l).
Proof. intros H. rewrite Forall_forall in *. intros x Hx. apply H. rewrite <- (firstn_skipn n l). apply in_or_app. now right. Qed.
Lemma split_comps_Forall {O : ops} (P : point O -> Prop) ns pts : Forall P pts -> Forall (Forall P) (split_comps O ns pts).
Proof. revert pts; induction ns as [|n ns IH]; intros pts H; cbn [split_comps]; constructor.
  - now apply Forall_firstn. - apply IH. now apply Forall_skipn. Qed.

(* ---------- one (frame, person) cell ---------- *)
Definition boxes_spec (D : nat) (comps : list (list rpoint)) (out : list rpoint) : Prop :=
  exists boxes : list (rpoint * rpoint),
    out = flat_map (fun tb => [fst tb; snd tb]) boxes /\ Forall2 (fun cpts tb => box_spec D cpts (fst tb) (snd tb)) comps boxes.
Lemma bbox_person_correct D ns (pts : list rpoint) : Forall (wf_point D) pts -> (1 <= D)%nat ->
  boxes_spec D (split_comps R_ops ns pts) (bbox_person R_ops D ns pts).
Proof. intros Hwf HD. unfold bbox_person. pose proof (split_comps_Forall (wf_point D) ns pts Hwf) as Hc.
  induction Hc as [|cpts comps Hcp Hcs IH]; cbn [flat_map].
  - exists []. split; [reflexivity | constructor].
  - destruct IH as [boxes [-> HF]]. destruct (box_correct D cpts Hcp HD) as [tl [br [-> Hs]]].
    exists ((tl, br) :: boxes). split; [reflexivity|]. constructor; [exact Hs | exact HF]. Qed.
Lemma boxes_spec_wf D comps out : boxes_spec D comps out -> Forall (wf_point D) out /\ length out = (2 * length comps)%nat.
Proof. intros [boxes [-> HF]]. induction HF as [|cpts tb comps boxes Hs HF IH]; cbn [flat_map length]; [split; [constructor | reflexivity]|].
  destruct IH as [IH1 IH2]. split.
  - constructor; [exact (proj1 Hs)|]. constructor; [exact (proj1 (proj2 Hs)) | exact IH1].
  - cbn [app length]. rewrite IH2. lia. Qed.

(* ---------- theorems ---------- *)
Lemma bbox_tight D N ns (b b' : rframes) :
  wf_body D b -> bbox R_ops D N ns b = Ok b' ->
  Forall2 (Forall2 (fun pts pts' => boxes_spec D (split_comps R_ops ns pts) pts')) b b' /\ wf_body D b'.
Proof. intros Hwf H. unfold bbox in H. destruct (Nat.eqb D 0) eqn:ED; cbn [orb] in H; [discriminate|].
  destruct (Nat.ltb N _); [discriminate|]. injection H as <-. apply Nat.eqb_neq in ED.
  assert (G : Forall2 (Forall2 (fun pts pts' => boxes_spec D (split_comps R_ops ns pts) pts')) b (map (map (bbox_person R_ops D ns)) b)).
  { apply Forall2_map_r. intros fr Hfr. apply Forall2_map_r. intros pts Hpts. apply bbox_person_correct; [|lia].
    unfold wf_body, all3 in Hwf. rewrite Forall_forall in Hwf. specialize (Hwf _ Hfr). rewrite Forall_forall in Hwf. now apply Hwf. }
  split; [exact G|]. unfold wf_body, all3. clear Hwf.
  induction G as [|fr fr' b b' Hfr _ IH]; constructor; [|exact IH]. clear IH.
  induction Hfr as [|pts pts' fr fr' Hp _ IH]; constructor; [|exact IH]. exact (proj1 (boxes_spec_wf D _ _ Hp)). Qed.
Lemma bbox_defined D N ns (b : rframes) : (1 <= D)%nat -> (fold_right Nat.add 0%nat ns <= N)%nat -> exists b', bbox R_ops D N ns b = Ok b'.
Proof. intros HD HN. unfold bbox. destruct (Nat.eqb D 0) eqn:E; [apply Nat.eqb_eq in E; lia|]. cbn [orb].
  destruct (Nat.ltb N _) eqn:E2; [apply Nat.ltb_lt in E2; lia | eauto]. Qed.

(* ---------- header ---------- *)
Lemma bbox_header_shape colors comps :
  map hc_name (bbox_header colors comps) = map hc_name comps /\
  map hc_format (bbox_header colors comps) = map hc_format comps /\
  Forall (fun c => hc_points c = box_points /\ length (hc_points c) = 2%nat /\ hc_limbs c = [(0, 1)%Z] /\ hc_colors c = colors) (bbox_header colors comps) /\
  fold_right Nat.add 0%nat (map (fun c => length (hc_points c)) (bbox_header colors comps)) = (2 * length comps)%nat.
Proof. unfold bbox_header. rewrite !map_map. cbn [hc_name hc_format hc_points]. split; [reflexivity|]. split; [reflexivity|]. split.
  - apply Forall_forall. intros c Hc. apply in_map_iff in Hc as [c0 [<- _]]. cbn [hc_points hc_limbs hc_colors]. repeat split; reflexivity.
  - induction comps as [|c comps IH]; cbn [map fold_right length]; [reflexivity|]. rewrite IH. cbn [box_points length]. lia. Qed.
