(* C17 - totality of the masked (PyTorch, NumPy) representations over X_ops (IEEE special values
   over exact reals, model/C17_XReal.v): exactly 0 wherever an input point is missing - whatever
   NaN / infinity / finite garbage lies under the mask - and never NaN or infinite, including the
   degenerate configurations (coincident points, vertical limbs, collinear triples).
   The Torch models use the REPAIRED zero_filled (defect F9); the pinned `tensor.mul(mask)` variant is
   refuted at the end of the file. *)
From Coq Require Import Reals List Lra Bool.
Require Import Num C17_Repr C17_Spec C17_XReal C17_Vec C17_Real.
Import ListNotations.
Local Open Scope R_scope.

Local Notation XO := X_ops.
Local Notation xm := (mv X_ops).
Local Notation rsqrt := R_sqrt.sqrt.

Section WithTranscendentals.
Variables atan acos : R -> R.
Local Notation x_atan := (C17_XReal.x_atan atan).
Local Notation x_acos := (C17_XReal.x_acos acos).

(* a tensor is admissible when every VALID coordinate is finite; anything may sit under the mask *)
Definition valid_fin (p : list xm) : Prop := Forall (fun c => snd c = true -> is_fin (fst c)) p.
Definition all_valid (p : list xm) : bool := forallb snd p.
Definition fins (v : list R) : list xm := map (fun r => (Fin r, true)) v.

Lemma is_fin_Fin r : is_fin (Fin r). Proof. exists r. reflexivity. Qed.
Lemma all_valid_fins p : valid_fin p -> all_valid p = true -> exists v, p = fins v /\ length v = length p.
Proof.
  induction p as [|[x m] p IH]; intros Hv Ha; [exists []; split; reflexivity|].
  inversion Hv as [|c q Hc Hq]; subst. cbn [all_valid forallb snd] in Ha. apply andb_true_iff in Ha. destruct Ha as [Hm Hr].
  cbn [snd] in Hm. subst m. destruct (Hc eq_refl) as [r Hr']. cbn [fst] in Hr'. subst x.
  destruct (IH Hq Hr) as [v [-> Hl]]. exists (r :: v). split; [reflexivity|]. cbn [length]. rewrite Hl. reflexivity.
Qed.
Lemma fins_length v : length (fins v) = length v. Proof. apply map_length. Qed.

(* ---- masks (generic in the operations) --------------------------------------------------------- *)
Section Masks.
Variable O : ops.
Lemma marith_mask (f : T O -> T O -> T O) : forall p1 p2 : list (mv O), length p1 = length p2 ->
  forallb snd (map2 (m_arith O f) p1 p2) = forallb snd p1 && forallb snd p2.
Proof.
  apply list_ind2; [reflexivity|]. intros [x mx] [y my] a b _ IH. rewrite map2_cons. cbn [forallb m_arith snd fst]. rewrite IH.
  destruct mx, my, (forallb snd a), (forallb snd b); reflexivity.
Qed.
Lemma mun_mask (f : T O -> T O) (p : list (mv O)) : forallb snd (map (m_un O f) p) = forallb snd p.
Proof. induction p as [|c p IH]; [reflexivity|]. cbn [map forallb m_un snd]. rewrite IH. reflexivity. Qed.
Lemma mun_snd (f : T O -> T O) (a : mv O) : snd (m_un O f a) = snd a. Proof. reflexivity. Qed.
Lemma msum_snd (l : list (mv O)) : snd (m_sum O l) = forallb snd l. Proof. reflexivity. Qed.
Lemma dist_m_mask p1 p2 : length p1 = length p2 ->
  snd (torch_dist_m O p1 p2) = forallb snd p1 && forallb snd p2.
Proof. intros H. unfold torch_dist_m. rewrite mun_snd, msum_snd, mun_mask, marith_mask by exact H. reflexivity. Qed.
Lemma marith_length (f : T O -> T O -> T O) (p1 p2 : list (mv O)) : length p1 = length p2 -> length (map2 (m_arith O f) p1 p2) = length p1.
Proof. apply map2_length. Qed.
Lemma mdiv_stack_mask (v : list (mv O)) (mag : mv O) : snd mag = forallb snd v ->
  forallb snd (map (fun c => m_div O c mag) v) = forallb snd v.
Proof.
  intros Hmag. destruct (snd mag) eqn:E.
  - clear Hmag. induction v as [|c v IH]; [reflexivity|]. cbn [map forallb]. unfold m_div at 1, m_arith at 1. cbn [snd].
    rewrite E, andb_true_r, IH. reflexivity.
  - destruct v as [|c v]; [cbn in Hmag; discriminate|]. rewrite <- Hmag. cbn [map forallb]. unfold m_div at 1, m_arith at 1.
    cbn [snd]. rewrite E, andb_false_r. reflexivity.
Qed.
Lemma vnorm_mask (v : list (mv O)) : forallb snd (torch_vnorm O v) = forallb snd v.
Proof. unfold torch_vnorm. apply mdiv_stack_mask. rewrite mun_snd, msum_snd, mun_mask. reflexivity. Qed.
End Masks.

(* ---- exactly zero under the mask ---------------------------------------------------------------- *)
Lemma masked_zero_distance p1 p2 : length p1 = length p2 -> all_valid p1 && all_valid p2 = false ->
  torch_distance XO p1 p2 = Fin 0.
Proof. intros Hl Hm. unfold torch_distance, zero_filled. rewrite dist_m_mask by exact Hl. unfold all_valid in Hm. rewrite Hm. reflexivity. Qed.
Lemma x_atan_0 : atan 0 = 0 -> x_atan (Fin 0) = Fin 0.
Proof. intros atan_0. cbn [C17_XReal.x_atan]. rewrite atan_0. reflexivity. Qed.
(* the angle only looks at the X and Y coordinates *)
Lemma masked_zero_angle x1 y1 r1 x2 y2 r2 : atan 0 = 0 -> snd x1 && snd y1 && snd x2 && snd y2 = false ->
  torch_angle XO x_atan (x1 :: y1 :: r1) (x2 :: y2 :: r2) = Fin 0.
Proof.
  intros atan_0 Hm. unfold torch_angle, torch_angle_with. rewrite !map2_cons.
  unfold m_div, m_arith, fix_nan, zero_filled. cbn [fst snd].
  assert (E : snd y2 && snd y1 && (snd x2 && snd x1) = false) by (destruct (snd x1), (snd y1), (snd x2), (snd y2); try discriminate; reflexivity).
  rewrite E. apply x_atan_0. exact atan_0.
Qed.
Lemma xeqb_fin0 : eqb XO (Fin 0) (Fin 0) = true.
Proof. cbn [eqb XO xeqb]. unfold Reqb. destruct (Req_EM_T 0 0) as [_|N]; [reflexivity|exfalso; apply N; reflexivity]. Qed.
Lemma inner_slopes_mask p1 p2 p3 : length p1 = length p2 -> length p3 = length p2 ->
  snd (torch_inner_slopes XO p1 p2 p3) = all_valid p1 && all_valid p2 && all_valid p3.
Proof.
  intros L1 L3. unfold torch_inner_slopes, m_sum. cbn [snd].
  pose proof (vnorm_mask XO) as Hv.
  assert (Ll : forall a b : list xm, length a = length b -> length (torch_vnorm XO (map2 (m_arith XO (sub XO)) a b)) = length a).
  { intros a b H. unfold torch_vnorm. rewrite map_length. apply marith_length. exact H. }
  rewrite marith_mask by (rewrite !Ll by congruence; congruence).
  rewrite !Hv, !marith_mask by congruence. unfold all_valid.
  destruct (forallb snd p1), (forallb snd p2), (forallb snd p3); reflexivity.
Qed.
Lemma masked_zero_inner_angle p1 p2 p3 : length p1 = length p2 -> length p3 = length p2 ->
  all_valid p1 && all_valid p2 && all_valid p3 = false -> torch_inner_angle XO x_acos p1 p2 p3 = Fin 0.
Proof.
  intros L1 L3 Hm. unfold torch_inner_angle, m_un, zero_filled. cbn [snd fst]. rewrite inner_slopes_mask by assumption.
  rewrite Hm. unfold nan_to_zero. destruct (eqb XO (zero XO) (zero XO)); reflexivity.
Qed.
Lemma pld_mask p1 p2 p3 : length p1 = length p2 -> length p2 = length p3 ->
  snd (torch_pld_m XO p1 p2 p3) = all_valid p1 && all_valid p2 && all_valid p3.
Proof.
  intros L1 L2. unfold torch_pld_m. cbn zeta. unfold m_scalar, m_arith, m_un. cbn [snd]. rewrite !dist_m_mask by congruence. unfold all_valid.
  destruct (forallb snd p1), (forallb snd p2), (forallb snd p3); reflexivity.
Qed.
Lemma masked_zero_pld p1 p2 p3 : length p1 = length p2 -> length p2 = length p3 ->
  all_valid p1 && all_valid p2 && all_valid p3 = false -> torch_pld XO p1 p2 p3 = Fin 0.
Proof.
  intros L1 L2 Hm. unfold torch_pld, zero_filled, fix_nan. cbn [snd]. rewrite pld_mask by assumption. rewrite Hm. reflexivity.
Qed.
(* NumPy: the distance is 0 when every coordinate of one of the two points is missing *)
Lemma masked_zero_numpy p1 p2 : length p1 = length p2 ->
  forallb (fun c : xm => negb (snd c)) p1 = true \/ forallb (fun c : xm => negb (snd c)) p2 = true ->
  np_distance XO p1 p2 = Fin 0.
Proof.
  intros Hl Hm. unfold np_distance.
  assert (E : forallb (fun c : xm => negb (snd c)) (map (m_un XO (sq XO)) (map2 (m_arith XO (sub XO)) p1 p2)) = true).
  { revert p1 p2 Hl Hm.
    apply (list_ind2 (fun p1 p2 : list xm =>
      forallb (fun c : xm => negb (snd c)) p1 = true \/ forallb (fun c : xm => negb (snd c)) p2 = true ->
      forallb (fun c : xm => negb (snd c)) (map (m_un XO (sq XO)) (map2 (m_arith XO (sub XO)) p1 p2)) = true)); [reflexivity|].
    intros [x mx] [y my] a b _ IH H. rewrite map2_cons. cbn [map forallb m_un m_arith snd fst] in *.
    destruct H as [H|H]; apply andb_true_iff in H; destruct H as [H1 H2]; rewrite IH by (try (left; exact H2); right; exact H2).
    - destruct mx; [discriminate|]. reflexivity.
    - destruct my; [discriminate|]. rewrite andb_false_r. reflexivity. }
  rewrite E. reflexivity.
Qed.

(* ---- never NaN, never infinite -------------------------------------------------------------------- *)
Lemma xsum_fins (v : list R) : sum XO (map fst (fins v)) = Fin (fold_right Rplus 0 v).
Proof. induction v as [|x v IH]; [reflexivity|]. unfold sum, fins in *. cbn [map fst fold_right]. rewrite IH. reflexivity. Qed.
Lemma fins_all_valid v : forallb snd (fins v) = true.
Proof. induction v as [|x v IH]; [reflexivity|exact IH]. Qed.
Lemma msub_fins : forall a b : list R, map2 (m_arith XO (sub XO)) (fins a) (fins b) = fins (vsub a b).
Proof. induction a as [|x a IH]; intros [|y b]; try reflexivity. unfold fins, vsub in *. cbn [map]. rewrite !map2_cons. cbn [map]. rewrite IH. reflexivity. Qed.
Lemma msq_fins (v : list R) : map (m_un XO (sq XO)) (fins v) = fins (map (fun x => x * x) v).
Proof. unfold fins. rewrite !map_map. reflexivity. Qed.
Lemma sumsq_eq_dot (v : list R) : fold_right Rplus 0 (map (fun x => x * x) v) = dot v v.
Proof. induction v as [|x v IH]; [reflexivity|]. cbn [map fold_right]. rewrite IH, dot_cons. reflexivity. Qed.
Lemma xsqrt_nonneg r : 0 <= r -> xsqrt (Fin r) = Fin (rsqrt r).
Proof. intros H. cbn [xsqrt]. destruct (Rle_dec 0 r) as [_|N]; [reflexivity|contradiction]. Qed.
Lemma dist_m_fins a b : torch_dist_m XO (fins a) (fins b) = (Fin (euclid a b), true).
Proof.
  unfold torch_dist_m, m_un, m_sum. cbn [fst snd]. rewrite msub_fins, msq_fins, xsum_fins, fins_all_valid, sumsq_eq_dot.
  cbn [sqrt XO]. rewrite xsqrt_nonneg by apply dot_self_nonneg. reflexivity.
Qed.

Lemma never_nan_distance p1 p2 : length p1 = length p2 -> valid_fin p1 -> valid_fin p2 -> is_fin (torch_distance XO p1 p2).
Proof.
  intros Hl V1 V2. unfold torch_distance, zero_filled. rewrite dist_m_mask by exact Hl.
  destruct (forallb snd p1) eqn:E1; [|apply is_fin_Fin]. destruct (forallb snd p2) eqn:E2; [|apply is_fin_Fin]. cbn [andb].
  destruct (all_valid_fins p1 V1 E1) as [a [-> _]]. destruct (all_valid_fins p2 V2 E2) as [b [-> _]].
  rewrite dist_m_fins. apply is_fin_Fin.
Qed.

Lemma x_atan_total (a : xv) : a <> NaN -> is_fin (x_atan a).
Proof. destruct a; intros H; try (eexists; reflexivity). contradiction. Qed.
Lemma nan_to_zero_not_nan (a : xv) : nan_to_zero XO a <> NaN.
Proof.
  unfold nan_to_zero. destruct a; cbn [eqb XO xeqb zero]; try discriminate.
  destruct (Reqb r r); discriminate.
Qed.
Lemma never_nan_angle p1 p2 : is_fin (torch_angle XO x_atan p1 p2).
Proof.
  unfold torch_angle, torch_angle_with. destruct (map2 (m_arith XO (sub XO)) p2 p1) as [|xs [|ys r]]; try apply is_fin_Fin.
  apply x_atan_total. unfold zero_filled, fix_nan. cbn [fst snd].
  destruct (snd (m_div XO ys xs)); [apply nan_to_zero_not_nan|discriminate].
Qed.

Lemma x_acos_fin_or_nan (a : xv) : is_fin (x_acos a) \/ x_acos a = NaN.
Proof.
  destruct a; cbn [C17_XReal.x_acos]; try (right; reflexivity).
  destruct (Rle_dec (-1) r); [|right; reflexivity]. destruct (Rle_dec r 1); [left; apply is_fin_Fin|right; reflexivity].
Qed.
Lemma never_nan_inner_angle p1 p2 p3 : is_fin (torch_inner_angle XO x_acos p1 p2 p3).
Proof.
  unfold torch_inner_angle, m_un, zero_filled. cbn [fst snd].
  destruct (snd (torch_inner_slopes XO p1 p2 p3)).
  - destruct (x_acos_fin_or_nan (fst (torch_inner_slopes XO p1 p2 p3))) as [[r ->] | ->].
    + unfold nan_to_zero. cbn [eqb XO xeqb]. destruct (Reqb r r); apply is_fin_Fin.
    + apply is_fin_Fin.
  - unfold nan_to_zero. destruct (eqb XO (zero XO) (zero XO)); apply is_fin_Fin.
Qed.

Lemma never_nan_pld p1 p2 p3 : length p1 = length p2 -> length p2 = length p3 ->
  valid_fin p1 -> valid_fin p2 -> valid_fin p3 -> is_fin (torch_pld XO p1 p2 p3).
Proof.
  intros L1 L2 V1 V2 V3.
  destruct (all_valid p1 && all_valid p2 && all_valid p3) eqn:Hm; [|rewrite masked_zero_pld by assumption; apply is_fin_Fin].
  apply andb_true_iff in Hm. destruct Hm as [Hm E3]. apply andb_true_iff in Hm. destruct Hm as [E1 E2].
  destruct (all_valid_fins p1 V1 E1) as [q1 [-> Q1]]. destruct (all_valid_fins p2 V2 E2) as [q2 [-> Q2]].
  destruct (all_valid_fins p3 V3 E3) as [q3 [-> Q3]]. rewrite !fins_length in *.
  unfold torch_pld, torch_pld_m. rewrite !dist_m_fins. cbn zeta.
  set (a := euclid q1 q2). set (b := euclid q2 q3). set (c := euclid q1 q3).
  unfold m_scalar, m_arith, m_un, fix_nan, zero_filled, two. cbn [fst snd andb add sub mul div of_Z XO xadd xsub xmul sqrt].
  assert (H2 : xdiv (Fin (a + b + c)) (Fin 2) = Fin ((a + b + c) / 2)).
  { cbn [xdiv]. destruct (Req_EM_T 2 0) as [E|_]; [lra|reflexivity]. }
  rewrite H2. cbn [xsub xmul].
  set (s := (a + b + c) / 2). set (sqd := s * (s - a) * (s - b) * (s - c)).
  unfold nan_to_zero. cbn [xsqrt]. destruct (Rle_dec 0 sqd) as [Hpos|Hneg].
  - cbn [xmul xdiv]. destruct (Req_EM_T b 0) as [Eb|Nb].
    + (* coincident line points: b = 0 forces a = c, hence squared = 0 and the quotient is 0/0 = NaN, repaired *)
      assert (Hq : q2 = q3) by (apply euclid_zero_iff in Eb; [exact Eb|congruence]).
      assert (Hac : a = c) by (unfold a, c; rewrite Hq; reflexivity).
      assert (Hs0 : sqd = 0) by (unfold sqd, s; rewrite Eb, Hac; field).
      rewrite Hs0, sqrt_0. destruct (Req_EM_T (0 * 2) 0) as [_|N]; [|exfalso; apply N; ring].
      cbn [eqb XO xeqb zero]. apply is_fin_Fin.
    + cbn [eqb XO xeqb]. destruct (Reqb _ _); apply is_fin_Fin.
  - cbn [xmul xdiv eqb XO xeqb zero]. apply is_fin_Fin.
Qed.

Lemma never_nan_numpy p1 p2 : valid_fin p1 -> valid_fin p2 -> is_fin (np_distance XO p1 p2).
Proof.
  intros V1 V2. unfold np_distance.
  set (sqs := map (m_un XO (sq XO)) (map2 (m_arith XO (sub XO)) p1 p2)).
  destruct (forallb (fun c : xm => negb (snd c)) sqs); [apply is_fin_Fin|].
  assert (Hs : exists r, 0 <= r /\ sum XO (map (fun c : xm => if snd c then fst c else zero XO) sqs) = Fin r).
  { unfold sqs. clear sqs. revert p2 V2. induction p1 as [|[x mx] p1 IH]; intros [|[y my] p2] V2;
      try (exists 0; split; [lra|reflexivity]).
    inversion V1 as [|c1 q1 Hc1 Hq1]; subst. inversion V2 as [|c2 q2 Hc2 Hq2]; subst.
    destruct (IH Hq1 p2 Hq2) as [r [Hr Hsum]]. rewrite map2_cons. cbn [map m_un m_arith fst snd sum fold_right] in *.
    unfold sum in Hsum. rewrite Hsum. destruct mx, my; cbn [andb]; try (exists r; split; [exact Hr|cbn [add XO xadd zero]; f_equal; ring]).
    destruct (Hc1 eq_refl) as [u ->]. destruct (Hc2 eq_refl) as [v ->]. cbn [sq sub mul add XO xsub xmul xadd].
    exists ((u - v) * (u - v) + r). split; [|reflexivity]. pose proof (Rle_0_sqr (u - v)) as H. unfold Rsqr in H. lra. }
  destruct Hs as [r [Hr ->]]. cbn [ltb XO xltb zero]. unfold Rltb. destruct (Rlt_dec r 0) as [L|_]; [lra|].
  cbn [sqrt XO]. rewrite xsqrt_nonneg by exact Hr. apply is_fin_Fin.
Qed.

(* ---- on finite, fully valid inputs X_ops computes the real-number formula (links the two instances) *)
Lemma x_distance_is_real a b : torch_distance XO (fins a) (fins b) = Fin (euclid a b).
Proof. unfold torch_distance. rewrite dist_m_fins. reflexivity. Qed.
(* degenerate limbs: a vertical limb has angle +-pi/2 on Torch, coincident end points give 0 *)
Lemma x_angle_vertical x y1 y2 r1 r2 : y1 <> y2 ->
  torch_angle XO x_atan (fins (x :: y1 :: r1)) (fins (x :: y2 :: r2)) = Fin (if Rlt_dec y1 y2 then PI / 2 else - (PI / 2)).
Proof.
  intros H. unfold torch_angle, torch_angle_with. rewrite msub_fins. unfold vsub. rewrite !map2_cons. cbn [fins map].
  unfold m_div, m_arith, fix_nan, zero_filled. cbn [fst snd andb div XO xdiv].
  destruct (Req_EM_T (x - x) 0) as [_|N]; [|exfalso; apply N; ring].
  destruct (Req_EM_T (y2 - y1) 0) as [E|_]; [exfalso; apply H; lra|].
  destruct (Rlt_dec 0 (y2 - y1)) as [L|NL]; destruct (Rlt_dec y1 y2) as [L'|NL']; try lra; reflexivity.
Qed.
Lemma x_angle_coincident x y r1 r2 : atan 0 = 0 -> torch_angle XO x_atan (fins (x :: y :: r1)) (fins (x :: y :: r2)) = Fin 0.
Proof.
  intros atan_0. unfold torch_angle, torch_angle_with. rewrite msub_fins. unfold vsub. rewrite !map2_cons. cbn [fins map].
  unfold m_div, m_arith, fix_nan, zero_filled. cbn [fst snd andb div XO xdiv].
  destruct (Req_EM_T (x - x) 0) as [_|N]; [|exfalso; apply N; ring].
  destruct (Req_EM_T (y - y) 0) as [_|N]; [|exfalso; apply N; ring].
  unfold nan_to_zero. cbn [eqb XO xeqb zero]. apply x_atan_0. exact atan_0.
Qed.

(* ---- the pinned zero_filled (tensor.mul(mask)) violates both clauses: defect F9 -------------------- *)
Lemma pinned_distance_nan_under_mask :
  torch_distance_pinned XO [(NaN, false); (Fin 2, false)] [(Fin 1, true); (Fin 3, true)] = NaN.
Proof. reflexivity. Qed.
Lemma pinned_angle_vertical_limb_under_mask :
  torch_angle_pinned XO x_atan [(Fin 1, false); (Fin 2, false)] [(Fin 1, true); (Fin 3, true)] = NaN.
Proof.
  unfold torch_angle_pinned, torch_angle_with. rewrite !map2_cons.
  unfold m_div, m_arith, fix_nan, zero_filled_mul. cbn [fst snd andb div sub mul XO xsub xdiv].
  destruct (Req_EM_T (1 - 1) 0) as [_|N]; [|exfalso; apply N; ring].
  destruct (Req_EM_T (3 - 2) 0) as [E|_]; [lra|]. destruct (Rlt_dec 0 (3 - 2)) as [_|N]; [|lra].
  unfold nan_to_zero. cbn [eqb XO xeqb zero xmul]. unfold inf_times. destruct (Req_EM_T 0 0) as [_|N]; [reflexivity|exfalso; apply N; reflexivity].
Qed.
End WithTranscendentals.
