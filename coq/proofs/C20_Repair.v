(* C20 - the F15 repair is conservative: on every well-formed homogeneous batch on which the pinned
   shortcut (max_len == 1) returned a result, the repaired collator returns the same result. *)
From Coq Require Import List ZArith Arith Bool Lia.
Require Import Result Tensor C20_Collate C20_Spec C20_Pad C20_Rows.
Import ListNotations.

Lemma nats_eqb_eq a : forall b, nats_eqb a b = true -> a = b.
Proof.
  induction a as [|x a IH]; intros [|y b] H; cbn [nats_eqb] in H; try discriminate; [reflexivity|].
  apply andb_true_iff in H. destruct H as [Hx Ha]. apply Nat.eqb_eq in Hx. subst. f_equal. now apply IH.
Qed.

Lemma map_self {A} (f : A -> A) l : (forall x, In x l -> f x = x) -> map f l = l.
Proof. induction l as [|a l IH]; intros H; cbn [map]; [reflexivity|]. rewrite H by (left; reflexivity). f_equal. apply IH. intros x Hx. apply H. now right. Qed.

Lemma tstack0_ok_shapes {X} (ts : list (tensor X)) t0 r o : ts = t0 :: r -> tstack0 ts = Ok o -> forall t, In t ts -> shape t = shape t0.
Proof.
  intros -> H t Ht. unfold tstack0 in H.
  destruct (forallb (fun t => nats_eqb (shape t) (shape t0)) (t0 :: r)) eqn:E; [|discriminate].
  rewrite forallb_forall in E. apply nats_eqb_eq. now apply E.
Qed.

Lemma stack_ok_same_len masked tail x0 r o :
  Forall (good masked tail) (x0 :: r) -> stack masked (x0 :: r) = Ok o -> forall x, In x (x0 :: r) -> len_of x = len_of x0.
Proof.
  intros HG H x Hx. rewrite Forall_forall in HG.
  assert (Hsh : shape (tl_t x) = shape (tl_t x0)).
  { unfold stack in H. destruct masked.
    - rewrite (rmapM_ok masked_parts (fun y => (tl_dt y, (tl_t y, tl_m y)))) in H.
      + cbn [rbind] in H. rewrite !map_map in H. cbn [fst snd] in H.
        destruct (tstack0 (map (fun y => tl_t y) (x0 :: r))) as [t|e] eqn:Et; cbn [rbind] in H; [|discriminate].
        apply (tstack0_ok_shapes _ (tl_t x0) (map (fun y => tl_t y) r) t eq_refl Et). exact (in_map (fun y => tl_t y) (x0 :: r) x Hx).
      + intros y Hy. destruct (HG y Hy) as (Hk & _). destruct y; [reflexivity|discriminate Hk].
    - rewrite (rmapM_ok plain_parts (fun y => (tl_dt y, tl_t y))) in H.
      + cbn [rbind] in H. rewrite !map_map in H. cbn [fst snd] in H.
        destruct (tstack0 (map (fun y => tl_t y) (x0 :: r))) as [t|e] eqn:Et; cbn [rbind] in H; [|discriminate].
        apply (tstack0_ok_shapes _ (tl_t x0) (map (fun y => tl_t y) r) t eq_refl Et). exact (in_map (fun y => tl_t y) (x0 :: r) x Hx).
      + intros y Hy. destruct (HG y Hy) as (Hk & _). destruct y; [discriminate Hk|reflexivity]. }
  unfold len_of. now rewrite Hsh.
Qed.

Theorem repair_conservative masked tail pv batch o :
  good_batch masked tail pv batch ->
  pad_tensors_with sc_pinned batch pv = Ok o -> pad_tensors batch pv = Ok o.
Proof.
  intros G H. pose proof G as (Hne & HG & HF).
  unfold pad_tensors. rewrite (pad_tensors_master _ _ _ _ _ sc_repaired_sound G).
  unfold pad_tensors_with in H. destruct batch as [|x0 r] eqn:Eb; [congruence|]. rewrite <- Eb in *.
  assert (Hcls : is_masked x0 = masked).
  { rewrite Forall_forall in HG. apply (HG x0). rewrite Eb. left; reflexivity. }
  rewrite Hcls in H.
  rewrite (rmapM_ok tl_len len_of) in H
    by (intros x Hx; apply (good_len masked tail); rewrite Forall_forall in HG; now apply HG).
  cbn [rbind] in H. fold (Lmax batch) in H.
  destruct (sc_pinned (map len_of batch) (Lmax batch)) eqn:Esc.
  - (* the pinned shortcut was taken and stack succeeded: every length equals the maximum *)
    assert (Hall : forall x, In x batch -> len_of x = Lmax batch).
    { rewrite Eb in H, HG. pose proof (stack_ok_same_len masked tail x0 r o HG H) as Hsame. rewrite <- Eb in Hsame.
      assert (Hm : map len_of batch <> []) by (rewrite Eb; discriminate).
      apply list_max_attained in Hm. apply in_map_iff in Hm. destruct Hm as (xm & Hxm & Hin).
      intros x Hx. fold (Lmax batch) in Hxm. rewrite <- Hxm. rewrite (Hsame x Hx). symmetry. now apply Hsame. }
    rewrite <- H. rewrite <- (stack_padded masked tail pv batch Hne). f_equal.
    apply map_self. intros x Hx.
    apply padded_self; [rewrite Forall_forall in HG; now apply HG|now apply Hall].
  - rewrite (rmapM_ok (pad_one masked (Lmax batch) pv) (padded masked (Lmax batch) tail pv)) in H.
    + cbn [rbind] in H. rewrite <- H. symmetry. now apply stack_padded.
    + rewrite Forall_forall in HG, HF. intros x Hx. apply pad_one_ok; [now apply HG|now apply len_le_Lmax|now apply HF].
Qed.
