(* C15 - general lemmas: zipw, bodies as nested lists, boolean tests of R_ops, min / max of a list. *)
From Coq Require Import Reals ZArith List Bool Lia Lra.
Require Import Result Num C15_Spatial C15_Real.
Import ListNotations.
Local Open Scope R_scope.

(* ---------- R_ops ---------- *)
Ltac rops := cbn [T zero one add sub mul div opp sqrt abs leb ltb eqb of_Z R_ops] in *.

Lemma Rleb_true x y : Rleb x y = true <-> x <= y.
Proof. unfold Rleb. destruct (Rle_dec x y) as [H|H]; split; intros H1; try discriminate; try reflexivity; [exact H | contradiction]. Qed.
Lemma Rleb_false x y : Rleb x y = false <-> y < x.
Proof. unfold Rleb. destruct (Rle_dec x y) as [H|H]; split; intros H1; try discriminate; try reflexivity; lra. Qed.
Lemma Rltb_true x y : Rltb x y = true <-> x < y.
Proof. unfold Rltb. destruct (Rlt_dec x y) as [H|H]; split; intros H1; try discriminate; try reflexivity; [exact H | contradiction]. Qed.
Lemma Reqb_true x y : Reqb x y = true <-> x = y.
Proof. unfold Reqb. destruct (Req_EM_T x y) as [H|H]; split; intros H1; try discriminate; try reflexivity; [exact H | contradiction]. Qed.
Lemma Reqb_false x y : Reqb x y = false <-> x <> y.
Proof. unfold Reqb. destruct (Req_EM_T x y) as [H|H]; split; intros H1; try discriminate; try reflexivity; [contradiction | exact H]. Qed.
Lemma Reqb_refl x : Reqb x x = true.
Proof. apply Reqb_true. reflexivity. Qed.

(* ---------- zipw ---------- *)
Section Zip.
Context {A B C : Type}.
Lemma zipw_length (f : A -> B -> C) l1 l2 : length (zipw f l1 l2) = Nat.min (length l1) (length l2).
Proof. revert l2; induction l1 as [|x r IH]; intros [|y r2]; cbn [zipw length Nat.min]; try reflexivity. now rewrite IH. Qed.
Lemma zipw_nth_error (f : A -> B -> C) l1 l2 k :
  nth_error (zipw f l1 l2) k =
  match nth_error l1 k, nth_error l2 k with Some x, Some y => Some (f x y) | _, _ => None end.
Proof. revert l2 k; induction l1 as [|x r IH]; intros [|y r2] [|k]; cbn [zipw nth_error]; try reflexivity.
  - now destruct (nth_error r k).
  - apply IH. Qed.
Lemma zipw_ext_in (f g : A -> B -> C) l1 l2 :
  (forall x y, In x l1 -> In y l2 -> f x y = g x y) -> zipw f l1 l2 = zipw g l1 l2.
Proof. revert l2; induction l1 as [|x r IH]; intros [|y r2] H; cbn [zipw]; try reflexivity.
  f_equal; [apply H; now left | apply IH; intros; apply H; now right]. Qed.
End Zip.
Lemma zipw_map_same {X A B C} (f : A -> B -> C) (g : X -> A) (h : X -> B) l :
  zipw f (map g l) (map h l) = map (fun x => f (g x) (h x)) l.
Proof. induction l as [|x r IH]; cbn [zipw map]; [reflexivity | now rewrite IH]. Qed.
Lemma zipw_map_l {X A B C} (f : A -> B -> C) (g : X -> A) l1 l2 :
  zipw f (map g l1) l2 = zipw (fun x y => f (g x) y) l1 l2.
Proof. revert l2; induction l1 as [|x r IH]; intros [|y r2]; cbn [zipw map]; try reflexivity. now rewrite IH. Qed.
Lemma zipw_map_r {X A B C} (f : A -> B -> C) (g : X -> B) l1 l2 :
  zipw f l1 (map g l2) = zipw (fun x y => f x (g y)) l1 l2.
Proof. revert l2; induction l1 as [|x r IH]; intros [|y r2]; cbn [zipw map]; try reflexivity. now rewrite IH. Qed.
Lemma map_zipw {A B C E} (g : C -> E) (f : A -> B -> C) l1 l2 :
  map g (zipw f l1 l2) = zipw (fun x y => g (f x y)) l1 l2.
Proof. revert l2; induction l1 as [|x r IH]; intros [|y r2]; cbn [zipw map]; try reflexivity. now rewrite IH. Qed.
(* zipping with a list that does not matter *)
Lemma zipw_fst_only {A B C} (f : A -> C) (l1 : list A) (l2 : list B) :
  (length l1 <= length l2)%nat -> zipw (fun x _ => f x) l1 l2 = map f l1.
Proof. revert l2; induction l1 as [|x r IH]; intros [|y r2] H; cbn [zipw map length] in *; try reflexivity; [lia|].
  f_equal. apply IH. lia. Qed.

(* ---------- bodies ---------- *)
Lemma Forall2_map_r {A B} (Rp : A -> B -> Prop) (f : A -> B) l :
  (forall x, In x l -> Rp x (f x)) -> Forall2 Rp l (map f l).
Proof. induction l as [|x r IH]; intros H; cbn [map]; constructor; [apply H; now left | apply IH; intros; apply H; now right]. Qed.
Lemma all3_rel3_map3 {O : ops} (P : point O -> Prop) (Rp : point O -> point O -> Prop) (f : point O -> point O) b :
  all3 P b -> (forall p, P p -> Rp p (f p)) -> rel3 Rp b (map3 O f b).
Proof. intros Hb Hf. unfold rel3, map3.
  apply Forall2_map_r. intros fr Hfr. apply Forall2_map_r. intros pe Hpe. apply Forall2_map_r. intros p Hp.
  apply Hf. unfold all3 in Hb. rewrite Forall_forall in Hb. specialize (Hb _ Hfr).
  rewrite Forall_forall in Hb. specialize (Hb _ Hpe). rewrite Forall_forall in Hb. now apply Hb. Qed.
Lemma all3_map3 {O : ops} (P Q : point O -> Prop) (f : point O -> point O) b :
  all3 P b -> (forall p, P p -> Q (f p)) -> all3 Q (map3 O f b).
Proof. intros Hb Hf. unfold all3, map3 in *.
  rewrite Forall_forall in *. intros fr' Hin. apply in_map_iff in Hin as [fr [<- Hfr]].
  specialize (Hb _ Hfr). rewrite Forall_forall in *. intros pe' Hin. apply in_map_iff in Hin as [pe [<- Hpe]].
  specialize (Hb _ Hpe). rewrite Forall_forall in *. intros p' Hin. apply in_map_iff in Hin as [p [<- Hp]].
  apply Hf. now apply Hb. Qed.
Lemma map3_ext_all3 {O : ops} (P : point O -> Prop) (f g : point O -> point O) b :
  all3 P b -> (forall p, P p -> f p = g p) -> map3 O f b = map3 O g b.
Proof. intros Hb Hf. unfold all3, map3 in *. apply map_ext_in. intros fr Hfr.
  rewrite Forall_forall in Hb. specialize (Hb _ Hfr). apply map_ext_in. intros pe Hpe.
  rewrite Forall_forall in Hb. specialize (Hb _ Hpe). apply map_ext_in. intros p Hp.
  rewrite Forall_forall in Hb. apply Hf. now apply Hb. Qed.
Lemma map3_map3 {O : ops} (f g : point O -> point O) b : map3 O f (map3 O g b) = map3 O (fun p => f (g p)) b.
Proof. unfold map3. rewrite map_map. apply map_ext. intros fr. rewrite map_map. apply map_ext. intros pe. now rewrite map_map. Qed.
Lemma map3_id {O : ops} (b : frames O) : map3 O (fun p => p) b = b.
Proof. unfold map3. rewrite <- (map_id b) at 2. apply map_ext. intros fr. rewrite <- (map_id fr) at 2.
  apply map_ext. intros pe. apply map_id. Qed.
Lemma all_points_map3 {O : ops} (f : point O -> point O) b : all_points O (map3 O f b) = map f (all_points O b).
Proof. unfold all_points, map3. now rewrite !concat_map. Qed.
Lemma all3_all_points {O : ops} (P : point O -> Prop) b : all3 P b -> Forall P (all_points O b).
Proof. intros Hb. unfold all_points, all3 in *. rewrite Forall_forall in *. intros p Hp.
  apply in_concat in Hp as [pe [Hpe Hp]]. apply in_concat in Hpe as [fr [Hfr Hpe]].
  specialize (Hb _ Hfr). rewrite Forall_forall in Hb. specialize (Hb _ Hpe). rewrite Forall_forall in Hb. now apply Hb. Qed.
Lemma Forall2_weaken {A B} (R1 R2 : A -> B -> Prop) l l' : (forall a b, R1 a b -> R2 a b) -> Forall2 R1 l l' -> Forall2 R2 l l'.
Proof. intros H; induction 1; constructor; auto. Qed.
Lemma rel3_weaken {A B} (R1 R2 : A -> B -> Prop) b b' : (forall p q, R1 p q -> R2 p q) -> rel3 R1 b b' -> rel3 R2 b b'.
Proof. intros H Hr. unfold rel3 in *. eapply Forall2_weaken; [|exact Hr]. intros fr fr' H1.
  eapply Forall2_weaken; [|exact H1]. intros pe pe' H2. eapply Forall2_weaken; [|exact H2]. exact H. Qed.

(* zip3 *)
Lemma zipw_rel_ext {A B C} (Rp : A -> B -> Prop) (f g : A -> B -> C) l1 l2 :
  Forall2 Rp l1 l2 -> (forall x y, Rp x y -> f x y = g x y) -> zipw f l1 l2 = zipw g l1 l2.
Proof. intros H Hf. induction H as [|x y r1 r2 Hxy Hr IH]; cbn [zipw]; [reflexivity|]. f_equal; [now apply Hf | exact IH]. Qed.
Lemma zip3_rel_ext {A B C} (Rp : A -> B -> Prop) (f g : A -> B -> C) X Y :
  rel3 Rp X Y -> (forall x y, Rp x y -> f x y = g x y) -> zip3 f X Y = zip3 g X Y.
Proof. intros H Hf. unfold zip3, rel3 in *. eapply zipw_rel_ext; [exact H|]. intros fr fr' H1.
  eapply zipw_rel_ext; [exact H1|]. intros pe pe' H2. eapply zipw_rel_ext; [exact H2 | exact Hf]. Qed.
Lemma map3_zip3 {O : ops} {A B} (g : point O -> point O) (f : A -> B -> point O) X Y :
  map3 O g (zip3 f X Y) = zip3 (fun p q => g (f p q)) X Y.
Proof. unfold map3, zip3. rewrite map_zipw. apply zipw_ext_in. intros fr fr' _ _.
  rewrite map_zipw. apply zipw_ext_in. intros pe pe' _ _. apply map_zipw. Qed.
Lemma zip3_map3 {O : ops} {C} (f : point O -> point O -> C) (g h : point O -> point O) X Y :
  zip3 f (map3 O g X) (map3 O h Y) = zip3 (fun p q => f (g p) (h q)) X Y.
Proof. unfold map3, zip3. rewrite zipw_map_l, zipw_map_r. apply zipw_ext_in. intros fr fr' _ _.
  rewrite zipw_map_l, zipw_map_r. apply zipw_ext_in. intros pe pe' _ _. now rewrite zipw_map_l, zipw_map_r. Qed.
Lemma all3_rel3_l {A B} (P : A -> Prop) (Rp Rq : A -> B -> Prop) X Y :
  all3 P X -> rel3 Rp X Y -> (forall x y, P x -> Rp x y -> Rq x y) -> rel3 Rq X Y.
Proof. intros HP HR H. unfold all3, rel3 in *.
  induction HR as [|fr fr' X Y Hfr HXY IH]; constructor.
  - inversion HP as [|? ? HPfr _]; subst. clear IH HXY HP.
    induction Hfr as [|pe pe' fr fr' Hpe Hfr' IH]; constructor.
    + inversion HPfr as [|? ? HPpe _]; subst. clear IH Hfr' HPfr.
      induction Hpe as [|p q pe pe' Hpq Hpe' IH]; constructor.
      * inversion HPpe; subst. now apply H.
      * apply IH. now inversion HPpe.
    + apply IH. now inversion HPfr.
  - apply IH. now inversion HP. Qed.

(* ---------- min / max of a list of reals ---------- *)
Lemma fold_min2_spec r : forall x m, fold_left (min2 R_ops) r x = m -> (m = x \/ In m r) /\ m <= x /\ forall y, In y r -> m <= y.
Proof. induction r as [|y r IH]; intros x m Hm; cbn [fold_left] in Hm.
  - subst m. split; [now left|]. split; [lra|]. intros y [].
  - specialize (IH _ _ Hm). destruct IH as [Hin [Hle Hall]].
    unfold min2 in *. rops. destruct (Rleb x y) eqn:E.
    + apply Rleb_true in E. split; [destruct Hin as [->|Hin]; [now left | right; now right]|].
      split; [exact Hle|]. intros z [<-|Hz]; [lra | now apply Hall].
    + apply Rleb_false in E. split; [destruct Hin as [->|Hin]; right; [now left | now right]|].
      split; [lra|]. intros z [<-|Hz]; [lra | now apply Hall]. Qed.
Lemma fold_max2_spec r : forall x m, fold_left (max2 R_ops) r x = m -> (m = x \/ In m r) /\ x <= m /\ forall y, In y r -> y <= m.
Proof. induction r as [|y r IH]; intros x m Hm; cbn [fold_left] in Hm.
  - subst m. split; [now left|]. split; [lra|]. intros y [].
  - specialize (IH _ _ Hm). destruct IH as [Hin [Hle Hall]].
    unfold max2 in *. rops. destruct (Rleb x y) eqn:E.
    + apply Rleb_true in E. split; [destruct Hin as [->|Hin]; right; [now left | now right]|].
      split; [lra|]. intros z [<-|Hz]; [lra | now apply Hall].
    + apply Rleb_false in E. split; [destruct Hin as [->|Hin]; [now left | right; now right]|].
      split; [exact Hle|]. intros z [<-|Hz]; [lra | now apply Hall]. Qed.
Lemma lmin_spec l m : lmin R_ops l = Some m -> is_min m l.
Proof. destruct l as [|x r]; cbn [lmin]; [discriminate|]. intros [= Hm].
  destruct (fold_min2_spec r x m Hm) as [Hin [Hle Hall]]. split.
  - destruct Hin as [->|Hin]; [now left | now right].
  - intros y [<-|Hy]; [exact Hle | now apply Hall]. Qed.
Lemma lmax_spec l m : lmax R_ops l = Some m -> is_max m l.
Proof. destruct l as [|x r]; cbn [lmax]; [discriminate|]. intros [= Hm].
  destruct (fold_max2_spec r x m Hm) as [Hin [Hle Hall]]. split.
  - destruct Hin as [->|Hin]; [now left | now right].
  - intros y [<-|Hy]; [exact Hle | now apply Hall]. Qed.
Lemma lmin_none {O : ops} (l : list (T O)) : lmin O l = None <-> l = [].
Proof. destruct l; cbn [lmin]; split; intros H; try reflexivity; discriminate. Qed.
Lemma lmax_none {O : ops} (l : list (T O)) : lmax O l = None <-> l = [].
Proof. destruct l; cbn [lmax]; split; intros H; try reflexivity; discriminate. Qed.
Lemma is_min_unique a b l : is_min a l -> is_min b l -> a = b.
Proof. intros [Ha1 Ha2] [Hb1 Hb2]. specialize (Ha2 _ Hb1). specialize (Hb2 _ Ha1). lra. Qed.
Lemma min_max_smallest lo hi l : is_min lo l -> is_max hi l -> smallest_interval lo hi l.
Proof. intros [Hl1 Hl2] [Hh1 Hh2]. split.
  - intros x Hx. split; [now apply Hl2 | now apply Hh2].
  - intros lo' hi' H. split; [apply (H lo Hl1) | apply (H hi Hh1)]. Qed.

(* ---------- rmapM ---------- *)
Lemma rmapM_ok {A B} (f : A -> result B) l r : rmapM f l = Ok r -> Forall2 (fun x y => f x = Ok y) l r.
Proof. revert r; induction l as [|x l IH]; intros r; cbn [rmapM].
  - intros [= <-]. constructor.
  - destruct (f x) as [y|e] eqn:E; cbn [rbind]; [|discriminate].
    destruct (rmapM f l) as [ys|e] eqn:E2; cbn [rbind]; [|discriminate]. intros [= <-]. constructor; [exact E | now apply IH]. Qed.
Lemma Forall2_nth_error_l {A B} (Rp : A -> B -> Prop) l r k x :
  Forall2 Rp l r -> nth_error l k = Some x -> exists y, nth_error r k = Some y /\ Rp x y.
Proof. intros H; revert k; induction H as [|a b l r Hab Hlr IH]; intros [|k]; cbn [nth_error]; try discriminate.
  - intros [= <-]. eauto.
  - apply IH. Qed.
Lemma Forall2_length' {A B} (Rp : A -> B -> Prop) l r : Forall2 Rp l r -> length l = length r.
Proof. induction 1; cbn [length]; [reflexivity | now f_equal]. Qed.
Lemma nth_error_seq s n k : (k < n)%nat -> nth_error (seq s n) k = Some (s + k)%nat.
Proof. revert s k; induction n as [|n IH]; intros s [|k] H; cbn [seq nth_error]; try lia.
  - f_equal. lia.
  - rewrite IH by lia. f_equal. lia. Qed.
