(* Pose.read on the bytes and on a stream (repaired reader) reach the body decoder with the same header and in
   corresponding reader states, whatever the memo holds; consequently a successful bytes read transfers to the
   stream for the two classes of body programs of C04_Stream. *)
From Coq Require Import ZArith NArith List Lia ZifyBool ZifyN ZifyNat Bool.
Require Import ListN Result Bytes Prog Codec ProgLemmas PoseRead PoseReadLemmas StreamLemmas StreamRead C04_Legacy C04_Stream.
Import ListNotations.
Open Scope N_scope.

(* state of the stream reader when the body decoder starts: nothing skipped yet, the buffer is a prefix of the
   file that covers the header *)
Definition Hand (q : bytes) (o : N) (sr : sreader) : Prop :=
  skipped sr = 0 /\ buf sr = takeN (lenN (buf sr)) q /\ off sr = o /\ o <= lenN (buf sr).

Lemma hand_sim q o sr : Hand q o sr -> Sim q [] {| pbuf := q; poff := o |} sr.
Proof.
  intros [Hs [Hb [Ho Hl]]]. unfold Sim; cbn [pbuf poff]. split; [now rewrite app_nil_r|]. split; [now symmetry|].
  unfold Inv. rewrite Hs. split; [lia|]. exists 0. split; [lia|]. split; [lia|].
  rewrite !dropN_0, N.sub_0_r. exact Hb.
Qed.
Lemma hand_sim0 q o sr : Hand q o sr -> Sim0 q {| pbuf := q; poff := o |} sr.
Proof. intros [Hs [Hb [Ho Hl]]]. unfold Sim0; cbn [pbuf poff]. auto. Qed.

Section WithLegacy.
Variable legacy : vclass -> header -> rargs -> prog body.

Definition mkpose (h : header) (br : body * preader) : pose := {| p_header := h; p_body := fst br |}.
Definition mkpose_s (h : header) (br : body * sreader) : pose := {| p_header := h; p_body := fst br |}.

Lemma bytes_header m q a h o : MemoOK m ->
  run_plain rd_header {| pbuf := q; poff := 0 |} = Ok (h, {| pbuf := q; poff := o |}) ->
  fst (read_bytes legacy m q a) = rmap (mkpose h) (run_plain (read_body legacy h a) {| pbuf := q; poff := o |}).
Proof.
  intros Hm Hh. unfold read_bytes. destruct (check_cache m q) as [c|] eqn:Hc.
  - destruct (check_cache_hit m q c Hm Hc) as [_ Hrun]. rewrite Hh in Hrun. injection Hrun as <- <-. reflexivity.
  - rewrite Hh. reflexivity.
Qed.

Lemma header_nonempty q h r : run_plain rd_header {| pbuf := q; poff := 0 |} = Ok (h, r) -> q <> [].
Proof. intros H ->. cbn in H. discriminate. Qed.

Lemma stream4_header m q a h o : MemoOK m -> any_arg a = true ->
  run_plain rd_header {| pbuf := q; poff := 0 |} = Ok (h, {| pbuf := q; poff := o |}) ->
  exists sr, Hand q o sr /\
    fst (fst (read_stream4 legacy m q a)) = rmap (mkpose_s h) (run_stream4 q (read_body legacy h a) sr).
Proof.
  intros Hm Ha Hh. unfold read_stream4. rewrite Ha. cbn [negb].
  assert (Hpos : 0 < prefetch_len m) by (unfold prefetch_len; destruct m as [c|]; [destruct (m_end c =? 0)|]; lia).
  destruct (expect q (prefetch_len m) _) as [r1|e] eqn:Hex.
  2:{ exfalso. apply (header_nonempty _ _ _ Hh).
      unfold expect, bytes_left in Hex. cbn [buf off skipped] in Hex.
      destruct (Z.ltb_spec (Z.of_N (lenN (@nil N)) - Z.of_N 0 + Z.of_N 0) (Z.of_N (prefetch_len m))); [|discriminate].
      unfold read_chunk in Hex. cbn [buf skipped app] in Hex.
      destruct (takeN _ (dropN (0 + lenN (@nil N)) q)) as [|x l] eqn:E; [|discriminate].
      replace (0 + lenN (@nil N)) with 0 in E by reflexivity. rewrite dropN_0 in E.
      destruct q as [|y q']; [reflexivity|]. apply (f_equal lenN) in E. rewrite lenN_takeN in E.
      unfold lenN in E. cbn [length] in E. lia. }
  destruct (prefetch_sim q [] m r1 Hex) as [HS [Hp [Hc0 Hbuf]]]. rewrite app_nil_r in HS.
  assert (Hsk1 : skipped r1 = 0).
  { destruct HS as [_ [Ho [Hso _]]]. cbn [poff] in Ho. lia. }
  rewrite Hbuf, (check_cache_prefetch m q Hm).
  destruct (check_cache m q) as [c|] eqn:Hc.
  - (* hit *)
    destruct (check_cache_hit m q c Hm Hc) as [-> Hhd]. rewrite Hh in Hhd. injection Hhd as -> ->.
    exists {| buf := takeN (prefetch_len (Some c)) q; off := m_end c; skipped := skipped r1; pulled := pulled r1 |}. split.
    2:{ destruct (run_stream4 q (read_body legacy (m_header c) a) _) as [[b r3]|e]; reflexivity. }
    unfold Hand; cbn [buf off skipped]. split; [exact Hsk1|]. split; [apply pre_takeN|]. split; [reflexivity|].
    destruct Hm as [Hst [Hl _]]. unfold check_cache in Hc.
    destruct (bytes_eqb (m_slice c) (py_slice (m_start c) (m_end c) q)) eqn:E; [|discriminate].
    apply bytes_eqb_eq in E. unfold py_slice in E. rewrite Hst, dropN_0, N.sub_0_r in E.
    apply (f_equal lenN) in E. rewrite Hl, lenN_takeN in E.
    rewrite lenN_takeN. unfold prefetch_len. destruct (m_end c =? 0) eqn:E0; lia.
  - (* miss *)
    rewrite (run_stream4_noBL q rd_header noBL_rd_header).
    pose proof (sim_fwd q [] _ v2prog_rd_header _ _ _ _ HS Hh) as Hsim1.
    destruct (run_stream q rd_header r1) as [[h' r2]|e] eqn:Hrs; [|now contradiction Hsim1].
    destruct Hsim1 as [<- [HS2 _]].
    exists r2. split.
    2:{ destruct (run_stream4 q (read_body legacy h a) r2) as [[b r3]|e]; reflexivity. }
    assert (HP1 : Pre q r1) by (split; [exact Hsk1|rewrite Hbuf; apply pre_takeN]).
    destruct (pre_run q _ noSkip_rd_header _ _ _ HP1 Hrs) as [Hsk2 Hpre].
    destruct HS2 as [_ [Ho2 [_ [j [_ [Hi _]]]]]]. cbn [poff] in Ho2.
    unfold Hand. split; [exact Hsk2|]. split; [exact Hpre|]. split; [now symmetry|lia].
Qed.

(* transfer of a successful bytes read to the stream *)
Theorem stream4_of_bytes_noAdv m q a h o pose : MemoOK m -> any_arg a = true ->
  run_plain rd_header {| pbuf := q; poff := 0 |} = Ok (h, {| pbuf := q; poff := o |}) ->
  noAdv (read_body legacy h a) ->
  fst (read_bytes legacy m q a) = Ok pose -> fst (fst (read_stream4 legacy m q a)) = Ok pose.
Proof.
  intros Hm Ha Hh Hv Hok. rewrite (bytes_header m q a h o Hm Hh) in Hok.
  destruct (run_plain (read_body legacy h a) _) as [[b pr']|e] eqn:Hb; [|discriminate].
  destruct (stream4_header m q a h o Hm Ha Hh) as [sr [HH ->]].
  destruct (sim4_fwd q _ Hv _ _ _ _ (hand_sim q o sr HH) Hb) as [sr' [Hrun _]]. rewrite Hrun. exact Hok.
Qed.
Theorem stream4_of_bytes_v0 m q a h o pose : MemoOK m -> any_arg a = true ->
  run_plain rd_header {| pbuf := q; poff := 0 |} = Ok (h, {| pbuf := q; poff := o |}) ->
  v0prog (read_body legacy h a) ->
  fst (read_bytes legacy m q a) = Ok pose -> fst (fst (read_stream4 legacy m q a)) = Ok pose.
Proof.
  intros Hm Ha Hh Hv Hok. rewrite (bytes_header m q a h o Hm Hh) in Hok.
  destruct (run_plain (read_body legacy h a) _) as [[b pr']|e] eqn:Hb; [|discriminate].
  destruct (stream4_header m q a h o Hm Ha Hh) as [sr [HH ->]].
  rewrite (run_stream4_noBL q _ (v0prog_noBL _ Hv)).
  destruct (sim0_fwd q _ Hv _ _ _ _ (hand_sim0 q o sr HH) Hb) as [sr' [Hrun _]]. rewrite Hrun. exact Hok.
Qed.
(* a decoder that raises by itself raises the same error on the bytes and on the stream *)
Theorem bytes_fail m q a h o e : MemoOK m ->
  run_plain rd_header {| pbuf := q; poff := 0 |} = Ok (h, {| pbuf := q; poff := o |}) ->
  fails_at (read_body legacy h a) {| pbuf := q; poff := o |} e ->
  fst (read_bytes legacy m q a) = Err e.
Proof. intros Hm Hh Hf. rewrite (bytes_header m q a h o Hm Hh), (fails_at_run _ _ _ Hf). reflexivity. Qed.
Theorem stream4_fail_noAdv m q a h o e : MemoOK m -> any_arg a = true ->
  run_plain rd_header {| pbuf := q; poff := 0 |} = Ok (h, {| pbuf := q; poff := o |}) ->
  noAdv (read_body legacy h a) ->
  fails_at (read_body legacy h a) {| pbuf := q; poff := o |} e ->
  fst (fst (read_stream4 legacy m q a)) = Err e.
Proof.
  intros Hm Ha Hh Hv Hf. destruct (stream4_header m q a h o Hm Ha Hh) as [sr [HH ->]].
  rewrite (sim4_fail q _ Hv _ _ _ (hand_sim q o sr HH) Hf). reflexivity.
Qed.
Theorem stream4_fail_v0 m q a h o e : MemoOK m -> any_arg a = true ->
  run_plain rd_header {| pbuf := q; poff := 0 |} = Ok (h, {| pbuf := q; poff := o |}) ->
  v0prog (read_body legacy h a) ->
  fails_at (read_body legacy h a) {| pbuf := q; poff := o |} e ->
  fst (fst (read_stream4 legacy m q a)) = Err e.
Proof.
  intros Hm Ha Hh Hv Hf. destruct (stream4_header m q a h o Hm Ha Hh) as [sr [HH ->]].
  rewrite (run_stream4_noBL q _ (v0prog_noBL _ Hv)).
  rewrite (sim0_fail q _ Hv _ _ _ (hand_sim0 q o sr HH) Hf). reflexivity.
Qed.
(* without window arguments the stream is read whole and decoded as bytes *)
Theorem read_stream4_noargs m file a : any_arg a = false ->
  fst (read_stream4 legacy m file a) = read_bytes legacy m file a.
Proof. intros Ha. unfold read_stream4. rewrite Ha. cbn [negb]. destruct (read_bytes legacy m file a); reflexivity. Qed.
End WithLegacy.
