(* C20 - the clauses of the property about one field, derived from the master lemma. *)
From Coq Require Import List ZArith Arith Bool Lia.
Require Import Result Tensor C20_Collate C20_Spec C20_Pad.
Import ListNotations.

(* ---- list facts *)
Lemma nth_concat_uniform {X} (d : X) W (rows : list (list X)) :
  Forall (fun r => length r = W) rows ->
  forall i k, i < length rows -> k < W -> nth (i * W + k) (concat rows) d = nth k (nth i rows []) d.
Proof.
  induction 1 as [|r rows Hr _ IH]; intros i k Hi Hk; cbn [length] in Hi; [lia|].
  cbn [concat]. destruct i as [|i].
  - cbn [Nat.mul Nat.add nth]. apply app_nth1. lia.
  - rewrite app_nth2 by (rewrite Hr; cbn [Nat.mul]; lia).
    replace (S i * W + k - length r) with (i * W + k) by (rewrite Hr; cbn [Nat.mul]; lia).
    cbn [nth]. apply IH; lia.
Qed.
Lemma length_concat_uniform {X} W (rows : list (list X)) :
  Forall (fun r => length r = W) rows -> length (concat rows) = length rows * W.
Proof. induction 1 as [|r rows Hr _ IH]; cbn [concat length Nat.mul]; [reflexivity|]. rewrite app_length, Hr, IH. reflexivity. Qed.
Lemma nth_repeat_lt {X} (a d : X) m k : k < m -> nth k (repeat a m) d = a.
Proof. revert k; induction m as [|m IH]; intros k Hk; [lia|]. destruct k; cbn [repeat nth]; [reflexivity|]. apply IH; lia. Qed.
Lemma list_max_attained l : l <> [] -> In (list_max l) l.
Proof.
  induction l as [|a l IH]; intros Hne; [congruence|]. cbn [list_max fold_right]. fold (list_max l).
  destruct l as [|b l'].
  - cbn [list_max fold_right]. rewrite Nat.max_0_r. left; reflexivity.
  - destruct (Nat.max_spec a (list_max (b :: l'))) as [[_ ->]|[_ ->]]; [right; apply IH; congruence|left; reflexivity].
Qed.

(* ---- cells of a [examples; longest; trailing...] tensor made of uniform rows *)
Lemma tget_batch {X} (d : X) B L tail (rows : list (list X)) i j ix :
  Forall (fun r => length r = L * prod tail) rows -> i < length rows -> j < L -> in_range tail ix ->
  tget d (mkT (B :: L :: tail) (concat rows)) (i :: j :: ix) = nth (j * prod tail + ravel tail ix) (nth i rows []) d.
Proof.
  intros HF Hi Hj Hix. unfold tget. cbn [shape data ravel prod fold_right]. fold (prod tail).
  pose proof (ravel_lt tail ix Hix) as Hr.
  apply nth_concat_uniform; [exact HF|exact Hi|]. nia.
Qed.

Lemma row_length {X} L P n (cells : list X) fill : length cells = n * P -> n <= L -> length (row_of L P n cells fill) = L * P.
Proof. intros Hc Hle. unfold row_of. rewrite app_length, repeat_length, Hc. nia. Qed.
Lemma row_prefix {X} (d : X) L P n (cells : list X) fill j r :
  length cells = n * P -> j < n -> r < P -> nth (j * P + r) (row_of L P n cells fill) d = nth (j * P + r) cells d.
Proof. intros Hc Hj Hr. unfold row_of. apply app_nth1. nia. Qed.
Lemma row_suffix {X} (d : X) L P n (cells : list X) fill j r :
  length cells = n * P -> n <= j -> j < L -> r < P -> nth (j * P + r) (row_of L P n cells fill) d = fill.
Proof. intros Hc Hnj HjL Hr. unfold row_of. rewrite app_nth2 by nia. apply nth_repeat_lt. nia. Qed.

Lemma good_cells masked tail x : good masked tail x -> length (data (tl_t x)) = len_of x * prod tail.
Proof. intros (_ & Hs & Hw & _). unfold wf in Hw. now rewrite Hw, Hs. Qed.
Lemma good_mcells tail x : good true tail x -> length (data (tl_m x)) = len_of x * prod tail.
Proof. intros (_ & Hs & _ & Hm). destruct (Hm eq_refl) as [Hsm Hw]. unfold wf in Hw. now rewrite Hw, Hsm, Hs. Qed.

(* ---- the output is what pad_tensors returns *)
Lemma pad_tensors_spec masked tail pv batch o :
  good_batch masked tail pv batch -> pad_tensors batch pv = Ok o -> o = spec_out masked tail pv batch.
Proof.
  intros G H. unfold pad_tensors in H. rewrite (pad_tensors_master masked tail pv batch sc_repaired sc_repaired_sound G) in H.
  now inversion H.
Qed.

Theorem collate_total masked tail pv batch :
  good_batch masked tail pv batch -> exists o, pad_tensors batch pv = Ok o /\ out_masked o = masked.
Proof.
  intros G. exists (spec_out masked tail pv batch). split.
  - exact (pad_tensors_master masked tail pv batch sc_repaired sc_repaired_sound G).
  - unfold spec_out. now destruct masked.
Qed.

Lemma rows_uniform_t masked tail pv batch :
  good_batch masked tail pv batch ->
  Forall (fun r => length r = Lmax batch * prod tail)
    (map (fun x => row_of (Lmax batch) (prod tail) (len_of x) (data (tl_t x)) (pad_val (tl_dt x) pv)) batch).
Proof.
  intros (_ & HG & _). rewrite Forall_forall in HG. apply Forall_forall. intros r Hr.
  apply in_map_iff in Hr. destruct Hr as (x & <- & Hx).
  apply row_length; [now apply (good_cells masked tail), HG|now apply len_le_Lmax].
Qed.
Lemma rows_uniform_m tail pv batch :
  good_batch true tail pv batch ->
  Forall (fun r => length r = Lmax batch * prod tail)
    (map (fun x => row_of (Lmax batch) (prod tail) (len_of x) (data (tl_m x)) false) batch).
Proof.
  intros (_ & HG & _). rewrite Forall_forall in HG. apply Forall_forall. intros r Hr.
  apply in_map_iff in Hr. destruct Hr as (x & <- & Hx).
  apply row_length; [now apply good_mcells, HG|now apply len_le_Lmax].
Qed.

Theorem batch_axes masked tail pv batch o :
  good_batch masked tail pv batch -> pad_tensors batch pv = Ok o ->
  shape (out_t o) = length batch :: Lmax batch :: tail /\ wf (out_t o) /\
  (masked = true -> shape (out_m o) = length batch :: Lmax batch :: tail /\ wf (out_m o)) /\
  (forall x, In x batch -> len_of x <= Lmax batch) /\ (exists x, In x batch /\ len_of x = Lmax batch).
Proof.
  intros G H. rewrite (pad_tensors_spec _ _ _ _ _ G H). clear H o.
  pose proof (rows_uniform_t _ _ _ _ G) as Ht.
  assert (Hwf : forall X (rows : list (list X)), Forall (fun r => length r = Lmax batch * prod tail) rows -> length rows = length batch ->
            wf (mkT (length batch :: Lmax batch :: tail) (concat rows))).
  { intros X rows HF Hl. unfold wf. cbn [data shape prod fold_right]. fold (prod tail).
    rewrite (length_concat_uniform _ _ HF), Hl. lia. }
  split; [|split; [|split; [|split]]].
  - unfold spec_out. now destruct masked.
  - unfold spec_out. destruct masked; cbn [out_t]; apply Hwf; try exact Ht; now rewrite map_length.
  - intros ->. split; [reflexivity|].
    cbn [spec_out out_m]. apply Hwf; [now apply (rows_uniform_m tail pv)|now rewrite map_length].
  - intros x Hx. now apply len_le_Lmax.
  - destruct G as (Hne & _). assert (Hm : map len_of batch <> []) by (destruct batch; cbn; congruence).
    apply list_max_attained in Hm. apply in_map_iff in Hm. destruct Hm as (x & Hx & Hin). exists x. split; [exact Hin|exact Hx].
Qed.

Theorem collate_row_layout masked tail pv batch o :
  good_batch masked tail pv batch -> pad_tensors batch pv = Ok o ->
  data (out_t o) = concat (map (fun x => data (tl_t x) ++ repeat (pad_val (tl_dt x) pv) ((Lmax batch - len_of x) * prod tail)) batch) /\
  (masked = true ->
   data (out_m o) = concat (map (fun x => data (tl_m x) ++ repeat false ((Lmax batch - len_of x) * prod tail)) batch)).
Proof.
  intros G H. rewrite (pad_tensors_spec _ _ _ _ _ G H). split.
  - unfold spec_out. now destruct masked.
  - intros ->. reflexivity.
Qed.

Lemma nth_row {X} (f : tl -> list X) batch i x : nth_error batch i = Some x -> nth i (map f batch) [] = f x.
Proof. intros H. apply nth_error_nth. now apply map_nth_error. Qed.
Lemma nth_error_lt {X} (l : list X) i x : nth_error l i = Some x -> i < length l.
Proof. intros H. apply nth_error_Some. congruence. Qed.

Theorem collate_rows masked tail pv batch o :
  good_batch masked tail pv batch -> pad_tensors batch pv = Ok o ->
  forall i x j ix (dz dz' : Z) (db db' : bool),
    nth_error batch i = Some x -> j < len_of x -> in_range tail ix ->
    tget dz (out_t o) (i :: j :: ix) = tget dz' (tl_t x) (j :: ix) /\
    (masked = true -> tget db (out_m o) (i :: j :: ix) = tget db' (tl_m x) (j :: ix)).
Proof.
  intros G H i x j ix dz dz' db db' Hi Hj Hix. rewrite (pad_tensors_spec _ _ _ _ _ G H). clear H o.
  pose proof G as (_ & HG & _). rewrite Forall_forall in HG.
  assert (Hx : In x batch) by (eapply nth_error_In; exact Hi).
  pose proof (HG x Hx) as Gx. pose proof Gx as (_ & Hs & _ & Hm).
  pose proof (len_le_Lmax x batch Hx) as HL. pose proof (ravel_lt tail ix Hix) as Hr.
  pose proof (nth_error_lt _ _ _ Hi) as Hlt.
  split.
  - replace (out_t (spec_out masked tail pv batch)) with
      (mkT (length batch :: Lmax batch :: tail)
         (concat (map (fun x => row_of (Lmax batch) (prod tail) (len_of x) (data (tl_t x)) (pad_val (tl_dt x) pv)) batch)))
      by (unfold spec_out; now destruct masked).
    rewrite tget_batch; [|now apply (rows_uniform_t masked)|now rewrite map_length|lia|exact Hix].
    rewrite (nth_row _ _ _ _ Hi). rewrite row_prefix; [|now apply (good_cells masked tail)|exact Hj|exact Hr].
    unfold tget. rewrite Hs. cbn [ravel]. apply nth_indep. rewrite (good_cells masked tail x Gx). nia.
  - intros ->. cbn [spec_out out_m].
    rewrite tget_batch; [|now apply (rows_uniform_m tail pv)|now rewrite map_length|lia|exact Hix].
    rewrite (nth_row _ _ _ _ Hi). rewrite row_prefix; [|now apply good_mcells|exact Hj|exact Hr].
    destruct (Hm eq_refl) as [Hsm _]. unfold tget. rewrite Hsm, Hs. cbn [ravel]. apply nth_indep.
    rewrite (good_mcells tail x Gx). nia.
Qed.

Theorem padding_invalid_and_pad_value masked tail pv batch o :
  good_batch masked tail pv batch -> pad_tensors batch pv = Ok o ->
  forall i x j ix (dz : Z) (db : bool),
    nth_error batch i = Some x -> len_of x <= j -> j < Lmax batch -> in_range tail ix ->
    tget dz (out_t o) (i :: j :: ix) = pad_val (tl_dt x) pv /\
    (masked = true -> tget db (out_m o) (i :: j :: ix) = false).
Proof.
  intros G H i x j ix dz db Hi Hnj HjL Hix. rewrite (pad_tensors_spec _ _ _ _ _ G H). clear H o.
  pose proof G as (_ & HG & _). rewrite Forall_forall in HG.
  assert (Hx : In x batch) by (eapply nth_error_In; exact Hi).
  pose proof (HG x Hx) as Gx. pose proof (ravel_lt tail ix Hix) as Hr.
  split.
  - replace (out_t (spec_out masked tail pv batch)) with
      (mkT (length batch :: Lmax batch :: tail)
         (concat (map (fun x => row_of (Lmax batch) (prod tail) (len_of x) (data (tl_t x)) (pad_val (tl_dt x) pv)) batch)))
      by (unfold spec_out; now destruct masked).
    rewrite tget_batch; [|now apply (rows_uniform_t masked)|rewrite map_length; now apply (nth_error_lt _ _ x)|exact HjL|exact Hix].
    rewrite (nth_row _ _ _ _ Hi). apply row_suffix; [now apply (good_cells masked tail)|exact Hnj|exact HjL|exact Hr].
  - intros ->. cbn [spec_out out_m].
    rewrite tget_batch; [|now apply (rows_uniform_m tail pv)|rewrite map_length; now apply (nth_error_lt _ _ x)|exact HjL|exact Hix].
    rewrite (nth_row _ _ _ _ Hi). apply row_suffix; [now apply good_mcells|exact Hnj|exact HjL|exact Hr].
Qed.

(* pad value 0 (what zero_pad_collator always uses) fits every dtype and stays 0 *)
Lemma pad_zero dt : pad_fits dt 0 = true /\ pad_val dt 0 = 0%Z.
Proof. destruct dt; split; reflexivity. Qed.

(* dtype of the result *)
Lemma fold_dt_const d l : Forall (fun e => e = d) l -> fold_left dt_max l d = d.
Proof. induction 1 as [|b l Hb _ IH]; cbn [fold_left]; [reflexivity|]. subst b. now rewrite dt_max_idem. Qed.
Lemma dts_const d l : l <> [] -> Forall (fun e => e = d) l -> dts l = d.
Proof.
  intros Hne HF. destruct l as [|a l]; [congruence|]. inversion HF as [|a' l' Ha Hl]; subst.
  unfold dts. cbn [fold_left]. replace (dt_max DBool d) with d by (now destruct d).
  now apply fold_dt_const.
Qed.
Theorem result_dtype masked tail pv batch o d :
  good_batch masked tail pv batch -> pad_tensors batch pv = Ok o ->
  out_dt o = dts (map tl_dt batch) /\ (Forall (fun x => tl_dt x = d) batch -> out_dt o = d).
Proof.
  intros G H. rewrite (pad_tensors_spec _ _ _ _ _ G H).
  assert (E : out_dt (spec_out masked tail pv batch) = dts (map tl_dt batch)) by (unfold spec_out; now destruct masked).
  split; [exact E|]. intros HF. rewrite E. apply dts_const.
  - destruct G as (Hne & _). destruct batch; cbn; congruence.
  - rewrite Forall_forall in *. intros e He. apply in_map_iff in He. destruct He as (x & <- & Hx). now apply HF.
Qed.

(* the repaired shortcut is only an optimisation, and the pinned one (F15) is not *)
Theorem shortcut_is_only_an_optimisation masked tail pv batch :
  good_batch masked tail pv batch -> pad_tensors_with sc_repaired batch pv = pad_tensors_with sc_none batch pv.
Proof.
  intros G. rewrite (pad_tensors_master _ _ _ _ _ sc_repaired_sound G). now rewrite (pad_tensors_master _ _ _ _ _ sc_none_sound G).
Qed.
