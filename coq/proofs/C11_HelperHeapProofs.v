(* C11 - the helpers and remove_components at the object level. *)
From Coq Require Import List Arith Bool NArith ZArith Lia.
Require Import Result Tensor C11_Str C11_Select C11_Helpers C11_Heap C11_ListLemmas C11_TensorLemmas C11_SelectProofs
  C11_HeapProofs C11_HelperProofs.
Import ListNotations.
Open Scope list_scope.

Lemma deref_inv h p v : deref h p = Ok v ->
  read_comps h (p_comps p) = Ok (v_comps v) /\ read_body h (p_body p) = Ok (v_body v) /\
  v_version v = p_version p /\ v_dims v = p_dims p /\ v_bbox v = p_bbox p.
Proof. unfold deref. destruct (read_comps h (p_comps p)) as [cs|]; cbn [rbind]; [|discriminate].
  destruct (read_body h (p_body p)) as [b|]; cbn [rbind]; [|discriminate]. intros [= <-]. cbn. auto. Qed.

Lemma read_comps_preserved h h' : (forall a o, nth_error h a = Some o -> nth_error h' a = Some o) ->
  forall addrs cs, read_comps h addrs = Ok cs -> read_comps h' addrs = Ok cs.
Proof. intros Hpre. unfold read_comps. induction addrs as [|a r IH]; intros cs; cbn [rmapM]; [auto|].
  destruct (read_comp h a) as [c|] eqn:Ea; cbn [rbind]; [|discriminate].
  destruct (rmapM (read_comp h) r) as [l|]; cbn [rbind]; [|discriminate]. intros [= <-].
  assert (Ea' : read_comp h' a = Ok c).
  { unfold read_comp in *. destruct (nth_error h a) as [o|] eqn:En; [|discriminate]. now rewrite (Hpre _ _ En). }
  rewrite Ea'. cbn [rbind]. rewrite (IH l eq_refl). reflexivity. Qed.
Lemma deref_preserved h h' p v : (forall a o, nth_error h a = Some o -> nth_error h' a = Some o) ->
  deref h p = Ok v -> deref h' p = Ok v.
Proof. intros Hpre. unfold deref. destruct (read_comps h (p_comps p)) as [cs|] eqn:Ec; cbn [rbind]; [|discriminate].
  destruct (read_body h (p_body p)) as [b|] eqn:Eb; cbn [rbind]; [|discriminate]. intros [= <-].
  rewrite (read_comps_preserved _ _ Hpre _ _ Ec). cbn [rbind].
  assert (Eb' : read_body h' (p_body p) = Ok b).
  { unfold read_body in *. destruct (nth_error h (p_body p)) as [o|] eqn:En; [|discriminate]. now rewrite (Hpre _ _ En). }
  rewrite Eb'. reflexivity. Qed.

(* ---------------------------------------------------------------- remove_components *)
Theorem remove_components_h_refines tfe h p v R pts : deref h p = Ok v ->
  match remove_components_v tfe (v_comps v) (v_body v) R pts, remove_components_h tfe h p R pts with
  | Ok (cs', b'), Ok (h', p') =>
      (exists ext, h' = h ++ ext) /\ deref h' p' = Ok (mkV (v_version v) (v_dims v) false cs' b')
  | Err e, Err e' => e = e'
  | _, _ => False
  end.
Proof. intros Hd. destruct (deref_inv _ _ _ Hd) as [Hc _]. unfold remove_components_h, remove_components_v. rewrite Hc. cbn [rbind].
  destruct (remove_request (v_comps v) R pts) as [names pd]. apply get_components_h_refines. exact Hd. Qed.

(* ---------------------------------------------------------------- writes *)
Lemma nth_error_firstn' {A} : forall (l : list A) n i, i < n -> nth_error (firstn n l) i = nth_error l i.
Proof. induction l as [|x l IH]; intros n i Hi; [now rewrite firstn_nil|]. destruct n as [|n]; [lia|]. cbn [firstn].
  destruct i as [|i]; cbn [nth_error]; [reflexivity|]. apply IH. lia. Qed.
Lemma nth_error_skipn' {A} : forall (l : list A) n i, nth_error (skipn n l) i = nth_error l (n + i).
Proof. induction l as [|x l IH]; intros n i; [rewrite skipn_nil; destruct i, n; reflexivity|]. destruct n as [|n]; [reflexivity|].
  cbn [skipn Nat.add nth_error]. apply IH. Qed.
Lemma write_length (h : heap) a o : a < length h -> length (write h a o) = length h.
Proof. intros Ha. unfold write. rewrite app_length, firstn_length. cbn [length]. rewrite skipn_length. lia. Qed.
Lemma nth_error_write_same (h : heap) a o : a < length h -> nth_error (write h a o) a = Some o.
Proof. intros Ha. unfold write. rewrite nth_error_app2 by (rewrite firstn_length; lia). rewrite firstn_length.
  replace (a - Nat.min a (length h)) with 0 by lia. reflexivity. Qed.
Lemma nth_error_write_other (h : heap) a o a' : a < length h -> a' <> a -> nth_error (write h a o) a' = nth_error h a'.
Proof. intros Ha Hne. unfold write. destruct (Nat.lt_ge_cases a' a) as [Hlt|Hge].
  - rewrite nth_error_app1 by (rewrite firstn_length; lia). now apply nth_error_firstn'.
  - rewrite nth_error_app2 by (rewrite firstn_length; lia). rewrite firstn_length.
    replace (a' - Nat.min a (length h)) with (S (a' - S a)) by lia. cbn [nth_error]. rewrite nth_error_skipn'. f_equal. lia. Qed.
Lemma read_comps_write h addrs cs a o : read_comps h addrs = Ok cs -> a < length h ->
  (forall c, nth_error h a <> Some (OComp c)) -> read_comps (write h a o) addrs = Ok cs.
Proof. unfold read_comps. revert cs. induction addrs as [|x r IH]; intros cs; cbn [rmapM]; [auto|]. intros H Ha Hb.
  destruct (read_comp h x) as [c|] eqn:Ex; cbn [rbind] in H; [|discriminate].
  destruct (rmapM (read_comp h) r) as [l|]; cbn [rbind] in H; [|discriminate]. injection H as <-.
  assert (Hx : x <> a). { intros ->. unfold read_comp in Ex. destruct (nth_error h a) as [[c0|b0]|] eqn:E; try discriminate. eapply Hb. reflexivity. }
  unfold read_comp at 1. rewrite (nth_error_write_other _ _ _ _ Ha Hx). fold (read_comp h x). rewrite Ex. cbn [rbind].
  rewrite (IH l eq_refl Ha Hb). reflexivity. Qed.

(* ---------------------------------------------------------------- pose_hide_legs *)
Theorem hide_legs_remove_h T tfe h p r v : hide_legs_h T tfe h p true = Ok r -> deref h p = Ok v ->
  exists f tbl, detect T (map c_name (v_comps v)) = Ok f /\ hide_table T f = Ok tbl /\
    remove_components_h tfe h p [] (Some tbl) = Ok r.
Proof. intros H Hd. destruct (deref_inv _ _ _ Hd) as [Hc _]. unfold hide_legs_h in H. rewrite Hc in H. cbn [rbind] in H.
  destruct (detect T (map c_name (v_comps v))) as [f|] eqn:Ef; cbn [rbind] in H; [|discriminate].
  destruct (hide_table T f) as [tbl|] eqn:Et; cbn [rbind] in H; [|discriminate]. exists f, tbl.
  change (remove_components_h tfe h p [] (Some tbl) = Ok r) in H. split; [reflexivity|]. split; [exact Et|]. exact H. Qed.

Theorem hide_legs_inplace_h T tfe h p h' p' v F P N D :
  hide_legs_h T tfe h p false = Ok (h', p') -> deref h p = Ok v -> body_shape (v_body v) F P N D ->
  p' = p /\ exists f tbl b', detect T (map c_name (v_comps v)) = Ok f /\ hide_table T f = Ok tbl /\
    deref h' p = Ok (mkV (v_version v) (v_dims v) (v_bbox v) (v_comps v) b') /\
    hidden_columns (hide_indices (v_comps v) tbl) (v_body v) b' F P N D /\
    length h' = length h /\ forall a, a <> p_body p -> nth_error h' a = nth_error h a.
Proof. intros H Hd Hb. destruct (deref_inv _ _ _ Hd) as [Hc [Hbd [E1 [E2 E3]]]]. unfold hide_legs_h in H. rewrite Hc in H. cbn [rbind] in H.
  destruct (detect T (map c_name (v_comps v))) as [f|] eqn:Ef; cbn [rbind] in H; [|discriminate].
  destruct (hide_table T f) as [tbl|] eqn:Et; cbn [rbind] in H; [|discriminate]. rewrite Hbd in H. cbn [rbind] in H.
  destruct (hide_body (hide_indices (v_comps v) tbl) (v_body v)) as [b'|] eqn:Eh; cbn [rbind] in H; [|discriminate].
  injection H as <- <-. split; [reflexivity|]. exists f, tbl, b'. split; [reflexivity|]. split; [exact Et|].
  assert (Ha : p_body p < length h) by (unfold read_body in Hbd; apply nth_error_Some; destruct (nth_error h (p_body p)); congruence).
  assert (Hnc : forall c, nth_error h (p_body p) <> Some (OComp c)).
  { intros c E. unfold read_body in Hbd. rewrite E in Hbd. discriminate. }
  split.
  - unfold deref. rewrite (read_comps_write _ _ _ _ _ Hc Ha Hnc). cbn [rbind]. unfold read_body. rewrite (nth_error_write_same _ _ _ Ha).
    cbn [rbind]. now rewrite E1, E2, E3.
  - split; [apply (hide_body_spec _ _ _ _ _ _ _ Hb Eh)|]. split; [now apply write_length|].
    intros a Hne. now apply nth_error_write_other. Qed.

(* ---------------------------------------------------------------- copy.deepcopy *)
Lemma alloc_all_spec : forall os h, alloc_all h os = (h ++ os, seq (length h) (length os)).
Proof. induction os as [|o r IH]; intros h; cbn [alloc_all]; [now rewrite app_nil_r|].
  unfold alloc. rewrite IH. rewrite <- app_assoc. cbn [app length seq]. rewrite app_length. cbn [length]. do 3 f_equal. lia. Qed.
Lemma read_comps_seq (h : heap) cs ext : read_comps (h ++ map OComp cs ++ ext) (seq (length h) (length cs)) = Ok cs.
Proof. unfold read_comps. revert h. induction cs as [|c r IH]; intros h; cbn [map length seq rmapM]; [reflexivity|].
  unfold read_comp at 1. cbn [app]. rewrite nth_error_fresh. cbn [rbind].
  specialize (IH (h ++ [OComp c])). rewrite app_length in IH. cbn [length] in IH. rewrite Nat.add_1_r in IH.
  rewrite <- app_assoc in IH. cbn [app] in IH. rewrite IH. reflexivity. Qed.
Lemma deepcopy_spec h p v : deref h p = Ok v ->
  deepcopy h p = Ok (h ++ map OComp (v_comps v) ++ [OBody (v_body v)],
                     mkP (p_version p) (p_dims p) (p_bbox p) (seq (length h) (length (v_comps v))) (length h + length (v_comps v))).
Proof. intros Hd. destruct (deref_inv _ _ _ Hd) as [Hc [Hb _]]. unfold deepcopy. rewrite Hc, Hb. cbn [rbind].
  rewrite alloc_all_spec. unfold alloc. rewrite map_length, app_length, map_length, <- app_assoc. reflexivity. Qed.

(* ---------------------------------------------------------------- correct_wrist(s) *)
Theorem correct_wrist_h_spec T h p hand h' p' v :
  correct_wrist_h T h p hand = Ok (h', p') -> deref h p = Ok v ->
  (forall a, a < length h -> nth_error h' a = nth_error h a) /\ deref h' p = Ok v /\
  exists b', correct_wrist_body T (v_comps v) (v_body v) hand = Ok b' /\
    deref h' p' = Ok (mkV (v_version v) (v_dims v) (v_bbox v) (v_comps v) b').
Proof. intros H Hd. destruct (deref_inv _ _ _ Hd) as [_ [_ [E1 [E2 E3]]]]. unfold correct_wrist_h in H. rewrite (deepcopy_spec _ _ _ Hd) in H. cbn [rbind] in H.
  cbn [p_comps p_body] in H. rewrite read_comps_seq in H. cbn [rbind] in H.
  assert (Hrb : read_body (h ++ map OComp (v_comps v) ++ [OBody (v_body v)]) (length h + length (v_comps v)) = Ok (v_body v)).
  { unfold read_body. rewrite app_assoc. rewrite <- (map_length OComp (v_comps v)), <- app_length. now rewrite nth_error_fresh. }
  rewrite Hrb in H. cbn [rbind] in H.
  destruct (correct_wrist_body T (v_comps v) (v_body v) hand) as [b'|]; cbn [rbind] in H; [|discriminate]. injection H as <- <-.
  assert (Hw : write (h ++ map OComp (v_comps v) ++ [OBody (v_body v)]) (length h + length (v_comps v)) (OBody b')
               = h ++ map OComp (v_comps v) ++ [OBody b']).
  { rewrite !app_assoc. rewrite <- (map_length OComp (v_comps v)), <- app_length. apply write_fresh. }
  rewrite Hw. split; [intros a Ha; now apply nth_error_app1|]. split; [now apply deref_ext|].
  exists b'. split; [reflexivity|]. unfold deref. cbn [p_comps p_body p_version p_dims p_bbox]. rewrite read_comps_seq. cbn [rbind].
  unfold read_body. rewrite app_assoc. rewrite <- (map_length OComp (v_comps v)), <- app_length, nth_error_fresh. cbn [rbind].
  now rewrite E1, E2, E3. Qed.

Theorem correct_wrists_h_spec T h p l r h' p' v :
  correct_wrists_h T h p l r = Ok (h', p') -> deref h p = Ok v ->
  (forall a, a < length h -> nth_error h' a = nth_error h a) /\ deref h' p = Ok v /\
  exists b1 b2, correct_wrist_body T (v_comps v) (v_body v) l = Ok b1 /\ correct_wrist_body T (v_comps v) b1 r = Ok b2 /\
    deref h' p' = Ok (mkV (v_version v) (v_dims v) (v_bbox v) (v_comps v) b2).
Proof. intros H Hd. unfold correct_wrists_h in H. destruct (correct_wrist_h T h p l) as [[h1 p1]|] eqn:E1; cbn [rbind] in H; [|discriminate].
  destruct (correct_wrist_h_spec _ _ _ _ _ _ _ E1 Hd) as [F1 [D1 [b1 [B1 V1]]]].
  destruct (correct_wrist_h_spec _ _ _ _ _ _ _ H V1) as [F2 [D2 [b2 [B2 V2]]]]. cbn [v_comps v_body v_version v_dims v_bbox] in *.
  assert (Hlen : length h <= length h1).
  { destruct (Nat.le_gt_cases (length h) (length h1)) as [Hle|Hgt]; [exact Hle|]. exfalso.
    assert (Hx : nth_error h1 (length h1) = nth_error h (length h1)) by (apply F1; exact Hgt).
    assert (nth_error h1 (length h1) = None) by (apply nth_error_None; lia).
    assert (nth_error h (length h1) <> None) by (apply nth_error_Some; exact Hgt). congruence. }
  split; [intros a Ha; rewrite F2 by lia; now apply F1|]. split.
  - (* the source is reachable only through addresses below length h *)
    apply (deref_preserved h); [|exact Hd]. intros a o Ha.
    assert (a < length h) by (apply nth_error_Some; congruence). rewrite F2 by lia. rewrite F1 by assumption. exact Ha.
  - exists b1, b2. auto. Qed.

(* ---------------------------------------------------------------- reduce_holistic *)
Theorem reduce_holistic_h_spec T tfe h p h' p' v : reduce_holistic_h T tfe h p = Ok (h', p') -> deref h p = Ok v ->
  (exists f, detect T (map c_name (v_comps v)) = Ok f /\ f <> Holistic /\ h' = h /\ p' = p) \/
  (detect T (map c_name (v_comps v)) = Ok Holistic /\
   exists names pd, reduce_request T (v_comps v) = Ok (names, pd) /\ get_components_h tfe h p names (Some pd) = Ok (h', p')).
Proof. intros H Hd. destruct (deref_inv _ _ _ Hd) as [Hc _]. unfold reduce_holistic_h in H. rewrite Hc in H. cbn [rbind] in H.
  destruct (detect T (map c_name (v_comps v))) as [f|]; cbn [rbind] in H; [|discriminate]. destruct f.
  - right. split; [reflexivity|]. destruct (reduce_request T (v_comps v)) as [[names pd]|]; cbn [rbind] in H; [|discriminate].
    exists names, pd. auto.
  - left. exists OpenPose. injection H as <- <-. repeat split; discriminate.
  - left. exists OpenPose135. injection H as <- <-. repeat split; discriminate. Qed.
