(* The header of the reference encoders (C04_Spec.spec_header, the same layout in docs/specs/v0.0.md, v0.1.md)
   is read back by the implementation's header decoder, for every representable header content. *)
From Coq Require Import ZArith NArith List Lia ZifyBool ZifyN ZifyNat Bool.
Require Import ListN Result Bytes Utf8 Utf8S F32 Prog Codec ProgLemmas CodecRT C04_Spec.
Import ListNotations.
Open Scope N_scope.

Definition u16 (n : N) : Prop := n < 65536.
Definition wf_str (s : str) : Prop := exists b, enc_utf8 s = Some b /\ lenN b < 65536.
Definition wf_component (c : component) : Prop :=
  wf_str (c_name c) /\ wf_str (c_format c) /\ Forall wf_str (c_points c) /\
  u16 (lenN (c_points c)) /\ u16 (lenN (c_limbs c)) /\ u16 (lenN (c_colors c)) /\
  Forall (fun l => u16 (fst l) /\ u16 (snd l)) (c_limbs c) /\
  Forall (fun k => u16 (fst (fst k)) /\ u16 (snd (fst k)) /\ u16 (snd k)) (c_colors c).
Definition wf_header (h : header) : Prop :=
  h_version h < 4294967296 /\
  u16 (fst (fst (h_dims h))) /\ u16 (snd (fst (h_dims h))) /\ u16 (snd (h_dims h)) /\
  u16 (lenN (h_comps h)) /\ Forall wf_component (h_comps h).

Lemma spec_str_written s : wf_str s -> write_str s = Ok (spec_str s).
Proof. intros [b [Hb Hl]]. unfold write_str, spec_str. rewrite Hb.
  destruct (N.ltb_spec (lenN b) 65536); [reflexivity|lia]. Qed.
Lemma spec_str_rt s : wf_str s -> RTp rd_str (spec_str s) s.
Proof. intros H. apply rd_str_rt. now apply spec_str_written. Qed.

Lemma u16x3_rt a b c : u16 a -> u16 b -> u16 c -> RTp rd_u16x3 (enc_u16 a ++ enc_u16 b ++ enc_u16 c) (a, b, c).
Proof.
  intros Ha Hb Hc.
  pose proof (rd_u16x3_rt (Z.of_N a) (Z.of_N b) (Z.of_N c) (enc_u16 a ++ enc_u16 b ++ enc_u16 c)) as H.
  rewrite !N2Z.id in H. apply H.
  unfold pack_u16s, u16_ok. cbn [forallb flat_map].
  unfold u16 in *.
  replace ((0 <=? Z.of_N a)%Z && (Z.of_N a <? 65536)%Z) with true by lia.
  replace ((0 <=? Z.of_N b)%Z && (Z.of_N b <? 65536)%Z) with true by lia.
  replace ((0 <=? Z.of_N c)%Z && (Z.of_N c <? 65536)%Z) with true by lia.
  cbn [andb]. rewrite !N2Z.id, app_nil_r. reflexivity.
Qed.
Lemma u16x2_rt a b : u16 a -> u16 b -> RTp rd_u16x2 (enc_u16 a ++ enc_u16 b) (a, b).
Proof.
  intros Ha Hb.
  pose proof (rd_u16x2_rt (Z.of_N a) (Z.of_N b) (enc_u16 a ++ enc_u16 b)) as H.
  rewrite !N2Z.id in H. apply H.
  unfold pack_u16s, u16_ok. cbn [forallb flat_map]. unfold u16 in *.
  replace ((0 <=? Z.of_N a)%Z && (Z.of_N a <? 65536)%Z) with true by lia.
  replace ((0 <=? Z.of_N b)%Z && (Z.of_N b <? 65536)%Z) with true by lia.
  cbn [andb]. rewrite !N2Z.id, app_nil_r. reflexivity.
Qed.

Lemma spec_colors_flat (cols : list (N * N * N)) : concat (map spec_color cols) = flat_map enc_u16 (flat3 cols).
Proof. induction cols as [|[[a b] c] cols IH]; [reflexivity|].
  cbn [map concat flat3 flat_map fst snd app spec_color]. unfold spec_color in *. fold (flat3 cols).
  rewrite IH. cbn [fst snd]. rewrite <- !app_assoc. reflexivity. Qed.
Lemma flat3_lt (cols : list (N * N * N)) :
  Forall (fun k => u16 (fst (fst k)) /\ u16 (snd (fst k)) /\ u16 (snd k)) cols -> Forall (fun n => n < 65536) (flat3 cols).
Proof. induction 1 as [|[[a b] c] cols [Ha [Hb Hc]] _ IH]; [constructor|].
  cbn [flat3 flat_map app fst snd] in *. fold (flat3 cols). repeat (constructor; [assumption|]). exact IH. Qed.

Lemma spec_component_rt c : wf_component c -> RTp rd_component (spec_component c) c.
Proof.
  intros [Hn [Hf [Hp [Hnp [Hnl [Hnc [Hl Hc]]]]]]]. unfold spec_component, rd_component.
  apply RTp_bind with (a := c_name c); [now apply spec_str_rt|].
  apply RTp_bind with (a := c_format c); [now apply spec_str_rt|].
  replace (enc_u16 (lenN (c_points c)) ++ enc_u16 (lenN (c_limbs c)) ++ enc_u16 (lenN (c_colors c)) ++
           concat (map spec_str (c_points c)) ++ concat (map spec_limb (c_limbs c)) ++ concat (map spec_color (c_colors c)))
    with ((enc_u16 (lenN (c_points c)) ++ enc_u16 (lenN (c_limbs c)) ++ enc_u16 (lenN (c_colors c))) ++
           concat (map spec_str (c_points c)) ++ concat (map spec_limb (c_limbs c)) ++ concat (map spec_color (c_colors c)))
    by (rewrite <- !app_assoc; reflexivity).
  apply RTp_bind with (a := (lenN (c_points c), lenN (c_limbs c), lenN (c_colors c))); [now apply u16x3_rt|].
  cbv iota beta.
  apply RTp_bind with (a := c_points c).
  { rewrite to_nat_lenN. apply RTp_prep. clear - Hp. induction Hp as [|s l Hs _ IH]; cbn [map]; constructor; [now apply spec_str_rt|exact IH]. }
  apply RTp_bind with (a := c_limbs c).
  { rewrite to_nat_lenN. apply RTp_prep. clear - Hl. induction Hl as [|[a b] l [Ha Hb] _ IH]; cbn [map]; constructor; [|exact IH].
    unfold spec_limb. cbn [fst snd] in *. now apply u16x2_rt. }
  rewrite <- (app_nil_r (concat (map spec_color (c_colors c)))).
  apply RTp_bind with (a := c_colors c).
  2:{ destruct c; apply RTp_ret. }
  rewrite spec_colors_flat.
  assert (Hg : triples (words16 (N.to_nat (3 * lenN (c_colors c))) (flat_map enc_u16 (flat3 (c_colors c)))) = c_colors c).
  { replace (N.to_nat (3 * lenN (c_colors c))) with (length (flat3 (c_colors c))) by (rewrite length_flat3; unfold lenN; lia).
    rewrite <- (app_nil_r (flat_map enc_u16 _)). rewrite words16_enc by (now apply flat3_lt). apply triples_flat3. }
  assert (Hlen : lenN (flat_map enc_u16 (flat3 (c_colors c))) = 6 * lenN (c_colors c))
    by (rewrite lenN_flat_enc_u16; unfold lenN; rewrite length_flat3; lia).
  pose proof (RTp_block_ret (6 * lenN (c_colors c)) (fun b => triples (words16 (N.to_nat (3 * lenN (c_colors c))) b)) _ Hlen) as HB.
  cbv beta in HB. rewrite Hg in HB. exact HB.
Qed.

Theorem spec_header_rt h : wf_header h -> RTp rd_header (spec_header h) h.
Proof.
  intros [Hv [Hw [Hh [Hd [Hn Hc]]]]]. unfold spec_header, rd_header.
  destruct h as [v [[w hh] d] comps]. cbn [h_version h_dims h_comps fst snd] in *.
  apply RTp_bind with (a := v); [now apply rd_u32_rt|].
  replace (enc_u16 w ++ enc_u16 hh ++ enc_u16 d ++ enc_u16 (lenN comps) ++ concat (map spec_component comps))
    with ((enc_u16 w ++ enc_u16 hh ++ enc_u16 d) ++ enc_u16 (lenN comps) ++ concat (map spec_component comps))
    by (rewrite <- !app_assoc; reflexivity).
  apply RTp_bind with (a := (w, hh, d)); [now apply u16x3_rt|].
  apply RTp_bind with (a := lenN comps); [now apply rd_u16_rt|].
  rewrite <- (app_nil_r (concat (map spec_component comps))).
  apply RTp_bind with (a := comps); [|apply RTp_ret].
  rewrite to_nat_lenN. apply RTp_prep.
  clear - Hc. induction Hc as [|c l Hc1 _ IH]; cbn [map]; constructor; [now apply spec_component_rt|exact IH].
Qed.

(* the spec's point and coordinate counts are the ones the implementation derives from the header *)
Lemma spec_points_total h : spec_points h = total_points h.
Proof. reflexivity. Qed.
