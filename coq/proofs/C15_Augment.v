(* C15 - augment2d: one common linear map of the first two coordinates; the identity when no deviation is positive. *)
From Coq Require Import Reals ZArith List Bool Lia Lra.
Require Import Result Num C15_Spatial C15_Real C15_Lemmas C15_Flip C15_Matmul.
Import ListNotations.
Local Open Scope R_scope.

Definition entry (A : list (list R)) (i j : nat) : R := nth j (nth i A []) 0.
Definition embed_entry (A : list (list R)) (i j : nat) : R :=
  if Nat.ltb i 2 && Nat.ltb j 2 then entry A i j else if Nat.eqb i j then 1 else 0.
Lemma embed_entries D A : embed R_ops D A = map (fun i => map (fun j => embed_entry A i j) (seq 0 D)) (seq 0 D).
Proof. reflexivity. Qed.

Lemma vecmat_embed n (A : list (list R)) (x0 x1 : R) (rest : list R) : length rest = n ->
  vecmat R_ops (S (S n)) (x0 :: x1 :: rest) (embed R_ops (S (S n)) A) =
  (x0 * entry A 0 0 + x1 * entry A 1 0) :: (x0 * entry A 0 1 + x1 * entry A 1 1) :: rest.
Proof. intros Hn. rewrite embed_entries.
  set (E := map (fun i => map (fun j => embed_entry A i j) (seq 0 (S (S n)))) (seq 0 (S (S n)))).
  unfold vecmat. cbn [seq map]. f_equal; [|f_equal].
  - subst E. rewrite (col_of_entries (embed_entry A)) by lia. cbn [seq map]. rewrite !dotp_cons.
    rewrite (map_ext_in _ (fun _ => 0)).
    + rewrite dotp_zeros. unfold embed_entry. cbn [Nat.ltb Nat.leb andb]. (rops; ring).
    + intros i Hi. apply in_seq in Hi. unfold embed_entry.
      destruct (Nat.ltb i 2) eqn:E; [apply Nat.ltb_lt in E; lia|]. cbn [andb].
      destruct (Nat.eqb i 0) eqn:E2; [apply Nat.eqb_eq in E2; lia | reflexivity].
  - subst E. rewrite (col_of_entries (embed_entry A)) by lia. cbn [seq map]. rewrite !dotp_cons.
    rewrite (map_ext_in _ (fun _ => 0)).
    + rewrite dotp_zeros. unfold embed_entry. cbn [Nat.ltb Nat.leb andb]. (rops; ring).
    + intros i Hi. apply in_seq in Hi. unfold embed_entry.
      destruct (Nat.ltb i 2) eqn:E; [apply Nat.ltb_lt in E; lia|]. cbn [andb].
      destruct (Nat.eqb i 1) eqn:E2; [apply Nat.eqb_eq in E2; lia | reflexivity].
  - transitivity (map (fun j => nth (j - 2) rest 0) (seq 2 (length rest))); [|apply map_nth_seq].
    rewrite Hn. apply map_ext_in. intros j Hj. apply in_seq in Hj.
    subst E. rewrite (col_of_entries (embed_entry A)) by lia. cbn [seq map]. rewrite !dotp_cons.
    assert (E0 : embed_entry A 0 j = 0).
    { unfold embed_entry. destruct (Nat.ltb j 2) eqn:E; [apply Nat.ltb_lt in E; lia|]. rewrite andb_false_r.
      destruct (Nat.eqb 0 j) eqn:E2; [apply Nat.eqb_eq in E2; lia | reflexivity]. }
    assert (E1 : embed_entry A 1 j = 0).
    { unfold embed_entry. destruct (Nat.ltb j 2) eqn:E; [apply Nat.ltb_lt in E; lia|]. rewrite andb_false_r.
      destruct (Nat.eqb 1 j) eqn:E2; [apply Nat.eqb_eq in E2; lia | reflexivity]. }
    rewrite E0, E1.
    rewrite (map_ext_in _ (fun i => if Nat.eqb i j then 1 else 0)).
    + rewrite <- Hn. rewrite dotp_unit by lia. (rops; ring).
    + intros i Hi. apply in_seq in Hi. unfold embed_entry.
      destruct (Nat.ltb i 2) eqn:E; [apply Nat.ltb_lt in E; lia | reflexivity]. Qed.

Lemma embed_eye D : embed R_ops D (eye R_ops 2) = eye R_ops D.
Proof. rewrite embed_entries. unfold eye. apply map_ext. intros i. apply map_ext. intros j. unfold embed_entry, entry.
  destruct i as [|[|i]]; destruct j as [|[|j]]; reflexivity. Qed.
Lemma aug_matrix_nopos (rot shear scale : R) d :
  pos R_ops rot = false -> pos R_ops shear = false -> pos R_ops scale = false ->
  aug_matrix R_ops rot shear scale d = eye R_ops 2.
Proof. intros H1 H2 H3. unfold aug_matrix. now rewrite H1, H2, H3. Qed.
Lemma pos_false (x : R) : pos R_ops x = false <-> x <= 0.
Proof. unfold pos. rops. unfold Rltb. destruct (Rlt_dec 0 x); split; intros H; try reflexivity; try discriminate; lra. Qed.

Lemma augment_as_matmul D (rot shear scale : R) d (b : rframes) : (2 <= D)%nat ->
  augment2d R_ops D rot shear scale d b =
  Ok (map3 R_ops (matmul_point R_ops D (embed R_ops D (aug_matrix R_ops rot shear scale d))) b).
Proof. intros HD. unfold augment2d. destruct (Nat.ltb D 2) eqn:E; [apply Nat.ltb_lt in E; lia|].
  apply matmul_ok. rewrite embed_entries. apply matrix_ok_entries. Qed.

(* what augmentation does to one point: the first two coordinates go through the 2x2 matrix (a00 a01; a10 a11) *)
Definition aug_spec (a00 a01 a10 a11 : R) (p p' : rpoint) : Prop :=
  same_conf_mask p p' /\ (missing p = false -> coords p' = aug_coords a00 a01 a10 a11 (coords p)).

Lemma matmul_point_coords K M (p : rpoint) : conf_inv p -> coords (matmul_point R_ops K M p) = vecmat R_ops K (filled R_ops p) M.
Proof. intros H. unfold coords. rewrite matmul_point_pcs by exact H. rewrite map_map. cbn [fst]. apply map_id. Qed.

Lemma augment_common_map (rot shear scale : R) (d : draws R_ops) :
  exists a00 a01 a10 a11 : R, forall D (b : rframes), (2 <= D)%nat -> wf_body D b ->
  exists b', augment2d R_ops D rot shear scale d b = Ok b' /\ rel3 (aug_spec a00 a01 a10 a11) b b'.
Proof. set (A := aug_matrix R_ops rot shear scale d).
  exists (entry A 0 0), (entry A 0 1), (entry A 1 0), (entry A 1 1). intros D b HD Hwf.
  rewrite augment_as_matmul by exact HD. eexists. split; [reflexivity|]. fold A.
  apply (all3_rel3_map3 (wf_point D)); [exact Hwf|]. intros p Hp. split; [split|].
  - reflexivity.
  - rewrite (matmul_point_masks D D _ p Hp). symmetry. now apply wf_masks.
  - intros Hm. rewrite matmul_point_coords by (exact (proj2 (proj2 Hp))). rewrite (wf_observed_filled D p Hp Hm).
    assert (Hl : length (coords p) = D) by (unfold coords; rewrite map_length; exact (proj1 Hp)).
    destruct D as [|[|n]]; try lia. destruct (coords p) as [|x0 [|x1 rest]]; cbn [length] in Hl; try discriminate.
    unfold aug_coords. apply vecmat_embed. now injection Hl. Qed.

Lemma augment_zero_std_identity D (rot shear scale : R) d (b : rframes) :
  rot <= 0 -> shear <= 0 -> scale <= 0 -> (2 <= D)%nat -> wf_body D b ->
  exists b', augment2d R_ops D rot shear scale d b = Ok b' /\ rel3 same_observed b b'.
Proof. intros H1 H2 H3 HD Hwf. rewrite augment_as_matmul by exact HD.
  rewrite aug_matrix_nopos by (now apply pos_false). rewrite embed_eye.
  eexists. split; [reflexivity|]. apply (all3_rel3_map3 (wf_point D)); [exact Hwf|].
  intros p Hp. now apply matmul_point_identity. Qed.

Lemma augment_keeps_conf_mask D (rot shear scale : R) d (b b' : rframes) :
  wf_body D b -> augment2d R_ops D rot shear scale d b = Ok b' -> rel3 same_conf_mask b b' /\ wf_body D b'.
Proof. intros Hwf H. unfold augment2d in H. destruct (Nat.ltb D 2); [discriminate|].
  destruct (matmul_keeps_conf_mask D D D _ b b' Hwf H) as [Hr Hw]. split; [|exact Hw].
  eapply all3_rel3_l; [exact Hwf | exact Hr |]. intros p q Hp [Hc Hm]. split; [exact Hc|].
  rewrite Hm. symmetry. now apply wf_masks. Qed.
(* small dimensions are rejected (the 2x2 block does not fit) *)
Lemma augment_needs_two_dims D (rot shear scale : R) d (b : rframes) :
  (D < 2)%nat -> augment2d R_ops D rot shear scale d b = Err Value.
Proof. intros H. unfold augment2d. destruct (Nat.ltb D 2) eqn:E; [reflexivity | apply Nat.ltb_ge in E; lia]. Qed.

(* the common map when all three deviations are positive: shear . rotation . scale *)
Lemma aug_matrix_all_positive (rot shear scale g c s g1 : R) :
  0 < rot -> 0 < shear -> 0 < scale ->
  aug_matrix R_ops rot shear scale (@mkD R_ops g c s g1) =
  [[c + g * s; (- s + g * c) * (1 + g1)]; [s; c * (1 + g1)]].
Proof. intros H1 H2 H3. unfold aug_matrix, pos. rops.
  rewrite (proj2 (Rltb_true 0 rot) H1), (proj2 (Rltb_true 0 shear) H2), (proj2 (Rltb_true 0 scale) H3).
  cbn [g_shear g_cos g_sin g_scale]. unfold mm, eye, shear_matrix, rotation_matrix, scale_matrix, vecmat, col, dotp, sum.
  cbn [seq map nth zipw fold_right Nat.eqb]. rops.
  repeat (f_equal; try ring). Qed.
