(* C13 - reference lookup by format: the indices returned are the positions, in body order, of the named
   points of the first component with the named component. *)
From Coq Require Import List NArith Bool Arith Lia.
Require Import Result C13_Lookup.
Import ListNotations.

Lemma name_eqb_eq a : forall b, name_eqb a b = true <-> a = b.
Proof. induction a as [|x a IH]; intros [|y b]; cbn [name_eqb]; split; intros H; try discriminate; try reflexivity.
  - apply andb_true_iff in H. destruct H as [H1 H2]. apply N.eqb_eq in H1. apply IH in H2. subst. reflexivity.
  - injection H as -> ->. apply andb_true_iff. split; [apply N.eqb_refl|apply IH; reflexivity]. Qed.
Lemma index_of_sound p l : forall j, index_of p l = Some j -> nth_error l j = Some p.
Proof. induction l as [|x l IH]; intros j H; [discriminate|]. cbn [index_of] in H.
  destruct (name_eqb x p) eqn:E.
  - injection H as <-. apply name_eqb_eq in E. subst. reflexivity.
  - destruct (index_of p l) as [k|]; [|discriminate]. injection H as <-. cbn [nth_error]. apply IH. reflexivity. Qed.
(* list.index returns the first occurrence *)
Lemma index_of_first p l : forall j, index_of p l = Some j -> forall i, i < j -> nth_error l i <> Some p.
Proof. induction l as [|x l IH]; intros j H i Hi; [discriminate|]. cbn [index_of] in H.
  destruct (name_eqb x p) eqn:E.
  - injection H as <-. lia.
  - destruct (index_of p l) as [k|] eqn:Ek; [|discriminate]. injection H as <-. destruct i as [|i]; cbn [nth_error].
    + intros E'. injection E' as ->. rewrite (proj2 (name_eqb_eq p p) eq_refl) in E. discriminate.
    + apply (IH k eq_refl). lia. Qed.

Lemma flat_points_cons x r : flat_points (x :: r) = map (fun p => (hc_name x, p)) (hc_points x) ++ flat_points r.
Proof. reflexivity. Qed.

Lemma get_point_index_sound h c p : forall idx k, get_point_index h c p idx = Ok k ->
  idx <= k /\ nth_error (flat_points h) (k - idx) = Some (c, p).
Proof. induction h as [|x r IH]; intros idx k H; [discriminate|]. cbn [get_point_index] in H. rewrite flat_points_cons.
  destruct (name_eqb (hc_name x) c) eqn:E.
  - destruct (index_of p (hc_points x)) as [j|] eqn:Ej; [|discriminate]. injection H as <-. split; [lia|].
    replace (idx + j - idx) with j by lia. apply name_eqb_eq in E. apply index_of_sound in Ej.
    rewrite nth_error_app1 by (rewrite map_length; apply nth_error_Some; congruence).
    rewrite nth_error_map, Ej. cbn [option_map]. rewrite E. reflexivity.
  - apply IH in H. destruct H as [Hle Hn]. split; [lia|].
    rewrite nth_error_app2 by (rewrite map_length; lia). rewrite map_length.
    replace (k - idx - length (hc_points x)) with (k - (idx + length (hc_points x))) by lia. exact Hn. Qed.
(* ... of the first component of that name *)
Lemma get_point_index_first h c p : forall idx k, get_point_index h c p idx = Ok k ->
  exists pre x post, h = pre ++ x :: post /\ hc_name x = c /\ (forall y, In y pre -> hc_name y <> c) /\
    exists j, index_of p (hc_points x) = Some j /\ k = idx + length (flat_points pre) + j.
Proof. induction h as [|x r IH]; intros idx k H; [discriminate|]. cbn [get_point_index] in H.
  destruct (name_eqb (hc_name x) c) eqn:E.
  - destruct (index_of p (hc_points x)) as [j|] eqn:Ej; [|discriminate]. injection H as <-.
    exists [], x, r. split; [reflexivity|]. split; [apply name_eqb_eq; exact E|]. split; [intros y []|].
    exists j. split; [exact Ej|]. cbn [flat_points flat_map length]. lia.
  - apply IH in H. destruct H as (pre & x' & post & -> & Hn & Hpre & j & Hj & ->).
    exists (x :: pre), x', post. split; [reflexivity|]. split; [exact Hn|]. split.
    + intros y [<-|Hy]; [|apply Hpre; exact Hy]. intros E'. apply name_eqb_eq in E'. congruence.
    + exists j. split; [exact Hj|]. rewrite flat_points_cons, app_length, map_length. lia. Qed.

(* detect_known_pose_format: the format of the first component whose name is known *)
Lemma detect_first names f : detect names = Ok f ->
  exists pre n post, names = pre ++ n :: post /\ classify n = Some f /\ forall m, In m pre -> classify m = None.
Proof. induction names as [|n r IH]; intros H; [discriminate|]. cbn [detect] in H.
  destruct (classify n) as [g|] eqn:E.
  - injection H as <-. exists [], n, r. split; [reflexivity|]. split; [exact E|]. intros m [].
  - apply IH in H. destruct H as (pre & n' & post & -> & Hc & Hpre). exists (n :: pre), n', post.
    split; [reflexivity|]. split; [exact Hc|]. intros m [<-|Hm]; [exact E|apply Hpre; exact Hm]. Qed.

Theorem pose_normalization_info_sound h i j : pose_normalization_info h = Ok (i, j) ->
  exists f, detect (map hc_name h) = Ok f /\
    nth_error (flat_points h) i = Some (fst (shoulders f)) /\
    nth_error (flat_points h) j = Some (snd (shoulders f)).
Proof. unfold pose_normalization_info, rbind, gpi. intros H.
  destruct (detect (map hc_name h)) as [f|] eqn:Ed; [|discriminate]. exists f. split; [reflexivity|].
  destruct (get_point_index h (fst (fst (shoulders f))) (snd (fst (shoulders f))) 0) as [a|] eqn:Ea; [|discriminate].
  destruct (get_point_index h (fst (snd (shoulders f))) (snd (snd (shoulders f))) 0) as [b|] eqn:Eb; [|discriminate].
  injection H as <- <-. apply get_point_index_sound in Ea, Eb. destruct Ea as [_ Ea], Eb as [_ Eb].
  rewrite Nat.sub_0_r in Ea, Eb. rewrite Ea, Eb. split; f_equal; symmetry; apply surjective_pairing. Qed.

(* the hand references: indices inside the component of that name (header of pose.get_components([name])) *)
Theorem component_3d_info_sound h cname plane line a b c d e :
  component_3d_info h cname plane line = Ok ((a, b, c), (d, e)) ->
  let sub := flat_points (filter (fun x => name_eqb (hc_name x) cname) h) in
  nth_error sub a = Some (cname, fst (fst plane)) /\ nth_error sub b = Some (cname, snd (fst plane)) /\
  nth_error sub c = Some (cname, snd plane) /\ nth_error sub d = Some (cname, fst line) /\ nth_error sub e = Some (cname, snd line).
Proof. unfold component_3d_info, rbind, gpi. cbn [fst snd]. intros H. cbv zeta.
  set (s := filter (fun x => name_eqb (hc_name x) cname) h) in *.
  destruct (get_point_index s cname (fst (fst plane)) 0) as [a'|] eqn:Ea; [|discriminate].
  destruct (get_point_index s cname (snd (fst plane)) 0) as [b'|] eqn:Eb; [|discriminate].
  destruct (get_point_index s cname (snd plane) 0) as [c'|] eqn:Ec; [|discriminate].
  destruct (get_point_index s cname (fst line) 0) as [d'|] eqn:Ed; [|discriminate].
  destruct (get_point_index s cname (snd line) 0) as [e'|] eqn:Ee; [|discriminate].
  injection H as <- <- <- <- <-.
  apply get_point_index_sound in Ea, Eb, Ec, Ed, Ee. rewrite Nat.sub_0_r in *. intuition. Qed.

(* non-vacuity: a holistic-shaped header *)
From Coq Require Import String.
Open Scope string_scope.
Definition ex_header : list hcomp :=
  [ {| hc_name := of_string "FACE_LANDMARKS"; hc_points := [of_string "0"; of_string "1"] |};
    {| hc_name := of_string "POSE_LANDMARKS"; hc_points := [of_string "NOSE"; of_string "LEFT_SHOULDER"; of_string "RIGHT_SHOULDER"] |};
    {| hc_name := of_string "RIGHT_HAND_LANDMARKS";
       hc_points := [of_string "WRIST"; of_string "INDEX_FINGER_MCP"; of_string "MIDDLE_FINGER_MCP"; of_string "PINKY_MCP"] |} ].
Example pose_normalization_info_ex : pose_normalization_info ex_header = Ok (4, 3).
Proof. reflexivity. Qed.
Example component_3d_info_ex :
  component_3d_info ex_header (of_string "RIGHT_HAND_LANDMARKS")
    (of_string "WRIST", of_string "PINKY_MCP", of_string "INDEX_FINGER_MCP") (of_string "WRIST", of_string "MIDDLE_FINGER_MCP")
  = Ok ((0, 3, 1), (0, 2)).
Proof. reflexivity. Qed.
