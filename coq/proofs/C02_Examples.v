(* C02: concrete contents satisfying the hypotheses of the reader-direction theorems (non-vacuity), and the NaN
   payload that the re-write identity has to exclude. *)
From Coq Require Import ZArith NArith List Lia Bool.
Require Import ListN Result Bytes F32 Prog Codec CodecRT PoseRead PoseReadLemmas C01_Examples
  C02_SpecV02 C02_Content C02_Converse.
Import ListNotations.
Open Scope N_scope.

(* the content of the C01 example pose: two components, 3-byte characters, NaN / -0.0 / subnormal data *)
Definition ex_content : pose := canon ex_pose.
(* not the image of any written pose: version word one ulp above the writer's 0.2 (still read as 0.2), a NaN with a
   payload, a signalling NaN as confidence, a frame rate that is an infinity, and no mask at all *)
Definition ex_foreign : pose :=
  {| p_header := {| h_version := 1045220558; h_dims := (640, 480, 0); h_comps := h_comps (p_header ex_content) |};
     p_body := {| b_fps := 2139095040; b_shape := [1; 2; 3; 2];
                  b_data := [2143289345; 2147483648; 1; 1065353216; 1073741824; 0;
                             1077936128; 1082130432; 1084227584; 0; 0; 4286578688];
                  b_conf := [1065353216; 0; 2139095041; 0; 2147483648; 1];
                  b_mask := [] |} |}.

Lemma ex_content_ok : exists sb, coherent ex_content = true /\ h_version (p_header ex_content) = version_word /\
  nans_canonical ex_content = true /\ spec_encode ex_content = Some sb /\ lenN sb = 148.
Proof. eexists. repeat split; vm_compute; reflexivity. Qed.
Lemma ex_foreign_ok : exists m sb, m <> None /\ MemoOK m /\ coherent ex_foreign = true /\ spec_encode ex_foreign = Some sb /\
  lenN sb = 148 /\ (forall p, canon p <> ex_foreign) /\ with_derived_mask ex_foreign <> ex_foreign.
Proof.
  destruct ex_memo_ok as [m [Hm1 Hm2]]. exists m. eexists. split; [exact Hm1|]. split; [exact Hm2|].
  split; [vm_compute; reflexivity|]. split; [vm_compute; reflexivity|]. split; [vm_compute; reflexivity|]. split.
  - intros p H. apply (f_equal (fun c => h_version (p_header c))) in H. unfold canon, canon_header in H.
    destruct (w_dims p) as [[? ?] ?]. cbn in H. discriminate.
  - intros H. apply (f_equal (fun c => b_mask (p_body c))) in H. vm_compute in H. discriminate.
Qed.
(* the exception of the re-write identity: a NaN payload does not survive float32 -> double -> float32 in the model
   (F32.v canonicalises NaNs; on hardware a quiet NaN keeps its payload and a signalling NaN is quieted) *)
Lemma ex_nan_payload_rewritten : exists c sb q,
  coherent c = true /\ h_version (p_header c) = version_word /\ spec_encode c = Some sb /\
  fst (read_bytes no_legacy None sb no_args) = Ok q /\
  exists sb', write_pose (wpose_of_read q) = Ok sb' /\ sb' <> sb /\ lenN sb' = lenN sb.
Proof.
  exists {| p_header := p_header ex_content; p_body := p_body ex_foreign |}. eexists. eexists.
  split; [vm_compute; reflexivity|]. split; [reflexivity|]. split; [vm_compute; reflexivity|].
  split; [vm_compute; reflexivity|]. eexists. split; [vm_compute; reflexivity|]. split; [|vm_compute; reflexivity].
  intros H. apply (f_equal (fun l => nth 76 l 0)) in H. vm_compute in H. discriminate.
Qed.
(* why the reader theorem needs [coherent]: without it the encoding does not determine the content - moving the
   boundary between the coordinate block and the confidence block gives the same file *)
Lemma ex_coherence_needed : exists c1 c2 sb,
  coherent c1 = true /\ coherent c2 = false /\ b_conf (p_body c1) <> b_conf (p_body c2) /\
  spec_encode c1 = Some sb /\ spec_encode c2 = Some sb.
Proof.
  exists ex_content.
  exists {| p_header := p_header ex_content;
            p_body := {| b_fps := b_fps (p_body ex_content); b_shape := b_shape (p_body ex_content);
                         b_data := removelast (b_data (p_body ex_content));
                         b_conf := last (b_data (p_body ex_content)) 0 :: b_conf (p_body ex_content);
                         b_mask := b_mask (p_body ex_content) |} |}.
  eexists. split; [vm_compute; reflexivity|]. split; [vm_compute; reflexivity|].
  split; [|split; vm_compute; reflexivity].
  intros H. apply (f_equal (@length N)) in H. vm_compute in H. discriminate.
Qed.
