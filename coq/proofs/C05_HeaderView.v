(* C05: reading the header fields off the JavaScript object gives the Python header record. *)
From Coq Require Import ZArith NArith List Lia ZifyBool ZifyN ZifyNat Bool.
Require Import ListN Result Bytes Utf8 Utf8S F32 Prog Codec ProgLemmas CodecRT C05_JsParser C05_View C05_Lemmas C05_Header.
Import ListNotations.
Open Scope N_scope.

Ltac kred :=
  cbv beta iota delta [obj_get get_num keq andb N.eqb Pos.eqb
    k_B k_C k_G k_R k__chars k__colors k__components k__format k__frames k__limbs k__name k__people k__points
    k_colors k_components k_depth k_format k_fps k_frames k_from k_headerLength k_height k_id k_limbs k_name
    k_people k_points k_text k_to k_version k_width].

Lemma vnum_of_N n : vnum (Some (VNum (Z.of_N n))) = Some n.
Proof. unfold vnum. destruct (Z.ltb_spec (Z.of_N n) 0); [lia|]. f_equal. lia. Qed.
Lemma strip_no_bom s : no_bom s -> strip_bom s = s.
Proof. destruct s as [|c r]; [reflexivity|]. cbn [no_bom strip_bom].
  destruct c as [|p]; [reflexivity|]. intros H.
  destruct (Pos.eq_dec p 65279) as [->|Hne]; [contradiction|].
  unfold strip_bom. destruct p; try reflexivity;
  repeat (match goal with |- match ?q with _ => _ end = _ => destruct q; try reflexivity end); congruence. Qed.
Lemma all_some_map {A B} (f : A -> option B) (g : B -> A) l :
  (forall b, f (g b) = Some b) -> all_some (map f (map g l)) = Some l.
Proof. intros H. induction l as [|b l IH]; [reflexivity|]. cbn [map all_some]. now rewrite H, IH. Qed.
Lemma all_some_map_in {A B} (f : A -> option B) (g : B -> A) l :
  (forall b, In b l -> f (g b) = Some b) -> all_some (map f (map g l)) = Some l.
Proof. induction l as [|b l IH]; intros H; [reflexivity|]. cbn [map all_some].
  rewrite H by (left; reflexivity). rewrite IH; [reflexivity|]. intros b' Hb'. apply H. now right. Qed.

Lemma limb_view_obj l : limb_view (VObj (js_limb_obj l)) = Some l.
Proof. destruct l as [a b]. unfold limb_view, js_limb_obj. kred. cbn [fst snd]. now rewrite !vnum_of_N. Qed.
Lemma color_view_obj c : color_view (VObj (js_color_obj c)) = Some c.
Proof. destruct c as [[r g] b]. unfold color_view, js_color_obj. kred. cbn [fst snd]. now rewrite !vnum_of_N. Qed.
Lemma comp_view_obj c : comp_no_bom c -> comp_view (VObj (js_comp_obj c)) = Some c.
Proof.
  intros [Hn [Hf Hp]]. unfold comp_view, js_comp_obj. kred. unfold js_strv, vstr, varr.
  rewrite (strip_no_bom _ Hn), (strip_no_bom _ Hf).
  rewrite (all_some_map_in str_view (fun s => VStr (strip_bom s))).
  2:{ intros s Hs. unfold str_view, vstr. rewrite strip_no_bom; [reflexivity|]. rewrite Forall_forall in Hp. now apply Hp. }
  rewrite (all_some_map limb_view (fun l => VObj (js_limb_obj l))) by exact limb_view_obj.
  rewrite (all_some_map color_view (fun k => VObj (js_color_obj k))) by exact color_view_obj.
  destruct c; reflexivity.
Qed.
Lemma header_view_obj h hl : Forall comp_no_bom (h_comps h) -> header_view (js_header_obj h hl) = Some (h, hl).
Proof.
  intros Hc. unfold header_view, js_header_obj. destruct h as [v [[w hh] d] comps]. cbn [h_dims h_version h_comps] in *. kred.
  rewrite !vnum_of_N. unfold varr.
  rewrite (all_some_map_in comp_view (fun c => VObj (js_comp_obj c))).
  2:{ intros c Hin. apply comp_view_obj. rewrite Forall_forall in Hc. now apply Hc. }
  reflexivity.
Qed.

(* [canon_comp] does not change strings *)
Definition wcomp_no_bom (c : wcomponent) : Prop := no_bom (wc_name c) /\ no_bom (wc_format c) /\ Forall no_bom (wc_points c).
Lemma canon_no_bom comps : Forall wcomp_no_bom comps -> Forall comp_no_bom (map canon_comp comps).
Proof. induction 1 as [|c l Hc _ IH]; cbn [map]; constructor; [exact Hc|exact IH]. Qed.

(* The JavaScript header parser and the Python header reader, on the same bytes (anything may follow the header):
   same version word, dimensions, components (name, format, point names, limbs, colours), and headerLength is
   the offset at which the Python reader stops. *)
Theorem js_header_eq dims comps h r : write_header dims comps = Ok h -> Forall wcomp_no_bom comps ->
  exists hd,
    run_plain rd_header {| pbuf := h ++ r; poff := 0 |} = Ok (hd, {| pbuf := h ++ r; poff := lenN h |}) /\
    exists o, parse header_schema (h ++ r) = Some o /\ header_view o = Some (hd, lenN h).
Proof.
  intros H Hb. exists (header_of dims comps). split.
  - pose proof (rd_header_rt _ _ _ H [] r) as HR. cbn [app] in HR. exact HR.
  - eexists. split; [exact (js_header_obj_eq _ _ _ r H)|].
    apply header_view_obj. unfold header_of. cbn [h_comps]. now apply canon_no_bom.
Qed.
