(* C19 - the four nested loops of load_openpose (openpose.py:266-275) against the cell view of the arrays. *)
From Coq Require Import List Arith NArith Bool Lia.
Require Import Result F32 C19_Layout C19_FrameId C19_OpenPose C19_Spec C19_ArrayLemmas.
Import ListNotations.
Local Open Scope nat_scope.

Definition flat (ts : list triple) : list N := concat (map (fun t : triple => let '(x, y, c) := t in [x; y; c]) ts).
Lemma flat_cons x y c ts : flat ((x, y, c) :: ts) = x :: y :: c :: flat ts.
Proof. reflexivity. Qed.
Lemma flat_length ts : length (flat ts) = 3 * length ts.
Proof. induction ts as [|[[x y] c] ts IH]; [reflexivity|]. rewrite flat_cons. cbn [length]. lia. Qed.
Lemma chunk3_flat : forall ts l, chunk3 l = Some ts -> l = flat ts.
Proof.
  induction ts as [|t ts IH]; intros l H; destruct l as [|x [|y [|c r]]]; cbn [chunk3] in H; try discriminate.
  - reflexivity.
  - destruct (chunk3 r); discriminate.
  - destruct (chunk3 r) as [t'|] eqn:E; [|discriminate]. injection H as <- <-. rewrite flat_cons. now rewrite (IH r E).
Qed.
Lemma chunk3_of_flat ts : chunk3 (flat ts) = Some ts.
Proof. induction ts as [|[[x y] c] ts IH]; [reflexivity|]. rewrite flat_cons. cbn [chunk3]. now rewrite IH. Qed.

(* cells (f, p, lo .. lo+n-1) *)
Definition inrow (f p lo n f' p' k' : nat) : bool := Nat.eqb f' f && Nat.eqb p' p && (lo <=? k') && (k' <? lo + n).

Section Loops.
Variables F P K : nat.

Lemma kp_loop_ok f p : f < F -> p < P ->
  forall ts fuel kid a, shaped F P K a -> kid + length ts <= K -> length (flat ts) <= fuel ->
  exists a', kp_loop fuel 3 (flat ts) f p kid a = Ok (kid + length ts, a') /\ shaped F P K a' /\
    forall f' p' k', cell a' f' p' k' =
      if inrow f p kid (length ts) f' p' k' then option_map cast3 (nth_error ts (k' - kid)) else cell a f' p' k'.
Proof.
  intros Hf Hp. induction ts as [|[[x y] c] ts IH]; intros fuel kid a Hs Hk Hfu.
  - exists a. split; [|split; [exact Hs|]].
    + rewrite Nat.add_0_r. destruct fuel; reflexivity.
    + intros f' p' k'. unfold inrow. cbn [length]. rewrite Nat.add_0_r.
      destruct (Nat.leb_spec kid k'), (Nat.ltb_spec k' kid); try lia; rewrite ?andb_false_r; reflexivity.
  - rewrite flat_cons in *. cbn [length] in Hk, Hfu.
    destruct fuel as [|fuel]; [lia|]. cbn [kp_loop].
    destruct (step_cell F P K f p kid (cast32 x) (cast32 y) (cast32 c) a Hs Hf Hp ltac:(lia))
      as (d1 & d2 & c1 & S1 & S2 & S3 & Hs' & G).
    rewrite S1. cbn [nth_error]. rewrite S2, S3. cbn [skipn].
    destruct (IH fuel (S kid) (mkA d2 c1) Hs' ltac:(lia) ltac:(lia)) as (a' & E & Hs'' & G').
    exists a'. split; [|split; [exact Hs''|]].
    + rewrite E. do 2 f_equal. cbn [length]. lia.
    + intros f' p' k'. rewrite G', G. unfold inrow, hit. cbn [length].
      destruct (Nat.eqb_spec f' f) as [->|Nf]; cbn [andb]; [|reflexivity].
      destruct (Nat.eqb_spec p' p) as [->|Np]; cbn [andb]; [|reflexivity].
      destruct (Nat.leb_spec (S kid) k'), (Nat.ltb_spec k' (S kid + length ts)), (Nat.leb_spec kid k'),
               (Nat.ltb_spec k' (kid + S (length ts))), (Nat.eqb_spec k' kid); cbn [andb]; try lia; try reflexivity.
      * replace (k' - kid) with (S (k' - S kid)) by lia. reflexivity.
      * subst k'. rewrite Nat.sub_diag. reflexivity.
Qed.

Lemma comp_loop_ok f p : f < F -> p < P ->
  forall cs per ts kid a, Forall (fun c => length (c_format c) = 3) cs -> person_triples cs per = Some ts ->
  shaped F P K a -> kid + length ts <= K ->
  exists a', comp_loop cs per f p kid a = Ok (kid + length ts, a') /\ shaped F P K a' /\
    forall f' p' k', cell a' f' p' k' =
      if inrow f p kid (length ts) f' p' k' then option_map cast3 (nth_error ts (k' - kid)) else cell a f' p' k'.
Proof.
  intros Hf Hp. induction cs as [|c cs IH]; intros per ts kid a Hfmt Hpt Hs Hk.
  - cbn [person_triples] in Hpt. injection Hpt as <-. exists a. split; [|split; [exact Hs|]].
    + cbn [comp_loop length]. now rewrite Nat.add_0_r.
    + intros f' p' k'. unfold inrow. cbn [length]. rewrite Nat.add_0_r.
      destruct (Nat.leb_spec kid k'), (Nat.ltb_spec k' kid); try lia; rewrite ?andb_false_r; reflexivity.
  - cbn [person_triples] in Hpt. inversion Hfmt as [|c' cs' Hc Hcs]; subst.
    destruct (lookup (c_name c) per) as [ns|] eqn:El; [|discriminate].
    destruct (chunk3 ns) as [t1|] eqn:E1; [|discriminate].
    destruct (person_triples cs per) as [t2|] eqn:E2; [|discriminate]. injection Hpt as <-.
    rewrite app_length in Hk. apply chunk3_flat in E1. subst ns.
    cbn [comp_loop]. rewrite El, Hc. cbn [Nat.eqb].
    destruct (kp_loop_ok f p Hf Hp t1 (length (flat t1)) kid a Hs ltac:(lia) ltac:(lia)) as (a1 & R1 & Hs1 & G1).
    rewrite R1. cbn [rbind fst snd].
    destruct (IH per t2 (kid + length t1) a1 Hcs E2 Hs1 ltac:(lia)) as (a2 & R2 & Hs2 & G2).
    exists a2. split; [|split; [exact Hs2|]].
    + rewrite R2. do 2 f_equal. rewrite app_length. lia.
    + intros f' p' k'. rewrite G2, G1. unfold inrow. rewrite app_length.
      destruct (Nat.eqb_spec f' f) as [->|Nf]; cbn [andb]; [|reflexivity].
      destruct (Nat.eqb_spec p' p) as [->|Np]; cbn [andb]; [|reflexivity].
      destruct (Nat.leb_spec (kid + length t1) k'), (Nat.ltb_spec k' (kid + length t1 + length t2)), (Nat.leb_spec kid k'),
               (Nat.ltb_spec k' (kid + length t1)), (Nat.ltb_spec k' (kid + (length t1 + length t2))); cbn [andb]; try lia; try reflexivity.
      * rewrite nth_error_app2 by lia. do 2 f_equal. lia.
      * rewrite nth_error_app1 by lia. reflexivity.
Qed.

(* what the person contributes to point k', [dflt] beyond the triples it lists *)
Definition pcell (cs : list comp) (per : person) (k' : nat) (dflt : option triple) : option triple :=
  match person_triples cs per with
  | Some ts => if k' <? length ts then option_map cast3 (nth_error ts k') else dflt
  | None => dflt
  end.
Definition fits (cs : list comp) (per : person) : Prop := exists ts, person_triples cs per = Some ts /\ length ts <= K.

Lemma person_loop_ok cs f : f < F -> Forall (fun c => length (c_format c) = 3) cs ->
  forall people p0 a, Forall (fits cs) people -> shaped F P K a -> p0 + length people <= P ->
  exists a', person_loop cs people f p0 a = Ok a' /\ shaped F P K a' /\
    forall f' p' k', cell a' f' p' k' =
      if Nat.eqb f' f && (p0 <=? p') then
        match nth_error people (p' - p0) with Some per => pcell cs per k' (cell a f' p' k') | None => cell a f' p' k' end
      else cell a f' p' k'.
Proof.
  intros Hf Hfmt. induction people as [|per rest IH]; intros p0 a Hfit Hs Hp.
  - exists a. split; [reflexivity|]. split; [exact Hs|]. intros f' p' k'.
    destruct (Nat.eqb f' f && (p0 <=? p')); [|reflexivity]. destruct (p' - p0); reflexivity.
  - inversion Hfit as [|per' rest' [ts [Ept Hlen]] Hrest]; subst. cbn [length] in Hp. cbn [person_loop].
    destruct (comp_loop_ok f p0 Hf ltac:(lia) cs per ts 0 a Hfmt Ept Hs ltac:(lia)) as (a1 & R1 & Hs1 & G1).
    rewrite R1. cbn [rbind snd].
    destruct (IH (S p0) a1 Hrest Hs1 ltac:(lia)) as (a2 & R2 & Hs2 & G2).
    exists a2. split; [exact R2|]. split; [exact Hs2|].
    intros f' p' k'. rewrite G2, !G1. unfold inrow, pcell. rewrite Nat.sub_0_r. cbn [Nat.add].
    destruct (Nat.eqb_spec f' f) as [->|Nf]; cbn [andb]; [|reflexivity].
    destruct (Nat.leb_spec (S p0) p'), (Nat.leb_spec p0 p'); try lia.
    + destruct (Nat.eqb_spec p' p0); [lia|]. cbn [andb].
      replace (p' - p0) with (S (p' - S p0)) by lia. cbn [nth_error]. reflexivity.
    + assert (p' = p0) by lia. subst p'. rewrite Nat.eqb_refl, Nat.sub_diag. cbn [andb nth_error Nat.leb]. rewrite Ept.
      reflexivity.
    + destruct (Nat.eqb_spec p' p0); [lia|]. reflexivity.
Qed.

Lemma find_frame_none f (fs : frames) : ~ In f (map fst fs) -> find_frame f fs = None.
Proof.
  induction fs as [|[g fr] r IH]; intros H; [reflexivity|]. cbn [find_frame]. cbn [map fst In] in H.
  destruct (Nat.eqb_spec f g) as [->|N]; [tauto|]. apply IH. tauto.
Qed.

Lemma frame_loop_ok cs : Forall (fun c => length (c_format c) = 3) cs ->
  forall (fs : frames) a,
  Forall (fun x => fst x < F /\ length (snd x) <= P /\ Forall (fits cs) (snd x)) fs -> NoDup (map fst fs) -> shaped F P K a ->
  exists a', frame_loop cs fs a = Ok a' /\ shaped F P K a' /\
    forall f' p' k', cell a' f' p' k' =
      match find_frame f' fs with
      | Some fr => match nth_error fr p' with Some per => pcell cs per k' (cell a f' p' k') | None => cell a f' p' k' end
      | None => cell a f' p' k'
      end.
Proof.
  intros Hfmt. induction fs as [|[fid fr] rest IH]; intros a Hall Hnd Hs.
  - exists a. split; [reflexivity|]. split; [exact Hs|]. reflexivity.
  - inversion Hall as [|x r (Hf & Hp & Hfit) Hrest]; subst. cbn [fst snd] in *.
    cbn [map fst] in Hnd. inversion Hnd as [|y l Hnotin Hnd']; subst.
    cbn [frame_loop].
    destruct (person_loop_ok cs fid Hf Hfmt fr 0 a Hfit Hs ltac:(lia)) as (a1 & R1 & Hs1 & G1).
    rewrite R1. cbn [rbind].
    destruct (IH a1 Hrest Hnd' Hs1) as (a2 & R2 & Hs2 & G2).
    exists a2. split; [exact R2|]. split; [exact Hs2|].
    intros f' p' k'. rewrite G2. cbn [find_frame].
    destruct (Nat.eqb_spec f' fid) as [->|Nf].
    + rewrite (find_frame_none fid rest Hnotin). rewrite G1. rewrite Nat.eqb_refl. cbn [andb Nat.leb].
      rewrite Nat.sub_0_r. reflexivity.
    + destruct (find_frame f' rest) as [fr'|]; [|rewrite G1].
      * destruct (nth_error fr' p') as [per|]; rewrite G1; (destruct (Nat.eqb_spec f' fid); [contradiction|]); reflexivity.
      * destruct (Nat.eqb_spec f' fid); [contradiction|]. reflexivity.
Qed.
End Loops.
